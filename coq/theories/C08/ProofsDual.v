(* C08 — the optimality certificate over R: weak duality of l1-regularised least squares, dual
   feasibility of the code's rescaled dual point, soundness of the validator, and the invariants of
   the interior-point transition system (running dual bound, strict interiority, the meaning of an
   exit through the duality-gap rule) for EVERY linear solver / sequence of Newton directions. *)
From Coq Require Import List ZArith Reals Lra Lia Bool Arith.
From SC Require Import Base.Num C08.Model C08.ProofsBase.
Import ListNotations.
Local Open Scope R_scope.

(* ---------- real-number views of the objectives ---------- *)
Lemma pobj_R X yc lam w :
  pobj_of ROps X yc lam w =
  Rdot (map2 Rminus (Rmatvec X w) yc) (map2 Rminus (Rmatvec X w) yc) + lam * Rnorm1 w.
Proof.
  unfold pobj_of, residual. cbn [oadd omul ROps].
  rewrite dot_R, norm1_R, vsub_R, matvec_R. reflexivity.
Qed.
Lemma dual_value_R nu yc : dual_value ROps nu yc = - (Rdot nu nu) / 4 - Rdot nu yc.
Proof.
  unfold dual_value, c_gamma. cbn [oadd omul o0 o1 osub oneg odiv oofZ ROps].
  rewrite !dot_R. lra.
Qed.

Lemma pobj_nonneg X yc lam w : 0 <= lam -> 0 <= pobj_of ROps X yc lam w.
Proof.
  intros Hl. rewrite pobj_R.
  pose proof (Rdot_self_nonneg (map2 Rminus (Rmatvec X w) yc)).
  pose proof (Rnorm1_nonneg w). nra.
Qed.

(* completing the square, summed over the rows:
   |a - y|^2 + |nu|^2/4 + nu.y - nu.a = |a - y - nu/2|^2 >= 0 *)
Lemma square_completion (a y nu : list R) :
  length y = length a -> length nu = length a ->
  0 <= Rdot (map2 Rminus a y) (map2 Rminus a y) + Rdot nu nu / 4 + Rdot nu y - Rdot nu a.
Proof.
  revert y nu. induction a as [|x a IH]; intros [|b y] [|v nu] Hy Hn; try discriminate; cbn [map2 Rdot].
  - lra.
  - specialize (IH y nu ltac:(cbn in Hy; lia) ltac:(cbn in Hn; lia)).
    match goal with |- 0 <= ?E =>
      replace E with ((x - b - v / 2) * (x - b - v / 2) +
                      (Rdot (map2 Rminus a y) (map2 Rminus a y) + Rdot nu nu / 4 + Rdot nu y - Rdot nu a))
        by field end.
    apply Rplus_le_le_0_compat; [apply Rle_0_sqr | exact IH].
Qed.

(* WEAK DUALITY *)
Lemma l1ls_weak_duality (X : list (list R)) (y : list R) (lam : R) (w nu : list R) :
  length y = length X -> length nu = length X -> 0 <= lam ->
  Forall (fun v => Rabs v <= lam) (mattvec ROps (length w) X nu) ->
  dual_value ROps nu y <= pobj_of ROps X y lam w.
Proof.
  intros Hy Hn Hl Hf. rewrite dual_value_R, pobj_R. rewrite mattvec_R in Hf.
  pose proof (square_completion (Rmatvec X w) y nu) as Hsq.
  unfold Rmatvec in Hsq at 1 2. rewrite map_length in Hsq. specialize (Hsq Hy Hn).
  fold (Rmatvec X w) in Hsq.
  rewrite Rdot_adjoint in Hsq.
  pose proof (Rdot_holder lam _ w Hl Hf) as Hh.
  unfold Rabs in Hh. destruct (Rcase_abs _) in Hh; lra.
Qed.

(* ---------- the code's rescaling makes the dual point feasible ---------- *)
Lemma dual_nu_length X yc lam w :
  length yc = length X -> length (dual_nu ROps X yc lam w) = length X.
Proof.
  intros Hy. unfold dual_nu, vscale, residual.
  destruct (oltb ROps lam _); rewrite ?map_length; unfold vsub; rewrite map2_length;
    unfold matvec; rewrite map_length; lia.
Qed.

Lemma dual_scaling_feasible X yc lam w :
  0 <= lam ->
  Forall (fun v => Rabs v <= lam) (mattvec ROps (length w) X (dual_nu ROps X yc lam w)).
Proof.
  intros Hl. unfold dual_nu.
  set (nu := map (fun zi => omul ROps (two ROps) zi) (residual ROps X yc w)).
  set (mx := norm_inf ROps (mattvec ROps (length w) X nu)).
  destruct (norm_inf_bound (mattvec ROps (length w) X nu)) as [Hb Hpos]. fold mx in Hb, Hpos.
  cbn [oltb ROps]. destruct (Rltb lam mx) eqn:Hlt.
  - apply Rltb_true in Hlt. unfold vscale. cbn [omul odiv ROps].
    rewrite mattvec_R, Rmattvec_scale. rewrite mattvec_R in Hb.
    apply Forall_map. eapply Forall_impl; [|exact Hb]. cbn beta. intros v Hv.
    rewrite Rabs_mult. assert (0 < mx) by lra.
    assert (Hc : 0 <= lam / mx) by (apply Rmult_le_pos; [lra | left; apply Rinv_0_lt_compat; lra]).
    rewrite (Rabs_pos_eq (lam / mx)) by exact Hc.
    assert (Heq : mx * (lam / mx) = lam) by (field; lra).
    pose proof (Rabs_pos v). nra.
  - apply Rltb_false in Hlt. eapply Forall_impl; [|exact Hb]. cbn beta. intros v Hv. lra.
Qed.

(* the dual value of the code's dual point bounds the objective of EVERY w' in R^p from below *)
Lemma code_dual_point_lower_bound X yc lam w w' :
  length yc = length X -> 0 <= lam -> length w' = length w ->
  dual_value ROps (dual_nu ROps X yc lam w) yc <= pobj_of ROps X yc lam w'.
Proof.
  intros Hy Hl Hw. apply l1ls_weak_duality; auto.
  - apply dual_nu_length; assumption.
  - rewrite Hw. apply dual_scaling_feasible; assumption.
Qed.

(* ---------- the validator ---------- *)
Lemma forallb_Forall {A} (f : A -> bool) (P : A -> Prop) (l : list A) :
  (forall x, f x = true -> P x) -> forallb f l = true -> Forall P l.
Proof.
  intros H. induction l as [|x l IH]; cbn [forallb]; intros Hf; constructor.
  - apply H. apply andb_prop in Hf. tauto.
  - apply IH. apply andb_prop in Hf. tauto.
Qed.

Lemma check_gap_with_nu_sound X yc lam w nu ctol :
  check_gap_with_nu ROps X yc lam w nu ctol = true ->
  forall w', length w' = length w ->
    pobj_of ROps X yc lam w <= (1 + ctol) * pobj_of ROps X yc lam w'.
Proof.
  unfold check_gap_with_nu. cbn [oleb oabs o0 osub omul ROps]. intros H w' Hw'.
  repeat (apply andb_prop in H; destruct H as [H ?]).
  match goal with h : Rleb (_ - _) _ = true |- _ => apply Rleb_true in h; rename h into Hgap end.
  match goal with h : forallb _ _ = true |- _ => rename h into Hfe end.
  match goal with h : Rleb 0 ctol = true |- _ => apply Rleb_true in h; rename h into Hc end.
  match goal with h : Rleb 0 lam = true |- _ => apply Rleb_true in h; rename h into Hl end.
  match goal with h : Nat.eqb (length nu) _ = true |- _ => apply Nat.eqb_eq in h; rename h into Hn end.
  apply Nat.eqb_eq in H.
  assert (Hfeas : Forall (fun v => Rabs v <= lam) (mattvec ROps (length w') X nu)).
  { rewrite Hw'. eapply forallb_Forall; [|exact Hfe]. intros v Hv. apply Rleb_true in Hv. exact Hv. }
  pose proof (l1ls_weak_duality X yc lam w' nu H Hn Hl Hfeas) as Hwd.
  nra.
Qed.

Lemma check_gap_certificate_sound X yc lam w wd shrink ctol :
  check_gap_certificate ROps X yc lam w wd shrink ctol = true ->
  forall w', length w' = length w ->
    pobj_of ROps X yc lam w <= (1 + ctol) * pobj_of ROps X yc lam w'.
Proof. unfold check_gap_certificate. apply check_gap_with_nu_sound. Qed.

(* ---------- the transition system ---------- *)
Section Run.
  Variable solver : solver_t (T := R).
  Variables (X : list (list R)) (yc : list R) (lam tol : R).
  Variable p : nat.
  Hypothesis Hy : length yc = length X.
  Hypothesis Hlam : 0 <= lam.
  (* the only thing asked of the linear solver: its answer has 2p entries *)
  Hypothesis Hshape : forall k st z gap b d, solver k st z gap = Some (b, d) -> length d = (2 * p)%nat.

  Definition strictly_interior (w u : list R) : Prop :=
    Forall (fun wu => Rabs (fst wu) < snd wu) (combine w u).
  Definition lower_bound (d : R) : Prop :=
    forall w', length w' = p -> d <= pobj_of ROps X yc lam w'.

  Record ip_inv (st : ipstate (T := R)) : Prop := {
    inv_lw : length (st_w st) = p;
    inv_lu : length (st_u st) = p;
    inv_int : strictly_interior (st_w st) (st_u st);
    inv_lb : lower_bound (st_dobj st);
    inv_nonneg : 0 <= st_dobj st }.

  Lemma interior_spec w u : interior ROps w u = true -> strictly_interior w u.
  Proof.
    unfold interior, strictly_interior. apply forallb_Forall. intros [a b].
    cbn [fst snd oltb osub oneg o0 ROps]. intros H. apply andb_prop in H. destruct H as [H1 H2].
    apply Rltb_true in H1. apply Rltb_true in H2. apply Rabs_def1; lra.
  Qed.

  Lemma init_inv : ip_inv (ip_init ROps p lam).
  Proof.
    constructor; cbn [ip_init st_w st_u st_dobj].
    - apply repeat_length.
    - apply repeat_length.
    - unfold strictly_interior. cbn [o0 o1 ROps]. clear. induction p as [|k IH]; cbn [repeat combine].
      + constructor.
      + constructor; [cbn [fst snd]; rewrite Rabs_R0; lra | exact IH].
    - intros w' _. cbn [o0 ROps]. apply pobj_nonneg; assumption.
    - cbn [o0 ROps]. lra.
  Qed.

  Lemma gap_stage_lb w d :
    length w = p -> lower_bound d -> lower_bound (g_dobj (gap_stage ROps X yc lam w d)).
  Proof.
    intros Hw Hd w' Hw'. cbn [gap_stage g_dobj]. rewrite omax_R.
    apply Rmax_lub; [apply Hd; assumption|].
    apply code_dual_point_lower_bound; auto. congruence.
  Qed.
  Lemma gap_stage_mono w d : d <= g_dobj (gap_stage ROps X yc lam w d).
  Proof. cbn [gap_stage g_dobj]. rewrite omax_R. apply Rmax_l. Qed.

  Lemma line_search_interior fuel t w u dx du phi gdx s s' neww newu :
    line_search ROps fuel X yc lam t w u dx du phi gdx s = Some (s', neww, newu) ->
    strictly_interior neww newu /\ neww = axpy ROps s' dx w /\ newu = axpy ROps s' du u.
  Proof.
    revert s. induction fuel as [|fuel IH]; intros s; cbn [line_search]; [discriminate|].
    destruct (ls_try ROps X yc lam t w u dx du phi gdx s) as [[nw nu]|] eqn:Htry.
    - intros H; inversion H; subst. unfold ls_try in Htry.
      destruct (interior ROps (axpy ROps s' dx w) (axpy ROps s' du u)) eqn:Hint; [|discriminate].
      destruct (oleb ROps _ _); [|discriminate]. inversion Htry; subst.
      split; [apply interior_spec; exact Hint | split; reflexivity].
    - apply IH.
  Qed.

  Lemma axpy_length a x y : length (axpy ROps a x y) = Nat.min (length x) (length y).
  Proof. unfold axpy. apply map2_length. Qed.

  Lemma ip_iter_next k st st' :
    ip_inv st -> ip_iter ROps solver X yc lam tol k st = IpNext st' -> ip_inv st'.
  Proof.
    intros [Hlw Hlu Hint Hlb Hnn]. unfold ip_iter.
    destruct (stop_test ROps _ _ tol); [discriminate|].
    match goal with |- context [solver ?a ?b ?c ?d] => destruct (solver a b c d) as [[b0 dxu]|] eqn:Hs end; [|discriminate].
    apply Hshape in Hs.
    match goal with |- context [line_search ?O ?f ?X' ?y' ?l' ?t' ?w' ?u' ?dx' ?du' ?ph ?g ?s0] =>
      destruct (line_search O f X' y' l' t' w' u' dx' du' ph g s0) as [[[s nw] nu]|] eqn:Hls end.
    - intros H; inversion H; subst; clear H.
      apply line_search_interior in Hls. destruct Hls as [Hi [Hnw Hnu]].
      constructor; cbn [st_w st_u st_dobj].
      + rewrite Hnw, axpy_length, firstn_length, Hs, Hlw. lia.
      + rewrite Hnu, axpy_length, skipn_length, Hs, Hlw, Hlu. lia.
      + exact Hi.
      + apply gap_stage_lb; assumption.
      + eapply Rle_trans; [exact Hnn | apply gap_stage_mono].
    - (* all trial steps rejected: the null step keeps the iterate *)
      destruct (is_finite ROps _ && is_finite ROps _); [|discriminate].
      intros H; inversion H; subst; clear H.
      constructor; cbn [st_w st_u st_dobj]; auto.
      + apply gap_stage_lb; assumption.
      + eapply Rle_trans; [exact Hnn | apply gap_stage_mono].
  Qed.

  (* an exit through the stopping rule: the returned w is the current iterate, and the reported
     pair (pobj, dobj) is its objective and a lower bound of the optimum that passed the test *)
  Lemma ip_iter_stop k st w pobj dobj :
    ip_inv st -> ip_iter ROps solver X yc lam tol k st = IpStop w pobj dobj ->
    w = st_w st /\ pobj = pobj_of ROps X yc lam w /\ lower_bound dobj /\ 0 <= dobj /\
    stop_test ROps (pobj - dobj) dobj tol = true.
  Proof.
    intros [Hlw Hlu Hint Hlb Hnn]. unfold ip_iter.
    destruct (stop_test ROps _ _ tol) eqn:Hst.
    - intros H; inversion H; subst; clear H. repeat split.
      + apply gap_stage_lb; assumption.
      + eapply Rle_trans; [exact Hnn | apply gap_stage_mono].
      + exact Hst.
    - destruct (solver _ _ _ _) as [[b0 dxu]|]; [|discriminate].
      destruct (line_search _ _ _ _ _ _ _ _ _ _ _ _ _) as [[[s nw] nu]|]; [discriminate|].
      destruct (is_finite ROps _ && is_finite ROps _); discriminate.
  Qed.

  Inductive reachable : nat -> ipstate (T := R) -> Prop :=
  | reach_init : reachable 0 (ip_init ROps p lam)
  | reach_step k st st' : reachable k st -> ip_iter ROps solver X yc lam tol k st = IpNext st' ->
                          reachable (S k) st'.

  Lemma reachable_inv k st : reachable k st -> ip_inv st.
  Proof. induction 1; [apply init_inv | eapply ip_iter_next; eassumption]. Qed.

  (* the loop: whatever it returns, the reported dual bound is a lower bound of the optimum; an exit
     through the gap rule returns a w whose objective passed the test against that bound *)
  Lemma ip_loop_result fuel k st w r d :
    ip_inv st -> ip_loop ROps solver X yc lam tol fuel k st = Some (w, r, d) ->
    lower_bound d /\ 0 <= d /\ length w = p /\
    (r = ExitGap -> stop_test ROps (pobj_of ROps X yc lam w - d) d tol = true).
  Proof.
    revert k st. induction fuel as [|fuel IH]; intros k st Hinv; cbn [ip_loop].
    - intros H; inversion H; subst. destruct Hinv. repeat split; auto. discriminate.
    - destruct (ip_iter ROps solver X yc lam tol k st) as [w0 po d0|st'|] eqn:Hit.
      + intros H; inversion H; subst; clear H.
        destruct (ip_iter_stop _ _ _ _ _ Hinv Hit) as [Hw [Hp [Hlb [Hnn Hst]]]]. subst.
        destruct Hinv. repeat split; auto.
      + intros H. eapply IH; [|exact H]. eapply ip_iter_next; eassumption.
      + discriminate.
  Qed.

  (* the stopping rule `gap / dobj < tol || gap <= 0` with dobj > 0 : objective within a factor
     (1 + tol) of the optimum; through the second disjunct the iterate is exactly optimal *)
  Lemma stop_test_near_optimal w d :
    0 <= tol -> 0 < d -> lower_bound d -> stop_test ROps (pobj_of ROps X yc lam w - d) d tol = true ->
    forall w', length w' = p -> pobj_of ROps X yc lam w <= (1 + tol) * pobj_of ROps X yc lam w'.
  Proof.
    intros Htol Hd Hlb Hst w' Hw'. unfold stop_test in Hst. cbn [oltb oleb odiv o0 ROps] in Hst.
    specialize (Hlb w' Hw').
    set (P := pobj_of ROps X yc lam w) in *. set (P' := pobj_of ROps X yc lam w') in *.
    assert (0 <= P') by (apply pobj_nonneg; assumption).
    apply orb_prop in Hst. destruct Hst as [Hst|Hst].
    - apply Rltb_true in Hst.
      assert (Hgap : P - d < tol * d).
      { apply (Rmult_lt_compat_r d) in Hst; [|exact Hd]. unfold Rdiv in Hst.
        rewrite Rmult_assoc, Rinv_l in Hst by lra. lra. }
      nra.
    - apply Rleb_true in Hst. nra.
  Qed.

  Lemma closed_gap_optimal w d :
    lower_bound d -> oleb ROps (pobj_of ROps X yc lam w - d) (o0 ROps) = true ->
    forall w', length w' = p -> pobj_of ROps X yc lam w <= pobj_of ROps X yc lam w'.
  Proof.
    intros Hlb Hst w' Hw'. cbn [oleb o0 ROps] in Hst. apply Rleb_true in Hst.
    specialize (Hlb w' Hw'). lra.
  Qed.

  Lemma gap_stop_near_optimal fuel w d :
    ip_loop ROps solver X yc lam tol fuel 0 (ip_init ROps p lam) = Some (w, ExitGap, d) ->
    0 <= tol -> 0 < d ->
    forall w', length w' = p -> pobj_of ROps X yc lam w <= (1 + tol) * pobj_of ROps X yc lam w'.
  Proof.
    intros H Htol Hd. destruct (ip_loop_result _ _ _ _ _ _ init_inv H) as [Hlb [_ [_ Hst]]].
    apply stop_test_near_optimal with (d := d); auto.
  Qed.
End Run.

(* ---------- InteriorPointOptimizer::optimize as a whole ---------- *)
Lemma c_eps_pos : 0 < c_eps ROps.
Proof.
  unfold c_eps. cbn [odiv o1 oofZ ROps]. apply Rdiv_lt_0_compat; [lra|].
  apply IZR_lt. reflexivity.
Qed.
Lemma center_length y : length (center ROps y) = length y.
Proof. unfold center. apply map_length. Qed.

(* the penalty the iterations actually use *)
Definition lam_used (lam : R) : R := omax ROps lam (c_eps ROps).
Lemma lam_used_pos lam : 0 < lam_used lam.
Proof. unfold lam_used. rewrite omax_R. pose proof c_eps_pos. pose proof (Rmax_r lam (c_eps ROps)). lra. Qed.

Lemma optimize_gen_near_optimal (solver : solver_t (T := R)) X y lam max_iter tol w d :
  length y = length X ->
  (forall k st z gap b dxu, solver k st z gap = Some (b, dxu) -> length dxu = (2 * ncols X)%nat) ->
  optimize_gen ROps solver X y lam max_iter tol = Some (w, ExitGap, d) -> 0 <= tol -> 0 < d ->
  forall w', length w' = ncols X ->
    lasso_objective ROps X (center ROps y) (lam_used lam) w
    <= (1 + tol) * lasso_objective ROps X (center ROps y) (lam_used lam) w'.
Proof.
  intros Hy Hs H Htol Hd w' Hw'. unfold optimize_gen in H. fold (lam_used lam) in H.
  unfold lasso_objective.
  eapply gap_stop_near_optimal with (p := ncols X); try eassumption.
  - rewrite center_length. exact Hy.
  - left. apply lam_used_pos.
Qed.

Lemma optimize_gen_dobj_lower_bound (solver : solver_t (T := R)) X y lam max_iter tol w r d :
  length y = length X ->
  (forall k st z gap b dxu, solver k st z gap = Some (b, dxu) -> length dxu = (2 * ncols X)%nat) ->
  optimize_gen ROps solver X y lam max_iter tol = Some (w, r, d) ->
  forall w', length w' = ncols X -> d <= lasso_objective ROps X (center ROps y) (lam_used lam) w'.
Proof.
  intros Hy Hs H w' Hw'. unfold optimize_gen in H. fold (lam_used lam) in H.
  pose proof (ip_loop_result solver X (center ROps y) (lam_used lam) tol (ncols X)) as L.
  specialize (L ltac:(rewrite center_length; exact Hy) ltac:(left; apply lam_used_pos) Hs).
  destruct (L _ _ _ _ _ _ (init_inv X (center ROps y) (lam_used lam) (ncols X) ltac:(left; apply lam_used_pos)) H) as [Hlb _].
  apply Hlb. exact Hw'.
Qed.
