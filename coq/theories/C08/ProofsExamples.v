(* C08 — concrete real-number instances showing that the hypotheses of the property theorems are
   satisfiable (used by the `Example`s of Properties/C08.v). *)
From Coq Require Import List ZArith Reals Lra Lia Bool Arith.
From SC Require Import Base.Num C08.Model C08.ProofsBase C08.ProofsDual C08.ProofsFit.
Import ListNotations.
Local Open Scope R_scope.

(* decide the comparisons / absolute values of closed real expressions *)
Ltac rb1 :=
  match goal with
  | |- context [Rabs ?x] => first [rewrite (Rabs_pos_eq x) by lra | rewrite (Rabs_left x) by lra]
  | |- context [Rltb ?a ?b] =>
    first [ replace (Rltb a b) with true by (symmetry; apply Rltb_true; lra)
          | replace (Rltb a b) with false by (symmetry; apply Rltb_false; lra) ]
  | |- context [Rleb ?a ?b] =>
    first [ replace (Rleb a b) with true by (symmetry; apply Rleb_true; lra)
          | replace (Rleb a b) with false by (symmetry; apply Rleb_false; lra) ]
  end.
Ltac unf :=
  cbv [ip_loop ip_iter gap_stage dual_nu residual vsub matvec mattvec col dot norm_inf norm1 vscale pobj_of
       dual_value stop_test c_gamma two ip_init st_w st_u st_dobj st_t st_s g_gap g_dobj g_pobj g_z g_nu
       map2 map fold_left combine seq nth length repeat fst snd omax omin
       check_gap_with_nu check_gap_certificate cert_nu forallb Nat.eqb andb orb
       o0 o1 oadd osub omul odiv oneg oabs oltb oleb oofZ ROps].
Ltac rcompute := unf; repeat (rb1; cbv iota beta).

(* weak duality: a 3 x 2 instance with a feasible, non-optimal dual point *)
Lemma ex_weak_duality_hyps :
  let X := [[1; 0]; [1; 1]; [0; 2]] in
  let nu := [-1 / 2; -1 / 2; -1 / 4] in
  Forall (fun v => Rabs v <= 1) (mattvec ROps 2 X nu) /\
  dual_value ROps nu [1; 2; 3] = 135 / 64 /\
  pobj_of ROps X [1; 2; 3] 1 [1; 1] = 3.
Proof.
  cbv zeta. split; [|split].
  - unf. apply Forall_cons; [apply Rabs_le; lra | apply Forall_cons; [apply Rabs_le; lra | apply Forall_nil]].
  - rcompute. lra.
  - rcompute. lra.
Qed.

(* the loop leaves through the gap rule with a positive dual bound, whatever the solver:
   lam = 4 = lam_max of this instance, so w = 0 is optimal and the gap is closed at once *)
Lemma ex_gap_stop (solver : solver_t (T := R)) :
  ip_loop ROps solver [[1]; [-1]] [1; -1] 4 (1 / 10) 1 0 (ip_init ROps 1 4) = Some ([0], ExitGap, 2).
Proof. rcompute. repeat f_equal. lra. Qed.

(* the validator accepts a certificate: same instance, dual point -2 * yc *)
Lemma ex_certificate_accepts :
  check_gap_with_nu ROps [[1]; [-1]] [1; -1] 4 [0] [-2; 2] (1 / 100) = true.
Proof. rcompute. reflexivity. Qed.

(* a non-trivial step of the transition system exists: any solver that answers, and a line search
   that accepts, is covered by `reachable`; the initial state is always reachable *)
Lemma ex_reachable (solver : solver_t (T := R)) :
  reachable solver [[1; 2]; [3; 4]; [5; 7]] [1; -2; 1] 1 (1 / 1000) 2 0 (ip_init ROps 2 1).
Proof. constructor. Qed.

(* constant column under normalisation *)
Lemma ex_constant_column :
  let X := [[1; 5]; [2; 5]; [3; 5]] in
  X <> [] /\ (1 < ncols X)%nat /\ col ROps 1 X = repeat 5 (length X).
Proof. cbv zeta. split; [discriminate | split; [cbn; lia | reflexivity]]. Qed.

(* shapes for the elastic-net identity and the back-transformation *)
Lemma ex_enet_shapes :
  let X := [[1; 2]; [3; 4]; [5; 7]] in
  0 <= 1 / 2 /\ length [1; 2; 4] = length X /\ ncols X = length [1; -1].
Proof. cbv zeta. split; [lra | split; reflexivity]. Qed.
Lemma ex_back_transform_shapes :
  let X := [[1; 2]; [3; 4]; [5; 7]] in
  Forall (fun row : list R => length row = length [1; -1]) X /\
  length [3; 13 / 3] = length [1; -1] /\ length [2; 3] = length [1; -1] /\
  Forall (fun s : R => s <> 0) [2; 3].
Proof.
  cbv zeta. repeat split; try reflexivity.
  - repeat (apply Forall_cons; [reflexivity|]). apply Forall_nil.
  - apply Forall_cons; [lra | apply Forall_cons; [lra | apply Forall_nil]].
Qed.
