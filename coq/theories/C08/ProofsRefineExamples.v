(* C08 — satisfiability instances for the theorems about the executable optimize / lasso_fit /
   enet_fit (ProofsRefine.v): the 2 x 1 design of ProofsExamples2.v, on which the gap closes at the
   first test, now with the code's own solver; and a binary64 run of the executable optimize that
   takes several Newton/PCG iterations before it leaves through the gap rule. *)
From Coq Require Import List ZArith Reals Lra Lia Bool Arith Floats.
From SC Require Import Base.Num C08.Model C08.ProofsBase C08.ProofsDual C08.ProofsFit C08.ProofsGap C08.ProofsEnd
  C08.ProofsExamples C08.ProofsExamples2 C08.ProofsRefine.
Import ListNotations.
Local Open Scope R_scope.

Lemma ex_optimize_exec :
  optimize ROps [[1]; [-1]] [1; -1] (2 * IZR (Z.of_nat 2)) 1 (1 / 10) = Some ([0], ExitGap, 2).
Proof. unfold optimize. apply ex_optimize_gap. Qed.

Lemma ex_lasso_fit_exec_hyps :
  let X := [[1]; [-1]] in
  Forall (fun row => length row = ncols X) X /\
  lasso_valid ROps (length X) (ncols X) (length [1; -1]) 2 (1 / 10) 1 = true /\
  design false X = Some X /\
  optimize ROps X [1; -1] (2 * IZR (Z.of_nat (length X))) 1 (1 / 10) = Some ([0], ExitGap, 2).
Proof.
  pose proof (ex_lasso_fit_hyps (fun X lam => pcg_solver ROps X (omax ROps lam (c_eps ROps)))) as H.
  cbv zeta in *. destruct H as [H1 [H2 [H3 H4]]]. repeat split; try assumption.
Qed.

Lemma ex_enet_fit_exec_hyps :
  let X := [[1]; [-1]] in
  let y := [1; -1] in
  let nf := IZR (Z.of_nat (length X)) in
  0 <= 2 * (1 - 1) * nf /\ design false X = Some X /\
  let '(X2, y2, gamma) := augment ROps X y (2 * (1 - 1) * nf) in
  optimize ROps X2 y2 (2 * 1 * nf * gamma) 1 (1 / 10) = Some ([0], ExitGap, 2).
Proof.
  pose proof (ex_enet_fit_hyps (fun X lam => pcg_solver ROps X (omax ROps lam (c_eps ROps)))) as H.
  cbv zeta in *. destruct H as [H1 [H2 H3]]. split; [exact H1 | split; [exact H2|]].
  destruct (augment ROps _ _ _) as [[X2 y2] gamma]. exact H3.
Qed.

(* the binary64 instance of the same executable definition on a 4 x 2 design: Newton/PCG iterations
   are really taken (the budget of 1 and of 3 iterations is exhausted: ExitMaxIter) and the loop then
   leaves through the gap rule *)
Definition exf_X : list (list float) := [[1; 2]; [3; 1]; [-1; 1]; [2; -2]]%float.
Definition exf_y : list float := [3; 2; 1; -1]%float.
Definition exit_of (r : option (list float * exit_reason * float)) : option exit_reason :=
  match r with Some (_, e, _) => Some e | None => None end.
Lemma ex_optimize_binary64_runs :
  exit_of (optimize FOps exf_X exf_y 1%float 1 0x1p-10%float) = Some ExitMaxIter /\
  exit_of (optimize FOps exf_X exf_y 1%float 3 0x1p-10%float) = Some ExitMaxIter /\
  exit_of (optimize FOps exf_X exf_y 1%float 100 0x1p-10%float) = Some ExitGap.
Proof. vm_compute. repeat split. Qed.
