(* C08 — the EXECUTABLE optimiser is an instance of the transition system.
   The certificate theorems (ProofsDual / ProofsGap / ProofsEnd) are about `optimize_gen solver` for
   solvers that return 2p numbers on EVERY call (`solver_shape`).  The model of the code's solver,
   `pcg_solver` (preconditioned BiCG, `solve_mut` / `pcg_loop`, warm-started from the last direction),
   returns min(2p, length of the warm start) numbers, so it has that shape only on states whose
   warm start has 2p entries — which is the case in every state the loop reaches (the warm start is
   the zero vector of length 2p at the start and the previous answer afterwards).  This file proves
   exactly that, and transfers the theorems:
     - `pcg_solver_shape`: on a state with |w| = p and |dxu| = 2p, whatever pcg_solver returns has 2p
       entries (nothing else is needed from it: no accuracy, no descent property);
     - `guard_solver p s`: s on the states with |w| = p, |dxu| = 2p and Err elsewhere; it has
       `solver_shape` unconditionally, and `ip_loop` / `reachable` cannot tell it from s
       (`ip_loop_guard`, `reachable_guard_iff`);
     - `ip_loop_trace`: whatever `ip_loop` returns, it was produced by a finite path of the
       transition system (`reachable`) ending in the matching rule: `IpStop` for the gap exit, the
       exhausted `for ntiter in 0..max_iter` for ExitMaxIter, `IpFail` for Err;
     - `optimize_is_guarded`, `optimize_refines_ts`, and the corollaries stated directly about
       `optimize`, `lasso_fit` and `enet_fit` (the executable definitions the correspondence runs). *)
From Coq Require Import List ZArith Reals Lra Lia Bool Arith.
From SC Require Import Base.Num C08.Model C08.ProofsBase C08.ProofsDual C08.ProofsFit C08.ProofsGap C08.ProofsEnd.
Import ListNotations.
Local Open Scope R_scope.

(* ---------- the shape of what the BiCG model returns ---------- *)
Lemma bkpz_length bk (a b : list R) : length (bkpz ROps bk a b) = Nat.min (length a) (length b).
Proof. unfold bkpz. apply map2_length. Qed.
Lemma xmay_length ak (a b : list R) : length (xmay ROps ak a b) = Nat.min (length a) (length b).
Proof. unfold xmay. apply map2_length. Qed.

Lemma pcg_loop_length (A M : list R -> list R) (m : nat) :
  (forall v, length (M v) = m) ->
  forall fuel first tol bnrm x r rr z p pp bkden err,
  length x = m -> length z = m -> (first = false -> length p = m) ->
  length (snd (pcg_loop ROps fuel first A M tol bnrm x r rr z p pp bkden err)) = m.
Proof.
  intros HM. induction fuel as [|fuel IH]; intros first tol bnrm x r rr z p pp bkden err Hx Hz Hp;
    cbn [pcg_loop]; [exact Hx|].
  set (p' := if first then z else bkpz ROps _ p z).
  assert (Hp' : length p' = m).
  { unfold p'. destruct first; [exact Hz|]. rewrite bkpz_length, Hz, (Hp eq_refl). apply Nat.min_id. }
  destruct (oleb ROps _ tol).
  - cbn [snd]. rewrite axpy_length, Hp', Hx. apply Nat.min_id.
  - apply IH.
    + rewrite axpy_length, Hp', Hx. apply Nat.min_id.
    + apply HM.
    + intros _. exact Hp'.
Qed.

Lemma ip_precond_length p nw b : length (ip_precond ROps p nw b) = (2 * p)%nat.
Proof. unfold ip_precond. rewrite app_length, !map_length, seq_length. lia. Qed.
Lemma ip_mat_vec_length p ata nw x : length (ip_mat_vec ROps p ata nw x) = (2 * p)%nat.
Proof. unfold ip_mat_vec. rewrite app_length, !map_length, seq_length. lia. Qed.

Lemma solve_mut_length (A M : list R -> list R) (m : nat) b x tol mi err x' :
  (forall v, length (M v) = m) -> length x = m ->
  solve_mut ROps A M b x tol mi = Some (err, x') -> length x' = m.
Proof.
  intros HM Hx. unfold solve_mut. destruct (oleb ROps tol _); [discriminate|].
  destruct (Nat.eqb mi 0); [discriminate|]. intros H.
  injection H as H. apply (f_equal snd) in H. cbn [snd] in H. rewrite <- H.
  apply pcg_loop_length; auto. discriminate.
Qed.

(* the only thing the certificate needs from the code's solver, and only where the loop calls it *)
Lemma pcg_solver_shape X lam p k st z gap b dxu :
  length (st_w st) = p -> length (st_dxu st) = (2 * p)%nat ->
  pcg_solver ROps X lam k st z gap = Some (b, dxu) -> length dxu = (2 * p)%nat.
Proof.
  intros Hw Hd. unfold pcg_solver. rewrite Hw.
  destruct (solve_mut ROps _ _ _ _ _ _) as [[err d]|] eqn:Hs; [|discriminate].
  intros H. injection H as _ H. subst d.
  eapply solve_mut_length; [|exact Hd|exact Hs]. intros v. apply ip_precond_length.
Qed.

(* ---------- guarding a solver by the shape of the state it is called on ---------- *)
Definition shaped (p : nat) (st : ipstate (T := R)) : bool :=
  Nat.eqb (length (st_w st)) p && Nat.eqb (length (st_dxu st)) (2 * p).
Definition guard_solver (p : nat) (s : solver_t (T := R)) : solver_t (T := R) :=
  fun k st z gap => if shaped p st then s k st z gap else None.

Lemma shaped_true p st : shaped p st = true <-> length (st_w st) = p /\ length (st_dxu st) = (2 * p)%nat.
Proof. unfold shaped. rewrite andb_true_iff, !Nat.eqb_eq. tauto. Qed.

(* a solver that answers with 2p numbers on shaped states *)
Definition shape_on_shaped (s : solver_t (T := R)) (p : nat) : Prop :=
  forall k st z gap b dxu, length (st_w st) = p -> length (st_dxu st) = (2 * p)%nat ->
    s k st z gap = Some (b, dxu) -> length dxu = (2 * p)%nat.

Lemma guard_solver_shape s p : shape_on_shaped s p -> solver_shape (guard_solver p s) p.
Proof.
  intros Hs k st z gap b dxu. unfold guard_solver. destruct (shaped p st) eqn:E; [|discriminate].
  apply shaped_true in E. destruct E. eapply Hs; eassumption.
Qed.
Lemma pcg_shape_on_shaped X lam p : shape_on_shaped (pcg_solver ROps X lam) p.
Proof. intros k st z gap b dxu. apply pcg_solver_shape. Qed.

Section Refine.
  Variable s : solver_t (T := R).
  Variables (X : list (list R)) (yc : list R) (lam tol : R).
  Variable p : nat.
  Hypothesis Hy : length yc = length X.
  Hypothesis Hlam : 0 <= lam.
  Hypothesis Hs : shape_on_shaped s p.
  Let g := guard_solver p s.
  Let Hg : solver_shape g p := guard_solver_shape s p Hs.

  (* one iteration cannot tell the guarded solver from the original one on a shaped state *)
  Lemma ip_iter_guard k st :
    length (st_w st) = p -> length (st_dxu st) = (2 * p)%nat ->
    ip_iter ROps g X yc lam tol k st = ip_iter ROps s X yc lam tol k st.
  Proof.
    intros Hw Hd. unfold ip_iter, g, guard_solver, shaped. cbn [st_w st_dxu].
    rewrite Hw, Hd, !Nat.eqb_refl. reflexivity.
  Qed.

  (* the direction stored in the next state is what the solver returned *)
  Lemma ip_iter_next_dxu (sv : solver_t (T := R)) k st st' :
    ip_iter ROps sv X yc lam tol k st = IpNext st' ->
    exists st1 z gap b, sv k st1 z gap = Some (b, st_dxu st').
  Proof.
    unfold ip_iter. destruct (stop_test ROps _ _ tol); [discriminate|].
    match goal with |- context [sv ?a ?b ?c ?d] => destruct (sv a b c d) as [[b0 dxu]|] eqn:E end; [|discriminate].
    destruct (line_search _ _ _ _ _ _ _ _ _ _ _ _ _) as [[[s0 nw] nu]|].
    - intros H; inversion H; subst. cbn [st_dxu]. eauto.
    - destruct (is_finite ROps _ && is_finite ROps _); [|discriminate].
      intros H; inversion H; subst. cbn [st_dxu]. eauto.
  Qed.

  Definition ip_inv2 (st : ipstate (T := R)) : Prop :=
    ip_inv X yc lam p st /\ length (st_dxu st) = (2 * p)%nat.

  Lemma init_inv2 : ip_inv2 (ip_init ROps p lam).
  Proof. split; [apply init_inv; exact Hlam | cbn [ip_init st_dxu]; apply repeat_length]. Qed.

  Lemma ip_iter_next2 k st st' :
    ip_inv2 st -> ip_iter ROps s X yc lam tol k st = IpNext st' -> ip_inv2 st'.
  Proof.
    intros [Hi Hd] Hit. rewrite <- ip_iter_guard in Hit by (try exact Hd; apply (inv_lw _ _ _ _ _ Hi)).
    split.
    - eapply (ip_iter_next g X yc lam tol p Hy Hlam Hg); eassumption.
    - destruct (ip_iter_next_dxu g _ _ _ Hit) as [st1 [z [gap [b E]]]]. eapply Hg; exact E.
  Qed.

  Lemma reachable_inv2 k st : reachable s X yc lam tol p k st -> ip_inv2 st.
  Proof. induction 1; [apply init_inv2 | eapply ip_iter_next2; eassumption]. Qed.

  (* the two transition systems have the same reachable states *)
  Lemma reachable_guard_iff k st :
    reachable s X yc lam tol p k st <-> reachable g X yc lam tol p k st.
  Proof.
    split.
    - induction 1 as [|k st st' Hr IH Hit]; [constructor|].
      destruct (reachable_inv2 _ _ Hr) as [Hi Hd].
      econstructor; [exact IH|]. rewrite ip_iter_guard; [exact Hit | apply (inv_lw _ _ _ _ _ Hi) | exact Hd].
    - induction 1 as [|k st st' Hr IH Hit]; [constructor|].
      destruct (reachable_inv2 _ _ IH) as [Hi Hd].
      econstructor; [exact IH|]. rewrite <- ip_iter_guard; [exact Hit | apply (inv_lw _ _ _ _ _ Hi) | exact Hd].
  Qed.

  (* the executable loop run with s is the loop of the guarded (unconditionally shaped) solver *)
  Lemma ip_loop_guard fuel k st :
    ip_inv2 st -> ip_loop ROps g X yc lam tol fuel k st = ip_loop ROps s X yc lam tol fuel k st.
  Proof.
    revert k st. induction fuel as [|fuel IH]; intros k st Hi; cbn [ip_loop]; [reflexivity|].
    destruct Hi as [Hi Hd].
    rewrite ip_iter_guard by (try exact Hd; apply (inv_lw _ _ _ _ _ Hi)).
    destruct (ip_iter ROps s X yc lam tol k st) as [w0 po d0|st'|] eqn:Hit; try reflexivity.
    apply IH. eapply ip_iter_next2; [split; eassumption | exact Hit].
  Qed.
End Refine.

(* ---------- whatever ip_loop returns was produced by a path of the transition system ---------- *)
Section Trace.
  Variable s : solver_t (T := R).
  Variables (X : list (list R)) (yc : list R) (lam tol : R).
  Variable p : nat.

  Definition loop_outcome (k fuel : nat) (r : option (list R * exit_reason * R)) : Prop :=
    match r with
    | Some (w, ExitGap, d) =>
        exists j st po, (k <= j < k + fuel)%nat /\ reachable s X yc lam tol p j st /\
                        ip_iter ROps s X yc lam tol j st = IpStop w po d
    | Some (w, ExitMaxIter, d) =>
        exists st, reachable s X yc lam tol p (k + fuel) st /\ w = st_w st /\ d = st_dobj st
    | None =>
        exists j st, (k <= j < k + fuel)%nat /\ reachable s X yc lam tol p j st /\
                     ip_iter ROps s X yc lam tol j st = IpFail
    end.

  Lemma ip_loop_trace fuel k st :
    reachable s X yc lam tol p k st ->
    loop_outcome k fuel (ip_loop ROps s X yc lam tol fuel k st).
  Proof.
    revert k st. induction fuel as [|fuel IH]; intros k st Hr; cbn [ip_loop].
    - cbn [loop_outcome]. exists st. rewrite Nat.add_0_r. auto.
    - destruct (ip_iter ROps s X yc lam tol k st) as [w0 po d0|st'|] eqn:Hit.
      + cbn [loop_outcome]. exists k, st, po. split; [lia | split; assumption].
      + specialize (IH (S k) st' (reach_step _ _ _ _ _ _ _ _ _ Hr Hit)).
        destruct (ip_loop ROps s X yc lam tol fuel (S k) st') as [[[w r] d]|]; cbn [loop_outcome] in *.
        * destruct r.
          -- destruct IH as [j [st0 [po [Hj H]]]]. exists j, st0, po. split; [lia | exact H].
          -- destruct IH as [st0 H]. exists st0. replace (k + S fuel)%nat with (S k + fuel)%nat by lia. exact H.
        * destruct IH as [j [st0 [Hj H]]]. exists j, st0. split; [lia | exact H].
      + cbn [loop_outcome]. exists k, st. split; [lia | split; assumption].
  Qed.
End Trace.

(* ---------- InteriorPointOptimizer::optimize, the executable one ---------- *)
Lemma optimize_unfold X y lam max_iter tol :
  optimize ROps X y lam max_iter tol =
  ip_loop ROps (pcg_solver ROps X (lam_used lam)) X (center ROps y) (lam_used lam) tol max_iter 0
          (ip_init ROps (ncols X) (lam_used lam)).
Proof. reflexivity. Qed.

(* optimize is optimize_gen of a solver with the shape the certificate theorems ask for *)
Lemma optimize_is_guarded X y lam max_iter tol :
  length y = length X ->
  optimize ROps X y lam max_iter tol =
  optimize_gen ROps (guard_solver (ncols X) (pcg_solver ROps X (lam_used lam))) X y lam max_iter tol.
Proof.
  intros Hy. rewrite optimize_unfold. unfold optimize_gen. fold (lam_used lam). symmetry.
  apply ip_loop_guard.
  - rewrite center_length. exact Hy.
  - left. apply lam_used_pos.
  - apply pcg_shape_on_shaped.
  - apply init_inv2. left. apply lam_used_pos.
Qed.

(* the refinement statement: the executable optimize loop is a run of the transition system *)
Lemma optimize_refines_ts X y lam max_iter tol :
  length y = length X ->
  let lam' := lam_used lam in
  let yc := center ROps y in
  let p := ncols X in
  let S := pcg_solver ROps X lam' in
  (* (a) in every state the loop reaches the iterate is strictly interior, the running dual value
         is a lower bound of the optimum, the warm start has 2p entries — and on such a state
         whatever pcg_solver returns is a legal direction of the transition system *)
  (forall k st, reachable S X yc lam' tol p k st ->
     ip_inv X yc lam' p st /\ length (st_dxu st) = (2 * p)%nat) /\
  shape_on_shaped S p /\
  (* (b) the result of optimize is produced by a path of the transition system that ends in the
         matching rule *)
  loop_outcome S X yc lam' tol p 0 max_iter (optimize ROps X y lam max_iter tol) /\
  (* (c) the same run, seen as optimize_gen of a solver that has `solver_shape` unconditionally
         (what the certificate theorems quantify over), with the same reachable states *)
  solver_shape (guard_solver p S) p /\
  (forall k st, reachable S X yc lam' tol p k st <-> reachable (guard_solver p S) X yc lam' tol p k st) /\
  optimize ROps X y lam max_iter tol = optimize_gen ROps (guard_solver p S) X y lam max_iter tol.
Proof.
  intros Hy lam' yc p S.
  assert (Hyc : length yc = length X) by (unfold yc; rewrite center_length; exact Hy).
  assert (Hl : 0 <= lam') by (left; apply lam_used_pos).
  pose proof (pcg_shape_on_shaped X lam' p) as Hs. fold S in Hs.
  split; [|split; [exact Hs|split; [|split; [|split]]]].
  - intros k st Hr. exact (reachable_inv2 S X yc lam' tol p Hyc Hl Hs k st Hr).
  - rewrite optimize_unfold. apply ip_loop_trace. constructor.
  - apply guard_solver_shape. exact Hs.
  - intros k st. apply reachable_guard_iff; assumption.
  - apply optimize_is_guarded. exact Hy.
Qed.

(* ---------- the certificate, stated about the executable optimize ---------- *)
Lemma optimize_gap_exit_near_optimal X y lam max_iter tol w d :
  length y = length X -> 0 <= tol ->
  optimize ROps X y lam max_iter tol = Some (w, ExitGap, d) ->
  length w = ncols X /\
  forall w', length w' = ncols X ->
    d <= lasso_objective ROps X (center ROps y) (lam_used lam) w' /\
    lasso_objective ROps X (center ROps y) (lam_used lam) w
    <= (1 + tol) * lasso_objective ROps X (center ROps y) (lam_used lam) w'.
Proof.
  intros Hy Htol H. rewrite optimize_is_guarded in H by exact Hy.
  pose proof (guard_solver_shape _ _ (pcg_shape_on_shaped X (lam_used lam) (ncols X))) as Hg.
  split.
  - eapply optimize_gen_length; eassumption.
  - intros w' Hw'. split.
    + eapply optimize_gen_dobj_lower_bound; eassumption.
    + eapply optimize_gen_near_optimal_all; eassumption.
Qed.

(* the iteration budget exit (ExitMaxIter: `Ok(w)` after the for loop): no optimality claim, but the
   reported dual value is still a lower bound of the optimum *)
Lemma optimize_any_exit_lower_bound X y lam max_iter tol w r d :
  length y = length X ->
  optimize ROps X y lam max_iter tol = Some (w, r, d) ->
  length w = ncols X /\
  forall w', length w' = ncols X -> d <= lasso_objective ROps X (center ROps y) (lam_used lam) w'.
Proof.
  intros Hy H. rewrite optimize_is_guarded in H by exact Hy.
  pose proof (guard_solver_shape _ _ (pcg_shape_on_shaped X (lam_used lam) (ncols X))) as Hg.
  split.
  - eapply optimize_gen_length; eassumption.
  - intros w' Hw'. eapply optimize_gen_dobj_lower_bound; eassumption.
Qed.

(* ---------- Lasso::fit / ElasticNet::fit, the executable ones ---------- *)
Lemma lasso_fit_gen_ext (opa opb : list (list R) -> list R -> R -> nat -> R -> option (list R))
      X y alpha normalize tol mi :
  (forall Z, length y = length Z -> opa Z y (alpha * IZR (Z.of_nat (length X))) mi tol
                                    = opb Z y (alpha * IZR (Z.of_nat (length X))) mi tol) ->
  (forall Z, design normalize X = Some Z -> length Z = length X) ->
  lasso_fit_gen ROps opa X y alpha normalize tol mi = lasso_fit_gen ROps opb X y alpha normalize tol mi.
Proof.
  intros He Hd. unfold lasso_fit_gen.
  destruct (lasso_valid ROps _ _ _ _ _ _) eqn:Hv; cbn [negb]; [|reflexivity].
  destruct (lasso_valid_true _ _ _ _ _ Hv) as [Hy _].
  change (omul ROps alpha (oofnat ROps (length X))) with (alpha * IZR (Z.of_nat (length X))).
  destruct normalize.
  - destruct (rescale_x ROps X) as [[[Xs means] stds]|] eqn:Hre; [|reflexivity].
    rewrite He; [reflexivity|]. rewrite Hy. symmetry. apply Hd. unfold design. rewrite Hre. reflexivity.
  - rewrite He by exact Hy. reflexivity.
Qed.

Lemma design_length normalize X Z : design normalize X = Some Z -> length Z = length X.
Proof.
  unfold design. destruct normalize.
  - destruct (rescale_x ROps X) as [[[Xs means] stds]|] eqn:Hre; [|discriminate].
    intros H; inversion H; subst. destruct (rescale_x_spec _ _ _ _ Hre) as [HXs _].
    rewrite HXs. apply length_scale_rows.
  - intros H; inversion H; reflexivity.
Qed.

Definition gmk (X : list (list R)) (lam : R) : solver_t (T := R) :=
  guard_solver (ncols X) (pcg_solver ROps X (lam_used lam)).
Lemma gmk_shape X lam : solver_shape (gmk X lam) (ncols X).
Proof. apply guard_solver_shape, pcg_shape_on_shaped. Qed.

Lemma lasso_fit_is_guarded X y alpha normalize tol mi :
  lasso_fit ROps X y alpha normalize tol mi =
  lasso_fit_gen ROps (fun X y lam mi tol => opt_w (optimize_gen ROps (gmk X lam) X y lam mi tol))
                X y alpha normalize tol mi.
Proof.
  unfold lasso_fit. apply lasso_fit_gen_ext.
  - intros Z HZ. cbv beta. rewrite optimize_is_guarded by exact HZ. reflexivity.
  - intros Z. apply design_length.
Qed.

Lemma design_ncols normalize X Z : design normalize X = Some Z -> ncols Z = ncols X.
Proof.
  unfold design. destruct normalize.
  - destruct (rescale_x ROps X) as [[[Xs means] stds]|] eqn:Hre; [|discriminate].
    intros H; inversion H; subst. destruct (rescale_x_spec _ _ _ _ Hre) as [HXs [Hm [Hs _]]].
    rewrite HXs. apply ncols_scale_rows; assumption.
  - intros H; inversion H; reflexivity.
Qed.

(* Lasso::fit with the code's own solver: if the optimiser inside leaves through the gap rule, fit
   returns (coef, b) with predict(X) = mean(y) + Z w and w (1 + tol)-optimal for the objective of
   the property text.  No hypothesis on the solver is left. *)
Lemma lasso_fit_exec_certified X y alpha normalize tol max_iter Z w d :
  Forall (fun row => length row = ncols X) X ->
  lasso_valid ROps (length X) (ncols X) (length y) alpha tol max_iter = true ->
  design normalize X = Some Z ->
  let l1 := alpha * IZR (Z.of_nat (length X)) in
  optimize ROps Z y l1 max_iter tol = Some (w, ExitGap, d) ->
  exists coef b,
    lasso_fit ROps X y alpha normalize tol max_iter = Some (coef, b) /\
    predict ROps X coef b = map (fun v => v + vmean ROps y) (matvec ROps Z w) /\
    forall w', length w' = ncols X ->
      lasso_objective ROps Z (center ROps y) (lam_used l1) w
      <= (1 + tol) * lasso_objective ROps Z (center ROps y) (lam_used l1) w'.
Proof.
  intros Hrect Hvalid Hdes l1 Hopt.
  destruct (lasso_valid_true _ _ _ _ _ Hvalid) as [Hy _].
  assert (HyZ : length y = length Z) by (rewrite (design_length _ _ _ Hdes); exact Hy).
  rewrite optimize_is_guarded in Hopt by exact HyZ. fold (gmk Z l1) in Hopt.
  rewrite lasso_fit_is_guarded.
  apply (lasso_fit_certified gmk X y alpha normalize tol max_iter Z w d Hrect Hvalid Hdes).
  - fold l1. rewrite <- (design_ncols _ _ _ Hdes). apply gmk_shape.
  - exact Hopt.
Qed.

Lemma enet_fit_gen_ext (opa opb : list (list R) -> list R -> R -> nat -> R -> option (list R))
      X y alpha l1_ratio normalize tol mi :
  (forall Z y2 lam, length y2 = length Z -> opa Z y2 lam mi tol = opb Z y2 lam mi tol) ->
  enet_fit_gen ROps opa X y alpha l1_ratio normalize tol mi = enet_fit_gen ROps opb X y alpha l1_ratio normalize tol mi.
Proof.
  intros He. unfold enet_fit_gen.
  destruct (Nat.eqb (length y) (length X)) eqn:Hy; cbn [negb]; [|reflexivity].
  apply Nat.eqb_eq in Hy.
  destruct normalize.
  - destruct (rescale_x ROps X) as [[[Xs means] stds]|] eqn:Hre; [|reflexivity].
    assert (HyXs : length y = length Xs).
    { destruct (rescale_x_spec _ _ _ _ Hre) as [HXs _]. rewrite HXs, length_scale_rows. exact Hy. }
    pose proof (length_augment Xs y (omul ROps (omul ROps alpha (osub ROps (o1 ROps) l1_ratio)) (oofnat ROps (length X))) HyXs) as Hl.
    destruct (augment ROps Xs y _) as [[X2 y2] gamma]. cbn [fst snd] in Hl.
    rewrite He by exact Hl. reflexivity.
  - pose proof (length_augment X y (omul ROps (omul ROps alpha (osub ROps (o1 ROps) l1_ratio)) (oofnat ROps (length X))) Hy) as Hl.
    destruct (augment ROps X y _) as [[X2 y2] gamma]. cbn [fst snd] in Hl.
    rewrite He by exact Hl. reflexivity.
Qed.

Lemma enet_fit_is_guarded X y alpha l1_ratio normalize tol mi :
  enet_fit ROps X y alpha l1_ratio normalize tol mi =
  enet_fit_gen ROps (fun X y lam mi tol => opt_w (optimize_gen ROps (gmk X lam) X y lam mi tol))
               X y alpha l1_ratio normalize tol mi.
Proof.
  unfold enet_fit. apply enet_fit_gen_ext.
  intros Z y2 lam HZ. cbv beta. rewrite optimize_is_guarded by exact HZ. reflexivity.
Qed.

Lemma enet_fit_exec_certified X y alpha l1_ratio normalize tol max_iter Z wt d :
  Forall (fun row => length row = ncols X) X ->
  length y = length X -> 0 <= tol ->
  design normalize X = Some Z ->
  let nf := IZR (Z.of_nat (length X)) in
  let l1 := alpha * l1_ratio * nf in
  let l2 := alpha * (1 - l1_ratio) * nf in
  0 <= l2 ->
  let '(X2, y2, gamma) := augment ROps Z y l2 in
  optimize ROps X2 y2 (l1 * gamma) max_iter tol = Some (wt, ExitGap, d) ->
  let w := map (fun wi => gamma * wi) wt in
  exists coef b,
    enet_fit ROps X y alpha l1_ratio normalize tol max_iter = Some (coef, b) /\
    predict ROps X coef b = map (fun v => v + vmean ROps y) (matvec ROps Z w) /\
    forall w', length w' = ncols X ->
      enet_objective ROps Z (center ROps y) (enet_l1_eff l1 gamma) l2 w
      <= (1 + tol) * enet_objective ROps Z (center ROps y) (enet_l1_eff l1 gamma) l2 w'.
Proof.
  intros Hrect Hy Htol Hdes nf l1 l2 Hl2.
  pose proof (enet_fit_certified gmk X y alpha l1_ratio normalize tol max_iter Z wt d Hrect Hy Htol Hdes Hl2) as C.
  fold nf l1 l2 in C.
  assert (HyZ : length y = length Z) by (rewrite (design_length _ _ _ Hdes); exact Hy).
  pose proof (ncols_augment Z y l2) as Hnc2. pose proof (length_augment Z y l2 HyZ) as Hlen2.
  destruct (augment ROps Z y l2) as [[X2 y2] gamma]. cbn [fst snd] in *.
  intros Hopt. rewrite optimize_is_guarded in Hopt by exact Hlen2. fold (gmk X2 (l1 * gamma)) in Hopt.
  rewrite enet_fit_is_guarded. apply C.
  - rewrite <- (design_ncols _ _ _ Hdes), <- Hnc2. apply gmk_shape.
  - exact Hopt.
Qed.
