(* C08 — correspondence interface: the model at binary64 (`FOps`) against what the implementation
   did.  The optimiser is checked on its OWN recorded states (hook `VERIF_LASSO_RUNS` in
   src/linear/lasso_optimizer.rs): every recorded outer iteration is re-derived by the model from
   the recorded iterate (dual point, objectives, gap, stopping decision, update of t, PCG
   tolerance, the PCG solution from the recorded warm start, consistency of the accepted line-search
   step with the backtracking rule, the next iterate), and the invariants of the transition system
   that the theorems are about (strict interiority, dual feasibility, monotone dual bound, weak
   duality) are evaluated on every recorded state.  The fit-level functions check parameter
   validation, standardisation / augmentation (through the data the optimiser was handed), the
   back-transformation, and re-decide the optimality certificate on the final coefficients. *)
From Coq Require Import List ZArith NArith Bool Floats.
From SC Require Import Base.FloatUtil Base.Num C08.Model.
Import ListNotations.

Definition F := FOps.
Local Open Scope float_scope.

Definition fle (a b : float) : bool := PrimFloat.leb a b.
Definition flt (a b : float) : bool := PrimFloat.ltb a b.
Definition fmax1 (a : float) : float := fmax 1 (fabs a).
Definition vnorm_inf (a : list float) : float := fold_left (fun acc x => fmax acc (fabs x)) a 0.
(* |a_i - b_i| <= tol * max(1, |a|_inf, |b|_inf), same length *)
Definition vclose (tol : float) (a b : list float) : bool :=
  let sc := fmax 1 (fmax (vnorm_inf a) (vnorm_inf b)) in
  list_eqb (feq_abs tol sc) a b.
Definition vsame (a b : list float) : bool := list_eqb feq a b.

(* one recorded outer iteration (VerifLassoIter) *)
Record it_rec := mkit {
  r_w : list float; r_u : list float; r_nu : list float;
  r_pobj : float; r_dobj : float; r_gap : float;
  r_tb : float; r_sb : float; r_pitr0 : bool; r_stopped : bool;
  r_t : float; r_pcgtol : float; r_dxu_in : list float; r_pcg_err : float; r_dxu : list float;
  r_s : float }.

(* one recorded call of optimize (VerifLassoRun); exit: 0 = gap, 1 = max_iter, 2 = error *)
Record run_rec := mkrun {
  n_lam : float; n_tol : float; n_max_iter : N; n_y : list float; n_t0 : float;
  n_iters : list it_rec; n_exit : N; n_wfinal : list float }.

(* ---------- the accepted step against the backtracking rule ---------- *)
Definition ls_accept (X : list (list float)) (yc : list float) (lam t : float) (w u dx du : list float)
           (phi gdx s slack : float) : bool :=
  let neww := axpy F s dx w in
  let newu := axpy F s du u in
  interior F neww newu &&
  fle (phi_of F X yc lam t neww newu - phi) (c_alpha F * s * gdx + slack).
(* every longer step beta^j was (not certainly acceptable =) rejected, the recorded one is acceptable *)
Fixpoint ls_check (fuel : nat) (X : list (list float)) (yc : list float) (lam t : float)
         (w u dx du : list float) (phi gdx slack s srec : float) : bool :=
  match fuel with
  | O => false
  | S fuel' =>
    if PrimFloat.eqb s srec then ls_accept X yc lam t w u dx du phi gdx s slack
    else negb (ls_accept X yc lam t w u dx du phi gdx s (- slack)) &&
         ls_check fuel' X yc lam t w u dx du phi gdx slack (c_beta F * s) srec
  end.

(* dual feasibility of a recorded dual point up to the rounding of X^T nu itself: near the
   least-squares end (tiny lam) the entries of X^T nu are sums with heavy cancellation, so the slack
   is relative to sum_i |x_ij| |nu_i|, not to lam *)
Definition absdot (a b : list float) : float :=
  fold_left (fun acc xy => acc + fabs (fst xy) * fabs (snd xy)) (combine a b) 0.
Definition feasible_upto (p : nat) (X : list (list float)) (lam : float) (nu : list float) : bool :=
  forallb (fun j => fle (fabs (dot F (col F j X) nu))
                        (lam * (1 + 0x1p-40) + 0x1p-44 * absdot (col F j X) nu)) (seq 0 p).

(* none of the `fuel` trial steps s, beta*s, ... is certainly acceptable (the line search ran out of its budget) *)
Fixpoint ls_all_rejected (fuel : nat) (X : list (list float)) (yc : list float) (lam t : float)
         (w u dx du : list float) (phi gdx slack s : float) : bool :=
  match fuel with
  | O => true
  | S fuel' => negb (ls_accept X yc lam t w u dx du phi gdx s (- slack)) &&
               ls_all_rejected fuel' X yc lam t w u dx du phi gdx slack (c_beta F * s)
  end.

Definition tolK : float := 0x1.12e0be826d695p-30.   (* 1e-9 *)
Definition tolP : float := 0x1.ad7f29abcaf48p-24.   (* 1e-7 *)
Definition one_plus : float := 1 + 0x1p-40.

(* ---------- one recorded iteration ---------- *)
(* `errored`: this is the last recorded iteration of a run that left through `Err` (the linear solver
   refused its tolerance, or the line search exhausted its 100 steps) *)
Definition check_iter (X : list (list float)) (yc : list float) (lam tol : float)
           (ntiter : nat) (dobj_prev : float) (r : it_rec) (next : option it_rec) (wfinal : option (list float))
           (errored : bool) : bool :=
  let p := length (r_w r) in
  let g := gap_stage F X yc lam (r_w r) dobj_prev in
  let sc := fmax1 (r_pobj r) in
  (* model = recorded *)
  vclose tolK (g_nu g) (r_nu r) &&
  feq_abs tolK sc (g_pobj g) (r_pobj r) &&
  feq_abs tolK sc (g_dobj g) (r_dobj r) &&
  feq_abs tolK sc (g_gap g) (r_gap r) &&
  Bool.eqb (stop_test F (r_gap r) (r_dobj r) tol) (r_stopped r) &&
  (* invariants of the transition system on the recorded state *)
  interior F (r_w r) (r_u r) &&
  fle dobj_prev (r_dobj r) &&
  feasible_upto p X lam (r_nu r) &&
  fle (r_dobj r) (r_pobj r + tolK * sc) &&
  flt 0 (r_tb r) &&
  (if r_stopped r then
     negb errored &&
     match next with None => true | Some _ => false end &&
     match wfinal with Some wf => vsame wf (r_w r) | None => true end
   else
     let t := t_update F p (r_tb r) (r_sb r) (r_gap r) in
     let nw := newton_system F X lam (r_t r) (r_w r) (r_u r) (g_z g) in
     let pcgtol := pcg_tolerance F ntiter (r_pitr0 r) (r_gap r) (nw_grad nw) in
     let ata := gram F p X in
     let dx := firstn p (r_dxu r) in
     let du := skipn p (r_dxu r) in
     let phi := phi_of F X yc lam (r_t r) (r_w r) (r_u r) in
     let gdx := dot F (nw_grad nw) (r_dxu r) in
     let slack := tolK * (1 + fabs phi + fabs (sumlogneg F (r_w r) (r_u r) / r_t r)) in
     if errored then
       (* Err from solve_mut (`tol <= 0`; nothing after it was recorded) or from the line search *)
       let nw0 := newton_system F X lam t (r_w r) (r_u r) (g_z g) in
       let pcgtol0 := pcg_tolerance F ntiter (r_pitr0 r) (r_gap r) (nw_grad nw0) in
       match next with None => true | Some _ => false end &&
       (fle pcgtol0 0 ||
        (feq t (r_t r) && feq_tol tolK pcgtol (r_pcgtol r) &&
         match solve_mut F (ip_mat_vec F p ata nw) (ip_precond F p nw) (nw_grad nw) (r_dxu_in r) (r_pcgtol r) pcgmaxi with
         | None => false
         | Some (err, dxu) => vclose tolP dxu (r_dxu r) && feq_tol tolP err (r_pcg_err r)
         end &&
         ls_all_rejected ls_fuel X yc lam (r_t r) (r_w r) (r_u r) dx du phi gdx slack 1 &&
         negb (is_finite F gdx && is_finite F phi)))
     else
     feq t (r_t r) &&
     feq_tol tolK pcgtol (r_pcgtol r) &&
     match solve_mut F (ip_mat_vec F p ata nw) (ip_precond F p nw) (nw_grad nw) (r_dxu_in r) (r_pcgtol r) pcgmaxi with
     | None => false
     | Some (err, dxu) => vclose tolP dxu (r_dxu r) && feq_tol tolP err (r_pcg_err r)
     end &&
     (* recorded s = 0: the null step of the repair e30c76a (all 100 trial steps rejected, direction finite) *)
     let null_step := PrimFloat.eqb (r_s r) 0 in
     (if null_step then
        ls_all_rejected ls_fuel X yc lam (r_t r) (r_w r) (r_u r) dx du phi gdx slack 1 &&
        is_finite F gdx && is_finite F phi
      else ls_check ls_fuel X yc lam (r_t r) (r_w r) (r_u r) dx du phi gdx slack 1 (r_s r)) &&
     let neww := if null_step then r_w r else axpy F (r_s r) dx (r_w r) in
     let newu := if null_step then r_u r else axpy F (r_s r) du (r_u r) in
     match next with
     | Some r' =>
       vsame neww (r_w r') && vsame newu (r_u r') && feq (r_tb r') (r_t r) && feq (r_sb r') (r_s r) &&
       (r_stopped r' || vsame (r_dxu_in r') (r_dxu r)) &&
       Bool.eqb (r_pitr0 r') (r_pitr0 r && negb (flt (r_pcgtol r) (r_pcg_err r)))
     | None => match wfinal with Some wf => vsame wf neww | None => true end
     end).

Fixpoint check_iters (X : list (list float)) (yc : list float) (lam tol : float)
         (ntiter : nat) (dobj_prev : float) (its : list it_rec) (wfinal : option (list float)) (errored : bool) : bool :=
  match its with
  | [] => true
  | r :: rest =>
    check_iter X yc lam tol ntiter dobj_prev r (hd_error rest)
               (match rest with [] => wfinal | _ => None end)
               (match rest with [] => errored | _ => false end) &&
    check_iters X yc lam tol (S ntiter) (r_dobj r) rest wfinal errored
  end.

(* the whole recorded run of optimize on the matrix X it was handed *)
Definition check_run (X : list (list float)) (run : run_rec) : bool :=
  let p := ncols X in
  let lam := n_lam run in
  let its := n_iters run in
  let nit := length its in
  let last_stopped := match rev its with r :: _ => r_stopped r | [] => false end in
  (* initial state *)
  match its with
  | r :: _ => vsame (r_w r) (repeat 0 p) && vsame (r_u r) (repeat 1 p) && feq (r_tb r) (t_init F p lam) &&
              feq (n_t0 run) (t_init F p lam) && r_pitr0 r &&
              (r_stopped r || vsame (r_dxu_in r) (repeat 0 (2 * p)))
  | [] => true
  end &&
  (* exit reason *)
  (match n_exit run with
   | 0%N => last_stopped
   | 1%N => negb last_stopped && Nat.eqb nit (N.to_nat (n_max_iter run))
   | _ => negb last_stopped && Nat.ltb 0 nit
   end) &&
  Nat.leb nit (N.to_nat (n_max_iter run)) &&
  check_iters X (n_y run) lam (n_tol run) 0 0 its
              (match n_exit run with 2%N => None | _ => Some (n_wfinal run) end)
              (match n_exit run with 2%N => true | _ => false end).

Definition eps64 : float := c_eps F.
Definition vclose12 := vclose 0x1.19799812dea11p-40.   (* 1e-12 *)

(* optimize(X, y, lam, ..) was called with these arguments: floor of lambda, centring of y *)
Definition check_opt_inputs (y : list float) (lam tol : float) (max_iter : N) (run : run_rec) : bool :=
  feq (n_lam run) (omax F lam eps64) && feq (n_tol run) tol && N.eqb (n_max_iter run) max_iter &&
  vclose12 (center F y) (n_y run).

(* certificate on the final coefficients: exit through the gap rule => the returned w is within
   ctol of the optimum of the objective the optimiser was handed (validator of Model.v, dual seed wd;
   `shrink` <= 1 is chosen by the harness from the cancellation in X^T nu so that the validator's
   EXACT feasibility test survives rounding, and the loss it causes is part of ctol) *)
Definition check_cert (X : list (list float)) (run : run_rec) (wd : option (list float)) (shrink ctol : float) : bool :=
  match n_exit run, wd with
  | 0%N, Some wd => fle shrink 1 && check_gap_certificate F X (n_y run) (n_lam run) (n_wfinal run) wd shrink ctol
  | _, _ => true     (* no gap exit, or no certificate attempted (penalty below the property's range) *)
  end.

Definition res_close (a b : option (list float * float)) : bool :=
  match a, b with
  | None, None => true
  | Some (w1, b1), Some (w2, b2) => vclose12 w1 w2 && feq_tol 0x1.19799812dea11p-40 b1 b2
  | _, _ => false
  end.

(* Lasso::fit.  run = None: optimize was never reached (validation / constant column).
   result = what fit returned (None = Err). *)
Definition corr_lasso (X : list (list float)) (y : list float) (alpha : float) (normalize : bool)
           (tol : float) (max_iter : N) (run : option run_rec) (result : option (list float * float))
           (wd : option (list float)) (shrink ctol : float) : bool :=
  let n := length X in
  let p := ncols X in
  if negb (lasso_valid F n p (length y) alpha tol (N.to_nat max_iter)) then
    match run, result with None, None => true | _, _ => false end
  else
    let l1 := alpha * oofnat F n in
    let pre := if normalize then rescale_x F X else Some (X, [], []) in
    match pre, run with
    | None, None => match result with None => true | _ => false end
    | Some (Xs, means, stds), Some rn =>
      check_opt_inputs y l1 tol max_iter rn &&
      check_run Xs rn &&
      (match n_exit rn with
       | 2%N => match result with None => true | _ => false end
       | _ =>
         res_close result
           (Some (if normalize then back_transform F (vmean F y) means stds (n_wfinal rn)
                  else (n_wfinal rn, vmean F y)))
       end) &&
      check_cert Xs rn wd shrink ctol
    | _, _ => false
    end.

(* ElasticNet::fit *)
Definition corr_enet (X : list (list float)) (y : list float) (alpha l1_ratio : float) (normalize : bool)
           (tol : float) (max_iter : N) (run : option run_rec) (result : option (list float * float))
           (wd : option (list float)) (shrink ctol : float) : bool :=
  let n := length X in
  if negb (Nat.eqb (length y) n) then match run, result with None, None => true | _, _ => false end
  else
    let nf := oofnat F n in
    let l1 := alpha * l1_ratio * nf in
    let l2 := alpha * (1 - l1_ratio) * nf in
    let pre := if normalize then rescale_x F X else Some (X, [], []) in
    match pre, run with
    | None, None => match result with None => true | _ => false end
    | Some (Xs, means, stds), Some rn =>
      let '(X2, y2, gamma) := augment F Xs y l2 in
      check_opt_inputs y2 (l1 * gamma) tol max_iter rn &&
      check_run X2 rn &&
      (match n_exit rn with
       | 2%N => match result with None => true | _ => false end
       | _ =>
         let wg := map (fun wi => gamma * wi) (n_wfinal rn) in
         res_close result
           (Some (if normalize then back_transform F (vmean F y) means stds wg else (wg, vmean F y)))
       end) &&
      check_cert X2 rn wd shrink ctol
    | _, _ => false
    end.

(* the whole model (optimiser with its own PCG directions) run from scratch: Some w / None *)
Definition run_lasso_model (X : list (list float)) (y : list float) (alpha : float) (normalize : bool)
           (tol : float) (max_iter : N) : option (list float * float) :=
  lasso_fit F X y alpha normalize tol (N.to_nat max_iter).
Definition run_enet_model (X : list (list float)) (y : list float) (alpha l1_ratio : float) (normalize : bool)
           (tol : float) (max_iter : N) : option (list float * float) :=
  enet_fit F X y alpha l1_ratio normalize tol (N.to_nat max_iter).
(* the model's own result satisfies the certificate-level agreement with the implementation:
   coefficients within `ctol_w` (absolute, relative to the coefficient scale) *)
Definition corr_model_fit (model impl : option (list float * float)) (tolw : float) : bool :=
  match model, impl with
  | None, None => true
  | Some (w1, b1), Some (w2, b2) => vclose tolw w1 w2 && feq_tol tolw b1 b2
  | _, _ => false
  end.
