(* C08 — partial correctness of the preconditioned BiCG model (`solve_mut` / `pcg_loop`, bg_solver.rs)
   over R: the vector r the loop carries IS the residual b - A x of the iterate it carries (for every
   linear A and every preconditioner M that returns vectors of the right length — nothing else is
   asked of M), so the value `err` the solver returns is |b - A x|_2 / |b|_2 for the x it returns,
   and an exit through the test `err <= tol` returns an x with |b - A x|_2 <= tol * |b|_2.
   Instantiated with the optimiser's `mat_vec_mul` (`ip_mat_vec`, the Hessian of the barrier objective
   by C08_hessian_is_hessian): when `pcg_solver` reports that the tolerance was met (its flag
   `pitr == 0` stays true), the direction it returns solves the Newton system H dxu = grad up to
   pcg_tolerance * |grad|_2.  Nothing is proved about the solver REACHING its tolerance within
   pcgmaxi iterations, nor about the denominators bkden / akden being non-zero (over R a zero
   denominator gives an unspecified value, the identities used here do not depend on it). *)
From Coq Require Import List ZArith Reals Lra Lia Bool Arith.
From SC Require Import Base.Num C08.Model C08.ProofsBase C08.ProofsDual C08.ProofsFit C08.ProofsGap C08.ProofsEnd
  C08.ProofsRefine.
Import ListNotations.
Local Open Scope R_scope.

(* ---------- vectors of a fixed length ---------- *)
Definition vadd (a b : list R) : list R := map2 Rplus a b.
Definition vsc (c : R) (a : list R) : list R := map (fun x => c * x) a.

Lemma axpy_R a x y : axpy ROps a x y = map2 (fun xi yi => yi + a * xi) x y.
Proof. reflexivity. Qed.
Lemma xmay_R a x y : xmay ROps a x y = map2 (fun xi yi => yi - a * xi) x y.
Proof. reflexivity. Qed.

Lemma map2_ext_len (f g : R -> R -> R) a b :
  (forall x y, f x y = g x y) -> map2 f a b = map2 g a b.
Proof.
  intros H. revert b. induction a as [|x a IH]; intros [|y b]; cbn [map2]; try reflexivity.
  rewrite H, IH. reflexivity.
Qed.

(* a linear operator on vectors of length m *)
Record linear_on (m : nat) (A : list R -> list R) : Prop := {
  lin_len : forall v, length v = m -> length (A v) = m;
  lin_axpy : forall a u v, length u = m -> length v = m ->
             A (axpy ROps a u v) = axpy ROps a (A u) (A v) }.

(* r - a*(A p)  with  r = b - A x  is  b - A (x + a*p) *)
Lemma residual_update (b Ax Ap : list R) a :
  length Ax = length b -> length Ap = length b ->
  xmay ROps a Ap (vsub ROps b Ax) = vsub ROps b (axpy ROps a Ap Ax).
Proof.
  rewrite xmay_R, axpy_R, !vsub_R. revert Ax Ap.
  induction b as [|v b IH]; intros [|x Ax] [|q Ap] H1 H2; try discriminate; cbn [map2]; [reflexivity|].
  rewrite IH by (cbn in *; lia). f_equal. lra.
Qed.

Section Pcg.
  Variables (A M : list R -> list R) (m : nat).
  Hypothesis HA : linear_on m A.
  Hypothesis HM : forall v, length (M v) = m.
  Variables (b : list R) (tol bnrm : R).
  Hypothesis Hb : length b = m.

  (* the loop invariant: r is the residual of x *)
  Lemma pcg_loop_residual fuel :
    forall first x r rr z p pp bkden err,
    length x = m -> length z = m -> (first = false -> length p = m) ->
    r = vsub ROps b (A x) ->
    let res := pcg_loop ROps (S fuel) first A M tol bnrm x r rr z p pp bkden err in
    length (snd res) = m /\
    fst res = norm2 ROps (vsub ROps b (A (snd res))) / bnrm.
  Proof.
    induction fuel as [|fuel IH]; intros first x r rr z p pp bkden err Hx Hz Hp Hr.
    - cbn zeta. cbn [pcg_loop].
      set (p' := if first then z else bkpz ROps _ p z).
      assert (Hp' : length p' = m).
      { unfold p'. destruct first; [exact Hz|]. rewrite bkpz_length, Hz, (Hp eq_refl). apply Nat.min_id. }
      set (ak := odiv ROps (dot ROps z rr) (dot ROps (A p') _)).
      assert (Hres : xmay ROps ak (A p') r = vsub ROps b (A (axpy ROps ak p' x))).
      { rewrite Hr, (lin_axpy _ _ HA) by assumption.
        apply residual_update; rewrite (lin_len _ _ HA) by assumption; congruence. }
      assert (Hlx : length (axpy ROps ak p' x) = m) by (rewrite axpy_length, Hp', Hx; apply Nat.min_id).
      destruct (oleb ROps _ tol); cbn [fst snd]; (split; [exact Hlx | rewrite Hres; reflexivity]).
    - cbn zeta. remember (S fuel) as f1 eqn:Ef1. cbn [pcg_loop].
      set (p' := if first then z else bkpz ROps _ p z).
      assert (Hp' : length p' = m).
      { unfold p'. destruct first; [exact Hz|]. rewrite bkpz_length, Hz, (Hp eq_refl). apply Nat.min_id. }
      set (ak := odiv ROps (dot ROps z rr) (dot ROps (A p') _)).
      assert (Hres : xmay ROps ak (A p') r = vsub ROps b (A (axpy ROps ak p' x))).
      { rewrite Hr, (lin_axpy _ _ HA) by assumption.
        apply residual_update; rewrite (lin_len _ _ HA) by assumption; congruence. }
      assert (Hlx : length (axpy ROps ak p' x) = m) by (rewrite axpy_length, Hp', Hx; apply Nat.min_id).
      destruct (oleb ROps _ tol).
      + cbn [fst snd]. split; [exact Hlx | rewrite Hres; reflexivity].
      + subst f1. apply (IH false); auto.
  Qed.
End Pcg.

Lemma norm2_nonneg v : 0 <= norm2 ROps v.
Proof. unfold norm2. cbn [osqrt ROps]. apply sqrt_pos. Qed.

(* solve_mut: max_iter >= 2 means at least one pass through the loop (`for iter in 1..max_iter`) *)
Lemma solve_mut_some (A M : list R -> list R) b x tol fuel res :
  solve_mut ROps A M b x tol (S (S fuel)) = Some res ->
  0 < tol /\
  res = pcg_loop ROps (S fuel) true A M tol (norm2 ROps b) x (vsub ROps b (A x)) (vsub ROps b (A x))
                 (M (vsub ROps b (A x))) [] [] (o0 ROps) (o0 ROps).
Proof.
  unfold solve_mut. destruct (oleb ROps tol (o0 ROps)) eqn:E; [discriminate|].
  intros H. injection H as H. split; [|symmetry; exact H].
  cbn [oleb o0 ROps] in E. apply Rleb_false in E. exact E.
Qed.

Lemma solve_mut_residual (A M : list R -> list R) (m : nat) b x tol mi err x' :
  linear_on m A -> (forall v, length (M v) = m) -> length b = m -> length x = m ->
  (2 <= mi)%nat ->
  solve_mut ROps A M b x tol mi = Some (err, x') ->
  0 < tol /\ length x' = m /\
  err = norm2 ROps (vsub ROps b (A x')) / norm2 ROps b /\
  (err <= tol -> 0 < norm2 ROps b ->
   norm2 ROps (vsub ROps b (A x')) <= tol * norm2 ROps b).
Proof.
  intros HA HM Hb Hx Hmi H.
  destruct mi as [|[|fuel]]; [lia | lia |].
  apply solve_mut_some in H. destruct H as [Ht Hr].
  pose proof (pcg_loop_residual A M m HA HM b tol (norm2 ROps b) Hb fuel true x
              (vsub ROps b (A x)) (vsub ROps b (A x)) (M (vsub ROps b (A x))) [] [] (o0 ROps) (o0 ROps)
              Hx (HM _) ltac:(discriminate) eq_refl) as P.
  cbv zeta in P. rewrite <- Hr in P. cbn [fst snd] in P. destruct P as [Hl He].
  split; [exact Ht | split; [exact Hl | split; [exact He|]]].
  intros Hle Hpos. rewrite He in Hle.
  apply (Rmult_le_compat_r (norm2 ROps b)) in Hle; [|lra].
  unfold Rdiv in Hle. rewrite Rmult_assoc, Rinv_l, Rmult_1_r in Hle by lra. exact Hle.
Qed.

(* ---------- the optimiser's operator is linear ---------- *)
Lemma Rdot_axpy_r row a u v :
  length u = length v -> Rdot row (map2 (fun xi yi => yi + a * xi) u v) = Rdot row v + a * Rdot row u.
Proof.
  revert row v. induction u as [|x u IH]; intros row [|y v] Hl; try discriminate; cbn [map2].
  - rewrite !Rdot_nil_r. lra.
  - destruct row as [|c row]; cbn [Rdot]; [lra|]. rewrite IH by (cbn in Hl; lia). lra.
Qed.

Lemma nth_map2_axpy a u v i :
  length u = length v ->
  nth i (map2 (fun xi yi => yi + a * xi) u v) 0 = nth i v 0 + a * nth i u 0.
Proof.
  revert v i. induction u as [|x u IH]; intros [|y v] i Hl; try discriminate; cbn [map2].
  - destruct i; cbn [nth]; lra.
  - destruct i as [|i]; cbn [nth]; [lra|]. apply IH. cbn in Hl; lia.
Qed.

Lemma firstn_map2 (f : R -> R -> R) n u v : firstn n (map2 f u v) = map2 f (firstn n u) (firstn n v).
Proof.
  revert u v. induction n as [|n IH]; intros u v; [reflexivity|].
  destruct u as [|x u]; [reflexivity|]. destruct v as [|y v]; [reflexivity|].
  cbn [firstn map2]. rewrite IH. reflexivity.
Qed.

Lemma map2_map_seq (f : R -> R -> R) (g h : nat -> R) l :
  map2 f (map g l) (map h l) = map (fun i => f (g i) (h i)) l.
Proof. induction l as [|i l IH]; cbn [map map2]; [reflexivity | rewrite IH; reflexivity]. Qed.

Lemma nth_Rmatvec ata w i : nth i (Rmatvec ata w) 0 = Rdot (nth i ata []) w.
Proof. exact (map_nth (fun row => Rdot row w) ata [] i). Qed.

Lemma ip_mat_vec_linear p ata nw : linear_on (2 * p) (ip_mat_vec ROps p ata nw).
Proof.
  constructor.
  - intros v _. apply ip_mat_vec_length.
  - intros a u v Hu Hv.
    assert (Huv : length u = length v) by congruence.
    rewrite !axpy_R. unfold ip_mat_vec.
    rewrite map2_app by (rewrite !map_length; reflexivity).
    rewrite !map2_map_seq.
    cbn [oadd omul ROps]. unfold nthT. cbn [o0 ROps]. change (two ROps) with 2. rewrite !matvec_R.
    f_equal; apply map_ext; intros i;
      rewrite ?nth_Rmatvec, ?firstn_map2, !nth_map2_axpy by exact Huv.
    + rewrite Rdot_axpy_r by (rewrite !firstn_length; lia). ring.
    + ring.
Qed.

(* ---------- the Newton system as the code's solver sees it ---------- *)
Lemma nw_grad_length X lam t w u z p :
  length w = p -> length u = p -> length (nw_grad (newton_system ROps X lam t w u z)) = (2 * p)%nat.
Proof.
  intros Hw Hu. unfold newton_system. cbn [nw_grad].
  rewrite app_length, !map_length, !combine_length, !map2_length. unfold mattvec.
  rewrite map_length, seq_length. lia.
Qed.

Lemma pcgmaxi_ge2 : (2 <= pcgmaxi)%nat.
Proof. unfold pcgmaxi. apply le_n_S, le_n_S, Nat.le_0_l. Qed.

(* whatever pcg_solver returns: the flag it reports is `pitr == 0 still, and err <= pcgtol` for
   err = |grad - H dxu| / |grad|; so a true flag certifies the relative residual of the direction *)
Lemma pcg_solver_residual X lam k st z gap flag dxu p :
  length (st_w st) = p -> length (st_u st) = p -> length (st_dxu st) = (2 * p)%nat ->
  pcg_solver ROps X lam k st z gap = Some (flag, dxu) ->
  let nw := newton_system ROps X lam (st_t st) (st_w st) (st_u st) z in
  let H := ip_mat_vec ROps p (gram ROps p X) nw in
  let pcgtol := pcg_tolerance ROps k (st_pitr0 st) gap (nw_grad nw) in
  let err := norm2 ROps (vsub ROps (nw_grad nw) (H dxu)) / norm2 ROps (nw_grad nw) in
  0 < pcgtol /\ length dxu = (2 * p)%nat /\
  flag = (st_pitr0 st && negb (Rltb pcgtol err))%bool /\
  (flag = true -> 0 < norm2 ROps (nw_grad nw) ->
   norm2 ROps (vsub ROps (nw_grad nw) (H dxu)) <= pcgtol * norm2 ROps (nw_grad nw)).
Proof.
  intros Hw Hu Hd Hp nw H pcgtol err0.
  unfold pcg_solver in Hp. rewrite Hw in Hp.
  change (match solve_mut ROps H (ip_precond ROps p nw) (nw_grad nw) (st_dxu st) pcgtol pcgmaxi with
          | None => None
          | Some (err, d) => Some (st_pitr0 st && negb (oltb ROps pcgtol err), d)
          end = Some (flag, dxu)) in Hp.
  destruct (solve_mut ROps H _ _ _ _ _) as [[err d]|] eqn:Hs; [|discriminate].
  injection Hp as Ef Ed. subst d.
  destruct (solve_mut_residual _ _ (2 * p) _ _ _ _ _ _ (ip_mat_vec_linear p (gram ROps p X) nw)
              (fun v => ip_precond_length p nw v) (nw_grad_length X lam _ _ _ z p Hw Hu) Hd pcgmaxi_ge2 Hs)
    as [Htol [Hl [He Hb]]].
  fold H in He, Hb. fold err0 in He. subst err.
  split; [exact Htol | split; [exact Hl | split]].
  - rewrite <- Ef. reflexivity.
  - intros Hf Hpos. apply Hb; [|exact Hpos].
    rewrite <- Ef in Hf. apply andb_prop in Hf. destruct Hf as [_ Hf].
    apply negb_true_iff in Hf. cbn [oltb ROps] in Hf. apply Rltb_false in Hf. exact Hf.
Qed.
