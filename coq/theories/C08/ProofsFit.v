(* C08 — the fit-level facts over R: elastic net as a Lasso on augmented data (after the repair D8),
   l1_ratio = 1 is Lasso verbatim, adding a constant to the targets moves only the intercept,
   the back-transformation of standardised coefficients, and the parameter validation of Lasso::fit. *)
From Coq Require Import List ZArith Reals Lra Lia Bool Arith.
From SC Require Import Base.Num C08.Model C08.ProofsBase C08.ProofsDual.
Import ListNotations.
Local Open Scope R_scope.

(* ---------- means and centring ---------- *)
Definition nR (n : nat) : R := IZR (Z.of_nat n).
Lemma nR_S n : nR (S n) = nR n + 1.
Proof. unfold nR. rewrite Nat2Z.inj_succ, succ_IZR. reflexivity. Qed.
Lemma nR_pos n : (0 < n)%nat -> 0 < nR n.
Proof. intros H. unfold nR. apply IZR_lt. lia. Qed.
Lemma nR_nonneg n : 0 <= nR n.
Proof. unfold nR. apply IZR_le. lia. Qed.

Lemma vmean_R a : vmean ROps a = Rsum a / nR (length a).
Proof. unfold vmean. cbn [odiv ROps]. rewrite vsum_R. reflexivity. Qed.
Lemma center_R y : center ROps y = map (fun v => v - Rsum y / nR (length y)) y.
Proof. unfold center. cbn [osub ROps]. rewrite vmean_R. reflexivity. Qed.

Lemma Rsum_map_minus y m : Rsum (map (fun v => v - m) y) = Rsum y - nR (length y) * m.
Proof.
  induction y as [|x y IH]; cbn [map Rsum length].
  - unfold nR. cbn. lra.
  - rewrite IH, nR_S. lra.
Qed.
Lemma Rsum_map_plus y c : Rsum (map (fun v => v + c) y) = Rsum y + nR (length y) * c.
Proof.
  induction y as [|x y IH]; cbn [map Rsum length].
  - unfold nR. cbn. lra.
  - rewrite IH, nR_S. lra.
Qed.
Lemma Rsum_app a b : Rsum (a ++ b) = Rsum a + Rsum b.
Proof. induction a as [|x a IH]; cbn [app Rsum]; [lra | rewrite IH; lra]. Qed.
Lemma Rsum_repeat0 n : Rsum (repeat 0 n) = 0.
Proof. induction n as [|n IH]; cbn [repeat Rsum]; [reflexivity | rewrite IH; lra]. Qed.

(* the centred target sums to zero *)
Lemma Rsum_center y : Rsum (center ROps y) = 0.
Proof.
  rewrite center_R, Rsum_map_minus. destruct y as [|x y].
  - cbn. unfold nR. cbn. lra.
  - assert (0 < nR (length (x :: y))) by (apply nR_pos; cbn; lia). field. lra.
Qed.

(* centring an already centred (and zero-padded) target changes nothing *)
Lemma center_idem_padded y p : center ROps (center ROps y ++ repeat 0 p) = center ROps y ++ repeat 0 p.
Proof.
  rewrite (center_R (center ROps y ++ repeat 0 p)).
  rewrite Rsum_app, Rsum_center, Rsum_repeat0.
  rewrite <- (map_id (center ROps y ++ repeat 0 p)) at 2.
  apply map_ext. intros v. unfold Rdiv. lra.
Qed.

(* adding a constant to every target: same centred target, mean moved by the constant *)
Lemma center_shift y c : center ROps (map (fun v => v + c) y) = center ROps y.
Proof.
  rewrite !center_R, map_map, map_length, Rsum_map_plus.
  destruct y as [|x y]; [reflexivity|].
  apply map_ext. intros v.
  assert (0 < nR (length (x :: y))) by (apply nR_pos; cbn; lia). field. lra.
Qed.
Lemma vmean_shift y c : y <> [] -> vmean ROps (map (fun v => v + c) y) = vmean ROps y + c.
Proof.
  intros Hy. rewrite !vmean_R, map_length, Rsum_map_plus.
  assert (0 < nR (length y)) by (apply nR_pos; destruct y; [congruence | cbn; lia]). field. lra.
Qed.

(* ---------- dot products of the augmented design ---------- *)
Lemma Rdot_scale_l c a b : Rdot (map (fun x => c * x) a) b = c * Rdot a b.
Proof.
  revert b. induction a as [|x a IH]; intros [|y b]; cbn [map Rdot]; try lra.
  rewrite IH. lra.
Qed.
Lemma Rdot_scale_r' c a b : Rdot a (map (fun x => c * x) b) = c * Rdot a b.
Proof. rewrite Rdot_comm, Rdot_scale_l, Rdot_comm. reflexivity. Qed.
Lemma Rdot_app a b c d : length a = length c -> Rdot (a ++ b) (c ++ d) = Rdot a c + Rdot b d.
Proof.
  revert c. induction a as [|x a IH]; intros [|y c] Hl; try discriminate; cbn [app Rdot].
  - lra.
  - rewrite IH by (cbn in Hl; lia). lra.
Qed.
Lemma map2_app (f : R -> R -> R) a b c d :
  length a = length c -> map2 f (a ++ b) (c ++ d) = map2 f a c ++ map2 f b d.
Proof.
  revert c. induction a as [|x a IH]; intros [|y c] Hl; try discriminate; cbn [app map2].
  - reflexivity.
  - rewrite IH by (cbn in Hl; lia). reflexivity.
Qed.
Lemma map2_repeat0_r a : map2 Rminus a (repeat 0 (length a)) = a.
Proof.
  induction a as [|x a IH]; cbn [length repeat map2]; [reflexivity|].
  rewrite IH. f_equal. lra.
Qed.
Lemma map2_repeat0_r' a n : n = length a -> map2 Rminus a (repeat 0 n) = a.
Proof. intros ->. apply map2_repeat0_r. Qed.
Lemma Rnorm1_scale c a : 0 <= c -> Rnorm1 (map (fun x => c * x) a) = c * Rnorm1 a.
Proof.
  intros Hc. unfold Rnorm1. induction a as [|x a IH]; cbn [map Rsum]; [lra|].
  rewrite IH, Rabs_mult, (Rabs_pos_eq c Hc). lra.
Qed.

Lemma map_nth_seq (w : list R) : map (fun j => nth j w 0) (seq 0 (length w)) = w.
Proof.
  induction w as [|y w IH]; cbn [length seq map]; [reflexivity|].
  cbn [nth]. f_equal. rewrite <- seq_shift, map_map. cbn [nth]. exact IH.
Qed.

(* a padding row  c * e_j  picks c * w_j *)
Lemma Rdot_pad_row_gen (j : nat) (c : R) (w : list R) (a : nat) :
  Rdot (map (fun k => if Nat.eqb k j then c else 0) (seq a (length w))) w =
  if (a <=? j)%nat && (j <? a + length w)%nat then c * nth (j - a) w 0 else 0.
Proof.
  revert a. induction w as [|y w IH]; intros a; cbn [length seq map Rdot].
  - destruct ((a <=? j)%nat && (j <? a + 0)%nat) eqn:E; [|reflexivity].
    apply andb_prop in E. destruct E as [E1 E2]. apply Nat.leb_le in E1. apply Nat.ltb_lt in E2. lia.
  - rewrite IH. destruct (Nat.eqb a j) eqn:Eaj.
    + apply Nat.eqb_eq in Eaj. subst a.
      replace ((S j <=? j)%nat) with false by (symmetry; apply Nat.leb_gt; lia). cbn [andb].
      replace ((j <=? j)%nat) with true by (symmetry; apply Nat.leb_le; lia).
      replace ((j <? j + S (length w))%nat) with true by (symmetry; apply Nat.ltb_lt; lia). cbn [andb].
      rewrite Nat.sub_diag. cbn [nth]. lra.
    + apply Nat.eqb_neq in Eaj.
      destruct ((S a <=? j)%nat && (j <? S a + length w)%nat) eqn:E.
      * apply andb_prop in E. destruct E as [E1 E2]. apply Nat.leb_le in E1. apply Nat.ltb_lt in E2.
        replace ((a <=? j)%nat) with true by (symmetry; apply Nat.leb_le; lia).
        replace ((j <? a + S (length w))%nat) with true by (symmetry; apply Nat.ltb_lt; lia). cbn [andb].
        replace (j - a)%nat with (S (j - S a)) by lia. cbn [nth]. lra.
      * replace ((a <=? j)%nat && (j <? a + S (length w))%nat) with false; [lra|].
        symmetry. apply andb_false_iff. apply andb_false_iff in E. destruct E as [E|E].
        -- left. apply Nat.leb_gt in E. apply Nat.leb_gt. lia.
        -- right. apply Nat.ltb_ge in E. apply Nat.ltb_ge. lia.
Qed.

Lemma Rmatvec_pad (c : R) (w : list R) :
  Rmatvec (map (fun j => pad_row ROps (length w) j c) (seq 0 (length w))) w = map (fun x => c * x) w.
Proof.
  unfold Rmatvec. rewrite map_map.
  transitivity (map (fun j => c * nth j w 0) (seq 0 (length w))).
  - apply map_ext_in. intros j Hj. apply in_seq in Hj.
    unfold pad_row. cbn [o0 ROps]. rewrite Rdot_pad_row_gen.
    replace ((0 <=? j)%nat) with true by (symmetry; apply Nat.leb_le; lia).
    replace ((j <? 0 + length w)%nat) with true by (symmetry; apply Nat.ltb_lt; lia). cbn [andb].
    rewrite Nat.sub_0_r. reflexivity.
  - rewrite <- (map_map (fun j => nth j w 0) (fun x => c * x)). rewrite map_nth_seq. reflexivity.
Qed.

(* ---------- gamma and padding of augment_x_and_y ---------- *)
Lemma enet_gamma_R l2 : enet_gamma ROps l2 = 1 / sqrt (1 + l2).
Proof. reflexivity. Qed.
Lemma enet_padding_R l2 : enet_padding ROps l2 = 1 / sqrt (1 + l2) * sqrt l2.
Proof. reflexivity. Qed.
Lemma enet_gamma_pos l2 : 0 <= l2 -> 0 < enet_gamma ROps l2.
Proof.
  intros H. rewrite enet_gamma_R. apply Rdiv_lt_0_compat; [lra|]. apply sqrt_lt_R0. lra.
Qed.
Lemma enet_gamma_sq l2 : 0 <= l2 ->
  enet_gamma ROps l2 * enet_gamma ROps l2 * (1 + l2) = 1.
Proof.
  intros H. rewrite enet_gamma_R.
  assert (Hs : 0 < sqrt (1 + l2)) by (apply sqrt_lt_R0; lra).
  assert (Hq : sqrt (1 + l2) * sqrt (1 + l2) = 1 + l2) by (apply sqrt_sqrt; lra).
  rewrite <- Hq at 3. field. lra.
Qed.
Lemma enet_padding_sq l2 : 0 <= l2 ->
  enet_padding ROps l2 * enet_padding ROps l2 = enet_gamma ROps l2 * enet_gamma ROps l2 * l2.
Proof.
  intros H. rewrite enet_padding_R, enet_gamma_R.
  assert (Hq : sqrt l2 * sqrt l2 = l2) by (apply sqrt_sqrt; lra).
  transitivity (1 / sqrt (1 + l2) * (1 / sqrt (1 + l2)) * (sqrt l2 * sqrt l2)); [ring | rewrite Hq; reflexivity].
Qed.

(* ---------- the objective handed to the optimiser is the elastic-net objective ---------- *)
Lemma enet_objective_R X yc l1 l2 w :
  enet_objective ROps X yc l1 l2 w =
  Rdot (map2 Rminus (Rmatvec X w) yc) (map2 Rminus (Rmatvec X w) yc) + l2 * Rdot w w + l1 * Rnorm1 w.
Proof.
  unfold enet_objective, sqnorm, residual. cbn [oadd omul ROps].
  rewrite !dot_R, norm1_R, vsub_R, matvec_R. reflexivity.
Qed.

Lemma enet_augmentation_objective (X : list (list R)) (y : list R) (l1 l2 : R) (wt : list R) :
  0 <= l2 -> length y = length X -> ncols X = length wt ->
  let '(X2, y2, gamma) := augment ROps X y l2 in
  (* what `optimize` minimises: it centres y2 again and uses the penalty l1 * gamma *)
  pobj_of ROps X2 (center ROps y2) (l1 * gamma) wt =
  enet_objective ROps X (center ROps y) l1 l2 (map (fun wi => gamma * wi) wt).
Proof.
  intros Hl2 Hy Hp. unfold augment. rewrite Hp.
  set (g := enet_gamma ROps l2). set (pd := enet_padding ROps l2).
  cbn [omul o0 ROps].
  rewrite center_idem_padded, pobj_R, enet_objective_R.
  pose proof (enet_gamma_pos l2 Hl2) as Hg. fold g in Hg.
  (* the design part *)
  assert (HXw : Rmatvec (map (fun row => map (fun x => g * x) row) X ++
                         map (fun j => pad_row ROps (length wt) j pd) (seq 0 (length wt))) wt
                = map (fun v => g * v) (Rmatvec X wt) ++ map (fun x => pd * x) wt).
  { unfold Rmatvec at 1. rewrite map_app. f_equal.
    - unfold Rmatvec. rewrite !map_map. apply map_ext. intros row. apply Rdot_scale_l.
    - apply Rmatvec_pad. }
  rewrite HXw.
  assert (HXg : Rmatvec X (map (fun wi => g * wi) wt) = map (fun v => g * v) (Rmatvec X wt)).
  { unfold Rmatvec. rewrite map_map. apply map_ext. intros row. apply Rdot_scale_r'. }
  rewrite HXg.
  assert (Hlen : length (map (fun v => g * v) (Rmatvec X wt)) = length (center ROps y)).
  { rewrite map_length. unfold Rmatvec. rewrite map_length, center_length. lia. }
  rewrite map2_app by exact Hlen.
  rewrite Rdot_app by (rewrite !map2_length; reflexivity).
  rewrite (map2_repeat0_r' (map (fun x => pd * x) wt) (length wt)) by (rewrite map_length; reflexivity).
  rewrite Rdot_scale_l, Rdot_scale_r', Rdot_scale_l, Rdot_scale_r'.
  rewrite Rnorm1_scale by lra.
  pose proof (enet_padding_sq l2 Hl2) as Hpd. fold g pd in Hpd.
  set (D := Rdot wt wt). set (Q := Rdot _ _). set (N := Rnorm1 wt).
  assert (E : pd * pd * D = g * g * l2 * D) by (rewrite Hpd; reflexivity).
  lra.
Qed.

(* l1_ratio = 1: l2 = 0, gamma = 1, the padding rows are zero: the augmented objective is the Lasso's *)
Lemma enet_objective_l2_zero X yc l1 w :
  enet_objective ROps X yc l1 0 w = lasso_objective ROps X yc l1 w.
Proof. rewrite enet_objective_R. unfold lasso_objective. rewrite pobj_R. lra. Qed.
Lemma enet_gamma_zero : enet_gamma ROps 0 = 1.
Proof. rewrite enet_gamma_R. rewrite Rplus_0_r, sqrt_1. lra. Qed.

Lemma enet_l1_ratio_one_is_lasso (X : list (list R)) (y : list R) (alpha nf : R) (w : list R) :
  length y = length X -> ncols X = length w ->
  let l1 := alpha * 1 * nf in
  let l2 := alpha * (1 - 1) * nf in
  let '(X2, y2, gamma) := augment ROps X y l2 in
  gamma = 1 /\
  pobj_of ROps X2 (center ROps y2) (l1 * gamma) w = lasso_objective ROps X (center ROps y) (alpha * nf) w.
Proof.
  intros Hy Hp l1 l2.
  assert (Hl2 : l2 = 0) by (unfold l2; ring). rewrite Hl2.
  pose proof (enet_augmentation_objective X y l1 0 w ltac:(lra) Hy Hp) as H.
  unfold augment in *. rewrite enet_gamma_zero in *. split; [reflexivity|].
  rewrite H. rewrite enet_objective_l2_zero.
  rewrite (map_ext (fun wi => 1 * wi) (fun wi => wi)) by (intros; lra). rewrite map_id.
  unfold l1. f_equal. ring.
Qed.

(* ---------- shifting the targets ---------- *)
Lemma augment_shift X y l2 c :
  augment ROps X (map (fun v => v + c) y) l2 = augment ROps X y l2.
Proof. unfold augment. rewrite center_shift. reflexivity. Qed.

Definition shift_intercept (c : R) (r : option (list R * R)) : option (list R * R) :=
  match r with Some (w, b) => Some (w, b + c) | None => None end.

Lemma enet_fit_shift opt X y alpha l1_ratio normalize tol max_iter c :
  y <> [] ->
  enet_fit_gen ROps opt X (map (fun v => v + c) y) alpha l1_ratio normalize tol max_iter =
  shift_intercept c (enet_fit_gen ROps opt X y alpha l1_ratio normalize tol max_iter).
Proof.
  intros Hy. unfold enet_fit_gen. rewrite map_length.
  destruct (negb (Nat.eqb (length y) (length X))); [reflexivity|].
  rewrite !augment_shift, (vmean_shift y c Hy).
  destruct normalize.
  - destruct (rescale_x ROps X) as [[[Xs means] stds]|]; [|reflexivity].
    rewrite augment_shift.
    destruct (augment ROps Xs y _) as [[X2 y2] gamma].
    destruct (opt X2 y2 _ max_iter tol) as [w|]; [|reflexivity].
    unfold back_transform, shift_intercept. cbn [osub ROps]. f_equal. f_equal. lra.
  - destruct (augment ROps X y _) as [[X2 y2] gamma].
    destruct (opt X2 y2 _ max_iter tol) as [w|]; reflexivity.
Qed.

(* Lasso: the optimiser only sees the centred target *)
Lemma optimize_gen_shift solver X y lam max_iter tol c :
  optimize_gen ROps solver X (map (fun v => v + c) y) lam max_iter tol = optimize_gen ROps solver X y lam max_iter tol.
Proof. unfold optimize_gen. rewrite center_shift. reflexivity. Qed.

Lemma lasso_fit_shift (mk : list (list R) -> R -> solver_t (T := R)) X y alpha normalize tol max_iter c :
  y <> [] ->
  let opt := fun X y lam mi tol => opt_w (optimize_gen ROps (mk X lam) X y lam mi tol) in
  lasso_fit_gen ROps opt X (map (fun v => v + c) y) alpha normalize tol max_iter =
  shift_intercept c (lasso_fit_gen ROps opt X y alpha normalize tol max_iter).
Proof.
  intros Hy opt. unfold lasso_fit_gen. rewrite map_length.
  destruct (negb (lasso_valid ROps (length X) (ncols X) (length y) alpha tol max_iter)); [reflexivity|].
  rewrite (vmean_shift y c Hy). unfold opt. destruct normalize.
  - destruct (rescale_x ROps X) as [[[Xs means] stds]|]; [|reflexivity].
    rewrite optimize_gen_shift. destruct (opt_w _) as [w|]; [|reflexivity].
    unfold back_transform, shift_intercept. cbn [osub ROps]. f_equal. f_equal. lra.
  - rewrite optimize_gen_shift. destruct (opt_w _) as [w|]; reflexivity.
Qed.

(* ---------- back-transformation ---------- *)
Lemma back_transform_row (row means stds w : list R) :
  length row = length w -> length means = length w -> length stds = length w ->
  Forall (fun s => s <> 0) stds ->
  Rdot row (map2 Rdiv w stds) - Rdot (map2 Rdiv w stds) means =
  Rdot (map (fun xms : R * R * R => (fst (fst xms) - snd (fst xms)) / snd xms) (combine (combine row means) stds)) w.
Proof.
  revert row means stds. induction w as [|wj w IH]; intros [|x row] [|m means] [|s stds] H1 H2 H3 Hs;
    try discriminate; cbn [map2 combine map Rdot fst snd].
  - lra.
  - inversion Hs as [|? ? Hs0 Hs']; subst.
    rewrite <- (IH row means stds) by (cbn in *; auto; lia).
    field. exact Hs0.
Qed.

Lemma lasso_back_transform (X : list (list R)) (means stds w : list R) (ymean : R) :
  Forall (fun row => length row = length w) X -> length means = length w -> length stds = length w ->
  Forall (fun s => s <> 0) stds ->
  let '(w', b) := back_transform ROps ymean means stds w in
  predict ROps X w' b = map (fun v => v + ymean) (matvec ROps (scale_rows ROps X means stds) w).
Proof.
  intros HX Hm Hs Hnz. unfold back_transform, predict, scale_rows. cbn [osub odiv oadd ROps].
  rewrite !matvec_R. unfold Rmatvec. rewrite !map_map, dot_R.
  apply map_ext_in. intros row Hrow.
  rewrite Forall_forall in HX. specialize (HX row Hrow).
  rewrite <- (back_transform_row row means stds w HX Hm Hs Hnz).
  unfold map2 at 1 2 3. fold (map2 Rdiv). lra.
Qed.

(* ---------- parameter validation ---------- *)
Lemma lasso_invalid_is_err opt X y alpha normalize tol max_iter :
  (length X <= ncols X)%nat \/ alpha < 0 \/ tol <= 0 \/ max_iter = 0%nat \/ length y <> length X ->
  lasso_fit_gen ROps opt X y alpha normalize tol max_iter = None.
Proof.
  intros H. unfold lasso_fit_gen.
  replace (lasso_valid ROps (length X) (ncols X) (length y) alpha tol max_iter) with false; [reflexivity|].
  symmetry. unfold lasso_valid. cbn [oltb oleb o0 ROps].
  destruct H as [H|[H|[H|[H|H]]]].
  - apply Nat.leb_le in H. rewrite H. reflexivity.
  - apply Rltb_true in H. rewrite H. cbn. rewrite andb_false_r. reflexivity.
  - apply Rleb_true in H. rewrite H. cbn. rewrite !andb_false_r. reflexivity.
  - subst. cbn. rewrite !andb_false_r. reflexivity.
  - apply Nat.eqb_neq in H. rewrite H. rewrite !andb_false_r. reflexivity.
Qed.

Lemma Rsum_repeat v n : Rsum (repeat v n) = nR n * v.
Proof.
  induction n as [|n IH]; cbn [repeat Rsum].
  - unfold nR. cbn. lra.
  - rewrite IH, nR_S. lra.
Qed.
Lemma fold_sq_R c : fold_left (fun acc a => acc + a * a) c 0 = Rsum (map (fun a => a * a) c).
Proof. rewrite (fold_add_g (fun a : R => a * a)). lra. Qed.

Lemma col_std_constant X j v :
  X <> [] -> col ROps j X = repeat v (length X) -> col_std ROps X j = 0.
Proof.
  intros HX Hc. unfold col_std, col_var. cbn [osqrt osub odiv omul oadd o0 ROps].
  rewrite Hc, vsum_R, fold_sq_R, Rsum_repeat.
  assert (Hsq : Rsum (map (fun a => a * a) (repeat v (length X))) = nR (length X) * (v * v)).
  { clear. induction (length X) as [|n IH]; cbn [repeat map Rsum].
    - unfold nR. cbn. lra.
    - rewrite IH, nR_S. lra. }
  rewrite Hsq. unfold oofnat. cbn [oofZ ROps]. fold (nR (length X)).
  assert (0 < nR (length X)) by (apply nR_pos; destruct X; [congruence | cbn; lia]).
  replace (nR (length X) * (v * v) / nR (length X) - nR (length X) * v / nR (length X) * (nR (length X) * v / nR (length X)))
    with 0 by (field; lra).
  apply sqrt_0.
Qed.

Lemma forallb_repeat_eqb v n : forallb (fun x => oeqb ROps x v) (repeat v n) = true.
Proof.
  induction n as [|n IH]; cbn [repeat forallb]; [reflexivity|]. rewrite IH. cbn [oeqb ROps].
  replace (Reqb v v) with true by (symmetry; apply Reqb_true; reflexivity). reflexivity.
Qed.
Lemma col_constant_repeat X j v : col ROps j X = repeat v (length X) -> col_constant ROps X j = true.
Proof.
  intros Hc. unfold col_constant. rewrite Hc. generalize (length X). intros [|n]; [reflexivity|].
  cbn [repeat]. apply forallb_repeat_eqb.
Qed.

(* a constant column is rejected through the exact test; and (independently) through the deviation
   test, since its deviation is 0 < epsilon in exact arithmetic (col_std_constant) *)
Lemma rescale_constant_column_err X j v :
  X <> [] -> (j < ncols X)%nat -> col ROps j X = repeat v (length X) -> rescale_x ROps X = None.
Proof.
  intros HX Hj Hc. unfold rescale_x.
  replace (existsb _ _) with true; [reflexivity|].
  symmetry. apply existsb_exists. exists j. split.
  - apply in_seq. lia.
  - rewrite (col_constant_repeat X j v Hc). reflexivity.
Qed.

Lemma lasso_constant_column_err opt X y alpha tol max_iter j v :
  X <> [] -> (j < ncols X)%nat -> col ROps j X = repeat v (length X) ->
  lasso_fit_gen ROps opt X y alpha true tol max_iter = None.
Proof.
  intros HX Hj Hc. unfold lasso_fit_gen.
  destruct (negb (lasso_valid ROps _ _ _ _ _ _)); [reflexivity|].
  rewrite (rescale_constant_column_err X j v HX Hj Hc). reflexivity.
Qed.
