(* C08 — calculus: the model's `grad` is (minus) the gradient and the operator of `ip_mat_vec` is the
   Hessian of the barrier objective the code's line search evaluates,
       phi(w,u) = |Xw - yc|^2 + lam * sum u - (1/t) * sum_i [ ln(u_i - w_i) + ln(u_i + w_i) ],
   at every strictly interior point: directional derivatives along every line (w + h dw, u + h du)
   (Coquelicot `is_derive`), which for coordinate directions are the partial derivatives. *)
From Coq Require Import List ZArith Reals Lra Lia Bool Arith.
From Coquelicot Require Import Coquelicot.
From SC Require Import Base.Num C08.Model C08.ProofsBase C08.ProofsDual C08.ProofsFit C08.ProofsNewton.
Import ListNotations.
Local Open Scope R_scope.

(* the point at parameter h of the line through a with direction b *)
Definition lin (h : R) (a b : list R) : list R := map2 (fun x y => x + h * y) a b.

Lemma lin_length h a b : length (lin h a b) = Nat.min (length a) (length b).
Proof. apply map2_length. Qed.
Lemma lin_nth h a b i : (i < length a)%nat -> (i < length b)%nat ->
  nth i (lin h a b) 0 = nth i a 0 + h * nth i b 0.
Proof. intros. unfold lin. apply (nth_map2 (fun x y => x + h * y)); assumption. Qed.
Lemma Rdot_lin a h z c : length z = length c -> Rdot a (lin h z c) = Rdot a z + h * Rdot a c.
Proof.
  revert z c. induction a as [|x a IH]; intros [|y z] [|v c] Hl; try discriminate; cbn [lin map2 Rdot]; try lra.
  fold (lin h z c). rewrite IH by (cbn in Hl; lia). lra.
Qed.
Lemma Rmatvec_lin X h w dw : length w = length dw ->
  Rmatvec X (lin h w dw) = lin h (Rmatvec X w) (Rmatvec X dw).
Proof.
  intros Hl. unfold Rmatvec. induction X as [|row X IH]; cbn [map lin map2]; [reflexivity|].
  fold (lin h (map (fun r => Rdot r w) X) (map (fun r => Rdot r dw) X)). rewrite <- IH.
  rewrite Rdot_lin by exact Hl. reflexivity.
Qed.
Lemma resid_lin h A C y : length A = length C -> length y = length A ->
  map2 Rminus (lin h A C) y = lin h (map2 Rminus A y) C.
Proof.
  revert C y. induction A as [|a A IH]; intros [|c C] [|v y] H1 H2; try discriminate; cbn [lin map2]; [reflexivity|].
  fold (lin h A C). fold (lin h (map2 Rminus A y) C). rewrite IH by (cbn in *; lia). f_equal. lra.
Qed.
Lemma Rsum_lin h u du : length u = length du -> Rsum (lin h u du) = Rsum u + h * Rsum du.
Proof.
  revert du. induction u as [|x u IH]; intros [|y du] Hl; try discriminate; cbn [lin map2 Rsum]; [lra|].
  fold (lin h u du). rewrite IH by (cbn in Hl; lia). lra.
Qed.
Lemma Rdot_lin_lin h z c : length z = length c ->
  Rdot (lin h z c) (lin h z c) = Rdot z z + 2 * h * Rdot z c + h * h * Rdot c c.
Proof.
  intros Hl. rewrite Rdot_lin by exact Hl.
  rewrite (Rdot_comm (lin h z c) z), (Rdot_comm (lin h z c) c), !Rdot_lin by exact Hl.
  rewrite (Rdot_comm c z). lra.
Qed.

(* ---------- derivative of an index sum ---------- *)
Lemma is_derive_sumn n (F : nat -> R -> R) (F' : nat -> R) x :
  (forall i, (i < n)%nat -> is_derive (F i) x (F' i)) ->
  is_derive (fun h => sumn n (fun i => F i h)) x (sumn n F').
Proof.
  induction n as [|n IH]; intros H; cbn [sumn].
  - apply (is_derive_const (K := R_AbsRing) (V := R_NormedModule)).
  - apply (is_derive_plus (K := R_AbsRing) (fun h => sumn n (fun i => F i h)) (F n) x (sumn n F') (F' n)).
    + apply IH. intros; apply H; lia.
    + apply H. lia.
Qed.

Lemma ln_line_derive a b : 0 < a -> is_derive (fun h => ln (a + h * b)) 0 (b / a).
Proof.
  intros Ha. auto_derive.
  - rewrite Rmult_0_l, Rplus_0_r. exact Ha.
  - rewrite Rmult_0_l, Rplus_0_r. field. lra.
Qed.
Lemma inv_line_derive a b : a <> 0 -> is_derive (fun h => 1 / (a + h * b)) 0 (- (1 / a) * (1 / a) * b).
Proof.
  intros Ha. auto_derive.
  - rewrite Rmult_0_l, Rplus_0_r. exact Ha.
  - rewrite Rmult_0_l, Rplus_0_r. field. exact Ha.
Qed.

(* ---------- the barrier objective in closed form ---------- *)
Lemma Rsum_sumn l : Rsum l = sumn (length l) (fun i => nth i l 0).
Proof.
  induction l as [|x l IH]; [reflexivity|]. cbn [length]. rewrite sumn_shift. cbn [Rsum nth]. rewrite IH. reflexivity.
Qed.
Lemma fold_two_R {A} (g1 g2 : A -> R) l a0 :
  fold_left (fun acc x => acc + g1 x + g2 x) l a0 = a0 + Rsum (map (fun x => g1 x + g2 x) l).
Proof.
  revert a0. induction l as [|x l IH]; intros a0; cbn [fold_left map Rsum]; [lra|]. rewrite IH. lra.
Qed.

Definition logterm (wi ui : R) : R := ln (- (wi - ui)) + ln (- (- wi - ui)).

Lemma sumlogneg_R w u p : length w = p -> length u = p ->
  sumlogneg ROps w u = sumn p (fun i => logterm (nth i w 0) (nth i u 0)).
Proof.
  intros Hw Hu. unfold sumlogneg. cbn [oadd oln oneg osub o0 ROps].
  rewrite (fold_two_R (fun wu : R * R => ln (- (fst wu - snd wu))) (fun wu => ln (- (- fst wu - snd wu)))).
  rewrite Rsum_sumn, map_length, combine_length, Hw, Hu, Nat.min_id, Rplus_0_l.
  apply sumn_ext. intros i Hi.
  rewrite (nth_map_lt _ _ i 0 (0, 0)) by (rewrite combine_length; lia).
  rewrite nth_combine_lt by lia. reflexivity.
Qed.

Lemma phi_R X yc lam t w u p : length w = p -> length u = p ->
  phi_of ROps X yc lam t w u =
  Rdot (map2 Rminus (Rmatvec X w) yc) (map2 Rminus (Rmatvec X w) yc) + lam * Rsum u
  - sumn p (fun i => logterm (nth i w 0) (nth i u 0)) / t.
Proof.
  intros Hw Hu. unfold phi_of, residual. cbn [oadd osub omul odiv ROps].
  rewrite dot_R, vsub_R, matvec_R, vsum_R, (sumlogneg_R w u p Hw Hu). reflexivity.
Qed.

(* ---------- splitting a 2p-vector product ---------- *)
Lemma nth_firstn_lt (l : list R) p i : (i < p)%nat -> nth i (firstn p l) 0 = nth i l 0.
Proof.
  revert p i. induction l as [|x l IH]; intros [|p] i Hi; try lia; cbn [firstn nth]; [destruct i; reflexivity|].
  destruct i as [|i]; [reflexivity|]. apply IH. lia.
Qed.
Lemma nth_skipn_add (l : list R) p i : nth i (skipn p l) 0 = nth (p + i) l 0.
Proof.
  revert l. induction p as [|p IH]; intros l; [reflexivity|].
  destruct l as [|x l]; cbn [skipn Nat.add nth]; [destruct i; reflexivity|]. apply IH.
Qed.
Lemma sumn_zero n : sumn n (fun _ => 0) = 0.
Proof. induction n as [|n IH]; cbn [sumn]; lra. Qed.
Lemma sumn_minus n F G : sumn n (fun i => F i - G i) = sumn n F - sumn n G.
Proof. induction n as [|n IH]; cbn [sumn]; [lra | rewrite IH; lra]. Qed.

Lemma Rdot_split g ew eu p : length g = (2 * p)%nat -> length ew = p -> length eu = p ->
  Rdot g (ew ++ eu) = sumn p (fun i => nth i g 0 * nth i ew 0) + sumn p (fun i => nth (p + i) g 0 * nth i eu 0).
Proof.
  intros Hg Hew Heu. rewrite <- (firstn_skipn p g) at 1.
  assert (Hf : length (firstn p g) = p) by (rewrite firstn_length; lia).
  assert (Hs : length (skipn p g) = p) by (rewrite skipn_length; lia).
  rewrite Rdot_app by lia. rewrite !Rdot_sumn by lia. rewrite Hf, Hs. f_equal.
  - apply sumn_ext. intros i Hi. rewrite nth_firstn_lt by lia. reflexivity.
  - apply sumn_ext. intros i Hi. rewrite nth_skipn_add. reflexivity.
Qed.

Section Deriv.
  Variables (X : list (list R)) (yc : list R) (lam t : R) (w u : list R) (p : nat).
  Hypothesis Hw : length w = p.
  Hypothesis Hu : length u = p.
  Hypothesis Hy : length yc = length X.
  Hypothesis Hint : strictly_interior w u.
  Hypothesis Ht : t <> 0.

  Let z := map2 Rminus (Rmatvec X w) yc.
  Definition grad_at (w u : list R) : list R :=
    nw_grad (newton_system ROps X lam t w u (residual ROps X yc w)).

  Lemma up_pos i : (i < p)%nat -> 0 < nth i u 0 + nth i w 0.
  Proof. intros Hi. pose proof (interior_nth w u p Hw Hu Hint i Hi) as Hb. apply Rabs_def2 in Hb. lra. Qed.
  Lemma um_pos i : (i < p)%nat -> 0 < nth i u 0 - nth i w 0.
  Proof. intros Hi. pose proof (interior_nth w u p Hw Hu Hint i Hi) as Hb. apply Rabs_def2 in Hb. lra. Qed.

  (* the objective along the line, in closed form (for every h) *)
  Lemma phi_line dw du h : length dw = p -> length du = p ->
    phi_of ROps X yc lam t (lin h w dw) (lin h u du) =
    Rdot z z + 2 * h * Rdot z (Rmatvec X dw) + h * h * Rdot (Rmatvec X dw) (Rmatvec X dw)
    + lam * (Rsum u + h * Rsum du)
    - sumn p (fun i => ln ((nth i u 0 - nth i w 0) + h * (nth i du 0 - nth i dw 0))
                     + ln ((nth i u 0 + nth i w 0) + h * (nth i du 0 + nth i dw 0))) / t.
  Proof.
    intros Hdw Hdu.
    rewrite (phi_R X yc lam t _ _ p) by (rewrite lin_length; lia).
    rewrite Rmatvec_lin by lia.
    assert (HlX : forall v, length (Rmatvec X v) = length X) by (intros; unfold Rmatvec; apply map_length).
    rewrite resid_lin by (rewrite ?HlX; lia). fold z.
    rewrite Rdot_lin_lin by (unfold z; rewrite map2_length, !HlX; lia).
    rewrite Rsum_lin by lia.
    f_equal. f_equal. apply sumn_ext. intros i Hi. rewrite !lin_nth by lia. unfold logterm.
    f_equal; f_equal; ring.
  Qed.

  Theorem grad_is_gradient dw du : length dw = p -> length du = p ->
    is_derive (fun h => phi_of ROps X yc lam t (lin h w dw) (lin h u du)) 0
              (- Rdot (grad_at w u) (dw ++ du)).
  Proof.
    intros Hdw Hdu.
    set (S := fun h => sumn p (fun i => ln ((nth i u 0 - nth i w 0) + h * (nth i du 0 - nth i dw 0))
                                      + ln ((nth i u 0 + nth i w 0) + h * (nth i du 0 + nth i dw 0)))).
    set (S' := sumn p (fun i => (nth i du 0 - nth i dw 0) / (nth i u 0 - nth i w 0)
                              + (nth i du 0 + nth i dw 0) / (nth i u 0 + nth i w 0))).
    assert (HS : is_derive S 0 S').
    { apply is_derive_sumn. intros i Hi.
      apply (is_derive_plus (K := R_AbsRing)
               (fun h => ln ((nth i u 0 - nth i w 0) + h * (nth i du 0 - nth i dw 0)))
               (fun h => ln ((nth i u 0 + nth i w 0) + h * (nth i du 0 + nth i dw 0)))).
      - apply ln_line_derive. apply um_pos; exact Hi.
      - apply ln_line_derive. apply up_pos; exact Hi. }
    apply (is_derive_ext (fun h =>
      Rdot z z + 2 * h * Rdot z (Rmatvec X dw) + h * h * Rdot (Rmatvec X dw) (Rmatvec X dw)
      + lam * (Rsum u + h * Rsum du) - S h / t)).
    { intros h. symmetry. apply phi_line; assumption. }
    assert (HD : is_derive (fun h =>
      Rdot z z + 2 * h * Rdot z (Rmatvec X dw) + h * h * Rdot (Rmatvec X dw) (Rmatvec X dw)
      + lam * (Rsum u + h * Rsum du) - S h / t) 0
      (2 * Rdot z (Rmatvec X dw) + lam * Rsum du - S' / t)).
    { auto_derive.
      - exists S'. exact HS.
      - rewrite (is_derive_unique (fun x : R => S x) 0 S' HS). field. exact Ht. }
    replace (- Rdot (grad_at w u) (dw ++ du)) with (2 * Rdot z (Rmatvec X dw) + lam * Rsum du - S' / t); [exact HD|].
    (* the value is minus grad . d *)
    unfold grad_at.
    rewrite (Rdot_split _ dw du p) by (first [apply (grad_length X lam t w u _ p Hw Hu) | assumption]).
    rewrite (sumn_ext p _ (fun i => - (2 * nth i (Rmattvec p X z) 0 - (q1i w u i - q2i w u i) / t) * nth i dw 0))
      by (intros i Hi; rewrite (grad_w_nth X lam t w u _ p Hw Hu i Hi); unfold residual; rewrite vsub_R, matvec_R; reflexivity).
    rewrite (sumn_ext p (fun i => nth (p + i) _ 0 * nth i du 0)
                        (fun i => - (lam - (q1i w u i + q2i w u i) / t) * nth i du 0))
      by (intros i Hi; rewrite (grad_u_nth X lam t w u _ p Hw Hu i Hi); reflexivity).
    (* 2 z.(X dw) as an index sum *)
    assert (HB : Rdot z (Rmatvec X dw) = sumn p (fun i => nth i (Rmattvec p X z) 0 * nth i dw 0)).
    { rewrite Rdot_adjoint, Hdw. rewrite Rdot_sumn by (rewrite Rmattvec_length; lia).
      rewrite Rmattvec_length. reflexivity. }
    rewrite HB, (Rsum_sumn du), Hdu. unfold S'.
    replace (sumn p (fun i => (nth i du 0 - nth i dw 0) / (nth i u 0 - nth i w 0) +
                              (nth i du 0 + nth i dw 0) / (nth i u 0 + nth i w 0)) / t)
      with (sumn p (fun i => / t * ((nth i du 0 - nth i dw 0) / (nth i u 0 - nth i w 0) +
                                    (nth i du 0 + nth i dw 0) / (nth i u 0 + nth i w 0))))
      by (rewrite sumn_scal; field; exact Ht).
    rewrite <- !sumn_scal. rewrite <- !sumn_plus, <- sumn_minus.
    apply Rplus_opp_r_uniq. rewrite <- sumn_plus.
    rewrite (sumn_ext p _ (fun _ => 0)); [apply sumn_zero|].
    intros i Hi. unfold q1i, q2i.
    pose proof (up_pos i Hi). pose proof (um_pos i Hi). field. repeat split; lra.
  Qed.

  (* ---------- second derivatives ---------- *)
  Lemma term_w_derive a b P D M E e : P <> 0 -> M <> 0 ->
    is_derive (fun h => - (2 * (a + h * b) - (1 / (P + h * D) - 1 / (M + h * E)) / t) * e) 0
              (- (2 * b + ((1 / P) * (1 / P) * D - (1 / M) * (1 / M) * E) / t) * e).
  Proof.
    intros HP HM. auto_derive.
    - rewrite !Rmult_0_l, !Rplus_0_r. split; [exact HP | split; [exact HM | exact I]].
    - rewrite !Rmult_0_l, !Rplus_0_r. field. repeat split; assumption.
  Qed.
  Lemma term_u_derive P D M E e : P <> 0 -> M <> 0 ->
    is_derive (fun h => - (lam - (1 / (P + h * D) + 1 / (M + h * E)) / t) * e) 0
              (- (((1 / P) * (1 / P) * D + (1 / M) * (1 / M) * E) / t) * e).
  Proof.
    intros HP HM. auto_derive.
    - rewrite !Rmult_0_l, !Rplus_0_r. split; [exact HP | split; [exact HM | exact I]].
    - rewrite !Rmult_0_l, !Rplus_0_r. field. repeat split; assumption.
  Qed.

  (* grad . e along the line, in closed form (for every h) *)
  Lemma gradline dw du ew eu h : length dw = p -> length du = p -> length ew = p -> length eu = p ->
    Rdot (grad_at (lin h w dw) (lin h u du)) (ew ++ eu) =
    sumn p (fun i => - (2 * (Rdot (Rcol i X) z + h * Rdot (Rcol i X) (Rmatvec X dw))
                        - (1 / ((nth i u 0 + nth i w 0) + h * (nth i du 0 + nth i dw 0))
                           - 1 / ((nth i u 0 - nth i w 0) + h * (nth i du 0 - nth i dw 0))) / t) * nth i ew 0) +
    sumn p (fun i => - (lam - (1 / ((nth i u 0 + nth i w 0) + h * (nth i du 0 + nth i dw 0))
                               + 1 / ((nth i u 0 - nth i w 0) + h * (nth i du 0 - nth i dw 0))) / t) * nth i eu 0).
  Proof.
    intros Hdw Hdu Hew Heu.
    assert (Hlw : length (lin h w dw) = p) by (rewrite lin_length; lia).
    assert (Hlu : length (lin h u du) = p) by (rewrite lin_length; lia).
    assert (HlX : forall v, length (Rmatvec X v) = length X) by (intros; unfold Rmatvec; apply map_length).
    unfold grad_at.
    rewrite (Rdot_split _ ew eu p) by (first [apply (grad_length X lam t _ _ _ p Hlw Hlu) | assumption]).
    assert (Hz : residual ROps X yc (lin h w dw) = lin h z (Rmatvec X dw)).
    { unfold residual. rewrite vsub_R, matvec_R, Rmatvec_lin by lia. apply resid_lin; rewrite ?HlX; lia. }
    f_equal; apply sumn_ext; intros i Hi.
    - rewrite (grad_w_nth X lam t _ _ _ p Hlw Hlu i Hi). rewrite Hz.
      unfold Rmattvec. rewrite nth_seq_map by lia.
      rewrite Rdot_lin by (unfold z; rewrite map2_length, !HlX; lia).
      unfold q1i, q2i. rewrite !lin_nth by lia.
      replace (nth i u 0 + h * nth i du 0 + (nth i w 0 + h * nth i dw 0))
        with (nth i u 0 + nth i w 0 + h * (nth i du 0 + nth i dw 0)) by ring.
      replace (nth i u 0 + h * nth i du 0 - (nth i w 0 + h * nth i dw 0))
        with (nth i u 0 - nth i w 0 + h * (nth i du 0 - nth i dw 0)) by ring.
      reflexivity.
    - rewrite (grad_u_nth X lam t _ _ _ p Hlw Hlu i Hi).
      unfold q1i, q2i. rewrite !lin_nth by lia.
      replace (nth i u 0 + h * nth i du 0 + (nth i w 0 + h * nth i dw 0))
        with (nth i u 0 + nth i w 0 + h * (nth i du 0 + nth i dw 0)) by ring.
      replace (nth i u 0 + h * nth i du 0 - (nth i w 0 + h * nth i dw 0))
        with (nth i u 0 - nth i w 0 + h * (nth i du 0 - nth i dw 0)) by ring.
      reflexivity.
  Qed.

  Theorem hessian_is_hessian dw du ew eu :
    length dw = p -> length du = p -> length ew = p -> length eu = p ->
    is_derive (fun h => - Rdot (grad_at (lin h w dw) (lin h u du)) (ew ++ eu)) 0
              (hform X t w u p dw du ew eu).
  Proof.
    intros Hdw Hdu Hew Heu.
    set (V1 := sumn p (fun i => - (2 * Rdot (Rcol i X) (Rmatvec X dw)
                 + ((1 / (nth i u 0 + nth i w 0)) * (1 / (nth i u 0 + nth i w 0)) * (nth i du 0 + nth i dw 0)
                    - (1 / (nth i u 0 - nth i w 0)) * (1 / (nth i u 0 - nth i w 0)) * (nth i du 0 - nth i dw 0)) / t) * nth i ew 0)).
    set (V2 := sumn p (fun i => - (((1 / (nth i u 0 + nth i w 0)) * (1 / (nth i u 0 + nth i w 0)) * (nth i du 0 + nth i dw 0)
                    + (1 / (nth i u 0 - nth i w 0)) * (1 / (nth i u 0 - nth i w 0)) * (nth i du 0 - nth i dw 0)) / t) * nth i eu 0)).
    set (F1 := fun h : R => sumn p (fun i => - (2 * (Rdot (Rcol i X) z + h * Rdot (Rcol i X) (Rmatvec X dw))
                        - (1 / ((nth i u 0 + nth i w 0) + h * (nth i du 0 + nth i dw 0))
                           - 1 / ((nth i u 0 - nth i w 0) + h * (nth i du 0 - nth i dw 0))) / t) * nth i ew 0)).
    set (F2 := fun h : R => sumn p (fun i => - (lam - (1 / ((nth i u 0 + nth i w 0) + h * (nth i du 0 + nth i dw 0))
                               + 1 / ((nth i u 0 - nth i w 0) + h * (nth i du 0 - nth i dw 0))) / t) * nth i eu 0)).
    assert (H1 : is_derive F1 0 V1).
    { apply is_derive_sumn. intros i Hi.
      apply term_w_derive; [pose proof (up_pos i Hi) | pose proof (um_pos i Hi)]; lra. }
    assert (H2 : is_derive F2 0 V2).
    { apply is_derive_sumn. intros i Hi.
      apply term_u_derive; [pose proof (up_pos i Hi) | pose proof (um_pos i Hi)]; lra. }
    assert (HV : is_derive (fun h => Rdot (grad_at (lin h w dw) (lin h u du)) (ew ++ eu)) 0 (V1 + V2)).
    { apply (is_derive_ext (fun h => F1 h + F2 h)); [intros h; symmetry; apply gradline; assumption|].
      exact (is_derive_plus (K := R_AbsRing) F1 F2 0 V1 V2 H1 H2). }
    replace (hform X t w u p dw du ew eu) with (opp (V1 + V2));
      [exact (is_derive_opp (K := R_AbsRing) _ 0 (V1 + V2) HV)|].
    unfold opp; cbn. unfold V1, V2, hform.
    assert (HB : Rdot (Rmatvec X dw) (Rmatvec X ew) = sumn p (fun i => Rdot (Rcol i X) (Rmatvec X dw) * nth i ew 0)).
    { rewrite (Rdot_adjoint X (Rmatvec X dw) ew), Hew.
      rewrite <- (Rdot_map_seq p (fun i => Rdot (Rcol i X) (Rmatvec X dw)) ew Hew). reflexivity. }
    rewrite HB, <- sumn_scal, <- !sumn_plus.
    symmetry. apply Rplus_opp_r_uniq. rewrite <- sumn_plus.
    rewrite (sumn_ext p _ (fun _ => 0)); [apply sumn_zero|].
    intros i Hi. unfold d1i, d2i, q1i, q2i.
    pose proof (up_pos i Hi). pose proof (um_pos i Hi). field. repeat split; lra.
  Qed.
End Deriv.
