(* C08 — a satisfiability instance for the BiCG theorems (ProofsPcg.v): with an exact preconditioner
   (M r = A^-1 r) the loop meets every tolerance after ONE pass, x' = x + M r.  The 1-column problem
   X = [[1]] has X^T X = 1, so the optimiser's preconditioner (2 X^T X replaced by 2 I) is exact and
   `solve_mut` on the Newton system of C08_newton_sat returns the exact Newton direction (1/2, 1/2)
   with err = 0. *)
From Coq Require Import List ZArith Reals Lra Lia Bool Arith.
From SC Require Import Base.Num C08.Model C08.ProofsBase C08.ProofsDual C08.ProofsFit C08.ProofsGap C08.ProofsEnd
  C08.ProofsNewton C08.ProofsNewtonExamples C08.ProofsRefine C08.ProofsPcg.
Import ListNotations.
Local Open Scope R_scope.

Lemma Rsum_sq_xmay_self r : Rsum (map (fun x => x * x) (map2 (fun xi yi => yi - 1 * xi) r r)) = 0.
Proof. induction r as [|v r IH]; cbn [map2 map Rsum]; [reflexivity | rewrite IH; ring]. Qed.
Lemma norm2_xmay_self r : norm2 ROps (xmay ROps 1 r r) = 0.
Proof.
  unfold norm2. cbn [osqrt oadd omul o0 ROps]. rewrite xmay_R.
  rewrite (fold_add_g (fun x : R => x * x)), Rsum_sq_xmay_self, Rplus_0_r. apply sqrt_0.
Qed.

Lemma pcg_exact_precond_one_step (A M : list R -> list R) fuel tol bnrm x r z :
  0 <= tol -> M r = z -> A z = r -> Rdot z r <> 0 ->
  pcg_loop ROps (S fuel) true A M tol bnrm x r r z [] [] 0 0 = (0, axpy ROps 1 z x).
Proof.
  intros Htol HM HA Hnz. remember fuel as f0. cbn [pcg_loop]. rewrite HM, HA.
  assert (Hak : odiv ROps (dot ROps z r) (dot ROps r z) = 1).
  { cbn [odiv ROps]. rewrite !dot_R, (Rdot_comm r z). field. exact Hnz. }
  rewrite Hak, norm2_xmay_self. cbn [odiv oleb ROps].
  replace (0 / bnrm) with 0 by (unfold Rdiv; ring).
  replace (Rleb 0 tol) with true by (symmetry; apply Rleb_true; exact Htol). reflexivity.
Qed.

Lemma ex_pcg_solve_tol tol :
  0 < tol ->
  let nw := newton_system ROps [[1]] 1 1 [0] [1] (residual ROps [[1]] [1] [0]) in
  solve_mut ROps (ip_mat_vec ROps 1 (gram ROps 1 [[1]]) nw) (ip_precond ROps 1 nw) (nw_grad nw) [0; 0]
            tol pcgmaxi = Some (0, [1 / 2; 1 / 2]).
Proof.
  intros Htol nw. set (A := ip_mat_vec ROps 1 (gram ROps 1 [[1]]) nw). set (M := ip_precond ROps 1 nw).
  assert (Hr : vsub ROps (nw_grad nw) (A [0; 0]) = [2; 1]).
  { unfold A, nw.
    cbv [newton_system ip_mat_vec gram residual vsub matvec mattvec col dot nthT nw_d1 nw_d2 nw_grad
         map2 map combine fold_left seq nth firstn app length fst snd Nat.add two
         o0 o1 oadd osub omul odiv oneg oofZ ROps].
    repeat f_equal; field. }
  assert (HM : M [2; 1] = [1 / 2; 1 / 2]).
  { unfold M, nw.
    cbv [newton_system ip_precond residual vsub matvec mattvec col dot nthT nw_d1 nw_d2 nw_prb nw_prs nw_grad
         map2 map combine fold_left seq nth firstn app length fst snd Nat.add two
         o0 o1 oadd osub omul odiv oneg oofZ ROps].
    f_equal; [field | f_equal; field]. }
  assert (HA : A [1 / 2; 1 / 2] = [2; 1]).
  { unfold A, nw.
    cbv [newton_system ip_mat_vec gram residual vsub matvec mattvec col dot nthT nw_d1 nw_d2 nw_grad
         map2 map combine fold_left seq nth firstn app length fst snd Nat.add two
         o0 o1 oadd osub omul odiv oneg oofZ ROps].
    repeat f_equal; field. }
  unfold solve_mut. cbn [oleb o0 ROps].
  replace (Rleb tol 0) with false by (symmetry; apply Rleb_false; lra).
  change (Nat.eqb pcgmaxi 0) with false. cbv iota.
  destruct (pcgmaxi - 1)%nat as [|fuel] eqn:Ef; [discriminate Ef|].
  rewrite Hr, HM.
  rewrite (pcg_exact_precond_one_step A M fuel tol _ [0; 0] [2; 1] [1 / 2; 1 / 2]);
    [| lra | exact HM | exact HA | cbn [Rdot]; apply Rgt_not_eq; lra].
  rewrite axpy_R. cbn [map2].
  replace (0 + 1 * (1 / 2)) with (1 / 2) by lra. reflexivity.
Qed.

(* ... and through pcg_solver: a state of the 1-column problem on which the code's solver answers with
   the exact Newton direction and keeps its flag *)
Definition ex_state : ipstate (T := R) :=
  {| st_w := [0]; st_u := [1]; st_dobj := 0; st_t := 1; st_s := 1; st_pitr0 := true; st_dxu := [0; 0] |}.
Lemma ex_pcg_solver :
  pcg_solver ROps [[1]] 1 0%nat ex_state (residual ROps [[1]] [1] [0]) 1 = Some (true, [1 / 2; 1 / 2]) /\
  length (st_w ex_state) = 1%nat /\ length (st_u ex_state) = 1%nat /\ length (st_dxu ex_state) = 2%nat.
Proof.
  split; [|repeat split].
  unfold pcg_solver. cbn [ex_state st_w st_u st_t st_pitr0 st_dxu length].
  set (nw := newton_system ROps [[1]] 1 1 [0] [1] (residual ROps [[1]] [1] [0])).
  set (pcgtol := pcg_tolerance ROps 0 true 1 (nw_grad nw)).
  assert (Hg : nw_grad nw = [2; 1]) by (apply ProofsNewtonExamples.ex_newton_solution).
  assert (Htol : 0 < pcgtol).
  { unfold pcgtol, pcg_tolerance. cbn [Nat.eqb negb andb]. rewrite !omin_R. rewrite Hg.
    unfold c_min_pcgtol, c_eta. cbn [odiv omul o1 oofZ ROps].
    assert (0 < norm2 ROps [2; 1]).
    { unfold norm2. cbn [osqrt oadd omul o0 fold_left ROps]. apply sqrt_lt_R0. lra. }
    apply Rmin_glb_lt; [lra|]. apply Rdiv_lt_0_compat; [lra|]. apply Rmin_glb_lt; lra. }
  pose proof (ex_pcg_solve_tol pcgtol Htol) as E. cbv zeta in E. fold nw in E.
  rewrite E. cbn [oltb ROps andb]. replace (Rltb pcgtol 0) with false by (symmetry; apply Rltb_false; lra).
  reflexivity.
Qed.
