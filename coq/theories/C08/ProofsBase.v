(* C08 — the real-number view of the model's vector operations: every left-to-right fold of the
   model, instantiated at ROps, equals a structurally recursive sum; plus the finite-sum lemmas the
   duality proofs need (Hoelder |a.w| <= max|a| * |w|_1, adjointness nu.(Xw) = (X^T nu).w, ...). *)
From Coq Require Import List ZArith Reals Lra Lia Bool Arith.
From SC Require Import Base.Num C08.Model.
Import ListNotations.
Local Open Scope R_scope.

Fixpoint Rsum (l : list R) : R := match l with [] => 0 | x :: t => x + Rsum t end.
Fixpoint Rdot (a b : list R) : R :=
  match a, b with x :: a', y :: b' => x * y + Rdot a' b' | _, _ => 0 end.
Definition Rnorm1 (a : list R) : R := Rsum (map Rabs a).

Lemma fold_add_g {A} (g : A -> R) (l : list A) (acc : R) :
  fold_left (fun a x => a + g x) l acc = acc + Rsum (map g l).
Proof.
  revert acc. induction l as [|x l IH]; intros acc; cbn [fold_left map Rsum].
  - lra.
  - rewrite IH. lra.
Qed.

Lemma Rsum_dot a b : Rsum (map (fun xy : R * R => fst xy * snd xy) (combine a b)) = Rdot a b.
Proof.
  revert b. induction a as [|x a IH]; intros [|y b]; cbn [combine map Rsum Rdot fst snd]; try reflexivity.
  rewrite IH. reflexivity.
Qed.

Lemma dot_R a b : dot ROps a b = Rdot a b.
Proof.
  unfold dot. cbn [oadd omul o0 ROps].
  rewrite (fold_add_g (fun xy : R * R => fst xy * snd xy)). rewrite Rsum_dot. lra.
Qed.
Lemma vsum_R a : vsum ROps a = Rsum a.
Proof.
  unfold vsum. cbn [oadd o0 ROps].
  rewrite (fold_add_g (fun x : R => x)). rewrite map_id. lra.
Qed.
Lemma norm1_R a : norm1 ROps a = Rnorm1 a.
Proof.
  unfold norm1, Rnorm1. cbn [oadd oabs o0 ROps].
  rewrite (fold_add_g Rabs). lra.
Qed.

Lemma Rdot_nil_r a : Rdot a [] = 0.
Proof. destruct a; reflexivity. Qed.
Lemma Rdot_comm a b : Rdot a b = Rdot b a.
Proof.
  revert b. induction a as [|x a IH]; intros [|y b]; cbn [Rdot]; try reflexivity.
  rewrite IH. lra.
Qed.
Lemma Rdot_self_nonneg a : 0 <= Rdot a a.
Proof. induction a as [|x a IH]; cbn [Rdot]; [lra | nra]. Qed.
Lemma Rnorm1_nonneg a : 0 <= Rnorm1 a.
Proof.
  unfold Rnorm1. induction a as [|x a IH]; cbn [map Rsum]; [lra|].
  pose proof (Rabs_pos x). lra.
Qed.

(* Hoelder with the sup norm *)
Lemma Rdot_holder m a w :
  0 <= m -> Forall (fun v => Rabs v <= m) a -> Rabs (Rdot a w) <= m * Rnorm1 w.
Proof.
  intros Hm Ha. revert w. induction Ha as [|x a Hx Ha IH]; intros w.
  - cbn [Rdot]. rewrite Rabs_R0. pose proof (Rnorm1_nonneg w). nra.
  - destruct w as [|y w].
    + cbn [Rdot]. rewrite Rabs_R0. unfold Rnorm1; cbn. lra.
    + cbn [Rdot]. unfold Rnorm1; cbn [map Rsum]. fold (Rnorm1 w).
      specialize (IH w).
      eapply Rle_trans; [apply Rabs_triang|].
      rewrite Rabs_mult. pose proof (Rabs_pos x). pose proof (Rabs_pos y). nra.
Qed.

(* ---------- map2 ---------- *)
Lemma map2_length {T} (f : T -> T -> T) a b : length (map2 f a b) = Nat.min (length a) (length b).
Proof. revert b. induction a as [|x a IH]; intros [|y b]; cbn; auto. Qed.

Lemma Rdot_map2_plus_l a b w :
  length a = length b -> Rdot (map2 Rplus a b) w = Rdot a w + Rdot b w.
Proof.
  revert b w. induction a as [|x a IH]; intros [|y b] w Hl; try discriminate; cbn [map2 Rdot].
  - lra.
  - destruct w as [|z w]; [lra|]. rewrite IH by (cbn in Hl; lia). lra.
Qed.

Lemma Rdot_scale_r a b c : Rdot a (map (fun x => x * c) b) = Rdot a b * c.
Proof.
  revert b. induction a as [|x a IH]; intros [|y b]; cbn [map Rdot]; try lra.
  rewrite IH. lra.
Qed.

Lemma map2_map_same {A} (f g : A -> R) (l : list A) :
  map2 Rplus (map f l) (map g l) = map (fun x => f x + g x) l.
Proof. induction l as [|x l IH]; cbn [map map2]; [reflexivity | rewrite IH; reflexivity]. Qed.

(* ---------- matrices ---------- *)
Definition Rmatvec (X : list (list R)) (w : list R) : list R := map (fun row => Rdot row w) X.
Definition Rcol (r : nat) (X : list (list R)) : list R := map (fun row => nth r row 0) X.
Definition Rmattvec (p : nat) (X : list (list R)) (v : list R) : list R :=
  map (fun r => Rdot (Rcol r X) v) (seq 0 p).

Lemma matvec_R X w : matvec ROps X w = Rmatvec X w.
Proof. unfold matvec, Rmatvec. apply map_ext. intros; apply dot_R. Qed.
Lemma col_R r X : col ROps r X = Rcol r X.
Proof. reflexivity. Qed.
Lemma mattvec_R p X v : mattvec ROps p X v = Rmattvec p X v.
Proof. unfold mattvec, Rmattvec. apply map_ext. intros; rewrite col_R; apply dot_R. Qed.

Lemma skipn_nth_cons (k : nat) (row : list R) :
  (k < length row)%nat -> skipn k row = nth k row 0 :: skipn (S k) row.
Proof.
  revert k. induction row as [|x row IH]; intros k Hk; cbn in Hk; [lia|].
  destruct k as [|k]; [reflexivity|]. cbn [skipn nth]. apply IH. lia.
Qed.

Lemma Rdot_row_seq (row w : list R) (v : R) (k : nat) :
  Rdot (map (fun r => nth r row 0 * v) (seq k (length w))) w = v * Rdot (skipn k row) w.
Proof.
  revert k. induction w as [|y w IH]; intros k; cbn [length seq map Rdot].
  - rewrite Rdot_nil_r. lra.
  - rewrite IH. destruct (Nat.lt_ge_cases k (length row)) as [Hk|Hk].
    + rewrite (skipn_nth_cons k row Hk). cbn [Rdot]. lra.
    + rewrite (nth_overflow row 0 Hk). rewrite (skipn_all2 row) by lia.
      rewrite (skipn_all2 row) by lia. cbn [Rdot]. lra.
Qed.

Lemma Rmattvec_length p X v : length (Rmattvec p X v) = p.
Proof. unfold Rmattvec. rewrite map_length, seq_length. reflexivity. Qed.

Lemma Rmattvec_cons p row X v nu :
  Rmattvec p (row :: X) (v :: nu) =
  map2 Rplus (map (fun r => nth r row 0 * v) (seq 0 p)) (Rmattvec p X nu).
Proof. unfold Rmattvec. rewrite map2_map_same. apply map_ext. intros r. reflexivity. Qed.

Lemma Rdot_zeros_l {A} (l : list A) w : Rdot (map (fun _ => 0) l) w = 0.
Proof.
  revert w. induction l as [|x l IH]; intros [|y w]; cbn [map Rdot]; try lra.
  rewrite IH. lra.
Qed.

(* adjointness: nu . (X w) = (X^T nu) . w, no shape hypothesis needed with truncating sums *)
Lemma Rdot_adjoint X nu w :
  Rdot nu (Rmatvec X w) = Rdot (Rmattvec (length w) X nu) w.
Proof.
  revert nu. induction X as [|row X IH]; intros nu.
  - cbn [Rmatvec map]. rewrite Rdot_nil_r. unfold Rmattvec.
    rewrite (map_ext _ (fun _ => 0)).
    + rewrite Rdot_zeros_l. reflexivity.
    + intros r. reflexivity.
  - destruct nu as [|v nu].
    + cbn [Rdot]. unfold Rmattvec. rewrite (map_ext _ (fun _ => 0)).
      * rewrite Rdot_zeros_l. reflexivity.
      * intros r. apply Rdot_nil_r.
    + cbn [Rmatvec map Rdot]. fold (Rmatvec X w). rewrite IH.
      rewrite Rmattvec_cons. rewrite Rdot_map2_plus_l.
      * rewrite Rdot_row_seq. cbn [skipn]. lra.
      * rewrite map_length, seq_length, Rmattvec_length. reflexivity.
Qed.

Lemma Rmattvec_scale p X nu c :
  Rmattvec p X (map (fun x => x * c) nu) = map (fun x => x * c) (Rmattvec p X nu).
Proof.
  unfold Rmattvec. rewrite map_map. apply map_ext. intros r. apply Rdot_scale_r.
Qed.

(* ---------- the sup norm fold ---------- *)
Lemma omax_R a b : omax ROps a b = Rmax a b.
Proof.
  unfold omax. cbn [oltb ROps]. unfold Rltb, Rmax.
  destruct (Rlt_dec a b) as [H|H]; destruct (Rle_dec a b) as [H'|H']; try reflexivity; lra.
Qed.
Lemma omin_R a b : omin ROps a b = Rmin a b.
Proof.
  unfold omin. cbn [oltb ROps]. unfold Rltb, Rmin.
  destruct (Rlt_dec b a) as [H|H]; destruct (Rle_dec a b) as [H'|H']; try reflexivity; lra.
Qed.

Lemma norm_inf_fold_spec (l : list R) (acc : R) :
  let m := fold_left (fun a x => Rmax a (Rabs x)) l acc in
  acc <= m /\ Forall (fun x => Rabs x <= m) l.
Proof.
  revert acc. induction l as [|x l IH]; intros acc; cbn [fold_left].
  - split; [lra | constructor].
  - destruct (IH (Rmax acc (Rabs x))) as [H1 H2]. cbn zeta in *.
    pose proof (Rmax_l acc (Rabs x)). pose proof (Rmax_r acc (Rabs x)).
    split; [lra|]. constructor; [lra | exact H2].
Qed.
Lemma norm_inf_R l : norm_inf ROps l = fold_left (fun a x => Rmax a (Rabs x)) l 0.
Proof.
  unfold norm_inf. cbn [oabs o0 ROps].
  generalize 0. induction l as [|x l IH]; intros acc; cbn [fold_left]; [reflexivity|].
  rewrite omax_R. apply IH.
Qed.
Lemma norm_inf_bound l : Forall (fun x => Rabs x <= norm_inf ROps l) l /\ 0 <= norm_inf ROps l.
Proof.
  rewrite norm_inf_R. destruct (norm_inf_fold_spec l 0) as [H1 H2]. split; assumption.
Qed.

Lemma vsub_R a b : vsub ROps a b = map2 Rminus a b.
Proof. reflexivity. Qed.
