(* C08 — ElasticNet::fit as executed (`enet_fit`) IS the Lasso machinery on the augmented data:
   the optimiser call of Lasso::fit (normalize = false) on (X2, y2) = augment_x_and_y(Z, y, l2) with
   the penalty alpha2 = l1*gamma/(n+p)  (so that alpha2 * rows(X2) = l1 * gamma, the penalty
   ElasticNet::fit hands to `optimize`), followed by the rescaling by gamma and the
   back-transformation the code applies; and the Lasso objective of the augmented problem equals the
   elastic-net objective of the rescaled coefficients (factor 1: the design was already multiplied
   by gamma), also for the penalty max(l1*gamma, epsilon) that `optimize` really uses. *)
From Coq Require Import List ZArith Reals Lra Lia Bool Arith.
From SC Require Import Base.Num C08.Model C08.ProofsBase C08.ProofsDual C08.ProofsFit C08.ProofsGap C08.ProofsEnd
  C08.ProofsRefine.
Import ListNotations.
Local Open Scope R_scope.

(* what ElasticNet::fit does with the optimiser's coefficients w (already multiplied by gamma):
   division by the column deviations and intercept y_mean - sum w_i mean_i under normalisation,
   (w, y_mean) otherwise *)
Definition back_of (normalize : bool) (X : list (list R)) (ymean : R) (w : list R) : list R * R :=
  if normalize then
    match rescale_x ROps X with
    | Some (_, means, stds) => back_transform ROps ymean means stds w
    | None => (w, ymean)
    end
  else (w, ymean).

Definition enet_of_opt (normalize : bool) (X : list (list R)) (ymean gamma : R) (r : option (list R)) :=
  match r with
  | Some wt => Some (back_of normalize X ymean (map (fun wi => gamma * wi) wt))
  | None => None
  end.

Lemma enet_fit_unfold X y alpha l1_ratio normalize tol mi Z :
  length y = length X -> design normalize X = Some Z ->
  let nf := IZR (Z.of_nat (length X)) in
  let l1 := alpha * l1_ratio * nf in
  let l2 := alpha * (1 - l1_ratio) * nf in
  enet_fit ROps X y alpha l1_ratio normalize tol mi =
  enet_of_opt normalize X (vmean ROps y) (snd (augment ROps Z y l2))
    (opt_w (optimize ROps (fst (fst (augment ROps Z y l2))) (snd (fst (augment ROps Z y l2)))
                     (l1 * snd (augment ROps Z y l2)) mi tol)).
Proof.
  intros Hy Hdes nf l1 l2. unfold enet_fit, enet_fit_gen. rewrite Hy, Nat.eqb_refl. cbn [negb].
  change (omul ROps (omul ROps alpha l1_ratio) (oofnat ROps (length X))) with l1.
  change (omul ROps (omul ROps alpha (osub ROps (o1 ROps) l1_ratio)) (oofnat ROps (length X))) with l2.
  unfold design in Hdes. unfold enet_of_opt, back_of. destruct normalize.
  - destruct (rescale_x ROps X) as [[[Xs means] stds]|] eqn:Hre; [|discriminate].
    inversion Hdes; subst Z.
    destruct (augment ROps Xs y l2) as [[X2 y2] gamma]. cbn [fst snd omul ROps].
    destruct (opt_w _); reflexivity.
  - inversion Hdes; subst Z.
    destruct (augment ROps X y l2) as [[X2 y2] gamma]. cbn [fst snd omul ROps].
    destruct (opt_w _); reflexivity.
Qed.

(* Lasso::fit without normalisation, valid settings: the optimiser call and (w, mean y) *)
Lemma lasso_fit_raw_unfold X2 y2 alpha2 lam2 tol mi :
  lasso_valid ROps (length X2) (ncols X2) (length y2) alpha2 tol mi = true ->
  alpha2 * IZR (Z.of_nat (length X2)) = lam2 ->
  lasso_fit ROps X2 y2 alpha2 false tol mi =
  match opt_w (optimize ROps X2 y2 lam2 mi tol) with
  | Some wt => Some (wt, vmean ROps y2)
  | None => None
  end.
Proof.
  intros Hv Hl. unfold lasso_fit, lasso_fit_gen. rewrite Hv. cbn [negb].
  change (omul ROps alpha2 (oofnat ROps (length X2))) with (alpha2 * IZR (Z.of_nat (length X2))).
  rewrite Hl. reflexivity.
Qed.

Lemma vmean_padded_center y p : vmean ROps (center ROps y ++ repeat 0 p) = 0.
Proof. rewrite vmean_R, Rsum_app, Rsum_center, Rsum_repeat0. unfold Rdiv. ring. Qed.

Lemma augment_shapes Z y l2 :
  length y = length Z ->
  length (fst (fst (augment ROps Z y l2))) = (length Z + ncols Z)%nat /\
  ncols (fst (fst (augment ROps Z y l2))) = ncols Z /\
  length (snd (fst (augment ROps Z y l2))) = length (fst (fst (augment ROps Z y l2))) /\
  snd (fst (augment ROps Z y l2)) = center ROps y ++ repeat 0 (ncols Z) /\
  snd (augment ROps Z y l2) = enet_gamma ROps l2.
Proof.
  intros Hy. split; [|split; [apply ncols_augment | split; [apply length_augment; exact Hy | split; reflexivity]]].
  unfold augment. cbn [fst]. rewrite app_length, !map_length, seq_length. reflexivity.
Qed.

Lemma enet_reduces_to_lasso X y alpha l1_ratio normalize tol mi Z :
  length y = length X -> design normalize X = Some Z ->
  let nf := IZR (Z.of_nat (length X)) in
  let l1 := alpha * l1_ratio * nf in
  let l2 := alpha * (1 - l1_ratio) * nf in
  0 <= l2 ->
  let '(X2, y2, gamma) := augment ROps Z y l2 in
  let alpha2 := l1 * gamma / IZR (Z.of_nat (length X2)) in
  (* the augmented problem *)
  (length X2 = (length X + ncols X)%nat /\ ncols X2 = ncols X /\ length y2 = length X2 /\
   gamma = 1 / sqrt (1 + l2) /\ 0 < gamma) /\
  (* (i) ElasticNet::fit = optimize on the augmented data, then the code's rescaling *)
  enet_fit ROps X y alpha l1_ratio normalize tol mi =
    enet_of_opt normalize X (vmean ROps y) gamma (opt_w (optimize ROps X2 y2 (l1 * gamma) mi tol)) /\
  (* (ii) ... which is Lasso::fit (normalize = false) on the augmented data with penalty alpha2,
          whose intercept is 0 *)
  (lasso_valid ROps (length X2) (ncols X2) (length y2) alpha2 tol mi = true ->
     enet_fit ROps X y alpha l1_ratio normalize tol mi =
       enet_of_opt normalize X (vmean ROps y) gamma
         (match lasso_fit ROps X2 y2 alpha2 false tol mi with Some (wt, _) => Some wt | None => None end) /\
     forall wt b2, lasso_fit ROps X2 y2 alpha2 false tol mi = Some (wt, b2) -> b2 = 0) /\
  (X <> [] -> 0 <= alpha * l1_ratio -> 0 < tol -> mi <> 0%nat ->
     lasso_valid ROps (length X2) (ncols X2) (length y2) alpha2 tol mi = true) /\
  (* (iii) the objectives agree at w = gamma * wt: for the nominal penalty and for the floored one *)
  (forall wt, length wt = ncols X ->
     lasso_objective ROps X2 (center ROps y2) (l1 * gamma) wt =
     enet_objective ROps Z (center ROps y) l1 l2 (map (fun wi => gamma * wi) wt)) /\
  (forall wt, length wt = ncols X ->
     lasso_objective ROps X2 (center ROps y2) (lam_used (l1 * gamma)) wt =
     enet_objective ROps Z (center ROps y) (enet_l1_eff l1 gamma) l2 (map (fun wi => gamma * wi) wt)).
Proof.
  intros Hy Hdes nf l1 l2 Hl2.
  assert (HyZ : length y = length Z) by (rewrite (design_length _ _ _ Hdes); exact Hy).
  pose proof (design_length _ _ _ Hdes) as HlZ. pose proof (design_ncols _ _ _ Hdes) as HnZ.
  pose proof (enet_fit_unfold X y alpha l1_ratio normalize tol mi Z Hy Hdes) as Hunf.
  cbv zeta in Hunf. change (alpha * (1 - l1_ratio) * IZR (Z.of_nat (length X))) with l2 in Hunf.
  change (alpha * l1_ratio * IZR (Z.of_nat (length X))) with l1 in Hunf.
  destruct (augment_shapes Z y l2 HyZ) as [HlX2 [HnX2 [Hly2 [Hy2 Hgam]]]].
  pose proof (fun l1' wt' => enet_augmentation_objective Z y l1' l2 wt' Hl2 HyZ) as Haug.
  destruct (augment ROps Z y l2) as [[X2 y2] gamma]. cbn [fst snd] in *.
  pose proof (enet_gamma_pos l2 Hl2) as Hgpos. rewrite <- Hgam in Hgpos.
  cbv beta iota zeta. set (alpha2 := l1 * gamma / IZR (Z.of_nat (length X2))).
  assert (Hvalid_lam : lasso_valid ROps (length X2) (ncols X2) (length y2) alpha2 tol mi = true ->
                       alpha2 * IZR (Z.of_nat (length X2)) = l1 * gamma).
  { intros Hv. unfold lasso_valid in Hv.
    repeat (apply andb_prop in Hv; destruct Hv as [Hv ?]).
    apply negb_true_iff, Nat.leb_gt in Hv.
    assert (0 < IZR (Z.of_nat (length X2))) by (apply IZR_lt; lia).
    unfold alpha2. field. lra. }
  split; [|split; [exact Hunf | split; [|split; [|split]]]].
  - split; [congruence | split; [congruence | split; [exact Hly2 | split; [rewrite Hgam; apply enet_gamma_R | exact Hgpos]]]].
  - intros Hv. pose proof (lasso_fit_raw_unfold X2 y2 alpha2 (l1 * gamma) tol mi Hv (Hvalid_lam Hv)) as Hl.
    split.
    + rewrite Hunf, Hl. destruct (opt_w _); reflexivity.
    + intros wt b2. rewrite Hl. destruct (opt_w _); [|discriminate].
      intros H. injection H as _ Hb. rewrite <- Hb, Hy2. apply vmean_padded_center.
  - intros HX Ha Htol Hmi. unfold lasso_valid. cbn [oltb oleb o0 ROps].
    rewrite Hly2, Nat.eqb_refl, andb_true_r.
    assert (Hn : (0 < length X)%nat) by (destruct X; [congruence | cbn; lia]).
    replace (Nat.leb (length X2) (ncols X2)) with false by (symmetry; apply Nat.leb_gt; lia).
    replace (Nat.eqb mi 0) with false by (symmetry; apply Nat.eqb_neq; exact Hmi).
    replace (Rleb tol 0) with false by (symmetry; apply Rleb_false; exact Htol).
    replace (Rltb alpha2 0) with false; [reflexivity|].
    symmetry. apply Rltb_false. unfold alpha2.
    assert (0 < IZR (Z.of_nat (length X2))) by (apply IZR_lt; lia).
    assert (0 <= nf) by (unfold nf; apply IZR_le; lia).
    apply Rmult_le_pos; [|left; apply Rinv_0_lt_compat; assumption].
    apply Rmult_le_pos; [|lra]. unfold l1. apply Rmult_le_pos; assumption.
  - intros wt Hwt. unfold lasso_objective. apply Haug. congruence.
  - intros wt Hwt. unfold lasso_objective.
    assert (El : lam_used (l1 * gamma) = enet_l1_eff l1 gamma * gamma) by (unfold enet_l1_eff; field; lra).
    rewrite El. apply Haug. congruence.
Qed.

(* the hypotheses are satisfiable: a 3 x 2 design, alpha = 1, l1_ratio = 1/2 (l2 = 3/2), no normalisation *)
Lemma ex_enet_reduces_hyps :
  let X := [[1; 2]; [3; 4]; [5; 7]] in
  let y := [1; 2; 4] in
  length y = length X /\ design false X = Some X /\
  0 <= 1 * (1 - 1 / 2) * IZR (Z.of_nat (length X)) /\
  X <> [] /\ 0 <= 1 * (1 / 2) /\ 0 < 1 / 1000 /\ 100%nat <> 0%nat.
Proof.
  cbv zeta. cbn [length Z.of_nat Pos.of_succ_nat Pos.succ].
  repeat split; try reflexivity; try lra; discriminate.
Qed.
