From Coq Require Import List ZArith Reals Lra Lia Bool Arith Floats.
From SC Require Import Base.FloatUtil Base.Num C08.Model C08.ProofsBase C08.ProofsDual C08.ProofsFit C08.ProofsNewton.
Import ListNotations.
Local Open Scope R_scope.

(* a strictly interior point of a 1-column problem and its exact Newton direction *)
Lemma ex_interior : strictly_interior [0] [1].
Proof. constructor; [cbn [fst snd]; rewrite Rabs_R0; lra | constructor]. Qed.
Lemma ex_newton_solution :
  let nw := newton_system ROps [[1]] 1 1 [0] [1] (residual ROps [[1]] [1] [0]) in
  ip_mat_vec ROps 1 (gram ROps 1 [[1]]) nw ([1 / 2] ++ [1 / 2]) = nw_grad nw /\ nw_grad nw = [2; 1].
Proof.
  cbv zeta.
  cbv [newton_system ip_mat_vec gram residual vsub matvec mattvec col dot nthT nw_d1 nw_d2 nw_grad
       map2 map combine fold_left seq nth firstn app length fst snd Nat.add two
       o0 o1 oadd osub omul odiv oneg oofZ ROps].
  split; repeat f_equal; field.
Qed.

(* binary64: the determinant of the preconditioner block cancels completely at a strictly interior
   point whose distance to the boundary is 2^-27 relative (over R it is positive: prs_positive) *)
Local Open Scope float_scope.
Lemma prs_cancels_in_binary64 :
  let w := [1 - 0x1p-27] in let u := [1] in
  interior FOps w u = true /\
  nw_prs (newton_system FOps [[1]] 1 1 w u [0]) = [0] /\
  nw_prb (newton_system FOps [[1]] 1 1 w u [0]) = nw_d1 (newton_system FOps [[1]] 1 1 w u [0]).
Proof. vm_compute. repeat split. Qed.
