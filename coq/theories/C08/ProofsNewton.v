(* C08 — the Newton system of the interior-point method over R: the operator applied by the model's
   `ip_mat_vec` (the code's mat_vec_mul) as a bilinear form, its symmetry and positive definiteness at
   strictly interior points, the exact Newton direction is a descent direction, and the preconditioner
   is the exact inverse of the intended block-diagonal approximation. *)
From Coq Require Import List ZArith Reals Lra Lia Bool Arith.
From SC Require Import Base.Num C08.Model C08.ProofsBase C08.ProofsDual C08.ProofsFit.
Import ListNotations.
Local Open Scope R_scope.

(* ---------- index sums ---------- *)
Fixpoint sumn (n : nat) (F : nat -> R) : R := match n with O => 0 | S k => sumn k F + F k end.

Lemma sumn_ext n F G : (forall i, (i < n)%nat -> F i = G i) -> sumn n F = sumn n G.
Proof.
  induction n as [|n IH]; intros H; cbn [sumn]; [reflexivity|].
  rewrite IH by (intros; apply H; lia). rewrite H by lia. reflexivity.
Qed.
Lemma sumn_plus n F G : sumn n (fun i => F i + G i) = sumn n F + sumn n G.
Proof. induction n as [|n IH]; cbn [sumn]; [lra | rewrite IH; lra]. Qed.
Lemma sumn_scal n c F : sumn n (fun i => c * F i) = c * sumn n F.
Proof. induction n as [|n IH]; cbn [sumn]; [lra | rewrite IH; lra]. Qed.
Lemma sumn_nonneg n F : (forall i, (i < n)%nat -> 0 <= F i) -> 0 <= sumn n F.
Proof.
  induction n as [|n IH]; intros H; cbn [sumn]; [lra|].
  pose proof (IH ltac:(intros; apply H; lia)). pose proof (H n ltac:(lia)). lra.
Qed.
Lemma sumn_zero_each n F :
  (forall i, (i < n)%nat -> 0 <= F i) -> sumn n F = 0 -> forall i, (i < n)%nat -> F i = 0.
Proof.
  induction n as [|n IH]; intros H H0 i Hi; [lia|]. cbn [sumn] in H0.
  pose proof (sumn_nonneg n F ltac:(intros; apply H; lia)). pose proof (H n ltac:(lia)).
  destruct (Nat.eq_dec i n) as [->|Hne]; [lra|].
  apply IH; [intros; apply H; lia | lra | lia].
Qed.
Lemma sumn_shift n G : sumn (S n) G = G O + sumn n (fun i => G (S i)).
Proof. induction n as [|n IH]; [cbn; lra|]. cbn [sumn] in *. rewrite IH. lra. Qed.

Lemma Rdot_map_seq_gen p f a e :
  length e = p -> Rdot (map f (seq a p)) e = sumn p (fun i => f (a + i)%nat * nth i e 0).
Proof.
  revert a e. induction p as [|p IH]; intros a e He.
  - destruct e; [reflexivity | discriminate].
  - destruct e as [|x e]; [discriminate|]. cbn [seq map Rdot]. rewrite sumn_shift.
    rewrite IH by (cbn in He; lia). cbn [nth]. rewrite Nat.add_0_r. f_equal.
    apply sumn_ext. intros i _. replace (S a + i)%nat with (a + S i)%nat by lia. reflexivity.
Qed.
Lemma Rdot_map_seq p f e : length e = p -> Rdot (map f (seq 0 p)) e = sumn p (fun i => f i * nth i e 0).
Proof. intros He. rewrite (Rdot_map_seq_gen p f 0 e He). reflexivity. Qed.
Lemma map_seq_nth (l : list R) : map (fun i => nth i l 0) (seq 0 (length l)) = l.
Proof. apply map_nth_seq. Qed.
Lemma Rdot_sumn a b : length a = length b -> Rdot a b = sumn (length a) (fun i => nth i a 0 * nth i b 0).
Proof.
  intros H. rewrite <- (map_seq_nth a) at 1. apply Rdot_map_seq. lia.
Qed.

(* ---------- nth of the list combinators of the model ---------- *)
Lemma nth_map2 (f : R -> R -> R) a b i d :
  (i < length a)%nat -> (i < length b)%nat -> nth i (map2 f a b) d = f (nth i a 0) (nth i b 0).
Proof.
  revert b i. induction a as [|x a IH]; intros [|y b] i Ha Hb; cbn in Ha, Hb; try lia.
  destruct i as [|i]; cbn [map2 nth]; [reflexivity|]. apply IH; lia.
Qed.
Lemma nth_map_lt {A B} (f : A -> B) l i d d' : (i < length l)%nat -> nth i (map f l) d = f (nth i l d').
Proof.
  revert i. induction l as [|x l IH]; intros i Hi; cbn in Hi; [lia|].
  destruct i as [|i]; cbn [map nth]; [reflexivity|]. apply IH; lia.
Qed.
Lemma nth_combine_lt {A B} (a : list A) (b : list B) i da db :
  (i < length a)%nat -> (i < length b)%nat -> nth i (combine a b) (da, db) = (nth i a da, nth i b db).
Proof.
  revert b i. induction a as [|x a IH]; intros [|y b] i Ha Hb; cbn in Ha, Hb; try lia.
  destruct i as [|i]; cbn [combine nth]; [reflexivity|]. apply IH; lia.
Qed.

(* ---------- the entries of the Newton system ---------- *)
Definition q1i (w u : list R) (i : nat) : R := 1 / (nth i u 0 + nth i w 0).
Definition q2i (w u : list R) (i : nat) : R := 1 / (nth i u 0 - nth i w 0).
Definition d1i (t : R) (w u : list R) (i : nat) : R := (q1i w u i * q1i w u i + q2i w u i * q2i w u i) / t.
Definition d2i (t : R) (w u : list R) (i : nat) : R := (q1i w u i * q1i w u i - q2i w u i * q2i w u i) / t.

Section Entries.
  Variables (X : list (list R)) (lam t : R) (w u z : list R) (p : nat).
  Hypothesis Hw : length w = p.
  Hypothesis Hu : length u = p.
  Let nw := newton_system ROps X lam t w u z.

  Lemma q1_nth i : (i < p)%nat ->
    nth i (map2 (fun ui wi => 1 / (ui + wi)) u w) 0 = q1i w u i.
  Proof. intros Hi. apply nth_map2; lia. Qed.
  Lemma q2_nth i : (i < p)%nat ->
    nth i (map2 (fun ui wi => 1 / (ui - wi)) u w) 0 = q2i w u i.
  Proof. intros Hi. apply nth_map2; lia. Qed.
  Lemma q_length f : length (map2 f u w) = p.
  Proof. rewrite map2_length. lia. Qed.

  Lemma d1_nth i : (i < p)%nat -> nth i (nw_d1 nw) 0 = d1i t w u i.
  Proof.
    intros Hi. unfold nw, newton_system. cbn [nw_d1 oadd osub omul odiv o1 ROps].
    rewrite nth_map2 by (rewrite q_length; lia). rewrite q1_nth, q2_nth by lia. reflexivity.
  Qed.
  Lemma d2_nth i : (i < p)%nat -> nth i (nw_d2 nw) 0 = d2i t w u i.
  Proof.
    intros Hi. unfold nw, newton_system. cbn [nw_d2 oadd osub omul odiv o1 ROps].
    rewrite nth_map2 by (rewrite q_length; lia). rewrite q1_nth, q2_nth by lia. reflexivity.
  Qed.
  Lemma d1_length : length (nw_d1 nw) = p.
  Proof. unfold nw, newton_system. cbn [nw_d1]. rewrite map2_length, !q_length. lia. Qed.
  Lemma d2_length : length (nw_d2 nw) = p.
  Proof. unfold nw, newton_system. cbn [nw_d2]. rewrite map2_length, !q_length. lia. Qed.
  Lemma prb_nth i : (i < p)%nat -> nth i (nw_prb nw) 0 = 2 + d1i t w u i.
  Proof.
    intros Hi. pose proof d1_length as Hl. pose proof (d1_nth i Hi) as Hd.
    unfold nw, newton_system in *. cbn [nw_prb nw_d1 oadd oofZ ROps two] in *.
    rewrite (nth_map_lt _ _ i 0 0) by lia. rewrite Hd. reflexivity.
  Qed.
  Lemma prb_length : length (nw_prb nw) = p.
  Proof. pose proof d1_length as Hl. unfold nw, newton_system in *. cbn [nw_prb nw_d1] in *. rewrite map_length. exact Hl. Qed.
  Lemma prs_nth i : (i < p)%nat ->
    nth i (nw_prs nw) 0 = (2 + d1i t w u i) * d1i t w u i - d2i t w u i * d2i t w u i.
  Proof.
    intros Hi. pose proof d1_length as Hl1. pose proof d2_length as Hl2. pose proof prb_length as Hlb.
    pose proof (d1_nth i Hi) as Hd1. pose proof (d2_nth i Hi) as Hd2. pose proof (prb_nth i Hi) as Hb.
    unfold nw, newton_system in *. cbn [nw_prs nw_prb nw_d1 nw_d2 osub omul ROps] in *.
    rewrite (nth_map_lt _ _ i 0 (0, 0, 0)) by (rewrite !combine_length; lia).
    rewrite (nth_combine_lt _ _ i (0, 0) 0) by (rewrite ?combine_length; lia).
    rewrite (nth_combine_lt _ _ i 0 0) by lia. cbn [fst snd]. rewrite Hb, Hd1, Hd2. reflexivity.
  Qed.

  Lemma grad_length : length (nw_grad nw) = (2 * p)%nat.
  Proof.
    unfold nw, newton_system. cbn [nw_grad]. rewrite app_length, !map_length, !combine_length.
    rewrite !q_length. unfold mattvec. rewrite map_length, seq_length. lia.
  Qed.
  Lemma grad_w_nth i : (i < p)%nat ->
    nth i (nw_grad nw) 0 = - (2 * nth i (Rmattvec p X z) 0 - (q1i w u i - q2i w u i) / t).
  Proof.
    intros Hi. unfold nw, newton_system. cbn [nw_grad oneg osub omul odiv oadd oofZ o1 ROps two].
    assert (Hlg : length (mattvec ROps (length w) X z) = p) by (unfold mattvec; rewrite map_length, seq_length; lia).
    rewrite app_nth1 by (rewrite !map_length, !combine_length, !q_length; lia).
    rewrite (nth_map_lt Ropp _ i 0 0) by (rewrite map_length, !combine_length, !q_length; lia).
    rewrite (nth_map_lt _ _ i 0 (0, (0, 0))) by (rewrite !combine_length, !q_length; lia).
    rewrite (nth_combine_lt _ _ i 0 (0, 0)) by (rewrite ?combine_length, ?q_length; lia).
    rewrite (nth_combine_lt _ _ i 0 0) by (rewrite ?q_length; lia). cbn [fst snd].
    rewrite q1_nth, q2_nth by lia. rewrite mattvec_R, Hw. reflexivity.
  Qed.
  Lemma grad_u_nth i : (i < p)%nat ->
    nth (p + i) (nw_grad nw) 0 = - (lam - (q1i w u i + q2i w u i) / t).
  Proof.
    intros Hi. unfold nw, newton_system. cbn [nw_grad oneg osub omul odiv oadd oofZ o1 ROps two].
    assert (Hlg : length (mattvec ROps (length w) X z) = p) by (unfold mattvec; rewrite map_length, seq_length; lia).
    rewrite app_nth2 by (rewrite !map_length, !combine_length, !q_length; lia).
    rewrite !map_length, !combine_length, !q_length, Hlg.
    replace (p + i - Nat.min p (Nat.min p p))%nat with i by lia.
    rewrite (nth_map_lt Ropp _ i 0 0) by (rewrite map_length, !combine_length, !q_length; lia).
    rewrite (nth_map_lt _ _ i 0 (0, 0)) by (rewrite !combine_length, !q_length; lia).
    rewrite (nth_combine_lt _ _ i 0 0) by (rewrite ?q_length; lia). cbn [fst snd].
    rewrite q1_nth, q2_nth by lia. reflexivity.
  Qed.
End Entries.

Lemma Rdot_repeat0_r_aux a p : Rdot a (repeat 0 p) = 0.
Proof.
  revert p. induction a as [|x a IH]; intros [|p]; cbn [repeat Rdot]; try reflexivity.
  rewrite IH. lra.
Qed.

(* ---------- the operator of mat_vec_mul as a bilinear form ---------- *)
Lemma nth_seq_map {B} (g : nat -> B) p i d : (i < p)%nat -> nth i (map g (seq 0 p)) d = g i.
Proof.
  intros Hi. rewrite (nth_map_lt g (seq 0 p) i d 0%nat) by (rewrite seq_length; lia).
  rewrite seq_nth by lia. reflexivity.
Qed.

Lemma gram_row X a dw :
  Rdot (map (fun c => Rdot a (Rcol c X)) (seq 0 (length dw))) dw = Rdot a (Rmatvec X dw).
Proof.
  rewrite Rdot_adjoint. unfold Rmattvec. f_equal. apply map_ext. intros r. apply Rdot_comm.
Qed.

Definition hform (X : list (list R)) (t : R) (w u : list R) (p : nat) (dw du ew eu : list R) : R :=
  2 * Rdot (Rmatvec X dw) (Rmatvec X ew) +
  sumn p (fun i => d1i t w u i * (nth i dw 0 * nth i ew 0 + nth i du 0 * nth i eu 0)
                 + d2i t w u i * (nth i du 0 * nth i ew 0 + nth i dw 0 * nth i eu 0)).

Section Form.
  Variables (X : list (list R)) (lam t : R) (w u z : list R) (p : nat).
  Hypothesis Hw : length w = p.
  Hypothesis Hu : length u = p.
  Let nw := newton_system ROps X lam t w u z.
  Let H := ip_mat_vec ROps p (gram ROps p X) nw.

  Lemma atax_nth dw i : length dw = p -> (i < p)%nat ->
    nth i (matvec ROps (gram ROps p X) dw) 0 = Rdot (Rcol i X) (Rmatvec X dw).
  Proof.
    intros Hd Hi. rewrite matvec_R. unfold Rmatvec at 1, gram.
    rewrite (nth_map_lt _ _ i 0 []) by (rewrite map_length, seq_length; lia).
    rewrite nth_seq_map by lia. rewrite <- Hd.
    rewrite (map_ext _ (fun c => Rdot (Rcol i X) (Rcol c X))) by (intros; rewrite dot_R; reflexivity).
    apply gram_row.
  Qed.

  Lemma hessian_form dw du ew eu :
    length dw = p -> length du = p -> length ew = p -> length eu = p ->
    Rdot (H (dw ++ du)) (ew ++ eu) = hform X t w u p dw du ew eu.
  Proof.
    intros Hdw Hdu Hew Heu. unfold H, nw, ip_mat_vec, nthT. cbn [oadd omul oofZ o0 ROps two].
    assert (Hf : firstn p (dw ++ du) = dw).
    { rewrite firstn_app, Hdw, Nat.sub_diag. cbn [firstn]. rewrite app_nil_r. rewrite <- Hdw. apply firstn_all. }
    rewrite Hf.
    rewrite Rdot_app by (rewrite map_length, seq_length; lia).
    rewrite !Rdot_map_seq by assumption. unfold hform.
    rewrite <- sumn_plus.
    (* the X^T X part *)
    assert (HA : sumn p (fun i => nth i (matvec ROps (gram ROps p X) dw) 0 * nth i ew 0)
                 = Rdot (Rmatvec X dw) (Rmatvec X ew)).
    { rewrite (sumn_ext _ _ (fun i => Rdot (Rcol i X) (Rmatvec X dw) * nth i ew 0))
        by (intros i Hi; rewrite atax_nth by assumption; reflexivity).
      rewrite <- (Rdot_map_seq p (fun i => Rdot (Rcol i X) (Rmatvec X dw)) ew Hew).
      fold (Rmattvec p X (Rmatvec X dw)). rewrite <- Hew. rewrite <- Rdot_adjoint. reflexivity. }
    rewrite <- HA, <- sumn_scal, <- sumn_plus.
    apply sumn_ext. intros i Hi.
    rewrite (app_nth1 dw du) by lia.
    rewrite (app_nth2 dw du) by lia. replace (i + p - length dw)%nat with i by lia.
    rewrite (d1_nth X lam t w u z p Hw Hu i Hi), (d2_nth X lam t w u z p Hw Hu i Hi).
    ring.
  Qed.

  (* symmetric *)
  Lemma hform_sym dw du ew eu : hform X t w u p dw du ew eu = hform X t w u p ew eu dw du.
  Proof.
    unfold hform. rewrite (Rdot_comm (Rmatvec X dw)). f_equal. apply sumn_ext. intros; ring.
  Qed.

  (* the quadratic form as a sum of squares *)
  Lemma hform_squares dw du : t <> 0 ->
    hform X t w u p dw du dw du =
    2 * Rdot (Rmatvec X dw) (Rmatvec X dw) +
    sumn p (fun i => (q1i w u i * q1i w u i * ((nth i dw 0 + nth i du 0) * (nth i dw 0 + nth i du 0)) +
                      q2i w u i * q2i w u i * ((nth i du 0 - nth i dw 0) * (nth i du 0 - nth i dw 0))) / t).
  Proof.
    intros Ht. unfold hform. f_equal. apply sumn_ext. intros i _. unfold d1i, d2i. field. exact Ht.
  Qed.

  Hypothesis Hint : strictly_interior w u.
  Hypothesis Ht : 0 < t.

  Lemma interior_nth i : (i < p)%nat -> Rabs (nth i w 0) < nth i u 0.
  Proof.
    intros Hi. unfold strictly_interior in Hint. rewrite Forall_forall in Hint.
    specialize (Hint (nth i (combine w u) (0, 0))).
    rewrite nth_combine_lt in Hint by lia. cbn [fst snd] in Hint. apply Hint.
    rewrite <- (nth_combine_lt w u i 0 0) by lia. apply nth_In. rewrite combine_length. lia.
  Qed.
  Lemma q1_pos i : (i < p)%nat -> 0 < q1i w u i.
  Proof.
    intros Hi. pose proof (interior_nth i Hi) as Hb. apply Rabs_def2 in Hb.
    unfold q1i. apply Rdiv_lt_0_compat; lra.
  Qed.
  Lemma q2_pos i : (i < p)%nat -> 0 < q2i w u i.
  Proof.
    intros Hi. pose proof (interior_nth i Hi) as Hb. apply Rabs_def2 in Hb.
    unfold q2i. apply Rdiv_lt_0_compat; lra.
  Qed.

  Lemma term_nonneg dw du i : (i < p)%nat ->
    0 <= (q1i w u i * q1i w u i * ((nth i dw 0 + nth i du 0) * (nth i dw 0 + nth i du 0)) +
          q2i w u i * q2i w u i * ((nth i du 0 - nth i dw 0) * (nth i du 0 - nth i dw 0))) / t.
  Proof.
    intros Hi. apply Rmult_le_pos; [|left; apply Rinv_0_lt_compat; exact Ht].
    apply Rplus_le_le_0_compat; apply Rmult_le_pos; apply Rle_0_sqr.
  Qed.

  (* positive semidefinite, and definite: the form vanishes only at the zero vector *)
  Lemma hform_nonneg dw du : 0 <= hform X t w u p dw du dw du.
  Proof.
    rewrite hform_squares by lra.
    pose proof (Rdot_self_nonneg (Rmatvec X dw)).
    pose proof (sumn_nonneg p _ (term_nonneg dw du)). lra.
  Qed.
  Lemma hform_definite dw du :
    hform X t w u p dw du dw du = 0 -> forall i, (i < p)%nat -> nth i dw 0 = 0 /\ nth i du 0 = 0.
  Proof.
    intros H0 i Hi. rewrite hform_squares in H0 by lra.
    pose proof (Rdot_self_nonneg (Rmatvec X dw)) as Hx.
    pose proof (sumn_nonneg p _ (term_nonneg dw du)) as Hs.
    assert (Hs0 : sumn p (fun i => (q1i w u i * q1i w u i * ((nth i dw 0 + nth i du 0) * (nth i dw 0 + nth i du 0)) +
                      q2i w u i * q2i w u i * ((nth i du 0 - nth i dw 0) * (nth i du 0 - nth i dw 0))) / t) = 0) by lra.
    pose proof (sumn_zero_each p _ (term_nonneg dw du) Hs0 i Hi) as Hi0. cbn beta in Hi0.
    pose proof (q1_pos i Hi) as Hq1. pose proof (q2_pos i Hi) as Hq2.
    set (a := nth i dw 0 + nth i du 0) in *. set (b := nth i du 0 - nth i dw 0) in *.
    assert (Hnum : q1i w u i * q1i w u i * (a * a) + q2i w u i * q2i w u i * (b * b) = 0).
    { apply (Rmult_eq_reg_r (/ t)); [|apply Rinv_neq_0_compat; lra]. rewrite Rmult_0_l. exact Hi0. }
    pose proof (Rmult_lt_0_compat _ _ Hq1 Hq1) as HA. pose proof (Rmult_lt_0_compat _ _ Hq2 Hq2) as HB.
    pose proof (Rle_0_sqr a) as Hsa. pose proof (Rle_0_sqr b) as Hsb. unfold Rsqr in Hsa, Hsb.
    assert (T1 : 0 <= q1i w u i * q1i w u i * (a * a)) by (apply Rmult_le_pos; lra).
    assert (T2 : 0 <= q2i w u i * q2i w u i * (b * b)) by (apply Rmult_le_pos; lra).
    assert (Ha : a * a = 0).
    { assert (E : q1i w u i * q1i w u i * (a * a) = 0) by lra. apply Rmult_integral in E. lra. }
    assert (Hb : b * b = 0).
    { assert (E : q2i w u i * q2i w u i * (b * b) = 0) by lra. apply Rmult_integral in E. lra. }
    apply Rmult_integral in Ha. apply Rmult_integral in Hb. unfold a, b in *. split; lra.
  Qed.

  Theorem hessian_spd dw du :
    length dw = p -> length du = p ->
    0 <= Rdot (H (dw ++ du)) (dw ++ du) /\
    (Rdot (H (dw ++ du)) (dw ++ du) = 0 -> dw = repeat 0 p /\ du = repeat 0 p).
  Proof.
    intros Hdw Hdu. rewrite hessian_form by assumption. split; [apply hform_nonneg|].
    intros H0. pose proof (hform_definite dw du H0) as Hz.
    split; apply (nth_ext _ _ 0 0); rewrite ?repeat_length; auto; intros i Hi; rewrite nth_repeat; apply Hz; lia.
  Qed.

  (* the exact Newton direction  H d = grad  (grad = minus the gradient of phi, as in the code) *)
  Theorem exact_newton_is_descent dw du :
    length dw = p -> length du = p ->
    H (dw ++ du) = nw_grad nw ->
    0 < Rdot (nw_grad nw) (dw ++ du) \/
    (dw = repeat 0 p /\ du = repeat 0 p /\
     forall ew eu, length ew = p -> length eu = p -> Rdot (nw_grad nw) (ew ++ eu) = 0).
  Proof.
    intros Hdw Hdu HN. destruct (hessian_spd dw du Hdw Hdu) as [Hnn Hdef].
    rewrite HN in Hnn, Hdef.
    destruct (Rle_lt_or_eq_dec _ _ Hnn) as [Hpos|Hz]; [left; exact Hpos | right].
    destruct (Hdef (eq_sym Hz)) as [E1 E2]. split; [exact E1 | split; [exact E2|]].
    intros ew eu Hew Heu. rewrite <- HN, hessian_form by assumption. rewrite hform_sym.
    unfold hform. rewrite E1, E2.
    assert (HX0 : Rmatvec X (repeat 0 p) = map (fun _ => 0) X).
    { unfold Rmatvec. apply map_ext. intros row. apply Rdot_repeat0_r_aux. }
    rewrite HX0, Rdot_comm, Rdot_zeros_l.
    rewrite (sumn_ext _ _ (fun _ => 0)); [|intros i Hi; rewrite !nth_repeat; ring].
    clear. induction p as [|k IH]; cbn [sumn]; lra.
  Qed.
End Form.

(* ---------- the preconditioner ----------
   The algorithm (l1_ls) preconditions the Newton system with the block-diagonal matrix obtained by
   replacing 2 X^T X by 2 I (columns of unit norm in the reference implementation):
        M = [[ diag(prb), D2 ], [ D2, D1 ]],   prb = 2 + d1.
   `solve_preconditioner` applies, pair by pair (entries i and i+p), the inverse of the 2 x 2 block
   [[prb_i, d2_i], [d2_i, d1_i]], whose determinant is prs_i = prb_i*d1_i - d2_i^2. *)
Definition blockdiag_apply (p : nat) (nw : newton (T := R)) (x : list R) : list R :=
  map (fun i => nth i (nw_prb nw) 0 * nth i x 0 + nth i (nw_d2 nw) 0 * nth (i + p) x 0) (seq 0 p) ++
  map (fun i => nth i (nw_d2 nw) 0 * nth i x 0 + nth i (nw_d1 nw) 0 * nth (i + p) x 0) (seq 0 p).

Section Precond.
  Variables (X : list (list R)) (lam t : R) (w u z : list R) (p : nat).
  Hypothesis Hw : length w = p.
  Hypothesis Hu : length u = p.
  Let nw := newton_system ROps X lam t w u z.

  Lemma precond_nth_lo b i : (i < p)%nat ->
    nth i (ip_precond ROps p nw b) 0 =
    (nth i (nw_d1 nw) 0 * nth i b 0 - nth i (nw_d2 nw) 0 * nth (i + p) b 0) / nth i (nw_prs nw) 0.
  Proof.
    intros Hi. unfold ip_precond, nthT. cbn [osub omul odiv oadd oneg o0 ROps].
    rewrite app_nth1 by (rewrite map_length, seq_length; lia). rewrite nth_seq_map by lia. reflexivity.
  Qed.
  Lemma precond_nth_hi b i : (i < p)%nat ->
    nth (i + p) (ip_precond ROps p nw b) 0 =
    (- nth i (nw_d2 nw) 0 * nth i b 0 + nth i (nw_prb nw) 0 * nth (i + p) b 0) / nth i (nw_prs nw) 0.
  Proof.
    intros Hi. unfold ip_precond, nthT. cbn [osub omul odiv oadd oneg o0 ROps].
    rewrite app_nth2 by (rewrite map_length, seq_length; lia). rewrite map_length, seq_length.
    replace (i + p - p)%nat with i by lia. rewrite nth_seq_map by lia. reflexivity.
  Qed.

  (* M (M^-1 b) = b whenever every determinant prs_i is non-zero *)
  Theorem preconditioner_inverse bw bu :
    length bw = p -> length bu = p ->
    (forall i, (i < p)%nat -> nth i (nw_prs nw) 0 <> 0) ->
    blockdiag_apply p nw (ip_precond ROps p nw (bw ++ bu)) = bw ++ bu.
  Proof.
    intros Hbw Hbu Hprs. unfold blockdiag_apply. f_equal.
    - transitivity (map (fun i => nth i bw 0) (seq 0 p)); [|rewrite <- Hbw; apply map_seq_nth].
      apply map_ext_in. intros i Hi. apply in_seq in Hi.
      rewrite precond_nth_lo, precond_nth_hi by lia.
      rewrite (app_nth1 bw bu) by lia. rewrite (app_nth2 bw bu) by lia.
      replace (i + p - length bw)%nat with i by lia.
      pose proof (Hprs i ltac:(lia)) as Hne. unfold nw in *.
      rewrite (prs_nth X lam t w u z p Hw Hu i ltac:(lia)) in *.
      rewrite (prb_nth X lam t w u z p Hw Hu i ltac:(lia)), (d1_nth X lam t w u z p Hw Hu i ltac:(lia)),
              (d2_nth X lam t w u z p Hw Hu i ltac:(lia)).
      field. exact Hne.
    - transitivity (map (fun i => nth i bu 0) (seq 0 p)); [|rewrite <- Hbu; apply map_seq_nth].
      apply map_ext_in. intros i Hi. apply in_seq in Hi.
      rewrite precond_nth_lo, precond_nth_hi by lia.
      rewrite (app_nth1 bw bu) by lia. rewrite (app_nth2 bw bu) by lia.
      replace (i + p - length bw)%nat with i by lia.
      pose proof (Hprs i ltac:(lia)) as Hne. unfold nw in *.
      rewrite (prs_nth X lam t w u z p Hw Hu i ltac:(lia)) in *.
      rewrite (prb_nth X lam t w u z p Hw Hu i ltac:(lia)), (d1_nth X lam t w u z p Hw Hu i ltac:(lia)),
              (d2_nth X lam t w u z p Hw Hu i ltac:(lia)).
      field. exact Hne.
  Qed.

  (* in exact arithmetic the determinant is positive at every strictly interior point:
     prs = 2 d1 + (d1 - d2)(d1 + d2) = 2 d1 + 4 q1^2 q2^2 / t^2.
     In binary64 the code evaluates prb*d1 - d2*d2 instead: once (q1/q2)^2 or (q2/q1)^2 drops below
     half an ulp, d1 and |d2| round to the same number, prb = 2 + d1 rounds to d1, and the computed
     determinant is 0 (or negative): the preconditioner divides by it — the known finding
     lasso-large-scale-err (see `prs_cancels_in_binary64` in ProofsNewtonFloat.v). *)
  Lemma prs_exact i : t <> 0 ->
    (2 + d1i t w u i) * d1i t w u i - d2i t w u i * d2i t w u i =
    2 * d1i t w u i + 4 * (q1i w u i * q1i w u i) * (q2i w u i * q2i w u i) / (t * t).
  Proof. intros Ht. unfold d1i, d2i. field. exact Ht. Qed.

  Hypothesis Hint : strictly_interior w u.
  Hypothesis Ht : 0 < t.
  Theorem prs_positive i : (i < p)%nat -> 0 < nth i (nw_prs nw) 0.
  Proof.
    intros Hi. unfold nw. rewrite (prs_nth X lam t w u z p Hw Hu i Hi), prs_exact by lra.
    pose proof (q1_pos w u p Hw Hu Hint i Hi) as H1. pose proof (q2_pos w u p Hw Hu Hint i Hi) as H2.
    pose proof (Rmult_lt_0_compat _ _ H1 H1) as A. pose proof (Rmult_lt_0_compat _ _ H2 H2) as B.
    assert (0 < d1i t w u i) by (unfold d1i; apply Rdiv_lt_0_compat; lra).
    assert (0 < 4 * (q1i w u i * q1i w u i) * (q2i w u i * q2i w u i) / (t * t)).
    { apply Rdiv_lt_0_compat; [|apply Rmult_lt_0_compat; lra].
      apply Rmult_lt_0_compat; [apply Rmult_lt_0_compat; lra | exact B]. }
    lra.
  Qed.
End Precond.
