(* C08 — executable model of smartcore's Lasso / elastic net
   (src/linear/lasso_optimizer.rs, bg_solver.rs, lasso.rs, elastic_net.rs).
   Definitions only, generic in the scalar operations `Ops T` (Base/Num.v): the instance at
   `ROps` is what the theorems talk about, the instance at `FOps` (binary64) is executed against
   the implementation by the correspondence check (Corr.v).

   Transliteration notes
   - a matrix is the list of its rows, a column vector (p x 1 DenseMatrix) / Vec a list;
   - every accumulation runs left to right from zero exactly as the Rust loops do
     (`matmul`, `ab(true, .., false)`, `dot`, `sum`, `mean`, `var`);
   - `Err(..)`, and a loop that runs out of fuel, are `None`;
   - the outer loop of `InteriorPointOptimizer::optimize` is `optimize_gen`: one iteration
     (`ip_iter`) is the code's duality-gap computation, stopping rule, update of t, line search and
     state update, with the linear solver that produces the Newton direction a PARAMETER
     (`solver`); `optimize` instantiates it with the model of the preconditioned BiCG solver.
     Theorems are proved for every `solver` — i.e. for any sequence of directions;
   - `T::infinity()` as the initial step `s` is only ever compared with 0.5 (`s >= 0.5`), the model
     starts from 1 (same decision); `norm(inf)` folds `max` from -inf over absolute values, the
     model folds from 0 (same value for p >= 1); `newf.max() < 0` is modelled as "every entry
     is < 0" (identical unless an entry is NaN); `x.powi(2)` is `x*x`; `norm(2)` of the right-hand
     side in the solver (`powf`) is `sqrt(sum x*x)` (few-ulp difference: compared with tolerance);
   - `pitr` only takes the values 0 and pcgmaxi: the model keeps the boolean `pitr == 0`;
   - the backtracking line search tries exactly 100 steps (repair bdb775f); when none is accepted it
     keeps the iterate (null step) if the direction is finite and fails with
     Err("Exceeded maximum number of iteration ...") = None otherwise (repair e30c76a). *)
From Coq Require Import List ZArith Bool.
From SC Require Import Base.Num.
Import ListNotations.

Inductive exit_reason := ExitGap | ExitMaxIter.

Section Model.
  Context {T : Type} (O : Ops T).
  Let zero := O.(o0).
  Let one := O.(o1).
  Let add := O.(oadd).
  Let sub := O.(osub).
  Let mul := O.(omul).
  Let div := O.(odiv).
  Let neg := O.(oneg).
  Let abs := O.(oabs).
  Let sqrt := O.(osqrt).
  Let ln := O.(oln).
  Let ltb := O.(oltb).
  Let leb := O.(oleb).
  Let cst (z : Z) : T := O.(oofZ) z.
  Let max := omax O.
  Let min := omin O.

  (* ---------- constants of the code ---------- *)
  Definition two : T := cst 2.
  Definition half : T := div one two.                  (* T::half() *)
  Definition c_min_pcgtol : T := div one (cst 10).     (* 0.1 *)
  Definition c_eta : T := div one (cst 1000).          (* 1e-3 *)
  Definition c_alpha : T := div one (cst 100).         (* 0.01 *)
  Definition c_beta : T := half.                       (* 0.5 *)
  Definition c_gamma : T := neg (div one (cst 4)).     (* -0.25 *)
  Definition c_mu : T := two.
  Definition c_eps : T := div one (cst (2 ^ 52)).      (* T::epsilon() of f64 *)
  Definition pcgmaxi : nat := 5000.

  (* ---------- vectors and matrices ---------- *)
  Definition dot (a b : list T) : T :=
    fold_left (fun acc xy => add acc (mul (fst xy) (snd xy))) (combine a b) zero.
  Definition vsum (a : list T) : T := fold_left add a zero.
  Fixpoint map2 (f : T -> T -> T) (a b : list T) : list T :=
    match a, b with
    | x :: a', y :: b' => f x y :: map2 f a' b'
    | _, _ => []
    end.
  Definition vsub := map2 sub.
  Definition vscale (c : T) (a : list T) : list T := map (fun x => mul x c) a.   (* mul_scalar_mut *)
  Definition norm1 (a : list T) : T := fold_left (fun acc x => add acc (abs x)) a zero.
  Definition norm_inf (a : list T) : T := fold_left (fun acc x => max acc (abs x)) a zero.
  Definition norm2 (a : list T) : T := sqrt (fold_left (fun acc x => add acc (mul x x)) a zero).
  Definition vmean (a : list T) : T := div (vsum a) (oofnat O (length a)).
  Definition center (y : list T) : list T := let m := vmean y in map (fun v => sub v m) y.

  Definition matvec (X : list (list T)) (w : list T) : list T := map (fun row => dot row w) X.
  Definition col (r : nat) (X : list (list T)) : list T := map (fun row => nth r row zero) X.
  (* ab(true, v, false): X^T v, p = number of columns *)
  Definition mattvec (p : nat) (X : list (list T)) (v : list T) : list T :=
    map (fun r => dot (col r X) v) (seq 0 p).
  Definition ncols (X : list (list T)) : nat := length (hd [] X).
  Definition gram (p : nat) (X : list (list T)) : list (list T) :=
    map (fun r => map (fun c => dot (col r X) (col c X)) (seq 0 p)) (seq 0 p).

  (* ---------- duality gap (lasso_optimizer.rs, "CALCULATE DUALITY GAP") ---------- *)
  Definition residual (X : list (list T)) (yc w : list T) : list T := vsub (matvec X w) yc.
  Definition dual_nu (X : list (list T)) (yc : list T) (lam : T) (w : list T) : list T :=
    let z := residual X yc w in
    let nu := map (fun zi => mul two zi) z in
    let mx := norm_inf (mattvec (length w) X nu) in
    if ltb lam mx then vscale (div lam mx) nu else nu.
  Definition pobj_of (X : list (list T)) (yc : list T) (lam : T) (w : list T) : T :=
    let z := residual X yc w in add (dot z z) (mul lam (norm1 w)).
  Definition dual_value (nu yc : list T) : T := sub (mul c_gamma (dot nu nu)) (dot nu yc).
  (* `gap / dobj < tol || gap <= 0` (the second disjunct is the repair eff8af9: a closed gap stops,
     also when dobj = 0 makes the quotient NaN) *)
  Definition stop_test (gap dobj tol : T) : bool := ltb (div gap dobj) tol || leb gap zero.

  Record gapinfo := mkgap { g_z : list T; g_nu : list T; g_pobj : T; g_dobj : T; g_gap : T }.
  Definition gap_stage (X : list (list T)) (yc : list T) (lam : T) (w : list T) (dobj : T) : gapinfo :=
    let nu := dual_nu X yc lam w in
    let pobj := pobj_of X yc lam w in
    let dobj' := max dobj (dual_value nu yc) in
    {| g_z := residual X yc w; g_nu := nu; g_pobj := pobj; g_dobj := dobj'; g_gap := sub pobj dobj' |}.

  (* ---------- "UPDATE t" ---------- *)
  Definition t_init (p : nat) (lam : T) : T :=
    min (max one (div one lam)) (div (mul two (oofnat O p)) c_eta).
  Definition t_update (p : nat) (t s gap : T) : T :=
    if leb half s then max t (min (div (mul (mul two (oofnat O p)) c_mu) gap) (mul c_mu t)) else t.

  (* ---------- Newton system ("CALCULATE NEWTON STEP") ---------- *)
  Record newton := mknewton { nw_d1 : list T; nw_d2 : list T; nw_prb : list T; nw_prs : list T; nw_grad : list T }.
  Definition newton_system (X : list (list T)) (lam t : T) (w u z : list T) : newton :=
    let q1 := map2 (fun ui wi => div one (add ui wi)) u w in
    let q2 := map2 (fun ui wi => div one (sub ui wi)) u w in
    let d1 := map2 (fun a b => div (add (mul a a) (mul b b)) t) q1 q2 in
    let d2 := map2 (fun a b => div (sub (mul a a) (mul b b)) t) q1 q2 in
    let gradphi := mattvec (length w) X z in
    let q12 := combine q1 q2 in
    let g1 := map (fun gq => sub (mul two (fst gq)) (div (sub (fst (snd gq)) (snd (snd gq))) t)) (combine gradphi q12) in
    let g2 := map (fun q => sub lam (div (add (fst q) (snd q)) t)) q12 in
    let prb := map (fun d => add two d) d1 in
    {| nw_d1 := d1; nw_d2 := d2; nw_prb := prb;
       nw_prs := map (fun x => sub (mul (fst (fst x)) (snd (fst x))) (mul (snd x) (snd x))) (combine (combine prb d1) d2);
       nw_grad := map neg g1 ++ map neg g2 |}.
  Definition pcg_tolerance (ntiter : nat) (pitr0 : bool) (gap : T) (grad : list T) : T :=
    let normg := norm2 grad in
    let tol0 := min c_min_pcgtol (div (mul c_eta gap) (min one normg)) in
    if (negb (Nat.eqb ntiter 0)) && pitr0 then mul tol0 c_min_pcgtol else tol0.

  (* ---------- bg_solver.rs solve_mut with the optimizer's mat_vec_mul / solve_preconditioner ---------- *)
  Definition nthT (l : list T) (i : nat) : T := nth i l zero.
  Definition ip_mat_vec (p : nat) (ata : list (list T)) (nw : newton) (x : list T) : list T :=
    let atax := matvec ata (firstn p x) in
    map (fun i => add (add (mul two (nthT atax i)) (mul (nthT (nw_d1 nw) i) (nthT x i)))
                      (mul (nthT (nw_d2 nw) i) (nthT x (i + p)))) (seq 0 p) ++
    map (fun i => add (mul (nthT (nw_d2 nw) i) (nthT x i)) (mul (nthT (nw_d1 nw) i) (nthT x (i + p)))) (seq 0 p).
  Definition ip_precond (p : nat) (nw : newton) (b : list T) : list T :=
    map (fun i => div (sub (mul (nthT (nw_d1 nw) i) (nthT b i)) (mul (nthT (nw_d2 nw) i) (nthT b (i + p))))
                      (nthT (nw_prs nw) i)) (seq 0 p) ++
    map (fun i => div (add (mul (neg (nthT (nw_d2 nw) i)) (nthT b i)) (mul (nthT (nw_prb nw) i) (nthT b (i + p))))
                      (nthT (nw_prs nw) i)) (seq 0 p).
  Definition axpy (a : T) (x y : list T) : list T := map2 (fun xi yi => add yi (mul a xi)) x y.   (* y + a*x *)
  Definition xmay (a : T) (x y : list T) : list T := map2 (fun xi yi => sub yi (mul a xi)) x y.   (* y - a*x *)
  Definition bkpz (bk : T) (p z : list T) : list T := map2 (fun pi zi => add (mul bk pi) zi) p z. (* bk*p + z *)

  Fixpoint pcg_loop (fuel : nat) (first : bool) (A M : list T -> list T) (tol bnrm : T)
           (x r rr z p pp : list T) (bkden err : T) : T * list T :=
    match fuel with
    | 0%nat => (err, x)
    | S fuel' =>
      let zz := M rr in
      let bknum := dot z rr in
      let p' := if first then z else bkpz (div bknum bkden) p z in
      let pp' := if first then zz else bkpz (div bknum bkden) pp zz in
      let z1 := A p' in
      let akden := dot z1 pp' in
      let ak := div bknum akden in
      let zz1 := A pp' in
      let x' := axpy ak p' x in
      let r' := xmay ak z1 r in
      let rr' := xmay ak zz1 rr in
      let z2 := M r' in
      let err' := div (norm2 r') bnrm in
      if leb err' tol then (err', x')
      else pcg_loop fuel' false A M tol bnrm x' r' rr' z2 p' pp' bknum err'
    end.
  Definition solve_mut (A M : list T -> list T) (b x : list T) (tol : T) (max_iter : nat) : option (T * list T) :=
    if leb tol zero then None
    else if Nat.eqb max_iter 0 then None
    else
      let r := vsub b (A x) in
      Some (pcg_loop (max_iter - 1) true A M tol (norm2 b) x r r (M r) [] [] zero zero).

  (* ---------- "BACKTRACKING LINE SEARCH" ---------- *)
  Definition sumlogneg (w u : list T) : T :=
    fold_left (fun acc wu => add (add acc (ln (neg (sub (fst wu) (snd wu)))))
                                 (ln (neg (sub (neg (fst wu)) (snd wu))))) (combine w u) zero.
  Definition phi_of (X : list (list T)) (yc : list T) (lam t : T) (w u : list T) : T :=
    let z := residual X yc w in
    sub (add (dot z z) (mul lam (vsum u))) (div (sumlogneg w u) t).
  (* newf.max() < 0 with newf = [neww - newu | -neww - newu] *)
  Definition interior (w u : list T) : bool :=
    forallb (fun wu => ltb (sub (fst wu) (snd wu)) zero && ltb (sub (neg (fst wu)) (snd wu)) zero) (combine w u).
  Definition ls_try (X : list (list T)) (yc : list T) (lam t : T) (w u dx du : list T) (phi gdx s : T)
    : option (list T * list T) :=
    let neww := axpy s dx w in
    let newu := axpy s du u in
    if interior neww newu then
      let newphi := phi_of X yc lam t neww newu in
      if leb (sub newphi phi) (mul (mul c_alpha s) gdx) then Some (neww, newu) else None
    else None.
  Fixpoint line_search (fuel : nat) (X : list (list T)) (yc : list T) (lam t : T) (w u dx du : list T)
           (phi gdx s : T) : option (T * list T * list T) :=
    match fuel with
    | 0%nat => None
    | S fuel' =>
      match ls_try X yc lam t w u dx du phi gdx s with
      | Some (neww, newu) => Some (s, neww, newu)
      | None => line_search fuel' X yc lam t w u dx du phi gdx (mul c_beta s)
      end
    end.
  (* `let max_ls_iter = 100; while lsiter < max_ls_iter { try s; s = beta*s; lsiter += 1 }`
     (repair bdb775f: the counter is now incremented): exactly 100 trial steps 1, 1/2, ..., 2^-99.
     When all are rejected (repair e30c76a): `gdx` and `phi` finite => the null step (s = 0, iterate
     kept) and the outer loop goes on; otherwise Err = None.  `is_finite x` is `x - x == 0`
     (false exactly for +-inf and NaN; always true over R). *)
  Definition ls_fuel : nat := 100.
  Definition is_finite (x : T) : bool := O.(oeqb) (sub x x) zero.

  (* ---------- one outer iteration ---------- *)
  Record ipstate := mkst { st_w : list T; st_u : list T; st_dobj : T; st_t : T; st_s : T;
                           st_pitr0 : bool; st_dxu : list T }.
  Inductive ipresult :=
  | IpStop (w : list T) (pobj dobj : T)
  | IpNext (st : ipstate)
  | IpFail.

  (* what the linear solver is given: iteration number, state (t already updated), residual z, gap;
     what it returns: the new `pitr == 0` flag and the direction (dx ++ du) *)
  Definition solver_t := nat -> ipstate -> list T -> T -> option (bool * list T).

  Definition ip_iter (solver : solver_t) (X : list (list T)) (yc : list T) (lam tol : T)
             (ntiter : nat) (st : ipstate) : ipresult :=
    let p := length (st_w st) in
    let g := gap_stage X yc lam (st_w st) (st_dobj st) in
    if stop_test (g_gap g) (g_dobj g) tol then IpStop (st_w st) (g_pobj g) (g_dobj g)
    else
      let t := t_update p (st_t st) (st_s st) (g_gap g) in
      let st1 := {| st_w := st_w st; st_u := st_u st; st_dobj := g_dobj g; st_t := t; st_s := st_s st;
                    st_pitr0 := st_pitr0 st; st_dxu := st_dxu st |} in
      match solver ntiter st1 (g_z g) (g_gap g) with
      | None => IpFail
      | Some (pitr0', dxu) =>
        let dx := firstn p dxu in
        let du := skipn p dxu in
        let nw := newton_system X lam t (st_w st) (st_u st) (g_z g) in
        let phi := phi_of X yc lam t (st_w st) (st_u st) in
        let gdx := dot (nw_grad nw) dxu in
        match line_search ls_fuel X yc lam t (st_w st) (st_u st) dx du phi gdx one with
        | None =>
          if is_finite gdx && is_finite phi then
            IpNext {| st_w := st_w st; st_u := st_u st; st_dobj := g_dobj g; st_t := t; st_s := zero;
                      st_pitr0 := pitr0'; st_dxu := dxu |}
          else IpFail
        | Some (s, neww, newu) =>
          IpNext {| st_w := neww; st_u := newu; st_dobj := g_dobj g; st_t := t; st_s := s;
                    st_pitr0 := pitr0'; st_dxu := dxu |}
        end
      end.

  Definition ip_init (p : nat) (lam : T) : ipstate :=
    {| st_w := repeat zero p; st_u := repeat one p; st_dobj := zero; st_t := t_init p lam; st_s := one;
       st_pitr0 := true; st_dxu := repeat zero (2 * p) |}.

  (* `for ntiter in 0..max_iter { .. }` then `Ok(w)` *)
  Fixpoint ip_loop (solver : solver_t) (X : list (list T)) (yc : list T) (lam tol : T)
           (fuel ntiter : nat) (st : ipstate) : option (list T * exit_reason * T) :=
    match fuel with
    | 0%nat => Some (st_w st, ExitMaxIter, st_dobj st)
    | S fuel' =>
      match ip_iter solver X yc lam tol ntiter st with
      | IpStop w _ dobj => Some (w, ExitGap, dobj)
      | IpFail => None
      | IpNext st' => ip_loop solver X yc lam tol fuel' (S ntiter) st'
      end
    end.

  (* InteriorPointOptimizer::optimize(x, y, lambda, max_iter, tol): lambda floored at epsilon,
     y centred, p = number of columns *)
  Definition optimize_gen (solver : solver_t) (X : list (list T)) (y : list T) (lam : T)
             (max_iter : nat) (tol : T) : option (list T * exit_reason * T) :=
    let lam' := max lam c_eps in
    ip_loop solver X (center y) lam' tol max_iter 0 (ip_init (ncols X) lam').

  (* the code's solver: preconditioned BiCG on the Newton system, warm-started from the last direction *)
  Definition pcg_solver (X : list (list T)) (lam : T) : solver_t :=
    fun ntiter st z gap =>
      let p := length (st_w st) in
      let nw := newton_system X lam (st_t st) (st_w st) (st_u st) z in
      let pcgtol := pcg_tolerance ntiter (st_pitr0 st) gap (nw_grad nw) in
      let ata := gram p X in
      match solve_mut (ip_mat_vec p ata nw) (ip_precond p nw) (nw_grad nw) (st_dxu st) pcgtol pcgmaxi with
      | None => None
      | Some (err, dxu) => Some (st_pitr0 st && negb (ltb pcgtol err), dxu)
      end.
  Definition optimize (X : list (list T)) (y : list T) (lam : T) (max_iter : nat) (tol : T) :=
    optimize_gen (pcg_solver X (max lam c_eps)) X y lam max_iter tol.

  (* ---------- lasso.rs ---------- *)
  Definition col_mean (X : list (list T)) (j : nat) : T := div (vsum (col j X)) (oofnat O (length X)).
  (* MatrixStats::var (one pass) and std *)
  Definition col_var (X : list (list T)) (j : nat) : T :=
    let c := col j X in
    let dv := oofnat O (length X) in
    let mu := div (vsum c) dv in
    sub (div (fold_left (fun acc a => add acc (mul a a)) c zero) dv) (mul mu mu).
  Definition col_std (X : list (list T)) (j : nat) : T := sqrt (col_var X j).
  Definition scale_rows (X : list (list T)) (means stds : list T) : list (list T) :=
    map (fun row => map (fun xms => div (sub (fst (fst xms)) (snd (fst xms))) (snd xms))
                        (combine (combine row means) stds)) X.
  (* rescale_x (after the repair af78fc0): Err on a column that is exactly constant
     (`(1..n).all(|r| x[r][i] == x[0][i])`) or whose deviation is not >= epsilon
     (`!(|std - 0| >= eps)`, which also rejects a NaN deviation) *)
  Definition col_constant (X : list (list T)) (j : nat) : bool :=
    match col j X with
    | [] => true
    | v0 :: rest => forallb (fun v => O.(oeqb) v v0) rest
    end.
  Definition rescale_x (X : list (list T)) : option (list (list T) * list T * list T) :=
    let p := ncols X in
    let means := map (col_mean X) (seq 0 p) in
    let stds := map (col_std X) (seq 0 p) in
    if existsb (fun j => col_constant X j || negb (leb c_eps (abs (sub (col_std X j) zero)))) (seq 0 p) then None
    else Some (scale_rows X means stds, means, stds).

  Definition lasso_valid (n p : nat) (ylen : nat) (alpha tol : T) (max_iter : nat) : bool :=
    negb (Nat.leb n p) && negb (ltb alpha zero) && negb (leb tol zero) && negb (Nat.eqb max_iter 0)
    && Nat.eqb ylen n.

  (* back-transformation of the optimiser's coefficients (normalize = true) *)
  Definition back_transform (ymean : T) (means stds w : list T) : list T * T :=
    let w' := map2 div w stds in
    (w', sub ymean (dot w' means)).

  Definition lasso_fit_gen (opt : list (list T) -> list T -> T -> nat -> T -> option (list T))
             (X : list (list T)) (y : list T) (alpha : T) (normalize : bool) (tol : T) (max_iter : nat)
    : option (list T * T) :=
    let n := length X in
    let p := ncols X in
    if negb (lasso_valid n p (length y) alpha tol max_iter) then None
    else
      let l1_reg := mul alpha (oofnat O n) in
      if normalize then
        match rescale_x X with
        | None => None
        | Some (Xs, means, stds) =>
          match opt Xs y l1_reg max_iter tol with
          | None => None
          | Some w => Some (back_transform (vmean y) means stds w)
          end
        end
      else
        match opt X y l1_reg max_iter tol with
        | None => None
        | Some w => Some (w, vmean y)
        end.
  Definition opt_w (r : option (list T * exit_reason * T)) : option (list T) :=
    match r with Some (w, _, _) => Some w | None => None end.
  Definition lasso_fit := lasso_fit_gen (fun X y lam mi tol => opt_w (optimize X y lam mi tol)).
  Definition predict (X : list (list T)) (w : list T) (b : T) : list T :=
    map (fun v => add v b) (matvec X w).

  (* ---------- elastic_net.rs ---------- *)
  Definition enet_gamma (l2 : T) : T := div one (sqrt (add one l2)).
  Definition enet_padding (l2 : T) : T := mul (enet_gamma l2) (sqrt l2).
  Definition pad_row (p j : nat) (c : T) : list T := map (fun k => if Nat.eqb k j then c else zero) (seq 0 p).
  (* augment_x_and_y (after the repair D8: the target is centred before it is padded) *)
  Definition augment (X : list (list T)) (y : list T) (l2 : T) : list (list T) * list T * T :=
    let p := ncols X in
    let gamma := enet_gamma l2 in
    let padding := enet_padding l2 in
    (map (fun row => map (fun x => mul gamma x) row) X ++ map (fun j => pad_row p j padding) (seq 0 p),
     center y ++ repeat zero p, gamma).

  Definition enet_fit_gen (opt : list (list T) -> list T -> T -> nat -> T -> option (list T))
             (X : list (list T)) (y : list T) (alpha l1_ratio : T) (normalize : bool) (tol : T) (max_iter : nat)
    : option (list T * T) :=
    let n := length X in
    if negb (Nat.eqb (length y) n) then None
    else
      let nf := oofnat O n in
      let l1_reg := mul (mul alpha l1_ratio) nf in
      let l2_reg := mul (mul alpha (sub one l1_ratio)) nf in
      let ymean := vmean y in
      if normalize then
        match rescale_x X with
        | None => None
        | Some (Xs, means, stds) =>
          let '(X2, y2, gamma) := augment Xs y l2_reg in
          match opt X2 y2 (mul l1_reg gamma) max_iter tol with
          | None => None
          | Some w => Some (back_transform ymean means stds (map (fun wi => mul gamma wi) w))
          end
        end
      else
        let '(X2, y2, gamma) := augment X y l2_reg in
        match opt X2 y2 (mul l1_reg gamma) max_iter tol with
        | None => None
        | Some w => Some (map (fun wi => mul gamma wi) w, ymean)
        end.
  Definition enet_fit := enet_fit_gen (fun X y lam mi tol => opt_w (optimize X y lam mi tol)).

  (* ---------- objectives of the property statement ---------- *)
  Definition sqnorm (a : list T) : T := dot a a.
  (* ||yc - Z w||^2 + lam |w|_1  (written with the residual Z w - yc; lam = n*alpha) *)
  Definition lasso_objective := pobj_of.
  (* ||yc - Z w||^2 + l2 ||w||^2 + l1 |w|_1 *)
  Definition enet_objective (X : list (list T)) (yc : list T) (l1 l2 : T) (w : list T) : T :=
    add (add (sqnorm (residual X yc w)) (mul l2 (sqnorm w))) (mul l1 (norm1 w)).

  (* ---------- the validator ----------
     `wd` is an untrusted hint (any vector: the returned coefficients themselves, or an independent
     solution); the validator builds the dual point of `wd` with the code's rescaling, shrinks it by
     `shrink` (<= 1, absorbs rounding), CHECKS dual feasibility itself, and accepts iff the objective
     of `w` exceeds the dual value by at most ctol * dual value. *)
  Definition cert_nu (X : list (list T)) (yc : list T) (lam : T) (wd : list T) (shrink : T) : list T :=
    vscale shrink (dual_nu X yc lam wd).
  Definition check_gap_with_nu (X : list (list T)) (yc : list T) (lam : T) (w nu : list T) (ctol : T) : bool :=
    Nat.eqb (length yc) (length X) && Nat.eqb (length nu) (length X) &&
    leb zero lam && leb zero ctol &&
    forallb (fun v => leb (abs v) lam) (mattvec (length w) X nu) &&
    leb (sub (pobj_of X yc lam w) (dual_value nu yc)) (mul ctol (dual_value nu yc)).
  Definition check_gap_certificate (X : list (list T)) (yc : list T) (lam : T) (w wd : list T) (shrink ctol : T) : bool :=
    check_gap_with_nu X yc lam w (cert_nu X yc lam wd shrink) ctol.
End Model.

Arguments IpStop {T}. Arguments IpNext {T}. Arguments IpFail {T}.
