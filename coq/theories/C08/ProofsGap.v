(* C08 — the gap-rule theorem without any hypothesis on the outputs: the first dual value (at w = 0)
   is c(2-c)|yc|^2 with 0 < c <= 1, so the running dual bound is positive from the first iteration
   on unless the centred target is identically zero — and then the loop stops at once with w = 0,
   which is optimal. *)
From Coq Require Import List ZArith Reals Lra Lia Bool Arith.
From SC Require Import Base.Num C08.Model C08.ProofsBase C08.ProofsDual C08.ProofsFit.
Import ListNotations.
Local Open Scope R_scope.

Lemma Rdot_repeat0_r a p : Rdot a (repeat 0 p) = 0.
Proof.
  revert p. induction a as [|x a IH]; intros [|p]; cbn [repeat Rdot]; try reflexivity.
  rewrite IH. lra.
Qed.
Lemma Rnorm1_repeat0 p : Rnorm1 (repeat 0 p) = 0.
Proof.
  unfold Rnorm1. induction p as [|p IH]; cbn [repeat map Rsum]; [reflexivity|].
  rewrite IH, Rabs_R0. lra.
Qed.
Lemma residual_zero X yc p :
  length yc = length X -> map2 Rminus (Rmatvec X (repeat 0 p)) yc = map Ropp yc.
Proof.
  revert yc. induction X as [|row X IH]; intros [|v yc] Hl; try discriminate; cbn [Rmatvec map map2].
  - reflexivity.
  - fold (Rmatvec X (repeat 0 p)). rewrite IH by (cbn in Hl; lia). rewrite Rdot_repeat0_r. f_equal. lra.
Qed.
Lemma Rdot_opp_opp a : Rdot (map Ropp a) (map Ropp a) = Rdot a a.
Proof. induction a as [|x a IH]; cbn [map Rdot]; [reflexivity | rewrite IH; lra]. Qed.

Lemma pobj_at_zero X yc lam p :
  length yc = length X -> pobj_of ROps X yc lam (repeat 0 p) = Rdot yc yc.
Proof.
  intros Hl. rewrite pobj_R, residual_zero by exact Hl. rewrite Rdot_opp_opp, Rnorm1_repeat0. lra.
Qed.

(* the dual value of  c * (2 * (-yc)) *)
Lemma dual_value_scaled c yc :
  dual_value ROps (map (fun x => x * c) (map (fun zi => 2 * zi) (map Ropp yc))) yc = c * (2 - c) * Rdot yc yc.
Proof.
  rewrite dual_value_R, !map_map.
  rewrite (map_ext (fun x => 2 * - x * c) (fun x => (-2 * c) * x)) by (intros; lra).
  rewrite Rdot_scale_l, Rdot_scale_r', Rdot_scale_l. lra.
Qed.
Lemma dual_value_unscaled yc :
  dual_value ROps (map (fun zi => 2 * zi) (map Ropp yc)) yc = 1 * (2 - 1) * Rdot yc yc.
Proof.
  rewrite <- dual_value_scaled. f_equal. rewrite !map_map. apply map_ext. intros; lra.
Qed.

Lemma first_dual_value X yc lam p :
  length yc = length X -> 0 < lam ->
  exists c, 0 < c <= 1 /\
    dual_value ROps (dual_nu ROps X yc lam (repeat 0 p)) yc = c * (2 - c) * Rdot yc yc.
Proof.
  intros Hl Hlam. unfold dual_nu, residual.
  rewrite vsub_R, matvec_R, residual_zero by exact Hl.
  change (omul ROps (two ROps)) with (Rmult 2).
  set (nu0 := map (fun zi => 2 * zi) (map Ropp yc)).
  set (mx := norm_inf ROps _).
  cbn [oltb odiv ROps]. destruct (Rltb lam mx) eqn:Hlt.
  - apply Rltb_true in Hlt. exists (lam / mx). split.
    + split.
      * apply Rdiv_lt_0_compat; lra.
      * apply (Rmult_le_reg_r mx); [lra|]. unfold Rdiv. rewrite Rmult_assoc, Rinv_l by lra. lra.
    + unfold vscale. cbn [omul ROps]. apply dual_value_scaled.
  - exists 1. split; [lra|]. apply dual_value_unscaled.
Qed.

Section Gap.
  Variable solver : solver_t (T := R).
  Variables (X : list (list R)) (yc : list R) (lam tol : R).
  Variable p : nat.
  Hypothesis Hy : length yc = length X.
  Hypothesis Hlam : 0 < lam.
  Hypothesis Hshape : forall k st z gap b d, solver k st z gap = Some (b, d) -> length d = (2 * p)%nat.

  (* the bound returned through the gap rule is at least the first dual bound computed on the way *)
  Lemma ip_loop_gap_ge fuel k st w d :
    ip_loop ROps solver X yc lam tol fuel k st = Some (w, ExitGap, d) ->
    g_dobj (gap_stage ROps X yc lam (st_w st) (st_dobj st)) <= d.
  Proof.
    revert k st. induction fuel as [|fuel IH]; intros k st; cbn [ip_loop]; [discriminate|].
    destruct (ip_iter ROps solver X yc lam tol k st) as [w0 po d0|st'|] eqn:Hit; [| |discriminate].
    - intros H. assert (Hd0 : d0 = d) by congruence. clear H. unfold ip_iter in Hit.
      destruct (stop_test ROps _ _ tol).
      + assert (Hd : g_dobj (gap_stage ROps X yc lam (st_w st) (st_dobj st)) = d0) by congruence.
        rewrite Hd, Hd0. apply Rle_refl.
      + destruct (solver _ _ _ _) as [[b0 dxu]|]; [|discriminate].
        destruct (line_search _ _ _ _ _ _ _ _ _ _ _ _ _) as [[[s nw] nu]|]; [discriminate|].
        destruct (is_finite ROps _ && is_finite ROps _); discriminate.
    - intros H. specialize (IH _ _ H).
      assert (Hd : st_dobj st' = g_dobj (gap_stage ROps X yc lam (st_w st) (st_dobj st))).
      { unfold ip_iter in Hit. destruct (stop_test ROps _ _ tol); [discriminate|].
        destruct (solver _ _ _ _) as [[b0 dxu]|]; [|discriminate].
        destruct (line_search _ _ _ _ _ _ _ _ _ _ _ _ _) as [[[s nw] nu]|].
        - inversion Hit; subst. reflexivity.
        - destruct (is_finite ROps _ && is_finite ROps _); [|discriminate].
          inversion Hit; subst. reflexivity. }
      rewrite <- Hd. eapply Rle_trans; [|exact IH]. apply gap_stage_mono.
  Qed.

  (* a centred target that is identically zero: the first test stops with w = 0 *)
  Lemma zero_target_stops fuel :
    Rdot yc yc = 0 ->
    ip_loop ROps solver X yc lam tol (S fuel) 0 (ip_init ROps p lam) = Some (repeat 0 p, ExitGap, 0).
  Proof.
    intros H0. cbn [ip_loop]. unfold ip_iter.
    cbn [ip_init st_w st_dobj o0 ROps].
    destruct (first_dual_value X yc lam p Hy Hlam) as [c [Hc Hdv]].
    assert (Hd : g_dobj (gap_stage ROps X yc lam (repeat 0 p) 0) = 0).
    { cbn [gap_stage g_dobj]. rewrite omax_R, Hdv, H0, Rmult_0_r. apply Rmax_left. lra. }
    assert (Hg : g_gap (gap_stage ROps X yc lam (repeat 0 p) 0) = 0).
    { cbn [gap_stage g_gap]. cbn [gap_stage g_dobj] in Hd. rewrite Hd.
      rewrite pobj_at_zero by exact Hy. cbn [osub ROps]. lra. }
    rewrite Hg, Hd. unfold stop_test. cbn [oleb o0 ROps].
    replace (Rleb 0 0) with true by (symmetry; apply Rleb_true; lra).
    rewrite orb_true_r. reflexivity.
  Qed.

  Theorem gap_stop_near_optimal_all fuel w d :
    ip_loop ROps solver X yc lam tol fuel 0 (ip_init ROps p lam) = Some (w, ExitGap, d) ->
    0 <= tol ->
    forall w', length w' = p -> pobj_of ROps X yc lam w <= (1 + tol) * pobj_of ROps X yc lam w'.
  Proof.
    intros H Htol w' Hw'.
    assert (Hl0 : 0 <= lam) by lra.
    pose proof (Rdot_self_nonneg yc) as Hnn.
    destruct (Rle_lt_or_eq_dec _ _ Hnn) as [Hpos|Hz].
    - (* non-constant target: the bound is positive *)
      apply (gap_stop_near_optimal solver X yc lam tol p Hy Hl0 Hshape fuel w d H Htol); [|exact Hw'].
      pose proof (ip_loop_gap_ge _ _ _ _ _ H) as Hge.
      cbn [ip_init st_w st_dobj gap_stage g_dobj o0 ROps] in Hge. rewrite omax_R in Hge.
      destruct (first_dual_value X yc lam p Hy Hlam) as [c [Hc Hdv]]. rewrite Hdv in Hge.
      assert (0 < c * (2 - c) * Rdot yc yc) by (apply Rmult_lt_0_compat; [nra | exact Hpos]).
      pose proof (Rmax_r 0 (c * (2 - c) * Rdot yc yc)). lra.
    - destruct fuel as [|fuel]; [cbn [ip_loop] in H; discriminate|].
      rewrite zero_target_stops in H by (symmetry; exact Hz). inversion H; subst.
      rewrite pobj_at_zero by exact Hy. rewrite <- Hz.
      pose proof (pobj_nonneg X yc lam w' Hl0). nra.
  Qed.
End Gap.

Lemma optimize_gen_near_optimal_all (solver : solver_t (T := R)) X y lam max_iter tol w d :
  length y = length X ->
  (forall k st z gap b dxu, solver k st z gap = Some (b, dxu) -> length dxu = (2 * ncols X)%nat) ->
  optimize_gen ROps solver X y lam max_iter tol = Some (w, ExitGap, d) -> 0 <= tol ->
  forall w', length w' = ncols X ->
    lasso_objective ROps X (center ROps y) (lam_used lam) w
    <= (1 + tol) * lasso_objective ROps X (center ROps y) (lam_used lam) w'.
Proof.
  intros Hy Hs H Htol w' Hw'. unfold optimize_gen in H. fold (lam_used lam) in H.
  unfold lasso_objective.
  eapply gap_stop_near_optimal_all with (p := ncols X); try eassumption.
  - rewrite center_length. exact Hy.
  - apply lam_used_pos.
Qed.
