(* C08 — satisfiability instances for the fit-level theorems (ProofsEnd.v): a 2 x 1 design on which the
   gap closes at the first test (lam = lam_max), for Lasso and for elastic net with l1_ratio = 1. *)
From Coq Require Import List ZArith Reals Lra Lia Bool Arith.
From SC Require Import Base.Num C08.Model C08.ProofsBase C08.ProofsDual C08.ProofsFit C08.ProofsGap C08.ProofsEnd C08.ProofsExamples.
Import ListNotations.
Local Open Scope R_scope.


Lemma center_mean0 : center ROps [1; -1] = [1; -1].
Proof. rewrite center_R. cbn [Rsum length map]. unfold nR. cbn [Z.of_nat Pos.of_succ_nat Pos.succ]. f_equal; [lra | f_equal; lra]. Qed.
Lemma lam_used_4 : lam_used (2 * IZR (Z.of_nat 2)) = 4.
Proof.
  unfold lam_used. rewrite omax_R. cbn [Z.of_nat Pos.of_succ_nat Pos.succ].
  apply Rmax_left. pose proof c_eps_pos. unfold c_eps. cbn [odiv o1 oofZ ROps].
  assert (1 / IZR (2 ^ 52) <= 1).
  { apply (Rmult_le_reg_r (IZR (2 ^ 52))). apply IZR_lt; reflexivity.
    unfold Rdiv. rewrite Rmult_assoc, Rinv_l. assert (1 <= IZR (2 ^ 52)) by (apply IZR_le; discriminate). lra.
    apply Rgt_not_eq. apply IZR_lt. reflexivity. }
  lra.
Qed.
Lemma ex_optimize_gap (solver : solver_t (T := R)) :
  optimize_gen ROps solver [[1]; [-1]] [1; -1] (2 * IZR (Z.of_nat 2)) 1 (1 / 10) = Some ([0], ExitGap, 2).
Proof.
  unfold optimize_gen. fold (lam_used (2 * IZR (Z.of_nat 2))). rewrite lam_used_4, center_mean0.
  change (ncols [[1]; [-1]]) with 1%nat. apply ex_gap_stop.
Qed.
Lemma ex_lasso_fit_hyps (mk : list (list R) -> R -> solver_t (T := R)) :
  let X := [[1]; [-1]] in
  Forall (fun row => length row = ncols X) X /\
  lasso_valid ROps (length X) (ncols X) (length [1; -1]) 2 (1 / 10) 1 = true /\
  design false X = Some X /\
  optimize_gen ROps (mk X (2 * IZR (Z.of_nat (length X)))) X [1; -1] (2 * IZR (Z.of_nat (length X))) 1 (1 / 10)
    = Some ([0], ExitGap, 2).
Proof.
  cbv zeta. split; [repeat constructor|]. split; [|split; [reflexivity | apply ex_optimize_gap]].
  unfold lasso_valid. cbn [length ncols hd Nat.leb Nat.eqb negb andb oltb oleb o0 ROps].
  replace (Rltb 2 0) with false by (symmetry; apply Rltb_false; lra).
  replace (Rleb (1 / 10) 0) with false by (symmetry; apply Rleb_false; lra). reflexivity.
Qed.


Lemma ex_augment :
  augment ROps [[1]; [-1]] [1; -1] (2 * (1 - 1) * IZR (Z.of_nat 2)) = ([[1]; [-1]; [0]], [1; -1; 0], 1).
Proof.
  replace (2 * (1 - 1) * IZR (Z.of_nat 2)) with 0 by ring.
  unfold augment, enet_padding. rewrite enet_gamma_zero, center_mean0.
  cbn [osqrt omul o0 ROps]. rewrite sqrt_0.
  cbv [ncols hd length seq map pad_row Nat.eqb repeat app o0 ROps].
  repeat f_equal; lra.
Qed.
Lemma center_mean0_3 : center ROps [1; -1; 0] = [1; -1; 0].
Proof. rewrite center_R. cbn [Rsum length map]. unfold nR. cbn [Z.of_nat Pos.of_succ_nat Pos.succ]. repeat f_equal; lra. Qed.
Lemma ex_gap_stop3 (solver : solver_t (T := R)) :
  ip_loop ROps solver [[1]; [-1]; [0]] [1; -1; 0] 4 (1 / 10) 1 0 (ip_init ROps 1 4) = Some ([0], ExitGap, 2).
Proof. rcompute. repeat f_equal. lra. Qed.
Lemma ex_enet_fit_hyps (mk : list (list R) -> R -> solver_t (T := R)) :
  let X := [[1]; [-1]] in
  let y := [1; -1] in
  let nf := IZR (Z.of_nat (length X)) in
  0 <= 2 * (1 - 1) * nf /\ design false X = Some X /\
  let '(X2, y2, gamma) := augment ROps X y (2 * (1 - 1) * nf) in
  optimize_gen ROps (mk X2 (2 * 1 * nf * gamma)) X2 y2 (2 * 1 * nf * gamma) 1 (1 / 10) = Some ([0], ExitGap, 2).
Proof.
  cbv zeta. cbn [length]. split; [lra|]. split; [reflexivity|]. rewrite ex_augment.
  unfold optimize_gen.
  replace (2 * 1 * IZR (Z.of_nat 2) * 1) with (2 * IZR (Z.of_nat 2)) by ring.
  fold (lam_used (2 * IZR (Z.of_nat 2))). rewrite lam_used_4, center_mean0_3.
  change (ncols [[1]; [-1]; [0]]) with 1%nat. apply ex_gap_stop3.
Qed.
