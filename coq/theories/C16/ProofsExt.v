(* C16 — extensions: with shuffling, test set j is exactly the j-th block of the permutation. *)
From Coq Require Import List Arith Bool Lia Permutation.
From SC Require Import C16.Model C16.Proofs C16.ProofsTTS.
Import ListNotations.

Definition fold_start (n k j : nat) : nat := j * (n / k) + Nat.min j (n mod k).
Definition fold_size (n k j : nat) : nat := n / k + (if j <? n mod k then 1 else 0).

Lemma fold_block_le n k j : 0 < k -> j < k -> fold_start n k j + fold_size n k j <= n.
Proof.
  intros Hk Hj. unfold fold_start, fold_size.
  rewrite <- (fold_sizes_prefix_sum n k) by lia. rewrite <- (fold_sizes_nth n k j) by lia.
  rewrite <- (fold_sizes_sum n k) at 3 by lia.
  apply list_sum_firstn_le. rewrite fold_sizes_length. lia.
Qed.

Theorem kfold_tests_follow_permutation : forall n k indices, 2 <= k -> Permutation indices (seq 0 n) ->
  exists folds, kfold_split n k indices = Some folds /\
    forall j, j < k ->
      Permutation (snd (nth j folds ([], []))) (firstn (fold_size n k j) (skipn (fold_start n k j) indices)) /\
      length (snd (nth j folds ([], []))) = fold_size n k j /\
      (k <= n -> 1 <= fold_size n k j).
Proof.
  intros n k indices Hk Hp. exists (map (fold_of n) (test_indices n k indices)).
  split; [apply kfold_split_perm; assumption|].
  intros j Hj.
  assert (Hlen : length indices = n) by (rewrite (Permutation_length Hp); apply seq_length).
  assert (Hnth : nth j (test_indices n k indices) [] =
                 firstn (fold_size n k j) (skipn (fold_start n k j) indices)).
  { unfold test_indices. rewrite slices_nth by (rewrite fold_sizes_length; lia). cbn [plus].
    rewrite fold_sizes_prefix_sum, fold_sizes_nth by lia. reflexivity. }
  rewrite (nth_indep _ ([], []) (fold_of n [])) by (rewrite map_length, test_indices_length; exact Hj).
  rewrite map_nth. cbn [fold_of snd].
  assert (Hin : In (nth j (test_indices n k indices) []) (test_indices n k indices)).
  { apply nth_In. rewrite test_indices_length. exact Hj. }
  destruct (test_indices_wf n k indices Hk Hp _ Hin) as [Hnd Hlt].
  pose proof (filter_mem_perm n _ Hnd Hlt) as Hperm.
  split; [rewrite <- Hnth; exact Hperm|]. split.
  - rewrite (Permutation_length Hperm), Hnth, firstn_length, skipn_length, Hlen.
    pose proof (fold_block_le n k j ltac:(lia) Hj). lia.
  - intros Hkn. unfold fold_size. assert (1 <= n / k) by (apply Nat.div_le_lower_bound; lia). lia.
Qed.
