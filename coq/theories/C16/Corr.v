(* C16 — correspondence interface: the model run on literal inputs (`N`/`Z` literals) and compared
   with what the implementation returned.  Used by harness/src/bin/c16.rs through `Eval vm_compute`.
   For the shuffled variants `indices` is the permutation recovered from the implementation's own
   output; `is_perm_b` checks inside Coq that it satisfies the theorems' hypothesis. *)
From Coq Require Import List ZArith NArith Bool.
From SC Require Import Base.FloatUtil C16.Model C16.F32.
Import ListNotations.

Definition to_nats := map N.to_nat.
Definition of_nats := map N.of_nat.
Definition nn_eqb := list_eqb nlist_eqb.
Definition bool_eqb (a b : bool) : bool := if a then b else negb b.

(* `l` is a rearrangement of 0..n-1 *)
Definition is_perm_b (n : N) (l : list N) : bool :=
  N.eqb (N.of_nat (length l)) n &&
  forallb (fun i => existsb (N.eqb i) l) (map N.of_nat (seq 0 (N.to_nat n))).

(* hook verif_test_indices *)
Definition corr_test_indices (n k : N) (indices : list N) (expected : list (list N)) : bool :=
  nn_eqb (map of_nats (test_indices (N.to_nat n) (N.to_nat k) (to_nats indices))) expected.

(* hook verif_test_masks *)
Definition corr_test_masks (n k : N) (indices : list N) (expected : list (list bool)) : bool :=
  list_eqb (list_eqb bool_eqb) (test_masks (N.to_nat n) (N.to_nat k) (to_nats indices)) expected.

Definition pair_eqb (a b : list N * list N) : bool :=
  nlist_eqb (fst a) (fst b) && nlist_eqb (snd a) (snd b).
Definition folds_of (l : list (list nat * list nat)) : list (list N * list N) :=
  map (fun p => (of_nats (fst p), of_nats (snd p))) l.

(* KFold::split collected; expected = None when the implementation panicked.
   `perm_ok` asks for the permutation check (cases where the implementation returned folds). *)
Definition corr_split (n k : N) (indices : list N) (expected : option (list (list N * list N))) : bool :=
  option_eqb (list_eqb pair_eqb)
             (option_map folds_of (kfold_split (N.to_nat n) (N.to_nat k) (to_nats indices))) expected
  && match expected with Some _ => is_perm_b n indices | None => true end.

(* train_test_split on integer-valued data; test_size by its f32 bit pattern *)
Definition zrows_eqb := list_eqb zlist_eqb.
Definition tts_eqb (a b : list (list Z) * list (list Z) * list Z * list Z) : bool :=
  let '(a1, a2, a3, a4) := a in
  let '(b1, b2, b3, b4) := b in
  zrows_eqb a1 b1 && zrows_eqb a2 b2 && zlist_eqb a3 b3 && zlist_eqb a4 b4.
Definition corr_tts (x : list (list Z)) (y : list Z) (ts_bits : Z) (indices : list N)
           (expected : option (list (list Z) * list (list Z) * list Z * list Z)) : bool :=
  option_eqb tts_eqb (train_test_split_f32 x y ts_bits (to_nats indices)) expected
  && match expected with Some _ => is_perm_b (N.of_nat (length y)) indices | None => true end.
(* only the size computation, for large n *)
Definition corr_n_test (n : N) (ts_bits : Z) (exp_ok : bool) (exp_n_test : N) : bool :=
  let ts := f32_of_bits ts_bits in
  bool_eqb (ts_ok_f32 ts) exp_ok && Z.eqb (n_test_f32_Z (Z.of_N n) ts) (Z.of_N exp_n_test).

(* ---------- the instrumented estimator (the same function is written in the harness) ---------- *)
Definition rid (r : list Z) : Z := nth 0 r 0%Z.
Fixpoint wsum (j : Z) (l : list Z) : Z :=
  match l with [] => 0%Z | v :: t => (j * v + wsum (j + 1) t)%Z end.
(* position-weighted checksum of the training set: depends on which rows, their order, their
   targets and their second column *)
Definition train_hash (rows : list (list Z)) (ys : list Z) : Z :=
  wsum 1 (map (fun ry => (3 * rid (fst ry) + 5 * snd ry + 7 * nth 1 (fst ry) 0 + 1)%Z) (combine rows ys)).
Definition has_id (p : Z) (rows : list (list Z)) : bool := existsb (fun r => Z.eqb (rid r) p) rows.

Section Est.
  Variables poison_fit poison_pred poison_short : Z.
  Definition est_fit (rows : list (list Z)) (ys : list Z) : option Z :=
    if has_id poison_fit rows then None else Some (train_hash rows ys).
  Definition est_predict (m : Z) (rows : list (list Z)) : option (list Z) :=
    if has_id poison_pred rows then None
    else
      let out := map (fun r => (m * 131 + 7 * rid r + nth 1 r 0)%Z) rows in
      Some (if has_id poison_short rows then removelast out else out).
  Definition est_score (yt yp : list Z) : Z :=
    wsum 1 (map (fun ab => (3 * fst ab + snd ab)%Z) (combine yt yp)).

  Definition corr_cross_validate (k : N) (indices : list N) (x : list (list Z)) (y : list Z)
             (expected : option (list Z * list Z)) : bool :=
    option_eqb (fun a b => zlist_eqb (fst a) (fst b) && zlist_eqb (snd a) (snd b))
               (cross_validate est_fit est_predict est_score (N.to_nat k) (to_nats indices) x y) expected
    && match expected with Some _ => is_perm_b (N.of_nat (length x)) indices | None => true end.

  Definition corr_cross_val_predict (k : N) (indices : list N) (x : list (list Z)) (y : list Z)
             (expected : option (list Z)) : bool :=
    option_eqb zlist_eqb
               (cross_val_predict 0%Z est_fit est_predict (N.to_nat k) (to_nats indices) x y) expected
    && match expected with Some _ => is_perm_b (N.of_nat (length x)) indices | None => true end.
End Est.
