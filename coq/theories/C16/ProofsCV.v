(* C16 — proofs: cross_val_predict / cross_validate over an abstract estimator. *)
From Coq Require Import List Arith Bool Lia Permutation.
From SC Require Import C16.Model C16.Proofs C16.ProofsTTS.
Import ListNotations.

Section CVProofs.
  Context {R T M Sc : Type}.
  Variable zero : T.
  Variable fit : list R -> list T -> option M.
  Variable predict : M -> list R -> option (list T).
  Variable score : list T -> list T -> Sc.

  (* ---------- set_nth / scatter ---------- *)
  Lemma set_nth_spec (l : list T) i v l' : set_nth l i v = Some l' ->
    length l' = length l /\ nth_error l' i = Some v /\
    (forall j, j <> i -> nth_error l' j = nth_error l j).
  Proof.
    unfold set_nth. destruct (Nat.ltb_spec i (length l)) as [Hi|Hi]; [|discriminate].
    assert (Hsk : length (skipn (S i) l) = length l - S i) by apply skipn_length.
    assert (Hdec : l = firstn (S i) l ++ skipn (S i) l) by (symmetry; apply firstn_skipn).
    assert (Hf2 : length (firstn (S i) l) = S i) by (rewrite firstn_length; lia).
    remember (skipn (S i) l) as sk eqn:Esk. clear Esk.
    remember (firstn (S i) l) as f2 eqn:Ef2. clear Ef2.
    intros [= <-].
    assert (Hf : length (firstn i l) = i) by (rewrite firstn_length; lia).
    split; [|split].
    - rewrite app_length. cbn [length]. lia.
    - rewrite nth_error_app2 by lia. rewrite Hf, Nat.sub_diag. reflexivity.
    - intros j Hj. destruct (Nat.lt_ge_cases j i) as [Hlt|Hge].
      + rewrite nth_error_app1 by lia.
        rewrite <- (firstn_skipn i l) at 2. rewrite nth_error_app1 by lia. reflexivity.
      + rewrite nth_error_app2 by lia. rewrite Hf.
        replace (j - i) with (S (j - S i)) by lia. cbn [nth_error].
        rewrite Hdec. rewrite nth_error_app2 by lia. rewrite Hf2. reflexivity.
  Qed.

  Lemma scatter_spec : forall te (yh : list T) preds out,
    scatter yh te preds = Some out -> NoDup te ->
    length out = length yh /\
    (forall pos i, nth_error te pos = Some i ->
        i < length yh /\ exists v, nth_error preds pos = Some v /\ nth_error out i = Some v) /\
    (forall i, ~ In i te -> nth_error out i = nth_error yh i).
  Proof.
    induction te as [|idx te IH]; intros yh preds out H Hnd; cbn [scatter] in H.
    - inversion H; subst. split; [reflexivity|]. split; [intros [|pos] i Hp; discriminate|reflexivity].
    - destruct preds as [|v ps]; [discriminate|].
      destruct (set_nth yh idx v) as [yh1|] eqn:Hs; [|discriminate].
      inversion Hnd as [|? ? Hni Hnd']; subst.
      destruct (set_nth_spec _ _ _ _ Hs) as [Hl1 [Hv1 Ho1]].
      destruct (IH yh1 ps out H Hnd') as [Hl [Hin Hout]].
      split; [lia|]. split.
      + intros [|pos] i Hp; cbn [nth_error] in Hp.
        * inversion Hp; subst. split.
          -- unfold set_nth in Hs. destruct (Nat.ltb_spec i (length yh)); [assumption|discriminate].
          -- exists v. split; [reflexivity|]. rewrite (Hout i Hni). exact Hv1.
        * destruct (Hin pos i Hp) as [Hlt [w [Hw1 Hw2]]]. split; [lia|]. exists w. split; assumption.
      + intros i Hi. rewrite Hout by (intros Hc; apply Hi; right; exact Hc).
        apply Ho1. intros ->. apply Hi. left; reflexivity.
  Qed.

  (* what one fold computes: a model fitted on exactly the rows `tr`, asked to predict exactly the
     rows `te` *)
  Definition fold_run (x : list R) (y : list T) (tr te : list nat) (m : M) (preds : list T) : Prop :=
    exists train_x train_y test_x,
      take x tr = Some train_x /\ take y tr = Some train_y /\ take x te = Some test_x /\
      fit train_x train_y = Some m /\ predict m test_x = Some preds.

  Lemma cvp_fold_inv x y yh tr te out : cvp_fold fit predict x y yh (tr, te) = Some out ->
    exists m preds, fold_run x y tr te m preds /\ scatter yh te preds = Some out.
  Proof.
    unfold cvp_fold. destruct (take x tr) as [train_x|] eqn:H1; [|discriminate].
    destruct (take y tr) as [train_y|] eqn:H2; [|discriminate].
    destruct (take x te) as [test_x|] eqn:H3; [|discriminate].
    destruct (fit train_x train_y) as [m|] eqn:H4; [|discriminate].
    destruct (predict m test_x) as [preds|] eqn:H5; [|discriminate].
    intros H. exists m, preds. split; [|exact H]. exists train_x, train_y, test_x. auto.
  Qed.

  Lemma cvp_loop_spec x y : forall folds yh out,
    cvp_loop fit predict x y folds yh = Some out ->
    NoDup (concat (map snd folds)) ->
    length out = length yh /\
    (forall tr te, In (tr, te) folds ->
       exists m preds, fold_run x y tr te m preds /\
         forall pos i, nth_error te pos = Some i ->
           exists v, nth_error preds pos = Some v /\ nth_error out i = Some v) /\
    (forall i, ~ In i (concat (map snd folds)) -> nth_error out i = nth_error yh i).
  Proof.
    induction folds as [|[tr te] folds IH]; intros yh out H Hnd; cbn [cvp_loop] in H.
    - inversion H; subst. split; [reflexivity|]. split; [intros ? ? []|reflexivity].
    - destruct (cvp_fold fit predict x y yh (tr, te)) as [yh1|] eqn:Hf; [|discriminate].
      cbn [map snd concat] in Hnd. destruct (NoDup_app_inv _ _ Hnd) as [Hnd1 [Hnd2 Hdisj]].
      destruct (cvp_fold_inv _ _ _ _ _ _ Hf) as [m [preds [Hrun Hsc]]].
      destruct (scatter_spec _ _ _ _ Hsc Hnd1) as [Hl1 [Hin1 Hout1]].
      destruct (IH yh1 out H Hnd2) as [Hl [Hfolds Hout]].
      split; [lia|]. split.
      + intros tr' te' [Heq|Hin].
        * inversion Heq; subst. exists m, preds. split; [exact Hrun|].
          intros pos i Hp. destruct (Hin1 pos i Hp) as [_ [v [Hv1 Hv2]]].
          exists v. split; [exact Hv1|]. rewrite Hout; [exact Hv2|].
          apply Hdisj. eapply nth_error_In; exact Hp.
        * apply Hfolds. exact Hin.
      + intros i Hi. cbn [map snd concat] in Hi.
        rewrite Hout by (intros Hc; apply Hi; apply in_or_app; right; exact Hc).
        apply Hout1. intros Hc. apply Hi. apply in_or_app. left; exact Hc.
  Qed.

  (* no leakage + positions: every sample i is predicted, at position i of the result, by the
     model of the one fold whose test set holds i, and that model was fitted on rows not containing i *)
  Theorem cv_predict_no_leakage : forall n k indices (x : list R) (y : list T) out,
    2 <= k -> length x = n -> Permutation indices (seq 0 n) ->
    cross_val_predict zero fit predict k indices x y = Some out ->
    exists folds, kfold_split n k indices = Some folds /\
      length out = length y /\
      forall i, i < n ->
        exists tr te m preds pos,
          In (tr, te) folds /\ nth_error te pos = Some i /\ ~ In i tr /\
          fold_run x y tr te m preds /\
          exists v, nth_error preds pos = Some v /\ nth_error out i = Some v.
  Proof.
    intros n k indices x y out Hk Hx Hp H. unfold cross_val_predict in H. rewrite Hx in H.
    destruct (kfold_partition n k indices Hk Hp) as [folds [Hs [Hlen [Hperm [_ Hcompl]]]]].
    rewrite Hs in H. exists folds. split; [exact Hs|].
    assert (Hnd : NoDup (concat (map snd folds))).
    { apply (Permutation_NoDup (Permutation_sym Hperm)), seq_NoDup. }
    destruct (cvp_loop_spec x y folds _ out H Hnd) as [Hl [Hfolds _]].
    split; [rewrite Hl; apply repeat_length|].
    intros i Hi.
    assert (Hin : In i (concat (map snd folds))).
    { apply (Permutation_in _ (Permutation_sym Hperm)). apply in_seq. lia. }
    apply in_concat in Hin. destruct Hin as [te [Hte Hite]].
    apply in_map_iff in Hte. destruct Hte as [[tr te'] [Heq Hf]]. cbn [snd] in Heq. subst te'.
    destruct (In_nth_error _ _ Hite) as [pos Hpos].
    destruct (Hfolds tr te Hf) as [m [preds [Hrun Hv]]].
    exists tr, te, m, preds, pos. split; [exact Hf|]. split; [exact Hpos|]. split.
    - rewrite (Hcompl tr te Hf). rewrite filter_In. intros [_ Hc].
      apply mem_In in Hite. rewrite Hite in Hc. discriminate.
    - split; [exact Hrun|]. apply Hv. exact Hpos.
  Qed.

  (* ---------- cross_validate ---------- *)
  Definition fold_scores (x : list R) (y : list T) (tr te : list nat) (s_train s_test : Sc) : Prop :=
    exists train_x train_y test_x test_y m p_train p_test,
      take x tr = Some train_x /\ take y tr = Some train_y /\
      take x te = Some test_x /\ take y te = Some test_y /\
      fit train_x train_y = Some m /\
      predict m train_x = Some p_train /\ predict m test_x = Some p_test /\
      s_train = score train_y p_train /\ s_test = score test_y p_test.

  Lemma cv_fold_inv x y tr te s1 s2 : cv_fold fit predict score x y (tr, te) = Some (s1, s2) ->
    fold_scores x y tr te s1 s2.
  Proof.
    unfold cv_fold. destruct (take x tr) as [train_x|] eqn:H1; [|discriminate].
    destruct (take y tr) as [train_y|] eqn:H2; [|discriminate].
    destruct (take x te) as [test_x|] eqn:H3; [|discriminate].
    destruct (take y te) as [test_y|] eqn:H4; [|discriminate].
    destruct (fit train_x train_y) as [m|] eqn:H5; [|discriminate].
    destruct (predict m train_x) as [p1|] eqn:H6; [|discriminate].
    destruct (predict m test_x) as [p2|] eqn:H7; [|discriminate].
    intros H. inversion H; subst. exists train_x, train_y, test_x, test_y, m, p1, p2. repeat split; auto.
  Qed.

  Lemma cv_loop_spec x y : forall folds a b a' b',
    cv_loop fit predict score x y folds a b = Some (a', b') ->
    exists ts trs, a' = a ++ ts /\ b' = b ++ trs /\
      length ts = length folds /\ length trs = length folds /\
      forall j tr te, nth_error folds j = Some (tr, te) ->
        exists s_train s_test, nth_error trs j = Some s_train /\ nth_error ts j = Some s_test /\
          fold_scores x y tr te s_train s_test.
  Proof.
    induction folds as [|[tr te] folds IH]; intros a b a' b' H; cbn [cv_loop] in H.
    - inversion H; subst. exists [], []. rewrite !app_nil_r. repeat split; auto.
      intros [|j] ? ? Hj; discriminate.
    - destruct (cv_fold fit predict score x y (tr, te)) as [[s1 s2]|] eqn:Hf; [|discriminate].
      destruct (IH _ _ _ _ H) as [ts [trs [Ha [Hb [Hl1 [Hl2 Hall]]]]]].
      exists (s2 :: ts), (s1 :: trs). rewrite <- !app_assoc in *. cbn [app] in *.
      split; [exact Ha|]. split; [exact Hb|]. cbn [length]. split; [lia|]. split; [lia|].
      intros [|j] tr' te' Hj; cbn [nth_error] in *.
      + inversion Hj; subst. exists s1, s2. repeat split; auto. apply cv_fold_inv. exact Hf.
      + apply Hall. exact Hj.
  Qed.

  (* one model per fold, fitted on exactly the fold's training rows, scored on exactly its held-out
     rows; train and test rows of a fold are disjoint *)
  Theorem cv_scores_out_of_fold : forall n k indices (x : list R) (y : list T) test_score train_score,
    2 <= k -> length x = n -> Permutation indices (seq 0 n) ->
    cross_validate fit predict score k indices x y = Some (test_score, train_score) ->
    exists folds, kfold_split n k indices = Some folds /\
      length test_score = k /\ length train_score = k /\
      forall j tr te, nth_error folds j = Some (tr, te) ->
        (forall i, In i te -> ~ In i tr) /\
        exists s_train s_test,
          nth_error train_score j = Some s_train /\ nth_error test_score j = Some s_test /\
          fold_scores x y tr te s_train s_test.
  Proof.
    intros n k indices x y tsc trsc Hk Hx Hp H. unfold cross_validate in H. rewrite Hx in H.
    destruct (kfold_partition n k indices Hk Hp) as [folds [Hs [Hlen [_ [_ Hcompl]]]]].
    rewrite Hs in H. exists folds. split; [exact Hs|].
    destruct (cv_loop_spec x y folds [] [] _ _ H) as [ts [trs [Ha [Hb [Hl1 [Hl2 Hall]]]]]].
    cbn [app] in Ha, Hb. subst. split; [lia|]. split; [lia|].
    intros j tr te Hj. split; [|apply Hall; exact Hj].
    intros i Hi. rewrite (Hcompl tr te (nth_error_In _ _ Hj)). rewrite filter_In. intros [_ Hc].
    apply mem_In in Hi. rewrite Hi in Hc. discriminate.
  Qed.
End CVProofs.
