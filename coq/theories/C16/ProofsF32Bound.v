(* C16 — proofs: below 2^24 rows the single-precision test-set size never exceeds n. *)
From Coq Require Import ZArith Reals Lia Lra Bool List Permutation.
From Flocq Require Import Core IEEE754.BinarySingleNaN.
From SC Require Import C16.Model C16.F32 C16.Proofs C16.ProofsTTS.

Local Open Scope R_scope.

Local Notation fexp32 := (SpecFloat.fexp 24 128).
Local Notation rnd32 := (round radix2 fexp32 (round_mode mode_NE)).

Local Instance prec_gt_0_24 : Prec_gt_0 24 := eq_refl.
Local Instance prec_lt_emax_24_128 : Prec_lt_emax 24 128 := eq_refl.
Local Instance fexp32_valid : Valid_exp fexp32 := FLT_exp_valid (-149) 24.

Lemma fexp32_FLT : fexp32 = FLT_exp (-149) 24.
Proof. reflexivity. Qed.

(* every integer of magnitude at most 2^24 is a binary32 number *)
Lemma format32_int : forall n : Z, (Z.abs n <= 2 ^ 24)%Z -> generic_format radix2 fexp32 (IZR n).
Proof.
  intros n Hn. rewrite fexp32_FLT. apply generic_format_FLT.
  destruct (Z.eq_dec (Z.abs n) (2 ^ 24)) as [He|Hne].
  - exists (Float radix2 (n / 2) 1).
    + unfold F2R. cbn [Fnum Fexp bpow Z.pow_pos Pos.iter radix_val radix2]. 
      rewrite <- mult_IZR. f_equal.
      assert (n = 2 ^ 24 \/ n = - 2 ^ 24)%Z as [->| ->] by lia; reflexivity.
    + cbn [Fnum radix_val radix2].
      assert (n = 2 ^ 24 \/ n = - 2 ^ 24)%Z as [->| ->] by lia; vm_compute; reflexivity.
    + cbn [Fexp]. lia.
  - exists (Float radix2 n 0).
    + unfold F2R. cbn [Fnum Fexp bpow]. ring.
    + cbn [Fnum radix_val radix2]. lia.
    + cbn [Fexp]. lia.
Qed.

Lemma f32_of_Z_exact : forall n : Z, (0 <= n <= 2 ^ 24)%Z ->
  B2R (f32_of_Z n) = IZR n /\ is_finite (f32_of_Z n) = true.
Proof.
  intros n Hn. unfold f32_of_Z.
  pose proof (binary_normalize_correct 24 128 eq_refl eq_refl mode_NE n 0 false) as H.
  cbv zeta in H.
  assert (Hx : F2R (Float radix2 n 0) = IZR n) by (unfold F2R; cbn [Fnum Fexp bpow]; ring).
  rewrite Hx in H.
  rewrite (round_generic radix2 fexp32 _ (IZR n)) in H by (apply format32_int; lia).
  rewrite Rlt_bool_true in H.
  - destruct H as [H1 [H2 _]]. split; assumption.
  - rewrite Rabs_pos_eq by (apply IZR_le; lia).
    apply Rle_lt_trans with (IZR (2 ^ 24)); [apply IZR_le; lia|].
    change (bpow radix2 128) with (IZR (2 ^ 128)). apply IZR_lt. reflexivity.
Qed.

Lemma B2R_f32_one : B2R f32_one = 1.
Proof. exact (Bone_correct 24 128 eq_refl eq_refl). Qed.

(* the range test: a test_size that passes is NaN (both comparisons false) or a finite
   number in (0, 1] *)
Lemma ts_ok_inv : forall ts : f32, ts_ok_f32 ts = true ->
  is_nan ts = true \/ (is_finite ts = true /\ 0 < B2R ts <= 1).
Proof.
  intros ts H. destruct ts as [s|s| |s m e Hb].
  - destruct s; vm_compute in H; discriminate.
  - destruct s; vm_compute in H; discriminate.
  - left. reflexivity.
  - right. split; [reflexivity|].
    unfold ts_ok_f32 in H. apply negb_true_iff, orb_false_iff in H. destruct H as [H0 H1].
    rewrite Bleb_correct in H0 by reflexivity.
    rewrite Bltb_correct in H1 by reflexivity.
    rewrite B2R_f32_one in H1.
    change (B2R f32_zero) with 0 in H0.
    revert H0 H1. case Rle_bool_spec; [discriminate|]. case Rlt_bool_spec; [discriminate|].
    intros; lra.
Qed.

Lemma round_FIX0_trunc : forall r, round radix2 (FIX_exp 0) Ztrunc r = IZR (Ztrunc r).
Proof.
  intros r. unfold round, F2R, scaled_mantissa, cexp, FIX_exp. cbn [Fnum Fexp Z.opp bpow].
  rewrite !Rmult_1_r. reflexivity.
Qed.

Lemma rnd32_bounds : forall (n : Z) (t : R), (0 <= n <= 2 ^ 24)%Z -> 0 <= t <= 1 ->
  0 <= rnd32 (IZR n * t) <= IZR n.
Proof.
  intros n t Hn Ht.
  assert (H0n : 0 <= IZR n) by (apply IZR_le; lia).
  split.
  - rewrite <- (round_0 radix2 fexp32 (round_mode mode_NE)) at 1.
    apply round_le; [typeclasses eauto..|]. apply Rmult_le_pos; lra.
  - rewrite <- (round_generic radix2 fexp32 (round_mode mode_NE) (IZR n)) at 2
      by (apply format32_int; lia).
    apply round_le; [typeclasses eauto..|]. nra.
Qed.

(* the computed size is the integer part of the correctly rounded binary32 product *)
Lemma n_test_f32_Z_spec : forall (n : Z) (ts : f32), (0 <= n <= 2 ^ 24)%Z -> ts_ok_f32 ts = true ->
  n_test_f32_Z n ts = Zfloor (rnd32 (IZR n * B2R ts)) /\ 0 <= B2R ts <= 1.
Proof.
  intros n ts Hn Hok. destruct (ts_ok_inv ts Hok) as [Hnan|[Hfin Hts]].
  - destruct ts; try discriminate. cbn [B2R]. rewrite Rmult_0_r, round_0 by typeclasses eauto.
    rewrite Zfloor_IZR. split; [|lra].
    unfold n_test_f32_Z, f32_mul. destruct (f32_of_Z n); reflexivity.
  - split; [|lra].
    destruct (f32_of_Z_exact n Hn) as [HnR Hnfin].
    pose proof (rnd32_bounds n (B2R ts) Hn ltac:(lra)) as Hb.
    pose proof (Bmult_correct 24 128 eq_refl eq_refl mode_NE (f32_of_Z n) ts) as H.
    rewrite HnR in H. rewrite Rlt_bool_true in H.
    2:{ rewrite Rabs_pos_eq by apply Hb. apply Rle_lt_trans with (IZR (2 ^ 24)).
        - apply Rle_trans with (IZR n); [apply Hb|apply IZR_le; lia].
        - change (bpow radix2 128) with (IZR (2 ^ 128)). apply IZR_lt. reflexivity. }
    destruct H as [HR [HF _]]. rewrite Hnfin, Hfin in HF. cbn [andb] in HF.
    unfold n_test_f32_Z. fold (f32_mul (f32_of_Z n) ts) in HR, HF.
    set (prod := f32_mul (f32_of_Z n) ts) in *.
    assert (Ht : Btrunc prod = Zfloor (rnd32 (IZR n * B2R ts))).
    { apply eq_IZR. rewrite (Btrunc_correct 24 128 eq_refl), round_FIX0_trunc, HR.
      rewrite Ztrunc_floor by apply Hb. reflexivity. }
    assert (H0 : (0 <= Zfloor (rnd32 (IZR n * B2R ts)) <= 2 ^ 24)%Z).
    { split; [apply Zfloor_lub; apply Hb|].
      apply le_IZR. apply Rle_trans with (1 := Zfloor_lb _).
      apply Rle_trans with (IZR n); [apply Hb|apply IZR_le; lia]. }
    unfold f32_as_usize. destruct prod as [s|s| |s m e Hbd]; try discriminate; rewrite Ht; lia.
Qed.

Lemma n_test_f32_Z_le : forall (n : Z) (ts : f32), (0 <= n <= 2 ^ 24)%Z -> ts_ok_f32 ts = true ->
  (0 <= n_test_f32_Z n ts <= n)%Z.
Proof.
  intros n ts Hn Hok. destruct (n_test_f32_Z_spec n ts Hn Hok) as [-> Ht].
  pose proof (rnd32_bounds n (B2R ts) Hn Ht) as Hb. split.
  - apply Zfloor_lub, Hb.
  - apply le_IZR. apply Rle_trans with (1 := Zfloor_lb _). apply Hb.
Qed.

Theorem tts_size_within_n : forall (n : nat) (bits : Z), (Z.of_nat n <= 2 ^ 24)%Z ->
  ts_ok_f32 (f32_of_bits bits) = true -> (n_test_f32 n (f32_of_bits bits) <= n)%nat.
Proof.
  intros n bits Hn Hok. unfold n_test_f32.
  pose proof (n_test_f32_Z_le (Z.of_nat n) _ ltac:(lia) Hok). lia.
Qed.

(* below 2^24 rows train_test_split (binary32 model) returns exactly when the lengths agree,
   test_size passes the range test and the computed size is at least 1: the start > end panic of
   `indices[n_test..n]` (finding tts-size-overshoot-above-2p24) is impossible *)
Theorem tts_f32_returns_iff : forall {R T} (x : list R) (y : list T) bits indices,
  Permutation indices (seq 0 (length y)) -> (Z.of_nat (length y) <= 2 ^ 24)%Z ->
  ((exists r, train_test_split_f32 x y bits indices = Some r) <->
   (length x = length y /\ ts_ok_f32 (f32_of_bits bits) = true /\
    (1 <= n_test_f32 (length y) (f32_of_bits bits))%nat)).
Proof.
  intros R T x y bits indices Hp Hn. unfold train_test_split_f32. split.
  - intros [r H]. destruct (ts_ok_f32 (f32_of_bits bits)) eqn:Hok.
    + destruct (tts_some_inv _ _ _ _ _ _ H) as [_ [Hxy Hnt]]. repeat split; [exact Hxy|lia].
    + destruct (tts_some_inv _ _ _ _ _ _ H) as [Hc _]. discriminate.
  - intros [Hxy [Hok H1]]. rewrite Hok.
    pose proof (tts_size_within_n (length y) bits Hn Hok) as Hle.
    destruct x as [|dx x']; [destruct y; cbn [length] in *; [lia|discriminate]|].
    destruct y as [|dy y']; [discriminate|].
    destruct (tts_permutation dx dy _ _ _ indices Hxy Hp (conj H1 Hle))
      as [te [tr [a [b [c [d [Heq _]]]]]]].
    eexists. exact Heq.
Qed.

(* ---------- the single-precision size against the exact product ---------- *)
From Flocq Require Import Relative.

(* With p = n * test_size the exact real product: the computed size lies between floor(p) and
   ceil(p) (so it is exact when p is an integer and never off by more than one), and it can only
   be floor(p)+1 when p is within a relative 2^-24 of that integer (the product rounded up to it). *)
Theorem n_test_f32_vs_exact : forall (n : Z) (ts : f32), (0 <= n <= 2 ^ 24)%Z -> ts_ok_f32 ts = true ->
  let p := IZR n * B2R ts in
  let nt := n_test_f32_Z n ts in
  (Zfloor p <= nt <= Zceil p)%Z /\ IZR nt - p <= IZR nt * bpow radix2 (-24).
Proof.
  intros n ts Hn Hok p nt. destruct (n_test_f32_Z_spec n ts Hn Hok) as [Hnt Ht].
  fold p nt in Hnt. set (r := rnd32 p) in *.
  assert (H0n : 0 <= IZR n) by (apply IZR_le; lia).
  assert (Hp : 0 <= p <= IZR n) by (unfold p; split; [apply Rmult_le_pos; lra|nra]).
  assert (Hfl : (0 <= Zfloor p <= n)%Z).
  { split; [apply Zfloor_lub, Hp|]. apply le_IZR. apply Rle_trans with (1 := Zfloor_lb _). apply Hp. }
  assert (Hce : (0 <= Zceil p <= n)%Z).
  { split; [|apply Zceil_glb, Hp]. apply le_IZR. apply Rle_trans with (2 := Zceil_ub _). apply Hp. }
  assert (Hlo : IZR (Zfloor p) <= r).
  { rewrite <- (round_generic radix2 fexp32 (round_mode mode_NE) (IZR (Zfloor p)))
      by (apply format32_int; lia).
    apply round_le; [typeclasses eauto..|]. apply Zfloor_lb. }
  assert (Hhi : r <= IZR (Zceil p)).
  { rewrite <- (round_generic radix2 fexp32 (round_mode mode_NE) (IZR (Zceil p)))
      by (apply format32_int; lia).
    apply round_le; [typeclasses eauto..|]. apply Zceil_ub. }
  assert (Hb : (Zfloor p <= nt <= Zceil p)%Z).
  { rewrite Hnt. split; [apply Zfloor_lub, Hlo|].
    apply le_IZR. apply Rle_trans with (1 := Zfloor_lb _). exact Hhi. }
  split; [exact Hb|].
  destruct (Rle_or_lt (IZR nt) p) as [Hle|Hgt].
  - assert (0 <= IZR nt) by (apply IZR_le; lia).
    pose proof (bpow_ge_0 radix2 (-24)). nra.
  - (* nt > p: the product was rounded up to the integer nt *)
    assert (Hnc : nt = Zceil p).
    { destruct (Req_dec (IZR (Zfloor p)) p) as [He|Hne].
      - exfalso. rewrite <- He in Hgt. apply lt_IZR in Hgt.
        rewrite <- He, Zceil_IZR in Hb. lia.
      - rewrite (Zceil_floor_neq _ Hne) in *. 
        assert (Zfloor p < nt)%Z; [|lia]. apply lt_IZR.
        apply Rle_lt_trans with (2 := Hgt). apply Zfloor_lb. }
    assert (Hr : r = IZR nt).
    { apply Rle_antisym; [rewrite Hnc; exact Hhi|]. rewrite Hnt. apply Zfloor_lb. }
    assert (H1 : 1 <= IZR nt).
    { apply IZR_le. assert (0 < nt)%Z; [|lia]. apply lt_IZR. lra. }
    assert (Hnorm : bpow radix2 (-149 + 24 - 1) <= Rabs p).
    { rewrite Rabs_pos_eq by apply Hp. destruct (Rle_or_lt (bpow radix2 (-149 + 24 - 1)) p) as [|Hsm]; [assumption|].
      exfalso. assert (r <= bpow radix2 (-149 + 24 - 1)).
      { rewrite <- (round_generic radix2 fexp32 (round_mode mode_NE) (bpow radix2 (-149 + 24 - 1))).
        - apply round_le; [typeclasses eauto..|]. lra.
        - apply generic_format_bpow. vm_compute. discriminate. }
      assert (bpow radix2 (-149 + 24 - 1) < 1); [|lra].
      change 1 with (bpow radix2 0). apply bpow_lt. reflexivity. }
    pose proof (relative_error_N_FLT_round radix2 (-149) 24 eq_refl (fun x => negb (Z.even x)) p Hnorm) as He.
    change (round radix2 (FLT_exp (-149) 24) (Znearest (fun x => negb (Z.even x))) p) with r in He.
    rewrite Hr in He. rewrite (Rabs_pos_eq (IZR nt)) in He by lra.
    rewrite Rabs_pos_eq in He by lra.
    replace (/ 2 * bpow radix2 (- (24) + 1)) with (bpow radix2 (-24)) in He.
    + lra.
    + change (- (24) + 1)%Z with (-24 + 1)%Z. rewrite bpow_plus. cbn [bpow Z.pow_pos Pos.iter radix_val radix2 Z.mul Pos.mul]. 
      field.
Qed.

Lemma bpow_m24 : bpow radix2 (-24) = / IZR (2 ^ 24).
Proof. change (-24)%Z with (- (24))%Z. rewrite bpow_opp, <- IZR_Zpower by lia. reflexivity. Qed.

(* the same for the `nat` size of the model, the tolerance written without bpow *)
Theorem tts_size_vs_exact_product : forall (n : nat) (bits : Z), (Z.of_nat n <= 2 ^ 24)%Z ->
  ts_ok_f32 (f32_of_bits bits) = true ->
  let p := IZR (Z.of_nat n) * B2R (f32_of_bits bits) in
  let nt := Z.of_nat (n_test_f32 n (f32_of_bits bits)) in
  (Zfloor p <= nt <= Zceil p)%Z /\ (IZR nt - p) * IZR (2 ^ 24) <= IZR nt.
Proof.
  intros n bits Hn Hok p nt.
  assert (Hn' : (0 <= Z.of_nat n <= 2 ^ 24)%Z) by lia.
  pose proof (n_test_f32_Z_le _ _ Hn' Hok) as Hle.
  assert (Hnt : nt = n_test_f32_Z (Z.of_nat n) (f32_of_bits bits)).
  { unfold nt, n_test_f32. apply Z2Nat.id. lia. }
  destruct (n_test_f32_vs_exact _ _ Hn' Hok) as [Hb He]. fold p in Hb, He. rewrite <- Hnt in Hb, He.
  split; [exact Hb|]. rewrite bpow_m24 in He.
  assert (H24 : 0 < IZR (2 ^ 24)) by (apply IZR_lt; reflexivity).
  apply Rmult_le_reg_r with (/ IZR (2 ^ 24)); [apply Rinv_0_lt_compat, H24|].
  rewrite Rmult_assoc, Rinv_r, Rmult_1_r by lra. exact He.
Qed.

(* the upper bound is attained: 10 * 0.7f32 = 6.99999988..., the binary32 product rounds to 7.0 *)
Theorem tts_size_rounds_up_witness :
  exists (n : nat) (bits : Z), (Z.of_nat n <= 2 ^ 24)%Z /\ ts_ok_f32 (f32_of_bits bits) = true /\
    Z.of_nat (n_test_f32 n (f32_of_bits bits)) =
    (Zfloor (IZR (Z.of_nat n) * B2R (f32_of_bits bits)) + 1)%Z.
Proof.
  exists 10%nat, 0x3F333333%Z. split; [vm_compute; discriminate|]. split; [vm_compute; reflexivity|].
  assert (Hnt : n_test_f32 10 (f32_of_bits 0x3F333333) = 7%nat) by (vm_compute; reflexivity).
  rewrite Hnt.
  assert (HB : B2SF (f32_of_bits 0x3F333333) = SpecFloat.S754_finite false 11744051 (-24))
    by (vm_compute; reflexivity).
  rewrite <- (SF2R_B2SF 24 128), HB.
  unfold SF2R, F2R. cbn [Fnum Fexp cond_Zopp]. rewrite bpow_m24.
  rewrite (Zfloor_imp 6); [reflexivity|].
  change (Z.of_nat 10) with 10%Z. change (6 + 1)%Z with 7%Z. change (2 ^ 24)%Z with 16777216%Z.
  split; [apply Rmult_le_reg_r with 16777216|apply Rmult_lt_reg_r with 16777216]; try lra;
    rewrite !Rmult_assoc, (Rmult_assoc _ (/ _)), Rinv_l by lra; lra.
Qed.
