(* C16 — executable model of smartcore's data splitting
   (src/model_selection/kfold.rs, src/model_selection/mod.rs, `take` of src/linalg/mod.rs).
   Definitions only; proofs are in Proofs*.v so that the model still runs when a proof breaks.

   Transliteration notes
   - `indices` is the index vector `(0..n).collect()` AFTER the optional `shuffle(&mut thread_rng())`.
     The thread RNG is unseeded, so the model takes the shuffled vector as an argument: the
     unshuffled variants are the instance `indices = seq 0 n`, theorems quantify over every
     rearrangement of `seq 0 n`.  In Rust `indices` is by construction a rearrangement of 0..n-1;
     on other arguments (unreachable) out-of-range mask writes are skipped instead of panicking.
   - a matrix is the list of its rows (only `shape().0`, `take(_, 0)` are used), a vector a list;
   - panics and `Err(..)` are `None`;
   - `test_indices` is private and only reached through `split`, which rejects n_splits < 2
     first, so the division by n_splits = 0 is unreachable (Coq's n / 0 = 0 is never observed);
   - the test-set size of `train_test_split`, `((n as f32) * test_size) as usize`, is an argument
     here (`n_test`, together with the outcome `ts_ok` of the range test on `test_size`);
     F32.v computes both with Flocq's binary32 and defines the closed function. *)
From Coq Require Import List Arith Bool.
Import ListNotations.

Fixpoint all_some {A} (l : list (option A)) : option (list A) :=
  match l with
  | [] => Some []
  | None :: _ => None
  | Some a :: t => option_map (cons a) (all_some t)
  end.

(* ---------- KFold::test_indices ---------- *)
(* vec![n / k; k], then `+= 1` on the first n % k entries *)
Definition fold_sizes (n k : nat) : list nat :=
  let base := repeat (n / k) k in
  map S (firstn (n mod k) base) ++ skipn (n mod k) base.

(* the loop `for fold_size in fold_sizes.drain(..) { stop = current + fold_size;
   push(indices[current..stop]); current = stop }` *)
Fixpoint slices (indices : list nat) (current : nat) (sizes : list nat) : list (list nat) :=
  match sizes with
  | [] => []
  | s :: t =>
    let stop := current + s in
    firstn (stop - current) (skipn current indices) :: slices indices stop t
  end.

Definition test_indices (n k : nat) (indices : list nat) : list (list nat) :=
  slices indices 0 (fold_sizes n k).

(* ---------- KFold::test_masks ---------- *)
Definition set_true (mask : list bool) (i : nat) : list bool :=
  if i <? length mask then firstn i mask ++ true :: skipn (S i) mask else mask.
Definition mask_of (n : nat) (test_index : list nat) : list bool :=
  fold_left set_true test_index (repeat false n).
Definition test_masks (n k : nat) (indices : list nat) : list (list bool) :=
  map (mask_of n) (test_indices n k indices).

(* ---------- KFoldIter ---------- *)
Record kfold_iter := { it_indices : list nat; it_masks : list (list bool) }.

(* `enumerate().filter(|(idx,_)| pred(test_index[idx])).map(|(idx,_)| idx)` *)
Definition enum_filter (f : nat -> bool) (indices : list nat) : list nat :=
  map fst (filter (fun p => f (fst p)) (combine (seq 0 (length indices)) indices)).

(* `self.test_indices.pop().map(..)` : pop takes the LAST mask *)
Definition iter_next (it : kfold_iter) : option ((list nat * list nat) * kfold_iter) :=
  match rev (it_masks it) with
  | [] => None
  | m :: rest =>
    let train := enum_filter (fun idx => negb (nth idx m false)) (it_indices it) in
    let test := enum_filter (fun idx => nth idx m false) (it_indices it) in
    Some ((train, test), {| it_indices := it_indices it; it_masks := rev rest |})
  end.

(* BaseKFold::split : panics for n_splits < 2; masks are reversed so that pop yields fold 0 first *)
Definition split (n k : nat) (indices : list nat) : option kfold_iter :=
  if k <? 2 then None
  else Some {| it_indices := seq 0 n; it_masks := rev (test_masks n k indices) |}.

(* `for (train_idx, test_idx) in cv.split(x)` : run the iterator to exhaustion *)
Fixpoint iter_collect (fuel : nat) (it : kfold_iter) : list (list nat * list nat) :=
  match fuel with
  | 0 => []
  | S f =>
    match iter_next it with
    | None => []
    | Some (p, it') => p :: iter_collect f it'
    end
  end.

Definition kfold_split (n k : nat) (indices : list nat) : option (list (list nat * list nat)) :=
  option_map (fun it => iter_collect (S (length (it_masks it))) it) (split n k indices).

(* ---------- BaseVector::take / BaseMatrix::take(_, 0) : out-of-range index panics ---------- *)
Definition take {A} (l : list A) (index : list nat) : option (list A) :=
  all_some (map (nth_error l) index).

(* ---------- train_test_split ---------- *)
Section TTS.
  Context {R T : Type}.
  (* ts_ok = !(test_size <= 0 || test_size > 1); n_test = ((n as f32) * test_size) as usize *)
  Definition train_test_split (x : list R) (y : list T) (ts_ok : bool) (n_test : nat)
             (indices : list nat) : option (list R * list R * list T * list T) :=
    if negb (length x =? length y) then None
    else if negb ts_ok then None
    else
      let n := length y in
      if n_test <? 1 then None
      else if n <? n_test then None           (* indices[n_test..n] : start > end panics *)
      else
        let tr := skipn n_test (firstn n indices) in
        let te := firstn n_test indices in
        match take x tr, take x te, take y tr, take y te with
        | Some x_train, Some x_test, Some y_train, Some y_test =>
          Some (x_train, x_test, y_train, y_test)
        | _, _, _, _ => None
        end.
End TTS.

(* ---------- cross_validate / cross_val_predict over an abstract estimator ---------- *)
Section CV.
  Context {R T M Sc : Type}.
  Variable zero : T.
  Variable fit : list R -> list T -> option M.            (* Err -> None *)
  Variable predict : M -> list R -> option (list T).      (* Err -> None *)
  Variable score : list T -> list T -> Sc.

  (* one iteration of cross_validate's loop: (train score, test score) *)
  Definition cv_fold (x : list R) (y : list T) (fold : list nat * list nat) : option (Sc * Sc) :=
    let '(train_idx, test_idx) := fold in
    match take x train_idx, take y train_idx, take x test_idx, take y test_idx with
    | Some train_x, Some train_y, Some test_x, Some test_y =>
      match fit train_x train_y with
      | None => None
      | Some est =>
        match predict est train_x with
        | None => None
        | Some p_train =>
          match predict est test_x with
          | None => None
          | Some p_test => Some (score train_y p_train, score test_y p_test)
          end
        end
      end
    | _, _, _, _ => None
    end.

  Fixpoint cv_loop (x : list R) (y : list T) (folds : list (list nat * list nat))
           (test_score train_score : list Sc) : option (list Sc * list Sc) :=
    match folds with
    | [] => Some (test_score, train_score)
    | f :: rest =>
      match cv_fold x y f with
      | None => None
      | Some (tr, te) => cv_loop x y rest (test_score ++ [te]) (train_score ++ [tr])
      end
    end.

  (* returns (test_score, train_score) *)
  Definition cross_validate (k : nat) (indices : list nat) (x : list R) (y : list T)
    : option (list Sc * list Sc) :=
    match kfold_split (length x) k indices with
    | None => None
    | Some folds => cv_loop x y folds [] []
    end.

  Definition set_nth (l : list T) (i : nat) (v : T) : option (list T) :=
    if i <? length l then Some (firstn i l ++ v :: skipn (S i) l) else None.

  (* `for (i, &idx) in test_idx.iter().enumerate() { y_hat.set(idx, y_test_hat.get(i)) }` :
     walking test_idx and the prediction vector in step; a too short prediction vector panics *)
  Fixpoint scatter (y_hat : list T) (test_idx : list nat) (preds : list T) : option (list T) :=
    match test_idx with
    | [] => Some y_hat
    | idx :: t =>
      match preds with
      | [] => None
      | v :: ps =>
        match set_nth y_hat idx v with
        | None => None
        | Some yh => scatter yh t ps
        end
      end
    end.

  Definition cvp_fold (x : list R) (y : list T) (y_hat : list T) (fold : list nat * list nat)
    : option (list T) :=
    let '(train_idx, test_idx) := fold in
    match take x train_idx, take y train_idx, take x test_idx with
    | Some train_x, Some train_y, Some test_x =>
      match fit train_x train_y with
      | None => None
      | Some est =>
        match predict est test_x with
        | None => None
        | Some y_test_hat => scatter y_hat test_idx y_test_hat
        end
      end
    | _, _, _ => None
    end.

  Fixpoint cvp_loop (x : list R) (y : list T) (folds : list (list nat * list nat)) (y_hat : list T)
    : option (list T) :=
    match folds with
    | [] => Some y_hat
    | f :: rest =>
      match cvp_fold x y y_hat f with
      | None => None
      | Some yh => cvp_loop x y rest yh
      end
    end.

  Definition cross_val_predict (k : nat) (indices : list nat) (x : list R) (y : list T)
    : option (list T) :=
    match kfold_split (length x) k indices with
    | None => None
    | Some folds => cvp_loop x y folds (repeat zero (length y))
    end.
End CV.
