(* C16 — the single-precision arithmetic of train_test_split, through Flocq's binary32:
     if test_size <= 0. || test_size > 1.0 { panic }
     let n_test = ((n as f32) * test_size) as usize;
   `test_size` is given by its 32 bit pattern.  Executable (vm_compute), no proofs here. *)
From Coq Require Import ZArith List Bool.
From Flocq Require Import IEEE754.BinarySingleNaN IEEE754.Binary IEEE754.Bits.
From SC Require Import C16.Model.

Definition f32 := BinarySingleNaN.binary_float 24 128.
Definition f32_of_bits (b : Z) : f32 := B2BSN 24 128 (b32_of_bits b).
(* `n as f32` : round to nearest, ties to even *)
Definition f32_of_Z (n : Z) : f32 :=
  BinarySingleNaN.binary_normalize 24 128 (refl_equal _) (refl_equal _) mode_NE n 0 false.
Definition f32_mul (a b : f32) : f32 :=
  @BinarySingleNaN.Bmult 24 128 (refl_equal _) (refl_equal _) mode_NE a b.
(* `as usize` (64 bit): truncation toward zero, saturating, NaN -> 0 *)
Definition f32_as_usize (x : f32) : Z :=
  match x with
  | BinarySingleNaN.B754_infinity false => 18446744073709551615%Z
  | _ => Z.min 18446744073709551615 (Z.max 0 (BinarySingleNaN.Btrunc x))
  end.
Definition f32_zero : f32 := f32_of_Z 0.
Definition f32_one : f32 := f32_of_Z 1.

(* !(test_size <= 0. || test_size > 1.0) ; comparisons with NaN are false *)
Definition ts_ok_f32 (ts : f32) : bool :=
  negb (BinarySingleNaN.Bleb ts f32_zero || BinarySingleNaN.Bltb f32_one ts).

Definition n_test_f32_Z (n : Z) (ts : f32) : Z := f32_as_usize (f32_mul (f32_of_Z n) ts).
Definition n_test_f32 (n : nat) (ts : f32) : nat := Z.to_nat (n_test_f32_Z (Z.of_nat n) ts).

Definition train_test_split_f32 {R T} (x : list R) (y : list T) (ts_bits : Z) (indices : list nat) :=
  let ts := f32_of_bits ts_bits in
  (* the size is only computed after the range test passed (vm_compute is call-by-value, and
     n * inf saturates to 2^64-1, which must never become a unary `nat`) *)
  if ts_ok_f32 ts then train_test_split x y true (n_test_f32 (length y) ts) indices
  else train_test_split x y false 0 indices.
