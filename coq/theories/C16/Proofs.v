(* C16 — proofs about the k-fold model: fold sizes, slices, masks, the iterator, and the
   partition theorem (for every n, every k >= 2 and every rearrangement of 0..n-1). *)
From Coq Require Import List Arith Bool Lia Permutation.
From SC Require Import C16.Model.
Import ListNotations.

Definition mem (i : nat) (l : list nat) : bool := existsb (Nat.eqb i) l.

Lemma mem_In i l : mem i l = true <-> In i l.
Proof.
  unfold mem. rewrite existsb_exists. split.
  - intros [x [Hx He]]. apply Nat.eqb_eq in He. subst. exact Hx.
  - intros H. exists i. split; [exact H|apply Nat.eqb_refl].
Qed.

Lemma mem_false_In i l : mem i l = false <-> ~ In i l.
Proof. rewrite <- mem_In. destruct (mem i l); split; congruence. Qed.

(* ---------- list_sum / firstn / skipn helpers ---------- *)
Lemma list_sum_cons a l : list_sum (a :: l) = a + list_sum l.
Proof. reflexivity. Qed.

Lemma list_sum_repeat a k : list_sum (repeat a k) = k * a.
Proof. induction k as [|k IH]; cbn [repeat]; [reflexivity|]. rewrite list_sum_cons, IH. lia. Qed.

Lemma list_sum_map_S l : list_sum (map S l) = length l + list_sum l.
Proof.
  induction l as [|a l IH]; cbn [map length]; [reflexivity|]. rewrite !list_sum_cons, IH. lia.
Qed.

Lemma firstn_plus {A} (l : list A) : forall a b, firstn (a + b) l = firstn a l ++ firstn b (skipn a l).
Proof.
  induction l as [|x l IH]; intros a b.
  - rewrite !firstn_nil, skipn_nil, firstn_nil. reflexivity.
  - destruct a as [|a]; cbn [plus firstn skipn app]; [reflexivity|]. rewrite IH. reflexivity.
Qed.

Lemma skipn_plus {A} (l : list A) : forall a b, skipn (a + b) l = skipn b (skipn a l).
Proof.
  induction l as [|x l IH]; intros a b.
  - rewrite !skipn_nil. reflexivity.
  - destruct a as [|a]; cbn [plus skipn]; [reflexivity|]. apply IH.
Qed.

Lemma nth_firstn_lt {A} (d : A) : forall (l : list A) n i, i < n -> nth i (firstn n l) d = nth i l d.
Proof.
  induction l as [|x l IH]; intros n i Hi.
  - rewrite firstn_nil. reflexivity.
  - destruct n as [|n]; [lia|]. destruct i as [|i]; cbn [firstn nth]; [reflexivity|]. apply IH. lia.
Qed.

Lemma nth_skipn_add {A} (d : A) : forall (l : list A) n i, nth i (skipn n l) d = nth (n + i) l d.
Proof.
  induction l as [|x l IH]; intros n i.
  - rewrite skipn_nil. destruct i, n; reflexivity.
  - destruct n as [|n]; cbn [skipn plus nth]; [reflexivity|]. apply IH.
Qed.

(* ---------- fold_sizes ---------- *)
Lemma fold_sizes_length n k : length (fold_sizes n k) = k.
Proof.
  unfold fold_sizes. rewrite app_length, map_length, firstn_length, skipn_length, repeat_length. lia.
Qed.

Lemma fold_sizes_sum n k : 0 < k -> list_sum (fold_sizes n k) = n.
Proof.
  intros Hk. unfold fold_sizes. rewrite list_sum_app, list_sum_map_S, firstn_length, repeat_length.
  rewrite <- Nat.add_assoc, <- list_sum_app, firstn_skipn, list_sum_repeat.
  assert (Hm : n mod k < k) by (apply Nat.mod_upper_bound; lia).
  rewrite Nat.min_l by lia. rewrite (Nat.div_mod n k) at 3 by lia. lia.
Qed.

Lemma nth_repeat_lt {A} (x d : A) : forall n j, j < n -> nth j (repeat x n) d = x.
Proof. induction n as [|n IH]; intros j Hj; [lia|]. destruct j; cbn; [reflexivity|apply IH; lia]. Qed.

Lemma fold_sizes_nth n k j : 0 < k -> j < k ->
  nth j (fold_sizes n k) 0 = n / k + (if j <? n mod k then 1 else 0).
Proof.
  intros Hk Hj. unfold fold_sizes.
  assert (Hm : n mod k < k) by (apply Nat.mod_upper_bound; lia).
  assert (Hl : length (map S (firstn (n mod k) (repeat (n / k) k))) = n mod k).
  { rewrite map_length, firstn_length, repeat_length. lia. }
  destruct (Nat.ltb_spec j (n mod k)) as [Hlt|Hge].
  - rewrite app_nth1 by lia.
    rewrite (nth_indep _ 0 (S 0)) by lia. rewrite map_nth.
    rewrite nth_firstn_lt by lia.
    rewrite nth_repeat_lt by lia. lia.
  - rewrite app_nth2 by lia. rewrite Hl. rewrite nth_skipn_add.
    rewrite nth_repeat_lt by lia. lia.
Qed.

Lemma fold_sizes_In n k s : 0 < k -> In s (fold_sizes n k) -> s = n / k \/ s = S (n / k).
Proof.
  intros Hk Hin. destruct (In_nth _ _ 0 Hin) as [j [Hj Hn]]. rewrite fold_sizes_length in Hj.
  rewrite fold_sizes_nth in Hn by lia. destruct (j <? n mod k); lia.
Qed.

(* ---------- slices ---------- *)
Lemma slices_length indices : forall sizes c, length (slices indices c sizes) = length sizes.
Proof. induction sizes as [|s t IH]; intros c; cbn [slices length]; [reflexivity|]. rewrite IH. reflexivity. Qed.

Lemma slices_concat indices : forall sizes c,
  concat (slices indices c sizes) = firstn (list_sum sizes) (skipn c indices).
Proof.
  induction sizes as [|s t IH]; intros c; cbn [slices concat]; [reflexivity|].
  rewrite list_sum_cons, IH. replace (c + s - c) with s by lia.
  rewrite firstn_plus, skipn_plus. reflexivity.
Qed.

Lemma slices_lengths indices : forall sizes c, c + list_sum sizes <= length indices ->
  map (@length nat) (slices indices c sizes) = sizes.
Proof.
  induction sizes as [|s t IH]; intros c Hc; cbn [slices map]; [reflexivity|].
  rewrite list_sum_cons in Hc. rewrite IH by lia. rewrite firstn_length, skipn_length. f_equal. lia.
Qed.

Lemma slices_nth indices : forall sizes c j, j < length sizes ->
  nth j (slices indices c sizes) [] =
  firstn (nth j sizes 0) (skipn (c + list_sum (firstn j sizes)) indices).
Proof.
  induction sizes as [|s t IH]; intros c j Hj; cbn [length] in Hj; [lia|].
  destruct j as [|j]; cbn [slices nth firstn].
  - replace (c + s - c) with s by lia. cbn [list_sum fold_right]. rewrite Nat.add_0_r. reflexivity.
  - rewrite IH by lia. rewrite list_sum_cons, Nat.add_assoc. reflexivity.
Qed.

(* ---------- masks ---------- *)
Lemma set_true_length m i : length (set_true m i) = length m.
Proof.
  unfold set_true. destruct (Nat.ltb_spec i (length m)) as [H|H]; [|reflexivity].
  rewrite app_length. cbn [length]. rewrite firstn_length, skipn_length. lia.
Qed.

Lemma set_true_nth m i j :
  nth j (set_true m i) false = nth j m false || ((j =? i) && (i <? length m)).
Proof.
  unfold set_true. destruct (Nat.ltb_spec i (length m)) as [H|H].
  - rewrite andb_true_r. destruct (Nat.eqb_spec j i) as [->|Hne].
    + rewrite app_nth2 by (rewrite firstn_length; lia). rewrite firstn_length.
      replace (i - Nat.min i (length m)) with 0 by lia. cbn. rewrite orb_true_r. reflexivity.
    + rewrite orb_false_r. destruct (Nat.lt_ge_cases j i) as [Hlt|Hge].
      * rewrite app_nth1 by (rewrite firstn_length; lia). rewrite nth_firstn_lt by lia. reflexivity.
      * rewrite app_nth2 by (rewrite firstn_length; lia). rewrite firstn_length.
        replace (j - Nat.min i (length m)) with (S (j - S i)) by lia. cbn [nth].
        rewrite nth_skipn_add. f_equal. lia.
  - rewrite andb_false_r, orb_false_r. reflexivity.
Qed.

Lemma fold_set_true_length te : forall m, length (fold_left set_true te m) = length m.
Proof. induction te as [|i te IH]; intros m; cbn [fold_left]; [reflexivity|]. rewrite IH. apply set_true_length. Qed.

Lemma fold_set_true_nth te : forall m j,
  nth j (fold_left set_true te m) false =
  nth j m false || existsb (fun i => (j =? i) && (i <? length m)) te.
Proof.
  induction te as [|i te IH]; intros m j; cbn [fold_left existsb].
  - rewrite orb_false_r. reflexivity.
  - rewrite IH, set_true_nth, set_true_length. rewrite orb_assoc. reflexivity.
Qed.

Lemma mask_of_length n te : length (mask_of n te) = n.
Proof. unfold mask_of. rewrite fold_set_true_length. apply repeat_length. Qed.

Lemma nth_repeat_false n j : nth j (repeat false n) false = false.
Proof. revert j. induction n as [|n IH]; intros [|j]; cbn; auto. Qed.

Lemma mask_of_nth n te j : (forall i, In i te -> i < n) ->
  nth j (mask_of n te) false = mem j te.
Proof.
  intros Hlt. unfold mask_of. rewrite fold_set_true_nth, nth_repeat_false, repeat_length.
  cbn [orb]. unfold mem. 
  induction te as [|i te IH]; cbn [existsb]; [reflexivity|].
  rewrite IH by (intros; apply Hlt; right; assumption).
  assert (Hi : i < n) by (apply Hlt; left; reflexivity).
  destruct (Nat.ltb_spec i n); [|lia]. rewrite andb_true_r. reflexivity.
Qed.

(* ---------- the iterator ---------- *)
Lemma combine_diag {A} (l : list A) : combine l l = map (fun i => (i, i)) l.
Proof. induction l as [|a l IH]; cbn [combine map]; [reflexivity|]. rewrite IH. reflexivity. Qed.

Lemma filter_map_comm {A B} (g : A -> B) (f : B -> bool) l :
  filter f (map g l) = map g (filter (fun a => f (g a)) l).
Proof.
  induction l as [|a l IH]; cbn [map filter]; [reflexivity|].
  destruct (f (g a)); cbn [map]; rewrite IH; reflexivity.
Qed.

Lemma enum_filter_seq f n : enum_filter f (seq 0 n) = filter f (seq 0 n).
Proof.
  unfold enum_filter. rewrite seq_length, combine_diag, filter_map_comm, map_map. cbn [fst].
  rewrite map_id. reflexivity.
Qed.

Definition fold_of_mask (idx : list nat) (m : list bool) : list nat * list nat :=
  (enum_filter (fun i => negb (nth i m false)) idx, enum_filter (fun i => nth i m false) idx).

Lemma iter_collect_rev idx : forall ms fuel, length ms < fuel ->
  iter_collect fuel {| it_indices := idx; it_masks := rev ms |} = map (fold_of_mask idx) ms.
Proof.
  induction ms as [|m ms IH]; intros fuel Hf; (destruct fuel as [|fuel]; [cbn [length] in Hf; lia|]).
  - reflexivity.
  - cbn [iter_collect]. unfold iter_next. cbn [it_masks it_indices].
    rewrite rev_involutive. cbn [map]. f_equal. apply IH. cbn [length] in Hf. lia.
Qed.

Definition fold_of (n : nat) (te : list nat) : list nat * list nat :=
  (filter (fun i => negb (mem i te)) (seq 0 n), filter (fun i => mem i te) (seq 0 n)).

Lemma fold_of_mask_of n te : (forall i, In i te -> i < n) ->
  fold_of_mask (seq 0 n) (mask_of n te) = fold_of n te.
Proof.
  intros H. unfold fold_of_mask, fold_of. rewrite !enum_filter_seq. f_equal.
  - apply filter_ext. intros i. rewrite mask_of_nth by exact H. reflexivity.
  - apply filter_ext. intros i. rewrite mask_of_nth by exact H. reflexivity.
Qed.

Lemma In_firstn {A} (x : A) n l : In x (firstn n l) -> In x l.
Proof. intros H. rewrite <- (firstn_skipn n l). apply in_or_app. left; exact H. Qed.
Lemma In_skipn {A} (x : A) n l : In x (skipn n l) -> In x l.
Proof. intros H. rewrite <- (firstn_skipn n l). apply in_or_app. right; exact H. Qed.

Lemma NoDup_app_inv {A} (l1 l2 : list A) : NoDup (l1 ++ l2) ->
  NoDup l1 /\ NoDup l2 /\ (forall x, In x l1 -> ~ In x l2).
Proof.
  induction l1 as [|a l1 IH]; cbn [app]; intros H.
  - split; [constructor|]. split; [exact H|]. intros x [].
  - inversion H as [|? ? Hna Hnd]; subst. destruct (IH Hnd) as [H1 [H2 H3]].
    split; [constructor; [|exact H1]|].
    + intros Hin. apply Hna. apply in_or_app. left; exact Hin.
    + split; [exact H2|]. intros x [<-|Hx]; [|apply H3; exact Hx].
      intros Hin. apply Hna. apply in_or_app. right; exact Hin.
Qed.

Lemma NoDup_firstn {A} n (l : list A) : NoDup l -> NoDup (firstn n l).
Proof. intros H. rewrite <- (firstn_skipn n l) in H. exact (proj1 (NoDup_app_inv _ _ H)). Qed.
Lemma NoDup_skipn {A} n (l : list A) : NoDup l -> NoDup (skipn n l).
Proof. intros H. rewrite <- (firstn_skipn n l) in H. exact (proj1 (proj2 (NoDup_app_inv _ _ H))). Qed.

Lemma In_slices indices : forall sizes c sl i, In sl (slices indices c sizes) -> In i sl -> In i indices.
Proof.
  induction sizes as [|s t IH]; intros c sl i Hsl Hi; cbn [slices] in Hsl; [contradiction|].
  destruct Hsl as [<-|Hsl].
  - apply In_firstn, In_skipn in Hi. exact Hi.
  - eapply IH; eassumption.
Qed.

Lemma NoDup_slices indices : NoDup indices -> forall sizes c sl, In sl (slices indices c sizes) -> NoDup sl.
Proof.
  intros Hnd. induction sizes as [|s t IH]; intros c sl Hsl; cbn [slices] in Hsl; [contradiction|].
  destruct Hsl as [<-|Hsl].
  - apply NoDup_firstn, NoDup_skipn, Hnd.
  - eapply IH; eassumption.
Qed.

Lemma kfold_split_eq n k indices : 2 <= k -> (forall i, In i indices -> i < n) ->
  kfold_split n k indices = Some (map (fold_of n) (test_indices n k indices)).
Proof.
  intros Hk Hlt. unfold kfold_split, split. destruct (Nat.ltb_spec k 2); [lia|].
  cbn [option_map it_masks]. f_equal.
  rewrite iter_collect_rev by (rewrite rev_length; lia).
  unfold test_masks. rewrite map_map. apply map_ext_in. intros te Hte.
  apply fold_of_mask_of. intros i Hi. apply Hlt. unfold test_indices in Hte.
  eapply In_slices; eassumption.
Qed.

Lemma kfold_split_small n k indices : k < 2 -> kfold_split n k indices = None.
Proof. intros Hk. unfold kfold_split, split. destruct (Nat.ltb_spec k 2); [reflexivity|lia]. Qed.

(* ---------- test sets: the sorted rearrangement of a slice ---------- *)
Lemma filter_mem_In n te i : In i (filter (fun i => mem i te) (seq 0 n)) <-> i < n /\ In i te.
Proof. rewrite filter_In, in_seq, mem_In. intuition lia. Qed.

Lemma filter_mem_perm n te : NoDup te -> (forall i, In i te -> i < n) ->
  Permutation (filter (fun i => mem i te) (seq 0 n)) te.
Proof.
  intros Hnd Hlt. apply NoDup_Permutation.
  - apply NoDup_filter, seq_NoDup.
  - exact Hnd.
  - intros i. rewrite filter_mem_In. split; [tauto|]. intros H. split; [apply Hlt|]; exact H.
Qed.

Lemma Permutation_concat_map {A} (f : list A -> list A) : forall l,
  (forall x, In x l -> Permutation (f x) x) -> Permutation (concat (map f l)) (concat l).
Proof.
  induction l as [|x l IH]; intros H; cbn [map concat]; [constructor|].
  apply Permutation_app; [apply H; left; reflexivity|]. apply IH. intros y Hy. apply H. right; exact Hy.
Qed.

Lemma mem_filter_mem n te i : i < n -> mem i (filter (fun i => mem i te) (seq 0 n)) = mem i te.
Proof.
  intros Hi. apply eq_true_iff_eq. rewrite !mem_In, filter_mem_In. tauto.
Qed.

Section Partition.
  Variables (n k : nat) (indices : list nat).
  Hypothesis Hk : 2 <= k.
  Hypothesis Hperm : Permutation indices (seq 0 n).

  Let Hlen : length indices = n.
  Proof. rewrite (Permutation_length Hperm). apply seq_length. Qed.
  Let Hlt : forall i, In i indices -> i < n.
  Proof. intros i Hi. apply (Permutation_in _ Hperm) in Hi. apply in_seq in Hi. lia. Qed.
  Let Hnd : NoDup indices.
  Proof. apply (Permutation_NoDup (Permutation_sym Hperm)), seq_NoDup. Qed.

  Lemma test_indices_concat : concat (test_indices n k indices) = indices.
  Proof.
    unfold test_indices. rewrite slices_concat, fold_sizes_sum by lia. cbn [skipn].
    rewrite <- Hlen. apply firstn_all.
  Qed.

  Lemma test_indices_lengths : map (@length nat) (test_indices n k indices) = fold_sizes n k.
  Proof. unfold test_indices. apply slices_lengths. rewrite fold_sizes_sum by lia. lia. Qed.

  Lemma test_indices_length : length (test_indices n k indices) = k.
  Proof. unfold test_indices. rewrite slices_length. apply fold_sizes_length. Qed.

  Lemma test_indices_wf te : In te (test_indices n k indices) -> NoDup te /\ (forall i, In i te -> i < n).
  Proof.
    intros Hte. split.
    - eapply NoDup_slices; eassumption.
    - intros i Hi. apply Hlt. eapply In_slices; eassumption.
  Qed.

  Lemma kfold_split_perm :
    kfold_split n k indices = Some (map (fold_of n) (test_indices n k indices)).
  Proof. apply kfold_split_eq; assumption. Qed.

  Lemma kfold_tests_perm :
    Permutation (concat (map snd (map (fold_of n) (test_indices n k indices)))) (seq 0 n).
  Proof.
    rewrite map_map. cbn [fold_of snd].
    eapply Permutation_trans; [|exact Hperm].
    rewrite <- test_indices_concat at 2.
    apply (Permutation_concat_map (fun te => filter (fun i => mem i te) (seq 0 n))).
    intros te Hte. destruct (test_indices_wf te Hte) as [H1 H2]. apply filter_mem_perm; assumption.
  Qed.

  Lemma kfold_fold_size f : In f (map (fold_of n) (test_indices n k indices)) ->
    length (snd f) = n / k \/ length (snd f) = S (n / k).
  Proof.
    intros Hf. apply in_map_iff in Hf. destruct Hf as [te [<- Hte]]. cbn [fold_of snd].
    destruct (test_indices_wf te Hte) as [H1 H2].
    rewrite (Permutation_length (filter_mem_perm n te H1 H2)).
    apply (fold_sizes_In n k); [lia|]. rewrite <- test_indices_lengths. apply in_map. exact Hte.
  Qed.

  Lemma kfold_train_complement tr te : In (tr, te) (map (fold_of n) (test_indices n k indices)) ->
    tr = filter (fun i => negb (mem i te)) (seq 0 n).
  Proof.
    intros Hf. apply in_map_iff in Hf. destruct Hf as [te0 [Heq Hte]]. unfold fold_of in Heq.
    inversion Heq; subst. apply filter_ext_in. intros i Hi. apply in_seq in Hi.
    rewrite mem_filter_mem by lia. reflexivity.
  Qed.
End Partition.

Theorem kfold_partition : forall n k indices, 2 <= k -> Permutation indices (seq 0 n) ->
  exists folds, kfold_split n k indices = Some folds /\
    length folds = k /\
    Permutation (concat (map snd folds)) (seq 0 n) /\
    (forall f g, In f folds -> In g folds -> length (snd f) <= S (length (snd g))) /\
    (forall tr te, In (tr, te) folds -> tr = filter (fun i => negb (mem i te)) (seq 0 n)).
Proof.
  intros n k indices Hk Hp. exists (map (fold_of n) (test_indices n k indices)).
  split; [apply kfold_split_perm; assumption|].
  split; [rewrite map_length; apply test_indices_length|].
  split; [apply kfold_tests_perm; assumption|].
  split.
  - intros f g Hf Hg.
    destruct (kfold_fold_size n k indices Hk Hp f Hf), (kfold_fold_size n k indices Hk Hp g Hg); lia.
  - intros tr te. apply kfold_train_complement with (k := k) (indices := indices); assumption.
Qed.

(* a decidable sufficient test for `Permutation l (seq 0 n)`, for the Examples *)
Definition perm_check (l : list nat) (n : nat) : bool :=
  (length l =? n) && forallb (fun i => mem i l) (seq 0 n).

Lemma perm_check_sound l n : perm_check l n = true -> Permutation l (seq 0 n).
Proof.
  unfold perm_check. intros H. apply andb_prop in H. destruct H as [Hl Hall].
  apply Nat.eqb_eq in Hl. rewrite forallb_forall in Hall.
  apply Permutation_sym. apply NoDup_Permutation_bis.
  - apply seq_NoDup.
  - rewrite seq_length. lia.
  - intros i Hi. apply mem_In. apply Hall. exact Hi.
Qed.
