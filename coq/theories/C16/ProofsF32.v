(* C16 — proofs: the single-precision test-set size of train_test_split. *)
From Coq Require Import List Arith Bool Lia Permutation ZArith.
From SC Require Import C16.Model C16.F32 C16.Proofs C16.ProofsTTS.
Import ListNotations.

Theorem tts_size : forall {R T} (x : list R) (y : list T) bits indices x_train x_test y_train y_test,
  Permutation indices (seq 0 (length y)) ->
  train_test_split_f32 x y bits indices = Some (x_train, x_test, y_train, y_test) ->
  let nt := n_test_f32 (length y) (f32_of_bits bits) in
  ts_ok_f32 (f32_of_bits bits) = true /\ length x = length y /\ 1 <= nt <= length y /\
  length x_test = nt /\ length y_test = nt /\
  length x_train = length y - nt /\ length y_train = length y - nt.
Proof.
  intros R T x y bits indices xtr xte ytr yte Hp H nt. unfold train_test_split_f32 in H.
  destruct (ts_ok_f32 (f32_of_bits bits)) eqn:Hok.
  - fold nt in H. destruct (tts_some_inv _ _ _ _ _ _ H) as [_ [Hxy Hnt]].
    split; [reflexivity|]. split; [exact Hxy|]. split; [exact Hnt|].
    destruct x as [|dx x']; [destruct y; cbn [length] in *; [lia|discriminate]|].
    destruct y as [|dy y']; [discriminate|].
    destruct (tts_permutation dx dy _ _ nt indices Hxy Hp Hnt)
      as [te [tr [a [b [c [d [Heq [_ [Hlte [Hltr [_ [Hb [Hd [Ha [Hc _]]]]]]]]]]]]]]].
    rewrite Heq in H. inversion H; subst. rewrite !map_length. repeat split; assumption.
  - destruct (tts_some_inv _ _ _ _ _ _ H) as [Hc _]. discriminate.
Qed.

(* n as f32 rounds up for some n > 2^24, and with test_size = 1.0 the computed size exceeds n:
   the implementation then panics on `indices[n_test..n]` (the model returns None). *)
Theorem tts_size_overshoot_witness :
  exists (n : N) (bits : Z),
    ts_ok_f32 (f32_of_bits bits) = true /\
    (Z.of_N n < n_test_f32_Z (Z.of_N n) (f32_of_bits bits))%Z.
Proof. exists 16777219%N, 0x3F800000%Z. split; vm_compute; reflexivity. Qed.

Example tts_size_instance :
  n_test_f32 123 (f32_of_bits 0x3E4CCCCD) = 24 /\ ts_ok_f32 (f32_of_bits 0x3E4CCCCD) = true /\
  (* 10 * 0.7f32 = 6.99999988... rounds to 7.0 in single precision *)
  n_test_f32 10 (f32_of_bits 0x3F333333) = 7.
Proof. repeat split; vm_compute; reflexivity. Qed.
