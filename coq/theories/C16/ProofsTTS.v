(* C16 — proofs: consecutive blocks without shuffling; train_test_split. *)
From Coq Require Import List Arith Bool Lia Permutation.
From SC Require Import C16.Model C16.Proofs.
Import ListNotations.

(* ---------- unshuffled k-fold: consecutive blocks ---------- *)
Lemma firstn_skipn_seq n c s : c + s <= n -> firstn s (skipn c (seq 0 n)) = seq c s.
Proof.
  intros H. replace n with (c + (s + (n - c - s))) by lia.
  rewrite seq_app, skipn_app, seq_length, Nat.sub_diag. cbn [skipn plus].
  rewrite skipn_all2 by (rewrite seq_length; lia). cbn [app].
  rewrite seq_app, firstn_app, seq_length, Nat.sub_diag. cbn [firstn].
  rewrite firstn_all2 by (rewrite seq_length; lia). apply app_nil_r.
Qed.

Lemma filter_all {A} (f : A -> bool) l : (forall x, In x l -> f x = true) -> filter f l = l.
Proof.
  induction l as [|a l IH]; intros H; cbn [filter]; [reflexivity|].
  rewrite (H a) by (left; reflexivity). f_equal. apply IH. intros x Hx. apply H. right; exact Hx.
Qed.
Lemma filter_none {A} (f : A -> bool) l : (forall x, In x l -> f x = false) -> filter f l = [].
Proof.
  induction l as [|a l IH]; intros H; cbn [filter]; [reflexivity|].
  rewrite (H a) by (left; reflexivity). apply IH. intros x Hx. apply H. right; exact Hx.
Qed.

Lemma filter_mem_block n c s : c + s <= n -> filter (fun i => mem i (seq c s)) (seq 0 n) = seq c s.
Proof.
  intros H. replace n with (c + (s + (n - c - s))) by lia.
  rewrite seq_app, filter_app, seq_app, filter_app. cbn [plus].
  rewrite filter_none, filter_all, filter_none; [apply app_nil_r| | |].
  - intros x Hx. apply mem_false_In. rewrite in_seq in *. lia.
  - intros x Hx. apply mem_In. exact Hx.
  - intros x Hx. apply mem_false_In. rewrite in_seq in *. lia.
Qed.

Lemma list_sum_firstn_S l : forall j, j < length l ->
  list_sum (firstn (S j) l) = list_sum (firstn j l) + nth j l 0.
Proof.
  induction l as [|a l IH]; intros j Hj; cbn [length] in Hj; [lia|].
  destruct j as [|j].
  - cbn [firstn nth]. rewrite !list_sum_cons. cbn. lia.
  - change (firstn (S (S j)) (a :: l)) with (a :: firstn (S j) l).
    change (firstn (S j) (a :: l)) with (a :: firstn j l).
    rewrite !list_sum_cons. cbn [nth]. rewrite IH by lia. lia.
Qed.

Lemma list_sum_firstn_le l : forall j, j < length l -> list_sum (firstn j l) + nth j l 0 <= list_sum l.
Proof.
  induction l as [|a l IH]; intros j Hj; cbn [length] in Hj; [lia|].
  destruct j as [|j]; cbn [firstn nth]; rewrite ?list_sum_cons.
  - cbn. lia.
  - specialize (IH j). lia.
Qed.

Lemma fold_sizes_prefix_sum n k : 0 < k -> forall j, j <= k ->
  list_sum (firstn j (fold_sizes n k)) = j * (n / k) + Nat.min j (n mod k).
Proof.
  intros Hk. induction j as [|j IH]; intros Hj; [reflexivity|].
  rewrite list_sum_firstn_S by (rewrite fold_sizes_length; lia).
  rewrite IH by lia. rewrite fold_sizes_nth by lia.
  destruct (Nat.ltb_spec j (n mod k)); lia.
Qed.

Theorem kfold_blocks_unshuffled : forall n k, 2 <= k ->
  exists folds, kfold_split n k (seq 0 n) = Some folds /\
    length folds = k /\
    concat (map snd folds) = seq 0 n /\
    forall j, j < k ->
      snd (nth j folds ([], [])) =
      seq (j * (n / k) + Nat.min j (n mod k)) (n / k + (if j <? n mod k then 1 else 0)).
Proof.
  intros n k Hk.
  assert (Hp : Permutation (seq 0 n) (seq 0 n)) by apply Permutation_refl.
  exists (map (fold_of n) (test_indices n k (seq 0 n))).
  split; [apply kfold_split_perm; assumption|].
  split; [rewrite map_length; apply test_indices_length|].
  assert (Hblock : forall j, j < k ->
            nth j (test_indices n k (seq 0 n)) [] =
            seq (j * (n / k) + Nat.min j (n mod k)) (n / k + (if j <? n mod k then 1 else 0))
            /\ j * (n / k) + Nat.min j (n mod k) + (n / k + (if j <? n mod k then 1 else 0)) <= n).
  { intros j Hj. unfold test_indices. rewrite slices_nth by (rewrite fold_sizes_length; lia).
    cbn [plus]. rewrite fold_sizes_prefix_sum, fold_sizes_nth by lia.
    assert (Hle : j * (n / k) + Nat.min j (n mod k) + (n / k + (if j <? n mod k then 1 else 0)) <= n).
    { rewrite <- (fold_sizes_prefix_sum n k) by lia. rewrite <- (fold_sizes_nth n k j) by lia.
      rewrite <- (fold_sizes_sum n k) at 3 by lia.
      apply list_sum_firstn_le. rewrite fold_sizes_length. lia. }
    split; [|exact Hle]. apply firstn_skipn_seq. exact Hle. }
  assert (Hsame : forall te, In te (test_indices n k (seq 0 n)) -> snd (fold_of n te) = te).
  { intros te Hte. destruct (In_nth _ _ [] Hte) as [j [Hj Hn]].
    rewrite test_indices_length in Hj. destruct (Hblock j Hj) as [Hb Hle].
    rewrite Hn in Hb. cbn [fold_of snd]. rewrite Hb. apply filter_mem_block. exact Hle. }
  split.
  - rewrite map_map. rewrite (map_ext_in _ (fun te => te) _ Hsame), map_id.
    apply test_indices_concat; assumption.
  - intros j Hj. rewrite <- (proj1 (Hblock j Hj)).
    rewrite (nth_indep _ ([], []) (fold_of n [])) by (rewrite map_length, test_indices_length; exact Hj).
    rewrite map_nth.
    apply Hsame. apply nth_In. rewrite test_indices_length. exact Hj.
Qed.

(* ---------- take ---------- *)
Lemma all_some_map_Some {A B} (f : A -> B) l : all_some (map (fun a => Some (f a)) l) = Some (map f l).
Proof. induction l as [|a l IH]; cbn [map all_some]; [reflexivity|]. rewrite IH. reflexivity. Qed.

Lemma take_some {A} (l : list A) (d : A) idx : (forall i, In i idx -> i < length l) ->
  take l idx = Some (map (fun i => nth i l d) idx).
Proof.
  intros H. unfold take. rewrite <- all_some_map_Some. f_equal. apply map_ext_in.
  intros i Hi. apply nth_error_nth'. apply H. exact Hi.
Qed.

Lemma take_inv {A} (l : list A) : forall idx r, take l idx = Some r ->
  length r = length idx /\ forall pos i, nth_error idx pos = Some i -> nth_error r pos = nth_error l i /\ i < length l.
Proof.
  unfold take. induction idx as [|a idx IH]; intros r Hr; cbn [map all_some] in Hr.
  - inversion Hr; subst. split; [reflexivity|]. intros [|pos] i H; discriminate.
  - destruct (nth_error l a) as [v|] eqn:Hv; [|discriminate].
    destruct (all_some (map (nth_error l) idx)) as [r'|] eqn:Hr'; [|discriminate].
    cbn [option_map] in Hr. inversion Hr; subst. destruct (IH r' eq_refl) as [H1 H2].
    split; [cbn [length]; lia|]. intros [|pos] i H; cbn [nth_error] in *.
    + inversion H; subst. split; [symmetry; exact Hv|]. apply nth_error_Some. congruence.
    + apply H2. exact H.
Qed.

Lemma map_nth_seq {A} (d : A) l : map (fun i => nth i l d) (seq 0 (length l)) = l.
Proof.
  induction l as [|a l IH]; cbn [length seq map nth]; [reflexivity|].
  f_equal. rewrite <- seq_shift, map_map. exact IH.
Qed.

Lemma combine_map_map {A B C} (f : A -> B) (g : A -> C) l :
  combine (map f l) (map g l) = map (fun a => (f a, g a)) l.
Proof. induction l as [|a l IH]; cbn [map combine]; [reflexivity|]. rewrite IH. reflexivity. Qed.

(* ---------- train_test_split ---------- *)
Section TTS.
  Context {R T : Type} (dx : R) (dy : T).
  Variables (x : list R) (y : list T) (n_test : nat) (indices : list nat).
  Hypothesis Hxy : length x = length y.
  Hypothesis Hperm : Permutation indices (seq 0 (length y)).
  Hypothesis Hnt : 1 <= n_test <= length y.

  Let n := length y.
  Let te := firstn n_test indices.
  Let tr := skipn n_test indices.
  Let Hlen : length indices = n.
  Proof. rewrite (Permutation_length Hperm). apply seq_length. Qed.
  Let Hlt : forall i, In i indices -> i < n.
  Proof. intros i Hi. apply (Permutation_in _ Hperm) in Hi. apply in_seq in Hi. unfold n. lia. Qed.

  Lemma tts_eq :
    train_test_split x y true n_test indices =
    Some (map (fun i => nth i x dx) tr, map (fun i => nth i x dx) te,
          map (fun i => nth i y dy) tr, map (fun i => nth i y dy) te).
  Proof.
    unfold train_test_split. rewrite Hxy, Nat.eqb_refl. cbn [negb].
    destruct (Nat.ltb_spec n_test 1); [lia|]. destruct (Nat.ltb_spec (length y) n_test); [lia|].
    rewrite firstn_all2 by (fold n; lia). fold te tr.
    assert (Htr : forall i, In i tr -> i < n) by (intros i Hi; apply Hlt; eapply In_skipn; exact Hi).
    assert (Hte : forall i, In i te -> i < n) by (intros i Hi; apply Hlt; eapply In_firstn; exact Hi).
    rewrite (take_some x dx tr) by (rewrite Hxy; exact Htr).
    rewrite (take_some x dx te) by (rewrite Hxy; exact Hte).
    rewrite (take_some y dy tr) by exact Htr.
    rewrite (take_some y dy te) by exact Hte. reflexivity.
  Qed.

  Lemma tts_pairs_perm :
    Permutation (combine (map (fun i => nth i x dx) te) (map (fun i => nth i y dy) te) ++
                 combine (map (fun i => nth i x dx) tr) (map (fun i => nth i y dy) tr))
                (combine x y).
  Proof.
    rewrite !combine_map_map, <- map_app. unfold te, tr. rewrite firstn_skipn.
    rewrite <- (map_nth_seq (dx, dy) (combine x y)).
    rewrite combine_length, Hxy, Nat.min_id.
    eapply Permutation_trans; [apply Permutation_map; exact Hperm|].
    apply Permutation_refl'. apply map_ext. intros i. symmetry. apply combine_nth. exact Hxy.
  Qed.
End TTS.

Theorem tts_permutation : forall {R T} (dx : R) (dy : T) (x : list R) (y : list T) n_test indices,
  length x = length y -> Permutation indices (seq 0 (length y)) -> 1 <= n_test <= length y ->
  exists te tr x_train x_test y_train y_test,
    train_test_split x y true n_test indices = Some (x_train, x_test, y_train, y_test) /\
    te ++ tr = indices /\ length te = n_test /\ length tr = length y - n_test /\
    NoDup (te ++ tr) /\
    x_test = map (fun i => nth i x dx) te /\ y_test = map (fun i => nth i y dy) te /\
    x_train = map (fun i => nth i x dx) tr /\ y_train = map (fun i => nth i y dy) tr /\
    Permutation (combine x_test y_test ++ combine x_train y_train) (combine x y).
Proof.
  intros R T dx dy x y n_test indices Hxy Hp Hnt.
  assert (Hlen : length indices = length y) by (rewrite (Permutation_length Hp); apply seq_length).
  exists (firstn n_test indices), (skipn n_test indices).
  do 4 eexists. split; [apply (tts_eq dx dy); assumption|].
  split; [apply firstn_skipn|].
  split; [rewrite firstn_length; lia|].
  split; [rewrite skipn_length; lia|].
  split; [rewrite firstn_skipn; apply (Permutation_NoDup (Permutation_sym Hp)), seq_NoDup|].
  do 4 (split; [reflexivity|]).
  apply tts_pairs_perm; assumption.
Qed.

(* without shuffling: the test part is the leading n_test rows in order, the train part the rest *)
Theorem tts_unshuffled : forall {R T} (x : list R) (y : list T) n_test,
  length x = length y -> 1 <= n_test <= length y ->
  train_test_split x y true n_test (seq 0 (length y)) =
  Some (skipn n_test x, firstn n_test x, skipn n_test y, firstn n_test y).
Proof.
  intros R T x y n_test Hxy Hnt.
  destruct x as [|dx x']; [destruct y; cbn [length] in *; [lia|discriminate]|].
  destruct y as [|dy y']; [discriminate|].
  set (x := dx :: x') in *. set (y := dy :: y') in *.
  rewrite (tts_eq dx dy) by (try apply Permutation_refl; assumption).
  rewrite <- !firstn_map, <- !skipn_map. rewrite <- Hxy at 1 2. rewrite !map_nth_seq. reflexivity.
Qed.

Theorem tts_some_inv : forall {R T} (x : list R) (y : list T) ok n_test indices r,
  train_test_split x y ok n_test indices = Some r ->
  ok = true /\ length x = length y /\ 1 <= n_test <= length y.
Proof.
  intros R T x y ok n_test indices r. unfold train_test_split.
  destruct (Nat.eqb_spec (length x) (length y)); cbn [negb]; [|discriminate].
  destruct ok; cbn [negb]; [|discriminate].
  destruct (Nat.ltb_spec n_test 1); [discriminate|].
  destruct (Nat.ltb_spec (length y) n_test); [discriminate|]. intros _. repeat split; lia || assumption.
Qed.
