(* C13 — DBSCAN::predict: the vote vector holds the neighbour counts per label, `which_max` returns
   the first index holding the maximum, hence predict is the plurality rule of the property. *)
From Coq Require Import List Arith ZArith Bool Lia.
From SC Require Import C13.Model C13.ProofsBase.
Import ListNotations.

Definition count_if (f : nat -> bool) (l : list nat) : nat := length (filter f l).

(* number of listed neighbours carrying cluster label l / carrying a negative label *)
Definition votes_for (y : list Z) (nbq : list nat) (l : nat) : nat :=
  count_if (fun idx => Z.eqb (get y idx) (Z.of_nat l)) nbq.
Definition votes_noise (y : list Z) (nbq : list nat) : nat :=
  count_if (fun idx => Z.ltb (get y idx) 0) nbq.

Lemma incr_length : forall v j, length (incr v j) = length v.
Proof. induction v as [|h t IH]; intros [|j]; simpl; auto. Qed.

Lemma incr_nth : forall v j l, j < length v ->
  nth l (incr v j) 0 = nth l v 0 + (if Nat.eqb l j then 1 else 0).
Proof.
  induction v as [|h t IH]; intros [|j] [|l] H; simpl in *; try lia.
  - apply IH. lia.
Qed.

Lemma nth_repeat0 : forall m l, nth l (repeat 0 m) 0 = 0.
Proof. induction m as [|m IH]; intros [|l]; simpl; auto. Qed.

Lemma vote_step_cases : forall y c v a,
  ((get y a < 0)%Z /\ vote_step y c v a = incr v c) \/
  ((0 <= get y a)%Z /\ vote_step y c v a = incr v (Z.to_nat (get y a))).
Proof.
  intros. unfold vote_step. cbv zeta. destruct (Z.ltb_spec (get y a) 0); auto.
Qed.

Lemma vote_fold_spec : forall y c nbq v,
  length v = S c -> (forall idx, In idx nbq -> (get y idx < Z.of_nat c)%Z) ->
  let r := fold_left (vote_step y c) nbq v in
  length r = S c /\
  (forall l, l < c -> nth l r 0 = nth l v 0 + votes_for y nbq l) /\
  nth c r 0 = nth c v 0 + votes_noise y nbq.
Proof.
  induction nbq as [|a tl IH]; intros v Hlen Hlt.
  - simpl. unfold votes_for, votes_noise, count_if. simpl. repeat split; auto; intros; lia.
  - cbv zeta. cbn [fold_left].
    assert (Ha : (get y a < Z.of_nat c)%Z) by (apply Hlt; left; reflexivity).
    assert (Htl : forall idx, In idx tl -> (get y idx < Z.of_nat c)%Z) by (intros; apply Hlt; right; assumption).
    destruct (vote_step_cases y c v a) as [[Hneg Hs]|[Hpos Hs]]; rewrite Hs.
    + destruct (IH (incr v c)) as (I1 & I2 & I3); [rewrite incr_length; exact Hlen|exact Htl|].
      split; [exact I1|]. split.
      * intros l Hl. rewrite (I2 l Hl), incr_nth by lia.
        unfold votes_for, count_if. cbn [filter].
        destruct (Z.eqb_spec (get y a) (Z.of_nat l)); [lia|].
        destruct (Nat.eqb_spec l c); lia.
      * rewrite I3, incr_nth by lia. rewrite Nat.eqb_refl.
        unfold votes_noise, count_if. cbn [filter].
        destruct (Z.ltb_spec (get y a) 0); [simpl; lia|lia].
    + assert (Hj : Z.to_nat (get y a) < c) by lia.
      destruct (IH (incr v (Z.to_nat (get y a)))) as (I1 & I2 & I3); [rewrite incr_length; exact Hlen|exact Htl|].
      split; [exact I1|]. split.
      * intros l Hl. rewrite (I2 l Hl), incr_nth by lia.
        unfold votes_for, count_if. cbn [filter].
        destruct (Z.eqb_spec (get y a) (Z.of_nat l)) as [E|E].
        -- rewrite E, Nat2Z.id, Nat.eqb_refl. simpl. lia.
        -- destruct (Nat.eqb_spec l (Z.to_nat (get y a))) as [E2|E2]; [exfalso; apply E; lia|lia].
      * rewrite I3, incr_nth by lia.
        unfold votes_noise, count_if. cbn [filter].
        destruct (Z.ltb_spec (get y a) 0); [lia|].
        destruct (Nat.eqb_spec c (Z.to_nat (get y a))); lia.
Qed.

Lemma vote_spec : forall y c nbq,
  (forall idx, In idx nbq -> (get y idx < Z.of_nat c)%Z) ->
  length (vote y c nbq) = S c /\
  (forall l, l < c -> nth l (vote y c nbq) 0 = votes_for y nbq l) /\
  nth c (vote y c nbq) 0 = votes_noise y nbq.
Proof.
  intros y c nbq H. unfold vote.
  destruct (vote_fold_spec y c nbq (repeat 0 (S c)) (repeat_length _ _) H) as (A & B & C).
  split; [exact A|]. split.
  - intros l Hl. rewrite (B l Hl), nth_repeat0. lia.
  - rewrite C, nth_repeat0. lia.
Qed.

(* which_max: the first position of the maximum *)
Lemma which_max_from_spec : forall xs pre m which,
  which < length pre -> nth which pre 0 = m ->
  (forall j, j < length pre -> nth j pre 0 <= m) ->
  (forall j, j < which -> nth j pre 0 < m) ->
  let w := which_max_from m which (length pre) xs in
  let full := pre ++ xs in
  w < length full /\
  (forall j, j < length full -> nth j full 0 <= nth w full 0) /\
  (forall j, j < w -> nth j full 0 < nth w full 0).
Proof.
  induction xs as [|x t IH]; intros pre m which Hw Hm Hmax Hfirst.
  - cbv zeta. simpl. rewrite app_nil_r. rewrite Hm. auto.
  - cbv zeta. cbn [which_max_from].
    replace (pre ++ x :: t) with ((pre ++ [x]) ++ t) by (rewrite <- app_assoc; reflexivity).
    replace (S (length pre)) with (length (pre ++ [x])) by (rewrite app_length; simpl; lia).
    destruct (Nat.ltb_spec m x) as [Hlt|Hge].
    + apply IH.
      * rewrite app_length; simpl; lia.
      * rewrite app_nth2 by lia. replace (length pre - length pre) with 0 by lia. reflexivity.
      * intros j Hj. rewrite app_length in Hj; simpl in Hj.
        destruct (lt_dec j (length pre)) as [H|H].
        -- rewrite app_nth1 by lia. specialize (Hmax j H). lia.
        -- rewrite app_nth2 by lia. replace (j - length pre) with 0 by lia. simpl. lia.
      * intros j Hj. rewrite app_nth1 by lia. specialize (Hmax j Hj). lia.
    + apply IH.
      * rewrite app_length; simpl; lia.
      * rewrite app_nth1 by lia. exact Hm.
      * intros j Hj. rewrite app_length in Hj; simpl in Hj.
        destruct (lt_dec j (length pre)) as [H|H].
        -- rewrite app_nth1 by lia. auto.
        -- rewrite app_nth2 by lia. replace (j - length pre) with 0 by lia. simpl. lia.
      * intros j Hj. rewrite app_nth1 by lia. auto.
Qed.

Lemma which_max_spec : forall v, v <> [] ->
  which_max v < length v /\
  (forall j, j < length v -> nth j v 0 <= nth (which_max v) v 0) /\
  (forall j, j < which_max v -> nth j v 0 < nth (which_max v) v 0).
Proof.
  intros [|x0 t] Hne; [contradiction|]. unfold which_max.
  pose proof (which_max_from_spec t [x0] x0 0) as H. simpl length in H.
  apply H; simpl; auto; intros; try lia.
  destruct j; [lia|lia].
Qed.

Lemma count_if_zero_all : forall f l, count_if f l = 0 -> forall a, In a l -> f a = false.
Proof.
  unfold count_if. induction l as [|h t IH]; intros H a Hin; [destruct Hin|].
  destruct Hin as [->|Ha]; simpl in H.
  - destruct (f a); [discriminate|reflexivity].
  - destruct (f h); [discriminate|auto].
Qed.

(* predict: plurality among the listed neighbours; noise exactly when there are none or when
   unclustered neighbours strictly outnumber every cluster; ties go to the smallest cluster id *)
Lemma predict_plurality : forall y c nbq,
  (forall idx, In idx nbq -> (get y idx < Z.of_nat c)%Z) ->
  let r := predict_one y c nbq in
  (r = (-1)%Z \/ exists w, r = Z.of_nat w /\ w < c /\
       0 < votes_for y nbq w /\
       (forall l, l < c -> votes_for y nbq l <= votes_for y nbq w) /\
       votes_noise y nbq <= votes_for y nbq w /\
       (forall l, l < w -> votes_for y nbq l < votes_for y nbq w)) /\
  (r = (-1)%Z <-> nbq = [] \/ (forall l, l < c -> votes_for y nbq l < votes_noise y nbq)).
Proof.
  intros y c nbq Hlt. cbv zeta. unfold predict_one.
  destruct (vote_spec y c nbq Hlt) as (V1 & V2 & V3).
  set (v := vote y c nbq) in *.
  assert (Hne : v <> []) by (intro E; rewrite E in V1; discriminate).
  destruct (which_max_spec v Hne) as (W1 & W2 & W3).
  set (w := which_max v) in *. rewrite V1 in W1, W2.
  destruct (Nat.eqb_spec w c) as [Hwc|Hwc]; cbn [negb andb].
  - (* noise slot strictly above every cluster *)
    split; [left; reflexivity|]. split; [|reflexivity]. intros _. right.
    intros l Hl. specialize (W3 l ltac:(lia)). rewrite Hwc, V3, (V2 l Hl) in W3. exact W3.
  - assert (Hw : w < c) by lia.
    destruct (Nat.ltb_spec 0 (nth w v 0)) as [Hpos|Hzero].
    + split.
      * right. exists w. rewrite (V2 w Hw) in *. repeat split; auto.
        -- intros l Hl. specialize (W2 l ltac:(lia)). rewrite (V2 l Hl) in W2. exact W2.
        -- specialize (W2 c ltac:(lia)). rewrite V3 in W2. exact W2.
        -- intros l Hl. specialize (W3 l Hl). rewrite (V2 l ltac:(lia)) in W3. exact W3.
      * split; [intro H; lia|]. intros [E|H]; exfalso.
        -- rewrite (V2 w Hw) in Hpos. rewrite E in Hpos. unfold votes_for, count_if in Hpos. simpl in Hpos. lia.
        -- specialize (H w Hw). specialize (W2 c ltac:(lia)). rewrite V3, (V2 w Hw) in W2. lia.
    + split; [left; reflexivity|]. split; [|reflexivity]. intros _. left.
      (* every slot is zero: there is no neighbour *)
      destruct nbq as [|a tl]; [reflexivity|exfalso].
      assert (Ha : (get y a < Z.of_nat c)%Z) by (apply Hlt; left; reflexivity).
      destruct (Z.ltb_spec (get y a) 0) as [Hneg|Hpos].
      * specialize (W2 c ltac:(lia)). rewrite V3 in W2.
        assert (votes_noise y (a :: tl) = 0) by lia.
        pose proof (count_if_zero_all _ _ H a (or_introl eq_refl)) as Hf. simpl in Hf.
        apply Z.ltb_ge in Hf. lia.
      * assert (Hj : Z.to_nat (get y a) < c) by lia.
        specialize (W2 (Z.to_nat (get y a)) ltac:(lia)). rewrite (V2 _ Hj) in W2.
        assert (votes_for y (a :: tl) (Z.to_nat (get y a)) = 0) by lia.
        pose proof (count_if_zero_all _ _ H a (or_introl eq_refl)) as Hf. simpl in Hf.
        apply Z.eqb_neq in Hf. lia.
Qed.
