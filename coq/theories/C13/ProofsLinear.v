(* C13 — the linear-scan backend satisfies the hypotheses of the correctness theorems for every
   symmetric "within eps" test (i.e. for every metric, whatever its values are). *)
From Coq Require Import List Arith Bool Lia.
From SC Require Import C13.Model C13.Spec.
Import ListNotations.

Lemma linear_radius_In : forall within n i j,
  In j (linear_radius within n i) <-> j < n /\ within i j = true.
Proof.
  intros. unfold linear_radius. rewrite filter_In, in_seq. split; intros [A B]; split; auto; lia.
Qed.

Lemma linear_radius_wellformed : forall within n,
  (forall i j, i < n -> j < n -> within i j = within j i) ->
  nb_in_range (linear_radius within n) n /\
  nb_symmetric (linear_radius within n) n /\
  (forall i, NoDup (linear_radius within n i)).
Proof.
  intros within n Hs. split; [|split].
  - intros i j Hi Hj. apply linear_radius_In in Hj. tauto.
  - intros i j Hi Hj. apply linear_radius_In in Hj as [Hj Hw]. apply linear_radius_In.
    split; [exact Hi|]. rewrite <- Hs; auto.
  - intro i. unfold linear_radius. apply NoDup_filter. apply seq_NoDup.
Qed.
