(* C13 — functional correctness of the DBSCAN model (from the invariants of ProofsInv.v) and
   termination of the expansion loop by an explicit measure. *)
From Coq Require Import List Arith ZArith Bool Lia.
From SC Require Import C13.Model C13.Spec C13.ProofsBase C13.ProofsInv.
Import ListNotations.

Section Main.
  Variable nb : nat -> list nat.
  Variable minpts : nat.
  Variable n : nat.
  Hypothesis Hrange : forall i j, i < n -> In j (nb i) -> j < n.
  Hypothesis Hsym : forall i j, i < n -> In j (nb i) -> In i (nb j).

  Notation core := (core nb minpts).
  Notation core_conn := (core_conn nb minpts).

  Lemma core_conn_sym_n : forall a b, core_conn a b -> a < n -> core_conn b a /\ b < n.
  Proof.
    intros a b H. induction H as [i | i j k Hi Hj Hin _ IH]; intro Ha.
    - split; [apply cc_refl|exact Ha].
    - assert (Hjn : j < n) by eauto. destruct (IH Hjn) as [IH1 IH2]. split; [|exact IH2].
      eapply core_conn_snoc; eauto.
  Qed.

  (* labels are constant along chains of core points *)
  Lemma conn_same_label : forall k y, OInv nb minpts n n k y ->
    forall a b, core_conn a b -> a < n -> core a -> (0 <= get y a)%Z -> get y b = get y a.
  Proof.
    intros k y HO a b H. induction H as [i | i j l Hi Hj Hin _ IH]; intros Ha Hc H0; [reflexivity|].
    assert (Hjn : j < n) by eauto.
    destruct (o_closed _ _ _ _ _ _ HO i j Ha Hc H0 Hin) as [A B].
    specialize (B Hj). rewrite <- B. apply IH; auto; lia.
  Qed.

  Lemma dbscan_correct : forall y c,
    dbscan nb minpts n = Some (y, c) ->
    length y = n /\ (0 <= c)%Z /\
    (forall i, i < n -> get y i = (-1)%Z \/ (0 <= get y i < c)%Z) /\
    (forall i, i < n -> core i -> (0 <= get y i < c)%Z) /\
    (forall i j, i < n -> j < n -> core i -> core j -> (get y i = get y j <-> core_conn i j)) /\
    (forall i, i < n -> ~ core i -> (exists q, In q (nb i) /\ core q) ->
       exists q, In q (nb i) /\ core q /\ get y i = get y q) /\
    (forall i, i < n -> ~ core i -> (forall q, In q (nb i) -> ~ core q) -> get y i = (-1)%Z) /\
    (forall l, (0 <= l < c)%Z -> exists i, i < n /\ core i /\ get y i = l) /\
    (forall i q, i < n -> In q (nb i) -> core q -> (0 <= get y i <= get y q)%Z).
  Proof.
    intros y c Hrun. pose proof (dbscan_inv nb minpts n Hrange Hsym y c Hrun) as HO.
    assert (Hlab : forall i, i < n -> get y i = (-1)%Z \/ (0 <= get y i < c)%Z).
    { intros i Hi. pose proof (o_done _ _ _ _ _ _ HO i Hi Hi).
      destruct (o_lab _ _ _ _ _ _ HO i Hi) as [H1|[H1|H1]]; lab; auto. contradiction. }
    assert (Hcore : forall i, i < n -> core i -> (0 <= get y i < c)%Z).
    { intros i Hi Hc. destruct (Hlab i Hi) as [H|H]; [|exact H].
      exfalso. eapply (o_out _ _ _ _ _ _ HO); eauto. }
    split; [apply (o_len _ _ _ _ _ _ HO)|]. split; [apply (o_k _ _ _ _ _ _ HO)|].
    split; [exact Hlab|]. split; [exact Hcore|]. split; [|split; [|split; [|split]]].
    - intros i j Hi Hj Hci Hcj. split.
      + intro Heq. destruct (o_seed _ _ _ _ _ _ HO (get y i) (Hcore i Hi Hci)) as (s & _ & Hs & _ & _ & Hconn & _).
        pose proof (Hconn i Hi Hci eq_refl) as C1.
        pose proof (Hconn j Hj Hcj (eq_sym Heq)) as C2.
        destruct (core_conn_sym_n s i C1 Hs) as [C3 _].
        eapply core_conn_trans; eauto.
      + intro Hconn. symmetry. eapply conn_same_label; eauto. apply Hcore; auto.
    - intros i Hi Hnc (q & Q1 & Q2).
      assert (Hqn : q < n) by eauto.
      pose proof (Hcore q Hqn Q2) as Hq.
      destruct (o_closed _ _ _ _ _ _ HO q i Hqn Q2 ltac:(lia) (Hsym i q Hi Q1)) as [A _].
      destruct (o_border _ _ _ _ _ _ HO i Hi Hnc ltac:(lia)) as (q' & Q1' & Q2' & Q3').
      exists q'. auto.
    - intros i Hi Hnc Hnone. destruct (Hlab i Hi) as [H|H]; [exact H|exfalso].
      destruct (o_border _ _ _ _ _ _ HO i Hi Hnc ltac:(lia)) as (q & Q1 & Q2 & _).
      exact (Hnone q Q1 Q2).
    - intros l Hl. destruct (o_seed _ _ _ _ _ _ HO l Hl) as (s & _ & Hs & Hc & Hy & _).
      exists s. auto.
    - intros i q Hi Hin Hcq. assert (Hqn : q < n) by eauto.
      pose proof (Hcore q Hqn Hcq) as Hq.
      destruct (o_closed _ _ _ _ _ _ HO q i Hqn Hcq ltac:(lia) (Hsym i q Hi Hin)) as [A _]. exact A.
  Qed.

  (* the seed of cluster l is the smallest core index whose label is >= l: cluster ids follow index order *)
  Lemma dbscan_seeds : forall y c,
    dbscan nb minpts n = Some (y, c) ->
    forall l, (0 <= l < c)%Z -> exists s, s < n /\ core s /\ get y s = l /\
      (forall p, p < n -> core p -> (l <= get y p)%Z -> s <= p).
  Proof.
    intros y c Hrun l Hl. pose proof (dbscan_inv nb minpts n Hrange Hsym y c Hrun) as HO.
    destruct (o_seed _ _ _ _ _ _ HO l Hl) as (s & _ & Hs & Hc & Hy & _ & Hmin).
    exists s. auto.
  Qed.

  (* ---------- termination: explicit measure ---------- *)
  Definition is_open (v : Z) : bool := Z.eqb v undefined || Z.eqb v queued.

  (* total length of the neighbour lists of the points that may still be expanded *)
  Fixpoint weight_from (j : nat) (y : list Z) : nat :=
    match y with
    | [] => 0
    | v :: t => (if is_open v then length (nb j) else 0) + weight_from (S j) t
    end.

  Definition sum_len (l : list nat) : nat := fold_right (fun j s => length (nb j) + s) 0 l.

  Lemma weight_le_sum : forall y s, weight_from s y <= sum_len (seq s (length y)).
  Proof.
    unfold sum_len. induction y as [|v t IH]; intro s; cbn [weight_from length seq fold_right]; [lia|].
    specialize (IH (S s)). destruct (is_open v); lia.
  Qed.

  Lemma sum_len_in : forall l j, In j l -> length (nb j) <= sum_len l.
  Proof.
    unfold sum_len. induction l as [|a t IH]; intros j Hj; [destruct Hj|].
    cbn [fold_right]. destruct Hj as [->|H]; [lia|]. specialize (IH j H). lia.
  Qed.

  Lemma get_cons_S : forall v t j, get (v :: t) (S j) = get t j.
  Proof. reflexivity. Qed.

  Lemma weight_upd : forall y s idx v, idx < length y ->
    weight_from s (upd y idx v) + (if is_open (get y idx) then length (nb (s + idx)) else 0) =
    weight_from s y + (if is_open v then length (nb (s + idx)) else 0).
  Proof.
    induction y as [|h t IH]; intros s [|idx] v Hlt; simpl in Hlt; try lia.
    - cbn [upd weight_from]. unfold get; cbn [nth]. replace (s + 0) with s by lia. lia.
    - cbn [upd weight_from]. rewrite get_cons_S.
      specialize (IH (S s) idx v ltac:(lia)). replace (S s + idx) with (s + S idx) in IH by lia. lia.
  Qed.

  Lemma weight_ext : forall y y' s, length y = length y' ->
    (forall j, is_open (get y j) = is_open (get y' j)) -> weight_from s y = weight_from s y'.
  Proof.
    induction y as [|h t IH]; intros [|h' t'] s Hlen Hpt; simpl in Hlen; try lia; try reflexivity.
    cbn [weight_from]. pose proof (Hpt 0) as H0. unfold get in H0; cbn [nth] in H0. rewrite H0.
    f_equal. apply IH; [lia|]. intro j. apply (Hpt (S j)).
  Qed.

  Lemma is_open_label : forall k, (0 <= k)%Z -> is_open k = false.
  Proof.
    intros k Hk. unfold is_open.
    destruct (Z.eqb_spec k undefined); [lab; lia|]. destruct (Z.eqb_spec k queued); [lab; lia|]. reflexivity.
  Qed.

  Lemma expand_terminates : forall fuel k y st,
    (0 <= k)%Z -> length y = n -> (forall j, In j st -> j < n) ->
    length st + weight_from 0 y <= fuel ->
    exists y', expand nb minpts fuel k y st = Some y' /\ length y' = n.
  Proof.
    induction fuel as [|f IH]; intros k y st Hk Hlen Hst Hfuel.
    - destruct st; simpl in *; [eauto|lia].
    - destruct st as [|idx st']; [simpl; eauto|].
      rewrite expand_S. cbv zeta.
      assert (Hidx : idx < n) by (apply Hst; left; reflexivity).
      assert (Hst' : forall j, In j st' -> j < n) by (intros j Hj; apply Hst; right; exact Hj).
      pose proof (is_open_label k Hk) as Hok.
      pose proof (weight_upd y 0 idx k ltac:(lia)) as Hw. rewrite Hok in Hw. cbn [plus] in Hw.
      simpl in Hfuel.
      destruct (Z.eqb_spec (get y idx) outlier) as [Ho|Hno].
      + rewrite get_upd_same by lia.
        replace (Z.eqb k undefined) with false by (symmetry; apply Z.eqb_neq; lab; lia).
        replace (Z.eqb k queued) with false by (symmetry; apply Z.eqb_neq; lab; lia).
        cbn [orb]. apply IH; auto; [rewrite upd_length; exact Hlen|].
        destruct (is_open (get y idx)); lia.
      + destruct (Z.eqb (get y idx) undefined || Z.eqb (get y idx) queued) eqn:Hopen.
        * change (is_open (get y idx) = true) in Hopen. rewrite Hopen in Hw.
          destruct (Nat.leb_spec minpts (length (nb idx))) as [Hc|Hnc].
          -- destruct (scan_spec (nb idx) (upd y idx k) st') as (S1 & S2 & S4 & _ & _ & S7).
             set (r := scan_secondary (upd y idx k) st' (nb idx)) in *.
             apply IH; auto.
             ++ rewrite S1, upd_length. exact Hlen.
             ++ intros j Hj. destruct (S4 j Hj) as [H|[H _]]; eauto.
             ++ assert (weight_from 0 (fst r) = weight_from 0 (upd y idx k)).
                { apply weight_ext; [exact S1|]. intro j.
                  destruct (S2 j) as [H|(H1 & H2 & _)]; [rewrite H; reflexivity|].
                  rewrite H1, H2. reflexivity. }
                lia.
          -- apply IH; auto; [rewrite upd_length; exact Hlen|lia].
        * apply IH; auto. lia.
  Qed.

  Lemma outer_terminates : forall fuel m i0 k y,
    2 * sum_len (seq 0 n) <= fuel -> i0 + m = n -> (0 <= k)%Z -> length y = n ->
    exists res, outer nb minpts fuel (seq i0 m) k y = Some res.
  Proof.
    induction m as [|m IH]; intros i0 k y Hfuel Hn Hk Hlen; [simpl; eauto|].
    cbn [seq outer].
    destruct (Z.eqb (get y i0) undefined).
    - destruct (length (nb i0) <? minpts).
      + apply IH; auto; [lia|rewrite upd_length; exact Hlen].
      + destruct (expand_terminates fuel k (mark_queued (upd y i0 k) (nb i0)) (rev (nb i0))) as (y3 & Hex & Hl3); auto.
        * destruct (mark_queued_spec (nb i0) (upd y i0 k)) as [M1 _]. rewrite M1, upd_length. exact Hlen.
        * intros j Hj. apply in_rev in Hj. apply (Hrange i0); [lia|exact Hj].
        * rewrite rev_length.
          pose proof (sum_len_in (seq 0 n) i0 ltac:(apply in_seq; lia)).
          pose proof (weight_le_sum (mark_queued (upd y i0 k) (nb i0)) 0) as Hw.
          destruct (mark_queued_spec (nb i0) (upd y i0 k)) as [M1 _].
          rewrite M1, upd_length, Hlen in Hw. lia.
        * rewrite Hex. apply IH; auto; lia.
    - apply IH; auto. lia.
  Qed.

  (* fit never runs out of fuel: the `while` loop of the implementation terminates *)
  Lemma dbscan_terminates : exists y c, dbscan nb minpts n = Some (y, c).
  Proof.
    unfold dbscan.
    destruct (outer_terminates (dbscan_fuel nb n) n 0 0%Z (repeat undefined n)) as ([y c] & H).
    - unfold dbscan_fuel, total_nb, sum_len. lia.
    - lia.
    - lia.
    - apply repeat_length.
    - eauto.
  Qed.

  (* more fuel never changes the result *)
  Lemma expand_fuel_mono : forall f k y st y', expand nb minpts f k y st = Some y' ->
    forall f', f <= f' -> expand nb minpts f' k y st = Some y'.
  Proof.
    induction f as [|f IH]; intros k y st y' H f' Hle.
    - destruct st; simpl in H; [|discriminate]. destruct f'; simpl; exact H.
    - destruct st as [|idx st']; [destruct f'; simpl in *; exact H|].
      destruct f' as [|f']; [lia|]. rewrite expand_S in *. cbv zeta in *.
      destruct (Z.eqb (get (if Z.eqb (get y idx) outlier then upd y idx k else y) idx) undefined
                || Z.eqb (get (if Z.eqb (get y idx) outlier then upd y idx k else y) idx) queued).
      + destruct (minpts <=? length (nb idx)); apply IH with (f' := f') in H; auto; lia.
      + apply IH with (f' := f') in H; auto; lia.
  Qed.

  Lemma outer_fuel_mono : forall f f' pts k y res, f <= f' ->
    outer nb minpts f pts k y = Some res -> outer nb minpts f' pts k y = Some res.
  Proof.
    induction pts as [|i rest IH]; intros k y res Hle H; [exact H|].
    cbn [outer] in *. destruct (Z.eqb (get y i) undefined); [|auto].
    destruct (length (nb i) <? minpts); [auto|].
    destruct (expand nb minpts f k (mark_queued (upd y i k) (nb i)) (rev (nb i))) as [y3|] eqn:Hex; [|discriminate].
    rewrite (expand_fuel_mono _ _ _ _ _ Hex f' Hle). auto.
  Qed.

  Lemma dbscan_fuel_irrelevant : forall fuel, dbscan_fuel nb n <= fuel ->
    outer nb minpts fuel (seq 0 n) 0%Z (repeat undefined n) = dbscan nb minpts n.
  Proof.
    intros fuel Hle. destruct dbscan_terminates as (y & c & H). rewrite H.
    eapply outer_fuel_mono; eauto.
  Qed.

  (* with duplicate-free lists the fuel is at most 2 n^2 *)
  Lemma dbscan_fuel_quadratic : (forall i, i < n -> NoDup (nb i)) -> dbscan_fuel nb n <= 2 * (n * n).
  Proof.
    intro Hnd. unfold dbscan_fuel, total_nb.
    assert (H : forall l, (forall j, In j l -> j < n) -> fold_right (fun j s => length (nb j) + s) 0 l <= length l * n).
    { induction l as [|a t IH]; intro Hl; simpl; [lia|].
      assert (length (nb a) <= n).
      { rewrite <- (seq_length n 0). apply NoDup_incl_length; [apply Hnd; apply Hl; left; reflexivity|].
        intros q Hq. apply in_seq. pose proof (Hrange a q (Hl a (or_introl eq_refl)) Hq). lia. }
      specialize (IH (fun j Hj => Hl j (or_intror Hj))). lia. }
    specialize (H (seq 0 n) ltac:(intros j Hj; apply in_seq in Hj; lia)).
    rewrite seq_length in H. lia.
  Qed.
End Main.
