(* C13 — soundness of the boolean checks used by the correspondence interface: a correspondence
   case that evaluates to `true` establishes the hypotheses of C13_dbscan_correct for the
   neighbour lists the implementation's search structure returned, and that the model's output on
   them is exactly the implementation's (cluster_labels, num_classes). *)
From Coq Require Import List Arith ZArith NArith Bool Lia.
From SC Require Import Base.FloatUtil C13.Model C13.Spec C13.Corr.
Import ListNotations.

Lemma mem_nat_In : forall c l, mem_nat c l = true <-> In c l.
Proof.
  intros c l. unfold mem_nat. rewrite existsb_exists. split.
  - intros (x & Hx & E). apply Nat.eqb_eq in E. subst. exact Hx.
  - intro H. exists c. split; [exact H|apply Nat.eqb_refl].
Qed.

Lemma nodup_b_NoDup : forall l, nodup_b l = true -> NoDup l.
Proof.
  induction l as [|a t IH]; simpl; intro H; [constructor|].
  apply andb_prop in H as [H1 H2]. constructor; [|auto].
  intro Hin. apply mem_nat_In in Hin. rewrite Hin in H1. discriminate.
Qed.

Lemma zlist_eqb_eq : forall a b, zlist_eqb a b = true -> a = b.
Proof.
  unfold zlist_eqb. induction a as [|x t IH]; intros [|y u] H; simpl in H; try discriminate; [reflexivity|].
  apply andb_prop in H as [H1 H2]. apply Z.eqb_eq in H1. subst. f_equal. auto.
Qed.

Lemma wf_nb_sound : forall nbs, wf_nb nbs = true ->
  nb_in_range (nb_of nbs) (length nbs) /\ nb_symmetric (nb_of nbs) (length nbs) /\
  (forall i, i < length nbs -> NoDup (nb_of nbs i)) /\
  (forall i, i < length nbs -> In i (nb_of nbs i)).
Proof.
  intros nbs H. unfold wf_nb in H.
  apply andb_prop in H as [H H3]. apply andb_prop in H as [H1 H2].
  rewrite forallb_forall in H1, H2, H3.
  assert (Hpair : forall i j, i < length nbs -> In j (nb_of nbs i) ->
                  j < length nbs /\ In i (nb_of nbs j)).
  { intros i j Hi Hj. specialize (H2 i ltac:(apply in_seq; lia)).
    rewrite forallb_forall in H2. specialize (H2 j Hj).
    apply andb_prop in H2 as [A B]. apply Nat.ltb_lt in A. apply mem_nat_In in B. auto. }
  split; [intros i j Hi Hj; apply (Hpair i j Hi Hj)|].
  split; [intros i j Hi Hj; apply (Hpair i j Hi Hj)|].
  split.
  - intros i Hi. apply nodup_b_NoDup. apply H3. unfold nb_of. apply nth_In. exact Hi.
  - intros i Hi. apply mem_nat_In. apply H1. apply in_seq. lia.
Qed.

(* an agreeing `corr_fit` case: the backend's lists satisfy the theorem's hypotheses and the model
   maps them to the implementation's output *)
Lemma corr_fit_sound : forall minpts nbs exp_y exp_c,
  corr_fit minpts nbs exp_y exp_c = true ->
  let nbs' := map to_nats nbs in
  let n := length nbs' in
  nb_in_range (nb_of nbs') n /\ nb_symmetric (nb_of nbs') n /\
  (forall i, i < n -> NoDup (nb_of nbs' i)) /\
  1 <= N.to_nat minpts /\
  dbscan (nb_of nbs') (N.to_nat minpts) n = Some (exp_y, exp_c).
Proof.
  intros minpts nbs exp_y exp_c H. cbv zeta. unfold corr_fit in H.
  apply andb_prop in H as [Hwf Hrun].
  destruct (wf_nb_sound _ Hwf) as (A & B & C & _).
  split; [exact A|]. split; [exact B|]. split; [exact C|].
  unfold run_fit, fit in Hrun.
  destruct (Nat.ltb_spec (N.to_nat minpts) 1) as [Hlt|Hge]; [discriminate|].
  split; [exact Hge|].
  destruct (dbscan (nb_of (map to_nats nbs)) (N.to_nat minpts) (length (map to_nats nbs))) as [[y c]|];
    [|discriminate].
  apply andb_prop in Hrun as [Hy Hc]. apply zlist_eqb_eq in Hy. apply Z.eqb_eq in Hc. subst. reflexivity.
Qed.
