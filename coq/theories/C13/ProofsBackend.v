(* C13 — independence of the search backend: two neighbourhood functions that list the same index
   *sets* (in any order, without repetitions) give the same number of clusters, the same label on
   every core point and the same noise set.  Cluster ids are canonical because the seed of cluster l
   is the smallest core index with label >= l (dbscan_seeds). *)
From Coq Require Import List Arith ZArith Bool Lia.
From SC Require Import C13.Model C13.Spec C13.ProofsBase C13.ProofsInv C13.ProofsMain.
Import ListNotations.

Section Agree.
  Variable n : nat.
  Variable corep : nat -> Prop.
  Variable conn : nat -> nat -> Prop.

  Record run_facts (y : nat -> Z) (c : Z) : Prop := {
    rf_nonneg : (0 <= c)%Z;
    rf_range : forall i, i < n -> corep i -> (0 <= y i < c)%Z;
    rf_part : forall i j, i < n -> j < n -> corep i -> corep j -> (y i = y j <-> conn i j);
    rf_seed : forall l, (0 <= l < c)%Z -> exists s, s < n /\ corep s /\ y s = l /\
                forall p, p < n -> corep p -> (l <= y p)%Z -> s <= p
  }.

  Lemma agree_half : forall ya ca yb cb, run_facts ya ca -> run_facts yb cb ->
    forall l, (0 <= l)%Z ->
    (forall l', (0 <= l' < l)%Z -> forall p, p < n -> corep p -> (ya p = l' <-> yb p = l')) ->
    forall p, p < n -> corep p -> ya p = l -> yb p = l.
  Proof.
    intros ya ca yb cb Fa Fb l Hl IH p Hp Hc Hyp.
    pose proof (rf_range _ _ Fa p Hp Hc) as Hra.
    destruct (rf_seed _ _ Fa l ltac:(lia)) as (s1 & S1 & S2 & S3 & S4).
    pose proof (rf_range _ _ Fb s1 S1 S2) as Hm.
    assert (Hlm : (l <= yb s1)%Z).
    { destruct (Z_lt_le_dec (yb s1) l) as [Hlt|]; [|assumption].
      destruct (IH (yb s1) ltac:(lia) s1 S1 S2) as [_ B]. specialize (B eq_refl). lia. }
    assert (Heq : yb s1 = l).
    { destruct (Z.eq_dec (yb s1) l) as [|Hne]; [assumption|exfalso].
      destruct (rf_seed _ _ Fb l ltac:(lia)) as (s2 & T1 & T2 & T3 & T4).
      pose proof (T4 s1 S1 S2 Hlm) as H21.
      pose proof (rf_range _ _ Fa s2 T1 T2) as Hr2.
      assert (Hl2 : (l <= ya s2)%Z).
      { destruct (Z_lt_le_dec (ya s2) l) as [Hlt|]; [|assumption].
        destruct (IH (ya s2) ltac:(lia) s2 T1 T2) as [A _]. specialize (A eq_refl). lia. }
      pose proof (S4 s2 T1 T2 Hl2) as H12.
      assert (s1 = s2) by lia. subst s2. lia. }
    assert (Hconn : conn p s1) by (apply (rf_part _ _ Fa); auto; congruence).
    apply (rf_part _ _ Fb) in Hconn; auto. congruence.
  Qed.

  Lemma agree : forall ya ca yb cb, run_facts ya ca -> run_facts yb cb ->
    forall l, (0 <= l)%Z -> forall p, p < n -> corep p -> (ya p = l <-> yb p = l).
  Proof.
    intros ya ca yb cb Fa Fb l Hl. pattern l. apply Zlt_0_ind; [|exact Hl].
    intros x IH Hx p Hp Hc. split.
    - apply (agree_half ya ca yb cb Fa Fb x Hx); auto.
    - apply (agree_half yb cb ya ca Fb Fa x Hx); auto.
      intros l' Hl' q Hq Hcq. split; apply IH; auto.
  Qed.

  Lemma agree_labels : forall ya ca yb cb, run_facts ya ca -> run_facts yb cb ->
    ca = cb /\ forall p, p < n -> corep p -> ya p = yb p.
  Proof.
    intros ya ca yb cb Fa Fb.
    assert (Hlab : forall p, p < n -> corep p -> ya p = yb p).
    { intros p Hp Hc. pose proof (rf_range _ _ Fa p Hp Hc).
      symmetry. apply (agree ya ca yb cb Fa Fb (ya p)); auto. lia. }
    split; [|exact Hlab].
    assert (Hle : forall y c y' c', run_facts y c -> run_facts y' c' ->
                  (forall p, p < n -> corep p -> y p = y' p) -> (c <= c')%Z).
    { intros y c y' c' F F' E. pose proof (rf_nonneg _ _ F'). 
      destruct (Z_lt_le_dec 0 c) as [Hpos|]; [|lia].
      destruct (rf_seed _ _ F (c - 1)%Z ltac:(lia)) as (s & S1 & S2 & S3 & _).
      pose proof (rf_range _ _ F' s S1 S2) as H0. rewrite <- (E s S1 S2) in H0. lia. }
    pose proof (Hle ya ca yb cb Fa Fb Hlab).
    pose proof (Hle yb cb ya ca Fb Fa (fun p Hp Hc => eq_sym (Hlab p Hp Hc))).
    lia.
  Qed.
End Agree.

Section Backend.
  Variables nb1 nb2 : nat -> list nat.
  Variable minpts : nat.
  Variable n : nat.
  Hypothesis Hrange1 : forall i j, i < n -> In j (nb1 i) -> j < n.
  Hypothesis Hsym1 : forall i j, i < n -> In j (nb1 i) -> In i (nb1 j).
  Hypothesis Hset : forall i j, i < n -> (In j (nb1 i) <-> In j (nb2 i)).
  Hypothesis Hnd1 : forall i, i < n -> NoDup (nb1 i).
  Hypothesis Hnd2 : forall i, i < n -> NoDup (nb2 i).

  Lemma Hrange2 : forall i j, i < n -> In j (nb2 i) -> j < n.
  Proof. intros i j Hi Hj. apply (Hrange1 i); [exact Hi|]. apply Hset; assumption. Qed.

  Lemma Hsym2 : forall i j, i < n -> In j (nb2 i) -> In i (nb2 j).
  Proof.
    intros i j Hi Hj. pose proof (Hrange2 i j Hi Hj) as Hjn.
    apply Hset; [exact Hjn|]. apply Hsym1; [exact Hi|]. apply Hset; assumption.
  Qed.

  Lemma len_eq : forall i, i < n -> length (nb1 i) = length (nb2 i).
  Proof.
    intros i Hi. apply Nat.le_antisymm; apply NoDup_incl_length; auto; intros q Hq; apply (Hset i q Hi); exact Hq.
  Qed.

  Lemma core_eq : forall i, i < n -> (core nb1 minpts i <-> core nb2 minpts i).
  Proof. intros i Hi. unfold core. rewrite (len_eq i Hi). tauto. Qed.

  Lemma conn_12 : forall a b, core_conn nb1 minpts a b -> a < n -> core_conn nb2 minpts a b.
  Proof.
    intros a b H. induction H as [i | i j k Hi Hj Hin _ IH]; intro Ha; [apply cc_refl|].
    assert (Hjn : j < n) by eauto.
    eapply cc_step; [apply core_eq; eauto|apply core_eq; eauto|apply Hset; eauto|auto].
  Qed.

  Lemma conn_21 : forall a b, core_conn nb2 minpts a b -> a < n -> core_conn nb1 minpts a b.
  Proof.
    intros a b H. induction H as [i | i j k Hi Hj Hin _ IH]; intro Ha; [apply cc_refl|].
    assert (Hjn : j < n) by (eapply Hrange2; eauto).
    eapply cc_step; [apply core_eq; eauto|apply core_eq; eauto|apply Hset; eauto|auto].
  Qed.

  Lemma backend_independent : forall y1 c1 y2 c2,
    dbscan nb1 minpts n = Some (y1, c1) -> dbscan nb2 minpts n = Some (y2, c2) ->
    c1 = c2 /\
    (forall i, i < n -> core nb1 minpts i -> get y1 i = get y2 i) /\
    (forall i, i < n -> (get y1 i = (-1)%Z <-> get y2 i = (-1)%Z)).
  Proof.
    intros y1 c1 y2 c2 R1 R2.
    pose proof (dbscan_correct nb1 minpts n Hrange1 Hsym1 y1 c1 R1) as (_ & K1 & L1 & C1 & P1 & B1 & N1 & _ & _).
    pose proof (dbscan_correct nb2 minpts n Hrange2 Hsym2 y2 c2 R2) as (_ & K2 & L2 & C2 & P2 & B2 & N2 & _ & _).
    assert (F1 : run_facts n (core nb1 minpts) (core_conn nb1 minpts) (get y1) c1).
    { constructor; auto. intros l Hl.
      destruct (dbscan_seeds nb1 minpts n Hrange1 Hsym1 y1 c1 R1 l Hl) as (s & S1 & S2 & S3 & S4).
      exists s. auto. }
    assert (F2 : run_facts n (core nb1 minpts) (core_conn nb1 minpts) (get y2) c2).
    { constructor; auto.
      - intros i Hi Hc. apply C2; auto. apply core_eq; auto.
      - intros i j Hi Hj Hci Hcj. rewrite (P2 i j Hi Hj); [|apply core_eq; auto|apply core_eq; auto].
        split; intro H; [apply conn_21|apply conn_12]; auto.
      - intros l Hl.
        destruct (dbscan_seeds nb2 minpts n Hrange2 Hsym2 y2 c2 R2 l Hl) as (s & S1 & S2 & S3 & S4).
        exists s. split; [exact S1|]. split; [apply core_eq; auto|]. split; [exact S3|].
        intros p Hp Hc. apply S4; auto. apply core_eq; auto. }
    destruct (agree_labels n _ _ _ _ _ _ F1 F2) as [Hc Hl].
    split; [exact Hc|]. split; [exact Hl|].
    (* noise = not core and no core point in the neighbourhood: a property of the sets *)
    assert (Hnoise : forall nb y c, (forall i j, i < n -> In j (nb i) -> j < n) ->
              (forall i j, i < n -> In j (nb i) -> In i (nb j)) ->
              dbscan nb minpts n = Some (y, c) ->
              forall i, i < n -> (get y i = (-1)%Z <->
                                  ~ core nb minpts i /\ forall q, In q (nb i) -> ~ core nb minpts q)).
    { intros nb y c Hr Hs R i Hi.
      pose proof (dbscan_correct nb minpts n Hr Hs y c R) as (_ & _ & _ & C & _ & B & N & _ & _).
      split.
      - intro Hm. assert (Hnc : ~ core nb minpts i) by (intro Hc'; specialize (C i Hi Hc'); lia).
        split; [exact Hnc|]. intros q Hq Hcq.
        destruct (B i Hi Hnc (ex_intro _ q (conj Hq Hcq))) as (q' & Q1 & Q2 & Q3).
        assert (q' < n) by eauto. specialize (C q' H Q2). lia.
      - intros [Hnc Hnone]. apply N; auto. }
    intros i Hi. rewrite (Hnoise nb1 y1 c1 Hrange1 Hsym1 R1 i Hi), (Hnoise nb2 y2 c2 Hrange2 Hsym2 R2 i Hi).
    split; intros [A B]; (split; [rewrite core_eq in *; auto; tauto|]); intros q Hq.
    - assert (q < n) by (eapply Hrange2; eauto). rewrite <- core_eq by assumption. apply B. apply Hset; auto.
    - assert (q < n) by (eapply Hrange1; eauto). rewrite core_eq by assumption. apply B. apply Hset; auto.
  Qed.

  (* border points too: a border point gets the smallest cluster id among its core neighbours, so the
     whole labelling is a function of the neighbourhood sets *)
  Lemma backend_independent_all : forall y1 c1 y2 c2,
    dbscan nb1 minpts n = Some (y1, c1) -> dbscan nb2 minpts n = Some (y2, c2) ->
    y1 = y2 /\ c1 = c2.
  Proof.
    intros y1 c1 y2 c2 R1 R2.
    destruct (backend_independent y1 c1 y2 c2 R1 R2) as (Hc & Hcore & Hnoise).
    split; [|exact Hc].
    pose proof (dbscan_correct nb1 minpts n Hrange1 Hsym1 y1 c1 R1) as (Len1 & _ & L1 & _ & _ & B1 & _ & _ & M1).
    pose proof (dbscan_correct nb2 minpts n Hrange2 Hsym2 y2 c2 R2) as (Len2 & _ & L2 & _ & _ & B2 & _ & _ & M2).
    apply (nth_ext y1 y2 undefined undefined); [congruence|].
    intros i Hi. rewrite Len1 in Hi. change (get y1 i = get y2 i).
    destruct (core_dec nb1 minpts i) as [Hci|Hnc]; [auto|].
    destruct (L1 i Hi) as [H1|H1]; [rewrite H1; symmetry; apply Hnoise; auto|].
    destruct (L2 i Hi) as [H2|H2]; [rewrite H2; apply Hnoise; auto|].
    assert (Hnc2 : ~ core nb2 minpts i) by (rewrite <- core_eq; auto).
    (* both labelled: each is the label of a core neighbour and a lower bound of all of them *)
    assert (E1 : exists q, In q (nb1 i) /\ core nb1 minpts q).
    { destruct (core_dec nb1 minpts i); [contradiction|].
      destruct (L1 i Hi) as [E|_]; [lia|].
      pose proof (dbscan_inv nb1 minpts n Hrange1 Hsym1 y1 c1 R1) as HO.
      destruct (o_border _ _ _ _ _ _ HO i Hi Hnc ltac:(lia)) as (q & Q1 & Q2 & _). eauto. }
    destruct (B1 i Hi Hnc E1) as (q1 & Q1 & Q2 & Q3).
    assert (E2 : exists q, In q (nb2 i) /\ core nb2 minpts q).
    { destruct E1 as (q & A & B). exists q. split; [apply Hset; auto|].
      apply core_eq; eauto. }
    destruct (B2 i Hi Hnc2 E2) as (q2 & T1 & T2 & T3).
    assert (q1 < n) by (apply (Hrange1 i q1 Hi Q1)). assert (q2 < n) by (apply (Hrange2 i q2 Hi T1)).
    pose proof (M2 i q1 Hi ltac:(apply Hset; auto) ltac:(apply core_eq; auto)) as Hle2.
    pose proof (M1 i q2 Hi ltac:(apply Hset; auto) ltac:(apply core_eq; auto)) as Hle1.
    rewrite <- (Hcore q1) in Hle2 by auto.
    rewrite (Hcore q2) in Hle1 by (auto; apply core_eq; auto).
    lia.
  Qed.
End Backend.
