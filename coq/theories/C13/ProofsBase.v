(* C13 — basic lemmas: reads/writes of the label vector and pointwise specifications of the two
   inner `for` loops of DBSCAN::fit (`mark_queued`, `scan_secondary`). *)
From Coq Require Import List Arith ZArith Bool Lia.
From SC Require Import C13.Model.
Import ListNotations.

Ltac lab := unfold undefined, queued, outlier in *.

Lemma upd_length : forall y j v, length (upd y j v) = length y.
Proof. induction y as [|h t IH]; intros [|j] v; simpl; auto. Qed.

Lemma get_upd_same : forall y j v, j < length y -> get (upd y j v) j = v.
Proof.
  unfold get. induction y as [|h t IH]; intros [|j] v H; simpl in *; try lia; auto.
  apply IH. lia.
Qed.

Lemma get_upd_other : forall y j i v, i <> j -> get (upd y j v) i = get y i.
Proof.
  unfold get. induction y as [|h t IH]; intros [|j] [|i] v H; simpl in *; auto; try lia.
Qed.

Lemma get_oob : forall y j, length y <= j -> get y j = undefined.
Proof. intros. unfold get. apply nth_overflow. assumption. Qed.

Lemma get_upd_cases : forall y j i v,
  (i = j /\ j < length y /\ get (upd y j v) i = v) \/ (get (upd y j v) i = get y i).
Proof.
  intros y j i v. destruct (Nat.eq_dec i j) as [->|Hne].
  - destruct (lt_dec j (length y)) as [Hlt|Hge].
    + left. auto using get_upd_same.
    + right. rewrite !get_oob; auto; rewrite ?upd_length; lia.
  - right. apply get_upd_other. assumption.
Qed.

Lemma get_repeat_undefined : forall n j, get (repeat undefined n) j = undefined.
Proof.
  unfold get. induction n as [|n IH]; intros [|j]; simpl; auto.
Qed.

(* ---------- mark_queued ---------- *)
Section Loops.
  Variable nb : nat -> list nat.
  Variable minpts : nat.

  Lemma mark_step_cases : forall y a,
    (get y a <> undefined /\ mark_step y a = y) \/
    (get y a = undefined /\ mark_step y a = upd y a queued).
  Proof.
    intros y a. unfold mark_step. destruct (Z.eqb_spec (get y a) undefined); auto.
  Qed.

  Lemma mark_queued_spec : forall ns y,
    length (mark_queued y ns) = length y /\
    (forall j, get (mark_queued y ns) j = get y j \/
               (get y j = undefined /\ get (mark_queued y ns) j = queued /\ In j ns)).
  Proof.
    induction ns as [|a tl IH]; intro y.
    - simpl. auto.
    - change (mark_queued y (a :: tl)) with (mark_queued (mark_step y a) tl).
      destruct (IH (mark_step y a)) as [IH1 IH2].
      destruct (mark_step_cases y a) as [[Hn He]|[Hu He]]; rewrite He in *.
      + split; [exact IH1|]. intro j. destruct (IH2 j) as [H|(H1 & H2 & H3)]; [left; exact H|].
        right. simpl. auto.
      + rewrite upd_length in IH1. split; [exact IH1|]. intro j.
        destruct (get_upd_cases y a j queued) as [(-> & Hlt & Hg)|Hg].
        * destruct (IH2 a) as [H|(H1 & _)].
          -- right. rewrite H, Hg. simpl. auto.
          -- rewrite Hg in H1. lab. discriminate.
        * destruct (IH2 j) as [H|(H1 & H2 & H3)].
          -- left. congruence.
          -- right. rewrite <- Hg. simpl. auto.
  Qed.

  (* ---------- scan_secondary ---------- *)
  Lemma scan_step_cases : forall y st a,
    (get y a = undefined /\ scan_step (y, st) a = (upd y a queued, a :: st)) \/
    (get y a = outlier /\ scan_step (y, st) a = (y, a :: st)) \/
    (get y a <> undefined /\ get y a <> outlier /\ scan_step (y, st) a = (y, st)).
  Proof.
    intros y st a. unfold scan_step. simpl.
    destruct (Z.eqb_spec (get y a) undefined) as [H1|H1]; simpl; auto.
    destruct (Z.eqb_spec (get y a) outlier) as [H2|H2]; simpl; auto.
  Qed.

  Lemma scan_cons : forall y st a tl,
    scan_secondary y st (a :: tl) =
    scan_secondary (fst (scan_step (y, st) a)) (snd (scan_step (y, st) a)) tl.
  Proof. intros. unfold scan_secondary. cbn [fold_left]. destruct (scan_step (y, st) a). reflexivity. Qed.

  Lemma scan_spec : forall ns y st,
    let r := scan_secondary y st ns in
    length (fst r) = length y /\
    (forall j, get (fst r) j = get y j \/ (get y j = undefined /\ get (fst r) j = queued /\ In j ns)) /\
    (forall q, In q (snd r) -> In q st \/ (In q ns /\ (get y q = undefined \/ get y q = outlier))) /\
    (forall q, In q ns -> get y q = undefined \/ get y q = outlier -> In q (snd r)) /\
    incl st (snd r) /\
    length (snd r) <= length st + length ns.
  Proof.
    induction ns as [|a tl IH]; intros y st.
    - simpl. repeat split; auto; try (intros ? []); try apply incl_refl; lia.
    - cbv zeta. rewrite scan_cons.
      destruct (scan_step_cases y st a) as [[Hu He]|[[Ho He]|(Hn1 & Hn2 & He)]]; rewrite He; cbn [fst snd].
      + (* undefined: queued and pushed *)
        destruct (IH (upd y a queued) (a :: st)) as (I1 & I2 & I3 & I4 & I5 & I6).
        rewrite upd_length in I1.
        assert (Hin_a : In a (snd (scan_secondary (upd y a queued) (a :: st) tl))) by (apply I5; simpl; auto).
        split; [exact I1|]. split; [|split; [|split; [|split]]].
        * intro j. destruct (get_upd_cases y a j queued) as [(-> & Hlt & Hg)|Hg].
          -- destruct (I2 a) as [H|(H1 & _)].
             ++ right. rewrite H, Hg. simpl. auto.
             ++ rewrite Hg in H1. lab. discriminate.
          -- destruct (I2 j) as [H|(H1 & H2 & H3)].
             ++ left. congruence.
             ++ right. rewrite <- Hg. simpl. auto.
        * intros q Hq. destruct (I3 q Hq) as [[<-|H]|(H1 & H2)].
          -- right. simpl. auto.
          -- left. exact H.
          -- destruct (get_upd_cases y a q queued) as [(-> & Hlt & Hg)|Hg].
             ++ right. simpl. auto.
             ++ right. rewrite Hg in H2. simpl. auto.
        * intros q [<-|Hq] Hl; [exact Hin_a|].
          destruct (Nat.eq_dec q a) as [->|Hne]; [exact Hin_a|].
          apply I4; [exact Hq|]. rewrite get_upd_other; auto.
        * intros q Hq. apply I5. simpl. auto.
        * simpl in *. lia.
      + (* outlier: pushed *)
        destruct (IH y (a :: st)) as (I1 & I2 & I3 & I4 & I5 & I6).
        assert (Hin_a : In a (snd (scan_secondary y (a :: st) tl))) by (apply I5; simpl; auto).
        split; [exact I1|]. split; [|split; [|split; [|split]]].
        * intro j. destruct (I2 j) as [H|(H1 & H2 & H3)]; [left; exact H|right; simpl; auto].
        * intros q Hq. destruct (I3 q Hq) as [[<-|H]|(H1 & H2)].
          -- right. simpl. auto.
          -- left. exact H.
          -- right. simpl. auto.
        * intros q [<-|Hq] Hl; [exact Hin_a|]. apply I4; assumption.
        * intros q Hq. apply I5. simpl. auto.
        * simpl in *. lia.
      + (* anything else: untouched *)
        destruct (IH y st) as (I1 & I2 & I3 & I4 & I5 & I6).
        split; [exact I1|]. split; [|split; [|split; [|split]]].
        * intro j. destruct (I2 j) as [H|(H1 & H2 & H3)]; [left; exact H|right; simpl; auto].
        * intros q Hq. destruct (I3 q Hq) as [H|(H1 & H2)]; [left; exact H|right; simpl; auto].
        * intros q [<-|Hq] Hl; [destruct Hl; contradiction|]. apply I4; assumption.
        * exact I5.
        * simpl in *. lia.
  Qed.
End Loops.
