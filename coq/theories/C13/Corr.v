(* C13 — correspondence interface: the DBSCAN model run on literal inputs and compared with what the
   implementation returned.  Used by harness/src/bin/c13.rs through `Eval vm_compute`.

   Groups
   - corr_fit        : the model on the neighbour lists the implementation's own search structure
                       returned (LinearKNNSearch / CoverTree `find_radius` for every training row,
                       in the order returned) must reproduce cluster_labels and num_classes exactly;
                       the lists must satisfy the theorems' hypotheses (`wf_nb`).
   - corr_fit_sets   : labels obtained with another backend (cover tree) against the model on the
                       linear-scan lists: same number of clusters, same labels on core points, same
                       noise set (what C13_core_labels_backend_independent states).
   - corr_fit_euclid : neighbour lists computed inside Coq from the binary64 data (Euclidian distance
                       = sqrt of the running sum of d*d, `d <= eps`, index order), then the model.
   - corr_predict    : `predict_one` on the fitted labels and the query rows' neighbour lists.
   - corr_fit_err    : parameter check (min_samples < 1 -> Err). *)
From Coq Require Import List ZArith NArith Bool Floats.
From SC Require Import Base.FloatUtil C13.Model.
Import ListNotations.

Definition to_nats := map N.to_nat.

Definition nb_of (nbs : list (list nat)) (i : nat) : list nat := nth i nbs [].

Definition mem_nat (c : nat) (l : list nat) : bool := existsb (Nat.eqb c) l.
Fixpoint nodup_b (l : list nat) : bool :=
  match l with [] => true | a :: t => negb (mem_nat a t) && nodup_b t end.

(* hypotheses of C13_dbscan_correct, decided on literal neighbour lists:
   reflexive, symmetric, indices in range, no index listed twice *)
Definition wf_nb (nbs : list (list nat)) : bool :=
  let n := length nbs in
  forallb (fun i => mem_nat i (nb_of nbs i)) (seq 0 n) &&
  forallb (fun i => forallb (fun j => Nat.ltb j n && mem_nat i (nb_of nbs j)) (nb_of nbs i)) (seq 0 n) &&
  forallb nodup_b nbs.

Definition run_fit (minpts : N) (nbs : list (list N)) : option (list Z * Z) :=
  let nbs' := map to_nats nbs in
  fit (nb_of nbs') (N.to_nat minpts) (length nbs').

Definition corr_fit (minpts : N) (nbs : list (list N)) (exp_y : list Z) (exp_c : Z) : bool :=
  wf_nb (map to_nats nbs) &&
  match run_fit minpts nbs with
  | Some (y, c) => zlist_eqb y exp_y && Z.eqb c exp_c
  | None => false
  end.

Definition corr_fit_err (minpts : N) (nbs : list (list N)) : bool :=
  match run_fit minpts nbs with None => true | Some _ => false end.

(* same clusters on core points and same noise set *)
Fixpoint same_core_noise (minpts : nat) (nbs : list (list nat)) (y1 y2 : list Z) : bool :=
  match nbs, y1, y2 with
  | [], [], [] => true
  | ns :: nbs', a :: y1', b :: y2' =>
      (if Nat.leb minpts (length ns) then Z.eqb a b else true) &&
      Bool.eqb (Z.eqb a (-1)) (Z.eqb b (-1)) &&
      same_core_noise minpts nbs' y1' y2'
  | _, _, _ => false
  end.

Definition corr_fit_sets (minpts : N) (nbs_linear : list (list N)) (other_y : list Z) (other_c : Z) : bool :=
  match run_fit minpts nbs_linear with
  | Some (y, c) => Z.eqb c other_c && same_core_noise (N.to_nat minpts) (map to_nats nbs_linear) y other_y
  | None => false
  end.

(* ---------- neighbour lists computed inside Coq (Euclidian, linear scan) ---------- *)
Definition sqdist (a b : list float) : float :=
  fold_left (fun s p => PrimFloat.add s (PrimFloat.mul (PrimFloat.sub (fst p) (snd p)) (PrimFloat.sub (fst p) (snd p))))
            (combine a b) 0%float.
Definition euclid (a b : list float) : float := PrimFloat.sqrt (sqdist a b).

Fixpoint radius_from (i : nat) (data : list (list float)) (q : list float) (eps : float) : list nat :=
  match data with
  | [] => []
  | row :: t => if PrimFloat.leb (euclid q row) eps then i :: radius_from (S i) t q eps
                else radius_from (S i) t q eps
  end.
Definition nbs_euclid (data : list (list float)) (eps : float) : list (list nat) :=
  map (fun q => radius_from 0 data q eps) data.

Definition corr_fit_euclid (minpts : N) (data : list (list float)) (eps : float) (exp_y : list Z) (exp_c : Z) : bool :=
  let nbs := nbs_euclid data eps in
  match fit (nb_of nbs) (N.to_nat minpts) (length nbs) with
  | Some (y, c) => zlist_eqb y exp_y && Z.eqb c exp_c
  | None => false
  end.

(* ---------- predict ---------- *)
Definition corr_predict (y : list Z) (c : N) (nbqs : list (list N)) (expected : list Z) : bool :=
  zlist_eqb (map (fun nbq => predict_one y (N.to_nat c) (to_nats nbq)) nbqs) expected.

Definition corr_predict_euclid (y : list Z) (c : N) (data queries : list (list float)) (eps : float)
           (expected : list Z) : bool :=
  zlist_eqb (map (fun q => predict_one y (N.to_nat c) (radius_from 0 data q eps)) queries) expected.
