(* C13 — instances of the end-to-end floating-point theorems of C13/ProofsFloat.v:
     ex_fit_robust       seven 2-D points (nearest binary64 numbers of decimal coordinates: every
                         operation rounds), eps = 0.5, min_samples = 3: all hypotheses of fit_float_robust
                         hold (finite, no underflow: vm_compute; the 49 margins: `interval`); two clusters,
                         two border points, one noise point, in binary64 and in exact arithmetic
     ex_predict_robust   a query row on the same data
     ex_margin_needed    the margin is needed: points (0,0) and (a,1), a = 2^26 + 1, eps = a, min_samples
                         = 2; the exact distance sqrt(a^2+1) > eps, the squared distance a^2+1 is computed
                         exactly, its square root rounds to a = eps: binary64 DBSCAN returns one cluster
                         {0,1}, exact DBSCAN returns two noise points. *)
From Coq Require Import List Arith ZArith Bool Reals Floats Lra Lia Psatz.
From Flocq Require Import Core BinarySingleNaN PrimFloat.
From Interval Require Import Tactic.
From SC Require Import Base.FloatUtil Base.Num Base.FloatError C13.Model C13.ProofsLinear C13.ProofsFloat.
From SC Require C17.ProofsFloat.
Import ListNotations.
Local Open Scope R_scope.

(* ---------------- real values of float literals ---------------- *)
Lemma FR_SF x : FR x = SF2R radix2 (FloatOps.Prim2SF x).
Proof. unfold FR, Prim2B. apply B2R_SF2B. Qed.

Definition fq (x : PrimFloat.float) : Z * Z :=
  match FloatOps.Prim2SF x with
  | S754_finite s m e =>
      let n := if s then Z.neg m else Z.pos m in
      if (0 <=? e)%Z then (n * 2 ^ e, 1)%Z else (n, 2 ^ (- e))%Z
  | _ => (0, 1)%Z
  end.

Lemma FR_fq x n d : fq x = (n, d) -> FR x = IZR n / IZR d.
Proof.
  rewrite FR_SF. unfold fq. destruct (FloatOps.Prim2SF x) as [s|s| |s m e]; cbn [SF2R].
  1-3: intros [= <- <-]; lra.
  unfold F2R. cbn [Fnum Fexp cond_Zopp].
  destruct (Z.leb_spec 0 e) as [He|He]; intros [= <- <-].
  - rewrite mult_IZR. rewrite <- (IZR_Zpower radix2 e He). change (radix_val radix2) with 2%Z.
    unfold Rdiv. rewrite Rinv_1, Rmult_1_r. destruct s; reflexivity.
  - replace e with (- (- e))%Z at 1 by lia. rewrite bpow_opp.
    rewrite <- (IZR_Zpower radix2 (- e)) by lia. change (radix_val radix2) with 2%Z.
    destruct s; cbn [Z.opp]; unfold Rdiv; reflexivity.
Qed.

Ltac fr_literals :=
  repeat match goal with
  | |- context [FR ?x] =>
      let v := eval vm_compute in (fq x) in
      match v with
      | (?n, ?d) =>
          let E := fresh "E" in
          assert (E : fq x = (n, d)) by (vm_compute; reflexivity);
          rewrite (FR_fq x n d E); clear E
      end
  end.

(* ---------------- a robust instance ---------------- *)
Definition ex_data : list (list PrimFloat.float) :=
  [[0x1.999999999999ap-4; 0x1.999999999999ap-3]; [0x1.3333333333333p-2; 0x1.999999999999ap-4];
   [0x1.999999999999ap-3; 0x1.999999999999ap-2]; [0x1.5333333333333p+2; 0x1.0666666666666p+2];
   [0x1.4666666666666p+2; 0x1.199999999999ap+2]; [0x1.6p+2; 0x1.f333333333333p+1];
   [-0x1.d99999999999ap+1; 0x1.b99999999999ap+2]]%float.
Definition ex_eps : PrimFloat.float := 0x1p-1%float.

Ltac ex_goal :=
  unfold Eu, euclid;
  cbn [ex_data ex_eps nth map length combine fold_left fst snd ROps osub oadd omul o0 osqrt INR Nat.add];
  fr_literals; rewrite ?u64_eq; interval.

Lemma ex_fit_robust :
  let n := length ex_data in
  (forall i, (i < n)%nat -> length (nth i ex_data []) = 2%nat) /\
  ffin ex_eps /\
  (forall i j, (i < n)%nat -> (j < n)%nat ->
     ffin (euclid FOps (nth i ex_data []) (nth j ex_data [])) /\
     C17.ProofsFloat.diff_normal_b (nth i ex_data []) (nth j ex_data []) = true) /\
  (forall i j, (i < n)%nat -> (j < n)%nat ->
     let D := euclid ROps (map FR (nth i ex_data [])) (map FR (nth j ex_data [])) in
     Eu (2 + 3) * D < Rabs (D - FR ex_eps)) /\
  fit_euclid FOps ex_data ex_eps 3 = Some ([0; 0; 0; 1; 1; 1; -1]%Z, 2%Z) /\
  fit_euclid ROps (map (map FR) ex_data) (FR ex_eps) 3 = Some ([0; 0; 0; 1; 1; 1; -1]%Z, 2%Z).
Proof.
  cbv zeta.
  assert (H1 : forall i, (i < length ex_data)%nat -> length (nth i ex_data []) = 2%nat).
  { intros i Hi. do 7 (destruct i as [|i]; [reflexivity|]). cbn in Hi. lia. }
  assert (H2 : ffin ex_eps) by reflexivity.
  assert (H3 : forall i j, (i < length ex_data)%nat -> (j < length ex_data)%nat ->
     ffin (euclid FOps (nth i ex_data []) (nth j ex_data [])) /\
     C17.ProofsFloat.diff_normal_b (nth i ex_data []) (nth j ex_data []) = true).
  { intros i j Hi Hj.
    do 7 (destruct i as [|i]; [do 7 (destruct j as [|j]; [split; vm_compute; reflexivity|]); cbn in Hj; lia|]).
    cbn in Hi. lia. }
  assert (H4 : forall i j, (i < length ex_data)%nat -> (j < length ex_data)%nat ->
     let D := euclid ROps (map FR (nth i ex_data [])) (map FR (nth j ex_data [])) in
     Eu (2 + 3) * D < Rabs (D - FR ex_eps)).
  { intros i j Hi Hj. cbv zeta.
    do 7 (destruct i as [|i]; [do 7 (destruct j as [|j]; [ex_goal|]); cbn in Hj; lia|]).
    cbn in Hi. lia. }
  assert (H5 : fit_euclid FOps ex_data ex_eps 3 = Some ([0; 0; 0; 1; 1; 1; -1]%Z, 2%Z)) by (vm_compute; reflexivity).
  split; [exact H1|]. split; [exact H2|]. split; [exact H3|]. split; [exact H4|]. split; [exact H5|].
  rewrite <- (fit_float_robust ex_data ex_eps 3 2 H1 H2 H3 H4). exact H5.
Qed.

(* ---------------- predict on the same data ---------------- *)
Definition ex_q : list PrimFloat.float := [0x1.4cccccccccccdp+2; 0x1.0cccccccccccdp+2]%float.
Definition ex_y : list Z := [0; 0; 0; 1; 1; 1; -1]%Z.

Ltac exq_goal :=
  unfold Eu, euclid;
  cbn [ex_data ex_eps ex_q nth map length combine fold_left fst snd ROps osub oadd omul o0 osqrt INR Nat.add];
  fr_literals; rewrite ?u64_eq; interval.

Lemma ex_predict_robust :
  let n := length ex_data in
  let p := length ex_q in
  ffin ex_eps /\
  (forall j, (j < n)%nat -> length (nth j ex_data []) = p /\
     ffin (euclid FOps ex_q (nth j ex_data [])) /\ C17.ProofsFloat.diff_normal_b ex_q (nth j ex_data []) = true) /\
  (forall j, (j < n)%nat ->
     let D := euclid ROps (map FR ex_q) (map FR (nth j ex_data [])) in Eu (p + 3) * D < Rabs (D - FR ex_eps)) /\
  radius_query FOps ex_data ex_q ex_eps = [3; 4; 5]%nat /\
  predict_euclid FOps ex_y 2 ex_data ex_q ex_eps = 1%Z /\
  predict_euclid ROps ex_y 2 (map (map FR) ex_data) (map FR ex_q) (FR ex_eps) = 1%Z.
Proof.
  cbv zeta.
  assert (H2 : ffin ex_eps) by reflexivity.
  assert (H3 : forall j, (j < length ex_data)%nat -> length (nth j ex_data []) = length ex_q /\
     ffin (euclid FOps ex_q (nth j ex_data [])) /\ C17.ProofsFloat.diff_normal_b ex_q (nth j ex_data []) = true).
  { intros j Hj. do 7 (destruct j as [|j]; [repeat split; vm_compute; reflexivity|]). cbn in Hj. lia. }
  assert (H4 : forall j, (j < length ex_data)%nat ->
     let D := euclid ROps (map FR ex_q) (map FR (nth j ex_data [])) in Eu (length ex_q + 3) * D < Rabs (D - FR ex_eps)).
  { intros j Hj. cbv zeta. do 7 (destruct j as [|j]; [exq_goal|]). cbn in Hj. lia. }
  assert (H5 : predict_euclid FOps ex_y 2 ex_data ex_q ex_eps = 1%Z) by (vm_compute; reflexivity).
  split; [exact H2|]. split; [exact H3|]. split; [exact H4|]. split; [vm_compute; reflexivity|]. split; [exact H5|].
  destruct (predict_float_robust ex_y 2 ex_data ex_q ex_eps H2 H3 H4) as [_ E]. rewrite <- E. exact H5.
Qed.

(* ---------------- the margin is needed ---------------- *)
Definition bad_data : list (list PrimFloat.float) := [[0; 0]; [67108865; 1]]%float.
Definition bad_eps : PrimFloat.float := 67108865%float.

Ltac bad_goal :=
  unfold Eu, euclid;
  cbn [bad_data bad_eps nth map length combine fold_left fst snd ROps osub oadd omul o0 osqrt INR Nat.add];
  fr_literals; rewrite ?u64_eq.

Lemma bad_within i j : (i < 2)%nat -> (j < 2)%nat ->
  within_euclid ROps (map (map FR) bad_data) (FR bad_eps) i j = Nat.eqb i j.
Proof.
  intros Hi Hj. unfold within_euclid. cbn [oleb ROps].
  destruct i as [|[|i]]; [| |lia]; (destruct j as [|[|j]]; [| |lia]); cbn [Nat.eqb];
    first [ apply Rleb_true; bad_goal; interval with (i_prec 150)
          | apply Rleb_false; bad_goal; interval with (i_prec 150) ].
Qed.

Lemma ex_margin_needed :
  let n := length bad_data in
  let D := fun i j => euclid ROps (map FR (nth i bad_data [])) (map FR (nth j bad_data [])) in
  (forall i, (i < n)%nat -> length (nth i bad_data []) = 2%nat) /\
  ffin bad_eps /\
  (forall i j, (i < n)%nat -> (j < n)%nat ->
     ffin (euclid FOps (nth i bad_data []) (nth j bad_data [])) /\
     C17.ProofsFloat.diff_normal_b (nth i bad_data []) (nth j bad_data []) = true) /\
  D 0%nat 1%nat = R_sqrt.sqrt (67108865 * 67108865 + 1) /\ FR bad_eps = 67108865 /\
  FR bad_eps < D 0%nat 1%nat /\ Rabs (D 0%nat 1%nat - FR bad_eps) < Eu (2 + 3) * D 0%nat 1%nat /\
  euclid FOps (nth 0 bad_data []) (nth 1 bad_data []) = bad_eps /\
  fit_euclid FOps bad_data bad_eps 2 = Some ([0; 0]%Z, 1%Z) /\
  fit_euclid ROps (map (map FR) bad_data) (FR bad_eps) 2 = Some ([-1; -1]%Z, 0%Z).
Proof.
  cbv zeta. split; [|split; [|split; [|split; [|split; [|split; [|split; [|split; [|split]]]]]]]].
  - intros i Hi. do 2 (destruct i as [|i]; [reflexivity|]). cbn in Hi. lia.
  - reflexivity.
  - intros i j Hi Hj.
    do 2 (destruct i as [|i]; [do 2 (destruct j as [|j]; [split; vm_compute; reflexivity|]); cbn in Hj; lia|]).
    cbn in Hi. lia.
  - bad_goal. f_equal. lra.
  - bad_goal. lra.
  - bad_goal. interval with (i_prec 150).
  - bad_goal. interval with (i_prec 150).
  - vm_compute. reflexivity.
  - vm_compute. reflexivity.
  - unfold fit_euclid. rewrite map_length. cbn [bad_data length].
    rewrite (fit_within_ext _ Nat.eqb 2 2 bad_within). vm_compute. reflexivity.
Qed.
