(* C13 — the loop invariants of DBSCAN::fit.
   OInv: between two iterations of the outer `for` loop (clusters 0..k-1 are complete).
   EInv: inside the `while !neighbors.is_empty()` loop that grows cluster k from seed i.
   Everything is for an arbitrary neighbourhood function that is symmetric with indices in range. *)
From Coq Require Import List Arith ZArith Bool Lia.
From SC Require Import C13.Model C13.Spec C13.ProofsBase.
Import ListNotations.

Section Inv.
  Variable nb : nat -> list nat.
  Variable minpts : nat.
  Variable n : nat.
  Hypothesis Hrange : forall i j, i < n -> In j (nb i) -> j < n.
  Hypothesis Hsym : forall i j, i < n -> In j (nb i) -> In i (nb j).

  Notation core := (core nb minpts).
  Notation core_conn := (core_conn nb minpts).

  (* state between outer iterations: points < i0 visited, clusters 0..k-1 complete *)
  Record OInv (i0 : nat) (k : Z) (y : list Z) : Prop := {
    o_len : length y = n;
    o_k : (0 <= k)%Z;
    o_lab : forall j, j < n -> get y j = undefined \/ get y j = outlier \/ (0 <= get y j < k)%Z;
    o_done : forall j, j < i0 -> j < n -> get y j <> undefined;
    o_out : forall j, j < n -> get y j = outlier -> ~ core j;
    o_seed : forall l, (0 <= l < k)%Z -> exists s, s < i0 /\ s < n /\ core s /\ get y s = l /\
               (forall p, p < n -> core p -> get y p = l -> core_conn s p) /\
               (forall p, p < n -> core p -> (l <= get y p)%Z -> s <= p);
    o_closed : forall p q, p < n -> core p -> (0 <= get y p)%Z -> In q (nb p) ->
               (0 <= get y q <= get y p)%Z /\ (core q -> get y q = get y p);
    o_border : forall p, p < n -> ~ core p -> (0 <= get y p)%Z ->
               exists q, In q (nb p) /\ core q /\ get y q = get y p
  }.

  (* state inside the expansion of cluster k from seed i; st = the neighbour stack *)
  Record EInv (i : nat) (k : Z) (y : list Z) (st : list nat) : Prop := {
    e_len : length y = n;
    e_k : (0 <= k)%Z;
    e_i : i < n;
    e_lab : forall j, j < n -> (-3 <= get y j <= k)%Z;
    e_done : forall j, j < i -> get y j <> undefined /\ get y j <> queued;
    e_out : forall j, j < n -> get y j = outlier -> ~ core j;
    e_seed_old : forall l, (0 <= l < k)%Z -> exists s, s < i /\ s < n /\ core s /\ get y s = l /\
               (forall p, p < n -> core p -> get y p = l -> core_conn s p) /\
               (forall p, p < n -> core p -> (l <= get y p)%Z -> s <= p);
    e_seed : core i /\ get y i = k /\ (forall p, p < n -> core p -> get y p = k -> core_conn i p /\ i <= p);
    e_closed_old : forall p q, p < n -> core p -> (0 <= get y p < k)%Z -> In q (nb p) ->
               (0 <= get y q <= get y p)%Z /\ (core q -> get y q = get y p);
    e_closed_cur : forall p q, p < n -> core p -> get y p = k -> In q (nb p) ->
               (0 <= get y q)%Z \/ In q st;
    e_border : forall p, p < n -> ~ core p -> (0 <= get y p)%Z ->
               exists q, In q (nb p) /\ core q /\ get y q = get y p;
    e_queued : forall j, j < n -> get y j = queued -> In j st;
    e_stack : forall j, In j st -> j < n /\ exists q, q < n /\ core q /\ get y q = k /\ In j (nb q)
  }.

  (* what one loop iteration may do to a single label *)
  Definition step_ok (k a b : Z) : Prop :=
    b = a \/ ((a < 0)%Z /\ b = k) \/ (a = undefined /\ b = queued).

  (* ---------- generic preservation ---------- *)
  Lemma einv_evolve : forall i k y st y' st',
    EInv i k y st ->
    length y' = length y ->
    (forall j, j < n -> step_ok k (get y j) (get y' j)) ->
    (forall j, j < n -> (get y j < 0)%Z -> get y' j = k -> In j st) ->
    (forall j, In j st' -> In j st \/ exists q, q < n /\ core q /\ get y' q = k /\ In j (nb q)) ->
    (forall j, j < n -> get y' j = queued -> In j st') ->
    (forall p q, p < n -> core p -> get y' p = k -> In q (nb p) -> (0 <= get y' q)%Z \/ In q st') ->
    EInv i k y' st'.
  Proof.
    intros i k y st y' st' HE Hlen Hstep Hnew Hst Hq Hcl.
    destruct HE as [E1 E2 E3 E4 E5 E6 E7 E8 E9 E10 E11 E12 E13].
    assert (Hge : forall p, p < n -> core p -> (get y p < 0)%Z -> i <= p).
    { intros p Hp Hc Hneg. destruct (le_lt_dec i p) as [|Hlt]; [assumption|exfalso].
      destruct (E5 p Hlt) as [A B]. specialize (E4 p Hp).
      assert (get y p = outlier) by (lab; lia). eapply E6; eauto. }
    assert (Hkeep : forall j, j < n -> (0 <= get y j)%Z -> get y' j = get y j).
    { intros j Hj H0. destruct (Hstep j Hj) as [H|[[H1 H2]|[H1 H2]]]; lab; lia. }
    constructor.
    - lia.
    - exact E2.
    - exact E3.
    - intros j Hj. specialize (E4 j Hj). destruct (Hstep j Hj) as [H|[[H1 H2]|[H1 H2]]]; lab; lia.
    - intros j Hj. assert (Hjn : j < n) by lia. destruct (E5 j Hj) as [A B].
      destruct (Hstep j Hjn) as [H|[[H1 H2]|[H1 H2]]]; lab; split; try lia; congruence.
    - intros j Hj Ho. apply (E6 j Hj).
      destruct (Hstep j Hj) as [H|[[H1 H2]|[H1 H2]]]; lab; lia.
    - intros l Hl. destruct (E7 l Hl) as (s & Hs1 & Hs2 & Hs3 & Hs4 & Hs5 & Hs6).
      exists s. split; [exact Hs1|]. split; [exact Hs2|]. split; [exact Hs3|]. split; [|split].
      + rewrite Hkeep; auto; lia.
      + intros p Hp Hc Hpl. apply Hs5; auto.
        destruct (Hstep p Hp) as [H|[[H1 H2]|[H1 H2]]]; lab; lia.
      + intros p Hp Hc Hpl. destruct (Hstep p Hp) as [H|[[H1 H2]|[H1 H2]]].
        * apply Hs6; auto. lia.
        * specialize (Hge p Hp Hc H1). lia.
        * lab. lia.
    - destruct E8 as (S1 & S2 & S3). split; [exact S1|]. split.
      + rewrite Hkeep; auto; lia.
      + intros p Hp Hc Hpk. destruct (Hstep p Hp) as [H|[[H1 H2]|[H1 H2]]].
        * apply S3; auto; congruence.
        * destruct (E13 p (Hnew p Hp H1 Hpk)) as (_ & q & Q1 & Q2 & Q3 & Q4).
          destruct (S3 q Q1 Q2 Q3) as [C1 _]. split.
          -- eapply core_conn_snoc; eauto.
          -- apply Hge; auto.
        * lab. lia.
    - intros p q Hp Hc Hl Hin.
      assert (Hpp : get y p = get y' p).
      { destruct (Hstep p Hp) as [H|[[H1 H2]|[H1 H2]]]; lab; lia. }
      assert (Hqn : q < n) by eauto.
      destruct (E9 p q Hp Hc ltac:(lia) Hin) as [A B].
      rewrite (Hkeep q Hqn ltac:(lia)). split; [lia|]. intro Hcq. rewrite B; auto.
    - exact Hcl.
    - intros p Hp Hnc Hl. destruct (Hstep p Hp) as [H|[[H1 H2]|[H1 H2]]].
      + destruct (E11 p Hp Hnc ltac:(lia)) as (q & Q1 & Q2 & Q3).
        exists q. split; [exact Q1|]. split; [exact Q2|].
        rewrite Hkeep; eauto; lia.
      + destruct (E13 p (Hnew p Hp H1 H2)) as (_ & q & Q1 & Q2 & Q3 & Q4).
        exists q. split; [apply Hsym; auto|]. split; [exact Q2|].
        rewrite Hkeep; auto; lia.
      + lab. lia.
    - exact Hq.
    - intros j Hj. destruct (Hst j Hj) as [H|(q & Q1 & Q2 & Q3 & Q4)].
      + destruct (E13 j H) as (J1 & q & Q1 & Q2 & Q3 & Q4). split; [exact J1|].
        exists q. repeat (split; [assumption|]). split; [|exact Q4]. rewrite Hkeep; auto; lia.
      + split; [eapply Hrange; eauto|]. exists q. auto.
  Qed.

  (* ---------- the three kinds of iteration ---------- *)
  (* popped index already carries a cluster label: nothing happens *)
  Lemma step_skip : forall i k y idx st',
    EInv i k y (idx :: st') -> (0 <= get y idx)%Z -> EInv i k y st'.
  Proof.
    intros i k y idx st' HE H0.
    eapply einv_evolve; [exact HE|reflexivity| | | | |].
    - intros j Hj. left. reflexivity.
    - intros j Hj H1 H2. pose proof (e_k _ _ _ _ HE). lia.
    - intros j Hj. left. right. exact Hj.
    - intros j Hj Hqd. destruct (e_queued _ _ _ _ HE j Hj Hqd) as [<-|H]; [lab; lia|exact H].
    - intros p q Hp Hc Hpk Hin. destruct (e_closed_cur _ _ _ _ HE p q Hp Hc Hpk Hin) as [H|[<-|H]]; auto.
  Qed.

  (* popped index is provisional noise or an unvisited/queued non-core point: it becomes a border point *)
  Lemma step_border : forall i k y idx st',
    EInv i k y (idx :: st') -> (get y idx < 0)%Z -> ~ core idx -> EInv i k (upd y idx k) st'.
  Proof.
    intros i k y idx st' HE Hneg Hnc.
    pose proof (e_k _ _ _ _ HE) as Hk. pose proof (e_len _ _ _ _ HE) as Hlen.
    assert (Hidx : idx < n) by (apply (e_stack _ _ _ _ HE idx); left; reflexivity).
    assert (Hsame : get (upd y idx k) idx = k) by (apply get_upd_same; lia).
    eapply einv_evolve; [exact HE|apply upd_length| | | | |].
    - intros j Hj. destruct (Nat.eq_dec j idx) as [->|Hne].
      + right. left. auto.
      + left. apply get_upd_other. exact Hne.
    - intros j Hj H1 H2. destruct (Nat.eq_dec j idx) as [->|Hne]; [left; reflexivity|].
      rewrite get_upd_other in H2 by exact Hne. lia.
    - intros j Hj. left. right. exact Hj.
    - intros j Hj Hqd. destruct (Nat.eq_dec j idx) as [->|Hne]; [lab; lia|].
      rewrite get_upd_other in Hqd by exact Hne.
      destruct (e_queued _ _ _ _ HE j Hj Hqd) as [E|H]; [congruence|exact H].
    - intros p q Hp Hc Hpk Hin.
      destruct (Nat.eq_dec p idx) as [->|Hne]; [contradiction|].
      rewrite get_upd_other in Hpk by exact Hne.
      destruct (Nat.eq_dec q idx) as [->|Hnq]; [left; lia|].
      rewrite get_upd_other by exact Hnq.
      destruct (e_closed_cur _ _ _ _ HE p q Hp Hc Hpk Hin) as [H|[E|H]]; auto. congruence.
  Qed.

  (* popped index is an unvisited/queued core point: labelled, its neighbourhood is scanned *)
  Lemma step_core : forall i k y idx st',
    EInv i k y (idx :: st') -> get y idx = undefined \/ get y idx = queued -> core idx ->
    let r := scan_secondary (upd y idx k) st' (nb idx) in
    EInv i k (fst r) (snd r).
  Proof.
    intros i k y idx st' HE Hopen Hc r.
    pose proof (e_k _ _ _ _ HE) as Hk. pose proof (e_len _ _ _ _ HE) as Hlen.
    assert (Hidx : idx < n) by (apply (e_stack _ _ _ _ HE idx); left; reflexivity).
    assert (Hsame : get (upd y idx k) idx = k) by (apply get_upd_same; lia).
    destruct (scan_spec (nb idx) (upd y idx k) st') as (S1 & S2 & S4 & S5 & S6 & _).
    fold r in S1, S2, S4, S5, S6.
    assert (Hr_idx : get (fst r) idx = k).
    { destruct (S2 idx) as [H|(H & _)]; [congruence|]. rewrite Hsame in H. lab. lia. }
    assert (Hr_other : forall j, j <> idx ->
              get (fst r) j = get y j \/ (get y j = undefined /\ get (fst r) j = queued /\ In j (nb idx))).
    { intros j Hne. destruct (S2 j) as [H|(H1 & H2 & H3)]; rewrite get_upd_other in * by exact Hne; auto. }
    eapply einv_evolve; [exact HE|rewrite S1; apply upd_length| | | | |].
    - intros j Hj. destruct (Nat.eq_dec j idx) as [->|Hne].
      + right. left. split; [destruct Hopen as [-> | ->]; lab; lia|exact Hr_idx].
      + destruct (Hr_other j Hne) as [H|(H1 & H2 & _)]; [left; exact H|right; right; auto].
    - intros j Hj H1 H2. destruct (Nat.eq_dec j idx) as [->|Hne]; [left; reflexivity|].
      destruct (Hr_other j Hne) as [H|(H3 & H4 & _)]; lab; lia.
    - intros j Hj. destruct (S4 j Hj) as [H|(H & _)].
      + left. right. exact H.
      + right. exists idx. auto.
    - intros j Hj Hqd. destruct (Nat.eq_dec j idx) as [->|Hne]; [lab; lia|].
      destruct (Hr_other j Hne) as [H|(H1 & H2 & H3)].
      + rewrite H in Hqd. destruct (e_queued _ _ _ _ HE j Hj Hqd) as [E|Hin]; [congruence|].
        apply S6. exact Hin.
      + apply S5; [exact H3|]. left. rewrite get_upd_other by exact Hne. exact H1.
    - intros p q Hp Hcp Hpk Hin.
      assert (Hqn : q < n) by eauto.
      destruct (Nat.eq_dec q idx) as [->|Hnq]; [left; lia|].
      assert (Hq2 : get (upd y idx k) q = get y q) by (apply get_upd_other; exact Hnq).
      pose proof (e_lab _ _ _ _ HE q Hqn) as Hlq.
      destruct (Nat.eq_dec p idx) as [->|Hne].
      + (* the neighbours of the point just expanded *)
        destruct (Z_lt_le_dec (get y q) 0) as [Hneg|Hpos].
        * assert (Hcases : get y q = undefined \/ get y q = outlier \/ get y q = queued) by (lab; lia).
          destruct Hcases as [H|[H|H]].
          -- right. apply S5; [exact Hin|]. left. congruence.
          -- right. apply S5; [exact Hin|]. right. congruence.
          -- right. destruct (e_queued _ _ _ _ HE q Hqn H) as [E|Hs]; [congruence|]. apply S6. exact Hs.
        * left. destruct (Hr_other q Hnq) as [H|(H1 & _)]; lab; lia.
      + destruct (Hr_other p Hne) as [H|(H1 & H2 & _)]; [|lab; lia].
        rewrite H in Hpk.
        destruct (e_closed_cur _ _ _ _ HE p q Hp Hcp Hpk Hin) as [H0|[E|Hs]].
        * left. destruct (Hr_other q Hnq) as [H'|(H1 & _)]; lab; lia.
        * congruence.
        * right. apply S6. exact Hs.
  Qed.

  Lemma expand_S : forall f k y idx st',
    expand nb minpts (S f) k y (idx :: st') =
    let y1 := if Z.eqb (get y idx) outlier then upd y idx k else y in
    if Z.eqb (get y1 idx) undefined || Z.eqb (get y1 idx) queued then
      let y2 := upd y1 idx k in
      if (minpts <=? length (nb idx))%nat then
        let r := scan_secondary y2 st' (nb idx) in expand nb minpts f k (fst r) (snd r)
      else expand nb minpts f k y2 st'
    else expand nb minpts f k y1 st'.
  Proof. reflexivity. Qed.

  (* the while loop preserves the invariant; when it ends the stack is empty *)
  Lemma expand_inv : forall fuel i k y st y',
    EInv i k y st -> expand nb minpts fuel k y st = Some y' -> EInv i k y' [].
  Proof.
    induction fuel as [|f IH]; intros i k y st y' HE Hex.
    - destruct st; simpl in Hex; [inversion Hex; subst; exact HE|discriminate].
    - destruct st as [|idx st']; [simpl in Hex; inversion Hex; subst; exact HE|].
      rewrite expand_S in Hex. cbv zeta in Hex.
      pose proof (e_k _ _ _ _ HE) as Hk. pose proof (e_len _ _ _ _ HE) as Hlen.
      assert (Hidx : idx < n) by (apply (e_stack _ _ _ _ HE idx); left; reflexivity).
      pose proof (e_lab _ _ _ _ HE idx Hidx) as Hl.
      destruct (Z.eqb_spec (get y idx) outlier) as [Ho|Hno].
      + (* provisional noise -> border point of cluster k *)
        rewrite get_upd_same in Hex by lia.
        replace (Z.eqb k undefined) with false in Hex by (symmetry; apply Z.eqb_neq; lab; lia).
        replace (Z.eqb k queued) with false in Hex by (symmetry; apply Z.eqb_neq; lab; lia).
        cbn [orb] in Hex. eapply IH; [|exact Hex].
        apply step_border; [exact HE|lab; lia|]. apply (e_out _ _ _ _ HE idx Hidx Ho).
      + destruct (Z.eqb_spec (get y idx) undefined) as [Hu|Hnu];
        [|destruct (Z.eqb_spec (get y idx) queued) as [Hq|Hnq]]; cbn [orb] in Hex.
        * destruct (Nat.leb_spec minpts (length (nb idx))) as [Hc|Hnc].
          -- eapply IH; [|exact Hex]. apply step_core; auto.
          -- eapply IH; [|exact Hex]. apply step_border; [exact HE|lab; lia|]. unfold Spec.core. lia.
        * destruct (Nat.leb_spec minpts (length (nb idx))) as [Hc|Hnc].
          -- eapply IH; [|exact Hex]. apply step_core; auto.
          -- eapply IH; [|exact Hex]. apply step_border; [exact HE|lab; lia|]. unfold Spec.core. lia.
        * eapply IH; [|exact Hex]. apply step_skip with idx; [exact HE|lab; lia].
  Qed.

  (* ---------- entering and leaving the expansion ---------- *)
  Lemma einv_init : forall i k y,
    OInv i k y -> i < n -> get y i = undefined -> core i ->
    EInv i k (mark_queued (upd y i k) (nb i)) (rev (nb i)).
  Proof.
    intros i k y HO Hi Hu Hc.
    destruct HO as [O1 O2 O3 O4 O5 O6 O7 O8].
    destruct (mark_queued_spec (nb i) (upd y i k)) as [M1 M2].
    rewrite upd_length in M1.
    set (y2 := mark_queued (upd y i k) (nb i)) in *.
    assert (Hsame : get (upd y i k) i = k) by (apply get_upd_same; lia).
    assert (Hy2i : get y2 i = k).
    { destruct (M2 i) as [H|(H & _)]; [congruence|]. rewrite Hsame in H. lab. lia. }
    assert (Hy2 : forall j, j <> i ->
              get y2 j = get y j \/ (get y j = undefined /\ get y2 j = queued /\ In j (nb i))).
    { intros j Hne. destruct (M2 j) as [H|(H1 & H2 & H3)]; rewrite get_upd_other in * by exact Hne; auto. }
    assert (Hkeep : forall j, j < n -> (0 <= get y j)%Z -> get y2 j = get y j).
    { intros j Hj H0. assert (j <> i) by (intros ->; lab; lia).
      destruct (Hy2 j H) as [H1|(H1 & _)]; [exact H1|lab; lia]. }
    constructor.
    - lia.
    - exact O2.
    - exact Hi.
    - intros j Hj. destruct (Nat.eq_dec j i) as [->|Hne]; [lia|].
      specialize (O3 j Hj). destruct (Hy2 j Hne) as [H|(H1 & H2 & _)]; lab; lia.
    - intros j Hj. assert (Hjn : j < n) by lia. assert (Hne : j <> i) by lia.
      specialize (O3 j Hjn). specialize (O4 j Hj Hjn).
      destruct (Hy2 j Hne) as [H|(H1 & H2 & _)]; [|contradiction]. rewrite H. split; [exact O4|lab; lia].
    - intros j Hj Ho. destruct (Nat.eq_dec j i) as [->|Hne]; [lab; lia|].
      apply (O5 j Hj). destruct (Hy2 j Hne) as [H|(H1 & H2 & _)]; lab; lia.
    - intros l Hl. destruct (O6 l Hl) as (s & Hs1 & Hs2 & Hs3 & Hs4 & Hs5 & Hs6).
      exists s. split; [exact Hs1|]. split; [exact Hs2|]. split; [exact Hs3|]. split; [|split].
      + rewrite Hkeep; auto; lia.
      + intros p Hp Hcp Hpl. apply Hs5; auto.
        destruct (Nat.eq_dec p i) as [->|Hne]; [lia|].
        destruct (Hy2 p Hne) as [H|(H1 & H2 & _)]; lab; lia.
      + intros p Hp Hcp Hpl. destruct (Nat.eq_dec p i) as [->|Hne]; [lia|].
        destruct (Hy2 p Hne) as [H|(H1 & H2 & _)]; [|lab; lia].
        apply Hs6; auto. lia.
    - split; [exact Hc|]. split; [exact Hy2i|].
      intros p Hp Hcp Hpk. destruct (Nat.eq_dec p i) as [->|Hne]; [split; [apply cc_refl|lia]|].
      specialize (O3 p Hp). destruct (Hy2 p Hne) as [H|(H1 & H2 & _)]; lab; lia.
    - intros p q Hp Hcp Hl Hin.
      assert (Hne : p <> i) by (intros ->; lia).
      assert (Hpp : get y2 p = get y p).
      { destruct (Hy2 p Hne) as [H|(H1 & H2 & _)]; [exact H|lab; lia]. }
      assert (Hqn : q < n) by eauto.
      destruct (O7 p q Hp Hcp ltac:(lia) Hin) as [A B].
      rewrite (Hkeep q Hqn ltac:(lia)), Hpp. auto.
    - intros p q Hp Hcp Hpk Hin. right.
      destruct (Nat.eq_dec p i) as [->|Hne]; [apply in_rev; rewrite rev_involutive; exact Hin|].
      specialize (O3 p Hp). destruct (Hy2 p Hne) as [H|(H1 & H2 & _)]; lab; lia.
    - intros p Hp Hnc Hl.
      assert (Hne : p <> i) by (intros ->; contradiction).
      assert (Hpp : get y2 p = get y p).
      { destruct (Hy2 p Hne) as [H|(H1 & H2 & _)]; [exact H|lab; lia]. }
      destruct (O8 p Hp Hnc ltac:(lia)) as (q & Q1 & Q2 & Q3).
      exists q. split; [exact Q1|]. split; [exact Q2|]. rewrite Hkeep; eauto; lia.
    - intros j Hj Hqd. destruct (Nat.eq_dec j i) as [->|Hne]; [lab; lia|].
      specialize (O3 j Hj). destruct (Hy2 j Hne) as [H|(H1 & H2 & H3)]; [lab; lia|].
      apply in_rev. rewrite rev_involutive. exact H3.
    - intros j Hj. apply in_rev in Hj. split; [eauto|]. exists i. auto.
  Qed.

  Lemma einv_exit : forall i k y, EInv i k y [] -> OInv (S i) (k + 1) y.
  Proof.
    intros i k y HE.
    destruct HE as [E1 E2 E3 E4 E5 E6 E7 E8 E9 E10 E11 E12 E13].
    destruct E8 as (S1 & S2 & S3).
    constructor.
    - exact E1.
    - lia.
    - intros j Hj. specialize (E4 j Hj).
      assert (get y j <> queued) by (intro H; exact (E12 j Hj H)).
      lab. lia.
    - intros j Hj Hjn. destruct (Nat.eq_dec j i) as [->|Hne]; [lab; lia|].
      apply (E5 j). lia.
    - exact E6.
    - intros l Hl. destruct (Z.eq_dec l k) as [->|Hne].
      + exists i. split; [lia|]. split; [exact E3|]. split; [exact S1|]. split; [exact S2|]. split.
        * intros p Hp Hc Hpk. apply S3; auto.
        * intros p Hp Hc Hpk. specialize (E4 p Hp). apply S3; auto. lia.
      + destruct (E7 l ltac:(lia)) as (s & Hs1 & Hs2 & Hs3 & Hs4 & Hs5 & Hs6).
        exists s. split; [lia|]. auto.
    - intros p q Hp Hc Hl Hin.
      assert (Hqn : q < n) by eauto.
      pose proof (E4 p Hp) as Hlp. pose proof (E4 q Hqn) as Hlq.
      destruct (Z.eq_dec (get y p) k) as [Hpk|Hne].
      + destruct (E10 p q Hp Hc Hpk Hin) as [H0|[]]. split; [lia|].
        intro Hcq. destruct (Z.eq_dec (get y q) k) as [Hqk|Hqne]; [congruence|exfalso].
        destruct (E9 q p Hqn Hcq ltac:(lia) (Hsym p q Hp Hin)) as [_ B].
        specialize (B Hc). lia.
      + apply E9; auto. lia.
    - exact E11.
  Qed.

  Lemma oinv_skip : forall i k y, OInv i k y -> get y i <> undefined -> OInv (S i) k y.
  Proof.
    intros i k y [O1 O2 O3 O4 O5 O6 O7 O8] Hnu.
    constructor; auto.
    - intros j Hj Hjn. destruct (Nat.eq_dec j i) as [->|Hne]; [exact Hnu|]. apply O4; lia.
    - intros l Hl. destruct (O6 l Hl) as (s & Hs1 & Hs). exists s. split; [lia|exact Hs].
  Qed.

  (* y[i] = outlier for a point with fewer than min_samples neighbours *)
  Lemma oinv_noise : forall i k y,
    OInv i k y -> i < n -> get y i = undefined -> ~ core i -> OInv (S i) k (upd y i outlier).
  Proof.
    intros i k y [O1 O2 O3 O4 O5 O6 O7 O8] Hi Hu Hnc.
    assert (Hsame : get (upd y i outlier) i = outlier) by (apply get_upd_same; lia).
    assert (Hkeep : forall j, (0 <= get y j)%Z -> get (upd y i outlier) j = get y j).
    { intros j H0. apply get_upd_other. intros ->. lab. lia. }
    assert (Hback : forall j, (0 <= get (upd y i outlier) j)%Z -> get (upd y i outlier) j = get y j).
    { intros j H0. apply get_upd_other. intros ->. lab. lia. }
    constructor.
    - rewrite upd_length. exact O1.
    - exact O2.
    - intros j Hj. destruct (Nat.eq_dec j i) as [->|Hne]; [auto|].
      rewrite get_upd_other by exact Hne. auto.
    - intros j Hj Hjn. destruct (Nat.eq_dec j i) as [->|Hne]; [lab; lia|].
      rewrite get_upd_other by exact Hne. apply O4; lia.
    - intros j Hj Ho. destruct (Nat.eq_dec j i) as [->|Hne]; [exact Hnc|].
      rewrite get_upd_other in Ho by exact Hne. auto.
    - intros l Hl. destruct (O6 l Hl) as (s & Hs1 & Hs2 & Hs3 & Hs4 & Hs5 & Hs6).
      exists s. split; [lia|]. split; [exact Hs2|]. split; [exact Hs3|]. split; [|split].
      + rewrite Hkeep; lia.
      + intros p Hp Hc Hpl. apply Hs5; auto. rewrite <- Hback; lia.
      + intros p Hp Hc Hpl. apply Hs6; auto. rewrite <- Hback; lia.
    - intros p q Hp Hc Hl Hin. pose proof (Hback p Hl) as Hb. rewrite Hb in *.
      destruct (O7 p q Hp Hc Hl Hin) as [A B]. rewrite (Hkeep q ltac:(lia)). auto.
    - intros p Hp Hc Hl. pose proof (Hback p Hl) as Hb. rewrite Hb in *.
      destruct (O8 p Hp Hc Hl) as (q & Q1 & Q2 & Q3). exists q.
      split; [exact Q1|]. split; [exact Q2|]. rewrite Hkeep; lia.
  Qed.

  Lemma oinv_start : OInv 0 0 (repeat undefined n).
  Proof.
    constructor.
    - apply repeat_length.
    - lia.
    - intros j _. left. apply get_repeat_undefined.
    - intros j Hj. lia.
    - intros j _ H. rewrite get_repeat_undefined in H. lab. lia.
    - intros l Hl. lia.
    - intros p q _ _ H. rewrite get_repeat_undefined in H. lab. lia.
    - intros p _ _ H. rewrite get_repeat_undefined in H. lab. lia.
  Qed.

  (* the outer loop *)
  Lemma outer_inv : forall fuel m i0 k y y' c,
    i0 + m = n -> OInv i0 k y ->
    outer nb minpts fuel (seq i0 m) k y = Some (y', c) -> OInv n c y'.
  Proof.
    induction m as [|m IH]; intros i0 k y y' c Hn HO Hout.
    - simpl in Hout. inversion Hout; subst y' c. assert (E : i0 = n) by lia. rewrite <- E. exact HO.
    - cbn [seq outer] in Hout.
      assert (Hi : i0 < n) by lia.
      destruct (Z.eqb_spec (get y i0) undefined) as [Hu|Hnu].
      + destruct (Nat.ltb_spec (length (nb i0)) minpts) as [Hnc|Hc].
        * eapply IH; [|apply oinv_noise; eauto|exact Hout]; [lia|]. unfold Spec.core. lia.
        * destruct (expand nb minpts fuel k (mark_queued (upd y i0 k) (nb i0)) (rev (nb i0))) as [y3|] eqn:Hex;
            [|discriminate].
          eapply IH; [| |exact Hout]; [lia|].
          apply einv_exit. eapply expand_inv; [|exact Hex].
          apply einv_init; auto.
      + eapply IH; [|apply oinv_skip; eauto|exact Hout]. lia.
  Qed.

  Lemma dbscan_inv : forall y c, dbscan nb minpts n = Some (y, c) -> OInv n c y.
  Proof.
    intros y c H. unfold dbscan in H.
    eapply outer_inv; [|apply oinv_start|exact H]. lia.
  Qed.
End Inv.
