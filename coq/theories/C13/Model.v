(* C13 — executable model of smartcore's DBSCAN (src/cluster/dbscan.rs, `fit` and `predict`).
   Definitions only; proofs are in Proofs*.v so that the model still runs when a proof breaks.

   Transliteration notes
   - labels are `Z` (Rust: i16): undefined = -3, queued = -2, outlier = -1, cluster ids k >= 0;
   - the search structure (`KNNAlgorithm::find_radius`, linear scan or cover tree) is the section
     variable `nb`: `nb i` is the list of training indices the backend returns for training row i,
     *in the order the backend lists them* (the expansion order, hence border-point labels, depend
     on it).  The metric and eps only enter through `nb`;
   - `y : list Z` is the vector `y`; `get` reads (default `undefined`), `upd` writes;
   - the neighbour stack `neighbors: Vec<_>` with `pop()` from / `push()` to the *end* is a list whose
     head is the end of the vector: the initial stack is `rev (nb i)`, push is cons;
   - `while !neighbors.is_empty()` is the fuel-indexed `expand`; running out of fuel gives `None`.
     `dbscan` supplies the fuel `2 * (sum of all neighbour-list lengths)`; Proofs show this is always
     enough (explicit measure) and that more fuel never changes the result;
   - `Err(..)` (min_samples < 1) is `None`.  The check `eps <= 0` has no counterpart (eps is inside `nb`);
   - predict: `label` is the vote vector of length num_classes + 1 (last slot = noise),
     `which_max` is the first index holding the maximum, as in decision_tree_classifier.rs. *)
From Coq Require Import List Arith ZArith Bool.
Import ListNotations.

Definition undefined : Z := (-3)%Z.
Definition queued : Z := (-2)%Z.
Definition outlier : Z := (-1)%Z.

Definition get (y : list Z) (j : nat) : Z := nth j y undefined.

Fixpoint upd (y : list Z) (j : nat) (v : Z) : list Z :=
  match y, j with
  | [], _ => []
  | _ :: t, O => v :: t
  | h :: t, S j' => h :: upd t j' v
  end.

Section Dbscan.
  Variable nb : nat -> list nat.
  Variable minpts : nat.

  (* for j in 0..neighbors.len() { if y[neighbors[j].0] == undefined { y[..] = queued } } *)
  Definition mark_step (y : list Z) (j : nat) : list Z :=
    if Z.eqb (get y j) undefined then upd y j queued else y.
  Definition mark_queued (y : list Z) (ns : list nat) : list Z := fold_left mark_step ns y.

  (* the loop over secondary_neighbors: the label is read once, before the write *)
  Definition scan_step (acc : list Z * list nat) (j : nat) : list Z * list nat :=
    let label := get (fst acc) j in
    (if Z.eqb label undefined then upd (fst acc) j queued else fst acc,
     if Z.eqb label undefined || Z.eqb label outlier then j :: snd acc else snd acc).
  Definition scan_secondary (y : list Z) (st : list nat) (ns : list nat) : list Z * list nat :=
    fold_left scan_step ns (y, st).

  (* while !neighbors.is_empty() { let neighbor = neighbors.pop().unwrap(); ... } *)
  Fixpoint expand (fuel : nat) (k : Z) (y : list Z) (st : list nat) : option (list Z) :=
    match st with
    | [] => Some y
    | idx :: st' =>
      match fuel with
      | O => None
      | S f =>
        let y1 := if Z.eqb (get y idx) outlier then upd y idx k else y in
        if Z.eqb (get y1 idx) undefined || Z.eqb (get y1 idx) queued then
          let y2 := upd y1 idx k in
          let ns := nb idx in
          if (minpts <=? length ns)%nat then
            let r := scan_secondary y2 st' ns in expand f k (fst r) (snd r)
          else expand f k y2 st'
        else expand f k y1 st'
      end
    end.

  (* for (i, e) in row_iter(x).enumerate() { if y[i] == undefined { ... } } *)
  Fixpoint outer (fuel : nat) (pts : list nat) (k : Z) (y : list Z) : option (list Z * Z) :=
    match pts with
    | [] => Some (y, k)
    | i :: rest =>
      if Z.eqb (get y i) undefined then
        let ns := nb i in
        if (length ns <? minpts)%nat then outer fuel rest k (upd y i outlier)
        else
          let y1 := upd y i k in
          let y2 := mark_queued y1 ns in
          match expand fuel k y2 (rev ns) with
          | None => None
          | Some y3 => outer fuel rest (k + 1)%Z y3
          end
      else outer fuel rest k y
    end.

  Definition total_nb (n : nat) : nat := fold_right (fun j s => length (nb j) + s) 0 (seq 0 n).
  Definition dbscan_fuel (n : nat) : nat := 2 * total_nb n.

  (* cluster_labels, num_classes *)
  Definition dbscan (n : nat) : option (list Z * Z) :=
    outer (dbscan_fuel n) (seq 0 n) 0%Z (repeat undefined n).

  (* DBSCAN::fit including the parameter check *)
  Definition fit (n : nat) : option (list Z * Z) :=
    if (minpts <? 1)%nat then None else dbscan n.
End Dbscan.

(* LinearKNNSearch::find_radius for training row i: `for j in 0..n { if distance(i, j) <= radius { push j } }`;
   `within i j` stands for the test distance(row i, row j) <= radius *)
Definition linear_radius (within : nat -> nat -> bool) (n i : nat) : list nat :=
  filter (within i) (seq 0 n).

(* ---------- predict ---------- *)
Fixpoint incr (v : list nat) (j : nat) : list nat :=
  match v, j with
  | [], _ => []
  | h :: t, O => S h :: t
  | h :: t, S j' => h :: incr t j'
  end.

(* for neighbor in neighbors { let yi = labels[neighbor.0]; if yi < 0 { label[c] += 1 } else { label[yi] += 1 } } *)
Definition vote_step (y : list Z) (c : nat) (v : list nat) (idx : nat) : list nat :=
  let yi := get y idx in
  if (yi <? 0)%Z then incr v c else incr v (Z.to_nat yi).
Definition vote (y : list Z) (c : nat) (nbq : list nat) : list nat :=
  fold_left (vote_step y c) nbq (repeat 0 (S c)).

(* which_max: m = x[0], which = 0; for i >= 1: if x[i] > m { m = x[i]; which = i } *)
Fixpoint which_max_from (m which i : nat) (xs : list nat) : nat :=
  match xs with
  | [] => which
  | x :: t => if (m <? x)%nat then which_max_from x i (S i) t else which_max_from m which (S i) t
  end.
Definition which_max (v : list nat) : nat :=
  match v with [] => 0 | x0 :: t => which_max_from x0 0 1 t end.

(* one row of DBSCAN::predict; nbq = indices the backend returns for the query row *)
Definition predict_one (y : list Z) (c : nat) (nbq : list nat) : Z :=
  let v := vote y c nbq in
  let class := which_max v in
  if negb (class =? c)%nat && (0 <? nth class v 0)%nat then Z.of_nat class else (-1)%Z.
