(* C13 — an END-TO-END floating-point statement for a whole algorithm: DBSCAN::fit / predict on binary64
   data with the Euclidean metric return exactly the labels of exact real arithmetic when no pairwise
   distance is within the proved rounding error of eps.

   DBSCAN reads the data ONLY through the tests `distance(i, j) <= eps` (model: `fit nb minpts n` with
   nb := the linear scan `linear_radius within n`).
     fit_ext / fit_within_ext / fit_depends_only_on_neighbourhoods
                               (axiom-free) two neighbourhood functions that agree on the indices < n,
                               hence two instantiations (any scalar types, any distance functions, any
                               eps) whose tests agree on all pairs i, j < n, give the same result of
                               `fit`: the same labels and the same number of clusters
     euclid, within_euclid, fit_euclid, radius_query, predict_euclid
                               Euclidean DBSCAN written once, generic in `Ops T`; euclid is sqrt of the
                               same left fold as C17's squared distance (euclid_same_fold), and at FOps it
                               is literally the term `C13.Corr.euclid` the correspondence executes;
                               corr_fit_euclid_sound: an agreeing correspondence case of group
                               fit_euclid states `fit_euclid FOps data eps minpts = Some (labels, classes)`
     euclid_float_error        |FR d - D| <= Eu (p+3) * D (C17.ProofsFloat.euclidian_float_error_checked)
     within_float_robust       one decision: Eu (p+3) * D < |D - FR eps|  ==>  (d <= eps) = (D <= FR eps)
     fit_float_robust          fit_euclid FOps data eps minpts =
                               fit_euclid ROps (map (map FR) data) (FR eps) minpts
     predict_float_robust      the same for the neighbour list of a query row and the predicted label
     fit_float_exact_neighbourhoods
                               the float run equals `fit` on the EXACT neighbourhoods {j | D i j <= FR eps},
                               which are in range and symmetric: C13_dbscan_correct applies to the labels
                               the binary64 computation returns.
     fit_predict_float_robust  fit followed by predict on a matrix of query rows: labels, num_classes and
                               all predicted labels agree with exact arithmetic.
   Vocabulary (Base/FloatError.v): FR x = real value of a float, ffin x = finite, u64 = 2^-53,
   Eu k = (1+u64)^k - 1.  No-overflow hypothesis: every COMPUTED distance is finite; no-underflow
   hypothesis in decidable form: C17.ProofsFloat.diff_normal_b (every computed coordinate difference is 0
   or at least 2^-509 in magnitude). *)
From Coq Require Import List Arith ZArith Bool Reals Floats Lra Lia Psatz.
From Flocq Require Import Core BinarySingleNaN PrimFloat.
From SC Require Import Base.FloatUtil Base.Num Base.FloatError C13.Model C13.Spec C13.ProofsLinear C13.Corr C13.ProofsCorr.
From SC Require C17.Model.
From SC Require C17.ProofsFloat.
Import ListNotations.

(* ================ 1. fit depends on the data only through the neighbourhoods (axiom-free) ================ *)
Section Ext.
  Variables (nb1 nb2 : nat -> list nat) (minpts n : nat).
  Hypothesis Heq : forall i, i < n -> nb1 i = nb2 i.
  Hypothesis Hr : forall i j, i < n -> In j (nb1 i) -> j < n.

  Let below (j : nat) : Prop := j < n.

  Lemma nb1_below : forall i, i < n -> Forall below (nb1 i).
  Proof. intros i Hi. apply Forall_forall. intros j Hj. exact (Hr i j Hi Hj). Qed.

  Lemma scan_stack_below : forall ns y st, Forall below st -> Forall below ns ->
    Forall below (snd (scan_secondary y st ns)).
  Proof.
    unfold scan_secondary. induction ns as [|a ns IH]; intros y st Hst Hns; cbn [fold_left]; [exact Hst|].
    inversion Hns as [|? ? Ha Hns']; subst.
    destruct (scan_step (y, st) a) as [y' st'] eqn:E. apply IH; [|exact Hns'].
    unfold scan_step in E. cbn [fst snd] in E. injection E as _ <-.
    destruct (_ || _); [constructor|]; assumption.
  Qed.

  Lemma expand_ext : forall fuel k y st, Forall below st ->
    expand nb1 minpts fuel k y st = expand nb2 minpts fuel k y st.
  Proof.
    induction fuel as [|f IH]; intros k y st Hst; destruct st as [|idx st']; cbn [expand]; try reflexivity.
    inversion Hst as [|? ? Hidx Hst']; subst. cbv zeta.
    rewrite <- (Heq idx Hidx).
    match goal with |- (if ?c then _ else _) = _ => destruct c end.
    - destruct (minpts <=? length (nb1 idx)).
      + apply IH. apply scan_stack_below; [exact Hst' | apply nb1_below, Hidx].
      + apply IH. exact Hst'.
    - apply IH. exact Hst'.
  Qed.

  Lemma outer_ext : forall fuel pts k y, Forall below pts ->
    outer nb1 minpts fuel pts k y = outer nb2 minpts fuel pts k y.
  Proof.
    intros fuel. induction pts as [|i rest IH]; intros k y Hp; cbn [outer]; [reflexivity|].
    inversion Hp as [|? ? Hi Hrest]; subst. cbv zeta. rewrite <- (Heq i Hi).
    destruct (Z.eqb (get y i) undefined); [|apply IH, Hrest].
    destruct (length (nb1 i) <? minpts); [apply IH, Hrest|].
    rewrite <- expand_ext by (apply Forall_rev, nb1_below, Hi).
    destruct (expand nb1 minpts fuel k _ _); [apply IH, Hrest | reflexivity].
  Qed.

  Lemma seq_below : Forall below (seq 0 n).
  Proof. apply Forall_forall. intros j Hj. apply in_seq in Hj. unfold below. lia. Qed.

  Lemma total_nb_ext : total_nb nb1 n = total_nb nb2 n.
  Proof.
    unfold total_nb. generalize seq_below. generalize (seq 0 n).
    induction l as [|j l IH]; intros Hl; cbn [fold_right]; [reflexivity|].
    inversion Hl as [|? ? Hj Hl']; subst. rewrite (Heq j Hj), (IH Hl'). reflexivity.
  Qed.

  Lemma dbscan_ext : dbscan nb1 minpts n = dbscan nb2 minpts n.
  Proof. unfold dbscan, dbscan_fuel. rewrite total_nb_ext. apply outer_ext, seq_below. Qed.

  Lemma fit_ext : fit nb1 minpts n = fit nb2 minpts n.
  Proof. unfold fit. rewrite dbscan_ext. reflexivity. Qed.
End Ext.

Lemma linear_radius_ext (w1 w2 : nat -> nat -> bool) n :
  (forall i j, i < n -> j < n -> w1 i j = w2 i j) ->
  forall i, i < n -> linear_radius w1 n i = linear_radius w2 n i.
Proof.
  intros H i Hi. unfold linear_radius. apply filter_ext_in. intros j Hj. apply in_seq in Hj. apply H; lia.
Qed.

Theorem fit_within_ext (w1 w2 : nat -> nat -> bool) minpts n :
  (forall i j, i < n -> j < n -> w1 i j = w2 i j) ->
  fit (linear_radius w1 n) minpts n = fit (linear_radius w2 n) minpts n.
Proof.
  intros H. apply fit_ext.
  - apply linear_radius_ext, H.
  - intros i j _ Hj. apply linear_radius_In in Hj. tauto.
Qed.

Theorem fit_depends_only_on_neighbourhoods {T1 T2} (O1 : Ops T1) (O2 : Ops T2)
        (d1 : nat -> nat -> T1) (d2 : nat -> nat -> T2) (e1 : T1) (e2 : T2) minpts n :
  (forall i j, i < n -> j < n -> oleb O1 (d1 i j) e1 = oleb O2 (d2 i j) e2) ->
  fit (linear_radius (fun i j => oleb O1 (d1 i j) e1) n) minpts n =
  fit (linear_radius (fun i j => oleb O2 (d2 i j) e2) n) minpts n.
Proof. intros H. apply fit_within_ext. exact H. Qed.

(* ================ 2. binary64 against exact arithmetic ================ *)
Local Open Scope R_scope.
Local Existing Instance Hprec.
Local Existing Instance Hmax.

(* ---------------- Euclidean DBSCAN, generic in the scalar operations ---------------- *)
Definition euclid {T} (O : Ops T) (a b : list T) : T :=
  osqrt O (fold_left (fun s p => oadd O s (omul O (osub O (fst p) (snd p)) (osub O (fst p) (snd p))))
                     (combine a b) (o0 O)).

Definition within_euclid {T} (O : Ops T) (data : list (list T)) (eps : T) (i j : nat) : bool :=
  oleb O (euclid O (nth i data []) (nth j data [])) eps.

Definition fit_euclid {T} (O : Ops T) (data : list (list T)) (eps : T) (minpts : nat) : option (list Z * Z) :=
  fit (linear_radius (within_euclid O data eps) (length data)) minpts (length data).

Definition radius_query {T} (O : Ops T) (data : list (list T)) (q : list T) (eps : T) : list nat :=
  filter (fun j => oleb O (euclid O q (nth j data [])) eps) (seq 0 (length data)).

Definition predict_euclid {T} (O : Ops T) (y : list Z) (c : nat) (data : list (list T)) (q : list T) (eps : T) : Z :=
  predict_one y c (radius_query O data q eps).

Lemma euclid_same_fold {T} (O : Ops T) (a b : list T) : euclid O a b = osqrt O (C17.Model.sq_dist_loop O a b).
Proof. reflexivity. Qed.

Lemma euclid_F_is_Corr a b : euclid FOps a b = C13.Corr.euclid a b.
Proof. reflexivity. Qed.

(* ---------------- what the correspondence executes is fit_euclid FOps ---------------- *)
Lemma radius_from_filter data : forall k q eps,
  radius_from k data q eps =
  filter (fun j => PrimFloat.leb (C13.Corr.euclid q (nth (j - k) data [])) eps) (seq k (length data)).
Proof.
  induction data as [|row t IH]; intros k q eps; cbn [radius_from length seq filter]; [reflexivity|].
  rewrite Nat.sub_diag. cbn [nth].
  assert (E : radius_from (S k) t q eps =
              filter (fun j => PrimFloat.leb (C13.Corr.euclid q (nth (j - k) (row :: t) [])) eps) (seq (S k) (length t))).
  { rewrite IH. apply filter_ext_in. intros j Hj. apply in_seq in Hj.
    replace (j - k)%nat with (S (j - S k)) by lia. reflexivity. }
  rewrite E. destruct (PrimFloat.leb _ eps); reflexivity.
Qed.

Lemma radius_from_query data q eps : radius_from 0 data q eps = radius_query FOps data q eps.
Proof.
  rewrite radius_from_filter. unfold radius_query. apply filter_ext. intros j. rewrite Nat.sub_0_r. reflexivity.
Qed.

Lemma nbs_euclid_length data eps : length (nbs_euclid data eps) = length data.
Proof. unfold nbs_euclid. apply map_length. Qed.

Lemma nb_of_nbs_euclid data eps i : (i < length data)%nat ->
  nb_of (nbs_euclid data eps) i = linear_radius (within_euclid FOps data eps) (length data) i.
Proof.
  intros Hi. unfold nb_of, nbs_euclid.
  rewrite (nth_indep _ [] ((fun q => radius_from 0 data q eps) [])) by (rewrite map_length; exact Hi).
  rewrite (map_nth (fun q => radius_from 0 data q eps)). rewrite radius_from_query. reflexivity.
Qed.

Theorem corr_fit_euclid_is_fit_euclid minpts data eps :
  fit (nb_of (nbs_euclid data eps)) minpts (length (nbs_euclid data eps)) = fit_euclid FOps data eps minpts.
Proof.
  rewrite nbs_euclid_length. unfold fit_euclid. symmetry. apply fit_ext.
  - intros i Hi. symmetry. apply nb_of_nbs_euclid, Hi.
  - intros i j _ Hj. apply linear_radius_In in Hj. tauto.
Qed.

Theorem corr_fit_euclid_sound minpts data eps exp_y exp_c :
  corr_fit_euclid minpts data eps exp_y exp_c = true ->
  fit_euclid FOps data eps (N.to_nat minpts) = Some (exp_y, exp_c).
Proof.
  unfold corr_fit_euclid. cbv zeta. rewrite corr_fit_euclid_is_fit_euclid.
  destruct (fit_euclid FOps data eps (N.to_nat minpts)) as [[y c]|]; [|discriminate].
  intros H. apply andb_prop in H as [H1 H2]. apply zlist_eqb_eq in H1. apply Z.eqb_eq in H2. subst. reflexivity.
Qed.

(* ---------------- comparison of finite floats ---------------- *)
Lemma fleb_finite a b : ffin a -> ffin b -> PrimFloat.leb a b = Rle_bool (FR a) (FR b).
Proof. intros Ha Hb. rewrite leb_equiv. apply (Bleb_correct prec emax); apply ffin_B; assumption. Qed.

(* ---------------- the error bound of one computed distance ---------------- *)
Lemma euclid_float_error x y : length x = length y -> ffin (euclid FOps x y) ->
  C17.ProofsFloat.diff_normal_b x y = true ->
  0 <= euclid ROps (map FR x) (map FR y) /\
  Rabs (FR (euclid FOps x y) - euclid ROps (map FR x) (map FR y)) <= Eu (length x + 3) * euclid ROps (map FR x) (map FR y).
Proof.
  intros L Hfin Hb.
  assert (HS : C17.Model.euclidian FOps x y = Some (euclid FOps x y)).
  { unfold C17.Model.euclidian, C17.Model.squared_distance, C17.Model.same_len.
    rewrite (proj2 (Nat.eqb_eq _ _) L). reflexivity. }
  destruct (C17.ProofsFloat.euclidian_float_error_checked x y _ HS Hfin Hb) as (HR & _ & G).
  assert (E : R_sqrt.sqrt (C17.Spec.sigma (length x)
                (fun i => (C17.Spec.comp (C17.ProofsFloat.RV x) i - C17.Spec.comp (C17.ProofsFloat.RV y) i) *
                          (C17.Spec.comp (C17.ProofsFloat.RV x) i - C17.Spec.comp (C17.ProofsFloat.RV y) i))) =
              euclid ROps (map FR x) (map FR y)).
  { unfold C17.Model.euclidian, C17.Model.squared_distance, C17.Model.same_len in HR.
    rewrite !C17.ProofsFloat.RV_length, (proj2 (Nat.eqb_eq _ _) L) in HR. cbn [option_map] in HR.
    injection HR as HR. rewrite <- HR. reflexivity. }
  cbv zeta in G. rewrite E in G. split; [|exact G].
  rewrite euclid_same_fold. cbn [osqrt ROps]. apply sqrt_pos.
Qed.

(* the decision `d <= eps` of one pair *)
Lemma within_float_robust x y eps : length x = length y -> ffin (euclid FOps x y) ->
  C17.ProofsFloat.diff_normal_b x y = true -> ffin eps ->
  let D := euclid ROps (map FR x) (map FR y) in
  Eu (length x + 3) * D < Rabs (D - FR eps) ->
  oleb FOps (euclid FOps x y) eps = oleb ROps D (FR eps).
Proof.
  intros L Hfin Hb He D Hm. destruct (euclid_float_error x y L Hfin Hb) as [HD G]. fold D in HD, G.
  cbn [oleb FOps ROps]. rewrite (fleb_finite _ _ Hfin He).
  apply Rabs_le_inv in G.
  destruct (Rle_dec D (FR eps)) as [Hle|Hgt].
  - rewrite (proj2 (Rleb_true _ _) Hle). apply Rle_bool_true.
    rewrite Rabs_left1 in Hm by lra. lra.
  - apply Rnot_le_lt in Hgt. rewrite (proj2 (Rleb_false _ _) Hgt). apply Rle_bool_false.
    rewrite Rabs_pos_eq in Hm by lra. lra.
Qed.

Lemma nth_map_FR j (data : list (list PrimFloat.float)) :
  nth j (map (map FR) data) [] = map FR (nth j data []).
Proof. change (@nil R) with (map FR []). apply map_nth. Qed.

(* ---------------- fit ---------------- *)
Theorem fit_float_robust (data : list (list PrimFloat.float)) (eps : PrimFloat.float) (minpts p : nat) :
  let n := length data in
  (forall i, (i < n)%nat -> length (nth i data []) = p) ->
  ffin eps ->
  (forall i j, (i < n)%nat -> (j < n)%nat ->
     ffin (euclid FOps (nth i data []) (nth j data [])) /\
     C17.ProofsFloat.diff_normal_b (nth i data []) (nth j data []) = true) ->
  (forall i j, (i < n)%nat -> (j < n)%nat ->
     let D := euclid ROps (map FR (nth i data [])) (map FR (nth j data [])) in
     Eu (p + 3) * D < Rabs (D - FR eps)) ->
  fit_euclid FOps data eps minpts = fit_euclid ROps (map (map FR) data) (FR eps) minpts.
Proof.
  intros n Hlen He Hfin Hm. unfold fit_euclid. rewrite map_length. fold n.
  apply fit_within_ext. intros i j Hi Hj. unfold within_euclid. rewrite !nth_map_FR.
  destruct (Hfin i j Hi Hj) as [F B].
  apply within_float_robust; try assumption.
  - rewrite (Hlen i Hi), (Hlen j Hj). reflexivity.
  - rewrite (Hlen i Hi). apply Hm; assumption.
Qed.

(* ---------------- predict ---------------- *)
Theorem predict_float_robust (y : list Z) (c : nat) (data : list (list PrimFloat.float))
        (q : list PrimFloat.float) (eps : PrimFloat.float) :
  let n := length data in
  let p := length q in
  ffin eps ->
  (forall j, (j < n)%nat -> length (nth j data []) = p /\
     ffin (euclid FOps q (nth j data [])) /\ C17.ProofsFloat.diff_normal_b q (nth j data []) = true) ->
  (forall j, (j < n)%nat ->
     let D := euclid ROps (map FR q) (map FR (nth j data [])) in Eu (p + 3) * D < Rabs (D - FR eps)) ->
  radius_query FOps data q eps = radius_query ROps (map (map FR) data) (map FR q) (FR eps) /\
  predict_euclid FOps y c data q eps = predict_euclid ROps y c (map (map FR) data) (map FR q) (FR eps).
Proof.
  intros n p He Hh Hm.
  assert (E : radius_query FOps data q eps = radius_query ROps (map (map FR) data) (map FR q) (FR eps)).
  { unfold radius_query. rewrite map_length. apply filter_ext_in. intros j Hj. apply in_seq in Hj.
    assert (Hj' : (j < n)%nat) by (unfold n; lia).
    rewrite nth_map_FR. destruct (Hh j Hj') as (L & F & B).
    apply within_float_robust; try assumption; [symmetry; exact L | apply Hm, Hj']. }
  split; [exact E|]. unfold predict_euclid. rewrite E. reflexivity.
Qed.

(* ---------------- the float labels satisfy the real-valued definition ---------------- *)
Lemma euclid_R_sym (a b : list R) : euclid ROps a b = euclid ROps b a.
Proof.
  unfold euclid. f_equal. generalize (o0 ROps).
  revert b. induction a as [|x a IH]; intros [|y b] acc; cbn [combine fold_left]; try reflexivity.
  cbn [fst snd ROps oadd omul osub].
  replace (acc + (x - y) * (x - y)) with (acc + (y - x) * (y - x)) by ring. apply IH.
Qed.

Theorem fit_float_exact_neighbourhoods (data : list (list PrimFloat.float)) (eps : PrimFloat.float) (minpts p : nat) :
  let n := length data in
  let D := fun i j => euclid ROps (map FR (nth i data [])) (map FR (nth j data [])) in
  let nbR := linear_radius (fun i j => Rleb (D i j) (FR eps)) n in
  (forall i, (i < n)%nat -> length (nth i data []) = p) ->
  ffin eps ->
  (forall i j, (i < n)%nat -> (j < n)%nat ->
     ffin (euclid FOps (nth i data []) (nth j data [])) /\
     C17.ProofsFloat.diff_normal_b (nth i data []) (nth j data []) = true) ->
  (forall i j, (i < n)%nat -> (j < n)%nat -> Eu (p + 3) * D i j < Rabs (D i j - FR eps)) ->
  fit_euclid FOps data eps minpts = fit nbR minpts n /\
  nb_in_range nbR n /\ nb_symmetric nbR n /\
  (forall i j, In j (nbR i) <-> (j < n)%nat /\ D i j <= FR eps).
Proof.
  intros n D nbR Hlen He Hfin Hm.
  split; [|split; [|split]].
  - rewrite (fit_float_robust data eps minpts p Hlen He Hfin Hm).
    unfold fit_euclid. rewrite map_length. fold n. apply fit_within_ext.
    intros i j _ _. unfold within_euclid. rewrite !nth_map_FR. reflexivity.
  - apply (linear_radius_wellformed (fun i j => Rleb (D i j) (FR eps)) n).
    intros i j _ _. unfold D. rewrite euclid_R_sym. reflexivity.
  - apply (linear_radius_wellformed (fun i j => Rleb (D i j) (FR eps)) n).
    intros i j _ _. unfold D. rewrite euclid_R_sym. reflexivity.
  - intros i j. unfold nbR. rewrite linear_radius_In, Rleb_true. tauto.
Qed.

(* ---------------- fit followed by predict on a matrix of query rows ---------------- *)
Definition fit_predict_euclid {T} (O : Ops T) (data : list (list T)) (eps : T) (minpts : nat)
           (queries : list (list T)) : option (list Z * Z * list Z) :=
  match fit_euclid O data eps minpts with
  | None => None
  | Some (y, c) => Some (y, c, map (fun q => predict_euclid O y (Z.to_nat c) data q eps) queries)
  end.

Theorem fit_predict_float_robust (data queries : list (list PrimFloat.float)) (eps : PrimFloat.float) (minpts p : nat) :
  let n := length data in
  (forall i, (i < n)%nat -> length (nth i data []) = p) ->
  ffin eps ->
  (forall i j, (i < n)%nat -> (j < n)%nat ->
     ffin (euclid FOps (nth i data []) (nth j data [])) /\
     C17.ProofsFloat.diff_normal_b (nth i data []) (nth j data []) = true) ->
  (forall i j, (i < n)%nat -> (j < n)%nat ->
     let D := euclid ROps (map FR (nth i data [])) (map FR (nth j data [])) in
     Eu (p + 3) * D < Rabs (D - FR eps)) ->
  (forall q, In q queries -> length q = p /\
     forall j, (j < n)%nat ->
       ffin (euclid FOps q (nth j data [])) /\ C17.ProofsFloat.diff_normal_b q (nth j data []) = true /\
       let D := euclid ROps (map FR q) (map FR (nth j data [])) in Eu (p + 3) * D < Rabs (D - FR eps)) ->
  fit_predict_euclid FOps data eps minpts queries =
  fit_predict_euclid ROps (map (map FR) data) (FR eps) minpts (map (map FR) queries).
Proof.
  intros n Hlen He Hfin Hm Hq. unfold fit_predict_euclid.
  rewrite (fit_float_robust data eps minpts p Hlen He Hfin Hm).
  destruct (fit_euclid ROps (map (map FR) data) (FR eps) minpts) as [[y c]|]; [|reflexivity].
  f_equal. f_equal. rewrite map_map. apply map_ext_in. intros q Hin.
  destruct (Hq q Hin) as [Lq Hj].
  apply (predict_float_robust y (Z.to_nat c) data q eps He).
  - intros j Hjn. destruct (Hj j Hjn) as (F & B & _). rewrite Lq. split; [apply Hlen, Hjn|]. split; assumption.
  - intros j Hjn. destruct (Hj j Hjn) as (_ & _ & M). rewrite Lq. exact M.
Qed.
