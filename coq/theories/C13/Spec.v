(* C13 — the short mathematical vocabulary of the property: core points and density-connectedness
   through core points, for an arbitrary neighbourhood function `nb` (index lists). *)
From Coq Require Import List Arith.
Import ListNotations.

(* hypotheses on the neighbourhood function of n points: indices in range, symmetric as sets *)
Definition nb_in_range (nb : nat -> list nat) (n : nat) : Prop :=
  forall i j, i < n -> In j (nb i) -> j < n.
Definition nb_symmetric (nb : nat -> list nat) (n : nat) : Prop :=
  forall i j, i < n -> In j (nb i) -> In i (nb j).
(* two search backends returning the same points, each listed once, in any order *)
Definition nb_same_sets (nb1 nb2 : nat -> list nat) (n : nat) : Prop :=
  (forall i j, i < n -> (In j (nb1 i) <-> In j (nb2 i))) /\
  (forall i, i < n -> NoDup (nb1 i)) /\ (forall i, i < n -> NoDup (nb2 i)).

Section Spec.
  Variable nb : nat -> list nat.
  Variable minpts : nat.

  (* at least min_samples points within eps (the list the search structure returns, itself included) *)
  Definition core (i : nat) : Prop := minpts <= length (nb i).

  (* i and k are linked by a chain of core points, each within eps of the previous one *)
  Inductive core_conn : nat -> nat -> Prop :=
  | cc_refl : forall i, core_conn i i
  | cc_step : forall i j k, core i -> core j -> In j (nb i) -> core_conn j k -> core_conn i k.

  Lemma core_dec : forall i, {core i} + {~ core i}.
  Proof. intro i. unfold core. apply le_dec. Qed.

  Lemma core_conn_trans : forall a b c, core_conn a b -> core_conn b c -> core_conn a c.
  Proof.
    intros a b c H. induction H as [i | i j k Hi Hj Hin _ IH]; intro Hc; [exact Hc|].
    eapply cc_step; eauto.
  Qed.

  Lemma core_conn_snoc : forall a b c, core_conn a b -> core b -> core c -> In c (nb b) -> core_conn a c.
  Proof.
    intros a b c Hab Hb Hc Hin. eapply core_conn_trans; [exact Hab|].
    eapply cc_step; eauto. apply cc_refl.
  Qed.

  (* symmetric neighbourhoods make the relation symmetric *)
  Lemma core_conn_sym : (forall i j, core i -> In j (nb i) -> In i (nb j)) ->
    forall a b, core_conn a b -> core_conn b a.
  Proof.
    intros Hsym a b H. induction H as [i | i j k Hi Hj Hin _ IH]; [apply cc_refl|].
    eapply core_conn_snoc; eauto.
  Qed.
End Spec.
