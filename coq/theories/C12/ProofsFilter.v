(* C12 — the assignment step: on every well-formed tree and for every centroid set, `filter`
   attaches each row to one of its nearest centroids; sums, counts and the returned value are the
   sums, counts and distortion of that assignment (exact arithmetic). *)
From Coq Require Import List ZArith Bool Arith Lia Reals Lra Permutation.
From SC Require Import Base.Num C12.Model C12.ProofsBase C12.ProofsTree.
Import ListNotations.
Open Scope R_scope.

Definition sums_of (s : state (T := R)) : list (list R) := fst (fst s).
Definition counts_of (s : state (T := R)) : list nat := snd (fst s).
Definition memb_of (s : state (T := R)) : list nat := snd s.
Definition lab (s : state (T := R)) (r : nat) : nat := nth r (memb_of s) 0%nat.

(* ---------- set_range ---------- *)
Lemma set_range_length perm memb start cnt v : length (set_range perm memb start cnt v) = length memb.
Proof. revert memb start; induction cnt as [|c IH]; intros; simpl; auto. now rewrite IH, upd_length. Qed.

Lemma set_range_out perm memb start cnt v r :
  ~ In r (map (fun p => nth p perm 0%nat) (seq start cnt)) ->
  nth r (set_range perm memb start cnt v) 0%nat = nth r memb 0%nat.
Proof.
  revert memb start; induction cnt as [|c IH]; intros memb start H; simpl in *; auto.
  rewrite IH by tauto. apply nth_upd_neq. tauto.
Qed.

Lemma set_range_in perm memb start cnt v r :
  (forall r', In r' (map (fun p => nth p perm 0%nat) (seq start cnt)) -> (r' < length memb)%nat) ->
  In r (map (fun p => nth p perm 0%nat) (seq start cnt)) ->
  nth r (set_range perm memb start cnt v) 0%nat = v.
Proof.
  revert memb start; induction cnt as [|c IH]; intros memb start Hlt Hin; simpl in *; [tauto|].
  destruct (in_dec Nat.eq_dec r (map (fun p => nth p perm 0%nat) (seq (S start) c))) as [Hi|Hni].
  - apply IH; auto. intros r' Hr'. rewrite upd_length. apply Hlt. now right.
  - rewrite set_range_out by exact Hni. destruct Hin as [E|Hin]; [|contradiction].
    subst r. apply nth_upd_eq. apply Hlt. now left.
Qed.

(* ---------- the closest candidate ---------- *)
Lemma closest_loop_spec center centroids : forall cs m c0,
  m = sqdist ROps center (nth c0 centroids []) ->
  In (snd (closest_loop ROps center centroids cs m c0)) (c0 :: cs) /\
  fst (closest_loop ROps center centroids cs m c0) =
    sqdist ROps center (nth (snd (closest_loop ROps center centroids cs m c0)) centroids []) /\
  fst (closest_loop ROps center centroids cs m c0) <= m /\
  forall c, In c cs -> fst (closest_loop ROps center centroids cs m c0) <= sqdist ROps center (nth c centroids []).
Proof.
  induction cs as [|c cs IH]; intros m c0 Hm; cbn [closest_loop].
  - cbn [fst snd]. repeat split; auto; try lra. now left. intros c [].
  - cbn [oltb ROps]. destruct (Rltb (sqdist ROps center (nth c centroids [])) m) eqn:E.
    + apply Rltb_true in E.
      destruct (IH (sqdist ROps center (nth c centroids [])) c eq_refl) as (I1 & I2 & I3 & I4).
      repeat split; auto.
      * now right.
      * lra.
      * intros c' [<-|H]; [exact I3 | apply I4; auto].
    + apply Rltb_false in E.
      destruct (IH m c0 Hm) as (I1 & I2 & I3 & I4).
      repeat split; auto.
      * destruct I1 as [I1|I1]; [now left | right; now right].
      * intros c' [<-|H]; [lra | apply I4; auto].
Qed.

Lemma find_closest_in center centroids cands :
  cands <> [] -> In (find_closest ROps center centroids cands) cands.
Proof.
  destruct cands as [|c0 cs]; [congruence|]. intros _. unfold find_closest.
  apply (closest_loop_spec center centroids cs _ c0 eq_refl).
Qed.
Lemma find_closest_min center centroids cands c :
  In c cands ->
  sqdist ROps center (nth (find_closest ROps center centroids cands) centroids []) <=
  sqdist ROps center (nth c centroids []).
Proof.
  destruct cands as [|c0 cs]; [intros []|]. intros Hc. unfold find_closest.
  destruct (closest_loop_spec center centroids cs _ c0 eq_refl) as (I1 & I2 & I3 & I4).
  rewrite <- I2. destruct Hc as [<-|Hc]; [exact I3 | apply I4; exact Hc].
Qed.

Lemma NoDup_app_disj {A} (l1 l2 : list A) : NoDup (l1 ++ l2) -> forall x, In x l1 -> ~ In x l2.
Proof.
  induction l1 as [|a l1 IH]; intros H x Hx; [destruct Hx|].
  simpl in H. inversion H as [|? ? Hna Hnd]; subst. destruct Hx as [<-|Hx].
  - intro Hx2. apply Hna. apply in_or_app. now right.
  - apply IH; auto.
Qed.

Lemma NoDup_app_l {A} (l1 l2 : list A) : NoDup (l1 ++ l2) -> NoDup l1.
Proof.
  induction l1 as [|a l1 IH]; intros H; [constructor|].
  simpl in H. inversion H as [|? ? Hna Hnd]; subst. constructor; auto.
  intro Hx. apply Hna. apply in_or_app. now left.
Qed.
Lemma NoDup_app_r {A} (l1 l2 : list A) : NoDup (l1 ++ l2) -> NoDup l2.
Proof.
  induction l1 as [|a l1 IH]; intros H; [exact H|].
  simpl in H. inversion H; subst. auto.
Qed.

Lemma length_le1_eq {A} (l : list A) a b : (length l <= 1)%nat -> In a l -> In b l -> a = b.
Proof.
  destruct l as [|x [|y l]]; simpl; intros H Ha Hb; try lia; try tauto.
  destruct Ha as [<-|[]]; destruct Hb as [<-|[]]; reflexivity.
Qed.

Lemma wf_leaf_rows data perm d (i : info (T := R)) :
  wf_tree ROps 0 data perm d (Leaf i) = true ->
  forall r, In r (rows_of perm i) -> nth r data [] = n_center i.
Proof.
  intros Hwf r Hr. cbn [wf_tree] in Hwf.
  apply andb_true_iff in Hwf as [Hwf _]. apply andb_true_iff in Hwf as [Hwf _].
  apply andb_true_iff in Hwf as [_ Hall]. rewrite forallb_forall in Hall.
  apply all2_eqb_R. apply Hall. exact Hr.
Qed.

Section Filter.
  Variables (data : list (list R)) (perm : list nat) (d : nat) (centroids : list (list R)) (k n : nat).
  Hypothesis Hk : length centroids = k.
  Hypothesis Hcd : forall c, (c < k)%nat -> length (nth c centroids []) = d.
  Notation row := (row data).
  Notation X := (X data).
  Notation rows := (rows perm).

  Definition Dist (r c : nat) : R := sqdist ROps (row r) (nth c centroids []).

  Definition st_ok (s : state (T := R)) : Prop :=
    length (sums_of s) = k /\ (forall c, (c < k)%nat -> length (nth c (sums_of s) []) = d) /\
    length (counts_of s) = k /\ length (memb_of s) = n.

  Definition post (rs : list nat) (s s' : state (T := R)) (dist : R) : Prop :=
    st_ok s' /\
    (forall r, ~ In r rs -> lab s' r = lab s r) /\
    (forall c q, (c < k)%nat -> (q < d)%nat ->
       nth q (nth c (sums_of s') []) 0 =
       nth q (nth c (sums_of s) []) 0 + lsum (fun r => if (lab s' r =? c)%nat then X r q else 0) rs) /\
    (forall c, (c < k)%nat ->
       nth c (counts_of s') 0%nat = (nth c (counts_of s) 0 + lcount (fun r => (lab s' r =? c)%nat) rs)%nat) /\
    dist = lsum (fun r => Dist r (lab s' r)) rs.

  Definition nearest (rs : list nat) (s' : state (T := R)) : Prop :=
    forall r, In r rs -> (lab s' r < k)%nat /\ forall j, (j < k)%nat -> Dist r (lab s' r) <= Dist r j.

  Lemma post_combine rs1 rs2 s s1 s2 d1 d2 :
    post rs1 s s1 d1 -> post rs2 s1 s2 d2 -> (forall r, In r rs1 -> ~ In r rs2) ->
    post (rs1 ++ rs2) s s2 (d1 + d2).
  Proof.
    intros (A1 & A2 & A3 & A4 & A5) (B1 & B2 & B3 & B4 & B5) Hdis.
    assert (Hkeep : forall r, In r rs1 -> lab s2 r = lab s1 r) by (intros; apply B2; auto).
    split; [exact B1|]. split; [|split; [|split]].
    - intros r Hr. rewrite B2, A2; auto; intro; apply Hr; apply in_or_app; auto.
    - intros c q Hc Hq. rewrite B3, A3 by auto. rewrite lsum_app.
      rewrite (lsum_ext (fun r => if (lab s2 r =? c)%nat then X r q else 0)
                        (fun r => if (lab s1 r =? c)%nat then X r q else 0) rs1); [ring|].
      intros r Hr; now rewrite Hkeep.
    - intros c Hc. rewrite B4, A4 by auto. rewrite lcount_app.
      rewrite (lcount_ext (fun r => (lab s2 r =? c)%nat) (fun r => (lab s1 r =? c)%nat) rs1); [lia|].
      intros r Hr; now rewrite Hkeep.
    - rewrite A5, B5, lsum_app. f_equal. apply lsum_ext; intros r Hr; now rewrite Hkeep.
  Qed.

  Lemma assign_post (i : info (T := R)) closest s :
    st_ok s -> (closest < k)%nat ->
    (forall r, In r (rows_of perm i) -> (r < n)%nat /\ length (row r) = d) ->
    info_shape d i = true -> (1 <= n_count i)%nat ->
    sum_inv data d i (rows_of perm i) -> cost_inv data d i (rows_of perm i) ->
    post (rows_of perm i) s (snd (assign_node ROps perm centroids i closest s))
         (fst (assign_node ROps perm centroids i closest s)) /\
    forall r, In r (rows_of perm i) -> lab (snd (assign_node ROps perm centroids i closest s)) r = closest.
  Proof.
    intros Hst Hc Hrs Hsh Hn Hsum Hcost.
    destruct s as [[sums counts] memb]. destruct Hst as (S1 & S2 & S3 & S4).
    unfold sums_of, counts_of, memb_of in S1, S2, S3, S4. cbn [fst snd] in S1, S2, S3, S4.
    destruct (info_shape_lens d i Hsh) as (_ & _ & Hls).
    assert (Hlen : length (rows_of perm i) = n_count i) by (unfold rows_of; now rewrite map_length, seq_length).
    unfold assign_node. cbn [fst snd].
    assert (Hin : forall r, In r (rows_of perm i) ->
                  nth r (set_range perm memb (n_index i) (n_count i) closest) 0%nat = closest).
    { intros r Hr. apply set_range_in; auto. intros r' Hr'. rewrite S4. apply Hrs. exact Hr'. }
    split; [|exact Hin].
    unfold post, st_ok, lab, sums_of, counts_of, memb_of. cbn [fst snd].
    split; [|split; [|split; [|split]]].
    - rewrite !upd_length, set_range_length. repeat split; auto.
      intros c Hck. destruct (Nat.eq_dec closest c) as [<-|Hne].
      + rewrite nth_upd_eq by lia. rewrite vadd_length. auto.
      + rewrite nth_upd_neq by auto. auto.
    - intros r Hr. apply set_range_out. exact Hr.
    - intros c q Hck Hq. destruct (Nat.eq_dec closest c) as [<-|Hne].
      + rewrite nth_upd_eq by lia. rewrite vadd_nth by (rewrite S2; lia).
        rewrite (Hsum q Hq). f_equal. apply lsum_ext. intros r Hr. rewrite (Hin r Hr), Nat.eqb_refl. reflexivity.
      + rewrite nth_upd_neq by auto.
        rewrite (lsum_ext _ (fun _ => 0)); [rewrite lsum_zero; ring|].
        intros r Hr. rewrite (Hin r Hr). apply Nat.eqb_neq in Hne. now rewrite Hne.
    - intros c Hck. destruct (Nat.eq_dec closest c) as [<-|Hne].
      + rewrite nth_upd_eq by lia. f_equal.
        rewrite (lcount_ext _ (fun _ => true)); [now rewrite lcount_true|].
        intros r Hr. rewrite (Hin r Hr). apply Nat.eqb_refl.
      + rewrite nth_upd_neq by auto.
        rewrite (lcount_ext _ (fun _ => false)); [rewrite lcount_false; lia|].
        intros r Hr. rewrite (Hin r Hr). now apply Nat.eqb_neq.
    - rewrite (node_cost_id data d i (rows_of perm i)); auto.
      + apply lsum_ext. intros r Hr. unfold Dist. rewrite (Hin r Hr). reflexivity.
      + intros r Hr. apply Hrs. exact Hr.
  Qed.

  Lemma assign_nearest rs cands closest (s' : state (T := R)) :
    In closest cands -> (forall c, In c cands -> (c < k)%nat) ->
    (forall r c, In r rs -> In c cands -> Dist r closest <= Dist r c) ->
    (forall r j, In r rs -> (j < k)%nat -> exists c, In c cands /\ Dist r c <= Dist r j) ->
    (forall r, In r rs -> lab s' r = closest) ->
    nearest rs s'.
  Proof.
    intros Hin Hck Hmin Hdom Hlab r Hr. rewrite (Hlab r Hr). split; [auto|].
    intros j Hj. destruct (Hdom r j Hr Hj) as (c & Hc & Hle).
    specialize (Hmin r c Hr Hc). lra.
  Qed.

  Lemma filter_spec : forall t cands s,
    wf_tree ROps 0 data perm d t = true ->
    (forall r, In r (rows t) -> (r < n)%nat /\ length (row r) = d) ->
    NoDup (rows t) -> cands <> [] -> (forall c, In c cands -> (c < k)%nat) ->
    (forall r j, In r (rows t) -> (j < k)%nat -> exists c, In c cands /\ Dist r c <= Dist r j) ->
    st_ok s ->
    post (rows t) s (snd (filter ROps perm centroids t cands s)) (fst (filter ROps perm centroids t cands s)) /\
    nearest (rows t) (snd (filter ROps perm centroids t cands s)).
  Proof.
    induction t as [i | i lo IHlo up IHup]; intros cands s Hwf Hrs Hnd Hne Hck Hdom Hst.
    - (* leaf *)
      cbn [filter].
      assert (Hrl : forall r, In r (rows (Leaf i)) -> length (row r) = d) by (intros r Hr; apply Hrs; exact Hr).
      destruct (wf_inv data perm d (Leaf i) Hwf Hrl) as (Hsh & Hn & Hsum & Hcost).
      cbn [info_of] in *. change (rows (Leaf i)) with (rows_of perm i) in *.
      set (closest := find_closest ROps (n_center i) centroids cands).
      assert (Hcin : In closest cands) by (apply find_closest_in; exact Hne).
      destruct (assign_post i closest s Hst (Hck _ Hcin) Hrs Hsh Hn Hsum Hcost) as [Hpost Hlab].
      split; [exact Hpost|].
      apply (assign_nearest _ cands closest); auto.
      intros r c Hr Hc. unfold Dist, ProofsTree.row. rewrite (wf_leaf_rows data perm d i Hwf r Hr).
      apply find_closest_min. exact Hc.
    - (* split *)
      destruct (wf_split_facts data perm d i lo up Hwf) as (Hsh & Hrows & Hcnt & Hbox & _ & _ & Hwl & Hwu).
      destruct (info_shape_lens d i Hsh) as (Hlc & Hlr & _).
      cbn [filter].
      set (closest := find_closest ROps (n_center i) centroids cands).
      set (newc := List.filter (fun c => negb (prune ROps (n_center i) (n_radius i) centroids closest c)) cands).
      assert (Hcin : In closest cands) by (apply find_closest_in; exact Hne).
      assert (Hcnew : In closest newc).
      { apply filter_In. split; [exact Hcin|]. now rewrite prune_self. }
      assert (Hprune : forall r c, In r (rows (Split i lo up)) -> In c cands ->
                        prune ROps (n_center i) (n_radius i) centroids closest c = true ->
                        Dist r closest <= Dist r c).
      { intros r c Hr Hc Hp. unfold Dist. destruct (Hrs r Hr) as [_ Hlr'].
        apply (prune_sound (n_center i) (n_radius i)); auto; try lia.
        - rewrite Hcd; auto.
        - rewrite Hcd; auto. }
      destruct (1 <? length newc)%nat eqn:E.
      + (* recurse with the pruned candidate list *)
        apply Nat.ltb_lt in E.
        assert (Hnn : newc <> []) by (intro H0; rewrite H0 in E; simpl in E; lia).
        assert (Hnk : forall c, In c newc -> (c < k)%nat).
        { intros c Hc. apply filter_In in Hc. apply Hck. tauto. }
        assert (Hndom : forall r j, In r (rows (Split i lo up)) -> (j < k)%nat ->
                          exists c, In c newc /\ Dist r c <= Dist r j).
        { intros r j Hr Hj. destruct (Hdom r j Hr Hj) as (c & Hc & Hle).
          destruct (prune ROps (n_center i) (n_radius i) centroids closest c) eqn:Hp.
          - exists closest. split; [exact Hcnew|]. specialize (Hprune r c Hr Hc Hp). lra.
          - exists c. split; [|exact Hle]. apply filter_In. split; [exact Hc|]. now rewrite Hp. }
        rewrite Hrows in Hnd.
        pose proof (NoDup_app_r _ _ Hnd) as Hndu.
        pose proof (NoDup_app_l _ _ Hnd) as Hndl.
        pose proof (NoDup_app_disj _ _ Hnd) as Hdisj.
        assert (Hinl : forall r, In r (rows lo) -> In r (rows (Split i lo up))).
        { intros r Hr. rewrite Hrows. apply in_or_app. now left. }
        assert (Hinu : forall r, In r (rows up) -> In r (rows (Split i lo up))).
        { intros r Hr. rewrite Hrows. apply in_or_app. now right. }
        destruct (IHlo newc s Hwl (fun r Hr => Hrs r (Hinl r Hr)) Hndl Hnn Hnk
                       (fun r j Hr Hj => Hndom r j (Hinl r Hr) Hj) Hst) as [P1 N1].
        destruct (filter ROps perm centroids lo newc s) as [d1 s1] eqn:E1. cbn [fst snd] in P1, N1.
        assert (Hst1 : st_ok s1) by (destruct P1 as [H _]; exact H).
        destruct (IHup newc s1 Hwu (fun r Hr => Hrs r (Hinu r Hr)) Hndu Hnn Hnk
                       (fun r j Hr Hj => Hndom r j (Hinu r Hr) Hj) Hst1) as [P2 N2].
        destruct (filter ROps perm centroids up newc s1) as [d2 s2] eqn:E2. cbn [fst snd] in P2, N2.
        cbn [fst snd oadd ROps]. rewrite Hrows. split.
        * apply (post_combine _ _ s s1 s2); auto.
        * intros r Hr. apply in_app_or in Hr as [Hr|Hr].
          -- destruct P2 as (_ & K & _). rewrite (K r (Hdisj r Hr)). apply N1. exact Hr.
          -- apply N2. exact Hr.
      + (* everything but `closest` is pruned: attach the whole node *)
        apply Nat.ltb_ge in E.
        assert (Hrl : forall r, In r (rows (Split i lo up)) -> length (row r) = d) by (intros r Hr; apply Hrs; exact Hr).
        destruct (wf_inv data perm d (Split i lo up) Hwf Hrl) as (_ & Hn & Hsum & Hcost).
        cbn [info_of] in *. change (rows (Split i lo up)) with (rows_of perm i) in *.
        destruct (assign_post i closest s Hst (Hck _ Hcin) Hrs Hsh Hn Hsum Hcost) as [Hpost Hlab].
        split; [exact Hpost|].
        apply (assign_nearest _ cands closest); auto.
        intros r c Hr Hc.
        destruct (prune ROps (n_center i) (n_radius i) centroids closest c) eqn:Hp.
        * apply Hprune; auto.
        * assert (Hcn : In c newc) by (apply filter_In; split; [exact Hc | now rewrite Hp]).
          rewrite (length_le1_eq newc c closest E Hcn Hcnew). lra.
  Qed.
End Filter.
