(* C12 — correspondence interface: the model at binary64 (FOps), run on literal inputs and on the
   implementation's own state (tree dump through BBDTree::verif_dump, recorded k-means++ seeding),
   compared with what the implementation returned.  Everything is compared bit for bit: the code
   paths use only + - * / and comparisons, in the order of the model. *)
From Coq Require Import List ZArith NArith Bool Floats.
From SC Require Import Base.FloatUtil Base.Num C12.Model C12.ProofsNodes.
Import ListNotations.

Definition to_nats := map N.to_nat.
Definition of_nats := map N.of_nat.
Definition f64_max : float := 0x1.fffffffffffffp+1023%float.

(* one dumped node: count index center radius sum cost lower upper *)
Definition rn (count index : N) (center radius sum : list float) (cost : float) (lo up : option N)
  : raw_node (T := float) :=
  (mkInfo (N.to_nat count) (N.to_nat index) center radius sum cost,
   option_map N.to_nat lo, option_map N.to_nat up).

Definition dump_tree (nodes : list (raw_node (T := float))) (root : N) : option (bbd (T := float)) :=
  tree_of_nodes (S (length nodes)) nodes (N.to_nat root).

Definition info_eqb (a b : info (T := float)) : bool :=
  Nat.eqb (n_count a) (n_count b) && Nat.eqb (n_index a) (n_index b) &&
  flist_eq (n_center a) (n_center b) && flist_eq (n_radius a) (n_radius b) &&
  flist_eq (n_sum a) (n_sum b) && feq (n_cost a) (n_cost b).
Fixpoint tree_eqb (a b : bbd (T := float)) : bool :=
  match a, b with
  | Leaf i, Leaf j => info_eqb i j
  | Split i l u, Split j l' u' => info_eqb i j && tree_eqb l l' && tree_eqb u u'
  | _, _ => false
  end.

(* the dump is a tree in post-order storage, and it satisfies the well-formedness predicate of the
   theorems (C12_filter_exact, C12_lloyd_bookkeeping) — evaluated at binary64, box test with `slack`
   (0 on dyadic lattices, a few ulp of the data scale on continuous data: centre and radius are
   rounded).  `post_ok` (C12/ProofsNodes.v) is the hypothesis of C12_tree_of_nodes_postorder: the
   vector is the post-order listing of a tree (children before their parent, no unreachable or
   shared entry, root last), which is what build_node's push order produces. *)
Definition corr_wf (slack : float) (data : list (list float)) (nodes : list raw_node) (perm : list N) (root : N)
  : bool :=
  match dump_tree nodes root with
  | None => false
  | Some t =>
      Nat.eqb (tree_size t) (length nodes) && Nat.eqb (S (N.to_nat root)) (length nodes) &&
      post_ok nodes &&
      wf_bbd FOps slack data (to_nats perm) t
  end.

(* build_node model on the data = the dumped tree and index permutation, bit for bit *)
Definition corr_build (data : list (list float)) (nodes : list raw_node) (perm : list N) (root : N) : bool :=
  match dump_tree nodes root, build FOps data with
  | Some t, Some (t', perm') => tree_eqb t t' && list_eqb Nat.eqb perm' (to_nats perm)
  | _, _ => false
  end.
(* construction panics (or recurses without bound) in the implementation <-> model returns None *)
Definition corr_build_fails (data : list (list float)) : bool :=
  match build FOps data with None => true | Some _ => false end.

Definition corr_prune (center radius : list float) (centroids : list (list float)) (best test : N)
           (expected : bool) : bool :=
  Bool.eqb (prune FOps center radius centroids (N.to_nat best) (N.to_nat test)) expected.

(* clustering model on the dumped tree, arbitrary centroids and arbitrary incoming buffers *)
Definition corr_clustering (nodes : list raw_node) (perm : list N) (root : N) (centroids : list (list float))
           (sums0 : list (list float)) (counts0 memb0 : list N)
           (exp_dist : float) (exp_sums : list (list float)) (exp_counts exp_memb : list N) : bool :=
  match dump_tree nodes root with
  | None => false
  | Some t =>
      match clustering FOps (to_nats perm) centroids t (sums0, to_nats counts0, to_nats memb0) with
      | None => false
      | Some (dist, (sums, counts, memb)) =>
          feq dist exp_dist && fmat_eq sums exp_sums &&
          nlist_eqb (of_nats counts) exp_counts && nlist_eqb (of_nats memb) exp_memb
      end
  end.

(* k-means++ replayed from the recorded first centroid and cut-offs *)
Definition corr_kpp (data : list (list float)) (k first : N) (cutoffs : list float)
           (exp_chosen exp_y : list N) : bool :=
  match kmeans_plus_plus FOps f64_max data (N.to_nat k) (N.to_nat first) (map Cut cutoffs) with
  | None => false
  | Some (y, chosen) => nlist_eqb (of_nats y) exp_y && nlist_eqb (of_nats chosen) exp_chosen
  end.

(* whole fit (tree construction + Lloyd iterations) replayed from the recorded initial assignment;
   expected: None = panic, Some None = Err, Some (Some (k, y, size, distortion, centroids)) *)
Definition corr_fit (data : list (list float)) (k max_iter : N) (y0 : list N)
           (expected : option (option (N * list N * list N * float * list (list float)))) : bool :=
  match fit FOps f64_max data (N.to_nat k) (N.to_nat max_iter) (to_nats y0), expected with
  | None, None => true
  | Some None, Some None => true
  | Some (Some m), Some (Some (ek, ey, esize, edist, ecent)) =>
      N.eqb (N.of_nat (km_k m)) ek && nlist_eqb (of_nats (km_y m)) ey &&
      nlist_eqb (of_nats (km_size m)) esize && feq (km_distortion m) edist &&
      fmat_eq (km_centroids m) ecent
  | _, _ => false
  end.

Definition corr_predict (k : N) (centroids : list (list float)) (x : list (list float)) (expected : list N) : bool :=
  nlist_eqb
    (of_nats (predict FOps f64_max (mkKMeans (N.to_nat k) [] [] 0%float centroids) x)) expected.
