(* C12 — BBDTree::new / build_node over the reals: every tree the construction returns is well-formed
   (wf_bbd), so the assignment theorems apply to every BUILT tree.

   Over R the split always separates: the cutoff is the midpoint (l+u)/2 of the widest coordinate,
   whose half-width is >= 1e-10 > 0, hence l < cutoff < u, the row attaining l goes to the lower
   side and the row attaining u to the upper side; both sides are non-empty.  Over binary64 this
   is false (KNOWN_FINDINGS bbd-adjacent-float-split: the rounded midpoint of two adjacent floats
   is the lower one) — the theorems below are statements about the model at ROps only.  The leaf
   rule (radius < 1e-10, absolute) merges rows closer than that; the hypothesis `separated`
   excludes such data (KNOWN_FINDINGS bbd-leaf-threshold-absolute). *)
From Coq Require Import List ZArith Bool Arith Lia Reals Lra.
From SC Require Import Base.Num C12.Model C12.ProofsBase C12.ProofsTree C12.ProofsKMeans.
Import ListNotations.
Open Scope R_scope.

(* ---------- small list facts ---------- *)
Lemma map2_nth (f : R -> R -> R) a b j : (j < length a)%nat -> (j < length b)%nat ->
  nth j (map2 f a b) 0 = f (nth j a 0) (nth j b 0).
Proof.
  unfold map2. revert b j; induction a as [|x a IH]; intros [|y b] [|j] Ha Hb; simpl in *; try lia; auto.
  apply IH; lia.
Qed.

Lemma all2_eqb_refl a : all2 (oeqb ROps) a a = true.
Proof.
  induction a as [|x a IH]; cbn [all2]; auto. rewrite IH, andb_true_r.
  cbn [oeqb ROps]. now apply Reqb_true.
Qed.

Lemma map2_add_vadd a b : length a = length b -> map2 (oadd ROps) a b = vadd ROps a b.
Proof.
  unfold map2. revert b; induction a as [|x a IH]; intros [|y b] H; simpl in *; try discriminate; auto.
  f_equal. apply IH. lia.
Qed.

Lemma in_box_nth : forall c r x,
  length c = length x -> length r = length x ->
  (forall j, (j < length x)%nat -> nth j c 0 - nth j r 0 <= nth j x 0 <= nth j c 0 + nth j r 0) ->
  in_box ROps 0 c r x = true.
Proof.
  induction c as [|c0 c IH]; intros [|r0 r] [|x0 x] Hc Hr H; simpl in Hc, Hr; try discriminate; auto.
  cbn [in_box]. rewrite IH; try lia.
  - rewrite andb_true_r. specialize (H 0%nat ltac:(simpl; lia)). cbn [nth] in H.
    apply andb_true_intro; split; cbn [oleb osub oadd ROps]; apply Rleb_true; lra.
  - intros j Hj. apply (H (S j)). simpl; lia.
Qed.

(* ---------- two index vectors holding the same rows in a range, identical outside ---------- *)
Definition same_range (perm perm' : list nat) (lo hi : nat) : Prop :=
  length perm' = length perm /\
  (forall p, (p < lo \/ hi <= p)%nat -> nth p perm' 0%nat = nth p perm 0%nat) /\
  (forall p, (lo <= p < hi)%nat -> exists p', (lo <= p' < hi)%nat /\ nth p perm' 0%nat = nth p' perm 0%nat) /\
  (forall p, (lo <= p < hi)%nat -> exists p', (lo <= p' < hi)%nat /\ nth p perm 0%nat = nth p' perm' 0%nat).

Lemma same_range_refl perm lo hi : same_range perm perm lo hi.
Proof. repeat split; auto; intros p Hp; exists p; auto. Qed.

Lemma same_range_trans a b c lo hi : same_range a b lo hi -> same_range b c lo hi -> same_range a c lo hi.
Proof.
  intros (L1 & O1 & F1 & B1) (L2 & O2 & F2 & B2). repeat split.
  - congruence.
  - intros p Hp. rewrite O2, O1; auto.
  - intros p Hp. destruct (F2 p Hp) as (q & Hq & E). destruct (F1 q Hq) as (q' & Hq' & E').
    exists q'. split; auto. congruence.
  - intros p Hp. destruct (B1 p Hp) as (q & Hq & E). destruct (B2 q Hq) as (q' & Hq' & E').
    exists q'. split; auto. congruence.
Qed.

Lemma same_range_widen a b lo hi lo' hi' :
  same_range a b lo' hi' -> (lo <= lo')%nat -> (hi' <= hi)%nat -> same_range a b lo hi.
Proof.
  intros (L & O & F & B) Hlo Hhi. repeat split; auto.
  - intros p Hp. apply O. lia.
  - intros p Hp. destruct (le_lt_dec lo' p) as [H1|H1]; [destruct (le_lt_dec hi' p) as [H2|H2]|].
    + exists p. split; [lia|]. apply O. lia.
    + destruct (F p ltac:(lia)) as (q & Hq & E). exists q. split; [lia|auto].
    + exists p. split; [lia|]. apply O. lia.
  - intros p Hp. destruct (le_lt_dec lo' p) as [H1|H1]; [destruct (le_lt_dec hi' p) as [H2|H2]|].
    + exists p. split; [lia|]. symmetry. apply O. lia.
    + destruct (B p ltac:(lia)) as (q & Hq & E). exists q. split; [lia|auto].
    + exists p. split; [lia|]. symmetry. apply O. lia.
Qed.

Lemma nth_swap l a b p : (a < length l)%nat -> (b < length l)%nat ->
  nth p (swap l a b) 0%nat =
  if (p =? b)%nat then nth a l 0%nat else if (p =? a)%nat then nth b l 0%nat else nth p l 0%nat.
Proof.
  intros Ha Hb. unfold swap. destruct (Nat.eqb_spec p b) as [->|Hpb].
  - apply nth_upd_eq. now rewrite upd_length.
  - rewrite nth_upd_neq by lia. destruct (Nat.eqb_spec p a) as [->|Hpa].
    + now apply nth_upd_eq.
    + apply nth_upd_neq. lia.
Qed.

Lemma swap_length l a b : length (swap l a b) = length l.
Proof. unfold swap. now rewrite !upd_length. Qed.

Lemma same_range_swap l a b lo hi :
  (lo <= a < hi)%nat -> (lo <= b < hi)%nat -> (hi <= length l)%nat -> same_range l (swap l a b) lo hi.
Proof.
  intros Ha Hb Hl. repeat split.
  - apply swap_length.
  - intros p Hp. rewrite nth_swap by lia.
    destruct (Nat.eqb_spec p b); [lia|]. destruct (Nat.eqb_spec p a); [lia|]. reflexivity.
  - intros p Hp. rewrite nth_swap by lia.
    destruct (Nat.eqb_spec p b); [exists a; split; [lia|auto]|].
    destruct (Nat.eqb_spec p a); [exists b; split; [lia|auto]|]. exists p; auto.
  - intros p Hp.
    destruct (Nat.eq_dec p a) as [->|Hpa].
    + exists b. split; [lia|]. rewrite nth_swap by lia. now rewrite Nat.eqb_refl.
    + destruct (Nat.eq_dec p b) as [->|Hpb].
      * exists a. split; [lia|]. rewrite nth_swap by lia.
        destruct (Nat.eqb_spec a b); [congruence|]. now rewrite Nat.eqb_refl.
      * exists p. split; auto. rewrite nth_swap by lia.
        destruct (Nat.eqb_spec p b); [lia|]. destruct (Nat.eqb_spec p a); [lia|]. reflexivity.
Qed.

(* ---------- the in-place partition loop ---------- *)
Section Partition.
  Variables (data : list (list R)) (si : nat) (cutoff : R) (lo hi : nat).
  Definition valp (perm : list nat) (p : nat) : R := nth si (nth (nth p perm 0%nat) data []) 0.

  Lemma partition_loop_spec : forall fuel perm i1 i2 size perm' size',
    (lo <= i1)%nat -> (i1 <= S i2)%nat -> (S i2 <= hi)%nat -> (hi <= length perm)%nat ->
    (forall p, (lo <= p < i1)%nat -> valp perm p < cutoff) ->
    (forall p, (i2 < p < hi)%nat -> cutoff <= valp perm p) ->
    partition_loop ROps fuel data si cutoff perm i1 i2 size = Some (perm', size') ->
    same_range perm perm' lo hi /\
    exists e, size' = (size + e)%nat /\ (i1 + e <= hi)%nat /\
      (forall p, (lo <= p < i1 + e)%nat -> valp perm' p < cutoff) /\
      (forall p, (i1 + e <= p < hi)%nat -> cutoff <= valp perm' p).
  Proof.
    induction fuel as [|f IH]; intros perm i1 i2 size perm' size' Hlo H12 Hhi Hlen Hlow Hup Hrun;
      cbn [partition_loop] in Hrun; [discriminate|].
    destruct (Nat.leb_spec i1 i2) as [Hle|Hgt].
    2:{ inversion Hrun; subst. split; [apply same_range_refl|].
        exists 0%nat. repeat split; try lia.
        - intros p Hp. apply Hlow. lia.
        - intros p Hp. apply Hup. lia. }
    change (nth si (nth (nth i1 perm 0%nat) data []) (o0 ROps)) with (valp perm i1) in Hrun.
    change (nth si (nth (nth i2 perm 0%nat) data []) (o0 ROps)) with (valp perm i2) in Hrun.
    cbn [oltb oleb ROps] in Hrun.
    destruct (Rltb (valp perm i1) cutoff) eqn:G1; destruct (Rleb cutoff (valp perm i2)) eqn:G2;
      cbn [negb andb orb] in Hrun.
    - (* both good *)
      apply Rltb_true in G1. apply Rleb_true in G2.
      destruct i2 as [|j]; [discriminate|].
      assert (i1 <> S j) by (intros ->; lra).
      apply IH in Hrun; try lia.
      + destruct Hrun as (SR & e & -> & He & Hl & Hu). split; auto.
        exists (S e). repeat split; try lia.
        * intros p Hp. apply Hl. lia.
        * intros p Hp. apply Hu. lia.
      + intros p Hp. destruct (Nat.eq_dec p i1) as [->|]; auto. apply Hlow. lia.
      + intros p Hp. destruct (Nat.eq_dec p (S j)) as [->|]; auto. apply Hup. lia.
    - (* i1 good only *)
      apply Rltb_true in G1.
      apply IH in Hrun; try lia.
      + destruct Hrun as (SR & e & -> & He & Hl & Hu). split; auto.
        exists (S e). repeat split; try lia.
        * intros p Hp. apply Hl. lia.
        * intros p Hp. apply Hu. lia.
      + intros p Hp. destruct (Nat.eq_dec p i1) as [->|]; auto. apply Hlow. lia.
      + auto.
    - (* i2 good only *)
      apply Rleb_true in G2.
      destruct i2 as [|j]; [discriminate|].
      apply Rltb_false in G1.
      apply IH in Hrun; try lia.
      + destruct Hrun as (SR & e & -> & He & Hl & Hu). split; auto.
        exists e. repeat split; try lia; auto.
      + auto.
      + intros p Hp. destruct (Nat.eq_dec p (S j)) as [->|]; auto. apply Hup. lia.
    - (* both bad: swap, both advance *)
      apply Rltb_false in G1. apply Rleb_false in G2.
      destruct i2 as [|j]; [discriminate|].
      assert (i1 <> S j) by (intros ->; lra).
      assert (SW : same_range perm (swap perm i1 (S j)) lo hi) by (apply same_range_swap; lia).
      assert (V : forall p, valp (swap perm i1 (S j)) p =
                            if (p =? S j)%nat then valp perm i1 else if (p =? i1)%nat then valp perm (S j) else valp perm p).
      { intros p. unfold valp. rewrite nth_swap by lia.
        destruct (p =? S j)%nat; auto. destruct (p =? i1)%nat; auto. }
      apply IH in Hrun; try lia.
      + destruct Hrun as (SR & e & -> & He & Hl & Hu). split; [eapply same_range_trans; eauto|].
        exists (S e). repeat split; try lia.
        * intros p Hp. apply Hl. lia.
        * intros p Hp. apply Hu. lia.
      + rewrite swap_length. lia.
      + intros p Hp. rewrite V. destruct (Nat.eqb_spec p (S j)); [lia|].
        destruct (Nat.eqb_spec p i1); [lra|]. apply Hlow. lia.
      + intros p Hp. rewrite V. destruct (Nat.eqb_spec p (S j)); [lra|].
        destruct (Nat.eqb_spec p i1); [lia|]. apply Hup. lia.
  Qed.
End Partition.

(* ---------- the bounding-box pass ---------- *)
Section Bounds.
  Variables (data : list (list R)) (perm : list nat) (d : nat).
  Definition rowp (p : nat) : list R := nth (nth p perm 0%nat) data [].

  Lemma bounds_fold : forall ps l0 u0 l u,
    length l0 = d -> length u0 = d -> (forall p, In p ps -> length (rowp p) = d) ->
    fold_left (fun lu p =>
                 let row := nth (nth p perm 0%nat) data [] in
                 (map2 (fun l c => if oltb ROps c l then c else l) (fst lu) row,
                  map2 (fun u c => if oltb ROps u c then c else u) (snd lu) row)) ps (l0, u0) = (l, u) ->
    length l = d /\ length u = d /\
    forall j, (j < d)%nat ->
      nth j l 0 <= nth j l0 0 /\ nth j u0 0 <= nth j u 0 /\
      (forall p, In p ps -> nth j l 0 <= nth j (rowp p) 0 <= nth j u 0) /\
      (nth j l 0 = nth j l0 0 \/ exists p, In p ps /\ nth j l 0 = nth j (rowp p) 0) /\
      (nth j u 0 = nth j u0 0 \/ exists p, In p ps /\ nth j u 0 = nth j (rowp p) 0).
  Proof.
    induction ps as [|p0 ps IH]; intros l0 u0 l u Hl0 Hu0 Hrows Hf.
    - cbn [fold_left] in Hf. inversion Hf; subst. split; auto. split; auto. intros j Hj.
      split; [lra|]. split; [lra|]. split; [intros p []|]. split; now left.
    - cbn [fold_left fst snd] in Hf.
      assert (Hr0 : length (rowp p0) = d) by (apply Hrows; now left).
      fold (rowp p0) in Hf.
      apply IH in Hf.
      + destruct Hf as (Ll & Lu & Hj). split; auto. split; auto.
        intros j Hjd. destruct (Hj j Hjd) as (A & B & C & D & E).
        rewrite !map2_nth in A, B, D, E by lia.
        cbn [oltb ROps] in A, B, D, E.
        assert (A' : nth j l 0 <= nth j l0 0 /\ nth j l 0 <= nth j (rowp p0) 0).
        { destruct (Rltb (nth j (rowp p0) 0) (nth j l0 0)) eqn:G;
            [apply Rltb_true in G | apply Rltb_false in G]; lra. }
        assert (B' : nth j u0 0 <= nth j u 0 /\ nth j (rowp p0) 0 <= nth j u 0).
        { destruct (Rltb (nth j u0 0) (nth j (rowp p0) 0)) eqn:G;
            [apply Rltb_true in G | apply Rltb_false in G]; lra. }
        split; [tauto|]. split; [tauto|]. split; [|split].
        * intros p [<-|H]; [tauto | apply C; auto].
        * destruct D as [D|(p & Hp & D)]; [|right; exists p; split; [now right|auto]].
          destruct (Rltb (nth j (rowp p0) 0) (nth j l0 0)); [right; exists p0; split; [now left|auto] | now left].
        * destruct E as [E|(p & Hp & E)]; [|right; exists p; split; [now right|auto]].
          destruct (Rltb (nth j u0 0) (nth j (rowp p0) 0)); [right; exists p0; split; [now left|auto] | now left].
      + rewrite map2_length. lia.
      + rewrite map2_length. lia.
      + intros p Hp. apply Hrows. now right.
  Qed.

  Lemma bounds_spec start cnt l u :
    (1 <= cnt)%nat -> (forall p, (start <= p < start + cnt)%nat -> length (rowp p) = d) ->
    bounds ROps data perm start cnt = (l, u) ->
    length l = d /\ length u = d /\
    forall j, (j < d)%nat ->
      (forall p, (start <= p < start + cnt)%nat -> nth j l 0 <= nth j (rowp p) 0 <= nth j u 0) /\
      (exists p, (start <= p < start + cnt)%nat /\ nth j l 0 = nth j (rowp p) 0) /\
      (exists p, (start <= p < start + cnt)%nat /\ nth j u 0 = nth j (rowp p) 0).
  Proof.
    intros Hc Hrows Hb. unfold bounds in Hb. fold (rowp start) in Hb.
    assert (H0 : length (rowp start) = d) by (apply Hrows; lia).
    apply bounds_fold in Hb; auto.
    2:{ intros p Hp. apply in_seq in Hp. apply Hrows. lia. }
    destruct Hb as (Ll & Lu & Hj). split; auto. split; auto.
    intros j Hjd. destruct (Hj j Hjd) as (_ & _ & C & D & E). repeat split.
    - apply C. apply in_seq. lia.
    - apply C. apply in_seq. lia.
    - destruct D as [D|(p & Hp & D)]; [exists start; split; [lia|auto] | exists p; split; auto].
      apply in_seq in Hp. lia.
    - destruct E as [E|(p & Hp & E)]; [exists start; split; [lia|auto] | exists p; split; auto].
      apply in_seq in Hp. lia.
  Qed.
End Bounds.

(* ---------- the widest dimension ---------- *)
Lemma max_radius_spec : forall radius j0 m0 s0 m s,
  max_radius_loop ROps radius j0 m0 s0 = (m, s) ->
  m0 <= m /\ (forall q, (q < length radius)%nat -> nth q radius 0 <= m) /\
  ((m = m0 /\ s = s0) \/ exists q, (q < length radius)%nat /\ s = (j0 + q)%nat /\ m = nth q radius 0).
Proof.
  induction radius as [|r rs IH]; intros j0 m0 s0 m s H; cbn [max_radius_loop] in H.
  - inversion H; subst. split; [lra|]. split; [intros q Hq; simpl in Hq; lia | now left].
  - cbn [oltb ROps] in H. destruct (Rltb m0 r) eqn:G.
    + apply Rltb_true in G. apply IH in H. destruct H as (A & B & C).
      split; [lra|]. split.
      * intros [|q] Hq; cbn [nth]; [lra | apply B; simpl in Hq; lia].
      * right. destruct C as [[-> ->]|(q & Hq & -> & ->)].
        -- exists 0%nat. cbn [nth length]. repeat split; lia.
        -- exists (S q). cbn [nth length]. repeat split; lia.
    + apply Rltb_false in G. apply IH in H. destruct H as (A & B & C).
      split; [lra|]. split.
      * intros [|q] Hq; cbn [nth]; [lra | apply B; simpl in Hq; lia].
      * destruct C as [C|(q & Hq & -> & ->)]; [now left|].
        right. exists (S q). cbn [nth length]. repeat split; lia.
Qed.

(* ---------- wf_tree looks at the index vector only inside the node's range ---------- *)
Ltac split_andb H :=
  repeat match type of H with
         | (_ && _ = true) => let H1 := fresh H in apply andb_true_iff in H as [H H1]
         end.

Ltac andb_intro := repeat (rewrite andb_true_iff; split).

Lemma rows_of_ext perm perm' (i : info (T := R)) :
  (forall p, (n_index i <= p < n_index i + n_count i)%nat -> nth p perm' 0%nat = nth p perm 0%nat) ->
  rows_of perm' i = rows_of perm i.
Proof. intros H. unfold rows_of. apply map_ext_in. intros p Hp. apply in_seq in Hp. auto. Qed.

Lemma wf_tree_info_shape data perm d (t : bbd (T := R)) :
  wf_tree ROps 0 data perm d t = true -> info_shape d (info_of t) = true.
Proof. destruct t; cbn [wf_tree info_of]; intros H; split_andb H; auto. Qed.

Lemma wf_tree_perm_ext data d : forall (t : bbd (T := R)) perm perm',
  (forall p, (n_index (info_of t) <= p < n_index (info_of t) + n_count (info_of t))%nat ->
             nth p perm' 0%nat = nth p perm 0%nat) ->
  wf_tree ROps 0 data perm d t = true -> wf_tree ROps 0 data perm' d t = true.
Proof.
  induction t as [i | i lo IHlo up IHup]; intros perm perm' Hext H; cbn [info_of] in Hext.
  - cbn [wf_tree] in H |- *. split_andb H.
    apply Nat.leb_le in H.
    rewrite (rows_of_ext perm perm' i Hext). rewrite (Hext (n_index i)) by lia.
    andb_intro; auto. now apply Nat.leb_le.
  - cbn [wf_tree] in H |- *. split_andb H.
    rewrite (rows_of_ext perm perm' i Hext).
    repeat match goal with Hx : (_ =? _)%nat = true |- _ => apply Nat.eqb_eq in Hx end.
    andb_intro; auto; try (now apply Nat.eqb_eq).
    + apply (IHlo perm); auto. intros p Hp. apply Hext. lia.
    + apply (IHup perm); auto. intros p Hp. apply Hext. lia.
Qed.

(* ---------- build_node ---------- *)
Definition separated (data : list (list R)) : Prop :=
  forall r1 r2, (r1 < length data)%nat -> (r2 < length data)%nat -> nth r1 data [] <> nth r2 data [] ->
    exists q, Rabs (nth q (nth r1 data []) 0 - nth q (nth r2 data []) 0) >= 2 / 10000000000.

Lemma same_range_bound perm perm' lo hi n :
  same_range perm perm' lo hi ->
  (forall p, (lo <= p < hi)%nat -> (nth p perm 0 < n)%nat) ->
  forall p, (lo <= p < hi)%nat -> (nth p perm' 0 < n)%nat.
Proof.
  intros (_ & _ & F & _) H p Hp. destruct (F p Hp) as (q & Hq & ->). auto.
Qed.

Section Build.
  Variables (data : list (list R)) (d : nat).
  Hypothesis Hrect : forall r, (r < length data)%nat -> length (nth r data []) = d.

  (* rows of a box narrower than 2e-10 in every coordinate are identical *)
  Lemma close_rows_equal r1 r2 (l u : list R) :
    separated data -> (r1 < length data)%nat -> (r2 < length data)%nat ->
    (forall j, (j < d)%nat -> nth j l 0 <= nth j (nth r1 data []) 0 <= nth j u 0) ->
    (forall j, (j < d)%nat -> nth j l 0 <= nth j (nth r2 data []) 0 <= nth j u 0) ->
    (forall j, (j < d)%nat -> nth j u 0 - nth j l 0 < 2 / 10000000000) ->
    nth r1 data [] = nth r2 data [].
  Proof.
    intros Hsep H1 H2 B1 B2 W.
    destruct (list_eq_dec Req_EM_T (nth r1 data []) (nth r2 data [])) as [E|NE]; auto.
    exfalso. destruct (Hsep r1 r2 H1 H2 NE) as (q & Hq).
    destruct (le_lt_dec d q) as [Hd|Hd].
    - rewrite !nth_overflow in Hq by (rewrite Hrect; auto).
      replace (0 - 0) with 0 in Hq by ring. rewrite Rabs_R0 in Hq. lra.
    - specialize (B1 q Hd). specialize (B2 q Hd). specialize (W q Hd).
      unfold Rabs in Hq. destruct (Rcase_abs _); lra.
  Qed.

  (* both sides of a split are non-empty: the row attaining the lower bound goes left, the row
     attaining the upper bound goes right *)
  Lemma split_sizes perm perm1 start stop q cutoff e (l u : R) :
    same_range perm perm1 start stop ->
    (exists p, (start <= p < stop)%nat /\ l = nth q (rowp data perm p) 0) ->
    (exists p, (start <= p < stop)%nat /\ u = nth q (rowp data perm p) 0) ->
    l < cutoff -> cutoff <= u -> (start + e <= stop)%nat ->
    (forall p, (start <= p < start + e)%nat -> valp data q perm1 p < cutoff) ->
    (forall p, (start + e <= p < stop)%nat -> cutoff <= valp data q perm1 p) ->
    (1 <= e)%nat /\ (start + e < stop)%nat.
  Proof.
    intros (_ & _ & _ & B1) (p1 & Hp1 & E1) (p2 & Hp2 & E2) Hl Hu He Plow Pup. split.
    - destruct (B1 p1 Hp1) as (p' & Hp' & Ep').
      destruct (le_lt_dec (start + e) p') as [Hge|]; [|lia]. exfalso.
      specialize (Pup p' ltac:(lia)). unfold valp in Pup. rewrite <- Ep' in Pup.
      fold (rowp data perm p1) in Pup. lra.
    - destruct (B1 p2 Hp2) as (p' & Hp' & Ep').
      destruct (le_lt_dec (start + e) p') as [|Hlt]; [lia|]. exfalso.
      specialize (Plow p' ltac:(lia)). unfold valp in Plow. rewrite <- Ep' in Plow.
      fold (rowp data perm p2) in Plow. lra.
  Qed.

  Lemma build_node_spec : forall fuel perm start stop t perm',
    (start < stop)%nat -> (stop <= length perm)%nat ->
    (forall p, (start <= p < stop)%nat -> (nth p perm 0 < length data)%nat) ->
    build_node ROps fuel data perm start stop = Some (t, perm') ->
    same_range perm perm' start stop /\
    n_index (info_of t) = start /\ n_count (info_of t) = (stop - start)%nat /\
    (separated data -> wf_tree ROps 0 data perm' d t = true).
  Proof.
    induction fuel as [|f IH]; intros perm start stop t perm' Hss Hlen Hidx Hrun;
      cbn [build_node] in Hrun; [discriminate|].
    destruct (Nat.ltb_spec start (length perm)) as [_|]; [|lia]. cbn [negb] in Hrun.
    remember (stop - start)%nat as cnt eqn:Ecnt.
    destruct (bounds ROps data perm start cnt) as [lower upper] eqn:Hb.
    assert (Hrows : forall p, (start <= p < start + cnt)%nat -> length (rowp data perm p) = d).
    { intros p Hp. apply Hrect. apply Hidx. lia. }
    destruct (bounds_spec data perm d start cnt lower upper ltac:(lia) Hrows Hb) as (Ll & Lu & HB).
    set (center := map2 (fun l u => odiv ROps (oadd ROps l u) (two ROps)) lower upper) in *.
    set (radius := map2 (fun l u => odiv ROps (osub ROps u l) (two ROps)) lower upper) in *.
    assert (Lc : length center = d) by (unfold center; rewrite map2_length; lia).
    assert (Lr : length radius = d) by (unfold radius; rewrite map2_length; lia).
    assert (Nc : forall j, (j < d)%nat -> nth j center 0 = (nth j lower 0 + nth j upper 0) / 2).
    { intros j Hj. unfold center. rewrite map2_nth by lia. reflexivity. }
    assert (Nr : forall j, (j < d)%nat -> nth j radius 0 = (nth j upper 0 - nth j lower 0) / 2).
    { intros j Hj. unfold radius. rewrite map2_nth by lia. reflexivity. }
    destruct (max_radius_loop ROps radius 0 (oofZ ROps (-1)) 0) as [m s] eqn:Hm.
    apply max_radius_spec in Hm. destruct Hm as (_ & Hmax & Hsel).
    cbn [oltb ROps] in Hrun. unfold leaf_threshold in Hrun. cbn [odiv o1 oofZ ROps] in Hrun.
    destruct (Rltb m (1 / 10000000000)) eqn:Hleaf.
    - (* leaf: all rows of the range are identical and equal to the centre *)
      apply Rltb_true in Hleaf. inversion Hrun; subst t perm'; clear Hrun.
      split; [apply same_range_refl|]. split; [reflexivity|]. split; [reflexivity|]. intros Hsep.
      assert (W : forall j, (j < d)%nat -> nth j upper 0 - nth j lower 0 < 2 / 10000000000).
      { intros j Hj. specialize (Hmax j ltac:(lia)). rewrite Nr in Hmax by auto. lra. }
      assert (EQ : forall p q, (start <= p < stop)%nat -> (start <= q < stop)%nat ->
                               rowp data perm p = rowp data perm q).
      { intros p q Hp Hq. unfold rowp. apply close_rows_equal with (l := lower) (u := upper); auto.
        - intros j Hj. apply (proj1 (HB j Hj)). lia.
        - intros j Hj. apply (proj1 (HB j Hj)). lia. }
      assert (CE : forall p, (start <= p < stop)%nat -> rowp data perm p = center).
      { intros p Hp. apply nth_ext with (d := 0) (d' := 0).
        - rewrite Lc. apply Hrows. lia.
        - intros j Hj. rewrite Hrows in Hj by lia. rewrite Nc by auto.
          destruct (HB j Hj) as (_ & (p1 & Hp1 & E1) & (p2 & Hp2 & E2)).
          rewrite E1, E2. rewrite (EQ p1 p), (EQ p2 p) by lia. lra. }
      cbn [wf_tree n_count n_index n_center n_radius n_sum n_cost].
      andb_intro.
      + apply Nat.leb_le. lia.
      + unfold info_shape. cbn [n_center n_radius n_sum]. andb_intro; apply Nat.eqb_eq; auto.
        destruct (start + 1 <? stop)%nat; [rewrite map_length|]; apply Hrect; apply Hidx; lia.
      + apply forallb_forall. intros r Hr. unfold rows_of in Hr. cbn [n_index n_count] in Hr.
        apply in_map_iff in Hr as (p & <- & Hp). apply in_seq in Hp.
        fold (rowp data perm p). rewrite CE by lia. apply all2_eqb_refl.
      + replace (1 <? cnt)%nat with (start + 1 <? stop)%nat
          by (destruct (Nat.ltb_spec (start + 1) stop); destruct (Nat.ltb_spec 1 cnt); auto; lia).
        apply all2_eqb_refl.
      + cbn [oeqb o0 ROps]. now apply Reqb_true.
    - (* split *)
      apply Rltb_false in Hleaf.
      destruct Hsel as [[-> _]|(q & Hq & -> & ->)]; [cbn [oofZ ROps] in Hleaf; lra|].
      rewrite Lr in Hq. cbn [Nat.add] in Hrun. rewrite Nr in Hleaf by auto.
      set (cutoff := nth q center (o0 ROps)) in *.
      assert (Hcut : cutoff = (nth q lower 0 + nth q upper 0) / 2) by (apply Nc; auto).
      destruct stop as [|e1]; [lia|].
      destruct (partition_loop ROps (S (S cnt)) data q cutoff perm start e1 0)
        as [[perm1 size]|] eqn:Hpart; [|discriminate].
      apply (partition_loop_spec data q cutoff start (S e1)) in Hpart; try lia.
      destruct Hpart as (SR1 & e & He & Hehi & Plow & Pup). cbn [Nat.add] in He. subst size.
      pose proof SR1 as (L1 & _ & _ & B1).
      destruct (HB q Hq) as (_ & (p1 & Hp1 & E1) & (p2 & Hp2 & E2)).
      destruct (split_sizes perm perm1 start (S e1) q cutoff e (nth q lower 0) (nth q upper 0)) as (He1 & He2);
        auto; try lra; [exists p1; split; [lia|auto] | exists p2; split; [lia|auto] |].
      destruct (build_node ROps f data perm1 start (start + e)) as [[lo perm2]|] eqn:Hlo; [|discriminate].
      destruct (build_node ROps f data perm2 (start + e) (S e1)) as [[up perm3]|] eqn:Hup; [|discriminate].
      inversion Hrun; subst t perm'; clear Hrun.
      pose proof (same_range_bound _ _ _ _ _ SR1 Hidx) as Hidx1.
      apply IH in Hlo; try lia; [|intros p Hp; apply Hidx1; lia].
      destruct Hlo as (SR2 & Ilo & Clo & Wlo).
      assert (SR12 : same_range perm perm2 start (S e1)).
      { eapply same_range_trans; [exact SR1|]. eapply same_range_widen; [exact SR2| |]; lia. }
      pose proof (same_range_bound _ _ _ _ _ SR12 Hidx) as Hidx2.
      pose proof SR2 as (L2 & _ & _ & _).
      apply IH in Hup; try lia; [|intros p Hp; apply Hidx2; lia].
      destruct Hup as (SR3 & Iup & Cup & Wup).
      assert (SR13 : same_range perm perm3 start (S e1)).
      { eapply same_range_trans; [exact SR12|]. eapply same_range_widen; [exact SR3| |]; lia. }
      split; [exact SR13|]. split; [reflexivity|]. split; [reflexivity|]. intros Hsep.
      specialize (Wlo Hsep). specialize (Wup Hsep).
      pose proof (wf_tree_info_shape _ _ _ _ Wlo) as Slo.
      pose proof (wf_tree_info_shape _ _ _ _ Wup) as Sup.
      unfold info_shape in Slo, Sup. split_andb Slo. split_andb Sup.
      repeat match goal with Hx : (_ =? _)%nat = true |- _ => apply Nat.eqb_eq in Hx end.
      cbn [wf_tree info_of n_count n_index n_center n_radius n_sum n_cost].
      andb_intro.
      + unfold info_shape. cbn [n_center n_radius n_sum]. andb_intro; apply Nat.eqb_eq; auto.
        rewrite map2_length. lia.
      + apply Nat.eqb_eq. lia.
      + apply Nat.eqb_eq. lia.
      + apply Nat.eqb_eq. lia.
      + apply forallb_forall. intros r Hr. unfold rows_of in Hr. cbn [n_index n_count] in Hr.
        apply in_map_iff in Hr as (p & <- & Hp). apply in_seq in Hp.
        destruct SR13 as (_ & _ & F & _). destruct (F p ltac:(lia)) as (p' & Hp' & ->).
        fold (rowp data perm p'). apply in_box_nth.
        * rewrite Lc. symmetry. apply Hrows. lia.
        * rewrite Lr. symmetry. apply Hrows. lia.
        * intros j Hj. rewrite Hrows in Hj by lia. rewrite Nc, Nr by auto.
          pose proof (proj1 (HB j Hj) p' ltac:(lia)). lra.
      + rewrite map2_add_vadd by congruence. apply all2_eqb_refl.
      + cbn [oeqb ROps]. apply Reqb_true. rewrite map2_add_vadd by congruence. reflexivity.
      + apply (wf_tree_perm_ext data d lo perm2); auto.
        intros p Hp. destruct SR3 as (_ & O3 & _ & _). apply O3. lia.
      + exact Wup.
  Qed.
End Build.

(* ---------- BBDTree::new ---------- *)
Lemma build_wf : forall data t perm,
  (forall r, In r data -> length r = length (hd [] data)) -> separated data ->
  build ROps data = Some (t, perm) -> wf_bbd ROps 0 data perm t = true.
Proof.
  intros data t perm Hrect Hsep Hb. unfold build in Hb.
  set (n := length data) in *.
  assert (Hn : (1 <= n)%nat).
  { destruct n; [|lia]. cbn in Hb. discriminate. }
  assert (Hrect' : forall r, (r < length data)%nat -> length (nth r data []) = length (hd [] data)).
  { intros r Hr. apply Hrect. now apply nth_In. }
  apply (build_node_spec data (length (hd [] data)) Hrect') in Hb.
  - destruct Hb as ((L & _ & _ & B) & Hi & Hc & Hw). rewrite seq_length in L.
    unfold wf_bbd. fold n. andb_intro.
    + apply Nat.leb_le. lia.
    + apply forallb_forall. intros r Hr. apply Nat.eqb_eq. auto.
    + unfold is_perm. andb_intro; [now apply Nat.eqb_eq|].
      apply forallb_forall. intros i Hi'. apply in_seq in Hi'.
      destruct (B i ltac:(lia)) as (p & Hp & E). rewrite seq_nth in E by lia. cbn [Nat.add] in E.
      apply existsb_exists. exists i. split; [|apply Nat.eqb_refl].
      rewrite E. apply nth_In. lia.
    + apply Nat.eqb_eq. auto.
    + apply Nat.eqb_eq. lia.
    + exact (Hw Hsep).
  - lia.
  - rewrite seq_length. lia.
  - intros p Hp. rewrite seq_nth by lia. fold n. lia.
Qed.

(* ---------- over R the construction never fails: no index underflow, fuel suffices ---------- *)
Lemma partition_loop_total data si cutoff lo hi : forall fuel perm i1 i2 size,
  (lo <= i1)%nat -> (i1 <= S i2)%nat -> (S i2 <= hi)%nat -> (hi <= length perm)%nat ->
  (forall p, (i2 < p < hi)%nat -> cutoff <= valp data si perm p) ->
  (exists p, (lo <= p < hi)%nat /\ valp data si perm p < cutoff) ->
  (S i2 - i1 < fuel)%nat ->
  exists r, partition_loop ROps fuel data si cutoff perm i1 i2 size = Some r.
Proof.
  induction fuel as [|f IH]; intros perm i1 i2 size Hlo H12 Hhi Hlen Hup Hex Hfuel; [lia|].
  cbn [partition_loop].
  destruct (Nat.leb_spec i1 i2) as [Hle|Hgt]; [|eexists; reflexivity].
  change (nth si (nth (nth i1 perm 0%nat) data []) (o0 ROps)) with (valp data si perm i1).
  change (nth si (nth (nth i2 perm 0%nat) data []) (o0 ROps)) with (valp data si perm i2).
  cbn [oltb oleb ROps].
  assert (Hno : i2 = 0%nat -> cutoff <= valp data si perm i2 -> False).
  { intros -> G. destruct Hex as (p & Hp & Hv).
    destruct (Nat.eq_dec p 0) as [->|]; [lra|]. specialize (Hup p ltac:(lia)). lra. }
  destruct (Rltb (valp data si perm i1) cutoff) eqn:G1; destruct (Rleb cutoff (valp data si perm i2)) eqn:G2;
    cbn [negb andb orb].
  - apply Rltb_true in G1. apply Rleb_true in G2.
    destruct i2 as [|j]; [exfalso; auto|].
    assert (i1 <> S j) by (intros ->; lra).
    apply IH; try lia; auto.
    intros p Hp. destruct (Nat.eq_dec p (S j)) as [->|]; auto. apply Hup. lia.
  - apply IH; try lia; auto.
  - apply Rleb_true in G2.
    destruct i2 as [|j]; [exfalso; auto|].
    apply IH; try lia; auto.
    intros p Hp. destruct (Nat.eq_dec p (S j)) as [->|]; auto. apply Hup. lia.
  - apply Rltb_false in G1. apply Rleb_false in G2.
    destruct i2 as [|j]; [exfalso; assert (i1 = 0%nat) by lia; subst; lra|].
    assert (i1 <> S j) by (intros ->; lra).
    assert (V : forall p, valp data si (swap perm i1 (S j)) p =
                          if (p =? S j)%nat then valp data si perm i1
                          else if (p =? i1)%nat then valp data si perm (S j) else valp data si perm p).
    { intros p. unfold valp. rewrite nth_swap by lia.
      destruct (p =? S j)%nat; auto. destruct (p =? i1)%nat; auto. }
    apply IH; try lia.
    + rewrite swap_length. lia.
    + intros p Hp. rewrite V. destruct (Nat.eqb_spec p (S j)); [lra|].
      destruct (Nat.eqb_spec p i1); [lia|]. apply Hup. lia.
    + exists i1. split; [lia|]. rewrite V. destruct (Nat.eqb_spec i1 (S j)); [lia|].
      rewrite Nat.eqb_refl. lra.
Qed.

Section BuildTotal.
  Variables (data : list (list R)) (d : nat).
  Hypothesis Hrect : forall r, (r < length data)%nat -> length (nth r data []) = d.

  Lemma build_node_total : forall fuel perm start stop,
    (start < stop)%nat -> (stop <= length perm)%nat ->
    (forall p, (start <= p < stop)%nat -> (nth p perm 0 < length data)%nat) ->
    (stop - start <= fuel)%nat ->
    exists r, build_node ROps fuel data perm start stop = Some r.
  Proof.
    induction fuel as [|f IH]; intros perm start stop Hss Hlen Hidx Hfuel; [lia|].
    cbn [build_node].
    destruct (Nat.ltb_spec start (length perm)) as [_|]; [|lia]. cbn [negb].
    remember (stop - start)%nat as cnt eqn:Ecnt.
    destruct (bounds ROps data perm start cnt) as [lower upper] eqn:Hb.
    assert (Hrows : forall p, (start <= p < start + cnt)%nat -> length (rowp data perm p) = d).
    { intros p Hp. apply Hrect. apply Hidx. lia. }
    destruct (bounds_spec data perm d start cnt lower upper ltac:(lia) Hrows Hb) as (Ll & Lu & HB).
    set (center := map2 (fun l u => odiv ROps (oadd ROps l u) (two ROps)) lower upper) in *.
    set (radius := map2 (fun l u => odiv ROps (osub ROps u l) (two ROps)) lower upper) in *.
    assert (Lr : length radius = d) by (unfold radius; rewrite map2_length; lia).
    assert (Nc : forall j, (j < d)%nat -> nth j center 0 = (nth j lower 0 + nth j upper 0) / 2).
    { intros j Hj. unfold center. rewrite map2_nth by lia. reflexivity. }
    assert (Nr : forall j, (j < d)%nat -> nth j radius 0 = (nth j upper 0 - nth j lower 0) / 2).
    { intros j Hj. unfold radius. rewrite map2_nth by lia. reflexivity. }
    destruct (max_radius_loop ROps radius 0 (oofZ ROps (-1)) 0) as [m s] eqn:Hm.
    apply max_radius_spec in Hm. destruct Hm as (_ & Hmax & Hsel).
    cbn [oltb ROps]. unfold leaf_threshold. cbn [odiv o1 oofZ ROps].
    destruct (Rltb m (1 / 10000000000)) eqn:Hleaf; [eexists; reflexivity|].
    apply Rltb_false in Hleaf.
    destruct Hsel as [[-> _]|(q & Hq & -> & ->)]; [cbn [oofZ ROps] in Hleaf; lra|].
    rewrite Lr in Hq. cbn [Nat.add]. rewrite Nr in Hleaf by auto.
    set (cutoff := nth q center (o0 ROps)) in *.
    assert (Hcut : cutoff = (nth q lower 0 + nth q upper 0) / 2) by (apply Nc; auto).
    destruct stop as [|e1]; [lia|].
    destruct (HB q Hq) as (_ & (p1 & Hp1 & E1) & (p2 & Hp2 & E2)).
    destruct (partition_loop_total data q cutoff start (S e1) (S (S cnt)) perm start e1 0) as ([perm1 size] & Hpart);
      try lia.
    { exists p1. split; [lia|]. unfold valp. fold (rowp data perm p1). lra. }
    rewrite Hpart.
    apply (partition_loop_spec data q cutoff start (S e1)) in Hpart; try lia.
    destruct Hpart as (SR1 & e & He & Hehi & Plow & Pup). cbn [Nat.add] in He. subst size.
    pose proof SR1 as (L1 & _).
    destruct (split_sizes data perm perm1 start (S e1) q cutoff e (nth q lower 0) (nth q upper 0)) as (He1 & He2);
      auto; try lra; [exists p1; split; [lia|auto] | exists p2; split; [lia|auto] |].
    pose proof (same_range_bound _ _ _ _ _ SR1 Hidx) as Hidx1.
    destruct (IH perm1 start (start + e)%nat) as ([lo perm2] & Hlo); try lia.
    { intros p Hp. apply Hidx1. lia. }
    rewrite Hlo.
    apply (build_node_spec data d Hrect) in Hlo; try lia; [|intros p Hp; apply Hidx1; lia].
    destruct Hlo as (SR2 & _).
    assert (SR12 : same_range perm perm2 start (S e1)).
    { eapply same_range_trans; [exact SR1|]. eapply same_range_widen; [exact SR2| |]; lia. }
    pose proof (same_range_bound _ _ _ _ _ SR12 Hidx) as Hidx2.
    pose proof SR2 as (L2 & _).
    destruct (IH perm2 (start + e)%nat (S e1)) as ([up perm3] & Hup); try lia.
    { intros p Hp. apply Hidx2. lia. }
    rewrite Hup. eexists; reflexivity.
  Qed.
End BuildTotal.

Lemma build_total : forall data,
  (1 <= length data)%nat -> (forall r, In r data -> length r = length (hd [] data)) ->
  exists t perm, build ROps data = Some (t, perm).
Proof.
  intros data Hn Hrect. unfold build.
  destruct (build_node_total data (length (hd [] data))) with
    (fuel := (2 * length data + 2)%nat) (perm := seq 0 (length data)) (start := 0%nat) (stop := length data)
    as ([t perm] & H); try lia.
  - intros r Hr. apply Hrect. now apply nth_In.
  - rewrite seq_length. lia.
  - intros p Hp. rewrite seq_nth by lia. lia.
  - exists t, perm. exact H.
Qed.
