(* C12 — k-means and the BBD-tree assignment step: executable model (definitions only).

   Transliteration of
     src/math/distance/euclidian.rs      Euclidian::squared_distance
     src/algorithm/neighbour/bbd_tree.rs BBDTree::{new, build_node, node_cost, prune, filter, clustering}
     src/cluster/kmeans.rs               KMeans::{fit, predict, kmeans_plus_plus}
   generic in the scalar operations `Ops T` (ROps: theorems, FOps: execution on binary64).

   Conventions.  Vectors are lists, matrices lists of rows.  Rust panics (index out of bounds,
   "Input vector sizes are different", integer underflow in debug builds) are `None`; the shape
   conditions under which the structural loops below coincide with the indexed Rust loops are
   tested once by `shape_ok` (all vectors have the dimension d of the centroids).  The node
   vector `nodes: Vec<BBDTreeNode>` with child indices is modelled as an inductive tree;
   `tree_of_nodes` rebuilds that tree from a dump of the vector (children are stored before
   their parent).  The unseeded RNG of k-means++ enters as an explicit list of draws. *)
From Coq Require Import List ZArith Bool Arith.
From SC Require Import Base.Num.
Import ListNotations.

Fixpoint upd {A} (l : list A) (i : nat) (v : A) : list A :=
  match l, i with
  | [], _ => []
  | _ :: t, 0 => v :: t
  | h :: t, S j => h :: upd t j v
  end.

Section Model.
  Context {T : Type} (O : Ops T).

  Definition two : T := oofZ O 2%Z.

  (* ---- Euclidian::squared_distance (lengths equal) ---- *)
  Fixpoint sqdist_acc (x y : list T) (acc : T) : T :=
    match x, y with
    | a :: x', b :: y' =>
        let d := osub O a b in sqdist_acc x' y' (oadd O acc (omul O d d))
    | _, _ => acc
    end.
  Definition sqdist (x y : list T) : T := sqdist_acc x y (o0 O).

  (* ---- the tree ---- *)
  Record info := mkInfo {
    n_count : nat; n_index : nat;
    n_center : list T; n_radius : list T; n_sum : list T; n_cost : T }.
  Inductive bbd : Type :=
  | Leaf (i : info)
  | Split (i : info) (lower upper : bbd).
  Definition info_of (t : bbd) : info := match t with Leaf i => i | Split i _ _ => i end.

  (* ---- BBDTree::node_cost ---- *)
  Fixpoint scatter_loop (sum center : list T) (cnt acc : T) : T :=
    match sum, center with
    | s :: ss, c :: cs =>
        let x := osub O (odiv O s cnt) c in scatter_loop ss cs cnt (oadd O acc (omul O x x))
    | _, _ => acc
    end.
  Definition node_cost (i : info) (center : list T) : T :=
    oadd O (n_cost i)
         (omul O (oofnat O (n_count i))
               (scatter_loop (n_sum i) center (oofnat O (n_count i)) (o0 O))).

  (* ---- BBDTree::prune ---- *)
  Fixpoint prune_loop (center radius best test : list T) (lhs rhs : T) : T * T :=
    match center, radius, best, test with
    | c :: cs, r :: rs, b :: bs, t :: ts =>
        let diff := osub O t b in
        let lhs' := oadd O lhs (omul O diff diff) in
        let rhs' :=
          if oltb O (o0 O) diff                                   (* diff > 0 *)
          then oadd O rhs (omul O (osub O (oadd O c r) b) diff)
          else oadd O rhs (omul O (osub O (osub O c r) b) diff) in
        prune_loop cs rs bs ts lhs' rhs'
    | _, _, _, _ => (lhs, rhs)
    end.
  Definition prune (center radius : list T) (centroids : list (list T)) (best_index test_index : nat) : bool :=
    if Nat.eqb best_index test_index then false
    else
      let '(lhs, rhs) := prune_loop center radius (nth best_index centroids []) (nth test_index centroids [])
                                    (o0 O) (o0 O) in
      oleb O (omul O two rhs) lhs.                                (* lhs >= 2 * rhs *)

  (* ---- BBDTree::filter ---- *)
  Fixpoint closest_loop (center : list T) (centroids : list (list T)) (cands : list nat)
           (min_dist : T) (closest : nat) : T * nat :=
    match cands with
    | [] => (min_dist, closest)
    | c :: cs =>
        let dist := sqdist center (nth c centroids []) in
        if oltb O dist min_dist then closest_loop center centroids cs dist c
        else closest_loop center centroids cs min_dist closest
    end.
  Definition find_closest (center : list T) (centroids : list (list T)) (cands : list nat) : nat :=
    match cands with
    | [] => 0
    | c0 :: cs => snd (closest_loop center centroids cs (sqdist center (nth c0 centroids [])) c0)
    end.

  (* sums[closest][i] += node.sum[i] *)
  Fixpoint vadd (a b : list T) : list T :=
    match a, b with
    | x :: a', y :: b' => oadd O x y :: vadd a' b'
    | _, _ => a
    end.
  (* membership[self.index[i]] = closest for i in start .. start+cnt *)
  Fixpoint set_range (perm memb : list nat) (start cnt v : nat) : list nat :=
    match cnt with
    | 0 => memb
    | S c => set_range perm (upd memb (nth start perm 0) v) (S start) c v
    end.

  Definition state : Type := list (list T) * list nat * list nat.     (* sums, counts, membership *)

  Definition assign_node (perm : list nat) (centroids : list (list T)) (i : info) (closest : nat)
             (s : state) : T * state :=
    let '(sums, counts, memb) := s in
    (node_cost i (nth closest centroids []),
     (upd sums closest (vadd (nth closest sums []) (n_sum i)),
      upd counts closest (nth closest counts 0 + n_count i),
      set_range perm memb (n_index i) (n_count i) closest)).

  Fixpoint filter (perm : list nat) (centroids : list (list T)) (t : bbd) (cands : list nat)
           (s : state) : T * state :=
    match t with
    | Leaf i => assign_node perm centroids i (find_closest (n_center i) centroids cands) s
    | Split i lo up =>
        let closest := find_closest (n_center i) centroids cands in
        let newc := List.filter (fun c => negb (prune (n_center i) (n_radius i) centroids closest c)) cands in
        if 1 <? length newc then
          let '(d1, s1) := filter perm centroids lo newc s in
          let '(d2, s2) := filter perm centroids up newc s1 in
          (oadd O d1 d2, s2)
        else assign_node perm centroids i closest s
    end.

  (* ---- shapes under which nothing panics and the structural loops are the indexed ones ---- *)
  Definition info_shape (d : nat) (i : info) : bool :=
    (length (n_center i) =? d) && (length (n_radius i) =? d) && (length (n_sum i) =? d).
  Fixpoint tree_shape (d np nm : nat) (perm : list nat) (t : bbd) : bool :=
    let i := info_of t in
    info_shape d i && (n_index i + n_count i <=? np) &&
    forallb (fun p => nth p perm 0 <? nm) (seq (n_index i) (n_count i)) &&
    match t with
    | Leaf _ => true
    | Split _ lo up => tree_shape d np nm perm lo && tree_shape d np nm perm up
    end.
  Definition shape_ok (perm : list nat) (centroids : list (list T)) (t : bbd) (s : state) : bool :=
    let '(sums, counts, memb) := s in
    let k := length centroids in
    let d := length (hd [] centroids) in
    (1 <=? k) && forallb (fun c => length c =? d) centroids &&
    (length sums =? k) && forallb (fun c => length c =? d) sums && (length counts =? k) &&
    tree_shape d (length perm) (length memb) perm t.

  (* ---- BBDTree::clustering ---- *)
  Definition clustering (perm : list nat) (centroids : list (list T)) (root : bbd) (s : state)
    : option (T * state) :=
    if shape_ok perm centroids root s then
      let '(sums, counts, memb) := s in
      let counts0 := map (fun _ => 0) counts in
      let sums0 := map (map (fun _ => o0 O)) sums in
      Some (filter perm centroids root (seq 0 (length centroids)) (sums0, counts0, memb))
    else None.

  (* ---- well-formedness of a tree over a data set (decided in Coq on every dump; hypothesis of
          the assignment theorems at ROps with slack 0) ---- *)
  Fixpoint all2 (f : T -> T -> bool) (a b : list T) : bool :=
    match a, b with
    | [], [] => true
    | x :: a', y :: b' => f x y && all2 f a' b'
    | _, _ => false
    end.
  Fixpoint in_box (slack : T) (center radius x : list T) : bool :=
    match center, radius, x with
    | c :: cs, r :: rs, v :: vs =>
        oleb O (osub O (osub O c r) slack) v && oleb O v (oadd O (oadd O c r) slack) && in_box slack cs rs vs
    | _, _, _ => true
    end.
  Definition rows_of (perm : list nat) (i : info) : list nat :=
    map (fun p => nth p perm 0) (seq (n_index i) (n_count i)).

  Fixpoint wf_tree (slack : T) (data : list (list T)) (perm : list nat) (d : nat) (t : bbd) : bool :=
    match t with
    | Leaf i =>
        let x0 := nth (nth (n_index i) perm 0) data [] in
        (1 <=? n_count i) && info_shape d i &&
        forallb (fun r => all2 (oeqb O) (nth r data []) (n_center i)) (rows_of perm i) &&
        all2 (oeqb O) (n_sum i)
             (if 1 <? n_count i then map (fun s => omul O s (oofnat O (n_count i))) x0 else x0) &&
        oeqb O (n_cost i) (o0 O)
    | Split i lo up =>
        let il := info_of lo in
        let iu := info_of up in
        let mean := map (fun s => odiv O s (oofnat O (n_count i))) (n_sum i) in
        info_shape d i &&
        (n_count i =? n_count il + n_count iu) &&
        (n_index il =? n_index i) && (n_index iu =? n_index i + n_count il) &&
        forallb (fun r => in_box slack (n_center i) (n_radius i) (nth r data [])) (rows_of perm i) &&
        all2 (oeqb O) (n_sum i) (vadd (n_sum il) (n_sum iu)) &&
        oeqb O (n_cost i) (oadd O (node_cost il mean) (node_cost iu mean)) &&
        wf_tree slack data perm d lo && wf_tree slack data perm d up
    end.

  Definition is_perm (n : nat) (perm : list nat) : bool :=
    (length perm =? n) && forallb (fun i => existsb (Nat.eqb i) perm) (seq 0 n).

  Definition wf_bbd (slack : T) (data : list (list T)) (perm : list nat) (t : bbd) : bool :=
    let n := length data in
    let d := length (hd [] data) in
    (1 <=? n) && forallb (fun r => length r =? d) data && is_perm n perm &&
    (n_index (info_of t) =? 0) && (n_count (info_of t) =? n) &&
    wf_tree slack data perm d t.

  (* ---- BBDTree::build_node ---- *)
  Definition map2 {A B C} (f : A -> B -> C) (a : list A) (b : list B) : list C :=
    map (fun p => f (fst p) (snd p)) (combine a b).

  (* for i in begin..end: componentwise min / max with the code's comparisons *)
  Definition bounds (data : list (list T)) (perm : list nat) (start cnt : nat) : list T * list T :=
    let first := nth (nth start perm 0) data [] in
    fold_left (fun lu p =>
                 let row := nth (nth p perm 0) data [] in
                 (map2 (fun l c => if oltb O c l then c else l) (fst lu) row,      (* lower[j] > c *)
                  map2 (fun u c => if oltb O u c then c else u) (snd lu) row))     (* upper[j] < c *)
              (seq start cnt) (first, first).

  Fixpoint max_radius_loop (radius : list T) (j : nat) (max_radius : T) (split_index : nat) : T * nat :=
    match radius with
    | [] => (max_radius, split_index)
    | r :: rs => if oltb O max_radius r then max_radius_loop rs (S j) r j
                 else max_radius_loop rs (S j) max_radius split_index
    end.

  Definition swap (l : list nat) (a b : nat) : list nat :=
    upd (upd l a (nth b l 0)) b (nth a l 0).

  (* while i1 <= i2 { .. }: returns (perm, size); None = `i2 -= 1` underflows (debug panic) or no fuel *)
  Fixpoint partition_loop (fuel : nat) (data : list (list T)) (split_index : nat) (cutoff : T)
           (perm : list nat) (i1 i2 size : nat) : option (list nat * nat) :=
    match fuel with
    | 0 => None
    | S f =>
        if i1 <=? i2 then
          let v1 := nth split_index (nth (nth i1 perm 0) data []) (o0 O) in
          let v2 := nth split_index (nth (nth i2 perm 0) data []) (o0 O) in
          let g1 := oltb O v1 cutoff in
          let g2 := oleb O cutoff v2 in                             (* v2 >= cutoff *)
          let both_bad := negb g1 && negb g2 in
          let perm' := if both_bad then swap perm i1 i2 else perm in
          let g1' := g1 || both_bad in
          let g2' := g2 || both_bad in
          let i1' := if g1' then S i1 else i1 in
          let size' := if g1' then S size else size in
          if g2' then
            match i2 with
            | 0 => None
            | S j => partition_loop f data split_index cutoff perm' i1' j size'
            end
          else partition_loop f data split_index cutoff perm' i1' i2 size'
        else Some (perm, size)
    end.

  Definition leaf_threshold : T := odiv O (o1 O) (oofZ O 10000000000%Z).   (* 1E-10 *)

  Fixpoint build_node (fuel : nat) (data : list (list T)) (perm : list nat) (start stop : nat)
    : option (bbd * list nat) :=
    match fuel with
    | 0 => None
    | S f =>
        if negb (start <? length perm) then None else                  (* self.index[begin] *)
        let cnt := stop - start in
        let '(lower, upper) := bounds data perm start cnt in
        let center := map2 (fun l u => odiv O (oadd O l u) two) lower upper in
        let radius := map2 (fun l u => odiv O (osub O u l) two) lower upper in
        let '(max_radius, split_index) := max_radius_loop radius 0 (oofZ O (-1)%Z) 0 in
        if oltb O max_radius leaf_threshold then
          let x0 := nth (nth start perm 0) data [] in
          let sum := if start + 1 <? stop then map (fun s => omul O s (oofnat O cnt)) x0 else x0 in
          Some (Leaf (mkInfo cnt start center radius sum (o0 O)), perm)
        else
          let cutoff := nth split_index center (o0 O) in
          match stop with
          | 0 => None
          | S e1 =>
              match partition_loop (S (S cnt)) data split_index cutoff perm start e1 0 with
              | None => None
              | Some (perm1, size) =>
                  match build_node f data perm1 start (start + size) with
                  | None => None
                  | Some (lo, perm2) =>
                      match build_node f data perm2 (start + size) stop with
                      | None => None
                      | Some (up, perm3) =>
                          let sum := map2 (oadd O) (n_sum (info_of lo)) (n_sum (info_of up)) in
                          let mean := map (fun s => odiv O s (oofnat O cnt)) sum in
                          let cost := oadd O (node_cost (info_of lo) mean) (node_cost (info_of up) mean) in
                          Some (Split (mkInfo cnt start center radius sum cost) lo up, perm3)
                      end
                  end
              end
          end
    end.

  (* BBDTree::new; fuel: every call either makes a leaf or splits a range into two ranges, but a
     degenerate split (size 0) repeats the same range — then the Rust code recurses without bound
     and the model runs out of fuel *)
  Definition build (data : list (list T)) : option (bbd * list nat) :=
    let n := length data in
    build_node (2 * n + 2) data (seq 0 n) 0 n.

  (* ---- the node vector as dumped by the hook -> the inductive tree ---- *)
  Definition raw_node : Type := info * option nat * option nat.
  Fixpoint tree_of_nodes (fuel : nat) (nodes : list raw_node) (id : nat) : option bbd :=
    match fuel with
    | 0 => None
    | S f =>
        match nth_error nodes id with
        | None => None
        | Some (i, None, None) => Some (Leaf i)
        | Some (i, Some l, Some u) =>
            if (l <? id) && (u <? id) then
              match tree_of_nodes f nodes l, tree_of_nodes f nodes u with
              | Some lo, Some up => Some (Split i lo up)
              | _, _ => None
              end
            else None
        | Some _ => None
        end
    end.
  Fixpoint tree_size (t : bbd) : nat :=
    match t with Leaf _ => 1 | Split _ lo up => S (tree_size lo + tree_size up) end.

  (* ---- KMeans::kmeans_plus_plus given its draws ---- *)
  Inductive draw := Frac (r : T) | Cut (c : T).     (* r = rng.gen::<f64>() ; or the product r*sum itself *)

  (* for i in 0..n: if dist < d[i] { d[i] = dist; y[i] = label } *)
  Fixpoint kpp_pass (data : list (list T)) (centroid : list T) (dv : list T) (y : list nat) (label : nat)
    : list T * list nat :=
    match data, dv, y with
    | row :: data', di :: dv', yi :: y' =>
        let dist := sqdist row centroid in
        let '(dr, yr) := kpp_pass data' centroid dv' y' label in
        if oltb O dist di then (dist :: dr, label :: yr) else (di :: dr, yi :: yr)
    | _, _, _ => (dv, y)
    end.
  (* while index < n { cost += d[index]; if cost >= cutoff {break}; index += 1 } *)
  Fixpoint kpp_pick (dv : list T) (cutoff cost : T) (index : nat) : nat :=
    match dv with
    | [] => index
    | di :: dv' =>
        let cost' := oadd O cost di in
        if oleb O cutoff cost' then index else kpp_pick dv' cutoff cost' (S index)
    end.
  Fixpoint kpp_rounds (data : list (list T)) (draws : list draw) (centroid : list T) (dv : list T)
           (y : list nat) (j : nat) (chosen : list nat) : option (list T * list T * list nat * list nat) :=
    match draws with
    | [] => Some (centroid, dv, y, rev chosen)
    | dr :: rest =>
        let '(dv1, y1) := kpp_pass data centroid dv y (j - 1) in
        let sum := fold_left (oadd O) dv1 (o0 O) in
        let cutoff := match dr with Frac r => omul O r sum | Cut c => c end in
        let index := kpp_pick dv1 cutoff (o0 O) 0 in
        match nth_error data index with
        | None => None                                           (* copy_row_as_vec(n): panic *)
        | Some row => kpp_rounds data rest row dv1 y1 (S j) (index :: chosen)
        end
    end.
  (* draws must have k-1 entries; returns (y, chosen rows) *)
  Definition kmeans_plus_plus (maxv : T) (data : list (list T)) (k : nat) (first : nat) (draws : list draw)
    : option (list nat * list nat) :=
    match nth_error data first with
    | None => None
    | Some c0 =>
        let n := length data in
        match kpp_rounds data draws c0 (repeat maxv n) (repeat 0 n) 1 [] with
        | None => None
        | Some (centroid, dv, y, chosen) =>
            let '(_, y') := kpp_pass data centroid dv y (k - 1) in
            Some (y', chosen)
        end
    end.

  (* ---- KMeans::fit after the seeding ---- *)
  (* size[y[i]] += 1 ; centroids[y[i]][j] += data[i][j] ; None: y[i] >= k *)
  Fixpoint init_acc (k : nat) (data : list (list T)) (y : list nat) (size : list nat) (cent : list (list T))
    : option (list nat * list (list T)) :=
    match data, y with
    | row :: data', yi :: y' =>
        if yi <? k then
          init_acc k data' y' (upd size yi (S (nth yi size 0))) (upd cent yi (vadd (nth yi cent []) row))
        else None
    | _, _ => Some (size, cent)
    end.

  (* if size[i] > 0 { centroids[i][j] = sums[i][j] / size[i] } *)
  Fixpoint update_centroids (cent sums : list (list T)) (size : list nat) : list (list T) :=
    match cent, sums, size with
    | c :: cent', s :: sums', z :: size' =>
        (if 0 <? z then map (fun v => odiv O v (oofnat O z)) s else c) :: update_centroids cent' sums' size'
    | _, _, _ => cent
    end.

  Record kmeans := mkKMeans {
    km_k : nat; km_y : list nat; km_size : list nat; km_distortion : T; km_centroids : list (list T) }.

  Fixpoint lloyd_loop (iters : nat) (perm : list nat) (root : bbd) (cent sums : list (list T))
           (size y : list nat) (distortion : T)
    : option (list (list T) * list nat * list nat * T) :=
    match iters with
    | 0 => Some (cent, size, y, distortion)
    | S it =>
        match clustering perm cent root (sums, size, y) with
        | None => None
        | Some (dist, (sums', size', y')) =>
            let cent' := update_centroids cent sums' size' in
            if oleb O distortion dist then Some (cent', size', y', distortion)
            else lloyd_loop it perm root cent' sums' size' y' dist
        end
    end.

  Definition lloyd (maxv : T) (data : list (list T)) (perm : list nat) (root : bbd) (k max_iter : nat)
             (y0 : list nat) : option kmeans :=
    let d := length (hd [] data) in
    if negb (length y0 =? length data) then None else
    match init_acc k data y0 (repeat 0 k) (repeat (repeat (o0 O) d) k) with
    | None => None
    | Some (size, csum) =>
        let cent := map2 (fun c z => map (fun v => odiv O v (oofnat O z)) c) csum size in
        match lloyd_loop max_iter perm root cent (repeat (repeat (o0 O) d) k) size y0 maxv with
        | None => None
        | Some (cent', size', y', distortion) => Some (mkKMeans k y' size' distortion cent')
        end
    end.

  (* KMeans::fit: None = panic, Some None = Err(Failed), Some (Some m) = Ok(m).
     `seeding` is what kmeans_plus_plus returned (it is only called after the parameter checks). *)
  Definition fit (maxv : T) (data : list (list T)) (k max_iter : nat) (y0 : list nat)
    : option (option kmeans) :=
    match build data with
    | None => None
    | Some (root, perm) =>
        if k <? 2 then Some None
        else if max_iter =? 0 then Some None
        else match lloyd maxv data perm root k max_iter y0 with
             | None => None
             | Some m => Some (Some m)
             end
    end.

  (* ---- KMeans::predict (one row) ---- *)
  Fixpoint predict_loop (row : list T) (cents : list (list T)) (j : nat) (min_dist : T) (best : nat) : nat :=
    match cents with
    | [] => best
    | c :: cs =>
        let dist := sqdist row c in
        if oltb O dist min_dist then predict_loop row cs (S j) dist j
        else predict_loop row cs (S j) min_dist best
    end.
  Definition predict_row (maxv : T) (cents : list (list T)) (row : list T) : nat :=
    predict_loop row cents 0 maxv 0.
  Definition predict (maxv : T) (m : kmeans) (x : list (list T)) : list nat :=
    map (predict_row maxv (firstn (km_k m) (km_centroids m))) x.

End Model.

Arguments Leaf {T}. Arguments Split {T}. Arguments mkInfo {T}. Arguments Frac {T}. Arguments Cut {T}.
Arguments mkKMeans {T}.
