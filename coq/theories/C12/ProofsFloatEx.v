(* C12 — instances for C12/ProofsFloat.v: the hypotheses of the robustness theorems are satisfiable
   (three 2-D centroids 0.1/0.2, 5.3/4.1, -3.7/6.9 and two query rows near the second one, all inexact
   binary64 numbers: every operation rounds), and the margin hypothesis is needed (two inputs, built
   from exactly representable integers, on which the binary64 and the exact-arithmetic instance of
   predict return DIFFERENT labels although every other hypothesis holds).
   Real values of the float literals by computation (fr_literals), inequalities by interval arithmetic. *)
From Coq Require Import List Arith ZArith Bool Reals Floats Lra Lia Psatz.
From Interval Require Import Tactic.
From SC Require Import Base.FloatUtil Base.Num Base.FloatError C12.Model C12.ProofsBase C12.ProofsPredict C12.ProofsFloat.
Import ListNotations.
Local Open Scope R_scope.

(* f64::MAX, the initial min_dist of KMeans::predict *)
Definition ex_maxv : PrimFloat.float := 0x1.fffffffffffffp+1023%float.
Definition ex_model : kmeans (T := PrimFloat.float) :=
  mkKMeans 3 [] [] 0%float
    [[0x1.999999999999ap-4; 0x1.999999999999ap-3]; [0x1.5333333333333p+2; 0x1.0666666666666p+2];
     [-0x1.d99999999999ap+1; 0x1.b99999999999ap+2]]%float.
(* 5.1/4.4 and 5.5/3.9 *)
Definition ex_rows : list (list PrimFloat.float) :=
  [[0x1.4666666666666p+2; 0x1.199999999999ap+2]; [0x1.6p+2; 0x1.f333333333333p+1]]%float.

Ltac sep_goal :=
  unfold sq_err, Eu, sqdist;
  cbn [ex_model firstn km_k km_centroids nth map length sqdist_acc ROps osub oadd omul o0 INR Nat.add];
  fr_literals; rewrite ?u64_eq, ?eta64_eq; interval.

Lemma ex_float_robust :
  (forall row, In row ex_rows -> row_separated ex_maxv (firstn (km_k ex_model) (km_centroids ex_model)) row) /\
  predict FOps ex_maxv ex_model ex_rows = [1; 1]%nat.
Proof.
  split; [|vm_compute; reflexivity].
  intros row [<-|[<-|[]]].
  - apply (row_separated_intro _ _ _ 1%nat).
    + intros c [<-|[<-|[<-|[]]]]; split; vm_compute; reflexivity.
    + cbn; lia.
    + unfold ex_maxv. sep_goal.
    + intros j Hj Hne. destruct j as [|[|[|j]]]; [ | contradiction | | cbn in Hj; lia]; sep_goal.
  - apply (row_separated_intro _ _ _ 1%nat).
    + intros c [<-|[<-|[<-|[]]]]; split; vm_compute; reflexivity.
    + cbn; lia.
    + unfold ex_maxv. sep_goal.
    + intros j Hj Hne. destruct j as [|[|[|j]]]; [ | contradiction | | cbn in Hj; lia]; sep_goal.
Qed.

Ltac real_dists :=
  unfold sqdist; cbn [nth map length sqdist_acc ROps osub oadd omul o0]; fr_literals.

(* (a) a tie created by rounding: exact squared distances 2^54 + 1 (centroid 0) and 2^54 (centroid 1) —
   adjacent integers, the first is not a binary64 number — both computed as 2^54; the strict `<` keeps
   centroid 0, the exact arg-min is centroid 1 *)
Definition tie_cents : list (list PrimFloat.float) := [[134217728; 1]; [134217728; 0]]%float.
Definition tie_row : list PrimFloat.float := [0; 0]%float.

Lemma tie_real : predict_row ROps (FR ex_maxv) (map (map FR) tie_cents) (map FR tie_row) = 1%nat.
Proof.
  apply predict_row_unique.
  - exists 1%nat. split; [cbn; lia|]. unfold ex_maxv, tie_cents, tie_row. real_dists. lra.
  - cbn; lia.
  - intros j Hj. destruct j as [|[|j]]; [| |cbn in Hj; lia]; unfold tie_cents, tie_row; real_dists; lra.
  - intros j Hj. destruct j as [|j]; [|lia]. unfold tie_cents, tie_row; real_dists; lra.
Qed.

Lemma ex_margin_needed_tie :
  (forall c, In c tie_cents -> length c = length tie_row /\ ffin (sqdist FOps tie_row c)) /\
  sqdist ROps (map FR tie_row) (map FR (nth 0 tie_cents [])) = 2 ^ 54 + 1 /\
  sqdist ROps (map FR tie_row) (map FR (nth 1 tie_cents [])) = 2 ^ 54 /\
  sqdist FOps tie_row (nth 0 tie_cents []) = sqdist FOps tie_row (nth 1 tie_cents []) /\
  2 ^ 54 + sq_err 2 (2 ^ 54) < FR ex_maxv /\
  predict_row ROps (FR ex_maxv) (map (map FR) tie_cents) (map FR tie_row) = 1%nat /\
  predict_row FOps ex_maxv tie_cents tie_row = 0%nat.
Proof.
  split. { intros c [<-|[<-|[]]]; split; vm_compute; reflexivity. }
  split. { unfold tie_cents, tie_row. real_dists. lra. }
  split. { unfold tie_cents, tie_row. real_dists. lra. }
  split. { vm_compute. reflexivity. }
  split. { unfold ex_maxv, sq_err, Eu. cbn [INR Nat.add]. fr_literals. rewrite u64_eq, eta64_eq. interval. }
  split; [exact tie_real | vm_compute; reflexivity].
Qed.

(* (b) a strict flip: exact 2^54 + 3 (centroid 0) < 2^54 + 4 (centroid 1); computed 2^54 + 4 (the small
   terms are added first and survive) > 2^54 (each + 1 is absorbed): binary64 attaches the row to the
   centroid that is strictly farther *)
Definition flip_cents : list (list PrimFloat.float) :=
  [[1; 1; 1; 134217728; 0]; [134217728; 1; 1; 1; 1]]%float.
Definition flip_row : list PrimFloat.float := [0; 0; 0; 0; 0]%float.

Lemma flip_real : predict_row ROps (FR ex_maxv) (map (map FR) flip_cents) (map FR flip_row) = 0%nat.
Proof.
  apply predict_row_unique.
  - exists 0%nat. split; [cbn; lia|]. unfold ex_maxv, flip_cents, flip_row. real_dists. lra.
  - cbn; lia.
  - intros j Hj. destruct j as [|[|j]]; [| |cbn in Hj; lia]; unfold flip_cents, flip_row; real_dists; lra.
  - intros j Hj. lia.
Qed.

Lemma ex_margin_needed_flip :
  (forall c, In c flip_cents -> length c = length flip_row /\ ffin (sqdist FOps flip_row c)) /\
  sqdist ROps (map FR flip_row) (map FR (nth 0 flip_cents [])) = 2 ^ 54 + 3 /\
  sqdist ROps (map FR flip_row) (map FR (nth 1 flip_cents [])) = 2 ^ 54 + 4 /\
  (2 ^ 54 + 3) + sq_err 5 (2 ^ 54 + 3) < FR ex_maxv /\
  predict_row ROps (FR ex_maxv) (map (map FR) flip_cents) (map FR flip_row) = 0%nat /\
  predict_row FOps ex_maxv flip_cents flip_row = 1%nat.
Proof.
  split. { intros c [<-|[<-|[]]]; split; vm_compute; reflexivity. }
  split. { unfold flip_cents, flip_row. real_dists. lra. }
  split. { unfold flip_cents, flip_row. real_dists. lra. }
  split. { unfold ex_maxv, sq_err, Eu. cbn [INR Nat.add]. fr_literals. rewrite u64_eq, eta64_eq. interval. }
  split; [exact flip_real | vm_compute; reflexivity].
Qed.
