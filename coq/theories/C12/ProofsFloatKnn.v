(* C04 (hosted in C12's directory) — the exhaustive k = 1 nearest-neighbour search
   LinearKNNSearch::find(from, 1) of src/algorithm/neighbour/linear_search.rs, model
   SC.C04.Model.linear_find: under a separation margin the binary64 instance returns exactly the
   exact-arithmetic nearest neighbour.

     linear_find_k1            for every distance type: with k = 1 the heap machinery collapses to a
                               running arg-min with the strict `<`, started at the sentinel dinf
     linear_find_k1_argmin     a comparison that reflects a real-valued measure on the admissible keys,
                               a sentinel above every admissible key, one key strictly below all
                               others  ==>  the search returns exactly that index
     knn1_float_robust         binary64, any metric given as computed distances dq with error bounds
     knn1_euclid_float_robust  binary64, the Euclidean metric sqrt(squared distance) of the k-NN
                               estimators (error bound of C17.ProofsFloat.euclidian_float_error_checked)
   The sentinel of the binary64 instance is +infinity (Corr.v of C04 passes `infinity`): every finite
   distance is below it. *)
From Coq Require Import List Arith ZArith Bool Reals Floats Lra Lia Psatz.
From Flocq Require Import Core BinarySingleNaN PrimFloat.
From Interval Require Import Tactic.
From SC Require Import Base.FloatUtil Base.Num Base.FloatError C12.Model C12.ProofsBase C12.ProofsFloat.
From SC Require C04.Model.
From SC Require C17.Model.
From SC Require C17.ProofsFloat.
Import ListNotations.
Local Open Scope R_scope.
Local Existing Instance Hprec.
Local Existing Instance Hmax.

Section K1.
  Context {D : Type} (ltb leb : D -> D -> bool) (dinf : D).
  Notation kpt := (C04.Model.kpt (D := D)).

  (* the running arg-min *)
  Definition scan1 (dq : nat -> D) (l : list nat) (mo : kpt) : kpt :=
    fold_left (fun mo i => if ltb (dq i) (fst mo) then (dq i, Some i) else mo) l mo.

  Definition lstep (dq : nat -> D) (h : C04.Model.heapsel kpt) (i : nat) : C04.Model.heapsel kpt :=
    let d := dq i in
    let datum := C04.Model.hs_peek_mut (C04.Model.kd0 dinf) h in
    if ltb d (fst datum)
    then C04.Model.hs_heapify (C04.Model.kltb ltb) (C04.Model.kleb leb) (C04.Model.kd0 dinf)
           (C04.Model.hs_set_root h (d, Some i))
    else h.

  Lemma lstep_k1 dq mo i :
    lstep dq (C04.Model.mkHeap 1 1 true [mo]) i =
    C04.Model.mkHeap 1 1 true [if ltb (dq i) (fst mo) then (dq i, Some i) else mo].
  Proof.
    unfold lstep. cbv zeta. unfold C04.Model.hs_peek_mut. cbn [C04.Model.hheap nth].
    destruct (ltb (dq i) (fst mo)); reflexivity.
  Qed.

  Lemma linear_scan_k1 dq l : forall mo,
    fold_left (lstep dq) l (C04.Model.mkHeap 1 1 true [mo]) = C04.Model.mkHeap 1 1 true [scan1 dq l mo].
  Proof.
    induction l as [|i l IH]; intros mo; cbn [fold_left scan1]; [reflexivity|].
    rewrite lstep_k1. apply IH.
  Qed.

  Lemma linear_find_k1 dq n :
    C04.Model.linear_find ltb leb dinf dq n 1 =
    if (n <? 1)%nat then None
    else Some (match snd (scan1 dq (seq 0 n) (dinf, None)) with
               | Some i => [(i, fst (scan1 dq (seq 0 n) (dinf, None)))]
               | None => []
               end).
  Proof.
    unfold C04.Model.linear_find. change (1 <? 1)%nat with false. cbn [orb].
    destruct (n <? 1)%nat; [reflexivity|]. f_equal.
    unfold C04.Model.linear_scan. fold (lstep dq).
    change (C04.Model.iterate 1 (fun h => C04.Model.hs_add (C04.Model.kltb ltb) (C04.Model.kleb leb) (C04.Model.kd0 dinf) h (dinf, None))
              (C04.Model.with_capacity 1))
      with (C04.Model.mkHeap 1 1 true [((dinf, None) : kpt)]).
    rewrite linear_scan_k1. unfold C04.Model.hs_get. cbn [C04.Model.hheap flat_map].
    rewrite app_nil_r. reflexivity.
  Qed.

  (* admissible keys are compared through a real-valued measure; the sentinel is above all of them *)
  Variables (val : D -> R) (ok : D -> Prop).
  Hypothesis ltb_val : forall a b, ok a -> ok b -> ltb a b = Rlt_bool (val a) (val b).
  Hypothesis ltb_inf : forall a, ok a -> ltb a dinf = true.

  Lemma scan1_stay dq l : forall mo,
    (forall i, In i l -> ltb (dq i) (fst mo) = false) -> scan1 dq l mo = mo.
  Proof.
    induction l as [|i l IH]; intros mo H; cbn [scan1 fold_left]; [reflexivity|].
    rewrite (H i (or_introl eq_refl)). apply IH. intros j Hj. apply H. right. exact Hj.
  Qed.

  Lemma scan1_min dq n js :
    (js < n)%nat -> (forall i, (i < n)%nat -> ok (dq i)) ->
    (forall j, (j < n)%nat -> j <> js -> val (dq js) < val (dq j)) ->
    forall len a m o, (a + len = n)%nat -> (a <= js)%nat ->
      (m = dinf \/ (ok m /\ val (dq js) < val m)) ->
      scan1 dq (seq a len) (m, o) = (dq js, Some js).
  Proof.
    intros Hjs Hok Hsep. induction len as [|len IH]; intros a m o Hn Ha Hm; [lia|].
    cbn [seq scan1 fold_left fst]. fold (scan1 dq (seq (S a) len)).
    assert (Han : (a < n)%nat) by lia.
    destruct (Nat.eq_dec a js) as [->|NE].
    - assert (E : ltb (dq js) m = true).
      { destruct Hm as [->|[Hm1 Hm2]]; [apply ltb_inf, Hok, Hjs|].
        rewrite (ltb_val _ _ (Hok _ Hjs) Hm1). apply Rlt_bool_true. exact Hm2. }
      rewrite E. apply scan1_stay. intros i Hi. apply in_seq in Hi. cbn [fst].
      assert (Hi' : (i < n)%nat) by lia. assert (Hne : i <> js) by lia.
      rewrite (ltb_val _ _ (Hok _ Hi') (Hok _ Hjs)). apply Rlt_bool_false.
      specialize (Hsep i Hi' Hne). lra.
    - assert (Hlt : val (dq js) < val (dq a)) by (apply Hsep; assumption).
      destruct (ltb (dq a) m); apply IH; try lia.
      + right. split; [apply Hok, Han | exact Hlt].
      + exact Hm.
  Qed.

  Theorem linear_find_k1_argmin dq n js :
    (js < n)%nat -> (forall i, (i < n)%nat -> ok (dq i)) ->
    (forall j, (j < n)%nat -> j <> js -> val (dq js) < val (dq j)) ->
    C04.Model.linear_find ltb leb dinf dq n 1 = Some [(js, dq js)].
  Proof.
    intros Hjs Hok Hsep. rewrite linear_find_k1.
    assert (E : (n <? 1)%nat = false) by (apply Nat.ltb_ge; lia). rewrite E.
    rewrite (scan1_min dq n js Hjs Hok Hsep n 0%nat dinf None); try lia; [reflexivity | left; reflexivity].
  Qed.
End K1.

(* ---------------- the two instances ---------------- *)
Lemma fltb_infinity a : ffin a -> PrimFloat.ltb a infinity = true.
Proof.
  intros H. apply ffin_B in H. rewrite ltb_equiv.
  change (Prim2B infinity) with (B754_infinity (prec := prec) (emax := emax) false) || idtac.
  destruct (Prim2B a) as [s|s| |s m e He]; try discriminate H; vm_compute; reflexivity.
Qed.

(* real numbers, sentinel dinfR: keys below the sentinel *)
Lemma knn1_real (R_ : nat -> R) (dinfR : R) n js :
  (js < n)%nat -> (forall i, (i < n)%nat -> R_ i < dinfR) ->
  (forall j, (j < n)%nat -> j <> js -> R_ js < R_ j) ->
  C04.Model.linear_find Rltb Rleb dinfR R_ n 1 = Some [(js, R_ js)].
Proof.
  intros Hjs Hlt Hsep.
  apply (linear_find_k1_argmin Rltb Rleb dinfR (fun a => a) (fun a => a < dinfR)); try assumption.
  - intros a b _ _. unfold Rltb, Rlt_bool. destruct (Rlt_dec a b) as [H|H].
    + destruct (Rcompare_spec a b); try reflexivity; lra.
    + destruct (Rcompare_spec a b); try reflexivity; lra.
  - intros a Ha. apply Rltb_true. exact Ha.
Qed.

(* binary64, any metric: dq i is the computed distance to point i, R_ i the exact one, e i a bound on
   the error; sentinel +infinity *)
Theorem knn1_float_robust (dq : nat -> PrimFloat.float) (R_ e : nat -> R) (n js : nat) :
  (js < n)%nat ->
  (forall i, (i < n)%nat -> ffin (dq i) /\ Rabs (FR (dq i) - R_ i) <= e i) ->
  (forall j, (j < n)%nat -> j <> js -> e j + e js < R_ j - R_ js) ->
  C04.Model.linear_find PrimFloat.ltb PrimFloat.leb infinity dq n 1 = Some [(js, dq js)] /\
  (forall j, (j < n)%nat -> j <> js -> R_ js < R_ j) /\
  (forall dinfR, (forall i, (i < n)%nat -> R_ i < dinfR) ->
     C04.Model.linear_find Rltb Rleb dinfR R_ n 1 = Some [(js, R_ js)]).
Proof.
  intros Hjs Herr Hsep.
  assert (He0 : forall i, (i < n)%nat -> 0 <= e i).
  { intros i Hi. destruct (Herr i Hi) as [_ H]. pose proof (Rabs_pos (FR (dq i) - R_ i)). lra. }
  assert (HsepR : forall j, (j < n)%nat -> j <> js -> R_ js < R_ j).
  { intros j Hj Hne. specialize (Hsep j Hj Hne). pose proof (He0 j Hj). pose proof (He0 js Hjs). lra. }
  split; [|split; [exact HsepR|]].
  - apply (linear_find_k1_argmin PrimFloat.ltb PrimFloat.leb infinity FR ffin).
    + exact fltb_finite.
    + exact fltb_infinity.
    + exact Hjs.
    + intros i Hi. apply (Herr i Hi).
    + intros j Hj Hne. destruct (Herr j Hj) as [_ Ej]. destruct (Herr js Hjs) as [_ Es].
      specialize (Hsep j Hj Hne). apply Rabs_le_inv in Ej. apply Rabs_le_inv in Es. lra.
  - intros dinfR Hinf. apply knn1_real; assumption.
Qed.

(* the Euclidean metric of the k-NN estimators: sqrt of the squared-distance fold (Euclidian::distance) *)
Definition euclidF (x y : list PrimFloat.float) : PrimFloat.float :=
  PrimFloat.sqrt (C17.Model.sq_dist_loop FOps x y).
Definition euclidR (x y : list R) : R := R_sqrt.sqrt (sqdist ROps x y).

Lemma euclidF_error x y : length x = length y -> ffin (euclidF x y) ->
  C17.ProofsFloat.diff_normal_b x y = true ->
  Rabs (FR (euclidF x y) - euclidR (map FR x) (map FR y)) <= Eu (length x + 3) * euclidR (map FR x) (map FR y).
Proof.
  intros L Hfin Hb.
  assert (HS : C17.Model.euclidian FOps x y = Some (euclidF x y)).
  { unfold C17.Model.euclidian, C17.Model.squared_distance, C17.Model.same_len.
    rewrite (proj2 (Nat.eqb_eq _ _) L). reflexivity. }
  destruct (C17.ProofsFloat.euclidian_float_error_checked x y _ HS Hfin Hb) as (HR & _ & G).
  assert (E : R_sqrt.sqrt (C17.Spec.sigma (length x)
                (fun i => (C17.Spec.comp (C17.ProofsFloat.RV x) i - C17.Spec.comp (C17.ProofsFloat.RV y) i) *
                          (C17.Spec.comp (C17.ProofsFloat.RV x) i - C17.Spec.comp (C17.ProofsFloat.RV y) i))) =
              euclidR (map FR x) (map FR y)).
  { unfold C17.Model.euclidian, C17.Model.squared_distance, C17.Model.same_len in HR.
    rewrite !C17.ProofsFloat.RV_length, (proj2 (Nat.eqb_eq _ _) L) in HR. cbn [option_map] in HR.
    injection HR as HR. rewrite <- HR. unfold euclidR. rewrite sqdist_is_C17. reflexivity. }
  cbv zeta in G. rewrite E in G. exact G.
Qed.

Theorem knn1_euclid_float_robust (data : list (list PrimFloat.float)) (q : list PrimFloat.float) (js : nat) :
  let n := length data in
  let p := length q in
  let dq := fun i => euclidF q (nth i data []) in
  let R_ := fun i => euclidR (map FR q) (map FR (nth i data [])) in
  (js < n)%nat ->
  (forall i, (i < n)%nat -> length (nth i data []) = p /\ ffin (dq i) /\
                            C17.ProofsFloat.diff_normal_b q (nth i data []) = true) ->
  (forall j, (j < n)%nat -> j <> js -> Eu (p + 3) * (R_ j + R_ js) < R_ j - R_ js) ->
  C04.Model.linear_find PrimFloat.ltb PrimFloat.leb infinity dq n 1 = Some [(js, dq js)] /\
  (forall j, (j < n)%nat -> j <> js -> R_ js < R_ j) /\
  (forall dinfR, (forall i, (i < n)%nat -> R_ i < dinfR) ->
     C04.Model.linear_find Rltb Rleb dinfR R_ n 1 = Some [(js, R_ js)]).
Proof.
  intros n p dq R_ Hjs Hh Hsep.
  apply (knn1_float_robust dq R_ (fun i => Eu (p + 3) * R_ i) n js Hjs).
  - intros i Hi. destruct (Hh i Hi) as (L & F & B). split; [exact F|].
    apply (euclidF_error q (nth i data []) (eq_sym L) F B).
  - intros j Hj Hne. specialize (Hsep j Hj Hne). lra.
Qed.

(* ---------------- instances ---------------- *)
(* data points (0.1, 0.2), (5.3, 4.1), (-3.7, 6.9), query (5.1, 4.4): all hypotheses of
   knn1_euclid_float_robust hold with js = 1, and the search returns point 1 *)
Definition knn_data : list (list PrimFloat.float) :=
  [[0x1.999999999999ap-4; 0x1.999999999999ap-3]; [0x1.5333333333333p+2; 0x1.0666666666666p+2];
   [-0x1.d99999999999ap+1; 0x1.b99999999999ap+2]]%float.
Definition knn_q : list PrimFloat.float := [0x1.4666666666666p+2; 0x1.199999999999ap+2]%float.

Ltac knn_goal :=
  unfold Eu, euclidR, sqdist;
  cbn [knn_data knn_q nth map length sqdist_acc ROps osub oadd omul o0 INR Nat.add];
  fr_literals; rewrite ?u64_eq; interval.

Lemma ex_knn1_robust :
  let n := length knn_data in
  let p := length knn_q in
  let dq := fun i => euclidF knn_q (nth i knn_data []) in
  let R_ := fun i => euclidR (map FR knn_q) (map FR (nth i knn_data [])) in
  (1 < n)%nat /\
  (forall i, (i < n)%nat -> length (nth i knn_data []) = p /\ ffin (dq i) /\
                            C17.ProofsFloat.diff_normal_b knn_q (nth i knn_data []) = true) /\
  (forall j, (j < n)%nat -> j <> 1%nat -> Eu (p + 3) * (R_ j + R_ 1%nat) < R_ j - R_ 1%nat) /\
  C04.Model.linear_find PrimFloat.ltb PrimFloat.leb infinity dq n 1 = Some [(1%nat, dq 1%nat)].
Proof.
  cbv zeta. split; [cbn; lia|]. split; [|split].
  - intros i Hi. destruct i as [|[|[|i]]]; [| | |cbn in Hi; lia]; repeat split; vm_compute; reflexivity.
  - intros j Hj Hne. destruct j as [|[|[|j]]]; [ | contradiction | | cbn in Hj; lia]; knn_goal.
  - vm_compute. reflexivity.
Qed.

(* the margin is needed, and here sqrt makes it worse than for k-means: exact squared distances
   a^2 + 1 (point 0) and a^2 (point 1) with a = 2^26 + 1 are both binary64 numbers and are computed
   exactly, but sqrt(a^2 + 1) rounds to a = sqrt(a^2): the two Euclidean distances are EQUAL in binary64,
   the strict `<` keeps point 0, the exact nearest neighbour is point 1 *)
Definition knn_tie_data : list (list PrimFloat.float) := [[67108865; 1]; [67108865; 0]]%float.
Definition knn_tie_q : list PrimFloat.float := [0; 0]%float.

Lemma ex_knn1_margin_needed :
  let n := length knn_tie_data in
  let dq := fun i => euclidF knn_tie_q (nth i knn_tie_data []) in
  let R_ := fun i => euclidR (map FR knn_tie_q) (map FR (nth i knn_tie_data [])) in
  (forall i, (i < n)%nat -> length (nth i knn_tie_data []) = length knn_tie_q /\ ffin (dq i) /\
                            C17.ProofsFloat.diff_normal_b knn_tie_q (nth i knn_tie_data []) = true) /\
  R_ 1%nat < R_ 0%nat /\
  C17.Model.sq_dist_loop FOps knn_tie_q (nth 0 knn_tie_data []) = 4503599761588226%float /\
  C17.Model.sq_dist_loop FOps knn_tie_q (nth 1 knn_tie_data []) = 4503599761588225%float /\
  dq 0%nat = dq 1%nat /\
  C04.Model.linear_find PrimFloat.ltb PrimFloat.leb infinity dq n 1 = Some [(0%nat, dq 0%nat)].
Proof.
  cbv zeta. split; [|split].
  - intros i Hi. destruct i as [|[|i]]; [| |cbn in Hi; lia]; repeat split; vm_compute; reflexivity.
  - unfold euclidR, sqdist. cbn [knn_tie_data knn_tie_q nth map length sqdist_acc ROps osub oadd omul o0].
    fr_literals. apply R_sqrt.sqrt_lt_1_alt. lra.
  - repeat split; vm_compute; reflexivity.
Qed.
