(* C12 — one Lloyd iteration does not increase the distortion (over the reals).

   dist1 = distortion of the assignment a1 computed for the centroids C  (clustering_exact)
   C'    = update_centroids C sums1 size1: the mean of every non-empty cluster of a1, C[c] otherwise
   sum_r |x_r - C'[a1 r]|^2 <= sum_r |x_r - C[a1 r]|^2     (the mean minimises the squared distance)
   dist2 = min over all assignments w.r.t. C' <= the left-hand side    (assignment_optimal)       *)
From Coq Require Import List ZArith Bool Arith Lia Reals Lra.
From SC Require Import Base.Num C12.Model C12.ProofsBase C12.ProofsTree C12.ProofsFilter C12.ProofsKMeans.
Import ListNotations.
Open Scope R_scope.

Lemma lsum_filter f p l : lsum f (List.filter p l) = lsum (fun r => if p r then f r else 0) l.
Proof. induction l as [|a l IH]; simpl; [reflexivity|]. destruct (p a); simpl; rewrite IH; ring. Qed.
Lemma length_filter_lcount p l : length (List.filter p l) = lcount p l.
Proof. induction l as [|a l IH]; simpl; auto. destruct (p a); simpl; lia. Qed.

Lemma lsum_indicator (g : nat -> R) a k : (a < k)%nat ->
  lsum (fun c => if (a =? c)%nat then g c else 0) (seq 0 k) = g a.
Proof.
  induction k as [|k IH]; intros H; [lia|]. rewrite seq_S, lsum_app. cbn [Nat.add lsum].
  destruct (Nat.eq_dec a k) as [->|Hne].
  - rewrite Nat.eqb_refl. rewrite (lsum_ext _ (fun _ => 0)); [rewrite lsum_zero; ring|].
    intros c Hc. apply in_seq in Hc. destruct (Nat.eqb_spec k c); [lia|reflexivity].
  - rewrite IH by lia. destruct (Nat.eqb_spec a k); [lia|ring].
Qed.

(* the mean of f over rs minimises the sum of squared deviations *)
Lemma mean_optimal (f : nat -> R) rs p : (1 <= length rs)%nat ->
  lsum (fun r => (f r - lsum f rs / INR (length rs)) * (f r - lsum f rs / INR (length rs))) rs
  <= lsum (fun r => (f r - p) * (f r - p)) rs.
Proof.
  intros H. rewrite (var_id f rs p H). cbv zeta.
  set (m := lsum f rs / INR (length rs)).
  assert (0 <= INR (length rs) * ((m - p) * (m - p))).
  { apply Rmult_le_pos; [apply pos_INR|]. pose proof (Rle_0_sqr (m - p)) as Hs. unfold Rsqr in Hs. exact Hs. }
  lra.
Qed.

(* a successful assignment step: all centroids have the dimension of the data *)
Lemma clustering_cent_shape data perm t C sums counts memb res :
  wf_bbd ROps 0 data perm t = true ->
  clustering ROps perm C t (sums, counts, memb) = Some res ->
  forall c, (c < length C)%nat -> length (nth c C []) = length (hd [] data).
Proof.
  intros Hwf Hcl c Hc. unfold wf_bbd in Hwf.
  apply andb_true_iff in Hwf as [_ Hwt].
  unfold clustering in Hcl. destruct (shape_ok perm C t (sums, counts, memb)) eqn:Hsh; [|discriminate].
  unfold shape_ok in Hsh.
  apply andb_true_iff in Hsh as [Hsh Hts]. apply andb_true_iff in Hsh as [Hsh _].
  apply andb_true_iff in Hsh as [Hsh _]. apply andb_true_iff in Hsh as [Hsh _].
  apply andb_true_iff in Hsh as [_ Hcs].
  destruct (tree_shape_root _ _ _ _ _ Hts) as [Hsh' _].
  pose proof (wf_tree_shape _ _ _ _ Hwt) as Hshd.
  destruct (info_shape_lens (length (hd [] C)) _ Hsh') as (A & _).
  destruct (info_shape_lens (length (hd [] data)) _ Hshd) as (B & _).
  rewrite forallb_forall in Hcs. rewrite <- B, A. apply Nat.eqb_eq. apply Hcs. apply nth_In. exact Hc.
Qed.

Section Step.
  Variables (data : list (list R)) (a : nat -> nat) (k : nat).
  Let n := length data.
  Let d := length (hd [] data).
  Hypothesis Hrl : forall r, (r < n)%nat -> length (nth r data []) = d.
  Hypothesis Ha : forall r, (r < n)%nat -> (a r < k)%nat.

  (* the distortion of assignment a w.r.t. centroids C, cluster by cluster *)
  Lemma distortion_by_cluster (C : list (list R)) :
    lsum (fun r => sqdist ROps (nth r data []) (nth (a r) C [])) (seq 0 n) =
    lsum (fun c => lsum (fun r => sqdist ROps (nth r data []) (nth c C []))
                        (List.filter (fun r => (a r =? c)%nat) (seq 0 n))) (seq 0 k).
  Proof.
    transitivity (lsum (fun c => lsum (fun r => if (a r =? c)%nat then sqdist ROps (nth r data []) (nth c C []) else 0)
                                      (seq 0 n)) (seq 0 k)).
    - rewrite <- (lsum_swap (fun r c => if (a r =? c)%nat then sqdist ROps (nth r data []) (nth c C []) else 0)).
      apply lsum_ext. intros r Hr. apply in_seq in Hr.
      symmetry. apply (lsum_indicator (fun c => sqdist ROps (nth r data []) (nth c C []))). apply Ha. lia.
    - apply lsum_ext. intros c _. symmetry. apply lsum_filter.
  Qed.

  (* within one cluster the mean is at least as good as any other point of dimension d *)
  Lemma cluster_mean_optimal (rs : list nat) (m p : list R) :
    (1 <= length rs)%nat -> (forall r, In r rs -> (r < n)%nat) ->
    length m = d -> length p = d ->
    (forall q, (q < d)%nat -> nth q m 0 = lsum (fun r => nth q (nth r data []) 0) rs / INR (length rs)) ->
    lsum (fun r => sqdist ROps (nth r data []) m) rs <= lsum (fun r => sqdist ROps (nth r data []) p) rs.
  Proof.
    intros H1 Hrs Lm Lp Hm.
    assert (E : forall y, length y = d ->
              lsum (fun r => sqdist ROps (nth r data []) y) rs =
              lsum (fun q => lsum (fun r => (nth q (nth r data []) 0 - nth q y 0) * (nth q (nth r data []) 0 - nth q y 0)) rs) (seq 0 d)).
    { intros y Ly. rewrite <- lsum_swap. apply lsum_ext. intros r Hr.
      rewrite sqdist_lsum by (rewrite Hrl; auto). rewrite Hrl by auto. reflexivity. }
    rewrite (E m Lm), (E p Lp). apply lsum_le. intros q Hq. apply in_seq in Hq.
    rewrite Hm by lia. apply (mean_optimal (fun r => nth q (nth r data []) 0) rs (nth q p 0) H1).
  Qed.
End Step.

Lemma lloyd_step_monotone :
  forall data perm t cent sums counts memb dist1 sums1 counts1 memb1 sums' counts' memb' dist2 sums2 counts2 memb2,
  wf_bbd ROps 0 data perm t = true ->
  clustering ROps perm cent t (sums, counts, memb) = Some (dist1, (sums1, counts1, memb1)) ->
  clustering ROps perm (update_centroids ROps cent sums1 counts1) t (sums', counts', memb')
    = Some (dist2, (sums2, counts2, memb2)) ->
  dist2 <= dist1.
Proof.
  intros data perm t cent sums counts memb dist1 sums1 counts1 memb1 sums' counts' memb' dist2 sums2 counts2 memb2
         Hwf H1 H2.
  set (cent1 := update_centroids ROps cent sums1 counts1) in *.
  pose proof (clustering_cent_shape _ _ _ _ _ _ _ _ Hwf H1) as Sh0.
  pose proof (clustering_cent_shape _ _ _ _ _ _ _ _ Hwf H2) as Sh1.
  destruct (clustering_exact _ _ _ _ _ _ _ _ _ _ _ Hwf H1) as [_ A1].
  destruct (clustering_exact _ _ _ _ _ _ _ _ _ _ _ Hwf H2) as [_ A2].
  assert (Lc1 : length cent1 = length cent) by apply update_centroids_length.
  assert (Hrl : forall r, (r < length data)%nat -> length (nth r data []) = length (hd [] data)).
  { intros r Hr. pose proof Hwf as Hw. unfold wf_bbd in Hw.
    apply andb_true_iff in Hw as [Hw _]. apply andb_true_iff in Hw as [Hw _].
    apply andb_true_iff in Hw as [Hw _]. apply andb_true_iff in Hw as [Hw _].
    apply andb_true_iff in Hw as [_ Hl]. rewrite forallb_forall in Hl.
    apply Nat.eqb_eq. apply Hl. apply nth_In. exact Hr. }
  pose proof A1 as (Hnear & Hsums & Hcnts & Ls & Lz & Hd1).
  set (a := asg memb1) in *.
  assert (Ha : forall r, (r < length data)%nat -> (a r < length cent)%nat) by (intros r Hr; apply (Hnear r Hr)).
  (* dist2 is at most the distortion of a1 w.r.t. the updated centroids *)
  apply Rle_trans with (lsum (fun r => sqdist ROps (nth r data []) (nth (a r) cent1 [])) (seq 0 (length data))).
  { apply (assignment_optimal data cent1 dist2 sums2 counts2 memb2 a A2).
    intros r Hr. rewrite Lc1. apply Ha. exact Hr. }
  rewrite Hd1.
  rewrite (distortion_by_cluster data a (length cent) Ha cent1), (distortion_by_cluster data a (length cent) Ha cent).
  apply lsum_le. intros c Hc. apply in_seq in Hc.
  assert (Hck : (c < length cent)%nat) by lia.
  unfold cent1. rewrite update_centroids_nth by lia.
  destruct (Nat.ltb_spec 0 (nth c counts1 0%nat)) as [Hpos|Hz]; [|apply Rle_refl].
  set (rs := List.filter (fun r => (a r =? c)%nat) (seq 0 (length data))).
  assert (Hlen : length rs = nth c counts1 0%nat).
  { unfold rs. rewrite length_filter_lcount. symmetry. apply Hcnts. exact Hck. }
  assert (Lm : length (map (fun v => v / INR (nth c counts1 0%nat)) (nth c sums1 [])) = length (hd [] data)).
  { specialize (Sh1 c ltac:(lia)). unfold cent1 in Sh1. rewrite update_centroids_nth in Sh1 by lia.
    destruct (Nat.ltb_spec 0 (nth c counts1 0%nat)); [exact Sh1 | lia]. }
  apply (cluster_mean_optimal data Hrl rs).
  - lia.
  - intros r Hr. unfold rs in Hr. apply filter_In in Hr as [Hr _]. apply in_seq in Hr. lia.
  - exact Lm.
  - apply Sh0. exact Hck.
  - intros q Hq. rewrite nth_map0 by (unfold Rdiv; ring). rewrite Hlen. f_equal.
    rewrite (Hsums c q Hck Hq). unfold rs. rewrite lsum_filter. reflexivity.
Qed.
