(* C12 — KMeans::kmeans_plus_plus given its draws, over the reals: when the data (a matrix) contain
   k distinct rows and every draw r lies in (0, 1], every one of the k seeds is a row at positive
   distance from all earlier seeds, and the returned assignment y gives every label 0..k-1 to at
   least one row (seed c keeps label c) — no cluster is empty after seeding.

   Why r > 0 is needed: with r = 0 the cutoff is 0, `cost >= cutoff` holds at index 0 whatever
   d[0] is, so row 0 is picked even if it already is a seed.  (rng.gen::<f64>() is uniform on
   [0, 1): r = 0 has probability 2^-53 per draw; r = 1 never occurs but is harmless.)
   Why exact arithmetic: the picked row has d[index] > 0 because cost_before < cutoff <= cost_before
   + d[index]; over binary64 an addend far below the running cost can be absorbed. *)
From Coq Require Import List ZArith Bool Arith Lia Reals Lra.
From SC Require Import Base.Num C12.Model C12.ProofsBase.
Import ListNotations.
Open Scope R_scope.

Lemma sqdist_refl x : sqdist ROps x x = 0.
Proof. induction x as [|a x IH]; [reflexivity|]. rewrite sqdist_cons, IH. ring. Qed.

Lemma sqdist_pos : forall x y, length x = length y -> x <> y -> 0 < sqdist ROps x y.
Proof.
  induction x as [|a x IH]; intros [|b y] Hl Hne; simpl in Hl; try discriminate.
  - congruence.
  - rewrite sqdist_cons. pose proof (sqdist_nonneg x y) as Hnn.
    pose proof (Rle_0_sqr (a - b)) as Hsq. unfold Rsqr in Hsq.
    destruct (Req_EM_T a b) as [->|Hab].
    + assert (Hxy : x <> y) by congruence. specialize (IH y ltac:(lia) Hxy). lra.
    + assert (Hd : a - b <> 0) by lra. apply Rsqr_pos_lt in Hd. unfold Rsqr in Hd. lra.
Qed.

Fixpoint rsum (l : list R) : R := match l with [] => 0 | x :: t => x + rsum t end.
Lemma fold_left_rsum l a : fold_left (oadd ROps) l a = a + rsum l.
Proof.
  revert a; induction l as [|x l IH]; intros a; cbn [fold_left rsum]; [ring|].
  rewrite IH. cbn [oadd ROps]. ring.
Qed.
Lemma rsum_nonneg l : (forall x, In x l -> 0 <= x) -> 0 <= rsum l.
Proof.
  induction l as [|x l IH]; intros H; cbn [rsum]; [lra|].
  assert (0 <= x) by (apply H; now left). assert (0 <= rsum l) by (apply IH; intros; apply H; now right). lra.
Qed.
Lemma rsum_pos l i : (forall x, In x l -> 0 <= x) -> (i < length l)%nat -> 0 < nth i l 0 -> 0 < rsum l.
Proof.
  revert i; induction l as [|x l IH]; intros i H Hi Hp; simpl in Hi; [lia|].
  cbn [rsum]. assert (0 <= x) by (apply H; now left).
  assert (0 <= rsum l) by (apply rsum_nonneg; intros; apply H; now right).
  destruct i as [|i]; cbn [nth] in Hp; [lra|].
  assert (0 < rsum l) by (apply (IH i); [intros; apply H; now right | lia | auto]). lra.
Qed.

Lemma nth_repeat_lt {A} (a d : A) n r : (r < n)%nat -> nth r (repeat a n) d = a.
Proof. revert r; induction n as [|n IH]; intros [|r] H; simpl; try lia; auto. apply IH; lia. Qed.

(* ---------- one pass `if dist < d[i] { d[i] = dist; y[i] = label }` ---------- *)
Lemma kpp_pass_spec : forall data centroid dv y label dv' y',
  length dv = length data -> length y = length data ->
  kpp_pass ROps data centroid dv y label = (dv', y') ->
  length dv' = length data /\ length y' = length data /\
  forall r, (r < length data)%nat ->
    if Rltb (sqdist ROps (nth r data []) centroid) (nth r dv 0)
    then nth r dv' 0 = sqdist ROps (nth r data []) centroid /\ nth r y' 0%nat = label
    else nth r dv' 0 = nth r dv 0 /\ nth r y' 0%nat = nth r y 0%nat.
Proof.
  induction data as [|row data IH]; intros centroid dv y label dv' y' Hd Hy H.
  - destruct dv; destruct y; simpl in *; try discriminate. inversion H; subst.
    repeat split; auto. intros r Hr. lia.
  - destruct dv as [|di dv]; destruct y as [|yi y]; simpl in Hd, Hy; try discriminate.
    cbn [kpp_pass] in H.
    destruct (kpp_pass ROps data centroid dv y label) as [dr yr] eqn:Hrec.
    apply IH in Hrec; try lia. destruct Hrec as (L1 & L2 & P).
    cbn [oltb ROps] in H.
    destruct (Rltb (sqdist ROps row centroid) di) eqn:G; inversion H; subst; clear H.
    + split; [simpl; lia|]. split; [simpl; lia|].
      intros [|r] Hr; cbn [nth]; [rewrite G; auto | apply P; simpl in Hr; lia].
    + split; [simpl; lia|]. split; [simpl; lia|].
      intros [|r] Hr; cbn [nth]; [rewrite G; auto | apply P; simpl in Hr; lia].
Qed.

(* ---------- the weighted pick ---------- *)
Lemma kpp_pick_spec : forall dv cutoff cost index,
  (forall x, In x dv -> 0 <= x) -> cost < cutoff -> cutoff <= cost + rsum dv ->
  exists i, (i < length dv)%nat /\ kpp_pick ROps dv cutoff cost index = (index + i)%nat /\ 0 < nth i dv 0.
Proof.
  induction dv as [|di dv IH]; intros cutoff cost index Hnn Hlt Hle; cbn [rsum] in Hle; [lra|].
  cbn [kpp_pick oadd oleb ROps].
  destruct (Rleb cutoff (cost + di)) eqn:G.
  - apply Rleb_true in G. exists 0%nat. cbn [nth length]. repeat split; [lia | lia | lra].
  - apply Rleb_false in G.
    destruct (IH cutoff (cost + di) (S index)) as (i & Hi & Hp & Hpos); try lra.
    + intros x Hx. apply Hnn. now right.
    + exists (S i). cbn [nth length]. repeat split; [lia | rewrite Hp; lia | auto].
Qed.

(* ---------- k distinct rows cannot all be among fewer than k seeds ---------- *)
Lemma pigeonhole (data : list (list R)) rows prev :
  NoDup (map (fun r => nth r data []) rows) -> (length prev < length rows)%nat ->
  exists r, In r rows /\ forall i, In i prev -> nth r data [] <> nth i data [].
Proof.
  intros Hnd Hlen. set (row := fun r => nth r data []) in *.
  assert (Hdec : forall r, {~ In (row r) (map row prev)} + {~ ~ In (row r) (map row prev)}).
  { intros r. destruct (in_dec (list_eq_dec Req_EM_T) (row r) (map row prev)); [right; tauto | left; auto]. }
  destruct (Exists_dec (fun r => ~ In (row r) (map row prev)) rows Hdec) as [E|NE].
  - apply Exists_exists in E as (r & Hr & Hn). exists r. split; auto.
    intros i Hi Heq. apply Hn. fold (row r) in Heq. rewrite Heq. exact (in_map row prev i Hi).
  - exfalso.
    assert (Hincl : incl (map row rows) (map row prev)).
    { intros x Hx. apply in_map_iff in Hx as (r & <- & Hr).
      destruct (in_dec (list_eq_dec Req_EM_T) (row r) (map row prev)) as [|Hn]; auto.
      exfalso. apply NE. apply Exists_exists. exists r. auto. }
    apply NoDup_incl_length in Hincl; auto. rewrite !map_length in Hincl. lia.
Qed.

Section Kpp.
  Variables (data : list (list R)) (maxv : R) (k : nat) (rows : list nat).
  Let n := length data.
  Definition row (r : nat) : list R := nth r data [].
  Hypothesis Hrect : forall a b, (a < n)%nat -> (b < n)%nat -> length (row a) = length (row b).
  Hypothesis Hmaxv : 0 < maxv.
  Hypothesis Hdistinct : NoDup (map row rows).
  Hypothesis Hrows_k : length rows = k.
  Hypothesis Hrows_n : forall r, In r rows -> (r < n)%nat.

  (* state after the passes for the seeds in `prev` (seed number c = nth c prev) *)
  Definition InvD (prev : list nat) (dv : list R) (y : list nat) : Prop :=
    length dv = n /\ length y = n /\ (forall i, In i prev -> (i < n)%nat) /\
    (forall r i, (r < n)%nat -> In i prev -> nth r dv 0 <= sqdist ROps (row r) (row i)) /\
    (forall r, (r < n)%nat -> nth r dv 0 = maxv \/ exists i, In i prev /\ nth r dv 0 = sqdist ROps (row r) (row i)) /\
    (forall c, (c < length prev)%nat -> nth (nth c prev 0%nat) y 0%nat = c /\ nth (nth c prev 0%nat) dv 0 = 0).
  (* the current seed is a row at positive distance from all earlier seeds *)
  Definition Fresh (prev : list nat) (cur : nat) : Prop :=
    (cur < n)%nat /\ forall i, In i prev -> 0 < sqdist ROps (row cur) (row i).

  Lemma maxv_pos (r : nat) : (r < n)%nat -> 0 < maxv.
  Proof. intros _. exact Hmaxv. Qed.

  Lemma pass_inv prev cur dv y dv1 y1 :
    InvD prev dv y -> Fresh prev cur ->
    kpp_pass ROps data (row cur) dv y (length prev) = (dv1, y1) ->
    InvD (prev ++ [cur]) dv1 y1.
  Proof.
    intros (Ld & Ly & Hin & B1 & B2 & C) (Hcur & D) Hp.
    apply kpp_pass_spec in Hp; auto. destruct Hp as (L1 & L2 & P). fold n in L1, L2, P.
    assert (P' : forall r, (r < n)%nat ->
               if Rltb (sqdist ROps (row r) (row cur)) (nth r dv 0)
               then nth r dv1 0 = sqdist ROps (row r) (row cur) /\ nth r y1 0%nat = length prev
               else nth r dv1 0 = nth r dv 0 /\ nth r y1 0%nat = nth r y 0%nat) by exact P.
    clear P. unfold InvD. split; [exact L1|]. split; [exact L2|]. split; [|split; [|split]].
    - intros i Hi. apply in_app_or in Hi as [Hi|[<-|[]]]; auto.
    - intros r i Hr Hi. specialize (P' r Hr).
      destruct (Rltb (sqdist ROps (row r) (row cur)) (nth r dv 0)) eqn:G.
      + apply Rltb_true in G. destruct P' as [-> _].
        apply in_app_or in Hi as [Hi|[<-|[]]]; [|lra]. specialize (B1 r i Hr Hi). lra.
      + apply Rltb_false in G. destruct P' as [-> _].
        apply in_app_or in Hi as [Hi|[<-|[]]]; [apply B1; auto | lra].
    - intros r Hr. specialize (P' r Hr).
      destruct (Rltb (sqdist ROps (row r) (row cur)) (nth r dv 0)) eqn:G.
      + destruct P' as [-> _]. right. exists cur. split; [apply in_or_app; right; now left | reflexivity].
      + destruct P' as [-> _]. destruct (B2 r Hr) as [E|(i & Hi & E)]; [now left|].
        right. exists i. split; [apply in_or_app; now left | exact E].
    - intros c Hc. rewrite app_length in Hc. cbn [length] in Hc.
      destruct (lt_dec c (length prev)) as [Hlt|Hge].
      + rewrite app_nth1 by lia. destruct (C c Hlt) as [Cy Cd].
        assert (Hic : (nth c prev 0 < n)%nat) by (apply Hin; apply nth_In; lia).
        specialize (P' _ Hic). rewrite Cd in P'.
        pose proof (sqdist_nonneg (row (nth c prev 0%nat)) (row cur)) as Hnn.
        destruct (Rltb (sqdist ROps (row (nth c prev 0%nat)) (row cur)) 0) eqn:G;
          [apply Rltb_true in G; lra|].
        destruct P' as [-> ->]. auto.
      + assert (c = length prev) by lia. subst c.
        rewrite app_nth2 by lia. rewrite Nat.sub_diag. cbn [nth].
        specialize (P' cur Hcur). rewrite sqdist_refl in P'.
        assert (Hpos : 0 < nth cur dv 0).
        { destruct (B2 cur Hcur) as [->|(i & Hi & ->)]; [apply (maxv_pos cur Hcur) | apply D; auto]. }
        destruct (Rltb 0 (nth cur dv 0)) eqn:G; [|apply Rltb_false in G; lra].
        destruct P' as [-> ->]. auto.
  Qed.

  Lemma dv_nonneg prev dv y : InvD prev dv y -> forall x, In x dv -> 0 <= x.
  Proof.
    intros (Ld & _ & _ & _ & B2 & _) x Hx.
    apply (In_nth _ _ 0) in Hx as (r & Hr & <-). rewrite Ld in Hr.
    destruct (B2 r Hr) as [->|(i & _ & ->)]; [left; apply (maxv_pos r Hr) | apply sqdist_nonneg].
  Qed.

  Lemma kpp_rounds_inv : forall rs prev cur dv y chosen,
    InvD prev dv y -> Fresh prev cur ->
    Forall (fun r => 0 < r <= 1) rs ->
    (length prev + 1 + length rs <= k)%nat ->
    exists centroid dvf yf ch prevf curf,
      kpp_rounds ROps data (map Frac rs) (row cur) dv y (S (length prev)) chosen = Some (centroid, dvf, yf, ch) /\
      InvD prevf dvf yf /\ Fresh prevf curf /\ centroid = row curf /\
      length prevf = (length prev + length rs)%nat.
  Proof.
    induction rs as [|r rs IH]; intros prev cur dv y chosen HI HF Hrs Hk.
    - cbn [map kpp_rounds]. exists (row cur), dv, y, (rev chosen), prev, cur.
      split; [reflexivity|]. split; [exact HI|]. split; [exact HF|]. split; [reflexivity|]. cbn [length]. lia.
    - cbn [map kpp_rounds].
      replace (S (length prev) - 1)%nat with (length prev) by lia.
      destruct (kpp_pass ROps data (row cur) dv y (length prev)) as [dv1 y1] eqn:Hp.
      pose proof (pass_inv _ _ _ _ _ _ HI HF Hp) as HI1.
      pose proof (Forall_inv Hrs) as Hr. pose proof (Forall_inv_tail Hrs) as Hrs'. cbn beta in Hr.
      rewrite fold_left_rsum. cbn [o0 omul ROps].
      pose proof (dv_nonneg _ _ _ HI1) as Hnn.
      pose proof HI1 as (Ld1 & Ly1 & Hin1 & B1 & B2 & _).
      (* some row differs from all seeds so far: the sum is positive *)
      assert (Hsum : 0 < rsum dv1).
      { destruct (pigeonhole data rows (prev ++ [cur]) Hdistinct) as (r' & Hr' & Hne).
        { rewrite app_length, Hrows_k. cbn [length] in *. lia. }
        assert (Hr'n : (r' < n)%nat) by auto.
        apply (rsum_pos dv1 r'); auto; [lia|].
        destruct (B2 r' Hr'n) as [->|(i & Hi & ->)]; [apply (maxv_pos r' Hr'n)|].
        apply sqdist_pos; [apply Hrect; auto | apply Hne; auto]. }
      destruct (kpp_pick_spec dv1 (r * (0 + rsum dv1)) 0 0 Hnn) as (i & Hi & Hpick & Hpos).
      { apply Rmult_lt_0_compat; lra. }
      { assert (0 <= rsum dv1) by lra. nra. }
      rewrite Hpick. cbn [Nat.add]. rewrite Ld1 in Hi.
      rewrite (nth_error_nth' data [] Hi). fold (row i).
      replace (S (S (length prev))) with (S (length (prev ++ [cur])))
        by (rewrite app_length; cbn [length]; lia).
      destruct (IH (prev ++ [cur]) i dv1 y1 (i :: chosen)) as (centroid & dvf & yf & ch & prevf & curf & E & A & B & C & D); auto.
      + split; auto. intros i' Hi'. specialize (B1 i i' Hi Hi'). lra.
      + rewrite app_length. cbn [length] in *. lia.
      + exists centroid, dvf, yf, ch, prevf, curf.
        split; [exact E|]. split; [exact A|]. split; [exact B|]. split; [exact C|].
        rewrite D, app_length. cbn [length]. lia.
  Qed.

  (* the seeding succeeds and gives every label to some row *)
  Lemma kpp_nonempty_total first rs :
    (2 <= k)%nat -> length rs = (k - 1)%nat -> Forall (fun r => 0 < r <= 1) rs -> (first < n)%nat ->
    exists y chosen,
      kmeans_plus_plus ROps maxv data k first (map Frac rs) = Some (y, chosen) /\
      forall c, (c < k)%nat -> exists r, (r < n)%nat /\ nth r y 0%nat = c.
  Proof.
    intros Hk Hlen Hrs Hfn. unfold kmeans_plus_plus.
    rewrite (nth_error_nth' data [] Hfn). fold (row first). fold n.
    destruct (kpp_rounds_inv rs [] first (repeat maxv n) (repeat 0%nat n) [])
      as (centroid & dv & yv & ch & prevf & curf & E & HI & HF & -> & Hlf); auto.
    - unfold InvD. rewrite !repeat_length.
      split; [reflexivity|]. split; [reflexivity|]. split; [intros i []|]. split; [intros r i _ []|].
      split; [intros r Hr'; left; apply nth_repeat_lt; exact Hr' | intros c' Hc'; cbn [length] in Hc'; lia].
    - split; auto. intros i [].
    - cbn [length]. lia.
    - cbn [length] in E. rewrite E. cbn [length Nat.add] in Hlf.
      destruct (kpp_pass ROps data (row curf) dv yv (k - 1)) as [dv' y'] eqn:Hp.
      exists y', ch. split; [reflexivity|]. intros c Hc.
      rewrite <- Hlen, <- Hlf in Hp.
      pose proof (pass_inv _ _ _ _ _ _ HI HF Hp) as (_ & _ & Hin & _ & _ & C).
      assert (Hcl : (c < length (prevf ++ [curf]))%nat) by (rewrite app_length; cbn [length]; lia).
      exists (nth c (prevf ++ [curf]) 0%nat). split.
      + apply Hin. apply nth_In. exact Hcl.
      + apply (C c Hcl).
  Qed.

  Lemma kpp_nonempty first rs y chosen :
    (2 <= k)%nat -> length rs = (k - 1)%nat -> Forall (fun r => 0 < r <= 1) rs ->
    kmeans_plus_plus ROps maxv data k first (map Frac rs) = Some (y, chosen) ->
    forall c, (c < k)%nat -> exists r, (r < n)%nat /\ nth r y 0%nat = c.
  Proof.
    intros Hk Hlen Hrs Hrun.
    assert (Hfn : (first < n)%nat).
    { unfold kmeans_plus_plus in Hrun. destruct (nth_error data first) eqn:Hf; [|discriminate].
      apply nth_error_Some. congruence. }
    destruct (kpp_nonempty_total first rs Hk Hlen Hrs Hfn) as (y0 & ch0 & E & H).
    rewrite E in Hrun. inversion Hrun; subst. exact H.
  Qed.
End Kpp.

Lemma kmeanspp_nonempty : forall maxv data k first rs y chosen,
  (forall r, In r data -> length r = length (hd [] data)) ->
  (2 <= k)%nat -> length rs = (k - 1)%nat -> Forall (fun r => 0 < r <= 1) rs ->
  0 < maxv ->
  (exists rows, NoDup (map (fun r => nth r data []) rows) /\ length rows = k /\
                forall r, In r rows -> (r < length data)%nat) ->
  kmeans_plus_plus ROps maxv data k first (map Frac rs) = Some (y, chosen) ->
  forall c, (c < k)%nat -> exists r, (r < length data)%nat /\ nth r y 0%nat = c.
Proof.
  intros maxv data k first rs y chosen Hrect Hk Hlen Hrs Hmaxv (rows & Hnd & Hrk & Hrn) Hrun.
  apply (kpp_nonempty data maxv k rows) with (first := first) (rs := rs) (chosen := chosen); auto.
  intros a b Ha Hb. unfold row. rewrite (Hrect (nth a data [])), (Hrect (nth b data [])); auto; apply nth_In; auto.
Qed.

Lemma kmeanspp_total : forall maxv data k first rs,
  (forall r, In r data -> length r = length (hd [] data)) ->
  (2 <= k)%nat -> length rs = (k - 1)%nat -> Forall (fun r => 0 < r <= 1) rs ->
  0 < maxv ->
  (exists rows, NoDup (map (fun r => nth r data []) rows) /\ length rows = k /\
                forall r, In r rows -> (r < length data)%nat) ->
  (first < length data)%nat ->
  exists y chosen, kmeans_plus_plus ROps maxv data k first (map Frac rs) = Some (y, chosen).
Proof.
  intros maxv data k first rs Hrect Hk Hlen Hrs Hmaxv (rows & Hnd & Hrk & Hrn) Hf.
  destruct (kpp_nonempty_total data maxv k rows) with (first := first) (rs := rs) as (y & ch & E & _); auto.
  - intros a b Ha Hb. unfold row. rewrite (Hrect (nth a data [])), (Hrect (nth b data [])); auto; apply nth_In; auto.
  - exists y, ch. exact E.
Qed.
