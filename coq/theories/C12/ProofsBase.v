(* C12 — basic lemmas: list update, finite sums over index lists, the real-number instance of the
   distance and of the pruning test (the geometric lemma). *)
From Coq Require Import List ZArith Bool Arith Lia Reals Lra Permutation.
From SC Require Import Base.Num C12.Model.
Import ListNotations.

(* ---------- upd ---------- *)
Lemma upd_length {A} (l : list A) i v : length (upd l i v) = length l.
Proof. revert i; induction l as [|a l IH]; intros [|i]; simpl; auto. Qed.
Lemma nth_upd_eq {A} (l : list A) i v d : i < length l -> nth i (upd l i v) d = v.
Proof. revert i; induction l as [|a l IH]; intros [|i] H; simpl in *; try lia; auto. apply IH; lia. Qed.
Lemma nth_upd_neq {A} (l : list A) i j v d : i <> j -> nth j (upd l i v) d = nth j l d.
Proof.
  revert i j; induction l as [|a l IH]; intros [|i] [|j] H; simpl; auto; try congruence.
Qed.

(* ---------- sums over lists of indices ---------- *)
Open Scope R_scope.

Fixpoint lsum (f : nat -> R) (l : list nat) : R :=
  match l with [] => 0 | r :: t => f r + lsum f t end.

Lemma lsum_ext f g l : (forall r, In r l -> f r = g r) -> lsum f l = lsum g l.
Proof.
  induction l as [|a l IH]; intros H; simpl; auto.
  rewrite (H a) by (now left). rewrite IH; auto. intros; apply H; now right.
Qed.
Lemma lsum_app f l1 l2 : lsum f (l1 ++ l2) = lsum f l1 + lsum f l2.
Proof. induction l1; simpl; [ring | rewrite IHl1; ring]. Qed.
Lemma lsum_plus f g l : lsum (fun r => f r + g r) l = lsum f l + lsum g l.
Proof. induction l; simpl; [ring | rewrite IHl; ring]. Qed.
Lemma lsum_scal c f l : lsum (fun r => c * f r) l = c * lsum f l.
Proof. induction l; simpl; [ring | rewrite IHl; ring]. Qed.
Lemma lsum_zero l : lsum (fun _ => 0) l = 0.
Proof. induction l; simpl; [ring | rewrite IHl; ring]. Qed.
Lemma lsum_const c l : lsum (fun _ => c) l = INR (length l) * c.
Proof.
  induction l as [|a l IH]; [simpl; ring|].
  change (length (a :: l)) with (S (length l)). rewrite S_INR. simpl. rewrite IH. ring.
Qed.
Lemma lsum_swap (g : nat -> nat -> R) l1 l2 :
  lsum (fun r => lsum (g r) l2) l1 = lsum (fun q => lsum (fun r => g r q) l1) l2.
Proof.
  induction l1 as [|a l1 IH]; simpl.
  - now rewrite lsum_zero.
  - rewrite IH, <- lsum_plus. reflexivity.
Qed.
Lemma lsum_perm f l l' : Permutation l l' -> lsum f l = lsum f l'.
Proof. induction 1; simpl; try lra. Qed.
Lemma lsum_map f (h : nat -> nat) l : lsum f (map h l) = lsum (fun r => f (h r)) l.
Proof. induction l; simpl; [reflexivity | now rewrite IHl]. Qed.
Lemma lsum_seq_S f n : lsum f (seq 0 (S n)) = f 0%nat + lsum (fun q => f (S q)) (seq 0 n).
Proof. simpl. f_equal. rewrite <- seq_shift. apply lsum_map. Qed.
Lemma lsum_nonneg f l : (forall r, In r l -> 0 <= f r) -> 0 <= lsum f l.
Proof.
  induction l as [|a l IH]; intros H; simpl; [lra|].
  assert (0 <= f a) by (apply H; now left).
  assert (0 <= lsum f l) by (apply IH; intros; apply H; now right). lra.
Qed.
Lemma lsum_le f g l : (forall r, In r l -> f r <= g r) -> lsum f l <= lsum g l.
Proof.
  induction l as [|a l IH]; intros H; simpl; [lra|].
  assert (f a <= g a) by (apply H; now left).
  assert (lsum f l <= lsum g l) by (apply IH; intros; apply H; now right). lra.
Qed.

(* number of elements satisfying a boolean predicate *)
Fixpoint lcount (p : nat -> bool) (l : list nat) : nat :=
  match l with [] => 0%nat | r :: t => ((if p r then 1 else 0) + lcount p t)%nat end.
Lemma lcount_ext p p' l : (forall r, In r l -> p r = p' r) -> lcount p l = lcount p' l.
Proof.
  induction l as [|a l IH]; intros H; simpl; auto.
  rewrite (H a) by (now left). rewrite IH; auto. intros; apply H; now right.
Qed.
Lemma lcount_app p l1 l2 : lcount p (l1 ++ l2) = (lcount p l1 + lcount p l2)%nat.
Proof. induction l1; simpl; [reflexivity | rewrite IHl1; lia]. Qed.
Lemma lcount_true l : lcount (fun _ => true) l = length l.
Proof. induction l; simpl; auto. Qed.
Lemma lcount_false l : lcount (fun _ => false) l = 0%nat.
Proof. induction l; simpl; auto. Qed.
Lemma lcount_perm p l l' : Permutation l l' -> lcount p l = lcount p l'.
Proof. induction 1; simpl; try lia. Qed.

(* ---------- the real instance ---------- *)
Lemma oofnat_R n : oofnat ROps n = INR n.
Proof. unfold oofnat. cbn [oofZ ROps]. symmetry. apply INR_IZR_INZ. Qed.
Lemma two_R : two ROps = 2.
Proof. reflexivity. Qed.

Lemma sqdist_acc_R x y acc : sqdist_acc ROps x y acc = acc + sqdist ROps x y.
Proof.
  unfold sqdist. revert y acc; induction x as [|a x IH]; intros [|b y] acc; cbn [sqdist_acc]; try (cbn; ring).
  rewrite IH. rewrite (IH y (oadd ROps _ _)). cbn [oadd osub omul o0 ROps]. ring.
Qed.
Lemma sqdist_cons a x b y : sqdist ROps (a :: x) (b :: y) = (a - b) * (a - b) + sqdist ROps x y.
Proof. unfold sqdist at 1. cbn [sqdist_acc]. rewrite sqdist_acc_R. cbn [oadd osub omul o0 ROps]. ring. Qed.
Lemma sqdist_nil_l y : sqdist ROps [] y = 0.
Proof. reflexivity. Qed.
Lemma sqdist_nonneg x y : 0 <= sqdist ROps x y.
Proof.
  revert y; induction x as [|a x IH]; intros [|b y]; try (cbn; lra).
  rewrite sqdist_cons. specialize (IH y). pose proof (Rle_0_sqr (a - b)) as Hs. unfold Rsqr in Hs. lra.
Qed.
Lemma sqdist_lsum x y : length x = length y ->
  sqdist ROps x y = lsum (fun q => (nth q x 0 - nth q y 0) * (nth q x 0 - nth q y 0)) (seq 0 (length x)).
Proof.
  revert y; induction x as [|a x IH]; intros [|b y] H; simpl in H; try discriminate; [reflexivity|].
  rewrite sqdist_cons. change (length (a :: x)) with (S (length x)). rewrite lsum_seq_S.
  cbn [nth]. rewrite IH by lia. reflexivity.
Qed.

(* ---------- the geometric lemma behind BBDTree::prune ---------- *)
Lemma prune_loop_sound : forall center radius best test x lhs rhs L Rr,
  length center = length x -> length radius = length x ->
  length best = length x -> length test = length x ->
  in_box ROps 0 center radius x = true ->
  prune_loop ROps center radius best test lhs rhs = (L, Rr) ->
  (L - lhs) - 2 * (Rr - rhs) <= sqdist ROps x test - sqdist ROps x best.
Proof.
  induction center as [|c cs IH]; intros radius best test x lhs rhs L Rr Hc Hr Hb Ht Hbox Hloop.
  - destruct x; simpl in Hc; try discriminate.
    cbn in Hloop. inversion Hloop; subst. rewrite !sqdist_nil_l. lra.
  - destruct x as [|v vs]; simpl in Hc; try discriminate.
    destruct radius as [|r rs]; simpl in Hr; try discriminate.
    destruct best as [|b bs]; simpl in Hb; try discriminate.
    destruct test as [|t ts]; simpl in Ht; try discriminate.
    cbn [in_box] in Hbox. apply andb_true_iff in Hbox as [Hbox Hrest].
    apply andb_true_iff in Hbox as [Hlo Hhi].
    cbn [oleb osub oadd ROps] in Hlo, Hhi. apply Rleb_true in Hlo. apply Rleb_true in Hhi.
    cbn [prune_loop] in Hloop.
    apply IH with (x := vs) in Hloop; try lia; auto.
    rewrite !sqdist_cons.
    cbn [oltb oadd osub omul o0 ROps] in Hloop.
    destruct (Rltb 0 (t - b)) eqn:Hd.
    + apply Rltb_true in Hd. nra.
    + apply Rltb_false in Hd. nra.
Qed.

Lemma prune_sound : forall center radius centroids best test x,
  length center = length x -> length radius = length x ->
  length (nth best centroids []) = length x -> length (nth test centroids []) = length x ->
  in_box ROps 0 center radius x = true ->
  prune ROps center radius centroids best test = true ->
  sqdist ROps x (nth best centroids []) <= sqdist ROps x (nth test centroids []).
Proof.
  intros center radius centroids best test x Hc Hr Hb Ht Hbox Hp.
  unfold prune in Hp. destruct (Nat.eqb best test); [discriminate|].
  destruct (prune_loop ROps center radius (nth best centroids []) (nth test centroids []) (o0 ROps) (o0 ROps))
    as [L Rr] eqn:Hloop.
  cbn [oleb omul ROps] in Hp. rewrite two_R in Hp. apply Rleb_true in Hp.
  pose proof (prune_loop_sound _ _ _ _ _ _ _ _ _ Hc Hr Hb Ht Hbox Hloop) as H.
  cbn [o0 ROps] in H. lra.
Qed.

(* prune never removes the candidate it compares against *)
Lemma prune_self {T} (O : Ops T) center radius centroids b : prune O center radius centroids b b = false.
Proof. unfold prune. now rewrite Nat.eqb_refl. Qed.
