(* C12 — what a well-formed tree caches: sums, counts and the node_cost identity
   node_cost(node, c) = sum over the node's rows of |x - c|^2   (exact arithmetic). *)
From Coq Require Import List ZArith Bool Arith Lia Reals Lra Permutation.
From SC Require Import Base.Num C12.Model C12.ProofsBase.
Import ListNotations.
Open Scope R_scope.

Lemma nth_map0 (f : R -> R) l q : f 0 = 0 -> nth q (map f l) 0 = f (nth q l 0).
Proof. intros H. rewrite <- H at 1. apply map_nth. Qed.

Lemma all2_eqb_R a b : all2 (oeqb ROps) a b = true -> a = b.
Proof.
  revert b; induction a as [|x a IH]; intros [|y b] H; simpl in H; try discriminate; auto.
  apply andb_true_iff in H as [H1 H2]. cbn [oeqb ROps] in H1. apply Reqb_true in H1. f_equal; auto.
Qed.

Lemma vadd_length {T} (O : Ops T) a b : length (vadd O a b) = length a.
Proof. revert b; induction a as [|x a IH]; intros [|y b]; simpl; auto. Qed.
Lemma vadd_nth a b q : length a = length b -> nth q (vadd ROps a b) 0 = nth q a 0 + nth q b 0.
Proof.
  revert b q; induction a as [|x a IH]; intros [|y b] q H; simpl in H; try discriminate.
  - destruct q; simpl; ring.
  - destruct q; cbn [vadd nth]; [reflexivity | apply IH; lia].
Qed.

Lemma scatter_loop_R sum c cnt acc : length sum = length c ->
  scatter_loop ROps sum c cnt acc =
  acc + lsum (fun q => (nth q sum 0 / cnt - nth q c 0) * (nth q sum 0 / cnt - nth q c 0)) (seq 0 (length sum)).
Proof.
  revert c acc; induction sum as [|s sum IH]; intros [|x c] acc H; simpl in H; try discriminate.
  - simpl. ring.
  - cbn [scatter_loop]. rewrite IH by lia. change (length (s :: sum)) with (S (length sum)).
    rewrite lsum_seq_S. cbn [nth oadd osub omul odiv ROps]. ring.
Qed.

(* sum_r (f r - c)^2 = sum_r (f r - m)^2 + 2 (m - c) (sum_r f r - n m) + n (m - c)^2 *)
Lemma sq_shift (f : nat -> R) rs m c :
  lsum (fun r => (f r - c) * (f r - c)) rs =
  lsum (fun r => (f r - m) * (f r - m)) rs + 2 * (m - c) * (lsum f rs - INR (length rs) * m)
  + INR (length rs) * ((m - c) * (m - c)).
Proof.
  induction rs as [|a rs IH]; [simpl; ring|].
  change (length (a :: rs)) with (S (length rs)). rewrite S_INR. simpl. rewrite IH. ring.
Qed.
Lemma var_id (f : nat -> R) rs c :
  (1 <= length rs)%nat ->
  let m := lsum f rs / INR (length rs) in
  lsum (fun r => (f r - c) * (f r - c)) rs =
  lsum (fun r => (f r - m) * (f r - m)) rs + INR (length rs) * ((m - c) * (m - c)).
Proof.
  intros Hn m. rewrite (sq_shift f rs m c).
  assert (Hn0 : INR (length rs) <> 0) by (apply not_0_INR; lia).
  replace (lsum f rs - INR (length rs) * m) with 0; [ring|].
  unfold m. field. exact Hn0.
Qed.

Section Tree.
  Variables (data : list (list R)) (perm : list nat) (d : nat).
  Definition row (r : nat) : list R := nth r data [].
  Definition X (r q : nat) : R := nth q (row r) 0.
  Definition rows (t : bbd (T := R)) : list nat := rows_of perm (info_of t).

  Definition sum_inv (i : info (T := R)) (rs : list nat) : Prop :=
    forall q, (q < d)%nat -> nth q (n_sum i) 0 = lsum (fun r => X r q) rs.
  Definition cost_inv (i : info (T := R)) (rs : list nat) : Prop :=
    n_cost i =
    lsum (fun r => lsum (fun q => (X r q - nth q (n_sum i) 0 / INR (n_count i)) *
                                  (X r q - nth q (n_sum i) 0 / INR (n_count i))) (seq 0 d)) rs.

  Lemma rows_length t : length (rows t) = n_count (info_of t).
  Proof. unfold rows, rows_of. now rewrite map_length, seq_length. Qed.

  Lemma info_shape_lens (i : info (T := R)) : info_shape d i = true ->
    length (n_center i) = d /\ length (n_radius i) = d /\ length (n_sum i) = d.
  Proof.
    unfold info_shape. intros H. apply andb_true_iff in H as [H H3]. apply andb_true_iff in H as [H1 H2].
    apply Nat.eqb_eq in H1, H2, H3. auto.
  Qed.

  (* the identity behind node_cost *)
  Lemma node_cost_id i rs c :
    info_shape d i = true -> length rs = n_count i -> (1 <= n_count i)%nat ->
    (forall r, In r rs -> length (row r) = d) -> length c = d ->
    sum_inv i rs -> cost_inv i rs ->
    node_cost ROps i c = lsum (fun r => sqdist ROps (row r) c) rs.
  Proof.
    intros Hsh Hlen Hn Hrows Hc Hsum Hcost.
    destruct (info_shape_lens _ Hsh) as (_ & _ & Hls).
    unfold node_cost. rewrite oofnat_R. rewrite scatter_loop_R by lia.
    cbn [oadd omul o0 ROps]. rewrite Hls. rewrite Hcost.
    rewrite (lsum_ext (fun r => sqdist ROps (row r) c)
                      (fun r => lsum (fun q => (X r q - nth q c 0) * (X r q - nth q c 0)) (seq 0 d))).
    2:{ intros r Hr. rewrite sqdist_lsum by (rewrite Hrows; auto). rewrite Hrows by auto. reflexivity. }
    rewrite (lsum_swap (fun r q => (X r q - nth q c 0) * (X r q - nth q c 0))).
    rewrite (lsum_swap (fun r q => (X r q - nth q (n_sum i) 0 / INR (n_count i)) *
                                   (X r q - nth q (n_sum i) 0 / INR (n_count i)))).
    rewrite Rplus_0_l, <- lsum_scal, <- lsum_plus.
    apply lsum_ext. intros q Hq. apply in_seq in Hq.
    pose proof (var_id (fun r => X r q) rs (nth q c 0)) as V. cbv zeta in V.
    rewrite Hlen in V. rewrite (Hsum q) by lia. rewrite V by lia. reflexivity.
  Qed.

  Lemma split_rows i lo up :
    n_count i = (n_count (info_of lo) + n_count (info_of up))%nat ->
    n_index (info_of lo) = n_index i -> n_index (info_of up) = (n_index i + n_count (info_of lo))%nat ->
    rows (Split i lo up) = rows lo ++ rows up.
  Proof.
    intros H1 H2 H3. unfold rows, rows_of. cbn [info_of]. rewrite H1, H2, H3.
    rewrite seq_app, map_app. reflexivity.
  Qed.

  Lemma wf_split_facts i lo up :
    wf_tree ROps 0 data perm d (Split i lo up) = true ->
    info_shape d i = true /\
    rows (Split i lo up) = rows lo ++ rows up /\
    n_count i = (n_count (info_of lo) + n_count (info_of up))%nat /\
    (forall r, In r (rows (Split i lo up)) -> in_box ROps 0 (n_center i) (n_radius i) (row r) = true) /\
    n_sum i = vadd ROps (n_sum (info_of lo)) (n_sum (info_of up)) /\
    n_cost i = node_cost ROps (info_of lo) (map (fun s => s / INR (n_count i)) (n_sum i)) +
               node_cost ROps (info_of up) (map (fun s => s / INR (n_count i)) (n_sum i)) /\
    wf_tree ROps 0 data perm d lo = true /\ wf_tree ROps 0 data perm d up = true.
  Proof.
    intros H. cbn [wf_tree] in H.
    apply andb_true_iff in H as [H Hwu]. apply andb_true_iff in H as [H Hwl].
    apply andb_true_iff in H as [H Hcost]. apply andb_true_iff in H as [H Hsum].
    apply andb_true_iff in H as [H Hbox]. apply andb_true_iff in H as [H Hiu].
    apply andb_true_iff in H as [H Hil]. apply andb_true_iff in H as [Hsh Hcnt].
    apply Nat.eqb_eq in Hiu, Hil, Hcnt.
    split; [assumption|]. split; [apply split_rows; lia|]. split; [lia|].
    split; [| split; [| split; [| split]]]; try assumption.
    - intros r Hr. rewrite forallb_forall in Hbox. apply Hbox. exact Hr.
    - apply all2_eqb_R. assumption.
    - cbn [oeqb oadd odiv ROps] in Hcost. apply Reqb_true in Hcost. rewrite oofnat_R in Hcost. exact Hcost.
  Qed.

  Lemma wf_inv : forall t,
    wf_tree ROps 0 data perm d t = true ->
    (forall r, In r (rows t) -> length (row r) = d) ->
    info_shape d (info_of t) = true /\ (1 <= n_count (info_of t))%nat /\
    sum_inv (info_of t) (rows t) /\ cost_inv (info_of t) (rows t).
  Proof.
    induction t as [i | i lo IHlo up IHup]; intros Hwf Hrows.
    - (* leaf *)
      cbn [wf_tree] in Hwf.
      apply andb_true_iff in Hwf as [Hwf Hcost]. apply andb_true_iff in Hwf as [Hwf Hsum].
      apply andb_true_iff in Hwf as [Hwf Hall]. apply andb_true_iff in Hwf as [Hwf Hsh].
      apply Nat.leb_le in Hwf. cbn [info_of].
      destruct (info_shape_lens _ Hsh) as (Hlc & _ & Hls).
      assert (Heq : forall r, In r (rows (Leaf i)) -> row r = n_center i).
      { intros r Hr. rewrite forallb_forall in Hall. apply all2_eqb_R. apply Hall. exact Hr. }
      assert (Hfirst : In (nth (n_index i) perm 0%nat) (rows (Leaf i))).
      { unfold rows, rows_of. cbn [info_of]. apply in_map_iff. exists (n_index i). split; auto.
        apply in_seq. lia. }
      apply all2_eqb_R in Hsum.
      change (nth (nth (n_index i) perm 0%nat) data []) with (row (nth (n_index i) perm 0%nat)) in Hsum.
      rewrite (Heq _ Hfirst) in Hsum.
      assert (Hsq : forall q, nth q (n_sum i) 0 = INR (n_count i) * nth q (n_center i) 0).
      { intros q. rewrite Hsum. destruct (1 <? n_count i)%nat eqn:E.
        - rewrite nth_map0 by (cbn [omul ROps]; ring). rewrite oofnat_R. cbn [omul ROps]. ring.
        - apply Nat.ltb_ge in E. replace (n_count i) with 1%nat by lia. simpl. ring. }
      cbn [oeqb o0 ROps] in Hcost. apply Reqb_true in Hcost.
      assert (Hn0 : INR (n_count i) <> 0) by (apply not_0_INR; lia).
      split; [assumption|]. split; [assumption|]. split.
      + intros q Hq. rewrite Hsq.
        rewrite (lsum_ext _ (fun _ => nth q (n_center i) 0)).
        * rewrite lsum_const, rows_length. reflexivity.
        * intros r Hr. unfold X. now rewrite (Heq r Hr).
      + unfold cost_inv. rewrite Hcost. symmetry.
        rewrite (lsum_ext _ (fun _ => 0)); [apply lsum_zero|].
        intros r Hr. rewrite (lsum_ext _ (fun _ => 0)); [apply lsum_zero|].
        intros q Hq. unfold X. rewrite (Heq r Hr), Hsq. field. exact Hn0.
    - (* split *)
      destruct (wf_split_facts _ _ _ Hwf) as (Hsh & Hrs & Hcnt & _ & Hsum & Hcost & Hwl & Hwu).
      cbn [info_of].
      assert (Hrl : forall r, In r (rows lo) -> length (row r) = d).
      { intros r Hr. apply Hrows. rewrite Hrs. apply in_or_app. now left. }
      assert (Hru : forall r, In r (rows up) -> length (row r) = d).
      { intros r Hr. apply Hrows. rewrite Hrs. apply in_or_app. now right. }
      destruct (IHlo Hwl Hrl) as (Hshl & Hnl & Hsl & Hcl).
      destruct (IHup Hwu Hru) as (Hshu & Hnu & Hsu & Hcu).
      destruct (info_shape_lens _ Hshl) as (_ & _ & Hlsl).
      destruct (info_shape_lens _ Hshu) as (_ & _ & Hlsu).
      destruct (info_shape_lens _ Hsh) as (_ & _ & Hls).
      assert (Hsi : sum_inv i (rows (Split i lo up))).
      { intros q Hq. rewrite Hsum, vadd_nth by lia. rewrite Hrs, lsum_app, <- Hsl, <- Hsu by lia. reflexivity. }
      split; [assumption|]. split; [lia|]. split; [exact Hsi|].
      unfold cost_inv. rewrite Hcost.
      set (mean := map (fun s => s / INR (n_count i)) (n_sum i)).
      assert (Hlm : length mean = d) by (unfold mean; now rewrite map_length).
      rewrite (node_cost_id (info_of lo) (rows lo) mean); auto using rows_length.
      rewrite (node_cost_id (info_of up) (rows up) mean); auto using rows_length.
      rewrite <- lsum_app, <- Hrs. apply lsum_ext. intros r Hr.
      rewrite sqdist_lsum by (rewrite Hrows; auto). rewrite Hrows by auto.
      apply lsum_ext. intros q Hq. unfold mean.
      rewrite nth_map0 by (unfold Rdiv; ring). reflexivity.
  Qed.

  (* node_cost on any well-formed subtree is the true cost of attaching all its rows to c *)
  Lemma wf_node_cost t c :
    wf_tree ROps 0 data perm d t = true ->
    (forall r, In r (rows t) -> length (row r) = d) -> length c = d ->
    node_cost ROps (info_of t) c = lsum (fun r => sqdist ROps (row r) c) (rows t).
  Proof.
    intros Hwf Hrows Hc. destruct (wf_inv t Hwf Hrows) as (Hsh & Hn & Hs & Hco).
    apply node_cost_id; auto using rows_length.
  Qed.
End Tree.
