(* C12 — top-level statements: the assignment step (`clustering`) on a well-formed tree, the Lloyd
   bookkeeping of `fit`, and `predict`. *)
From Coq Require Import List ZArith Bool Arith Lia Reals Lra Permutation.
From SC Require Import Base.Num C12.Model C12.ProofsBase C12.ProofsTree C12.ProofsFilter.
Import ListNotations.
Open Scope R_scope.

Lemma is_perm_Permutation n perm : is_perm n perm = true -> Permutation perm (seq 0 n).
Proof.
  unfold is_perm. intros H. apply andb_true_iff in H as [Hl Hall]. apply Nat.eqb_eq in Hl.
  rewrite forallb_forall in Hall.
  assert (Hincl : incl (seq 0 n) perm).
  { intros i Hi. specialize (Hall i Hi). apply existsb_exists in Hall as (x & Hx & E).
    apply Nat.eqb_eq in E. now subst. }
  apply Permutation_sym. apply NoDup_Permutation_bis; auto using seq_NoDup. rewrite seq_length; lia.
Qed.

Lemma map_nth_seq (l : list nat) : map (fun p => nth p l 0%nat) (seq 0 (length l)) = l.
Proof.
  induction l as [|a l IH]; [reflexivity|].
  change (length (a :: l)) with (S (length l)). cbn [seq map nth]. f_equal.
  rewrite <- seq_shift, map_map. exact IH.
Qed.

Lemma nth_map_const0 (l : list nat) c : nth c (map (fun _ : nat => 0%nat) l) 0%nat = 0%nat.
Proof. revert c; induction l; intros [|c]; simpl; auto. Qed.

Lemma wf_tree_shape data perm d (t : bbd (T := R)) :
  wf_tree ROps 0 data perm d t = true -> info_shape d (info_of t) = true.
Proof.
  destruct t as [i | i lo up]; intros H.
  - cbn [wf_tree] in H. apply andb_true_iff in H as [H _]. apply andb_true_iff in H as [H _].
    apply andb_true_iff in H as [H _]. apply andb_true_iff in H as [_ H]. exact H.
  - apply (wf_split_facts data perm d i lo up H).
Qed.

Lemma tree_shape_root d np nm perm (t : bbd (T := R)) :
  tree_shape d np nm perm t = true ->
  info_shape d (info_of t) = true /\
  forall r, In r (rows perm t) -> (r < nm)%nat.
Proof.
  intros H.
  assert (H' : info_shape d (info_of t) = true /\
               forallb (fun p => (nth p perm 0 <? nm)%nat) (seq (n_index (info_of t)) (n_count (info_of t))) = true).
  { destruct t; cbn [tree_shape info_of] in *.
    - apply andb_true_iff in H as [H _]. apply andb_true_iff in H as [H H2].
      apply andb_true_iff in H as [H _]. auto.
    - apply andb_true_iff in H as [H _]. apply andb_true_iff in H as [H H2].
      apply andb_true_iff in H as [H _]. auto. }
  destruct H' as [H1 H2]. split; [exact H1|].
  intros r Hr. unfold rows, rows_of in Hr. apply in_map_iff in Hr as (p & <- & Hp).
  rewrite forallb_forall in H2. apply Nat.ltb_lt. apply H2. exact Hp.
Qed.

(* the assignment of row r under a membership vector *)
Definition asg (memb : list nat) (r : nat) : nat := nth r memb 0%nat.

Definition assignment_exact (data centroids : list (list R)) (dist : R) (sums' : list (list R))
           (counts' memb' : list nat) : Prop :=
  let n := length data in
  let k := length centroids in
  let d := length (hd [] data) in
  (* every row is attached to one of its nearest centroids *)
  (forall r, (r < n)%nat ->
     (asg memb' r < k)%nat /\
     forall j, (j < k)%nat ->
       sqdist ROps (nth r data []) (nth (asg memb' r) centroids []) <= sqdist ROps (nth r data []) (nth j centroids [])) /\
  (* sums and counts are those of that assignment *)
  (forall c q, (c < k)%nat -> (q < d)%nat ->
     nth q (nth c sums' []) 0 =
     lsum (fun r => if (asg memb' r =? c)%nat then nth q (nth r data []) 0 else 0) (seq 0 n)) /\
  (forall c, (c < k)%nat -> nth c counts' 0%nat = lcount (fun r => (asg memb' r =? c)%nat) (seq 0 n)) /\
  length sums' = k /\ length counts' = k /\
  (* the returned value is its distortion *)
  dist = lsum (fun r => sqdist ROps (nth r data []) (nth (asg memb' r) centroids [])) (seq 0 n).

Lemma clustering_exact : forall data perm t centroids sums counts memb dist sums' counts' memb',
  wf_bbd ROps 0 data perm t = true ->
  clustering ROps perm centroids t (sums, counts, memb) = Some (dist, (sums', counts', memb')) ->
  length memb' = length memb /\ assignment_exact data centroids dist sums' counts' memb'.
Proof.
  intros data perm t centroids sums counts memb dist sums' counts' memb' Hwf Hcl.
  unfold wf_bbd in Hwf.
  apply andb_true_iff in Hwf as [Hwf Hwt]. apply andb_true_iff in Hwf as [Hwf Hcnt].
  apply andb_true_iff in Hwf as [Hwf Hidx]. apply andb_true_iff in Hwf as [Hwf Hperm].
  apply andb_true_iff in Hwf as [Hn Hlens].
  apply Nat.eqb_eq in Hcnt, Hidx. apply Nat.leb_le in Hn.
  set (n := length data) in *. set (d := length (hd [] data)) in *.
  pose proof (is_perm_Permutation n perm Hperm) as HP.
  assert (Hlp : length perm = n) by (rewrite (Permutation_length HP); apply seq_length).
  assert (Hrows : rows perm t = perm).
  { unfold rows, rows_of. rewrite Hidx, Hcnt, <- Hlp. apply map_nth_seq. }
  assert (Hnd : NoDup perm) by (apply (Permutation_NoDup (Permutation_sym HP)); apply seq_NoDup).
  assert (Hpn : forall r, In r perm -> (r < n)%nat).
  { intros r Hr. apply (Permutation_in _ HP) in Hr. apply in_seq in Hr. lia. }
  assert (Hrl : forall r, (r < n)%nat -> length (nth r data []) = d).
  { intros r Hr. rewrite forallb_forall in Hlens. apply Nat.eqb_eq. apply Hlens. apply nth_In. exact Hr. }
  unfold clustering in Hcl. destruct (shape_ok perm centroids t (sums, counts, memb)) eqn:Hsh; [|discriminate].
  inversion Hcl as [Hf]. clear Hcl.
  unfold shape_ok in Hsh.
  apply andb_true_iff in Hsh as [Hsh Hts]. apply andb_true_iff in Hsh as [Hsh Hlc].
  apply andb_true_iff in Hsh as [Hsh Hsl]. apply andb_true_iff in Hsh as [Hsh Hls].
  apply andb_true_iff in Hsh as [Hk Hcl]. apply Nat.leb_le in Hk. apply Nat.eqb_eq in Hls, Hlc.
  set (k := length centroids) in *. set (d' := length (hd [] centroids)) in *.
  destruct (tree_shape_root _ _ _ _ _ Hts) as [Hsh' Hmemb].
  pose proof (wf_tree_shape _ _ _ _ Hwt) as Hshd.
  assert (Hdd : d' = d).
  { destruct (info_shape_lens d' _ Hsh') as (A & _). destruct (info_shape_lens d _ Hshd) as (B & _). lia. }
  assert (Hcd : forall c, (c < k)%nat -> length (nth c centroids []) = d).
  { intros c Hc. rewrite forallb_forall in Hcl. rewrite <- Hdd. apply Nat.eqb_eq. apply Hcl. apply nth_In. exact Hc. }
  set (s0 := (map (map (fun _ : R => o0 ROps)) sums, map (fun _ : nat => 0%nat) counts, memb)) in *.
  assert (Hst : st_ok d k (length memb) s0).
  { unfold st_ok, s0, sums_of, counts_of, memb_of. cbn [fst snd]. rewrite !map_length.
    repeat split; auto. intros c Hc.
    change (@nil R) with (map (fun _ : R => o0 ROps) []). rewrite map_nth, map_length.
    rewrite forallb_forall in Hsl. rewrite <- Hdd. apply Nat.eqb_eq. apply Hsl. apply nth_In. lia. }
  destruct (filter_spec data perm d centroids k (length memb) eq_refl Hcd t (seq 0 k) s0 Hwt) as [P N].
  - rewrite Hrows. intros r Hr. split.
    + apply Hmemb. rewrite Hrows. exact Hr.
    + apply Hrl. apply Hpn. exact Hr.
  - rewrite Hrows. exact Hnd.
  - destruct k; [lia | discriminate].
  - intros c Hc. apply in_seq in Hc. lia.
  - intros r j _ Hj. exists j. split; [apply in_seq; lia | lra].
  - exact Hst.
  - assert (Hf' : filter ROps perm centroids t (seq 0 k) s0 = (dist, (sums', counts', memb'))) by exact Hf.
    rewrite Hf' in P, N. cbn [fst snd] in P, N. rewrite Hrows in P, N.
    destruct P as (S' & _ & Psum & Pcnt & Pdist).
    destruct S' as (L1 & _ & L3 & L4).
    unfold sums_of, counts_of, memb_of, lab in *. cbn [fst snd] in *.
    split; [exact L4|].
    unfold assignment_exact, asg. fold n k d.
    split; [|split; [|split; [|split; [|split]]]]; auto.
    + intros r Hr. apply N. apply (Permutation_in _ (Permutation_sym HP)). apply in_seq. lia.
    + intros c q Hc Hq. rewrite (Psum c q Hc Hq).
      unfold s0. cbn [fst snd].
      change (@nil R) with (map (fun _ : R => o0 ROps) []). rewrite map_nth.
      rewrite nth_map0 by reflexivity. cbn [o0 ROps]. rewrite Rplus_0_l.
      apply lsum_perm. exact HP.
    + intros c Hc. rewrite (Pcnt c Hc). unfold s0. cbn [fst snd].
      replace (nth c (map (fun _ : nat => 0%nat) counts) 0%nat) with 0%nat.
      * simpl. apply lcount_perm. exact HP.
      * symmetry. apply nth_map_const0.
    + rewrite Pdist. apply lsum_perm. exact HP.
Qed.

(* the distortion returned is the smallest possible for these centroids: it is at most the
   distortion of ANY assignment of the rows to centroids (in particular of exhaustive search,
   whose distortion it therefore equals) *)
Lemma assignment_optimal data centroids dist sums' counts' memb' (a : nat -> nat) :
  assignment_exact data centroids dist sums' counts' memb' ->
  (forall r, (r < length data)%nat -> (a r < length centroids)%nat) ->
  dist <= lsum (fun r => sqdist ROps (nth r data []) (nth (a r) centroids [])) (seq 0 (length data)).
Proof.
  intros (Hn & _ & _ & _ & _ & Hd) Ha. rewrite Hd. apply lsum_le.
  intros r Hr. apply in_seq in Hr. apply Hn; [lia | apply Ha; lia].
Qed.

(* ---------- Lloyd iterations ---------- *)
Lemma update_centroids_length (cent sums : list (list R)) size :
  length (update_centroids ROps cent sums size) = length cent.
Proof.
  revert sums size; induction cent as [|c cent IH]; intros [|s sums] [|z size]; simpl; auto.
Qed.
Lemma update_centroids_nth : forall (cent sums : list (list R)) size c,
  (c < length cent)%nat -> (c < length sums)%nat -> (c < length size)%nat ->
  nth c (update_centroids ROps cent sums size) [] =
  if (0 <? nth c size 0)%nat then map (fun v => v / INR (nth c size 0%nat)) (nth c sums []) else nth c cent [].
Proof.
  induction cent as [|x cent IH]; intros [|s sums] [|z size] c H1 H2 H3; simpl in H1, H2, H3; try lia.
  destruct c as [|c]; cbn [update_centroids nth].
  - destruct (0 <? z)%nat; auto. rewrite oofnat_R. reflexivity.
  - apply IH; lia.
Qed.

Lemma lloyd_loop_last perm root : forall it cent sums size y distortion cent' size' y' dist',
  (1 <= it)%nat ->
  lloyd_loop ROps it perm root cent sums size y distortion = Some (cent', size', y', dist') ->
  exists cent0 sums0 size0 y0 dist0 sums1,
    clustering ROps perm cent0 root (sums0, size0, y0) = Some (dist0, (sums1, size', y')) /\
    cent' = update_centroids ROps cent0 sums1 size' /\
    length cent0 = length cent.
Proof.
  induction it as [|it IH]; intros cent sums size y distortion cent' size' y' dist' Hit H; [lia|].
  cbn [lloyd_loop] in H.
  destruct (clustering ROps perm cent root (sums, size, y)) as [[dist [[sums1 size1] y1]]|] eqn:Hc; [|discriminate].
  destruct (oleb ROps distortion dist).
  - inversion H; subst. exists cent, sums, size, y. do 2 eexists. split; [eassumption|]. split; reflexivity.
  - destruct it as [|it'].
    + cbn [lloyd_loop] in H. inversion H; subst. exists cent, sums, size, y. do 2 eexists. split; [eassumption|]. split; reflexivity.
    + apply IH in H; [|lia]. destruct H as (c0 & s0 & z0 & y0 & d0 & s1 & A & B & C).
      exists c0, s0, z0, y0, d0, s1. repeat split; auto. now rewrite C, update_centroids_length.
Qed.

Lemma init_acc_length k : forall (data : list (list R)) y size cent size' cent',
  init_acc ROps k data y size cent = Some (size', cent') ->
  length size' = length size /\ length cent' = length cent.
Proof.
  induction data as [|row data IH]; intros y size cent size' cent' H.
  - cbn [init_acc] in H. inversion H; auto.
  - destruct y as [|yi y]; cbn [init_acc] in H; [inversion H; auto|].
    destruct (yi <? k)%nat; [|discriminate].
    apply IH in H. rewrite !upd_length in H. exact H.
Qed.

Lemma map2_length {A B C} (f : A -> B -> C) a b : length (map2 f a b) = Nat.min (length a) (length b).
Proof. unfold map2. now rewrite map_length, combine_length. Qed.

(* sum over clusters of the per-cluster counts = number of rows *)
Fixpoint nsum (k : nat) (g : nat -> nat) : nat := match k with O => 0%nat | S j => (nsum j g + g j)%nat end.
Lemma nsum_plus k g h : nsum k (fun c => (g c + h c)%nat) = (nsum k g + nsum k h)%nat.
Proof. induction k; simpl; lia. Qed.
Lemma nsum_indicator k a : (a < k)%nat -> nsum k (fun c => if (a =? c)%nat then 1%nat else 0%nat) = 1%nat.
Proof.
  induction k as [|k IH]; intros H; [lia|]. simpl.
  destruct (Nat.eq_dec a k) as [->|Hne].
  - rewrite Nat.eqb_refl.
    assert (Hz : forall j, (j <= k)%nat -> nsum j (fun c => if (k =? c)%nat then 1%nat else 0%nat) = 0%nat).
    { induction j as [|j IHj]; intros Hj; simpl; auto. rewrite IHj by lia.
      destruct (Nat.eqb_spec k j); [lia | reflexivity]. }
    rewrite Hz by lia. reflexivity.
  - rewrite IH by lia. apply Nat.eqb_neq in Hne. now rewrite Hne.
Qed.
Lemma nsum_lcount k (f : nat -> nat) l :
  (forall r, In r l -> (f r < k)%nat) ->
  nsum k (fun c => lcount (fun r => (f r =? c)%nat) l) = length l.
Proof.
  induction l as [|a l IH]; intros H.
  - simpl. clear H. induction k as [|k IHk]; simpl; auto. rewrite IHk. reflexivity.
  - cbn [lcount length]. rewrite nsum_plus, IH by (intros; apply H; now right).
    rewrite nsum_indicator by (apply H; now left). reflexivity.
Qed.
Lemma list_sum_nsum (l : list nat) : list_sum l = nsum (length l) (fun c => nth c l 0%nat).
Proof.
  induction l as [|a l IH] using rev_ind; [reflexivity|].
  rewrite list_sum_app, app_length. replace (length l + length [a])%nat with (S (length l)) by (simpl; lia).
  change (list_sum [a]) with (a + 0)%nat. cbn [nsum].
  rewrite app_nth2, Nat.sub_diag by lia. cbn [nth]. rewrite IH.
  assert (E : forall j, (j <= length l)%nat -> nsum j (fun c => nth c (l ++ [a]) 0%nat) = nsum j (fun c => nth c l 0%nat)).
  { induction j as [|j IHj]; intros Hj; simpl; auto. rewrite IHj by lia. rewrite app_nth1 by lia. reflexivity. }
  rewrite E by lia. lia.
Qed.
Lemma nsum_ext k g h : (forall c, (c < k)%nat -> g c = h c) -> nsum k g = nsum k h.
Proof. induction k; intros H; simpl; auto. rewrite IHk, H; auto. Qed.

Definition bookkeeping (data : list (list R)) (k : nat) (m : kmeans (T := R)) : Prop :=
  let n := length data in
  let d := length (hd [] data) in
  let y := km_y m in
  km_k m = k /\ length (km_centroids m) = k /\ length (km_size m) = k /\
  (* the labels are cluster indices *)
  (forall r, (r < n)%nat -> (asg y r < k)%nat) /\
  (* sizes are the counts of the last assignment and sum to n *)
  (forall c, (c < k)%nat -> nth c (km_size m) 0%nat = lcount (fun r => (asg y r =? c)%nat) (seq 0 n)) /\
  list_sum (km_size m) = n /\
  (* a centroid with members is the mean of the rows last assigned to it *)
  (forall c q, (c < k)%nat -> (q < d)%nat -> (0 < nth c (km_size m) 0)%nat ->
     nth q (nth c (km_centroids m) []) 0 =
     lsum (fun r => if (asg y r =? c)%nat then nth q (nth r data []) 0 else 0) (seq 0 n)
     / INR (nth c (km_size m) 0%nat)).

Lemma lloyd_bookkeeping : forall maxv data perm root k max_iter y0 m,
  wf_bbd ROps 0 data perm root = true -> (1 <= max_iter)%nat ->
  lloyd ROps maxv data perm root k max_iter y0 = Some m ->
  bookkeeping data k m.
Proof.
  intros maxv data perm root k max_iter y0 m Hwf Hit H.
  unfold lloyd in H. destruct (negb (length y0 =? length data)%nat); [discriminate|].
  destruct (init_acc ROps k data y0 (repeat 0%nat k) (repeat (repeat (o0 ROps) (length (hd [] data))) k))
    as [[size csum]|] eqn:Hinit; [|discriminate].
  apply init_acc_length in Hinit. rewrite !repeat_length in Hinit. destruct Hinit as [Hls Hlc].
  match type of H with context [lloyd_loop ROps max_iter perm root ?c ?s size y0 maxv] =>
    set (cent := c) in *; set (sums := s) in * end.
  destruct (lloyd_loop ROps max_iter perm root cent sums size y0 maxv) as [[[[cent' size'] y'] dist']|] eqn:Hloop;
    [|discriminate].
  inversion H; subst m. clear H.
  destruct (lloyd_loop_last _ _ _ _ _ _ _ _ _ _ _ _ Hit Hloop) as (c0 & s0 & z0 & yy & d0 & s1 & Hcl & Hcent & Hlen).
  assert (Hk : length c0 = k).
  { rewrite Hlen. unfold cent. rewrite map2_length, Hls, Hlc. apply Nat.min_id. }
  destruct (clustering_exact _ _ _ _ _ _ _ _ _ _ _ Hwf Hcl) as [_ (Hn & Hs & Hc & L1 & L2 & _)].
  rewrite Hk in *.
  unfold bookkeeping. cbn [km_k km_y km_size km_centroids].
  split; [reflexivity|]. split; [rewrite Hcent, update_centroids_length; exact Hk|].
  split; [exact L2|]. split; [intros r Hr; apply Hn; exact Hr|]. split; [exact Hc|]. split.
  - rewrite list_sum_nsum, L2. rewrite (nsum_ext _ _ _ Hc).
    rewrite nsum_lcount; [apply seq_length|]. intros r Hr. apply in_seq in Hr. apply Hn. lia.
  - intros c q Hck Hq Hpos. rewrite Hcent, update_centroids_nth by lia.
    apply Nat.ltb_lt in Hpos. rewrite Hpos.
    rewrite nth_map0 by (unfold Rdiv; ring). rewrite (Hs c q Hck Hq). reflexivity.
Qed.

(* ---------- predict ---------- *)
Lemma predict_loop_spec (maxv : R) (row : list R) : forall cs all pre m b,
  all = pre ++ cs ->
  (forall j, (j < length pre)%nat -> m <= sqdist ROps row (nth j all [])) ->
  (m = maxv \/ ((b < length pre)%nat /\ m = sqdist ROps row (nth b all []))) ->
  (exists j, (j < length all)%nat /\ sqdist ROps row (nth j all []) < maxv) ->
  let r := predict_loop ROps row cs (length pre) m b in
  (r < length all)%nat /\ forall j, (j < length all)%nat -> sqdist ROps row (nth r all []) <= sqdist ROps row (nth j all []).
Proof.
  induction cs as [|c cs IH]; intros all pre m b Hall Hmin Hb Hex; cbn [predict_loop].
  - rewrite app_nil_r in Hall. subst all. cbv zeta.
    destruct Hb as [Hb|[Hb1 Hb2]].
    + exfalso. destruct Hex as (j & Hj & Hlt). specialize (Hmin j Hj). lra.
    + split; [exact Hb1|]. intros j Hj. rewrite <- Hb2. apply Hmin. exact Hj.
  - assert (Hc : nth (length pre) all [] = c) by (subst all; rewrite app_nth2, Nat.sub_diag by lia; reflexivity).
    assert (Hall' : all = (pre ++ [c]) ++ cs) by (rewrite <- app_assoc; exact Hall).
    assert (Hl : length (pre ++ [c]) = S (length pre)) by (rewrite app_length; simpl; lia).
    cbn [oltb ROps]. destruct (Rltb (sqdist ROps row c) m) eqn:E.
    + apply Rltb_true in E. rewrite <- Hl. apply IH; auto.
      * intros j Hj. rewrite Hl in Hj. destruct (Nat.eq_dec j (length pre)) as [->|Hne].
        -- rewrite Hc. lra.
        -- assert (j < length pre)%nat by lia. specialize (Hmin j H). lra.
      * right. rewrite Hl, Hc. split; [lia | reflexivity].
    + apply Rltb_false in E. rewrite <- Hl. apply IH; auto.
      * intros j Hj. rewrite Hl in Hj. destruct (Nat.eq_dec j (length pre)) as [->|Hne].
        -- rewrite Hc. lra.
        -- apply Hmin. lia.
      * destruct Hb as [Hb|[Hb1 Hb2]]; [now left | right]. rewrite Hl. split; [lia | exact Hb2].
Qed.

Lemma predict_nearest maxv cents row :
  (exists j, (j < length cents)%nat /\ sqdist ROps row (nth j cents []) < maxv) ->
  (predict_row ROps maxv cents row < length cents)%nat /\
  forall j, (j < length cents)%nat ->
    sqdist ROps row (nth (predict_row ROps maxv cents row) cents []) <= sqdist ROps row (nth j cents []).
Proof.
  intros Hex. unfold predict_row.
  apply (predict_loop_spec maxv row cents cents [] maxv 0%nat); auto.
  intros j Hj. simpl in Hj. lia.
Qed.
