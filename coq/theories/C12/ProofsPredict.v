(* C12 — KMeans::predict, the matrix form: the label of every query row is THE SMALLEST INDEX among
   the centroids at minimal squared Euclidean distance (arg-min with the tie-breaking of the code's
   strict `dist < min_dist`), and the same labels are obtained when the distances are compared
   after any strictly increasing function (sqrt: comparing squared distances is legitimate over R).

   Why the second statement is a theorem about R ONLY.  Over binary64 (or f32) sqrt is monotone but
   NOT injective: about every second pair of adjacent floats in [2^52, 2^53) * 4^e has the same
   correctly rounded square root.  If the squared distances of a row to its two nearest centroids
   are such a pair, `sqrt(d1) < sqrt(d2)` is false although `d1 < d2` is true, the strict `<` keeps
   the lower index and the row goes to the centroid that is farther.  So
   `predict_row_by sqrt = predict_row` holds at ROps and fails at FOps; a variant of predict that
   goes through `Distance::distance` (= squared_distance(..).sqrt()) is NOT bit-equivalent to the
   code (seeded/C12f_1/notes.md has concrete inputs: squared distances 7337166289745800 vs
   7337166289745801).  The implementation is tied to the model at FOps by the per-run
   correspondence group `predict` and by the search family predict-exact-near-tie, not by this
   theorem. *)
From Coq Require Import List ZArith Bool Arith Lia Reals Lra.
From SC Require Import Base.Num C12.Model C12.ProofsBase.
Import ListNotations.
Open Scope R_scope.

(* ---------- the arg-min loop ---------- *)
Lemma predict_loop_argmin (maxv : R) (row : list R) : forall cs all pre m b,
  all = pre ++ cs ->
  (forall j, (j < length pre)%nat -> m <= sqdist ROps row (nth j all [])) ->
  (m = maxv \/
   ((b < length pre)%nat /\ m = sqdist ROps row (nth b all []) /\
    forall j, (j < b)%nat -> sqdist ROps row (nth b all []) < sqdist ROps row (nth j all []))) ->
  (exists j, (j < length all)%nat /\ sqdist ROps row (nth j all []) < maxv) ->
  let r := predict_loop ROps row cs (length pre) m b in
  (r < length all)%nat /\
  (forall j, (j < length all)%nat -> sqdist ROps row (nth r all []) <= sqdist ROps row (nth j all [])) /\
  (forall j, (j < r)%nat -> sqdist ROps row (nth r all []) < sqdist ROps row (nth j all [])).
Proof.
  induction cs as [|c cs IH]; intros all pre m b Hall Hmin Hb Hex; cbn [predict_loop].
  - rewrite app_nil_r in Hall. subst all. cbv zeta.
    destruct Hb as [Hb|(Hb1 & Hb2 & Hb3)].
    + exfalso. destruct Hex as (j & Hj & Hlt). specialize (Hmin j Hj). lra.
    + split; [exact Hb1|]. split; [|exact Hb3]. intros j Hj. rewrite <- Hb2. apply Hmin. exact Hj.
  - assert (Hc : nth (length pre) all [] = c) by (subst all; rewrite app_nth2, Nat.sub_diag by lia; reflexivity).
    assert (Hall' : all = (pre ++ [c]) ++ cs) by (rewrite <- app_assoc; exact Hall).
    assert (Hl : length (pre ++ [c]) = S (length pre)) by (rewrite app_length; simpl; lia).
    cbn [oltb ROps]. destruct (Rltb (sqdist ROps row c) m) eqn:E.
    + apply Rltb_true in E. rewrite <- Hl. apply IH; auto.
      * intros j Hj. rewrite Hl in Hj. destruct (Nat.eq_dec j (length pre)) as [->|Hne].
        -- rewrite Hc. lra.
        -- assert (Hj' : (j < length pre)%nat) by lia. specialize (Hmin j Hj'). lra.
      * right. rewrite Hl, Hc. split; [lia|]. split; [reflexivity|].
        intros j Hj. specialize (Hmin j Hj). lra.
    + apply Rltb_false in E. rewrite <- Hl. apply IH; auto.
      * intros j Hj. rewrite Hl in Hj. destruct (Nat.eq_dec j (length pre)) as [->|Hne].
        -- rewrite Hc. lra.
        -- apply Hmin. lia.
      * destruct Hb as [Hb|(Hb1 & Hb2 & Hb3)]; [now left | right]. rewrite Hl.
        split; [lia|]. split; [exact Hb2 | exact Hb3].
Qed.

(* one row: index < k, at minimal squared distance, and the smallest such index *)
Lemma predict_row_argmin maxv cents row :
  (exists j, (j < length cents)%nat /\ sqdist ROps row (nth j cents []) < maxv) ->
  let b := predict_row ROps maxv cents row in
  (b < length cents)%nat /\
  (forall j, (j < length cents)%nat -> sqdist ROps row (nth b cents []) <= sqdist ROps row (nth j cents [])) /\
  (forall j, (j < b)%nat -> sqdist ROps row (nth b cents []) < sqdist ROps row (nth j cents [])).
Proof.
  intros Hex. unfold predict_row.
  apply (predict_loop_argmin maxv row cents cents [] maxv 0%nat); auto.
  intros j Hj. simpl in Hj. lia.
Qed.

(* equivalent reading of the third clause: no minimiser has a smaller index *)
Lemma predict_row_first_minimiser maxv cents row :
  (exists j, (j < length cents)%nat /\ sqdist ROps row (nth j cents []) < maxv) ->
  forall j, (j < length cents)%nat ->
    sqdist ROps row (nth j cents []) <= sqdist ROps row (nth (predict_row ROps maxv cents row) cents []) ->
    (predict_row ROps maxv cents row <= j)%nat.
Proof.
  intros Hex j Hj Hle. destruct (predict_row_argmin maxv cents row Hex) as (_ & _ & H3).
  destruct (le_lt_dec (predict_row ROps maxv cents row) j) as [H|H]; [exact H|].
  specialize (H3 j H). lra.
Qed.

(* ... and the label is determined by these three clauses (any index with them is the label) *)
Lemma predict_row_unique maxv cents row b' :
  (exists j, (j < length cents)%nat /\ sqdist ROps row (nth j cents []) < maxv) ->
  (b' < length cents)%nat ->
  (forall j, (j < length cents)%nat -> sqdist ROps row (nth b' cents []) <= sqdist ROps row (nth j cents [])) ->
  (forall j, (j < b')%nat -> sqdist ROps row (nth b' cents []) < sqdist ROps row (nth j cents [])) ->
  predict_row ROps maxv cents row = b'.
Proof.
  intros Hex Hb1 Hb2 Hb3. destruct (predict_row_argmin maxv cents row Hex) as (H1 & H2 & H3).
  set (b := predict_row ROps maxv cents row) in *.
  destruct (lt_eq_lt_dec b b') as [[H|H]|H]; [|exact H|].
  - specialize (Hb3 b H). specialize (H2 b' Hb1). lra.
  - specialize (H3 b' H). specialize (Hb2 b H1). lra.
Qed.

(* the matrix form: KMeans::predict on a query matrix x (list of rows) *)
Lemma predict_argmin maxv (m : kmeans (T := R)) (x : list (list R)) :
  let cents := firstn (km_k m) (km_centroids m) in
  (forall i, (i < length x)%nat ->
     exists j, (j < length cents)%nat /\ sqdist ROps (nth i x []) (nth j cents []) < maxv) ->
  length (predict ROps maxv m x) = length x /\
  forall i, (i < length x)%nat ->
    let b := nth i (predict ROps maxv m x) 0%nat in
    let row := nth i x [] in
    (b < length cents)%nat /\
    (forall j, (j < length cents)%nat -> sqdist ROps row (nth b cents []) <= sqdist ROps row (nth j cents [])) /\
    (forall j, (j < b)%nat -> sqdist ROps row (nth b cents []) < sqdist ROps row (nth j cents [])).
Proof.
  intros cents Hex. unfold predict. fold cents. split; [apply map_length|].
  intros i Hi. cbv zeta.
  rewrite (nth_indep _ 0%nat (predict_row ROps maxv cents [])) by (rewrite map_length; exact Hi).
  rewrite map_nth. apply predict_row_argmin. apply Hex. exact Hi.
Qed.

(* ---------- comparing after a strictly increasing function ---------- *)
(* the loop of predict with every distance (and the initial max_value) passed through `f` before it
   is compared: f = sqrt is `Distance::distance` in place of `Euclidian::squared_distance` *)
Fixpoint predict_loop_by (f : R -> R) (row : list R) (cents : list (list R)) (j : nat) (min_key : R) (best : nat)
  : nat :=
  match cents with
  | [] => best
  | c :: cs =>
      let key := f (sqdist ROps row c) in
      if Rltb key min_key then predict_loop_by f row cs (S j) key j
      else predict_loop_by f row cs (S j) min_key best
  end.
Definition predict_row_by (f : R -> R) (maxv : R) (cents : list (list R)) (row : list R) : nat :=
  predict_loop_by f row cents 0 (f maxv) 0.
Definition predict_by (f : R -> R) (maxv : R) (m : kmeans (T := R)) (x : list (list R)) : list nat :=
  map (predict_row_by f maxv (firstn (km_k m) (km_centroids m))) x.

Definition increasing_on_nonneg (f : R -> R) : Prop :=
  forall a b, 0 <= a -> 0 <= b -> a < b -> f a < f b.

Lemma Rltb_increasing f a b : increasing_on_nonneg f -> 0 <= a -> 0 <= b -> Rltb (f a) (f b) = Rltb a b.
Proof.
  intros Hf Ha Hb. destruct (Rltb a b) eqn:E.
  - apply Rltb_true in E. apply Rltb_true. apply Hf; assumption.
  - apply Rltb_false in E. apply Rltb_false.
    destruct (Req_dec b a) as [->|Hne]; [lra|].
    assert (Hlt : b < a) by lra. specialize (Hf b a Hb Ha Hlt). lra.
Qed.

Lemma predict_loop_by_eq f row : increasing_on_nonneg f ->
  forall cs j m b, 0 <= m -> predict_loop_by f row cs j (f m) b = predict_loop ROps row cs j m b.
Proof.
  intros Hf. induction cs as [|c cs IH]; intros j m b Hm; cbn [predict_loop_by predict_loop]; [reflexivity|].
  cbv zeta. cbn [oltb ROps]. pose proof (sqdist_nonneg row c) as Hd.
  rewrite (Rltb_increasing f _ _ Hf Hd Hm).
  destruct (Rltb (sqdist ROps row c) m); apply IH; assumption.
Qed.

Lemma predict_row_by_eq f maxv cents row : increasing_on_nonneg f -> 0 <= maxv ->
  predict_row_by f maxv cents row = predict_row ROps maxv cents row.
Proof. intros Hf Hm. unfold predict_row_by, predict_row. apply predict_loop_by_eq; assumption. Qed.

Lemma predict_by_eq f maxv m x : increasing_on_nonneg f -> 0 <= maxv ->
  predict_by f maxv m x = predict ROps maxv m x.
Proof.
  intros Hf Hm. unfold predict_by, predict. apply map_ext. intros row. apply predict_row_by_eq; assumption.
Qed.

Lemma sqrt_increasing_on_nonneg : increasing_on_nonneg sqrt.
Proof. intros a b Ha Hb Hab. apply sqrt_lt_1_alt. lra. Qed.

(* the Euclidean distance itself *)
Lemma predict_sqrt_eq maxv m x : 0 <= maxv -> predict_by sqrt maxv m x = predict ROps maxv m x.
Proof. intros Hm. apply predict_by_eq; [exact sqrt_increasing_on_nonneg | exact Hm]. Qed.

(* hence the label minimises the Euclidean distance sqrt(sqdist) as well *)
Lemma predict_row_euclid_min maxv cents row :
  (exists j, (j < length cents)%nat /\ sqdist ROps row (nth j cents []) < maxv) ->
  forall j, (j < length cents)%nat ->
    sqrt (sqdist ROps row (nth (predict_row ROps maxv cents row) cents [])) <= sqrt (sqdist ROps row (nth j cents [])).
Proof.
  intros Hex j Hj. apply sqrt_le_1_alt. apply (predict_row_argmin maxv cents row Hex). exact Hj.
Qed.

(* satisfiability: centroids 0 and 3 and two coincident ones; query rows 1 and 3 *)
Lemma ex_predict_hyp :
  let m := mkKMeans 3 [] [] 0 [[3]; [0]; [3]] in
  let x := [[1]; [3]] in
  forall i, (i < length x)%nat ->
    exists j, (j < length (firstn (km_k m) (km_centroids m)))%nat /\
              sqdist ROps (nth i x []) (nth j (firstn (km_k m) (km_centroids m)) []) < 1000.
Proof.
  intros m x i Hi. exists 0%nat. split; [simpl; lia|].
  destruct i as [|[|i]]; [| |simpl in Hi; lia]; cbn; lra.
Qed.
