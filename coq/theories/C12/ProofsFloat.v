(* C12 — the first END-TO-END floating-point statement: under a separation margin the binary64 instance
   (FOps, Coq primitive floats — the very definitions the correspondence check runs against
   src/cluster/kmeans.rs bit for bit) of KMeans::predict makes THE SAME DECISION as the exact-arithmetic
   instance (ROps) on the real values of the same inputs.

     sqdist_float_error      the model's squared distance `sqdist` at FOps: it is the same left fold as
                             C17's squared_distance (sqdist_is_C17, for every Ops), so the bound of
                             C17.ProofsFloat.squared_distance_float_error carries over:
                             |FR d - D| <= sq_err p D := Eu (p+2) * (D + p*eta64) + p*eta64
     predict_row_float_robust    one row, explicit label js
     predict_row_float_agrees    one row, js := the label the real-number instance returns
     predict_float_agrees        the matrix form (KMeans::predict on a list of rows)

   Vocabulary (Base/FloatError.v): FR x = real value of a float, ffin x = finite, u64 = 2^-53,
   eta64 = 2^-1075, Eu k = (1+u64)^k - 1.  The only no-overflow hypothesis is that every COMPUTED squared
   distance is finite (non-finite values are absorbing, so all inputs and intermediates are then finite).
   The initial `T::max_value()` of the arg-min loop enters as the float `maxv`; the hypothesis
   D_best + sq_err D_best < FR maxv makes the first comparison `dist < max_value` succeed (it also forces
   maxv to be finite: the real value of an infinity or NaN is 0).  *)
From Coq Require Import List Arith ZArith Bool Reals Floats Lra Lia Psatz.
From Flocq Require Import Core BinarySingleNaN PrimFloat.
From SC Require Import Base.FloatUtil Base.Num Base.FloatError C12.Model C12.ProofsBase C12.ProofsPredict.
From SC Require C17.Model.
From SC Require C17.ProofsFloat.
Import ListNotations.
Local Open Scope R_scope.
Local Existing Instance Hprec.
Local Existing Instance Hmax.

(* ---------------- sqdist is C17's fold, for every instance ---------------- *)
Lemma sqdist_acc_fold {T} (O : Ops T) (x y : list T) : forall acc,
  sqdist_acc O x y acc =
  fold_left (fun sum ab => let d := osub O (fst ab) (snd ab) in oadd O sum (omul O d d)) (combine x y) acc.
Proof.
  revert y. induction x as [|a x IH]; intros [|b y] acc; cbn [sqdist_acc combine fold_left]; try reflexivity.
  cbn [fst snd]. apply IH.
Qed.

Lemma sqdist_is_C17 {T} (O : Ops T) (x y : list T) : sqdist O x y = C17.Model.sq_dist_loop O x y.
Proof. unfold sqdist, C17.Model.sq_dist_loop. apply sqdist_acc_fold. Qed.

(* the error bound of a computed squared distance in dimension p whose exact value is D *)
Definition sq_err (p : nat) (D : R) : R := Eu (p + 2) * (D + INR p * eta64) + INR p * eta64.

Lemma sq_err_nonneg p D : 0 <= D -> 0 <= sq_err p D.
Proof.
  intros HD. unfold sq_err. pose proof (Eu_nonneg (p + 2)) as H1. pose proof (pos_INR p) as H2. pose proof eta64_pos as H3.
  assert (H4 : 0 <= INR p * eta64) by (apply Rmult_le_pos; lra).
  assert (H5 : 0 <= Eu (p + 2) * (D + INR p * eta64)) by (apply Rmult_le_pos; lra). lra.
Qed.

Theorem sqdist_float_error (x y : list PrimFloat.float) :
  length x = length y -> ffin (sqdist FOps x y) ->
  let p := length x in
  let D := sqdist ROps (map FR x) (map FR y) in
  0 <= D /\ 0 <= FR (sqdist FOps x y) /\
  Rabs (FR (sqdist FOps x y) - D) <= sq_err p D /\
  ((forall a b, In (a, b) (combine x y) -> FR a = FR b \/ / 2 ^ 510 <= Rabs (FR a - FR b)) ->
   Rabs (FR (sqdist FOps x y) - D) <= Eu (p + 2) * D).
Proof.
  intros L Hfin p D.
  assert (HS : C17.Model.squared_distance FOps x y = Some (sqdist FOps x y)).
  { unfold C17.Model.squared_distance, C17.Model.same_len. rewrite (proj2 (Nat.eqb_eq _ _) L), sqdist_is_C17. reflexivity. }
  destruct (C17.ProofsFloat.squared_distance_float_error x y _ HS Hfin) as (HR & H0 & H1 & H2 & H3).
  assert (E : C17.Spec.sigma (length x)
                (fun i => (C17.Spec.comp (C17.ProofsFloat.RV x) i - C17.Spec.comp (C17.ProofsFloat.RV y) i) *
                          (C17.Spec.comp (C17.ProofsFloat.RV x) i - C17.Spec.comp (C17.ProofsFloat.RV y) i)) = D).
  { unfold C17.Model.squared_distance, C17.Model.same_len in HR.
    rewrite !C17.ProofsFloat.RV_length, (proj2 (Nat.eqb_eq _ _) L) in HR. injection HR as HR. rewrite <- HR.
    unfold D. rewrite sqdist_is_C17. reflexivity. }
  cbv zeta in H0, H2, H3. rewrite E in H0, H2, H3. fold p in H2, H3.
  split; [exact H0|]. split; [exact H1|]. split; [exact H2|].
  intros Hno. apply H3. apply C17.ProofsFloat.diff_normal_intro. exact Hno.
Qed.

(* ---------------- comparison of finite floats ---------------- *)
Lemma fltb_finite a b : ffin a -> ffin b -> PrimFloat.ltb a b = Rlt_bool (FR a) (FR b).
Proof.
  intros Ha Hb. rewrite ltb_equiv. apply (Bltb_correct prec emax); apply ffin_B; assumption.
Qed.

Lemma FR_nonzero_ffin x : FR x <> 0 -> ffin x.
Proof.
  intros H. apply ffin_B. unfold FR in H. destruct (Prim2B x); try reflexivity; exfalso; apply H; reflexivity.
Qed.

(* ---------------- the arg-min loop at FOps when one key is strictly below all others ---------------- *)
Lemma predict_loop_F_stay (row : list PrimFloat.float) cs : forall j m b,
  (forall c, In c cs -> PrimFloat.ltb (sqdist FOps row c) m = false) ->
  predict_loop FOps row cs j m b = b.
Proof.
  induction cs as [|c cs IH]; intros j m b H; cbn [predict_loop]; [reflexivity|].
  cbv zeta. cbn [oltb FOps]. rewrite (H c (or_introl eq_refl)). apply IH.
  intros c' Hc'. apply H. right. exact Hc'.
Qed.

Lemma predict_loop_F_min (row : list PrimFloat.float) (all : list (list PrimFloat.float)) (js : nat) :
  (js < length all)%nat ->
  (forall j, (j < length all)%nat -> ffin (sqdist FOps row (nth j all []))) ->
  (forall j, (j < length all)%nat -> j <> js ->
     FR (sqdist FOps row (nth js all [])) < FR (sqdist FOps row (nth j all []))) ->
  forall cs pre m b, all = pre ++ cs -> (length pre <= js)%nat -> ffin m ->
    FR (sqdist FOps row (nth js all [])) < FR m ->
    predict_loop FOps row cs (length pre) m b = js.
Proof.
  intros Hjs Hfin Hsep. induction cs as [|c cs IH]; intros pre m b Hall Hpre Hm Hlt.
  - rewrite app_nil_r in Hall. subst all. lia.
  - assert (Hc : nth (length pre) all [] = c) by (subst all; rewrite app_nth2, Nat.sub_diag by lia; reflexivity).
    assert (Hlen : (length pre < length all)%nat) by (subst all; rewrite app_length; cbn [length]; lia).
    assert (Hall' : all = (pre ++ [c]) ++ cs) by (rewrite <- app_assoc; exact Hall).
    assert (Hl : length (pre ++ [c]) = S (length pre)) by (rewrite app_length; cbn [length]; lia).
    pose proof (Hfin _ Hlen) as Hfc. rewrite Hc in Hfc.
    cbn [predict_loop]. cbv zeta. cbn [oltb FOps]. rewrite (fltb_finite _ _ Hfc Hm).
    destruct (Nat.eq_dec (length pre) js) as [E|NE].
    + rewrite E in Hc. rewrite Hc in Hlt. rewrite (Rlt_bool_true _ _ Hlt).
      rewrite predict_loop_F_stay; [exact E|].
      intros c' Hc'. destruct (In_nth _ _ [] Hc') as (n & Hn & En).
      assert (Hidx : nth (S (length pre) + n) all [] = c').
      { rewrite Hall'. rewrite app_nth2 by lia. rewrite Hl.
        replace (S (length pre) + n - S (length pre))%nat with n by lia. exact En. }
      assert (Hlt' : (S (length pre) + n < length all)%nat).
      { rewrite Hall. rewrite app_length. cbn [length]. lia. }
      pose proof (Hfin _ Hlt') as Hfc'. rewrite Hidx in Hfc'.
      rewrite (fltb_finite _ _ Hfc' Hfc). apply Rlt_bool_false.
      assert (Hne : (S (length pre) + n)%nat <> js) by lia.
      pose proof (Hsep _ Hlt' Hne) as Hs. rewrite Hidx, Hc in Hs. lra.
    + assert (Hs : FR (sqdist FOps row (nth js all [])) < FR (sqdist FOps row c)).
      { rewrite <- Hc. apply Hsep; assumption. }
      rewrite <- Hl. destruct (Rlt_bool _ _); apply IH; try assumption; rewrite Hl; lia.
Qed.

(* ---------------- the label is an index (every instance) ---------------- *)
Lemma predict_loop_range {T} (O : Ops T) (row : list T) cs : forall j m b,
  predict_loop O row cs j m b = b \/
  (j <= predict_loop O row cs j m b < j + length cs)%nat.
Proof.
  induction cs as [|c cs IH]; intros j m b; cbn [predict_loop length]; [left; reflexivity|].
  cbv zeta. destruct (oltb O (sqdist O row c) m).
  - destruct (IH (S j) (sqdist O row c) j) as [E|R]; right; [rewrite E|]; lia.
  - destruct (IH (S j) m b) as [E|R]; [left; exact E | right; lia].
Qed.

Lemma predict_row_lt {T} (O : Ops T) maxv cents (row : list T) :
  cents <> [] -> (predict_row O maxv cents row < length cents)%nat.
Proof.
  intros Hne. unfold predict_row. destruct (predict_loop_range O row cents 0 maxv 0) as [E|R]; [|lia].
  rewrite E. destruct cents; [contradiction | cbn [length]; lia].
Qed.

(* ---------------- one row ---------------- *)
Lemma nth_map_FR j (cents : list (list PrimFloat.float)) :
  nth j (map (map FR) cents) [] = map FR (nth j cents []).
Proof. change (@nil R) with (map FR []). apply map_nth. Qed.

Theorem predict_row_float_robust (maxv : PrimFloat.float) (cents : list (list PrimFloat.float))
        (row : list PrimFloat.float) (js : nat) :
  (forall c, In c cents -> length c = length row /\ ffin (sqdist FOps row c)) ->
  let p := length row in
  let D := fun j => sqdist ROps (map FR row) (map FR (nth j cents [])) in
  (js < length cents)%nat ->
  D js + sq_err p (D js) < FR maxv ->
  (forall j, (j < length cents)%nat -> j <> js -> sq_err p (D j) + sq_err p (D js) < D j - D js) ->
  predict_row FOps maxv cents row = js /\
  predict_row ROps (FR maxv) (map (map FR) cents) (map FR row) = js.
Proof.
  intros Hc p D Hjs Hmax Hsep.
  assert (HD0 : forall j, 0 <= D j) by (intros j; apply sqdist_nonneg).
  assert (Herr : forall j, (j < length cents)%nat ->
            ffin (sqdist FOps row (nth j cents [])) /\
            Rabs (FR (sqdist FOps row (nth j cents [])) - D j) <= sq_err p (D j)).
  { intros j Hj. destruct (Hc (nth j cents []) (nth_In _ _ Hj)) as [L F]. split; [exact F|].
    destruct (sqdist_float_error row (nth j cents []) (eq_sym L) F) as (_ & _ & G & _). exact G. }
  pose proof (sq_err_nonneg p (D js) (HD0 js)) as He0.
  split.
  - unfold predict_row.
    apply (predict_loop_F_min row cents js Hjs) with (pre := []); try reflexivity.
    + intros j Hj. apply (Herr j Hj).
    + intros j Hj Hne. destruct (Herr j Hj) as [_ Ej]. destruct (Herr js Hjs) as [_ Es].
      specialize (Hsep j Hj Hne). apply Rabs_le_inv in Ej. apply Rabs_le_inv in Es. lra.
    + cbn [length]. lia.
    + apply FR_nonzero_ffin. specialize (HD0 js). lra.
    + destruct (Herr js Hjs) as [_ Es]. apply Rabs_le_inv in Es. lra.
  - apply predict_row_unique.
    + exists js. rewrite map_length, nth_map_FR. split; [exact Hjs|]. fold (D js). lra.
    + rewrite map_length. exact Hjs.
    + intros j Hj. rewrite map_length in Hj. rewrite !nth_map_FR. fold (D js) (D j).
      destruct (Nat.eq_dec j js) as [->|Hne]; [lra|].
      specialize (Hsep j Hj Hne). pose proof (sq_err_nonneg p (D j) (HD0 j)). lra.
    + intros j Hj. rewrite !nth_map_FR. fold (D js) (D j).
      assert (Hj' : (j < length cents)%nat) by lia. assert (Hne : j <> js) by lia.
      specialize (Hsep j Hj' Hne). pose proof (sq_err_nonneg p (D j) (HD0 j)). lra.
Qed.

(* the same with js := the label returned by the exact-arithmetic instance *)
Theorem predict_row_float_agrees (maxv : PrimFloat.float) (cents : list (list PrimFloat.float))
        (row : list PrimFloat.float) :
  (forall c, In c cents -> length c = length row /\ ffin (sqdist FOps row c)) ->
  let p := length row in
  let D := fun j => sqdist ROps (map FR row) (map FR (nth j cents [])) in
  let js := predict_row ROps (FR maxv) (map (map FR) cents) (map FR row) in
  D js + sq_err p (D js) < FR maxv ->
  (forall j, (j < length cents)%nat -> j <> js -> sq_err p (D j) + sq_err p (D js) < D j - D js) ->
  predict_row FOps maxv cents row = js.
Proof.
  intros Hc p D js Hmax Hsep.
  assert (Hjs : cents = [] \/ (js < length cents)%nat).
  { destruct cents as [|c0 cents']; [left; reflexivity | right].
    unfold js. rewrite <- (map_length (map FR) (c0 :: cents')). apply predict_row_lt. discriminate. }
  destruct Hjs as [E|Hjs]; [subst cents; reflexivity|].
  apply (predict_row_float_robust maxv cents row js Hc Hjs Hmax Hsep).
Qed.

(* ---------------- the matrix form: KMeans::predict ---------------- *)
Definition kmeans_R (m : kmeans (T := PrimFloat.float)) : kmeans (T := R) :=
  mkKMeans (km_k m) (km_y m) (km_size m) (FR (km_distortion m)) (map (map FR) (km_centroids m)).

(* the hypotheses on one row *)
Definition row_separated (maxv : PrimFloat.float) (cents : list (list PrimFloat.float)) (row : list PrimFloat.float) : Prop :=
  (forall c, In c cents -> length c = length row /\ ffin (sqdist FOps row c)) /\
  let p := length row in
  let D := fun j => sqdist ROps (map FR row) (map FR (nth j cents [])) in
  let js := predict_row ROps (FR maxv) (map (map FR) cents) (map FR row) in
  D js + sq_err p (D js) < FR maxv /\
  (forall j, (j < length cents)%nat -> j <> js -> sq_err p (D j) + sq_err p (D js) < D j - D js).

Theorem predict_float_agrees (maxv : PrimFloat.float) (m : kmeans (T := PrimFloat.float)) (x : list (list PrimFloat.float)) :
  (forall row, In row x -> row_separated maxv (firstn (km_k m) (km_centroids m)) row) ->
  predict FOps maxv m x = predict ROps (FR maxv) (kmeans_R m) (map (map FR) x).
Proof.
  intros H. unfold predict, kmeans_R. cbn [km_k km_centroids]. rewrite map_map, firstn_map.
  apply map_ext_in. intros row Hrow. destruct (H row Hrow) as (Hc & Hmax & Hsep).
  apply (predict_row_float_agrees maxv _ row Hc Hmax Hsep).
Qed.

(* ---------------- real values of float literals (for the instances) ---------------- *)
Lemma FR_SF x : FR x = SF2R radix2 (FloatOps.Prim2SF x).
Proof. unfold FR, Prim2B. apply B2R_SF2B. Qed.

(* numerator and denominator (a power of two) of a finite float; (0, 1) otherwise *)
Definition fq (x : PrimFloat.float) : Z * Z :=
  match FloatOps.Prim2SF x with
  | S754_finite s m e =>
      let n := if s then Z.neg m else Z.pos m in
      if (0 <=? e)%Z then (n * 2 ^ e, 1)%Z else (n, 2 ^ (- e))%Z
  | _ => (0, 1)%Z
  end.

Lemma FR_fq x n d : fq x = (n, d) -> FR x = IZR n / IZR d.
Proof.
  rewrite FR_SF. unfold fq. destruct (FloatOps.Prim2SF x) as [s|s| |s m e]; cbn [SF2R].
  1-3: intros [= <- <-]; lra.
  unfold F2R. cbn [Fnum Fexp cond_Zopp].
  destruct (Z.leb_spec 0 e) as [He|He]; intros [= <- <-].
  - rewrite mult_IZR. rewrite <- (IZR_Zpower radix2 e He). change (radix_val radix2) with 2%Z.
    unfold Rdiv. rewrite Rinv_1, Rmult_1_r. destruct s; reflexivity.
  - replace e with (- (- e))%Z at 1 by lia. rewrite bpow_opp.
    rewrite <- (IZR_Zpower radix2 (- e)) by lia. change (radix_val radix2) with 2%Z.
    destruct s; cbn [Z.opp]; unfold Rdiv; reflexivity.
Qed.

(* replace every `FR <literal>` of the goal by its value n / 2^k *)
Ltac fr_literals :=
  repeat match goal with
  | |- context [FR ?x] =>
      let v := eval vm_compute in (fq x) in
      match v with
      | (?n, ?d) =>
          let E := fresh "E" in
          assert (E : fq x = (n, d)) by (vm_compute; reflexivity);
          rewrite (FR_fq x n d E); clear E
      end
  end.

(* the hypotheses of predict_float_agrees on one row, from an explicit label *)
Lemma row_separated_intro maxv cents row js :
  (forall c, In c cents -> length c = length row /\ ffin (sqdist FOps row c)) ->
  let p := length row in
  let D := fun j => sqdist ROps (map FR row) (map FR (nth j cents [])) in
  (js < length cents)%nat ->
  D js + sq_err p (D js) < FR maxv ->
  (forall j, (j < length cents)%nat -> j <> js -> sq_err p (D j) + sq_err p (D js) < D j - D js) ->
  row_separated maxv cents row.
Proof.
  intros Hc p D Hjs Hmax Hsep.
  destruct (predict_row_float_robust maxv cents row js Hc Hjs Hmax Hsep) as [_ ER].
  unfold row_separated. split; [exact Hc|]. cbv zeta. rewrite ER. split; [exact Hmax | exact Hsep].
Qed.
