(* C12 — the flat node vector `BBDTree::nodes` (what the hook verif_dump exports) and the inductive
   tree the filtering theorems are about.

   BBDTree::build_node builds the lower subtree, then the upper subtree, then pushes the node itself
   (add_node returns nodes.len() before the push): the vector is the POST-ORDER listing of the tree,
   every child index is smaller than the index of its parent, the root is the last entry.
   `nodes_of base t` is that listing for a tree whose first node gets index `base`.

   Proved here, for every element type (nothing below depends on the scalar operations):
   * decode_total     on every vector in which every entry is a leaf or has two children stored
                      before it (`nodes_ok`, the index invariant; decidable), tree_of_nodes succeeds
                      from every index id with any fuel > id — in particular with the fuel
                      S (length nodes) the correspondence uses —, and the result does not depend
                      on the fuel;
   * decode_follows   the tree it returns is the one obtained by following the child indices, as
                      BBDTree::filter does (relation `decodes`, fuel-free), and that tree is unique;
   * nodes_of_*       the post-order listing of ANY tree satisfies nodes_ok, has tree_size t entries,
                      and tree_of_nodes gives back exactly t from its last index (round trip);
   * post_ok_*        a vector passes the post-order check `post_ok` (a stack machine over the child
                      indices: a leaf pushes its index, an inner node must find its upper and lower
                      child on top of the stack, one index — the last — remains) IF AND ONLY IF it is
                      the post-order listing of a tree; on such a vector tree_of_nodes returns that
                      tree and its tree_size is the number of nodes. *)
From Coq Require Import List Bool Arith Lia Wf_nat.
From SC Require Import Base.Num C12.Model.
Import ListNotations.

Section Nodes.
  Context {T : Type}.
  Notation rnode := (@raw_node T).
  Notation tree := (@bbd T).

  (* ---------- the index invariant ---------- *)
  Definition node_ok (id : nat) (nd : rnode) : bool :=
    match nd with
    | (_, None, None) => true
    | (_, Some l, Some u) => (l <? id) && (u <? id)
    | _ => false
    end.
  Fixpoint nodes_ok_from (id : nat) (nodes : list rnode) : bool :=
    match nodes with
    | [] => true
    | nd :: rest => node_ok id nd && nodes_ok_from (S id) rest
    end.
  Definition nodes_ok (nodes : list rnode) : bool := nodes_ok_from 0 nodes.

  Lemma nodes_ok_from_nth : forall nodes base i nd,
    nodes_ok_from base nodes = true -> nth_error nodes i = Some nd -> node_ok (base + i) nd = true.
  Proof.
    induction nodes as [|a nodes IH]; intros base i nd Hok Hn; [destruct i; discriminate|].
    cbn [nodes_ok_from] in Hok. apply andb_true_iff in Hok as [Ha Hr].
    destruct i as [|i]; cbn [nth_error] in Hn.
    - inversion Hn; subst. now rewrite Nat.add_0_r.
    - rewrite <- Nat.add_succ_comm. apply (IH _ _ _ Hr Hn).
  Qed.
  Lemma nodes_ok_nth nodes i nd :
    nodes_ok nodes = true -> nth_error nodes i = Some nd -> node_ok i nd = true.
  Proof. intros H Hn. apply (nodes_ok_from_nth nodes 0 i nd H Hn). Qed.

  Lemma nodes_ok_from_app : forall l1 l2 base,
    nodes_ok_from base (l1 ++ l2) = nodes_ok_from base l1 && nodes_ok_from (base + length l1) l2.
  Proof.
    induction l1 as [|a l1 IH]; intros l2 base; cbn [app nodes_ok_from length].
    - now rewrite Nat.add_0_r.
    - rewrite IH, <- Nat.add_succ_comm, andb_assoc. reflexivity.
  Qed.

  (* ---------- following the child indices (fuel-free) ---------- *)
  Inductive decodes (nodes : list rnode) : nat -> tree -> Prop :=
  | dec_leaf id i : nth_error nodes id = Some (i, None, None) -> decodes nodes id (Leaf i)
  | dec_split id i l u lo up :
      nth_error nodes id = Some (i, Some l, Some u) -> (l < id)%nat -> (u < id)%nat ->
      decodes nodes l lo -> decodes nodes u up -> decodes nodes id (Split i lo up).

  Lemma decodes_unique nodes : forall id t, decodes nodes id t -> forall t', decodes nodes id t' -> t = t'.
  Proof.
    induction 1 as [id i Hn | id i l u lo up Hn Hl Hu Hlo IHlo Hup IHup]; intros t' H'.
    - inversion H' as [id' i' Hn' | id' i' l' u' lo' up' Hn' _ _ _ _]; subst; rewrite Hn in Hn'; inversion Hn'; reflexivity.
    - inversion H' as [id' i' Hn' | id' i' l' u' lo' up' Hn' _ _ Hlo' Hup']; subst; rewrite Hn in Hn'; inversion Hn'; subst.
      f_equal; [apply IHlo | apply IHup]; assumption.
  Qed.

  Lemma decodes_info nodes id t : decodes nodes id t ->
    exists l u, nth_error nodes id = Some (info_of t, l, u).
  Proof. destruct 1; cbn [info_of]; eauto. Qed.

  Lemma tree_of_nodes_decodes nodes : forall fuel id t,
    tree_of_nodes fuel nodes id = Some t -> decodes nodes id t.
  Proof.
    induction fuel as [|f IH]; intros id t H; [discriminate|].
    cbn [tree_of_nodes] in H.
    destruct (nth_error nodes id) as [[[i [l|]] [u|]]|] eqn:Hn; try discriminate.
    - destruct ((l <? id) && (u <? id)) eqn:Hlt; [|discriminate].
      apply andb_true_iff in Hlt as [Hl Hu]. apply Nat.ltb_lt in Hl, Hu.
      destruct (tree_of_nodes f nodes l) as [lo|] eqn:Hlo; [|discriminate].
      destruct (tree_of_nodes f nodes u) as [up|] eqn:Hup; [|discriminate].
      inversion H; subst. eapply dec_split; eauto.
    - inversion H; subst. now apply dec_leaf.
  Qed.

  Lemma decodes_tree_of_nodes nodes : forall id t, decodes nodes id t ->
    forall fuel, (id < fuel)%nat -> tree_of_nodes fuel nodes id = Some t.
  Proof.
    induction 1 as [id i Hn | id i l u lo up Hn Hl Hu Hlo IHlo Hup IHup]; intros fuel Hf;
      (destruct fuel as [|f]; [lia|]); cbn [tree_of_nodes]; rewrite Hn.
    - reflexivity.
    - apply Nat.ltb_lt in Hl as Hl'. apply Nat.ltb_lt in Hu as Hu'. rewrite Hl', Hu'. cbn [andb].
      rewrite IHlo, IHup by lia. reflexivity.
  Qed.

  (* totality under the index invariant *)
  Lemma decodes_total nodes : nodes_ok nodes = true ->
    forall id, (id < length nodes)%nat -> exists t, decodes nodes id t.
  Proof.
    intros Hok id. induction id as [id IH] using lt_wf_ind. intros Hid.
    destruct (nth_error nodes id) as [nd|] eqn:Hn; [|apply nth_error_None in Hn; lia].
    pose proof (nodes_ok_nth _ _ _ Hok Hn) as Hnd.
    destruct nd as [[i [l|]] [u|]]; cbn [node_ok] in Hnd; try discriminate.
    - apply andb_true_iff in Hnd as [Hl Hu]. apply Nat.ltb_lt in Hl, Hu.
      destruct (IH l Hl) as [lo Hlo]; [lia|]. destruct (IH u Hu) as [up Hup]; [lia|].
      exists (Split i lo up). eapply dec_split; eauto.
    - exists (Leaf i). now apply dec_leaf.
  Qed.

  Lemma decode_total nodes : nodes_ok nodes = true ->
    forall id, (id < length nodes)%nat ->
    exists t, decodes nodes id t /\
              forall fuel, (id < fuel)%nat -> tree_of_nodes fuel nodes id = Some t.
  Proof.
    intros Hok id Hid. destruct (decodes_total nodes Hok id Hid) as [t Ht].
    exists t. split; [exact Ht|]. intros fuel Hf. apply decodes_tree_of_nodes; assumption.
  Qed.

  (* ---------- the post-order listing of a tree ---------- *)
  Fixpoint nodes_of (base : nat) (t : tree) : list rnode :=
    match t with
    | Leaf i => [(i, None, None)]
    | Split i lo up =>
        nodes_of base lo ++ nodes_of (base + tree_size lo) up ++
        [(i, Some (base + tree_size lo - 1), Some (base + tree_size lo + tree_size up - 1))]
    end.

  Lemma tree_size_pos (t : tree) : (1 <= tree_size t)%nat.
  Proof. destruct t; cbn [tree_size]; lia. Qed.

  Lemma nodes_of_length : forall t base, length (nodes_of base t) = tree_size t.
  Proof.
    induction t as [i | i lo IHlo up IHup]; intros base; cbn [nodes_of tree_size]; [reflexivity|].
    rewrite !app_length, IHlo, IHup. cbn [length]. lia.
  Qed.

  Lemma nodes_of_ok : forall t base, nodes_ok_from base (nodes_of base t) = true.
  Proof.
    induction t as [i | i lo IHlo up IHup]; intros base; cbn [nodes_of]; [reflexivity|].
    rewrite !nodes_ok_from_app, !nodes_of_length, IHlo, IHup. cbn [andb nodes_ok_from node_ok].
    pose proof (tree_size_pos lo). pose proof (tree_size_pos up).
    rewrite andb_true_r. apply andb_true_intro. split; apply Nat.ltb_lt; lia.
  Qed.

  (* the listing of t, placed anywhere in a vector at its own offset, decodes to t from its last index *)
  Lemma nodes_of_decodes : forall t base pre post, length pre = base ->
    decodes (pre ++ nodes_of base t ++ post) (base + tree_size t - 1) t.
  Proof.
    induction t as [i | i lo IHlo up IHup]; intros base pre post Hpre; cbn [nodes_of tree_size].
    - apply dec_leaf. rewrite nth_error_app2 by lia.
      replace (base + 1 - 1 - length pre) with 0 by lia. reflexivity.
    - pose proof (tree_size_pos lo) as Hplo. pose proof (tree_size_pos up) as Hpup.
      set (sl := tree_size lo) in *. set (su := tree_size up) in *.
      set (root := (i, Some (base + sl - 1), Some (base + sl + su - 1)) : rnode).
      apply dec_split with (l := base + sl - 1) (u := base + sl + su - 1); try lia.
      + rewrite nth_error_app2 by lia. rewrite <- app_assoc. rewrite nth_error_app2 by (rewrite nodes_of_length; fold sl; lia).
        rewrite <- app_assoc. rewrite nth_error_app2 by (rewrite !nodes_of_length; fold sl su; lia).
        rewrite !nodes_of_length. fold sl su.
        replace (base + S (sl + su) - 1 - length pre - sl - su) with 0 by lia. reflexivity.
      + rewrite <- !app_assoc. apply IHlo. exact Hpre.
      + rewrite <- !app_assoc. rewrite (app_assoc pre).
        replace (base + sl + su - 1) with ((base + sl) + su - 1) by lia.
        apply IHup. rewrite app_length, nodes_of_length. fold sl. lia.
  Qed.

  Lemma nodes_of_roundtrip (t : tree) :
    let nodes := nodes_of 0 t in
    nodes_ok nodes = true /\ length nodes = tree_size t /\
    decodes nodes (length nodes - 1) t /\
    tree_of_nodes (S (length nodes)) nodes (length nodes - 1) = Some t.
  Proof.
    cbv zeta. pose proof (tree_size_pos t) as Hp.
    assert (Hd : decodes (nodes_of 0 t) (length (nodes_of 0 t) - 1) t).
    { rewrite nodes_of_length. pose proof (nodes_of_decodes t 0 [] [] eq_refl) as H.
      cbn [app] in H. rewrite app_nil_r in H. exact H. }
    split; [apply nodes_of_ok|]. split; [apply nodes_of_length|]. split; [exact Hd|].
    apply decodes_tree_of_nodes; [exact Hd | lia].
  Qed.

  (* ---------- the post-order check on a vector: a stack machine over the child indices ---------- *)
  Fixpoint post_run (nodes : list rnode) (id : nat) (stack : list nat) : option (list nat) :=
    match nodes with
    | [] => Some stack
    | (_, None, None) :: rest => post_run rest (S id) (id :: stack)
    | (_, Some l, Some u) :: rest =>
        match stack with
        | u' :: l' :: st => if (u =? u') && (l =? l') then post_run rest (S id) (id :: st) else None
        | _ => None
        end
    | _ :: _ => None
    end.
  Definition post_ok (nodes : list rnode) : bool :=
    match post_run nodes 0 [] with
    | Some [r] => S r =? length nodes
    | _ => false
    end.

  (* a forest stored one tree after the other from `base`; the stack holds the root indices, last first *)
  Fixpoint forest_nodes (base : nat) (ts : list tree) : list rnode :=
    match ts with
    | [] => []
    | t :: ts' => nodes_of base t ++ forest_nodes (base + tree_size t) ts'
    end.
  Fixpoint forest_size (ts : list tree) : nat :=
    match ts with [] => 0 | t :: ts' => tree_size t + forest_size ts' end.
  Fixpoint forest_stack (base : nat) (ts : list tree) (acc : list nat) : list nat :=
    match ts with
    | [] => acc
    | t :: ts' => forest_stack (base + tree_size t) ts' ((base + tree_size t - 1) :: acc)
    end.

  Lemma forest_nodes_length : forall ts base, length (forest_nodes base ts) = forest_size ts.
  Proof.
    induction ts as [|t ts IH]; intros base; cbn [forest_nodes forest_size length]; [reflexivity|].
    rewrite app_length, nodes_of_length, IH. reflexivity.
  Qed.
  Lemma forest_nodes_app : forall ts1 ts2 base,
    forest_nodes base (ts1 ++ ts2) = forest_nodes base ts1 ++ forest_nodes (base + forest_size ts1) ts2.
  Proof.
    induction ts1 as [|t ts1 IH]; intros ts2 base; cbn [app forest_nodes forest_size].
    - now rewrite Nat.add_0_r.
    - rewrite IH, <- app_assoc, Nat.add_assoc. reflexivity.
  Qed.
  Lemma forest_size_app ts1 ts2 : forest_size (ts1 ++ ts2) = forest_size ts1 + forest_size ts2.
  Proof. induction ts1 as [|t ts1 IH]; cbn [app forest_size]; [reflexivity | rewrite IH; lia]. Qed.
  Lemma forest_stack_app : forall ts1 ts2 base acc,
    forest_stack base (ts1 ++ ts2) acc = forest_stack (base + forest_size ts1) ts2 (forest_stack base ts1 acc).
  Proof.
    induction ts1 as [|t ts1 IH]; intros ts2 base acc; cbn [app forest_stack forest_size].
    - now rewrite Nat.add_0_r.
    - rewrite IH, Nat.add_assoc. reflexivity.
  Qed.

  (* running the machine over the listing of one tree pushes the index of its root *)
  Lemma post_run_nodes_of : forall t base rest stack,
    post_run (nodes_of base t ++ rest) base stack =
    post_run rest (base + tree_size t) ((base + tree_size t - 1) :: stack).
  Proof.
    induction t as [i | i lo IHlo up IHup]; intros base rest stack; cbn [nodes_of tree_size].
    - cbn [app post_run]. replace (base + 1 - 1) with base by lia. now rewrite Nat.add_1_r.
    - rewrite <- !app_assoc. rewrite IHlo, IHup. cbn [app post_run].
      rewrite !Nat.eqb_refl. cbn [andb].
      replace (S (base + tree_size lo + tree_size up)) with (base + S (tree_size lo + tree_size up)) by lia.
      replace (base + S (tree_size lo + tree_size up) - 1) with (base + tree_size lo + tree_size up) by lia.
      reflexivity.
  Qed.

  (* soundness of the machine: the processed prefix is a forest whose roots are the stack *)
  Lemma post_run_sound : forall rest pre ts stack',
    post_run rest (length pre) (forest_stack 0 ts []) = Some stack' ->
    pre = forest_nodes 0 ts ->
    exists ts', pre ++ rest = forest_nodes 0 ts' /\ stack' = forest_stack 0 ts' [].
  Proof.
    induction rest as [|nd rest IH]; intros pre ts stack' Hrun Hpre.
    - cbn [post_run] in Hrun. inversion Hrun; subst. exists ts. now rewrite app_nil_r.
    - assert (Hlen : length pre = forest_size ts) by (rewrite Hpre; apply forest_nodes_length).
      destruct nd as [[i [l|]] [u|]]; cbn [post_run] in Hrun; try discriminate.
      + (* inner node: the two topmost trees become its children *)
        destruct ts as [|t2 ts] using rev_ind; [cbn in Hrun; discriminate|]. clear IHts.
        destruct ts as [|t1 ts] using rev_ind.
        { cbn [app forest_stack] in Hrun. discriminate. }
        clear IHts.
        rewrite !forest_stack_app in Hrun. cbn [forest_stack forest_size] in Hrun.
        cbn [Nat.add] in Hrun. rewrite forest_size_app in Hrun. cbn [forest_size] in Hrun.
        rewrite Nat.add_0_r in Hrun.
        match type of Hrun with (if ?c then _ else _) = _ => destruct c eqn:E; [|discriminate] end.
        apply andb_true_iff in E as [Eu El]. apply Nat.eqb_eq in Eu, El.
        set (s := forest_size ts) in *.
        assert (Hnew : pre ++ [(i, Some l, Some u)] = forest_nodes 0 (ts ++ [Split i t1 t2])).
        { rewrite Hpre, <- !app_assoc, !forest_nodes_app. cbn [forest_nodes forest_size nodes_of Nat.add].
          rewrite ?Nat.add_0_r, ?app_nil_r. subst l u. unfold s. rewrite <- !app_assoc. reflexivity. }
        specialize (IH (pre ++ [(i, Some l, Some u)]) (ts ++ [Split i t1 t2]) stack').
        rewrite app_length in IH. cbn [length] in IH. rewrite Nat.add_1_r in IH.
        rewrite forest_stack_app in IH. cbn [forest_stack forest_size tree_size Nat.add] in IH.
        fold s in IH.
        rewrite !forest_size_app in Hlen. cbn [forest_size] in Hlen. fold s in Hlen.
        replace (s + S (tree_size t1 + tree_size t2) - 1) with (length pre) in IH by lia.
        destruct (IH Hrun Hnew) as (ts' & H1 & H2).
        exists ts'. split; [|exact H2]. rewrite <- H1, <- app_assoc. reflexivity.
      + (* leaf *)
        assert (Hnew : pre ++ [(i, None, None)] = forest_nodes 0 (ts ++ [Leaf i])).
        { rewrite Hpre, forest_nodes_app. cbn [forest_nodes nodes_of]. now rewrite app_nil_r. }
        specialize (IH (pre ++ [(i, None, None)]) (ts ++ [Leaf i]) stack').
        rewrite app_length in IH. cbn [length] in IH. rewrite Nat.add_1_r in IH.
        rewrite forest_stack_app in IH. cbn [forest_stack tree_size Nat.add] in IH.
        replace (forest_size ts + 1 - 1) with (length pre) in IH by lia.
        destruct (IH Hrun Hnew) as (ts' & H1 & H2).
        exists ts'. split; [|exact H2]. rewrite <- H1, <- app_assoc. reflexivity.
  Qed.

  Lemma forest_stack_length : forall ts base acc, length (forest_stack base ts acc) = length ts + length acc.
  Proof.
    induction ts as [|t ts IH]; intros base acc; cbn [forest_stack length]; [reflexivity|].
    rewrite IH. cbn [length]. lia.
  Qed.

  (* post_ok characterises the post-order listings *)
  Lemma post_ok_sound nodes : post_ok nodes = true -> exists t, nodes = nodes_of 0 t.
  Proof.
    unfold post_ok. intros H.
    destruct (post_run nodes 0 []) as [[|r [|r' st]]|] eqn:Hrun; try discriminate.
    destruct (post_run_sound nodes [] [] [r] Hrun eq_refl) as (ts & H1 & H2).
    pose proof (forest_stack_length ts 0 []) as Hl. rewrite <- H2 in Hl. cbn [length] in Hl.
    destruct ts as [|t [|t' ts]]; cbn [length] in Hl; try lia.
    exists t. cbn [app forest_nodes] in H1. now rewrite app_nil_r in H1.
  Qed.

  Lemma post_ok_complete (t : tree) : post_ok (nodes_of 0 t) = true.
  Proof.
    unfold post_ok. pose proof (post_run_nodes_of t 0 [] []) as H. rewrite app_nil_r in H.
    rewrite H. cbn [post_run Nat.add]. rewrite nodes_of_length.
    pose proof (tree_size_pos t). apply Nat.eqb_eq. lia.
  Qed.

  (* on every vector passing the post-order check: tree_of_nodes (with the correspondence's fuel and
     root = last index) succeeds, the tree has as many nodes as the vector, the vector is its
     listing, and the index invariant holds *)
  Lemma post_ok_decode nodes : post_ok nodes = true ->
    exists t, tree_of_nodes (S (length nodes)) nodes (length nodes - 1) = Some t /\
              tree_size t = length nodes /\ nodes = nodes_of 0 t /\ nodes_ok nodes = true.
  Proof.
    intros H. destruct (post_ok_sound nodes H) as [t ->]. exists t.
    destruct (nodes_of_roundtrip t) as (A & B & _ & D). cbv zeta in *. auto.
  Qed.
End Nodes.

(* satisfiability: the vector of a three-node tree *)
Definition ex_nodes : list (raw_node (T := nat)) :=
  [(mkInfo 1 0 [] [] [] 7, None, None); (mkInfo 1 1 [] [] [] 8, None, None);
   (mkInfo 2 0 [] [] [] 9, Some 0, Some 1)].
Lemma ex_nodes_ok : nodes_ok ex_nodes = true /\ post_ok ex_nodes = true.
Proof. split; reflexivity. Qed.
