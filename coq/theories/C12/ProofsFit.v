(* C12 — KMeans::fit after the seeding, end to end over the reals: tree construction + Lloyd loop.
   No well-formedness hypothesis: the tree is the one BBDTree::new builds (ProofsBuild.build_wf). *)
From Coq Require Import List ZArith Bool Arith Lia Reals Lra.
From SC Require Import Base.Num C12.Model C12.ProofsBase C12.ProofsKMeans C12.ProofsBuild.
Import ListNotations.
Open Scope R_scope.

Lemma fit_bookkeeping : forall maxv data k max_iter y0 m,
  (forall r, In r data -> length r = length (hd [] data)) -> separated data ->
  fit ROps maxv data k max_iter y0 = Some (Some m) ->
  (2 <= k)%nat /\ (1 <= max_iter)%nat /\ bookkeeping data k m.
Proof.
  intros maxv data k max_iter y0 m Hrect Hsep H. unfold fit in H.
  destruct (build ROps data) as [[root perm]|] eqn:Hb; [|discriminate].
  destruct (Nat.ltb_spec k 2) as [|Hk]; [discriminate|].
  destruct (Nat.eqb_spec max_iter 0) as [|Hit]; [discriminate|].
  destruct (lloyd ROps maxv data perm root k max_iter y0) as [m'|] eqn:Hl; [|discriminate].
  inversion H; subst m'. split; [lia|]. split; [lia|].
  apply (lloyd_bookkeeping maxv data perm root k max_iter y0 m); auto; [|lia].
  apply build_wf; auto.
Qed.

(* ---- a data set on which `fit` provably returns a model (used as the satisfiability example):
        two identical rows; the construction makes a single leaf ---- *)
Ltac rdec1 :=
  match goal with
  | |- context [Rltb ?a ?b] =>
      first [replace (Rltb a b) with true by (symmetry; apply Rltb_true; lra)
            |replace (Rltb a b) with false by (symmetry; apply Rltb_false; lra)]
  | |- context [Rleb ?a ?b] =>
      first [replace (Rleb a b) with true by (symmetry; apply Rleb_true; lra)
            |replace (Rleb a b) with false by (symmetry; apply Rleb_false; lra)]
  end.
Definition ex_dup : list (list R) := [[1]; [1]].
Lemma ex_dup_build' : exists i, build ROps ex_dup = Some (Leaf i, [0; 1]%nat) /\
  info_shape 1 i = true /\ n_index i = 0%nat /\ n_count i = 2%nat.
Proof.
  unfold build, ex_dup. cbn [length Nat.mul Nat.add seq].
  cbn [build_node Nat.ltb Nat.leb length negb Nat.sub].
  unfold bounds. cbn [seq fold_left nth fst snd map2 combine map oltb ROps].
  repeat rdec1. unfold two, leaf_threshold.
  cbn [max_radius_loop oltb oofZ oadd osub odiv o1 ROps].
  repeat rdec1. cbn [max_radius_loop]. repeat rdec1.
  eexists. split; [reflexivity|]. repeat split.
Qed.
Lemma ex_dup_fit : exists m, fit ROps 1000 ex_dup 2 1 [0; 1]%nat = Some (Some m).
Proof.
  destruct ex_dup_build' as (i & Hb & Hs & Hi & Hc).
  unfold fit. rewrite Hb. cbn [Nat.ltb Nat.leb Nat.eqb].
  unfold lloyd, ex_dup.
  cbn [length Nat.eqb negb hd init_acc repeat Nat.ltb Nat.leb upd nth vadd map2 combine map fst snd].
  cbn [lloyd_loop]. unfold clustering, shape_ok. cbn [tree_shape info_of length hd forallb Nat.leb Nat.eqb andb].
  rewrite Hs, Hi, Hc. cbn [Nat.add Nat.leb seq forallb nth Nat.ltb andb].
  match goal with |- context [filter ROps ?p ?c ?t ?cs ?s] => destruct (filter ROps p c t cs s) as [dist [[sums' size'] y']] end.
  destruct (oleb ROps 1000 dist); eexists; reflexivity.
Qed.
