(* C07 — instances for C07/ProofsFloat.v: the hypotheses of the rounding theorems about predict are
   satisfiable on inexact binary64 inputs (0.1, 0.2, 0.3, 0.7 ...: every operation rounds), and the margin
   of the threshold theorem is needed (a 1 x 1 model whose exact prediction is 2^-104 > 0 and whose
   binary64 prediction is 0).  Real values of float literals by computation. *)
From Coq Require Import List Arith ZArith Bool Reals Floats Lra Lia Psatz.
From Flocq Require Import Core BinarySingleNaN PrimFloat.
From SC Require Import Base.FloatUtil Base.Num Base.FloatError.
From SC Require C03.Model C03.ProofsFloat C03.ProofsFloat2 C07.Model C07.ProofsFloat.
Import ListNotations.
Local Open Scope R_scope.

Module M := SC.C03.Model.
Module F2 := SC.C03.ProofsFloat2.
Module C7 := SC.C07.Model.
Module PF := SC.C07.ProofsFloat.

(* numerator and denominator (a power of two) of a finite float; (0, 1) otherwise *)
Definition fq (x : PrimFloat.float) : Z * Z :=
  match FloatOps.Prim2SF x with
  | S754_finite s m e =>
      let n := if s then Z.neg m else Z.pos m in
      if (0 <=? e)%Z then (n * 2 ^ e, 1)%Z else (n, 2 ^ (- e))%Z
  | _ => (0, 1)%Z
  end.

Lemma FR_fq x n d : fq x = (n, d) -> FR x = IZR n / IZR d.
Proof.
  rewrite F2.FR_SF. unfold fq. destruct (FloatOps.Prim2SF x) as [s|s| |s m e]; cbn [SF2R].
  1-3: intros [= <- <-]; lra.
  unfold F2R. cbn [Fnum Fexp cond_Zopp].
  destruct (Z.leb_spec 0 e) as [He|He]; intros [= <- <-].
  - rewrite mult_IZR. rewrite <- (IZR_Zpower radix2 e He). change (radix_val radix2) with 2%Z.
    unfold Rdiv. rewrite Rinv_1, Rmult_1_r. destruct s; reflexivity.
  - replace e with (- (- e))%Z at 1 by lia. rewrite bpow_opp.
    rewrite <- (IZR_Zpower radix2 (- e)) by lia. change (radix_val radix2) with 2%Z.
    destruct s; cbn [Z.opp]; unfold Rdiv; reflexivity.
Qed.

(* replace every `FR <literal>` of the goal by its value n / 2^k *)
Ltac fr_literals :=
  repeat match goal with
  | |- context [FR ?x] =>
      let v := eval vm_compute in (fq x) in
      match v with
      | (?n, ?d) =>
          let E := fresh "E" in
          assert (E : fq x = (n, d)) by (vm_compute; reflexivity);
          rewrite (FR_fq x n d E); clear E
      end
  end.

(* rows (0.1, 0.3, 1) and (0.2, 0.7, -2) (column-major storage), w = (0.3, -0.1, 0.7), b = 0.2 *)
Definition ex_X : M.dm PrimFloat.float :=
  M.mkdm 2 3 [0x1.999999999999ap-4; 0x1.999999999999ap-3; 0x1.3333333333333p-2; 0x1.6666666666666p-1; 1; (-2)]%float.
Definition ex_w : M.dm PrimFloat.float :=
  M.mkdm 3 1 [0x1.3333333333333p-2; (-0x1.999999999999ap-4); 0x1.6666666666666p-1]%float.
Definition ex_b : PrimFloat.float := 0x1.999999999999ap-3%float.

Lemma ex_predict_finite :
  exists yh, C7.predict FOps ex_X ex_w ex_b = Some yh /\ (1 < M.nrows ex_X)%nat /\
             ffin (nth 0 yh 0%float) /\ ffin (nth 1 yh 0%float).
Proof. eexists. split; [vm_compute; reflexivity|]. split; [vm_compute; lia|]. split; vm_compute; reflexivity. Qed.


(* the margin is needed: x = w = 1 + 2^-52, b = -(1 + 2^-51): exact value 2^-104 > 0, computed value 0 *)
Definition tie_X : M.dm PrimFloat.float := M.mkdm 1 1 [0x1.0000000000001p+0]%float.
Definition tie_w : M.dm PrimFloat.float := M.mkdm 1 1 [0x1.0000000000001p+0]%float.
Definition tie_b : PrimFloat.float := (-0x1.0000000000002p+0)%float.

Lemma ex_threshold_margin_needed :
  exists yh, C7.predict FOps tie_X tie_w tie_b = Some yh /\ (0 < M.nrows tie_X)%nat /\
    ffin (nth 0 yh 0%float) /\ ffin 0%float /\
    FR (M.get FOps tie_X 0 0) * FR (M.get FOps tie_w 0 0) + FR tie_b = / 2 ^ 104 /\
    FR 0%float < FR (M.get FOps tie_X 0 0) * FR (M.get FOps tie_w 0 0) + FR tie_b /\
    PrimFloat.ltb 0%float (nth 0 yh 0%float) = false.
Proof.
  eexists. split; [vm_compute; reflexivity|]. split; [vm_compute; lia|].
  split; [vm_compute; reflexivity|]. split; [vm_compute; reflexivity|].
  assert (E : FR (M.get FOps tie_X 0 0) * FR (M.get FOps tie_w 0 0) + FR tie_b = / 2 ^ 104).
  { cbn [tie_X tie_w tie_b M.get M.values M.nrows nth Nat.mul Nat.add]. fr_literals. field. }
  split; [exact E|]. split; [|vm_compute; reflexivity].
  rewrite E, FR_zero. apply Rinv_0_lt_compat. apply pow_lt. lra.
Qed.

(* scaling X by 4 and w by 1/4 with the model's mul_scalar *)
Lemma ex_mul_scalar_exact (l : list PrimFloat.float) (e : Z) (c : PrimFloat.float) :
  F2.pow2_b e c = true -> forallb (fun x => F2.scaled_b e x (PrimFloat.mul x c)) l = true ->
  forall x, In x l -> FR (PrimFloat.mul x c) = FR x * FR c.
Proof.
  intros Hc Hl x Hx. rewrite forallb_forall in Hl. apply (F2.mul_pow2_exact_b e); [exact Hc | apply Hl, Hx].
Qed.

Lemma ex_scale :
  let c := 4%float in let d := 0.25%float in
  FR c = powerRZ 2 2 /\ FR d = powerRZ 2 (- (2)) /\
  (forall x, In x (M.values ex_X) -> FR (PrimFloat.mul x c) = FR x * FR c) /\
  (forall x, In x (M.values ex_w) -> FR (PrimFloat.mul x d) = FR x * FR d) /\
  exists yh yh', C7.predict FOps ex_X ex_w ex_b = Some yh /\
    C7.predict FOps (M.mul_scalar FOps ex_X c) (M.mul_scalar FOps ex_w d) ex_b = Some yh' /\
    (1 < M.nrows ex_X)%nat /\ ffin (nth 1 yh 0%float) /\ ffin (nth 1 yh' 0%float).
Proof.
  cbv zeta.
  split; [apply F2.pow2_b_sound; vm_compute; reflexivity|].
  split; [apply F2.pow2_b_sound; vm_compute; reflexivity|].
  split; [apply (ex_mul_scalar_exact _ 2); vm_compute; reflexivity|].
  split; [apply (ex_mul_scalar_exact _ (-2)); vm_compute; reflexivity|].
  eexists. eexists. split; [vm_compute; reflexivity|]. split; [vm_compute; reflexivity|].
  split; [vm_compute; lia|]. split; vm_compute; reflexivity.
Qed.


(* the entrywise hypothesis of predict_scale_pow2_exact, from the mul_scalar form *)
Lemma ex_rescaled : forall k, (k < M.ncols ex_X)%nat ->
  PF.rescaled 2 (M.get FOps ex_X 1 k) (M.get FOps (M.mul_scalar FOps ex_X 4%float) 1 k).
Proof.
  intros k Hk. apply PF.rescaled_mul_scalar.
  - apply F2.pow2_b_sound. vm_compute. reflexivity.
  - apply (ex_mul_scalar_exact _ 2); vm_compute; reflexivity.
  - cbn [ex_X M.ncols] in Hk. destruct k as [|[|[|k]]]; [| | |lia]; vm_compute; reflexivity.
Qed.

