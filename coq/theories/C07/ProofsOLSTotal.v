(* C07 — OLS totality and uniqueness (extension).  For a design whose augmented matrix [X 1] has
   linearly independent columns (equivalently: the augmented Gram matrix [X 1]^T [X 1] is positive
   definite), over the reals:
     - C01's qr_mut never produces a zero diagonal entry of R, so QR::solve does not panic and
       LinearRegression::fit with the QR solver RETURNS;
     - the least-squares objective has exactly one minimiser, so every least-squares solver (QR,
       SVD under its post-condition) returns the same coefficients and intercept. *)
From Coq Require Import List Arith Bool Lia Reals Lra.
From SC Require Import Base.Num C01.Model C01.Proofs C01.Proofs_qr C03.ProofsBase C03.ProofsAlg
     C07.Model C07.ProofsObj C07.ProofsFit C07.ProofsRidge C07.ProofsSolve C07.ProofsOLS C07.ProofsMain.
Import ListNotations.
Local Open Scope R_scope.

Local Notation get := (D.get ROps).

(* ---------- triangular systems over R ---------- *)
Lemma zero_or_all n (f : nat -> R) :
  (exists k, (k < n)%nat /\ f k = 0) \/ (forall k, (k < n)%nat -> f k <> 0).
Proof.
  induction n as [|n IH]; [right; intros; lia|].
  destruct IH as [[k [Hk E]]|IH]; [left; exists k; split; [lia|exact E]|].
  destruct (Req_dec (f n) 0) as [E|E]; [left; exists n; split; [lia|exact E]|].
  right. intros k Hk. destruct (Nat.eq_dec k n) as [->|Hne]; [exact E|apply IH; lia].
Qed.
Lemma nonzero_or_all n (f : nat -> R) :
  (exists k, (k < n)%nat /\ f k <> 0) \/ (forall k, (k < n)%nat -> f k = 0).
Proof.
  induction n as [|n IH]; [right; intros; lia|].
  destruct IH as [[k [Hk E]]|IH]; [left; exists k; split; [lia|exact E]|].
  destruct (Req_dec (f n) 0) as [E|E]; [|left; exists n; split; [lia|exact E]].
  right. intros k Hk. destruct (Nat.eq_dec k n) as [->|Hne]; [exact E|apply IH; lia].
Qed.

(* an upper-triangular system with a non-zero diagonal has a solution *)
Lemma tri_solve n (U : nat -> nat -> R) :
  (forall i j, (j < i)%nat -> U i j = 0) -> (forall k, (k < n)%nat -> U k k <> 0) ->
  forall b : nat -> R, exists x : nat -> R, forall i, (i < n)%nat -> rsum n (fun t => U i t * x t) = b i.
Proof.
  intros Htri. induction n as [|n IH]; intros Hd b.
  - exists (fun _ => 0). intros; lia.
  - set (xn := b n / U n n).
    destruct (IH ltac:(intros; apply Hd; lia) (fun i => b i - U i n * xn)) as [x Hx].
    exists (fun t => if Nat.eqb t n then xn else x t). intros i Hi.
    rewrite rsum_S, Nat.eqb_refl.
    rewrite (rsum_ext n _ (fun t => U i t * x t))
      by (intros t Ht; destruct (Nat.eqb_spec t n); [lia|reflexivity]).
    destruct (Nat.eq_dec i n) as [->|Hne].
    + rewrite rsum_zero by (intros t Ht; rewrite Htri by lia; ring).
      unfold xn. field. apply Hd. lia.
    + rewrite Hx by lia. ring.
Qed.
(* an upper-triangular matrix with a zero on its diagonal has a non-trivial kernel *)
Lemma tri_kernel n (U : nat -> nat -> R) :
  (forall i j, (j < i)%nat -> U i j = 0) -> (exists k, (k < n)%nat /\ U k k = 0) ->
  exists x : nat -> R, (exists j, (j < n)%nat /\ x j <> 0) /\
    forall i, (i < n)%nat -> rsum n (fun t => U i t * x t) = 0.
Proof.
  intros Htri. induction n as [|n IH]; intros Hz; [destruct Hz as [k [Hk _]]; lia|].
  destruct (zero_or_all n (fun k => U k k)) as [Hex|Hall].
  - destruct (IH Hex) as [x [[j [Hj Hxj]] Hx]].
    exists (fun t => if t <? n then x t else 0). split.
    + exists j. split; [lia|]. replace (j <? n) with true by (symmetry; apply Nat.ltb_lt; exact Hj). exact Hxj.
    + intros i Hi. rewrite rsum_S, Nat.ltb_irrefl.
      rewrite (rsum_ext n _ (fun t => U i t * x t))
        by (intros t Ht; replace (t <? n) with true by (symmetry; apply Nat.ltb_lt; exact Ht); reflexivity).
      destruct (Nat.eq_dec i n) as [->|Hne].
      * rewrite rsum_zero by (intros t Ht; rewrite Htri by lia; ring). ring.
      * rewrite Hx by lia. ring.
  - assert (Hnn : U n n = 0).
    { destruct Hz as [k [Hk E]]. destruct (Nat.eq_dec k n) as [->|Hne]; [exact E|].
      exfalso. apply (Hall k ltac:(lia)). exact E. }
    destruct (tri_solve n U Htri Hall (fun i => - U i n)) as [x Hx].
    exists (fun t => if Nat.eqb t n then 1 else x t). split.
    + exists n. split; [lia|]. rewrite Nat.eqb_refl. lra.
    + intros i Hi. rewrite rsum_S, Nat.eqb_refl.
      rewrite (rsum_ext n _ (fun t => U i t * x t))
        by (intros t Ht; destruct (Nat.eqb_spec t n); [lia|reflexivity]).
      destruct (Nat.eq_dec i n) as [->|Hne].
      * rewrite rsum_zero by (intros t Ht; rewrite Htri by lia; ring). rewrite Hnn. ring.
      * rewrite Hx by lia. ring.
Qed.

(* ---------- qr_mut on a matrix with independent columns: no zero on the diagonal of R ---------- *)
Definition indep_cols (m n : nat) (A : @L.Mx R) : Prop :=
  forall x : nat -> R, (forall i, (i < m)%nat -> rsum n (fun t => A i t * x t) = 0) ->
    forall j, (j < n)%nat -> x j = 0.

Lemma qr_tau_nonzero m n (A : @L.Mx R) : (n <= m)%nat -> indep_cols m n A ->
  forall k, (k < n)%nat -> snd (L.qr_mut ROps m n A) k <> 0.
Proof.
  intros Hnm Hind k Hk Hz.
  pose proof (qr_triangularize m n A Hnm) as T. pose proof (qr_refl_ok m n A Hnm) as F.
  destruct (L.qr_mut ROps m n A) as [QR tau]. cbn [fst snd] in *.
  set (U := L.qr_R ROps QR tau).
  assert (Htri : forall i j, (j < i)%nat -> U i j = 0) by (intros; apply qr_R_upper; assumption).
  assert (Hkk : U k k = 0) by (unfold U, L.qr_R; rewrite Nat.eqb_refl; exact Hz).
  destruct (tri_kernel n U Htri (ex_intro _ k (conj Hk Hkk))) as [x [[j [Hj Hxj]] Hx]].
  apply Hxj. apply Hind; [|exact Hj]. intros i Hi.
  set (v := fun r => rsum n (fun t => x t * A r t)).
  assert (Hq : forall r, (r < m)%nat -> Qtapp m QR n v r = 0).
  { intros r Hr. unfold v. rewrite (Qtapp_lin_sum m QR n n x (fun t r0 => A r0 t) r).
    destruct (le_lt_dec n r) as [Hrn|Hrn].
    - apply rsum_zero. intros t Ht. rewrite T by assumption.
      replace (r <=? t) with false by (symmetry; apply Nat.leb_gt; lia). ring.
    - rewrite <- (Hx r Hrn). apply rsum_ext. intros t Ht. rewrite T by assumption. fold U.
      destruct (Nat.leb_spec r t); [ring|]. rewrite Htri by lia. ring. }
  assert (E : v i = 0).
  { rewrite <- (Qapp_Qtapp m QR n F v i).
    rewrite (Qapp_ext m QR n _ (fun _ => 0)) by (intros; apply Hq; assumption).
    apply Qapp_zero. }
  unfold v in E. rewrite <- E. apply rsum_ext. intros; ring.
Qed.

Lemma qr_solve_mut_total m n bn (A b : @L.Mx R) : (n <= m)%nat -> indep_cols m n A ->
  exists X, L.qr_solve_mut ROps m n bn A b = Some X.
Proof.
  intros Hnm Hind. pose proof (qr_tau_nonzero m n A Hnm Hind) as Ht.
  unfold L.qr_solve_mut. destruct (L.qr_mut ROps m n A) as [QR tau]. cbn [snd] in Ht.
  unfold L.qr_solve. destruct (L.qr_singular ROps n tau) eqn:E; [|eexists; reflexivity].
  exfalso. unfold L.qr_singular in E. apply existsb_exists in E. destruct E as [k [Hin Hk]].
  apply in_seq in Hin. cbn [oeqb o0 ROps] in Hk. apply Reqb_true in Hk. apply (Ht k ltac:(lia)). exact Hk.
Qed.

(* ---------- full column rank of the augmented design [X 1] ---------- *)
(* the columns of [X 1] are linearly independent: the only (c, c0) with X c + c0 1 = 0 is zero *)
Definition ols_full_rank (X : dm R) : Prop :=
  forall (c : nat -> R) (c0 : R),
    (forall i, (i < nrows X)%nat -> rsum (ncols X) (fun k => get X i k * c k) + c0 = 0) ->
    (forall k, (k < ncols X)%nat -> c k = 0) /\ c0 = 0.
(* the same thing as a quadratic form: [X 1]^T [X 1] is positive definite,
   (c, c0)^T [X 1]^T [X 1] (c, c0) = sum_i (sum_k X_ik c_k + c0)^2 *)
Definition aug_gram_pos_def (X : dm R) : Prop :=
  forall (c : nat -> R) (c0 : R), (exists k, (k < ncols X)%nat /\ c k <> 0) \/ c0 <> 0 ->
    0 < rsum (nrows X) (fun i => (rsum (ncols X) (fun k => get X i k * c k) + c0) ^ 2).

Lemma ols_full_rank_iff_pos_def X : ols_full_rank X <-> aug_gram_pos_def X.
Proof.
  split.
  - intros H c c0 Hnz.
    assert (H0 : 0 <= rsum (nrows X) (fun i => (rsum (ncols X) (fun k => get X i k * c k) + c0) ^ 2))
      by (apply rsum_nonneg; intros; apply pow2_ge_0).
    destruct (Req_dec (rsum (nrows X) (fun i => (rsum (ncols X) (fun k => get X i k * c k) + c0) ^ 2)) 0) as [E|E]; [|lra].
    exfalso. destruct (H c c0) as [Hc Hc0].
    { intros i Hi. exact (ProofsObj.rsum_sq_zero (nrows X) _ E i Hi). }
    destruct Hnz as [[k [Hk Hck]]|Hc0']; [apply Hck, Hc; exact Hk|apply Hc0'; exact Hc0].
  - intros H c c0 Hz.
    assert (E : rsum (nrows X) (fun i => (rsum (ncols X) (fun k => get X i k * c k) + c0) ^ 2) = 0).
    { apply rsum_zero. intros i Hi. rewrite (Hz i Hi). ring. }
    destruct (nonzero_or_all (ncols X) c) as [Hex|Hall].
    + specialize (H c c0 (or_introl Hex)). lra.
    + split; [exact Hall|]. destruct (Req_dec c0 0) as [E0|E0]; [exact E0|].
      specialize (H c c0 (or_intror E0)). lra.
Qed.


(* ---------- uniqueness of the least-squares minimiser ---------- *)
Lemma ols_quad_zero (X : dm R) d e : ols_full_rank X ->
  quad (nrows X) (ncols X) (get X) 0 d e = 0 -> (forall k, (k < ncols X)%nat -> d k = 0) /\ e = 0.
Proof.
  intros Hfr H. unfold quad in H. rewrite Rmult_0_l, Rplus_0_r in H.
  apply Hfr. intros i Hi. exact (ProofsObj.rsum_sq_zero (nrows X) _ H i Hi).
Qed.
Lemma ols_stationary_unique (X : dm R) (y : nat -> R) w c : ols_full_rank X ->
  (forall j, (j < ncols X)%nat -> grad_w (nrows X) (ncols X) (get X) y 0 w c j = 0) ->
  grad_c (nrows X) (ncols X) (get X) y w c = 0 ->
  forall w' c', obj (nrows X) (ncols X) (get X) y 0 w' c' <= obj (nrows X) (ncols X) (get X) y 0 w c ->
    (forall k, (k < ncols X)%nat -> w' k = w k) /\ c' = c.
Proof.
  intros Hfr Hg Hc w' c' Hle.
  assert (E : obj (nrows X) (ncols X) (get X) y 0 w' c'
              = obj (nrows X) (ncols X) (get X) y 0 (fun k => w k + (w' k - w k)) (c + (c' - c))).
  { unfold obj, res. f_equal.
    - apply rsum_ext. intros i _. f_equal. f_equal; [|ring]. f_equal. apply rsum_ext. intros; f_equal; ring.
    - f_equal. apply rsum_ext. intros; f_equal; ring. }
  rewrite E, obj_expand in Hle. rewrite (rsum_zero (ncols X)) in Hle by (intros k Hk; rewrite (Hg k Hk); ring).
  rewrite Hc in Hle.
  pose proof (quad_nonneg (nrows X) (ncols X) (get X) 0 (Rle_refl 0) (fun k => w' k - w k) (c' - c)) as Hq.
  assert (Hz : quad (nrows X) (ncols X) (get X) 0 (fun k => w' k - w k) (c' - c) = 0) by lra.
  destruct (ols_quad_zero X _ _ Hfr Hz) as [H1 H2]. split; [|lra].
  intros k Hk. specialize (H1 k Hk). cbv beta in H1. lra.
Qed.

(* the fitted (w, b) is the unique minimiser, for every least-squares solver *)
Lemma ols_unique_minimiser solver (X : dm R) (y : list R) wm b :
  wfR X -> (ncols X < nrows X)%nat -> ols_full_rank X -> lsq_solver solver ->
  ols_fit ROps solver X y = Some (wm, b) ->
  forall w' b', objective X y 0 w' b' <= objective X y 0 (colf wm) b ->
    (forall k, (k < ncols X)%nat -> w' k = get wm k 0%nat) /\ b' = b.
Proof.
  intros Hwf Hnp Hfr Hsol Hfit w' b' Hle.
  destruct (ols_fit_spec solver X y wm b Hwf Hnp Hsol Hfit) as [_ [_ [_ [_ [Hg Hc]]]]].
  rewrite !objective_obj in Hle.
  exact (ols_stationary_unique X (vecf y) (colf wm) b Hfr Hg Hc w' b' Hle).
Qed.

Lemma ols_solvers_agree s1 s2 (X : dm R) (y : list R) w1 b1 w2 b2 :
  wfR X -> (ncols X < nrows X)%nat -> ols_full_rank X -> lsq_solver s1 -> lsq_solver s2 ->
  ols_fit ROps s1 X y = Some (w1, b1) -> ols_fit ROps s2 X y = Some (w2, b2) ->
  (forall k, (k < ncols X)%nat -> get w1 k 0%nat = get w2 k 0%nat) /\ b1 = b2.
Proof.
  intros Hwf Hnp Hfr H1 H2 F1 F2.
  destruct (ols_normal_equations s1 X y w1 b1 Hwf Hnp H1 F1) as (_ & _ & _ & _ & _ & Hmin).
  destruct (ols_unique_minimiser s2 X y w2 b2 Hwf Hnp Hfr H2 F2 (colf w1) b1 (Hmin (colf w2) b2)) as [E1 E2].
  split; [exact E1|exact E2].
Qed.

(* ---------- totality of the QR path ---------- *)
Lemma ols_fit_total_of_solver solver (X : dm R) (y : list R) :
  wfR X -> length y = nrows X ->
  (forall a, wfR a -> nrows a = nrows X -> ncols a = (ncols X + 1)%nat ->
     (forall r c, (r < nrows X)%nat -> (c < ncols X + 1)%nat ->
        get a r c = if c <? ncols X then get X r c else 1) ->
     exists w, solver a (col_vec ROps y) = Some w /\ wfR w /\ (ncols X < nrows w)%nat /\ (0 < ncols w)%nat) ->
  exists wm b, ols_fit ROps solver X y = Some (wm, b).
Proof.
  intros Hwf Hy Hsol. unfold ols_fit.
  pose proof (col_vec_shape y) as [C1 [C2 C3]]. rewrite C1, Hy, Nat.eqb_refl. cbn [negb].
  destruct (h_stack_spec ROps X (D.ones ROps (nrows X) 1)) as [_ Hh].
  destruct (Hh eq_refl) as [a [Ha [A1 [A2 [A3 A4]]]]]. rewrite Ha.
  change (ncols (D.ones ROps (nrows X) 1)) with 1%nat in *.
  destruct (Hsol a A3 A1 A2) as [w [Hs [W1 [W2 W3]]]].
  { intros r c Hr Hc. rewrite A4 by assumption.
    destruct (Nat.ltb_spec c (ncols X)); [reflexivity|].
    unfold D.ones. rewrite get_fill by lia. reflexivity. }
  rewrite Hs.
  destruct (slice_spec ROps w 0 (ncols X) 0 1) as [_ Hsl].
  destruct (Hsl ltac:(left; lia)) as [s [Hs' _]]. rewrite Hs'.
  rewrite (get_chk_spec ROps w (ncols X) 0 W1).
  replace (ncols X <? nrows w) with true by (symmetry; apply Nat.ltb_lt; lia).
  replace (0 <? ncols w) with true by (symmetry; apply Nat.ltb_lt; lia). cbn [andb].
  eexists. eexists. reflexivity.
Qed.

Lemma ols_qr_returns (X : dm R) (y : list R) :
  wfR X -> (ncols X < nrows X)%nat -> length y = nrows X -> ols_full_rank X ->
  exists wm b, ols_fit ROps (qr_solve_mut ROps) X y = Some (wm, b).
Proof.
  intros Hwf Hnp Hy Hfr. apply ols_fit_total_of_solver; try assumption.
  intros a A3 A1 A2 A4.
  pose proof (col_vec_shape y) as [C1 [C2 C3]].
  unfold qr_solve_mut. rewrite C1, Hy, A1, Nat.eqb_refl. cbn [negb].
  destruct (qr_solve_mut_total (nrows X) (ncols a) (ncols (col_vec ROps y)) (to_mx ROps a) (to_mx ROps (col_vec ROps y)))
    as [Xs HX]; [lia| |].
  - intros x Hx j Hj. rewrite A2 in *.
    destruct (Hfr x (x (ncols X))) as [Hc Hc0].
    { intros i Hi. specialize (Hx i Hi). rewrite Nat.add_1_r, rsum_S in Hx. rewrite <- Hx.
      unfold to_mx. rewrite A4 by lia. rewrite Nat.ltb_irrefl. f_equal; [|ring].
      apply rsum_ext. intros k Hk. rewrite A4 by lia.
      replace (k <? ncols X) with true by (symmetry; apply Nat.ltb_lt; exact Hk). reflexivity. }
    destruct (Nat.eq_dec j (ncols X)) as [->|Hne]; [exact Hc0|apply Hc; lia].
  - rewrite HX. eexists. split; [reflexivity|].
    pose proof (of_mx_shape (nrows X) (ncols (col_vec ROps y)) Xs) as [S1 [S2 S3]].
    split; [exact S3|]. rewrite S1, S2, C2. split; lia.
Qed.

(* totality + uniqueness: the QR fit exists, is the unique minimiser, and every other least-squares
   solver that returns (the SVD under its post-condition) returns the same numbers *)
Lemma ols_qr_total_unique (X : dm R) (y : list R) :
  wfR X -> (ncols X < nrows X)%nat -> length y = nrows X -> ols_full_rank X ->
  exists wm b, ols_fit ROps (qr_solve_mut ROps) X y = Some (wm, b) /\
    (forall w' b', objective X y 0 (colf wm) b <= objective X y 0 w' b') /\
    (forall w' b', objective X y 0 w' b' <= objective X y 0 (colf wm) b ->
       (forall k, (k < ncols X)%nat -> w' k = get wm k 0%nat) /\ b' = b) /\
    (forall solver w2 b2, lsq_solver solver -> ols_fit ROps solver X y = Some (w2, b2) ->
       (forall k, (k < ncols X)%nat -> get w2 k 0%nat = get wm k 0%nat) /\ b2 = b).
Proof.
  intros Hwf Hnp Hy Hfr. destruct (ols_qr_returns X y Hwf Hnp Hy Hfr) as [wm [b Hfit]].
  exists wm, b. split; [exact Hfit|].
  destruct (ols_normal_equations _ X y wm b Hwf Hnp qr_lsq_solver Hfit) as (_ & _ & _ & _ & _ & Hmin).
  split; [exact Hmin|]. split.
  - exact (ols_unique_minimiser _ X y wm b Hwf Hnp Hfr qr_lsq_solver Hfit).
  - intros solver w2 b2 Hs F2.
    exact (ols_solvers_agree solver (qr_solve_mut ROps) X y w2 b2 wm b Hwf Hnp Hfr Hs qr_lsq_solver F2 Hfit).
Qed.

(* the SVD path never panics in solve: fit returns whenever the factorisation routine does (no rank
   condition; convergence of the sweeps is the factorisation's business, C01's gap) *)
Lemma ols_svd_returns eps fact (X : dm R) (y : list R) :
  wfR X -> (ncols X < nrows X)%nat -> length y = nrows X ->
  (forall A, exists st, fact (nrows X) (ncols X + 1)%nat A = Some st) ->
  exists wm b, ols_fit ROps (svd_solve_with ROps fact eps) X y = Some (wm, b).
Proof.
  intros Hwf Hnp Hy Hfact. apply ols_fit_total_of_solver; try assumption.
  intros a A3 A1 A2 A4.
  pose proof (col_vec_shape y) as [C1 [C2 C3]].
  unfold svd_solve_with. rewrite A1, A2.
  destruct (Hfact (to_mx ROps a)) as [st Hst]. rewrite Hst.
  rewrite C1, Hy, Nat.eqb_refl. cbn [negb].
  eexists. split; [reflexivity|].
  match goal with |- wfR (of_mx ?n ?p ?M) /\ _ => pose proof (of_mx_shape n p M) as [S1 [S2 S3]] end.
  split; [exact S3|]. rewrite S1, S2, C2. split; lia.
Qed.

(* ---------- the converse: the QR path returns ONLY on full-column-rank designs ---------- *)
Lemma tri_inj n (U : nat -> nat -> R) :
  (forall i j, (j < i)%nat -> U i j = 0) -> (forall k, (k < n)%nat -> U k k <> 0) ->
  forall x : nat -> R, (forall i, (i < n)%nat -> rsum n (fun t => U i t * x t) = 0) ->
  forall j, (j < n)%nat -> x j = 0.
Proof.
  intros Htri. induction n as [|n IH]; intros Hd x Hx j Hj; [lia|].
  assert (Hn : x n = 0).
  { pose proof (Hx n ltac:(lia)) as H. rewrite rsum_S in H.
    rewrite rsum_zero in H by (intros t Ht; rewrite Htri by lia; ring).
    apply (Rmult_eq_reg_l (U n n)); [lra|apply Hd; lia]. }
  destruct (Nat.eq_dec j n) as [->|Hne]; [exact Hn|].
  apply (IH ltac:(intros; apply Hd; lia) x); [|lia].
  intros i Hi. pose proof (Hx i ltac:(lia)) as H. rewrite rsum_S, Hn in H. lra.
Qed.

Lemma qr_tau_nonzero_indep m n (A : @L.Mx R) : (n <= m)%nat ->
  (forall k, (k < n)%nat -> snd (L.qr_mut ROps m n A) k <> 0) -> indep_cols m n A.
Proof.
  intros Hnm Ht x Hx.
  pose proof (qr_triangularize m n A Hnm) as T.
  destruct (L.qr_mut ROps m n A) as [QR tau]. cbn [snd] in *.
  set (U := L.qr_R ROps QR tau).
  assert (Htri : forall i j, (j < i)%nat -> U i j = 0) by (intros; apply qr_R_upper; assumption).
  assert (Hd : forall k, (k < n)%nat -> U k k <> 0).
  { intros k Hk. unfold U, L.qr_R. rewrite Nat.eqb_refl. apply Ht. exact Hk. }
  apply (tri_inj n U Htri Hd). intros r Hr.
  set (v := fun r => rsum n (fun t => x t * A r t)).
  assert (Hv : forall i, (i < m)%nat -> v i = 0).
  { intros i Hi. unfold v. rewrite <- (Hx i Hi). apply rsum_ext. intros; ring. }
  assert (E : Qtapp m QR n v r = 0).
  { rewrite (Qtapp_ext m QR n v (fun _ => 0)) by (intros; apply Hv; lia). apply Qtapp_zero. }
  rewrite <- E. unfold v. rewrite (Qtapp_lin_sum m QR n n x (fun t r0 => A r0 t) r).
  apply rsum_ext. intros t Ht'. rewrite T by lia. fold U.
  destruct (Nat.leb_spec r t); [ring|]. rewrite Htri by lia. ring.
Qed.

Lemma qr_solve_mut_some_indep m n bn (A b X : @L.Mx R) : (n <= m)%nat ->
  L.qr_solve_mut ROps m n bn A b = Some X -> indep_cols m n A.
Proof.
  intros Hnm H. apply (qr_tau_nonzero_indep m n A Hnm).
  unfold L.qr_solve_mut in H. destruct (L.qr_mut ROps m n A) as [QR tau]. cbn [snd].
  unfold L.qr_solve in H. destruct (L.qr_singular ROps n tau) eqn:E; [discriminate|].
  exact (qr_singular_false n tau E).
Qed.

Lemma ols_qr_some_full_rank (X : dm R) (y : list R) wm b :
  wfR X -> (ncols X < nrows X)%nat ->
  ols_fit ROps (qr_solve_mut ROps) X y = Some (wm, b) -> ols_full_rank X.
Proof.
  intros Hwf Hnp. unfold ols_fit.
  destruct (negb (nrows X =? nrows (col_vec ROps y))); [discriminate|].
  destruct (h_stack_spec ROps X (D.ones ROps (nrows X) 1)) as [_ Hh].
  destruct (Hh eq_refl) as [a [Ha [A1 [A2 [A3 A4]]]]]. rewrite Ha.
  change (ncols (D.ones ROps (nrows X) 1)) with 1%nat in *.
  destruct (qr_solve_mut ROps a (col_vec ROps y)) as [w|] eqn:Hs; [|discriminate]. intros _.
  unfold qr_solve_mut in Hs.
  destruct (negb (nrows (col_vec ROps y) =? nrows a)); [discriminate|].
  destruct (L.qr_solve_mut ROps (nrows a) (ncols a) (ncols (col_vec ROps y)) (to_mx ROps a) (to_mx ROps (col_vec ROps y)))
    as [Xs|] eqn:HX; [|discriminate].
  assert (Hle : (ncols a <= nrows a)%nat) by lia.
  pose proof (qr_solve_mut_some_indep _ _ _ _ _ Xs Hle HX) as Hind.
  intros c c0 Hz. rewrite A1, A2 in Hind.
  set (x := fun k => if k <? ncols X then c k else c0).
  assert (Hx : forall j, (j < ncols X + 1)%nat -> x j = 0).
  { apply Hind. intros i Hi. rewrite <- (Hz i Hi). rewrite Nat.add_1_r, rsum_S.
    unfold to_mx. rewrite A4 by lia. unfold x at 2. rewrite Nat.ltb_irrefl.
    unfold D.ones. rewrite get_fill by lia. cbn [o1 ROps]. f_equal; [|ring].
    apply rsum_ext. intros k Hk. rewrite A4 by lia. unfold x.
    replace (k <? ncols X) with true by (symmetry; apply Nat.ltb_lt; exact Hk). reflexivity. }
  split.
  - intros k Hk. specialize (Hx k ltac:(lia)). unfold x in Hx.
    replace (k <? ncols X) with true in Hx by (symmetry; apply Nat.ltb_lt; exact Hk). exact Hx.
  - specialize (Hx (ncols X) ltac:(lia)). unfold x in Hx. rewrite Nat.ltb_irrefl in Hx. exact Hx.
Qed.

Lemma ols_qr_returns_iff (X : dm R) (y : list R) :
  wfR X -> (ncols X < nrows X)%nat -> length y = nrows X ->
  ((exists wm b, ols_fit ROps (qr_solve_mut ROps) X y = Some (wm, b)) <-> ols_full_rank X).
Proof.
  intros Hwf Hnp Hy. split.
  - intros [wm [b H]]. exact (ols_qr_some_full_rank X y wm b Hwf Hnp H).
  - intros Hfr. exact (ols_qr_returns X y Hwf Hnp Hy Hfr).
Qed.
