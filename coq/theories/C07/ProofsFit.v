(* C07 — from the matrix code to index equations: shapes and entries of everything `fit` and
   `predict` build (column vector, ridge system, diagonal update, back-transformation). *)
From Coq Require Import List Arith Bool Lia Reals Lra.
From SC Require Import Base.Num C01.Model C01.Proofs C03.ProofsBase C03.ProofsAlg C07.Model.
From SC Require C03.ProofsRed.
Import ListNotations.
Local Open Scope R_scope.

Local Notation get := (D.get ROps).
Notation wfR := (@ProofsBase.wf R).

Lemma rsum_red n f : ProofsRed.rsum n f = rsum n f.
Proof. reflexivity. Qed.

(* ---------- M::from_row_vector(y).transpose() ---------- *)
Lemma col_vec_shape (y : list R) :
  nrows (col_vec ROps y) = length y /\ ncols (col_vec ROps y) = 1%nat /\ wfR (col_vec ROps y).
Proof. unfold col_vec. pose proof (transpose_shape ROps (D.from_row_vector y)) as [H1 [H2 H3]]. auto. Qed.
Lemma get_col_vec (y : list R) i : (i < length y)%nat -> get (col_vec ROps y) i 0%nat = nth i y 0.
Proof.
  intros Hi. unfold col_vec. rewrite get_transpose by (cbn; lia).
  apply (row_vector_get ROps).
Qed.

(* ---------- of_mx / to_mx ---------- *)
Lemma of_mx_shape n p A : nrows (of_mx n p A) = n /\ ncols (of_mx n p A) = p /\ wfR (of_mx (T := R) n p A).
Proof. unfold of_mx. repeat split. apply tab_wf. Qed.
Lemma get_of_mx n p A r c : (r < n)%nat -> (c < p)%nat -> get (of_mx n p A) r c = A r c.
Proof. intros. unfold of_mx. apply (get_tab ROps); assumption. Qed.

(* ---------- for i in 0..k { m.add_element_mut(i, i, alpha) } ---------- *)
Lemma add_diag_spec k (A : dm R) alpha : wfR A -> (k <= nrows A)%nat -> (k <= ncols A)%nat ->
  exists M, add_diag ROps k A alpha = Some M /\ nrows M = nrows A /\ ncols M = ncols A /\ wfR M /\
    forall r c, (r < nrows A)%nat -> (c < ncols A)%nat ->
      get M r c = if (Nat.eqb r c && (r <? k))%bool then get A r c + alpha else get A r c.
Proof.
  intros Hwf. induction k as [|k IH]; intros Hr Hc.
  - exists A. repeat split; try assumption. intros r c _ _. rewrite andb_false_r. reflexivity.
  - destruct IH as [M [HM [H1 [H2 [H3 H4]]]]]; try lia.
    unfold add_diag in *. rewrite seq_S, fold_left_app, HM. cbn [fold_left Nat.add].
    destruct (upd_element_spec ROps (fun v => v + alpha) M k k H3) as [M' [HM' [G1 [G2 [G3 G4]]]]]; try lia.
    exists M'. split; [exact HM'|]. split; [lia|]. split; [lia|]. split; [exact G3|].
    intros r c Hr' Hc'. rewrite G4 by lia. rewrite !H4 by lia.
    destruct (Nat.eqb_spec r k) as [->|Hrk]; destruct (Nat.eqb_spec c k) as [->|Hck]; cbn [andb].
    + rewrite Nat.eqb_refl. rewrite Nat.ltb_irrefl. cbn [andb].
      replace (k <? S k) with true by (symmetry; apply Nat.ltb_lt; lia). reflexivity.
    + destruct (Nat.eqb_spec k c); [congruence|]. reflexivity.
    + destruct (Nat.eqb_spec r k); [congruence|]. cbn [andb]. reflexivity.
    + destruct (Nat.eqb_spec r c) as [->|Hrc]; cbn [andb]; [|reflexivity].
      replace (c <? S k) with (c <? k); [reflexivity|].
      destruct (Nat.ltb_spec c k), (Nat.ltb_spec c (S k)); try reflexivity; lia.
Qed.

(* ---------- the system RidgeRegression::fit hands to its solver ---------- *)
Lemma ridge_system_spec (Z : dm R) (y : list R) alpha : wfR Z -> length y = nrows Z ->
  exists a rhs, ridge_system ROps (ncols Z) Z (col_vec ROps y) alpha = Some (a, rhs) /\
    nrows a = ncols Z /\ ncols a = ncols Z /\ wfR a /\
    nrows rhs = ncols Z /\ ncols rhs = 1%nat /\ wfR rhs /\
    (forall r c, (r < ncols Z)%nat -> (c < ncols Z)%nat ->
       get a r c = rsum (nrows Z) (fun i => get Z i r * get Z i c) + (if Nat.eqb r c then alpha else 0)) /\
    (forall r, (r < ncols Z)%nat -> get rhs r 0%nat = rsum (nrows Z) (fun i => get Z i r * nth i y 0)).
Proof.
  intros Hwf Hy. unfold ridge_system.
  pose proof (transpose_shape ROps Z) as [T1 [T2 T3]].
  pose proof (col_vec_shape y) as [C1 [C2 C3]].
  destruct (matmul_spec ROps (D.transpose ROps Z) (col_vec ROps y)) as [v [Hv [V1 [V2 [V3 V4]]]]]; [lia|].
  rewrite Hv.
  destruct (matmul_spec ROps (D.transpose ROps Z) Z) as [g [Hg [G1 [G2 [G3 G4]]]]]; [lia|].
  rewrite Hg.
  destruct (add_diag_spec (ncols Z) g alpha G3) as [a [Ha [A1 [A2 [A3 A4]]]]]; try lia.
  rewrite Ha. exists a, v. split; [reflexivity|].
  repeat split; try lia; try assumption.
  - intros r c Hr Hc. rewrite A4 by lia. rewrite G4 by lia. rewrite T2.
    change (osumn ROps (nrows Z) (fun i => omul ROps (get (D.transpose ROps Z) r i) (get Z i c)))
      with (rsum (nrows Z) (fun i => get (D.transpose ROps Z) r i * get Z i c)).
    rewrite (rsum_ext (nrows Z) (fun i => get (D.transpose ROps Z) r i * get Z i c) (fun i => get Z i r * get Z i c))
      by (intros i Hi; rewrite get_transpose by lia; reflexivity).
    replace (r <? ncols Z) with true by (symmetry; apply Nat.ltb_lt; lia). rewrite andb_true_r.
    destruct (Nat.eqb r c); cbn [oadd ROps]; ring.
  - intros r Hr. rewrite V4 by lia. rewrite T2.
    change (osumn ROps (nrows Z) (fun i => omul ROps (get (D.transpose ROps Z) r i) (get (col_vec ROps y) i 0%nat)))
      with (rsum (nrows Z) (fun i => get (D.transpose ROps Z) r i * get (col_vec ROps y) i 0%nat)).
    apply rsum_ext. intros i Hi. rewrite get_transpose by lia. rewrite get_col_vec by lia. reflexivity.
Qed.

(* ---------- w.set(i, 0, w.get(i, 0) / col_std[i]) for the first min(p, len) rows ---------- *)
Lemma unscale_w_spec p (w : dm R) (sd : list R) : wfR w -> ncols w = 1%nat ->
  (Nat.min p (length sd) <= nrows w)%nat ->
  exists M, unscale_w ROps p w sd = Some M /\ nrows M = nrows w /\ ncols M = 1%nat /\ wfR M /\
    forall r, (r < nrows w)%nat ->
      get M r 0%nat = if r <? Nat.min p (length sd) then get w r 0%nat / nth r sd 0 else get w r 0%nat.
Proof.
  intros Hwf Hc. unfold unscale_w. generalize (Nat.min p (length sd)) as k.
  induction k as [|k IH]; intros Hk.
  - exists w. repeat split; try assumption. 
  - destruct IH as [M [HM [H1 [H2 [H3 H4]]]]]; [lia|].
    rewrite seq_S, fold_left_app, HM. cbn [fold_left Nat.add].
    rewrite (get_chk_spec ROps M k 0 H3).
    replace (k <? nrows M) with true by (symmetry; apply Nat.ltb_lt; lia).
    replace (0 <? ncols M) with true by (symmetry; apply Nat.ltb_lt; lia). cbn [andb].
    destruct (set_spec ROps M k 0 (odiv ROps (get M k 0%nat) (nth k sd 0)) H3) as [M' [HM' [G1 [G2 [G3 G4]]]]]; try lia.
    exists M'. split; [exact HM'|]. split; [lia|]. split; [lia|]. split; [exact G3|].
    intros r Hr. rewrite G4 by lia. rewrite Nat.eqb_refl, andb_true_r.
    destruct (Nat.eqb_spec r k) as [->|Hne].
    + replace (k <? S k) with true by (symmetry; apply Nat.ltb_lt; lia).
      rewrite H4 by lia. rewrite Nat.ltb_irrefl. reflexivity.
    + rewrite H4 by lia.
      replace (r <? S k) with (r <? k); [reflexivity|].
      destruct (Nat.ltb_spec r k), (Nat.ltb_spec r (S k)); try reflexivity; lia.
Qed.

(* ---------- rescale_x ---------- *)
Definition col_mu (X : dm R) (j : nat) : R := rsum (nrows X) (fun i => get X i j) / INR (nrows X).
(* the test of rescale_x before the exactly-constant clause was added (|sd| < eps only): over the
   reals the new test rejects at least what the old one did, so whatever the model accepts / the old
   view rejects carries over; the converse (a constant column has deviation 0 < eps) is
   `rescale_x_old_some` in ProofsRidgeTotal.v *)
Definition rescale_x_old (eps : R) (X : dm R) : option (dm R * list R * list R) :=
  if existsb (fun s => oltb ROps (oabs ROps (osub ROps s (o0 ROps))) eps) (D.std ROps X true) then None
  else match D.scale ROps X (D.mean ROps X true) (D.std ROps X true) true with
       | None => None
       | Some Z => Some (Z, D.mean ROps X true, D.std ROps X true)
       end.
Lemma old_test_rejected eps (X : dm R) :
  existsb (fun s => oltb ROps (oabs ROps (osub ROps s (o0 ROps))) eps) (D.std ROps X true) = true ->
  existsb (col_rejected ROps eps X (D.std ROps X true)) (seq 0 (length (D.std ROps X true))) = true.
Proof.
  intros H. apply existsb_exists in H. destruct H as [s [Hin Hlt]].
  destruct (In_nth _ _ 0 Hin) as [j [Hj Hs]].
  apply existsb_exists. exists j. split; [apply in_seq; lia|].
  unfold col_rejected. cbn [o0 ROps]. rewrite Hs. apply orb_true_iff. right.
  cbn [oltb oleb oabs osub o0 ROps] in *. apply Rltb_true in Hlt.
  apply negb_true_iff. apply Rleb_false. exact Hlt.
Qed.
Lemma rescale_x_some_old eps (X : dm R) r : rescale_x ROps eps X = Some r -> rescale_x_old eps X = Some r.
Proof.
  unfold rescale_x, rescale_x_old.
  destruct (existsb (fun s => oltb ROps _ eps) (D.std ROps X true)) eqn:E.
  - rewrite (old_test_rejected eps X E). discriminate.
  - destruct (existsb (col_rejected ROps eps X _) _); [discriminate|]. intros H; exact H.
Qed.
Lemma rescale_x_old_none eps (X : dm R) : rescale_x_old eps X = None -> rescale_x ROps eps X = None.
Proof.
  intros H. destruct (rescale_x ROps eps X) as [r|] eqn:E; [|reflexivity].
  apply rescale_x_some_old in E. congruence.
Qed.

Lemma rescale_x_spec eps (X Z : dm R) mu sd : 0 < eps -> wfR X ->
  rescale_x ROps eps X = Some (Z, mu, sd) ->
  mu = D.mean ROps X true /\ sd = D.std ROps X true /\
  length mu = ncols X /\ length sd = ncols X /\
  nrows Z = nrows X /\ ncols Z = ncols X /\ wfR Z /\
  (forall j, (j < ncols X)%nat -> nth j mu 0 = col_mu X j) /\
  (forall j, (j < ncols X)%nat -> nth j sd 0 <> 0) /\
  (forall i j, (i < nrows X)%nat -> (j < ncols X)%nat -> get Z i j = (get X i j - nth j mu 0) / nth j sd 0).
Proof.
  intros Heps Hwf Hr0. apply rescale_x_some_old in Hr0. revert Hr0. unfold rescale_x_old.
  destruct (existsb _ (D.std ROps X true)) eqn:Hex; [discriminate|].
  destruct (ProofsRed.scale_spec X (D.mean ROps X true) (D.std ROps X true) true) as [Z' [HZ [Z1 [Z2 [Z3 Z4]]]]].
  { rewrite ProofsRed.mean_length. apply le_n. }
  { rewrite ProofsRed.std_length. apply le_n. }
  rewrite HZ. intros E. injection E as <- <- <-.
  split; [reflexivity|]. split; [reflexivity|].
  split; [apply ProofsRed.mean_length|]. split; [apply ProofsRed.std_length|].
  split; [exact Z1|]. split; [exact Z2|]. split; [exact Z3|].
  split; [|split].
  - intros j Hj. rewrite (ProofsRed.mean_nth X true j Hj). reflexivity.
  - intros j Hj Hz.
    assert (Hin : In (nth j (D.std ROps X true) 0) (D.std ROps X true)).
    { apply nth_In. rewrite ProofsRed.std_length. exact Hj. }
    assert (Hf : (fun s => oltb ROps (oabs ROps (osub ROps s (o0 ROps))) eps) (nth j (D.std ROps X true) 0) = false).
    { destruct (oltb ROps _ eps) eqn:Eb; [|reflexivity].
      assert (existsb (fun s => oltb ROps (oabs ROps (osub ROps s (o0 ROps))) eps) (D.std ROps X true) = true)
        by (apply existsb_exists; eexists; split; [exact Hin|exact Eb]).
      congruence. }
    clear Hex. rename Hf into Hex. cbv beta in Hex. rewrite Hz in Hex.
    cbn [oltb oabs osub o0 ROps] in Hex. apply Rltb_false in Hex.
    rewrite Rminus_0_r, Rabs_R0 in Hex. lra.
  - intros i j Hi Hj. rewrite Z4 by assumption. reflexivity.
Qed.

(* ---------- what `fit` needs from its solver ---------- *)
Definition lin_solution (a rhs w : dm R) : Prop :=
  wfR w /\ nrows w = nrows a /\ ncols w = 1%nat /\
  forall r, (r < nrows a)%nat -> rsum (ncols a) (fun k => get a r k * get w k 0%nat) = get rhs r 0%nat.
(* normal equations of min |a w - b| : what QR::solve and SVD::solve deliver (C01); the result is b
   overwritten, so it has the rows of b, of which the first ncols a are the solution *)
Definition lsq_solution (a b w : dm R) : Prop :=
  wfR w /\ nrows w = nrows b /\ ncols w = 1%nat /\
  forall c, (c < ncols a)%nat ->
    rsum (nrows a) (fun i => get a i c * (rsum (ncols a) (fun t => get a i t * get w t 0%nat) - get b i 0%nat)) = 0.
Definition sym (a : dm R) : Prop := forall i j, (i < nrows a)%nat -> (j < nrows a)%nat -> get a i j = get a j i.
Definition pos_def (a : dm R) : Prop :=
  forall x : nat -> R, (exists i, (i < nrows a)%nat /\ x i <> 0) ->
    0 < rsum (nrows a) (fun i => rsum (nrows a) (fun j => x i * get a i j * x j)).
Definition square_system (a rhs : dm R) : Prop :=
  wfR a /\ wfR rhs /\ nrows a = ncols a /\ nrows rhs = nrows a /\ ncols rhs = 1%nat.
(* a solver that is exact on symmetric positive-definite systems *)
Definition exact_spd_solver (solver : dm R -> dm R -> option (dm R)) : Prop :=
  forall a rhs w, square_system a rhs -> sym a -> pos_def a -> solver a rhs = Some w -> lin_solution a rhs w.
Definition total_spd_solver (solver : dm R -> dm R -> option (dm R)) : Prop :=
  forall a rhs, square_system a rhs -> sym a -> pos_def a -> exists w, solver a rhs = Some w.

(* Gram matrix plus alpha on the diagonal: symmetric, and positive definite for alpha > 0 *)
Lemma rsum_sq_pos m (x : nat -> R) : (exists i, (i < m)%nat /\ x i <> 0) -> 0 < rsum m (fun i => x i ^ 2).
Proof.
  intros [i [Hi Hx]].
  assert (H0 : 0 <= rsum m (fun i => x i ^ 2)) by (apply rsum_nonneg; intros; apply pow2_ge_0).
  destruct (Req_dec (rsum m (fun i => x i ^ 2)) 0) as [E|E]; [|lra].
  exfalso. apply Hx. clear Hx H0. revert i Hi. induction m as [|m IH]; intros i Hi; [lia|].
  rewrite rsum_S in E.
  assert (H1 : 0 <= rsum m (fun k => x k ^ 2)) by (apply rsum_nonneg; intros; apply pow2_ge_0).
  assert (H2 : 0 <= x m ^ 2) by apply pow2_ge_0.
  destruct (Nat.eq_dec i m) as [->|Hne].
  - assert (Hz : x m ^ 2 = 0) by lra. replace (x m ^ 2) with (x m * x m) in Hz by ring.
    destruct (Rmult_integral _ _ Hz); assumption.
  - apply IH; [lra|lia].
Qed.
Lemma gram_quadratic_form n p (Zf : nat -> nat -> R) alpha (x : nat -> R) :
  rsum p (fun i => rsum p (fun j => x i * (rsum n (fun t => Zf t i * Zf t j) + (if Nat.eqb i j then alpha else 0)) * x j))
  = rsum n (fun t => rsum p (fun j => Zf t j * x j) ^ 2) + alpha * rsum p (fun i => x i ^ 2).
Proof.
  rewrite (rsum_ext p _ (fun i => x i * rsum n (fun t => Zf t i * rsum p (fun j => Zf t j * x j)) + alpha * x i ^ 2)).
  2:{ intros i Hi.
      rewrite (rsum_ext p _ (fun j => x i * (rsum n (fun t => Zf t i * Zf t j) * x j) + (if Nat.eqb i j then alpha else 0) * x i * x j))
        by (intros; ring).
      rewrite rsum_plus, rsum_scal. f_equal.
      - f_equal. rewrite (rsum_ext p _ (fun j => rsum n (fun t => Zf t i * (Zf t j * x j)))).
        2:{ intros j _. rewrite <- rsum_scal_r. apply rsum_ext. intros; ring. }
        rewrite rsum_swap. apply rsum_ext. intros t _. rewrite rsum_scal. reflexivity.
      - rewrite (rsum_single p i); [rewrite Nat.eqb_refl; ring | exact Hi |].
        intros j _ Hne. destruct (Nat.eqb_spec i j); [congruence|ring]. }
  rewrite rsum_plus, rsum_scal. f_equal.
  rewrite (rsum_ext p _ (fun i => rsum n (fun t => rsum p (fun j => Zf t j * x j) * (Zf t i * x i)))).
  2:{ intros i _. rewrite <- rsum_scal. apply rsum_ext. intros; ring. }
  rewrite rsum_swap. apply rsum_ext. intros t _. rewrite rsum_scal. ring.
Qed.
Lemma ridge_system_spd (Z : dm R) (y : list R) alpha a rhs : wfR Z -> length y = nrows Z -> 0 < alpha ->
  ridge_system ROps (ncols Z) Z (col_vec ROps y) alpha = Some (a, rhs) ->
  square_system a rhs /\ sym a /\ pos_def a.
Proof.
  intros Hwf Hy Ha Hs.
  destruct (ridge_system_spec Z y alpha Hwf Hy) as [a' [rhs' [E [A1 [A2 [A3 [R1 [R2 [R3 [Hga Hgr]]]]]]]]]].
  rewrite Hs in E. injection E as <- <-.
  split; [unfold square_system; repeat split; try assumption; lia|]. split.
  - intros i j Hi Hj. rewrite !Hga by lia. rewrite (Nat.eqb_sym j i). f_equal.
    apply rsum_ext. intros; ring.
  - intros x Hx. rewrite A1 in *.
    rewrite (rsum_ext (ncols Z) _ (fun i => rsum (ncols Z) (fun j =>
               x i * (rsum (nrows Z) (fun t => get Z t i * get Z t j) + (if Nat.eqb i j then alpha else 0)) * x j))).
    2:{ intros i Hi. apply rsum_ext. intros j Hj. rewrite Hga by lia. reflexivity. }
    rewrite gram_quadratic_form.
    assert (H1 : 0 <= rsum (nrows Z) (fun t => rsum (ncols Z) (fun j => get Z t j * x j) ^ 2))
      by (apply rsum_nonneg; intros; apply pow2_ge_0).
    pose proof (rsum_sq_pos (ncols Z) x Hx). nra.
Qed.

(* {LinearRegression, RidgeRegression}::predict *)
Lemma predict_spec (X w : dm R) (b : R) : ncols X = nrows w -> ncols w = 1%nat ->
  exists yh, predict ROps X w b = Some yh /\ length yh = nrows X /\
    forall i, (i < nrows X)%nat ->
      nth i yh 0 = rsum (ncols X) (fun k => get X i k * get w k 0%nat) + b.
Proof.
  intros H1 H2. unfold predict.
  destruct (matmul_spec ROps X w H1) as [m [Hm [Hr [Hc [Hwf Hget]]]]]. rewrite Hm.
  destruct (add_spec ROps m (D.fill (nrows X) 1 b)) as [m2 [Hm2 [Hr2 [Hc2 [Hwf2 Hget2]]]]];
    [rewrite Hr; reflexivity | rewrite Hc, H2; reflexivity |].
  rewrite Hm2. eexists. split; [reflexivity|].
  pose proof (transpose_shape ROps m2) as [Ht1 [Ht2 _]].
  split.
  - unfold D.to_row_vector. rewrite row_major_length, Ht1, Ht2, Hc2, Hc, H2, Hr2, Hr. lia.
  - intros i Hi.
    assert (E : nth i (D.to_row_vector ROps (D.transpose ROps m2)) 0 = get (D.transpose ROps m2) 0%nat i).
    { unfold D.to_row_vector.
      rewrite <- (nth_row_major ROps (D.transpose ROps m2) 0 i).
      - rewrite Nat.mul_0_l, Nat.add_0_l. reflexivity.
      - rewrite Ht1, Hc2, Hc, H2. lia.
      - rewrite Ht2, Hr2, Hr. exact Hi. }
    rewrite E. rewrite get_transpose by (rewrite ?Hc2, ?Hc, ?H2, ?Hr2, ?Hr; lia).
    rewrite Hget2 by (rewrite ?Hr, ?Hc, ?H2; lia).
    rewrite Hget by (rewrite ?H2; lia).
    rewrite get_fill by lia. reflexivity.
Qed.
Lemma predict_none (X w : dm R) (b : R) : ncols X <> nrows w -> predict ROps X w b = None.
Proof. intros H. unfold predict. rewrite (matmul_none ROps X w H). reflexivity. Qed.
