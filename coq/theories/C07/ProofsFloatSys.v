(* C07 — rounding theorems (binary64 instance) for the straight-line parts around the solver:
     predict_float_vs_model     the computed prediction against ANY real affine model (ws, bs): rounding bound
                                of predict_float_error plus the propagated coefficient error
                                sum_k |x_ik| |w_k - ws_k| + |b - bs|   (bridge to the exact-arithmetic theorems
                                about fit: take (ws, bs) := the exact minimiser)
     add_diag_entries           (every Ops) the loop m.add_element_mut(i, i, alpha), i < k
     ridge_system_float_error   the system RidgeRegression::fit hands to its solver, x_t_y = Z^T y and
                                x_t_x = Z^T Z + alpha on the diagonal, entry by entry: a dot product of two
                                columns (n products, recursive summation), one more rounding on the diagonal
   Nothing here is about the solvers (Cholesky / QR / SVD). *)
From Coq Require Import List Arith ZArith Bool Reals Floats Lra Lia Psatz.
From Flocq Require Import Core.
From SC Require Import Base.FloatUtil Base.Num Base.FloatError.
From SC Require C03.Model C03.ProofsBase C03.ProofsAlg C03.ProofsFloat C03.ProofsFloat2 C07.Model C07.ProofsFloat.
Import ListNotations.
Local Open Scope R_scope.

Module M := SC.C03.Model.
Module PB := SC.C03.ProofsBase.
Module PA := SC.C03.ProofsAlg.
Module F1 := SC.C03.ProofsFloat.
Module F2 := SC.C03.ProofsFloat2.
Module C7 := SC.C07.Model.
Module PF := SC.C07.ProofsFloat.

(* ---------------- prediction against an arbitrary real model ---------------- *)
Lemma Rsuml_map_diff_bound (x a b : nat -> R) l :
  Rabs (Rsuml (map (fun k => x k * a k) l) - Rsuml (map (fun k => x k * b k) l)) <=
  Rsuml (map (fun k => Rabs (x k) * Rabs (a k - b k)) l).
Proof.
  induction l as [|k l IH]; cbn [map Rsuml fold_right]; [rewrite Rminus_diag_eq, Rabs_R0 by reflexivity; lra|].
  fold (Rsuml (map (fun k => x k * a k) l)) (Rsuml (map (fun k => x k * b k) l))
       (Rsuml (map (fun k => Rabs (x k) * Rabs (a k - b k)) l)).
  replace (x k * a k + Rsuml (map (fun k => x k * a k) l) - (x k * b k + Rsuml (map (fun k => x k * b k) l)))
    with (x k * (a k - b k) + (Rsuml (map (fun k => x k * a k) l) - Rsuml (map (fun k => x k * b k) l))) by ring.
  eapply Rle_trans; [apply Rabs_triang|]. rewrite Rabs_mult. lra.
Qed.

Theorem predict_float_vs_model (X w : M.dm PrimFloat.float) (b : PrimFloat.float)
        (yh : list PrimFloat.float) (i : nat) (ws : nat -> R) (bs : R) :
  C7.predict FOps X w b = Some yh -> (i < M.nrows X)%nat -> ffin (nth i yh 0%float) ->
  let p := M.ncols X in
  let x := fun k => FR (M.get FOps X i k) in
  let wf := fun k => FR (M.get FOps w k 0%nat) in
  Rabs (FR (nth i yh 0%float) - (Rsuml (map (fun k => x k * ws k) (seq 0 p)) + bs)) <=
    ((1 + u64) ^ (p + 1) - 1) * (Rsumabs (map (fun k => x k * wf k) (seq 0 p)) + Rabs (FR b) + INR p * eta64)
    + INR p * eta64
    + Rsuml (map (fun k => Rabs (x k) * Rabs (wf k - ws k)) (seq 0 p)) + Rabs (FR b - bs).
Proof.
  intros H Hi Hfin p x wf.
  destruct (PF.predict_float_error X w b yh i H Hi Hfin) as (_ & _ & _ & E). cbv zeta in E. fold p in E.
  change (fun k => FR (M.get FOps X i k) * FR (M.get FOps w k 0%nat)) with (fun k => x k * wf k) in E.
  pose proof (Rsuml_map_diff_bound x wf ws (seq 0 p)) as D.
  replace (FR (nth i yh 0%float) - (Rsuml (map (fun k => x k * ws k) (seq 0 p)) + bs))
    with ((FR (nth i yh 0%float) - (Rsuml (map (fun k => x k * wf k) (seq 0 p)) + FR b))
          + ((Rsuml (map (fun k => x k * wf k) (seq 0 p)) - Rsuml (map (fun k => x k * ws k) (seq 0 p))) + (FR b - bs))) by ring.
  eapply Rle_trans; [apply Rabs_triang|].
  eapply Rle_trans; [apply Rplus_le_compat_l, Rabs_triang|]. lra.
Qed.

(* ---------------- the diagonal loop, for every instance ---------------- *)
Lemma add_diag_entries {T} (K : Ops T) k (A : M.dm T) (alpha : T) :
  PB.wf A -> (k <= M.nrows A)%nat -> (k <= M.ncols A)%nat ->
  exists Mx, C7.add_diag K k A alpha = Some Mx /\ M.nrows Mx = M.nrows A /\ M.ncols Mx = M.ncols A /\ PB.wf Mx /\
    forall r c, (r < M.nrows A)%nat -> (c < M.ncols A)%nat ->
      M.get K Mx r c = if (Nat.eqb r c && (r <? k)%nat)%bool then oadd K (M.get K A r c) alpha else M.get K A r c.
Proof.
  intros Hwf. induction k as [|k IH]; intros Hr Hc.
  - exists A. repeat split; try assumption. intros r c _ _. rewrite andb_false_r. reflexivity.
  - destruct IH as [Mx [HM [H1 [H2 [H3 H4]]]]]; try lia.
    unfold C7.add_diag in *. rewrite seq_S, fold_left_app, HM. cbn [fold_left Nat.add].
    destruct (PA.upd_element_spec K (fun v => oadd K v alpha) Mx k k H3) as [M' [HM' [G1 [G2 [G3 G4]]]]]; try lia.
    exists M'. split; [exact HM'|]. split; [lia|]. split; [lia|]. split; [exact G3|].
    intros r c Hr' Hc'. rewrite G4 by lia. rewrite !H4 by lia.
    destruct (Nat.eqb_spec r k) as [->|Hrk]; destruct (Nat.eqb_spec c k) as [->|Hck]; cbn [andb].
    + rewrite Nat.eqb_refl. rewrite Nat.ltb_irrefl. cbn [andb].
      replace (k <? S k)%nat with true by (symmetry; apply Nat.ltb_lt; lia). reflexivity.
    + destruct (Nat.eqb_spec k c); [congruence|]. reflexivity.
    + destruct (Nat.eqb_spec r k); [congruence|]. cbn [andb]. reflexivity.
    + destruct (Nat.eqb_spec r c) as [->|Hrc]; cbn [andb]; [|reflexivity].
      replace (c <? S k)%nat with (c <? k)%nat; [reflexivity|].
      destruct (Nat.ltb_spec c k), (Nat.ltb_spec c (S k)); try reflexivity; lia.
Qed.

(* ---------------- the ridge system at binary64 ---------------- *)
Theorem ridge_system_float_error (Z ycol a rhs : M.dm PrimFloat.float) (alpha : PrimFloat.float) :
  C7.ridge_system FOps (M.ncols Z) Z ycol alpha = Some (a, rhs) ->
  let n := M.nrows Z in
  (* right-hand side Z^T y *)
  (forall j c, (j < M.ncols Z)%nat -> (c < M.ncols ycol)%nat -> ffin (M.get FOps rhs j c) ->
     let t := fun i => FR (M.get FOps Z i j) * FR (M.get FOps ycol i c) in
     Rabs (FR (M.get FOps rhs j c) - Rsuml (map t (seq 0 n))) <=
       ((1 + u64) ^ n - 1) * (Rsumabs (map t (seq 0 n)) + INR n * eta64) + INR n * eta64) /\
  (* system matrix Z^T Z + alpha I *)
  (forall j l, (j < M.ncols Z)%nat -> (l < M.ncols Z)%nat -> ffin (M.get FOps a j l) ->
     let t := fun i => FR (M.get FOps Z i j) * FR (M.get FOps Z i l) in
     (j <> l ->
      Rabs (FR (M.get FOps a j l) - Rsuml (map t (seq 0 n))) <=
        ((1 + u64) ^ n - 1) * (Rsumabs (map t (seq 0 n)) + INR n * eta64) + INR n * eta64) /\
     (j = l ->
      ffin alpha /\
      Rabs (FR (M.get FOps a j l) - (Rsuml (map t (seq 0 n)) + FR alpha)) <=
        ((1 + u64) ^ (n + 1) - 1) * (Rsumabs (map t (seq 0 n)) + Rabs (FR alpha) + INR n * eta64) + INR n * eta64)).
Proof.
  intros H n. unfold C7.ridge_system in H.
  destruct (M.matmul FOps (M.transpose FOps Z) ycol) as [xty|] eqn:E1; [|discriminate].
  destruct (M.matmul FOps (M.transpose FOps Z) Z) as [xtx|] eqn:E2; [|discriminate].
  destruct (C7.add_diag FOps (M.ncols Z) xtx alpha) as [a'|] eqn:E3; [|discriminate].
  injection H as <- <-.
  pose proof (PB.transpose_shape FOps Z) as [Tr [Tc _]].
  split.
  - intros j c Hj Hc Hfin t.
    destruct (F2.matmul_entry_float_error (M.transpose FOps Z) ycol xty j c E1) as (_ & _ & B);
      [rewrite Tr; exact Hj | exact Hc | exact Hfin |].
    cbv zeta in B. rewrite Tc in B. fold n in B.
    assert (Et : map (fun k => FR (M.get FOps (M.transpose FOps Z) j k) * FR (M.get FOps ycol k c)) (seq 0 n) = map t (seq 0 n)).
    { apply map_ext_in. intros k Hk. apply in_seq in Hk. unfold t. rewrite PB.get_transpose by (fold n; lia). reflexivity. }
    rewrite Et in B. exact B.
  - intros j l Hj Hl Hfin t.
    assert (Hxx : M.nrows xtx = M.ncols Z /\ M.ncols xtx = M.ncols Z /\ PB.wf xtx).
    { unfold M.matmul in E2. destruct (negb _); [discriminate|]. injection E2 as <-.
      cbn [M.tab M.nrows M.ncols]. unfold M.transpose. cbn [M.tab M.nrows M.ncols]. repeat split. apply PB.tab_wf. }
    destruct Hxx as (X1 & X2 & X3).
    destruct (add_diag_entries FOps (M.ncols Z) xtx alpha X3) as [Mx [HM [_ [_ [_ G]]]]]; try lia.
    rewrite E3 in HM. injection HM as <-.
    rewrite (G j l) in Hfin |- * by lia.
    assert (Et : map (fun k => FR (M.get FOps (M.transpose FOps Z) j k) * FR (M.get FOps Z k l)) (seq 0 n) = map t (seq 0 n)).
    { apply map_ext_in. intros k Hk. apply in_seq in Hk. unfold t. rewrite PB.get_transpose by (fold n; lia). reflexivity. }
    assert (Bent : ffin (M.get FOps xtx j l) ->
              Rabs (FR (M.get FOps xtx j l) - Rsuml (map t (seq 0 n))) <=
                Eu n * (Rsumabs (map t (seq 0 n)) + INR n * eta64) + INR n * eta64).
    { intros Hf. destruct (F2.matmul_entry_float_error (M.transpose FOps Z) Z xtx j l E2) as (_ & _ & B);
        [rewrite Tr; exact Hj | exact Hl | exact Hf |].
      cbv zeta in B. rewrite Tc in B. fold n in B. rewrite Et in B. exact B. }
    split.
    + intros Hne. rewrite (proj2 (Nat.eqb_neq j l) Hne) in Hfin |- *. cbn [andb] in Hfin |- *. apply Bent, Hfin.
    + intros <-. rewrite Nat.eqb_refl, (proj2 (Nat.ltb_lt _ _) Hj) in Hfin |- *. cbn [andb FOps oadd] in Hfin |- *.
      destruct (fadd_finite _ _ Hfin) as (Hs & Ha & _). split; [exact Ha|].
      fold (Eu (n + 1)). replace (n + 1)%nat with (S n) by lia.
      apply (PF.affine_step n (FR (M.get FOps xtx j j))).
      * pose proof (pos_INR n). pose proof eta64_pos. nra.
      * apply Rsuml_le_Rsumabs.
      * apply Bent, Hs.
      * apply fadd_error. exact Hfin.
Qed.

(* ---------------- RidgeRegression::fit with normalize = false: what the solver is handed ---------------- *)
Lemma get_col_vec_gen {T} (K : Ops T) (y : list T) i : (i < length y)%nat ->
  M.get K (C7.col_vec K y) i 0 = nth i y (o0 K).
Proof.
  intros Hi. unfold C7.col_vec. rewrite PB.get_transpose by (cbn [M.from_row_vector M.nrows M.ncols]; lia).
  unfold M.get, M.from_row_vector. cbn [M.values M.nrows]. f_equal. lia.
Qed.

Lemma ridge_fit_raw_inv {T} (K : Ops T) solver eps (X : M.dm T) (y : list T) alpha w b :
  C7.ridge_fit K solver eps X y alpha false = Some (w, b) ->
  (M.ncols X < M.nrows X)%nat /\ length y = M.nrows X /\ b = o0 K /\
  exists a rhs, C7.ridge_system K (M.ncols X) X (C7.col_vec K y) alpha = Some (a, rhs) /\ solver a rhs = Some w.
Proof.
  unfold C7.ridge_fit. intros H.
  destruct (Nat.leb_spec (M.nrows X) (M.ncols X)) as [L|L]; [discriminate|].
  destruct (Nat.eqb_spec (length y) (M.nrows X)) as [E|E]; cbn [negb] in H; [|discriminate].
  destruct (C7.ridge_system K (M.ncols X) X (C7.col_vec K y) alpha) as [[a rhs]|] eqn:Es; [|discriminate].
  destruct (solver a rhs) as [w'|] eqn:Ew; [|discriminate].
  injection H as <- <-. split; [exact L|]. split; [exact E|]. split; [reflexivity|].
  exists a, rhs. split; [reflexivity | exact Ew].
Qed.

Theorem ridge_fit_raw_system_float_error solver eps (X : M.dm PrimFloat.float) (y : list PrimFloat.float)
        (alpha : PrimFloat.float) w b :
  C7.ridge_fit FOps solver eps X y alpha false = Some (w, b) ->
  let n := M.nrows X in
  b = 0%float /\ length y = n /\
  exists a rhs, solver a rhs = Some w /\
  (forall j, (j < M.ncols X)%nat -> ffin (M.get FOps rhs j 0) ->
     let t := fun i => FR (M.get FOps X i j) * FR (nth i y 0%float) in
     Rabs (FR (M.get FOps rhs j 0) - Rsuml (map t (seq 0 n))) <=
       ((1 + u64) ^ n - 1) * (Rsumabs (map t (seq 0 n)) + INR n * eta64) + INR n * eta64) /\
  (forall j l, (j < M.ncols X)%nat -> (l < M.ncols X)%nat -> ffin (M.get FOps a j l) ->
     let t := fun i => FR (M.get FOps X i j) * FR (M.get FOps X i l) in
     (j <> l ->
      Rabs (FR (M.get FOps a j l) - Rsuml (map t (seq 0 n))) <=
        ((1 + u64) ^ n - 1) * (Rsumabs (map t (seq 0 n)) + INR n * eta64) + INR n * eta64) /\
     (j = l ->
      ffin alpha /\
      Rabs (FR (M.get FOps a j l) - (Rsuml (map t (seq 0 n)) + FR alpha)) <=
        ((1 + u64) ^ (n + 1) - 1) * (Rsumabs (map t (seq 0 n)) + Rabs (FR alpha) + INR n * eta64) + INR n * eta64)).
Proof.
  intros H n. destruct (ridge_fit_raw_inv FOps solver eps X y alpha w b H) as (_ & Ly & Hb & a & rhs & Hs & Hw).
  split; [exact Hb|]. split; [exact Ly|]. exists a, rhs. split; [exact Hw|].
  destruct (ridge_system_float_error X (C7.col_vec FOps y) a rhs alpha Hs) as [R1 R2]. fold n in R1, R2.
  split; [|exact R2].
  intros j Hj Hfin t.
  assert (Hc : (0 < M.ncols (C7.col_vec FOps y))%nat) by (cbn; lia).
  specialize (R1 j 0%nat Hj Hc Hfin). cbv zeta in R1.
  assert (Et : map (fun i => FR (M.get FOps X i j) * FR (M.get FOps (C7.col_vec FOps y) i 0)) (seq 0 n) = map t (seq 0 n)).
  { apply map_ext_in. intros i Hi. apply in_seq in Hi. unfold t.
    rewrite (get_col_vec_gen FOps y i) by lia. reflexivity. }
  rewrite Et in R1. exact R1.
Qed.
