(* C07 — the SVD paths end to end (extension).  The abstract SVD-path theorems assume
   `svd_postcondition eps fact` for an arbitrary factorisation routine.  Here `fact` is C01's own
   transliteration of svd_mut at threshold eps = 0 (an entry is dropped only when it is exactly
   zero), and the post-condition is DISCHARGED from C01's svd_mut_correct (= the theorem
   C01_svd_factorisation_exact of Properties/C01.v).  What is left as hypotheses, stated plainly:
     - the factorisation model returned (fit = Some ...; over R with eps = 0 the sweeps converge
       only in the limit, so this is a real restriction: C01 proves `Some` for n = 1 / diagonal
       states only);
     - svd_regular_on cs minpos a: no entry of the bidiagonal form of the system matrix `a` handed
       to the solver is non-zero but smaller than minpos in magnitude (C01's bd_regular; without it
       C01 refutes the factorisation);
     - 0 < minpos and cs_spec cs (copysign is copysign).
   Technique: bd_regular is decidable over R, so the factorisation guarded by its boolean version
   (svd_fact_reg) satisfies svd_postcondition 0 for ALL inputs; on a regular system matrix the
   guarded and the unguarded solver coincide, and fit depends on its solver only through the one
   system it builds. *)
From Coq Require Import List Arith Bool Lia Reals Lra.
From SC Require Import Base.Num C01.Model C01.Proofs C01.Proofs_svd C01.Proofs_svd_bidiag C01.Proofs_svd_accum
     C01.Proofs_svd_iter C03.ProofsBase C03.ProofsAlg
     C07.Model C07.ProofsObj C07.ProofsFit C07.ProofsRidge C07.ProofsSolve C07.ProofsOLS C07.ProofsMain
     C07.ProofsOLSTotal C07.ProofsRidgeTotal.
Import ListNotations.
Local Open Scope R_scope.

Local Notation get := (D.get ROps).

(* ---------- bd_regular is decidable ---------- *)
Definition reg_entry_b (minpos g : R) : bool := (Reqb g 0 || L.invertible ROps minpos g)%bool.
Definition bd_regular_b (minpos : R) (n : nat) (bd : @L.bidiag_st R) : bool :=
  (forallb (fun t => reg_entry_b minpos (L.bw bd t)) (seq 0 n) &&
   forallb (fun t => reg_entry_b minpos (L.brv1 bd t)) (seq 0 n))%bool.

Lemma reg_entry_b_spec minpos g : reg_entry_b minpos g = true <-> (g = 0 \/ L.invertible ROps minpos g = true).
Proof.
  unfold reg_entry_b. rewrite orb_true_iff. split; intros [H|H]; auto.
  - left. apply Reqb_true. exact H.
  - left. apply Reqb_true. exact H.
Qed.
Lemma bd_regular_b_spec minpos n bd : bd_regular_b minpos n bd = true <-> bd_regular minpos n bd.
Proof.
  unfold bd_regular_b, bd_regular. rewrite andb_true_iff, !forallb_forall. split.
  - intros [H1 H2]. split; intros t Ht; apply reg_entry_b_spec; [apply H1|apply H2]; apply in_seq; lia.
  - intros [H1 H2]. split; intros t Ht; apply in_seq in Ht; apply reg_entry_b_spec; [apply H1|apply H2]; lia.
Qed.

(* ---------- C01's svd_mut at eps = 0, guarded by regularity ---------- *)
Definition svd_fact0 (cs : R -> R -> R) (minpos : R) : nat -> nat -> @L.Mx R -> option (@L.svd_st R) :=
  L.svd_mut ROps 0 cs minpos.
Definition svd_fact_reg (cs : R -> R -> R) (minpos : R) : nat -> nat -> @L.Mx R -> option (@L.svd_st R) :=
  fun m n A => if bd_regular_b minpos n (svd_bd cs m n A) then svd_fact0 cs minpos m n A else None.

Lemma svd_tol_0 m n s : L.svd_tol ROps 0 m n s = 0.
Proof. unfold L.svd_tol. cbn [omul ROps]. apply Rmult_0_r. Qed.

(* the post-condition of the abstract theorems, discharged from C01 *)
Lemma svd_fact_reg_postcondition cs minpos : 0 < minpos -> cs_spec cs ->
  svd_postcondition 0 (svd_fact_reg cs minpos).
Proof.
  intros Hmp Hcs m n A st Hnm E. unfold svd_fact_reg in E.
  destruct (bd_regular_b minpos n (svd_bd cs m n A)) eqn:Hb; [|discriminate].
  apply bd_regular_b_spec in Hb.
  destruct (svd_mut_correct minpos cs m n A st Hnm Hmp Hcs Hb E) as (OU & OV & HA & Hnn & _ & OR).
  split; [exact OU|]. split; [exact OV|]. split; [exact OR|]. split; [|exact HA].
  intros j Hj. rewrite svd_tol_0. specialize (Hnn j Hj).
  destruct (Req_dec (L.sw st j) 0) as [E0|E0]; [right; exact E0|left; lra].
Qed.

(* ---------- the solver of the model and its guarded twin ---------- *)
Definition svd_regular_on (cs : R -> R -> R) (minpos : R) (a : dm R) : Prop :=
  bd_regular minpos (ncols a) (svd_bd cs (nrows a) (ncols a) (to_mx ROps a)).
Definition svd_model_solver (cs : R -> R -> R) (minpos : R) : dm R -> dm R -> option (dm R) :=
  svd_solve_mut ROps 0 cs minpos.
Definition svd_reg_solver (cs : R -> R -> R) (minpos : R) : dm R -> dm R -> option (dm R) :=
  svd_solve_with ROps (svd_fact_reg cs minpos) 0.

Lemma svd_reg_solver_eq cs minpos a b : svd_regular_on cs minpos a ->
  svd_model_solver cs minpos a b = svd_reg_solver cs minpos a b.
Proof.
  intros Hreg. unfold svd_model_solver, svd_reg_solver, svd_solve_mut, svd_solve_with, svd_fact_reg, svd_fact0.
  rewrite (proj2 (bd_regular_b_spec minpos _ _) Hreg). reflexivity.
Qed.
Lemma svd_reg_lsq cs minpos : 0 < minpos -> cs_spec cs -> lsq_solver (svd_reg_solver cs minpos).
Proof. intros H1 H2. apply svd_lsq_solver. apply svd_fact_reg_postcondition; assumption. Qed.
Lemma svd_reg_exact_spd cs minpos : 0 < minpos -> cs_spec cs -> exact_spd_solver (svd_reg_solver cs minpos).
Proof. intros H1 H2. apply svd_exact_spd. apply svd_fact_reg_postcondition; assumption. Qed.

(* solver-level end-to-end contracts of the unguarded model solver, on a regular system matrix *)
Lemma svd_model_lsq cs minpos a b w : 0 < minpos -> cs_spec cs -> svd_regular_on cs minpos a ->
  wfR a -> wfR b -> nrows b = nrows a -> ncols b = 1%nat -> (ncols a <= nrows a)%nat ->
  svd_model_solver cs minpos a b = Some w -> lsq_solution a b w.
Proof.
  intros H1 H2 Hreg A1 B1 Hr Hc Hnm Hs. rewrite (svd_reg_solver_eq cs minpos a b Hreg) in Hs.
  exact (svd_reg_lsq cs minpos H1 H2 a b w A1 B1 Hr Hc Hnm Hs).
Qed.
Lemma svd_model_exact_spd cs minpos a rhs w : 0 < minpos -> cs_spec cs -> svd_regular_on cs minpos a ->
  square_system a rhs -> sym a -> pos_def a ->
  svd_model_solver cs minpos a rhs = Some w -> lin_solution a rhs w.
Proof.
  intros H1 H2 Hreg Hsq Hsym Hpd Hs. rewrite (svd_reg_solver_eq cs minpos a rhs Hreg) in Hs.
  exact (svd_reg_exact_spd cs minpos H1 H2 a rhs w Hsq Hsym Hpd Hs).
Qed.

(* ---------- fit depends on its solver only through the system it builds ---------- *)
Definition ols_svd_regular cs minpos (X : dm R) : Prop :=
  forall a, D.h_stack ROps X (D.ones ROps (nrows X) 1) = Some a -> svd_regular_on cs minpos a.
Definition ridge_svd_regular cs minpos eps (X : dm R) (y : list R) alpha (normalize : bool) : Prop :=
  forall Z a rhs,
    (if normalize then exists mu sd, rescale_x ROps eps X = Some (Z, mu, sd) else Z = X) ->
    ridge_system ROps (ncols X) Z (col_vec ROps y) alpha = Some (a, rhs) -> svd_regular_on cs minpos a.

Lemma ols_fit_solver_ext s1 s2 (X : dm R) (y : list R) :
  (forall a, D.h_stack ROps X (D.ones ROps (nrows X) 1) = Some a -> s1 a (col_vec ROps y) = s2 a (col_vec ROps y)) ->
  ols_fit ROps s1 X y = ols_fit ROps s2 X y.
Proof.
  intros H. unfold ols_fit. destruct (negb (nrows X =? nrows (col_vec ROps y))); [reflexivity|].
  destruct (D.h_stack ROps X (D.ones ROps (nrows X) 1)) as [a|] eqn:Ha; [|reflexivity].
  rewrite (H a eq_refl). reflexivity.
Qed.
Lemma ridge_fit_solver_ext s1 s2 eps (X : dm R) (y : list R) alpha (normalize : bool) :
  (forall Z a rhs,
     (if normalize then exists mu sd, rescale_x ROps eps X = Some (Z, mu, sd) else Z = X) ->
     ridge_system ROps (ncols X) Z (col_vec ROps y) alpha = Some (a, rhs) -> s1 a rhs = s2 a rhs) ->
  ridge_fit ROps s1 eps X y alpha normalize = ridge_fit ROps s2 eps X y alpha normalize.
Proof.
  intros H. unfold ridge_fit. destruct (nrows X <=? ncols X); [reflexivity|].
  destruct (negb (length y =? nrows X)); [reflexivity|]. destruct normalize.
  - destruct (rescale_x ROps eps X) as [[[Z mu] sd]|] eqn:Hr; [|reflexivity].
    destruct (ridge_system ROps (ncols X) Z (col_vec ROps y) alpha) as [[a rhs]|] eqn:Hs; [|reflexivity].
    rewrite (H Z a rhs (ex_intro _ mu (ex_intro _ sd eq_refl)) Hs). reflexivity.
  - destruct (ridge_system ROps (ncols X) X (col_vec ROps y) alpha) as [[a rhs]|] eqn:Hs; [|reflexivity].
    rewrite (H X a rhs eq_refl Hs). reflexivity.
Qed.

Lemma ols_fit_svd_model_eq cs minpos (X : dm R) y : ols_svd_regular cs minpos X ->
  ols_fit ROps (svd_model_solver cs minpos) X y = ols_fit ROps (svd_reg_solver cs minpos) X y.
Proof. intros Hreg. apply ols_fit_solver_ext. intros a Ha. apply svd_reg_solver_eq. exact (Hreg a Ha). Qed.
Lemma ridge_fit_svd_model_eq cs minpos eps (X : dm R) y alpha normalize :
  ridge_svd_regular cs minpos eps X y alpha normalize ->
  ridge_fit ROps (svd_model_solver cs minpos) eps X y alpha normalize
  = ridge_fit ROps (svd_reg_solver cs minpos) eps X y alpha normalize.
Proof.
  intros Hreg. apply ridge_fit_solver_ext. intros Z a rhs HZ Hs. apply svd_reg_solver_eq. exact (Hreg Z a rhs HZ Hs).
Qed.

(* ---------- OLS, SVD path end to end ---------- *)
Lemma ols_svd_model_exact cs minpos (X : dm R) (y : list R) wm b :
  0 < minpos -> cs_spec cs -> wfR X -> (ncols X < nrows X)%nat -> ols_svd_regular cs minpos X ->
  ols_fit ROps (svd_model_solver cs minpos) X y = Some (wm, b) ->
  length y = nrows X /\ nrows wm = ncols X /\ ncols wm = 1%nat /\
  (forall j, (j < ncols X)%nat -> rsum (nrows X) (fun i => get X i j * residual X y wm b i) = 0) /\
  rsum (nrows X) (fun i => residual X y wm b i) = 0 /\
  (forall w' b', objective X y 0 (colf wm) b <= objective X y 0 w' b').
Proof.
  intros H1 H2 Hwf Hnp Hreg Hfit. rewrite (ols_fit_svd_model_eq cs minpos X y Hreg) in Hfit.
  exact (ols_normal_equations _ X y wm b Hwf Hnp (svd_reg_lsq cs minpos H1 H2) Hfit).
Qed.
Lemma ols_qr_svd_model_agree cs minpos (X : dm R) (y : list R) :
  0 < minpos -> cs_spec cs -> wfR X -> (ncols X < nrows X)%nat -> length y = nrows X ->
  ols_full_rank X -> ols_svd_regular cs minpos X ->
  exists wq bq, ols_fit ROps (qr_solve_mut ROps) X y = Some (wq, bq) /\
    forall ws bs, ols_fit ROps (svd_model_solver cs minpos) X y = Some (ws, bs) ->
      (forall k, (k < ncols X)%nat -> get ws k 0%nat = get wq k 0%nat) /\ bs = bq.
Proof.
  intros H1 H2 Hwf Hnp Hy Hfr Hreg.
  destruct (ols_qr_total_unique X y Hwf Hnp Hy Hfr) as [wq [bq [Hfit [_ [_ Hag]]]]].
  exists wq, bq. split; [exact Hfit|]. intros ws bs Hs.
  rewrite (ols_fit_svd_model_eq cs minpos X y Hreg) in Hs.
  exact (Hag _ ws bs (svd_reg_lsq cs minpos H1 H2) Hs).
Qed.

(* ---------- ridge, SVD path end to end ---------- *)
Lemma ridge_svd_model_raw cs minpos eps (X : dm R) (y : list R) alpha wm b :
  0 < minpos -> cs_spec cs -> wfR X -> 0 < alpha -> ridge_svd_regular cs minpos eps X y alpha false ->
  ridge_fit ROps (svd_model_solver cs minpos) eps X y alpha false = Some (wm, b) ->
  b = 0 /\ nrows wm = ncols X /\ ncols wm = 1%nat /\
  (forall j, (j < ncols X)%nat ->
     alpha * get wm j 0%nat - rsum (nrows X) (fun i => get X i j * residual X y wm 0 i) = 0) /\
  (forall w', objective X y alpha (colf wm) 0 <= objective X y alpha w' 0) /\
  (forall w', objective X y alpha w' 0 <= objective X y alpha (colf wm) 0 ->
     forall k, (k < ncols X)%nat -> w' k = get wm k 0%nat).
Proof.
  intros H1 H2 Hwf Ha Hreg Hfit. rewrite (ridge_fit_svd_model_eq cs minpos eps X y alpha false Hreg) in Hfit.
  exact (ridge_raw_minimiser _ eps X y alpha wm b Hwf Ha (svd_reg_exact_spd cs minpos H1 H2) Hfit).
Qed.
Lemma ridge_svd_model_norm cs minpos eps (X : dm R) (y : list R) alpha wm b :
  0 < minpos -> cs_spec cs -> 0 < eps -> wfR X -> 0 < alpha -> ridge_svd_regular cs minpos eps X y alpha true ->
  ridge_fit ROps (svd_model_solver cs minpos) eps X y alpha true = Some (wm, b) ->
  exists Z mu sd, rescale_x ROps eps X = Some (Z, mu, sd) /\
    nrows wm = ncols X /\ ncols wm = 1%nat /\
    (forall j, (j < ncols X)%nat ->
       alpha * (get wm j 0%nat * nth j sd 0) - rsum (nrows X) (fun i => get Z i j * residual X y wm b i) = 0) /\
    rsum (nrows X) (fun i => residual X y wm b i) = 0 /\
    (forall w' b', objective_std Z y alpha mu sd (colf wm) b <= objective_std Z y alpha mu sd w' b') /\
    (forall w' b', objective_std Z y alpha mu sd w' b' <= objective_std Z y alpha mu sd (colf wm) b ->
       (forall k, (k < ncols X)%nat -> w' k = get wm k 0%nat) /\ b' = b).
Proof.
  intros H1 H2 Heps Hwf Ha Hreg Hfit. rewrite (ridge_fit_svd_model_eq cs minpos eps X y alpha true Hreg) in Hfit.
  destruct (ridge_norm_minimiser _ eps X y alpha wm b Heps Hwf Ha (svd_reg_exact_spd cs minpos H1 H2) Hfit)
    as [Z [mu [sd (Hr & _ & _ & W1 & W2 & _ & _ & _ & Hg & Hs & Hmin & Huniq)]]].
  exists Z, mu, sd. repeat (split; [assumption|]). exact Huniq.
Qed.
(* Cholesky and the SVD model agree, both normalisation settings *)
Lemma ridge_cholesky_svd_model_agree cs minpos eps (X : dm R) (y : list R) alpha normalize wc bc ws bs :
  0 < minpos -> cs_spec cs -> 0 < eps -> wfR X -> 0 < alpha ->
  ridge_svd_regular cs minpos eps X y alpha normalize ->
  ridge_fit ROps (cholesky_solve_mut ROps) eps X y alpha normalize = Some (wc, bc) ->
  ridge_fit ROps (svd_model_solver cs minpos) eps X y alpha normalize = Some (ws, bs) ->
  (forall k, (k < ncols X)%nat -> get wc k 0%nat = get ws k 0%nat) /\ bc = bs.
Proof.
  intros H1 H2 Heps Hwf Ha Hreg Fc Fs. rewrite (ridge_fit_svd_model_eq cs minpos eps X y alpha normalize Hreg) in Fs.
  exact (ridge_solvers_agree _ _ eps X y alpha normalize wc bc ws bs Heps Hwf Ha cholesky_exact_spd
           (svd_reg_exact_spd cs minpos H1 H2) Fc Fs).
Qed.

(* ---------- satisfiability: systems with ONE column, where C01 proves that svd_mut returns ---------- *)
Definition cs_R (a f : R) : R := if Rlt_dec f 0 then - Rabs a else Rabs a.
Lemma cs_R_spec : cs_spec cs_R.
Proof. intros a f. reflexivity. Qed.

(* ridge on a single feature: the system is 1 x 1 *)
Lemma ridge_svd_model_instance eps (X : dm R) (y : list R) alpha :
  wfR X -> ncols X = 1%nat -> (1 < nrows X)%nat -> length y = nrows X ->
  exists minpos, 0 < minpos /\ ridge_svd_regular cs_R minpos eps X y alpha false /\
    exists wm b, ridge_fit ROps (svd_model_solver cs_R minpos) eps X y alpha false = Some (wm, b).
Proof.
  intros Hwf Hp Hn Hy.
  destruct (ridge_system_spec X y alpha Hwf Hy) as [a [rhs [E [A1 [A2 [A3 [R1 [R2 [R3 _]]]]]]]]].
  destruct (svd_column_instance cs_R 1 (to_mx ROps a) cs_R_spec (le_n 1)) as [minpos [st [Hmp [Hreg Hst]]]].
  exists minpos. split; [exact Hmp|]. split.
  - intros Z a' rhs' HZ Hs. subst Z. rewrite E in Hs. injection Hs as <- <-.
    unfold svd_regular_on. rewrite A1, A2, Hp. exact Hreg.
  - unfold ridge_fit.
    replace (nrows X <=? ncols X) with false by (symmetry; apply Nat.leb_gt; lia).
    rewrite Hy, Nat.eqb_refl. cbn [negb]. rewrite E.
    unfold svd_model_solver, svd_solve_mut, svd_solve_with. rewrite A1, A2, Hp, Hst.
    rewrite R1, Hp, Nat.eqb_refl. cbn [negb]. eexists. eexists. reflexivity.
Qed.

(* least squares with no feature (intercept only): the augmented design is the column of ones *)
Lemma ols_svd_model_instance (X : dm R) (y : list R) :
  wfR X -> ncols X = 0%nat -> (0 < nrows X)%nat -> length y = nrows X ->
  exists minpos, 0 < minpos /\ ols_svd_regular cs_R minpos X /\
    exists wm b, ols_fit ROps (svd_model_solver cs_R minpos) X y = Some (wm, b).
Proof.
  intros Hwf Hp Hn Hy.
  destruct (h_stack_spec ROps X (D.ones ROps (nrows X) 1)) as [_ Hh].
  destruct (Hh eq_refl) as [a [Ha [A1 [A2 [A3 A4]]]]].
  change (ncols (D.ones ROps (nrows X) 1)) with 1%nat in *. rewrite Hp in A2. cbn [Nat.add] in A2.
  destruct (svd_column_instance cs_R (nrows X) (to_mx ROps a) cs_R_spec ltac:(lia)) as [minpos [st [Hmp [Hreg Hst]]]].
  exists minpos. split; [exact Hmp|]. split.
  - intros a' Ha'. rewrite Ha in Ha'. injection Ha' as <-. unfold svd_regular_on. rewrite A1, A2. exact Hreg.
  - unfold ols_fit. pose proof (col_vec_shape y) as [C1 [C2 C3]].
    rewrite C1, Hy, Nat.eqb_refl. cbn [negb]. rewrite Ha.
    unfold svd_model_solver, svd_solve_mut, svd_solve_with. rewrite A1, A2, Hst.
    rewrite C1, Hy, Nat.eqb_refl. cbn [negb]. rewrite C2.
    match goal with |- context [of_mx ?n ?p ?M] => set (w := of_mx n p M);
      pose proof (of_mx_shape n p M) as [S1 [S2 S3]]; fold w in S1, S2, S3 end.
    destruct (slice_spec ROps w 0 (ncols X) 0 1) as [_ Hsl].
    destruct (Hsl ltac:(right; left; lia)) as [s [Hs' _]]. rewrite Hs'.
    rewrite (get_chk_spec ROps w (ncols X) 0 S3). rewrite S1, S2, Hp.
    replace (0 <? nrows X) with true by (symmetry; apply Nat.ltb_lt; exact Hn).
    cbn [Nat.ltb Nat.leb andb]. eexists. eexists. reflexivity.
Qed.
