(* C07 — full column rank of [X 1] is positive definiteness of the augmented Gram matrix built with
   the library's own operations: a = X.h_stack(ones), G = a^T a (extension). *)
From Coq Require Import List Arith Bool Lia Reals Lra.
From SC Require Import Base.Num C01.Model C01.Proofs C03.ProofsBase C03.ProofsAlg
     C07.Model C07.ProofsObj C07.ProofsFit C07.ProofsRidge C07.ProofsSolve C07.ProofsOLS C07.ProofsMain
     C07.ProofsOLSTotal.
Import ListNotations.
Local Open Scope R_scope.

Local Notation get := (D.get ROps).

Lemma aug_gram_exists (X : dm R) : wfR X ->
  exists a G, D.h_stack ROps X (D.ones ROps (nrows X) 1) = Some a /\
    D.matmul ROps (D.transpose ROps a) a = Some G /\
    nrows G = (ncols X + 1)%nat /\ ncols G = (ncols X + 1)%nat /\
    (forall r c, (r < ncols X + 1)%nat -> (c < ncols X + 1)%nat ->
       get G r c = rsum (nrows X) (fun i => (if r <? ncols X then get X i r else 1) * (if c <? ncols X then get X i c else 1))).
Proof.
  intros Hwf.
  destruct (h_stack_spec ROps X (D.ones ROps (nrows X) 1)) as [_ Hh].
  destruct (Hh eq_refl) as [a [Ha [A1 [A2 [A3 A4]]]]].
  change (ncols (D.ones ROps (nrows X) 1)) with 1%nat in *.
  pose proof (transpose_shape ROps a) as [T1 [T2 T3]].
  destruct (matmul_spec ROps (D.transpose ROps a) a) as [G [HG [G1 [G2 [G3 G4]]]]]; [lia|].
  exists a, G. split; [exact Ha|]. split; [exact HG|]. split; [lia|]. split; [lia|].
  intros r c Hr Hc. rewrite G4 by lia. rewrite T2, A1.
  change (osumn ROps (nrows X) (fun i => omul ROps (get (D.transpose ROps a) r i) (get a i c)))
    with (rsum (nrows X) (fun i => get (D.transpose ROps a) r i * get a i c)).
  apply rsum_ext. intros i Hi. rewrite get_transpose by lia. rewrite !A4 by lia.
  unfold D.ones.
  destruct (Nat.ltb_spec r (ncols X)), (Nat.ltb_spec c (ncols X)); rewrite ?get_fill by lia; reflexivity.
Qed.

(* "[X 1]^T [X 1] is positive definite" (pos_def of C07/ProofsFit.v, the hypothesis of C01's
   chol_spd_some) is exactly full column rank of the augmented design *)
Lemma aug_gram_pos_def_iff (X a G : dm R) : wfR X ->
  D.h_stack ROps X (D.ones ROps (nrows X) 1) = Some a ->
  D.matmul ROps (D.transpose ROps a) a = Some G ->
  (pos_def G <-> ols_full_rank X).
Proof.
  intros Hwf Ha HG.
  destruct (aug_gram_exists X Hwf) as [a' [G' [Ha' [HG' [G1 [G2 G4]]]]]].
  rewrite Ha in Ha'. injection Ha' as <-. rewrite HG in HG'. injection HG' as <-.
  set (p := ncols X) in *. set (n := nrows X) in *.
  set (Af := fun (i k : nat) => if k <? p then get X i k else 1).
  assert (Hq : forall x : nat -> R,
    rsum (nrows G) (fun i => rsum (nrows G) (fun j => x i * get G i j * x j))
    = rsum n (fun t => (rsum p (fun k => get X t k * x k) + x p) ^ 2)).
  { intros x. rewrite G1.
    rewrite (rsum_ext (p + 1) _ (fun i => rsum (p + 1) (fun j =>
               x i * (rsum n (fun t => Af t i * Af t j) + (if Nat.eqb i j then 0 else 0)) * x j))).
    2:{ intros i Hi. apply rsum_ext. intros j Hj. rewrite G4 by assumption. unfold Af.
        destruct (Nat.eqb i j); ring. }
    rewrite (gram_quadratic_form n (p + 1) Af 0 x). rewrite Rmult_0_l, Rplus_0_r.
    apply rsum_ext. intros t Ht. f_equal. rewrite Nat.add_1_r, rsum_S. unfold Af.
    rewrite Nat.ltb_irrefl. f_equal; [|ring]. apply rsum_ext. intros k Hk.
    replace (k <? p) with true by (symmetry; apply Nat.ltb_lt; exact Hk). reflexivity. }
  rewrite ols_full_rank_iff_pos_def. split.
  - intros Hpd c c0 Hnz.
    set (x := fun k => if k <? p then c k else c0).
    assert (Hx : exists i, (i < nrows G)%nat /\ x i <> 0).
    { rewrite G1. destruct Hnz as [[k [Hk Hck]]|Hc0].
      - exists k. split; [lia|]. unfold x. replace (k <? p) with true by (symmetry; apply Nat.ltb_lt; exact Hk). exact Hck.
      - exists p. split; [lia|]. unfold x. rewrite Nat.ltb_irrefl. exact Hc0. }
    specialize (Hpd x Hx). rewrite Hq in Hpd.
    replace (rsum (nrows X) (fun i => (rsum (ncols X) (fun k => get X i k * c k) + c0) ^ 2))
      with (rsum n (fun t => (rsum p (fun k => get X t k * x k) + x p) ^ 2)); [exact Hpd|].
    apply rsum_ext. intros t Ht. unfold x at 2. rewrite Nat.ltb_irrefl. f_equal. f_equal.
    apply rsum_ext. intros k Hk. unfold x. replace (k <? p) with true by (symmetry; apply Nat.ltb_lt; exact Hk). reflexivity.
  - intros Hpd x [i [Hi Hxi]]. rewrite Hq. rewrite G1 in Hi.
    apply (Hpd x (x p)). destruct (Nat.eq_dec i p) as [->|Hne]; [right; exact Hxi|].
    left. exists i. split; [lia|exact Hxi].
Qed.
