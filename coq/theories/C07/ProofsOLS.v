(* C07 — LinearRegression::fit: the solution of the augmented least-squares system gives a residual
   orthogonal to every column of X and summing to zero, for every least-squares solver. *)
From Coq Require Import List Arith Bool Lia Reals Lra.
From SC Require Import Base.Num C01.Model C01.Proofs C03.ProofsBase C03.ProofsAlg C07.Model C07.ProofsObj C07.ProofsFit C07.ProofsRidge C07.ProofsSolve.
Import ListNotations.
Local Open Scope R_scope.

Local Notation get := (D.get ROps).

Lemma ols_fit_spec solver (X : dm R) (y : list R) wm ic :
  wfR X -> (ncols X < nrows X)%nat -> lsq_solver solver ->
  ols_fit ROps solver X y = Some (wm, ic) ->
  length y = nrows X /\ wfR wm /\ nrows wm = ncols X /\ ncols wm = 1%nat /\
  (forall j, (j < ncols X)%nat -> grad_w (nrows X) (ncols X) (get X) (vecf y) 0 (colf wm) ic j = 0) /\
  grad_c (nrows X) (ncols X) (get X) (vecf y) (colf wm) ic = 0.
Proof.
  intros Hwf Hnp Hsol. unfold ols_fit.
  pose proof (col_vec_shape y) as [C1 [C2 C3]]. rewrite C1.
  destruct (Nat.eqb_spec (nrows X) (length y)) as [Hy|]; [|discriminate]. cbn [negb].
  destruct (h_stack_spec ROps X (D.ones ROps (nrows X) 1)) as [_ Hh].
  destruct (Hh eq_refl) as [a [Ha [A1 [A2 [A3 A4]]]]]. rewrite Ha.
  change (ncols (D.ones ROps (nrows X) 1)) with 1%nat in *.
  destruct (solver a (col_vec ROps y)) as [w|] eqn:Hs; [|discriminate].
  destruct (Hsol a (col_vec ROps y) w A3 C3 ltac:(lia) C2 ltac:(lia) Hs) as [W1 [W2 [W3 W4]]].
  destruct (slice_spec ROps w 0 (ncols X) 0 1) as [_ Hsl].
  destruct (Hsl ltac:(left; lia)) as [s [Hs' [S1 [S2 [S3 S4]]]]]. rewrite Hs'.
  rewrite (get_chk_spec ROps w (ncols X) 0 W1).
  replace (ncols X <? nrows w) with true by (symmetry; apply Nat.ltb_lt; lia).
  replace (0 <? ncols w) with true by (symmetry; apply Nat.ltb_lt; lia). cbn [andb].
  intros E. injection E as <- <-.
  split; [lia|]. split; [exact S3|]. split; [lia|]. split; [lia|].
  (* the normal equations of the augmented system, column c *)
  assert (Hrow : forall i, (i < nrows X)%nat ->
            rsum (ncols a) (fun t => get a i t * get w t 0%nat) - get (col_vec ROps y) i 0%nat
            = - res (ncols X) (get X) (vecf y) (colf s) (get w (ncols X) 0%nat) i).
  { intros i Hi. rewrite A2, Nat.add_1_r, rsum_S. rewrite get_col_vec by lia.
    rewrite A4 by lia. rewrite Nat.ltb_irrefl, Nat.sub_diag.
    unfold D.ones. rewrite get_fill by lia.
    unfold res, vecf, colf. cbn [o1 ROps].
    rewrite (rsum_ext (ncols X) (fun t => get a i t * get w t 0%nat) (fun k => get X i k * get s k 0%nat)).
    2:{ intros k Hk. rewrite A4 by lia. replace (k <? ncols X) with true by (symmetry; apply Nat.ltb_lt; lia).
        rewrite S4 by lia. rewrite !Nat.add_0_r. reflexivity. }
    ring. }
  split.
  - intros j Hj. specialize (W4 j ltac:(lia)). rewrite A1 in W4. unfold grad_w.
    rewrite (rsum_ext (nrows X) _ (fun i => - (get X i j * res (ncols X) (get X) (vecf y) (colf s) (get w (ncols X) 0%nat) i))) in W4.
    2:{ intros i Hi. rewrite Hrow by exact Hi. rewrite A4 by lia.
        replace (j <? ncols X) with true by (symmetry; apply Nat.ltb_lt; lia). ring. }
    rewrite rsum_opp in W4. lra.
  - specialize (W4 (ncols X) ltac:(lia)). rewrite A1 in W4. unfold grad_c.
    rewrite (rsum_ext (nrows X) _ (fun i => - res (ncols X) (get X) (vecf y) (colf s) (get w (ncols X) 0%nat) i)) in W4.
    2:{ intros i Hi. rewrite Hrow by exact Hi. rewrite A4 by lia. rewrite Nat.ltb_irrefl, Nat.sub_diag.
        unfold D.ones. rewrite get_fill by lia. cbn [o1 ROps]. ring. }
    rewrite rsum_opp in W4. exact W4.
Qed.
