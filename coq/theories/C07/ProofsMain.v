(* C07 — the property-level statements assembled from the fit lemmas and the objective algebra. *)
From Coq Require Import List Arith Bool Lia Reals Lra.
From SC Require Import Base.Num C01.Model C01.Proofs C03.ProofsBase C03.ProofsAlg C07.Model C07.ProofsObj C07.ProofsFit C07.ProofsRidge C07.ProofsSolve C07.ProofsOLS.
From SC Require C03.ProofsRed.
Import ListNotations.
Local Open Scope R_scope.

Local Notation get := (D.get ROps).

(* the objective of the property text, on a design matrix, a target list and coefficient / intercept *)
Definition objective (X : dm R) (y : list R) (alpha : R) (w : nat -> R) (b : R) : R :=
  rsum (nrows X) (fun i => (nth i y 0 - rsum (ncols X) (fun k => get X i k * w k) - b) ^ 2)
  + alpha * rsum (ncols X) (fun k => w k ^ 2).
Lemma objective_obj X y alpha w b : objective X y alpha w b = obj (nrows X) (ncols X) (get X) (vecf y) alpha w b.
Proof. reflexivity. Qed.
(* residual of the fitted model on the training rows: y_i - (sum_k X_ik w_k + b) *)
Definition residual (X : dm R) (y : list R) (wm : dm R) (b : R) (i : nat) : R :=
  nth i y 0 - (rsum (ncols X) (fun k => get X i k * get wm k 0%nat) + b).
Lemma residual_res X y wm b i : residual X y wm b i = res (ncols X) (get X) (vecf y) (colf wm) b i.
Proof. unfold residual, res, vecf, colf. ring. Qed.

(* ---------- OLS ---------- *)
Lemma ols_normal_equations solver (X : dm R) (y : list R) wm b :
  wfR X -> (ncols X < nrows X)%nat -> lsq_solver solver ->
  ols_fit ROps solver X y = Some (wm, b) ->
  length y = nrows X /\ nrows wm = ncols X /\ ncols wm = 1%nat /\
  (forall j, (j < ncols X)%nat -> rsum (nrows X) (fun i => get X i j * residual X y wm b i) = 0) /\
  rsum (nrows X) (fun i => residual X y wm b i) = 0 /\
  (forall w' b', objective X y 0 (colf wm) b <= objective X y 0 w' b').
Proof.
  intros Hwf Hnp Hsol Hfit.
  destruct (ols_fit_spec solver X y wm b Hwf Hnp Hsol Hfit) as [Hy [W1 [W2 [W3 [Hg Hc]]]]].
  split; [exact Hy|]. split; [exact W2|]. split; [exact W3|]. split; [|split].
  - intros j Hj. specialize (Hg j Hj). unfold grad_w in Hg.
    rewrite (rsum_ext _ _ (fun i => get X i j * res (ncols X) (get X) (vecf y) (colf wm) b i))
      by (intros; rewrite residual_res; reflexivity). lra.
  - unfold grad_c in Hc.
    rewrite (rsum_ext _ _ (fun i => res (ncols X) (get X) (vecf y) (colf wm) b i))
      by (intros; rewrite residual_res; reflexivity). lra.
  - intros w' b'. rewrite !objective_obj. apply stationary_min; [lra|exact Hg|exact Hc].
Qed.

(* ---------- ridge, normalize = false ---------- *)
Lemma ridge_raw_minimiser solver eps (X : dm R) (y : list R) alpha wm b :
  wfR X -> 0 < alpha -> exact_spd_solver solver ->
  ridge_fit ROps solver eps X y alpha false = Some (wm, b) ->
  b = 0 /\ nrows wm = ncols X /\ ncols wm = 1%nat /\
  (forall j, (j < ncols X)%nat ->
     alpha * get wm j 0%nat - rsum (nrows X) (fun i => get X i j * residual X y wm 0 i) = 0) /\
  (forall w', objective X y alpha (colf wm) 0 <= objective X y alpha w' 0) /\
  (forall w', objective X y alpha w' 0 <= objective X y alpha (colf wm) 0 ->
     forall k, (k < ncols X)%nat -> w' k = get wm k 0%nat).
Proof.
  intros Hwf Ha Hsol Hfit.
  destruct (ridge_fit_raw solver eps X y alpha wm b Hwf Ha Hsol Hfit) as [Hnp [Hy [Hb [W1 [W2 [W3 Hg]]]]]].
  split; [exact Hb|]. split; [exact W2|]. split; [exact W3|]. split; [|split].
  - intros j Hj. specialize (Hg j Hj). unfold grad_w in Hg. unfold colf at 1 in Hg.
    rewrite (rsum_ext _ _ (fun i => get X i j * res (ncols X) (get X) (vecf y) (colf wm) 0 i))
      by (intros; rewrite residual_res; reflexivity). exact Hg.
  - intros w'. rewrite !objective_obj. apply stationary_min_fixed; [lra|exact Hg].
  - intros w' Hle k Hk. rewrite !objective_obj in Hle.
    apply (stationary_unique_fixed _ _ _ _ _ (Rlt_le _ _ Ha) (colf wm) 0 Ha Hg w' Hle k Hk).
Qed.

(* ---------- ridge, normalize = true ---------- *)
(* the objective over standardised columns with an unpenalised intercept, written in the reported
   (raw) coefficients w and intercept b:  Z_ik = (X_ik - mu_k)/sd_k,  coefficient sd_k w_k,
   intercept b + sum_k mu_k w_k *)
Definition objective_std (Z : dm R) (y : list R) (alpha : R) (mu sd : list R) (w : nat -> R) (b : R) : R :=
  objective Z y alpha (fun k => w k * nth k sd 0) (b + rsum (ncols Z) (fun k => w k * nth k mu 0)).

Lemma ridge_norm_minimiser solver eps (X : dm R) (y : list R) alpha wm b :
  0 < eps -> wfR X -> 0 < alpha -> exact_spd_solver solver ->
  ridge_fit ROps solver eps X y alpha true = Some (wm, b) ->
  exists Z mu sd, rescale_x ROps eps X = Some (Z, mu, sd) /\
    nrows Z = nrows X /\ ncols Z = ncols X /\ nrows wm = ncols X /\ ncols wm = 1%nat /\
    (* the standardisation *)
    (forall j, (j < ncols X)%nat ->
       nth j mu 0 = rsum (nrows X) (fun i => get X i j) / INR (nrows X) /\
       nth j sd 0 = sqrt (rsum (nrows X) (fun i => (get X i j - nth j mu 0) ^ 2) / INR (nrows X)) /\
       nth j sd 0 <> 0) /\
    (forall i j, (i < nrows X)%nat -> (j < ncols X)%nat -> get Z i j = (get X i j - nth j mu 0) / nth j sd 0) /\
    (* predictions in the two coordinate systems coincide, so `residual` is the standardised residual *)
    (forall i, (i < nrows X)%nat ->
       residual X y wm b i
       = nth i y 0 - rsum (ncols X) (fun k => get Z i k * (get wm k 0%nat * nth k sd 0))
         - (b + rsum (ncols X) (fun k => get wm k 0%nat * nth k mu 0))) /\
    (* the gradient of the standardised objective vanishes: penalised coefficients, free intercept *)
    (forall j, (j < ncols X)%nat ->
       alpha * (get wm j 0%nat * nth j sd 0) - rsum (nrows X) (fun i => get Z i j * residual X y wm b i) = 0) /\
    rsum (nrows X) (fun i => residual X y wm b i) = 0 /\
    (* global and unique minimiser *)
    (forall w' b', objective_std Z y alpha mu sd (colf wm) b <= objective_std Z y alpha mu sd w' b') /\
    (forall w' b', objective_std Z y alpha mu sd w' b' <= objective_std Z y alpha mu sd (colf wm) b ->
       (forall k, (k < ncols X)%nat -> w' k = get wm k 0%nat) /\ b' = b).
Proof.
  intros Heps Hwf Ha Hsol Hfit.
  destruct (ridge_fit_norm solver eps X y alpha wm b Heps Hwf Ha Hsol Hfit)
    as [Z [mu [sd [Hr [Hnp [Hy [W1 [W2 [W3 HG]]]]]]]]]. cbv zeta in HG. destruct HG as [Hg Hc].
  destruct (rescale_x_spec eps X Z mu sd Heps Hwf Hr) as [Em [Es [Lm [Ls [Z1 [Z2 [Z3 [Hmu [Hsd HZ]]]]]]]]].
  exists Z, mu, sd. split; [exact Hr|]. split; [exact Z1|]. split; [exact Z2|]. split; [exact W2|]. split; [exact W3|].
  assert (Hres : forall i, (i < nrows X)%nat ->
     residual X y wm b i = res (ncols X) (get Z) (vecf y) (fun k => colf wm k * nth k sd 0)
                               (b + rsum (ncols X) (fun k => colf wm k * nth k mu 0)) i).
  { intros i Hi. unfold residual, res, vecf, colf.
    rewrite (rsum_ext (ncols X) (fun k => get Z i k * (get wm k 0%nat * nth k sd 0))
               (fun k => get X i k * get wm k 0%nat - get wm k 0%nat * nth k mu 0)).
    2:{ intros k Hk. rewrite HZ by assumption. field. apply Hsd. exact Hk. }
    rewrite rsum_minus. ring. }
  split; [|split; [exact HZ|split; [|split; [|split; [|split]]]]].
  - intros j Hj. split; [rewrite Hmu by exact Hj; reflexivity|]. split; [|apply Hsd; exact Hj].
    rewrite Es. rewrite (ProofsRed.std_nth X true j Hj).
    rewrite (ProofsRed.var_nth X true j Hj ltac:(cbn; lia)). f_equal.
    rewrite (Hmu j Hj). reflexivity.
  - intros i Hi. rewrite (Hres i Hi). unfold res, vecf, colf. reflexivity.
  - intros j Hj. specialize (Hg j Hj). unfold grad_w in Hg. unfold colf at 1 in Hg.
    rewrite (rsum_ext _ _ (fun i => get Z i j * res (ncols X) (get Z) (vecf y) (fun k => colf wm k * nth k sd 0)
                               (b + rsum (ncols X) (fun k => colf wm k * nth k mu 0)) i))
      by (intros i Hi; rewrite (Hres i Hi); reflexivity). exact Hg.
  - unfold grad_c in Hc.
    rewrite (rsum_ext (nrows X) (fun i => residual X y wm b i) _ Hres). apply Ropp_eq_0_compat in Hc. rewrite Ropp_involutive in Hc. exact Hc.
  - intros w' b'. unfold objective_std. rewrite !objective_obj, Z1, Z2. apply stationary_min; [lra|exact Hg|exact Hc].
  - intros w' b' Hle. unfold objective_std in Hle. rewrite !objective_obj, Z1, Z2 in Hle.
    assert (Hn0 : (0 < nrows X)%nat) by lia.
    destruct (stationary_unique _ _ _ _ _ (Rlt_le _ _ Ha) _ _ Ha Hn0 Hg Hc _ _ Hle) as [H1 H2].
    assert (Hw : forall k, (k < ncols X)%nat -> w' k = get wm k 0%nat).
    { intros k Hk. specialize (H1 k Hk). cbv beta in H1. unfold colf in H1.
      apply (Rmult_eq_reg_r (nth k sd 0)); [exact H1|apply Hsd; exact Hk]. }
    split; [exact Hw|].
    rewrite (rsum_ext (ncols X) (fun k => w' k * nth k mu 0) (fun k => colf wm k * nth k mu 0)) in H2.
    2:{ intros k Hk. rewrite (Hw k Hk). reflexivity. }
    lra.
Qed.

(* ---------- totality: on data of the property's shape the Cholesky ridge fit returns ---------- *)
Lemma ridge_fit_raw_total solver eps (X : dm R) (y : list R) alpha :
  wfR X -> 0 < alpha -> (ncols X < nrows X)%nat -> length y = nrows X -> total_spd_solver solver ->
  exists wm b, ridge_fit ROps solver eps X y alpha false = Some (wm, b).
Proof.
  intros Hwf Ha Hnp Hy Htot. unfold ridge_fit.
  replace (nrows X <=? ncols X) with false by (symmetry; apply Nat.leb_gt; exact Hnp).
  rewrite Hy, Nat.eqb_refl. cbn [negb].
  destruct (ridge_system_spec X y alpha Hwf Hy) as [a [rhs [E _]]]. rewrite E.
  destruct (ridge_system_spd X y alpha a rhs Hwf Hy Ha E) as [Hsq [Hsym Hpd]].
  destruct (Htot a rhs Hsq Hsym Hpd) as [w Hw]. rewrite Hw. eexists. eexists. reflexivity.
Qed.

(* ---------- solver agreement in exact arithmetic ---------- *)
Lemma ridge_solvers_agree s1 s2 eps (X : dm R) (y : list R) alpha normalize w1 b1 w2 b2 :
  0 < eps -> wfR X -> 0 < alpha -> exact_spd_solver s1 -> exact_spd_solver s2 ->
  ridge_fit ROps s1 eps X y alpha normalize = Some (w1, b1) ->
  ridge_fit ROps s2 eps X y alpha normalize = Some (w2, b2) ->
  (forall k, (k < ncols X)%nat -> get w1 k 0%nat = get w2 k 0%nat) /\ b1 = b2.
Proof.
  intros Heps Hwf Ha H1 H2 F1 F2. destruct normalize.
  - destruct (ridge_norm_minimiser s1 eps X y alpha w1 b1 Heps Hwf Ha H1 F1)
      as [Z [mu [sd [Hr [_ [_ [_ [_ [_ [_ [_ [_ [_ [Hmin _]]]]]]]]]]]]]].
    destruct (ridge_norm_minimiser s2 eps X y alpha w2 b2 Heps Hwf Ha H2 F2)
      as [Z' [mu' [sd' [Hr' [_ [_ [_ [_ [_ [_ [_ [_ [_ [_ Huniq]]]]]]]]]]]]]].
    rewrite Hr in Hr'. injection Hr' as <- <- <-.
    destruct (Huniq (colf w1) b1 (Hmin (colf w2) b2)) as [E1 E2]. split; [exact E1|exact E2].
  - destruct (ridge_raw_minimiser s1 eps X y alpha w1 b1 Hwf Ha H1 F1) as [B1 [_ [_ [_ [Hmin _]]]]].
    destruct (ridge_raw_minimiser s2 eps X y alpha w2 b2 Hwf Ha H2 F2) as [B2 [_ [_ [_ [_ Huniq]]]]].
    split; [|lra]. intros k Hk. apply (Huniq (colf w1) (Hmin (colf w2)) k Hk).
Qed.

(* ---------- the stationarity validator is sound over the reals ---------- *)
Lemma vget_nth (v : list R) i : vget ROps v i = nth i v 0.
Proof. reflexivity. Qed.
Lemma check_stationary_sound (Z : dm R) y alpha w c free tol :
  check_stationary ROps Z y alpha w c free tol = true ->
  (forall j, (j < ncols Z)%nat ->
     Rabs (grad_w (nrows Z) (ncols Z) (get Z) (vecf y) alpha (vecf w) c j)
     <= tol * scale_w ROps (nrows Z) (ncols Z) Z y alpha w c j) /\
  (if free then Rabs (grad_c (nrows Z) (ncols Z) (get Z) (vecf y) (vecf w) c)
                <= tol * scale_c ROps (nrows Z) (ncols Z) Z y w c
   else c = 0).
Proof.
  unfold check_stationary. intros H. apply andb_prop in H. destruct H as [H1 H2]. split.
  - intros j Hj. rewrite forallb_forall in H1. specialize (H1 j ltac:(apply in_seq; lia)).
    cbn [oleb ROps] in H1. apply Rleb_true in H1. exact H1.
  - destruct free.
    + cbn [oleb ROps] in H2. apply Rleb_true in H2.
      unfold sg_c in H2. cbn [osub o0 ROps] in H2. unfold grad_c.
      replace (- rsum (nrows Z) (fun i => res (ncols Z) (get Z) (vecf y) (vecf w) c i))
        with (0 - osumn ROps (nrows Z) (fun i => resid ROps (ncols Z) Z y w c i)); [exact H2|].
      unfold res, resid, vecf, vget, rsum. cbn [osub omul o0 ROps]. ring.
    + cbn [oeqb ROps] in H2. apply Reqb_true in H2. exact H2.
Qed.
