(* C07 — totality of RidgeRegression::fit with normalize = true (extension).  Over the reals, for
   alpha > 0, n > p rows, a target of length n and every column's (population) standard deviation
   at least epsilon (the complement of the code's own Err test in rescale_x; in particular no column
   is constant), rescale_x returns, the standardised Gram matrix plus alpha I is symmetric positive
   definite, and fit returns for every solver that is total and exact on SPD systems — the Cholesky
   path in particular. *)
From Coq Require Import List Arith Bool Lia Reals Lra.
From SC Require Import Base.Num C01.Model C01.Proofs C03.ProofsBase C03.ProofsAlg
     C07.Model C07.ProofsObj C07.ProofsFit C07.ProofsRidge C07.ProofsSolve C07.ProofsMain.
From SC Require C03.ProofsRed.
Import ListNotations.
Local Open Scope R_scope.

Local Notation get := (D.get ROps).

(* the population standard deviation of column j *)
Definition col_sd (X : dm R) (j : nat) : R :=
  sqrt (rsum (nrows X) (fun i => (get X i j - col_mu X j) ^ 2) / INR (nrows X)).

Lemma std_col_sd (X : dm R) j : (j < ncols X)%nat -> (0 < nrows X)%nat ->
  nth j (D.std ROps X true) 0 = col_sd X j.
Proof.
  intros Hj Hn. rewrite (ProofsRed.std_nth X true j Hj).
  rewrite (ProofsRed.var_nth X true j Hj Hn). reflexivity.
Qed.

Lemma col_sd_nonneg X j : 0 <= col_sd X j.
Proof. apply sqrt_pos. Qed.

(* a column that is not constant has a positive deviation (so SOME epsilon passes the test) *)
Lemma col_sd_pos (X : dm R) j : (0 < nrows X)%nat ->
  (exists i, (i < nrows X)%nat /\ get X i j <> col_mu X j) -> 0 < col_sd X j.
Proof.
  intros Hn [i [Hi Hne]]. unfold col_sd. apply sqrt_lt_R0. unfold Rdiv. apply Rmult_lt_0_compat.
  - apply rsum_sq_pos. exists i. split; [exact Hi|]. lra.
  - apply Rinv_0_lt_compat. apply lt_0_INR. exact Hn.
Qed.

(* an exactly constant column has deviation 0 (over R), so with eps > 0 the exactly-constant clause
   of rescale_x rejects nothing that the deviation test accepts *)
Lemma col_constant_sd0 (X : dm R) j : (0 < nrows X)%nat -> col_constant ROps X j = true -> col_sd X j = 0.
Proof.
  intros Hn Hc. unfold col_constant in Hc. rewrite forallb_forall in Hc.
  assert (Hall : forall i, (i < nrows X)%nat -> get X i j = get X 0%nat j).
  { intros i Hi. destruct i as [|i]; [reflexivity|].
    specialize (Hc (S i) ltac:(apply in_seq; lia)). cbn [oeqb ROps] in Hc. apply Reqb_true in Hc. exact Hc. }
  assert (Hmu : col_mu X j = get X 0%nat j).
  { unfold col_mu. rewrite (rsum_ext _ _ (fun _ => get X 0%nat j * 1)) by (intros i Hi; rewrite (Hall i Hi); ring).
    rewrite rsum_scal.
    assert (E : forall m, rsum m (fun _ => 1) = INR m).
    { induction m as [|m IH]; [reflexivity|]. rewrite rsum_S, IH, S_INR. ring. }
    rewrite E. field. apply not_0_INR. lia. }
  unfold col_sd. rewrite (rsum_zero (nrows X)) by (intros i Hi; rewrite Hmu, (Hall i Hi); ring).
  unfold Rdiv. rewrite Rmult_0_l. apply sqrt_0.
Qed.
Lemma rescale_x_old_some eps (X : dm R) r : 0 < eps -> (0 < nrows X)%nat ->
  rescale_x_old eps X = Some r -> rescale_x ROps eps X = Some r.
Proof.
  intros Heps Hn. unfold rescale_x_old, rescale_x.
  destruct (existsb (fun s => oltb ROps _ eps) (D.std ROps X true)) eqn:E; [discriminate|].
  assert (Hnew : existsb (col_rejected ROps eps X (D.std ROps X true)) (seq 0 (length (D.std ROps X true))) = false).
  { destruct (existsb (col_rejected ROps eps X _) _) eqn:E2; [|reflexivity]. exfalso.
    apply existsb_exists in E2. destruct E2 as [j [Hin Hrej]]. apply in_seq in Hin.
    rewrite ProofsRed.std_length in Hin. change (D.n_lines X true) with (ncols X) in Hin.
    assert (Hj : (j < ncols X)%nat) by lia.
    assert (Hold : oltb ROps (oabs ROps (osub ROps (nth j (D.std ROps X true) 0) (o0 ROps))) eps = false).
    { destruct (oltb ROps _ eps) eqn:Eb; [|reflexivity].
      assert (existsb (fun s => oltb ROps (oabs ROps (osub ROps s (o0 ROps))) eps) (D.std ROps X true) = true).
      { apply existsb_exists. eexists. split; [|exact Eb]. apply nth_In. rewrite ProofsRed.std_length. exact Hj. }
      congruence. }
    cbn [oltb oabs osub o0 ROps] in Hold. apply Rltb_false in Hold.
    unfold col_rejected in Hrej. apply orb_true_iff in Hrej. destruct Hrej as [Hc|Hs].
    - rewrite (std_col_sd X j Hj Hn), (col_constant_sd0 X j Hn Hc) in Hold.
      rewrite Rminus_0_r, Rabs_R0 in Hold. lra.
    - apply negb_true_iff in Hs. cbn [oleb oabs osub o0 ROps] in Hs. apply Rleb_false in Hs. lra. }
  rewrite Hnew. intros H; exact H.
Qed.

Lemma rescale_x_total eps (X : dm R) : 0 < eps -> (0 < nrows X)%nat ->
  (forall j, (j < ncols X)%nat -> eps <= col_sd X j) ->
  exists Z mu sd, rescale_x ROps eps X = Some (Z, mu, sd).
Proof.
  intros Heps Hn Hsd.
  enough (exists Z mu sd, rescale_x_old eps X = Some (Z, mu, sd)) as [Z [mu [sd H]]]
    by (exists Z, mu, sd; apply rescale_x_old_some; assumption).
  unfold rescale_x_old.
  assert (Hex : existsb (fun s => oltb ROps (oabs ROps (osub ROps s (o0 ROps))) eps) (D.std ROps X true) = false).
  { destruct (existsb _ (D.std ROps X true)) eqn:E; [|reflexivity]. exfalso.
    apply existsb_exists in E. destruct E as [s [Hin Hlt]].
    destruct (In_nth _ _ 0 Hin) as [j [Hj Hs]]. rewrite ProofsRed.std_length in Hj.
    change (D.n_lines X true) with (ncols X) in Hj.
    rewrite (std_col_sd X j Hj Hn) in Hs. subst s.
    cbn [oltb oabs osub o0 ROps] in Hlt. apply Rltb_true in Hlt.
    rewrite Rminus_0_r, Rabs_right in Hlt by (apply Rle_ge, col_sd_nonneg).
    specialize (Hsd j Hj). lra. }
  rewrite Hex.
  destruct (ProofsRed.scale_spec X (D.mean ROps X true) (D.std ROps X true) true) as [Z [HZ _]].
  { rewrite ProofsRed.mean_length. apply le_n. }
  { rewrite ProofsRed.std_length. apply le_n. }
  rewrite HZ. eexists. eexists. eexists. reflexivity.
Qed.

(* the system the normalised fit hands to its solver is symmetric positive definite *)
Lemma ridge_norm_system_spd eps (X Z : dm R) mu sd (y : list R) alpha :
  0 < eps -> wfR X -> 0 < alpha -> length y = nrows X ->
  rescale_x ROps eps X = Some (Z, mu, sd) ->
  exists a rhs, ridge_system ROps (ncols X) Z (col_vec ROps y) alpha = Some (a, rhs) /\
    square_system a rhs /\ sym a /\ pos_def a /\ nrows a = ncols X /\
    (forall r c, (r < ncols X)%nat -> (c < ncols X)%nat ->
       get a r c = rsum (nrows X) (fun i => get Z i r * get Z i c) + (if Nat.eqb r c then alpha else 0)).
Proof.
  intros Heps Hwf Ha Hy Hr.
  destruct (rescale_x_spec eps X Z mu sd Heps Hwf Hr) as [_ [_ [_ [_ [Z1 [Z2 [Z3 _]]]]]]].
  assert (Hy' : length y = nrows Z) by lia.
  destruct (ridge_system_spec Z y alpha Z3 Hy') as [a [rhs [E [A1 [A2 [A3 [R1 [R2 [R3 [Hga Hgr]]]]]]]]]].
  destruct (ridge_system_spd Z y alpha a rhs Z3 Hy' Ha E) as [Hsq [Hsym Hpd]].
  rewrite Z2 in E. exists a, rhs. split; [exact E|]. split; [exact Hsq|]. split; [exact Hsym|].
  split; [exact Hpd|]. split; [lia|].
  intros r c Hr' Hc'. rewrite Hga by lia. rewrite Z1. reflexivity.
Qed.

Lemma ridge_fit_norm_total solver eps (X : dm R) (y : list R) alpha :
  0 < eps -> wfR X -> 0 < alpha -> (ncols X < nrows X)%nat -> length y = nrows X ->
  (forall j, (j < ncols X)%nat -> eps <= col_sd X j) ->
  total_spd_solver solver -> exact_spd_solver solver ->
  exists wm b, ridge_fit ROps solver eps X y alpha true = Some (wm, b).
Proof.
  intros Heps Hwf Ha Hnp Hy Hsd Htot Hex. unfold ridge_fit.
  replace (nrows X <=? ncols X) with false by (symmetry; apply Nat.leb_gt; exact Hnp).
  rewrite Hy, Nat.eqb_refl. cbn [negb].
  destruct (rescale_x_total eps X Heps ltac:(lia) Hsd) as [Z [mu [sd Hr]]]. rewrite Hr.
  destruct (rescale_x_spec eps X Z mu sd Heps Hwf Hr) as [_ [_ [Lm [Ls _]]]].
  destruct (ridge_norm_system_spd eps X Z mu sd y alpha Heps Hwf Ha Hy Hr)
    as [a [rhs [E [Hsq [Hsym [Hpd [A1 _]]]]]]].
  rewrite E.
  destruct (Htot a rhs Hsq Hsym Hpd) as [w0 Hs]. rewrite Hs.
  destruct (Hex a rhs w0 Hsq Hsym Hpd Hs) as [W1 [W2 [W3 _]]].
  destruct (unscale_w_spec (ncols X) w0 sd W1 W3) as [M [HM [M1 [M2 [M3 _]]]]]; [rewrite Ls, Nat.min_id; lia|].
  rewrite HM. rewrite Lm, Nat.min_id.
  assert (Hchk : existsb (fun i => match D.get_chk M i 0 with None => true | Some _ => false end)
                   (seq 0 (ncols X)) = false).
  { destruct (existsb _ (seq 0 (ncols X))) eqn:Eb; [|reflexivity]. exfalso.
    apply existsb_exists in Eb. destruct Eb as [i [Hin Hi]]. apply in_seq in Hin.
    rewrite (get_chk_spec ROps M i 0 M3) in Hi.
    replace (i <? nrows M) with true in Hi by (symmetry; apply Nat.ltb_lt; lia).
    replace (0 <? ncols M) with true in Hi by (symmetry; apply Nat.ltb_lt; lia).
    cbn [andb] in Hi. discriminate. }
  rewrite Hchk. eexists. eexists. reflexivity.
Qed.

Lemma ridge_cholesky_norm_returns eps (X : dm R) (y : list R) alpha :
  0 < eps -> wfR X -> 0 < alpha -> (ncols X < nrows X)%nat -> length y = nrows X ->
  (forall j, (j < ncols X)%nat -> eps <= col_sd X j) ->
  exists wm b, ridge_fit ROps (cholesky_solve_mut ROps) eps X y alpha true = Some (wm, b).
Proof.
  intros H1 H2 H3 H4 H5 H6.
  exact (ridge_fit_norm_total _ eps X y alpha H1 H2 H3 H4 H5 H6 cholesky_total_spd cholesky_exact_spd).
Qed.

(* the converse direction of the code's Err test: a column whose deviation is below epsilon makes
   rescale_x (hence fit) return Err *)
Lemma rescale_x_err eps (X : dm R) j : (0 < nrows X)%nat -> (j < ncols X)%nat -> col_sd X j < eps ->
  rescale_x ROps eps X = None.
Proof.
  intros Hn Hj Hlt. apply rescale_x_old_none. unfold rescale_x_old.
  assert (Hex : existsb (fun s => oltb ROps (oabs ROps (osub ROps s (o0 ROps))) eps) (D.std ROps X true) = true).
  { apply existsb_exists. exists (nth j (D.std ROps X true) 0). split.
    - apply nth_In. rewrite ProofsRed.std_length. exact Hj.
    - rewrite (std_col_sd X j Hj Hn). cbn [oltb oabs osub o0 ROps]. apply Rltb_true.
      rewrite Rminus_0_r, Rabs_right by (apply Rle_ge, col_sd_nonneg). exact Hlt. }
  rewrite Hex. reflexivity.
Qed.
Lemma ridge_fit_norm_err solver eps (X : dm R) (y : list R) alpha j :
  (j < ncols X)%nat -> col_sd X j < eps -> ridge_fit ROps solver eps X y alpha true = None.
Proof.
  intros Hj Hlt. unfold ridge_fit.
  destruct (Nat.leb_spec (nrows X) (ncols X)) as [|Hnp]; [reflexivity|].
  destruct (negb (length y =? nrows X)); [reflexivity|].
  rewrite (rescale_x_err eps X j ltac:(lia) Hj Hlt). reflexivity.
Qed.

(* both normalisation settings, every solver that is total and exact on SPD systems *)
Lemma ridge_fit_total solver eps (X : dm R) (y : list R) alpha normalize :
  0 < eps -> wfR X -> 0 < alpha -> (ncols X < nrows X)%nat -> length y = nrows X ->
  (normalize = true -> forall j, (j < ncols X)%nat -> eps <= col_sd X j) ->
  total_spd_solver solver -> exact_spd_solver solver ->
  exists wm b, ridge_fit ROps solver eps X y alpha normalize = Some (wm, b).
Proof.
  intros Heps Hwf Ha Hnp Hy Hsd Htot Hex. destruct normalize.
  - exact (ridge_fit_norm_total solver eps X y alpha Heps Hwf Ha Hnp Hy (Hsd eq_refl) Htot Hex).
  - exact (ridge_fit_raw_total solver eps X y alpha Hwf Ha Hnp Hy Htot).
Qed.
