(* C07 — the algebra of the least-squares / ridge objective on index functions (no matrices yet):
   gradient from the normal equations, exact second-order expansion, global and unique minimiser. *)
From Coq Require Import List Arith Bool Lia Reals Lra.
From SC Require Import Base.Num C01.Model C01.Proofs.
Import ListNotations.
Local Open Scope R_scope.

Section Objective.
  Variables (n p : nat) (Z : nat -> nat -> R) (y : nat -> R) (alpha : R).

  (* residual, half-gradient and objective of  J(w, c) = sum_i (y_i - sum_k Z_ik w_k - c)^2 + alpha sum_k w_k^2 *)
  Definition res (w : nat -> R) (c : R) (i : nat) : R := y i - rsum p (fun k => Z i k * w k) - c.
  Definition grad_w (w : nat -> R) (c : R) (j : nat) : R := alpha * w j - rsum n (fun i => Z i j * res w c i).
  Definition grad_c (w : nat -> R) (c : R) : R := - rsum n (fun i => res w c i).
  Definition obj (w : nat -> R) (c : R) : R := rsum n (fun i => res w c i ^ 2) + alpha * rsum p (fun k => w k ^ 2).
  (* the quadratic part of the expansion around any point *)
  Definition quad (d : nat -> R) (e : R) : R :=
    rsum n (fun i => (rsum p (fun k => Z i k * d k) + e) ^ 2) + alpha * rsum p (fun k => d k ^ 2).

  Lemma res_shift w c d e i :
    res (fun k => w k + d k) (c + e) i = res w c i - (rsum p (fun k => Z i k * d k) + e).
  Proof.
    unfold res.
    rewrite (rsum_ext p (fun k => Z i k * (w k + d k)) (fun k => Z i k * w k + Z i k * d k)) by (intros; ring).
    rewrite rsum_plus. ring.
  Qed.

  Lemma cross_term w c d e :
    rsum n (fun i => res w c i * (rsum p (fun k => Z i k * d k) + e))
    = rsum p (fun k => d k * rsum n (fun i => Z i k * res w c i)) + e * rsum n (fun i => res w c i).
  Proof.
    rewrite (rsum_ext n _ (fun i => rsum p (fun k => d k * (Z i k * res w c i)) + e * res w c i)).
    2:{ intros i _. rewrite Rmult_plus_distr_l. f_equal; [|ring].
        rewrite <- rsum_scal. apply rsum_ext. intros; ring. }
    rewrite rsum_plus, rsum_scal. f_equal.
    rewrite rsum_swap. apply rsum_ext. intros k _. rewrite rsum_scal. reflexivity.
  Qed.

  (* exact expansion: J(w + d, c + e) = J(w, c) + 2 <grad, (d, e)> + quad(d, e) *)
  Lemma obj_expand w c d e :
    obj (fun k => w k + d k) (c + e)
    = obj w c + 2 * (rsum p (fun k => grad_w w c k * d k) + grad_c w c * e) + quad d e.
  Proof.
    unfold obj, quad.
    rewrite (rsum_ext n (fun i => res (fun k => w k + d k) (c + e) i ^ 2)
               (fun i => res w c i ^ 2 + (-2) * (res w c i * (rsum p (fun k => Z i k * d k) + e))
                         + (rsum p (fun k => Z i k * d k) + e) ^ 2)).
    2:{ intros i _. rewrite res_shift. ring. }
    rewrite !rsum_plus, rsum_scal, cross_term.
    rewrite (rsum_ext p (fun k => (w k + d k) ^ 2) (fun k => w k ^ 2 + 2 * (w k * d k) + d k ^ 2)) by (intros; ring).
    rewrite !rsum_plus, rsum_scal.
    unfold grad_w, grad_c.
    rewrite (rsum_ext p (fun k => (alpha * w k - rsum n (fun i => Z i k * res w c i)) * d k)
               (fun k => alpha * (w k * d k) - d k * rsum n (fun i => Z i k * res w c i))) by (intros; ring).
    rewrite rsum_minus, rsum_scal. ring.
  Qed.

  Hypothesis Halpha : 0 <= alpha.
  Lemma quad_nonneg d e : 0 <= quad d e.
  Proof.
    unfold quad. apply Rplus_le_le_0_compat.
    - apply rsum_nonneg. intros. apply pow2_ge_0.
    - apply Rmult_le_pos; [exact Halpha|]. apply rsum_nonneg. intros. apply pow2_ge_0.
  Qed.

  (* a stationary point is a global minimiser (intercept free) *)
  Lemma stationary_min w c : (forall j, (j < p)%nat -> grad_w w c j = 0) -> grad_c w c = 0 ->
    forall w' c', obj w c <= obj w' c'.
  Proof.
    intros Hg Hc w' c'.
    assert (E : obj w' c' = obj (fun k => w k + (w' k - w k)) (c + (c' - c))).
    { unfold obj, res. f_equal.
      - apply rsum_ext. intros i _. f_equal. f_equal; [|ring]. f_equal. apply rsum_ext. intros; f_equal; ring.
      - f_equal. apply rsum_ext. intros; f_equal; ring. }
    rewrite E, obj_expand. rewrite (rsum_zero p) by (intros k Hk; rewrite (Hg k Hk); ring). rewrite Hc.
    pose proof (quad_nonneg (fun k => w' k - w k) (c' - c)). lra.
  Qed.
  (* ... and, the intercept held fixed, a point where the w-gradient vanishes minimises over w *)
  Lemma stationary_min_fixed w c : (forall j, (j < p)%nat -> grad_w w c j = 0) ->
    forall w', obj w c <= obj w' c.
  Proof.
    intros Hg w'.
    assert (E : obj w' c = obj (fun k => w k + (w' k - w k)) (c + 0)).
    { unfold obj, res. f_equal.
      - apply rsum_ext. intros i _. f_equal. f_equal; [|ring]. f_equal. apply rsum_ext. intros; f_equal; ring.
      - f_equal. apply rsum_ext. intros; f_equal; ring. }
    rewrite E, obj_expand. rewrite (rsum_zero p) by (intros k Hk; rewrite (Hg k Hk); ring).
    pose proof (quad_nonneg (fun k => w' k - w k) 0). lra.
  Qed.

  Lemma rsum_sq_zero m f : rsum m (fun k => f k ^ 2) = 0 -> forall k, (k < m)%nat -> f k = 0.
  Proof.
    induction m as [|m IH]; intros H k Hk; [lia|].
    rewrite rsum_S in H.
    assert (H1 : 0 <= rsum m (fun k => f k ^ 2)) by (apply rsum_nonneg; intros; apply pow2_ge_0).
    assert (H2 : 0 <= f m ^ 2) by apply pow2_ge_0.
    destruct (Nat.eq_dec k m) as [->|Hne].
    - assert (Hz : f m ^ 2 = 0) by lra. replace (f m ^ 2) with (f m * f m) in Hz by ring. destruct (Rmult_integral _ _ Hz); assumption.
    - apply IH; [lra|lia].
  Qed.

  (* strict convexity for alpha > 0: the minimiser is unique *)
  Lemma quad_zero d e : 0 < alpha -> (0 < n)%nat -> quad d e = 0 ->
    (forall k, (k < p)%nat -> d k = 0) /\ e = 0.
  Proof.
    intros Ha Hn H. unfold quad in H.
    assert (H1 : 0 <= rsum n (fun i => (rsum p (fun k => Z i k * d k) + e) ^ 2))
      by (apply rsum_nonneg; intros; apply pow2_ge_0).
    assert (H2 : 0 <= rsum p (fun k => d k ^ 2)) by (apply rsum_nonneg; intros; apply pow2_ge_0).
    assert (H3 : rsum p (fun k => d k ^ 2) = 0) by nra.
    assert (Hd : forall k, (k < p)%nat -> d k = 0) by (apply rsum_sq_zero; exact H3).
    split; [exact Hd|].
    assert (H4 : rsum n (fun i => (rsum p (fun k => Z i k * d k) + e) ^ 2) = 0) by nra.
    pose proof (rsum_sq_zero n _ H4 0%nat Hn) as H5. cbv beta in H5.
    rewrite (rsum_zero p) in H5 by (intros k Hk; rewrite (Hd k Hk); ring). lra.
  Qed.
  Lemma quad_zero_fixed d : 0 < alpha -> quad d 0 = 0 -> forall k, (k < p)%nat -> d k = 0.
  Proof.
    intros Ha H. unfold quad in H.
    assert (H1 : 0 <= rsum n (fun i => (rsum p (fun k => Z i k * d k) + 0) ^ 2))
      by (apply rsum_nonneg; intros; apply pow2_ge_0).
    assert (H2 : 0 <= rsum p (fun k => d k ^ 2)) by (apply rsum_nonneg; intros; apply pow2_ge_0).
    assert (H3 : rsum p (fun k => d k ^ 2) = 0) by nra.
    apply rsum_sq_zero; exact H3.
  Qed.

  Lemma stationary_unique w c : 0 < alpha -> (0 < n)%nat ->
    (forall j, (j < p)%nat -> grad_w w c j = 0) -> grad_c w c = 0 ->
    forall w' c', obj w' c' <= obj w c -> (forall k, (k < p)%nat -> w' k = w k) /\ c' = c.
  Proof.
    intros Ha Hn Hg Hc w' c' Hle.
    assert (E : obj w' c' = obj (fun k => w k + (w' k - w k)) (c + (c' - c))).
    { unfold obj, res. f_equal.
      - apply rsum_ext. intros i _. f_equal. f_equal; [|ring]. f_equal. apply rsum_ext. intros; f_equal; ring.
      - f_equal. apply rsum_ext. intros; f_equal; ring. }
    rewrite E, obj_expand in Hle. rewrite (rsum_zero p) in Hle by (intros k Hk; rewrite (Hg k Hk); ring).
    rewrite Hc in Hle.
    pose proof (quad_nonneg (fun k => w' k - w k) (c' - c)) as Hq.
    assert (Hz : quad (fun k => w' k - w k) (c' - c) = 0) by lra.
    destruct (quad_zero _ _ Ha Hn Hz) as [H1 H2]. split; [|lra].
    intros k Hk. specialize (H1 k Hk). cbv beta in H1. lra.
  Qed.
  Lemma stationary_unique_fixed w c : 0 < alpha ->
    (forall j, (j < p)%nat -> grad_w w c j = 0) ->
    forall w', obj w' c <= obj w c -> forall k, (k < p)%nat -> w' k = w k.
  Proof.
    intros Ha Hg w' Hle.
    assert (E : obj w' c = obj (fun k => w k + (w' k - w k)) (c + 0)).
    { unfold obj, res. f_equal.
      - apply rsum_ext. intros i _. f_equal. f_equal; [|ring]. f_equal. apply rsum_ext. intros; f_equal; ring.
      - f_equal. apply rsum_ext. intros; f_equal; ring. }
    rewrite E, obj_expand in Hle. rewrite (rsum_zero p) in Hle by (intros k Hk; rewrite (Hg k Hk); ring).
    pose proof (quad_nonneg (fun k => w' k - w k) 0) as Hq.
    assert (Hz : quad (fun k => w' k - w k) 0 = 0) by lra.
    intros k Hk. pose proof (quad_zero_fixed _ Ha Hz k Hk) as H1. cbv beta in H1. lra.
  Qed.

  (* the normal equations (Z^T Z + alpha I) w = Z^T y are the vanishing of the w-gradient at c = 0 *)
  Lemma normal_eq_grad w :
    (forall j, (j < p)%nat ->
       rsum p (fun k => (rsum n (fun i => Z i j * Z i k) + (if Nat.eqb j k then alpha else 0)) * w k)
       = rsum n (fun i => Z i j * y i)) ->
    forall j, (j < p)%nat -> grad_w w 0 j = 0.
  Proof.
    intros H j Hj. specialize (H j Hj). unfold grad_w, res.
    rewrite (rsum_ext n (fun i => Z i j * (y i - rsum p (fun k => Z i k * w k) - 0))
               (fun i => Z i j * y i - rsum p (fun k => Z i j * Z i k * w k))).
    2:{ intros i _. replace (rsum p (fun k => Z i j * Z i k * w k)) with (Z i j * rsum p (fun k => Z i k * w k)); [ring|].
        rewrite <- rsum_scal. apply rsum_ext. intros; ring. }
    rewrite rsum_minus, <- H, rsum_swap.
    rewrite (rsum_ext p (fun k => (rsum n (fun i => Z i j * Z i k) + (if Nat.eqb j k then alpha else 0)) * w k)
               (fun k => rsum n (fun i => Z i j * Z i k * w k) + (if Nat.eqb j k then alpha else 0) * w k)).
    2:{ intros k _. rewrite Rmult_plus_distr_r. f_equal. rewrite <- rsum_scal_r. reflexivity. }
    rewrite rsum_plus.
    rewrite (rsum_single p j (fun k => (if Nat.eqb j k then alpha else 0) * w k)); [| exact Hj |].
    - rewrite Nat.eqb_refl. ring.
    - intros k _ Hne. destruct (Nat.eqb_spec j k); [congruence|ring].
  Qed.
End Objective.
