(* C07 — more rounding theorems for predict at binary64 (continuation of C07/ProofsFloat.v):
     predict_float_error_normal   no product x_ik w_k underflows (each is zero or at least 2^-1022 in
                                  magnitude): the bound has no absolute term,
                                  |FR y_i - (S_i + b)| <= ((1+u)^(p+1) - 1) (A_i + |b|)
     predict_float_backward       backward stability: the computed prediction of row i is the EXACT prediction,
                                  on the same row, of a model whose coefficients differ from w by at most the
                                  relative amount (1+u)^(p+1) - 1 each and whose intercept differs from b by at
                                  most u relatively, plus a residual r from underflowing products,
                                  |r| <= (1+u)^p p eta, r = 0 when no product underflows
   Same vocabulary as C07/ProofsFloat.v. *)
From Coq Require Import List Arith ZArith Bool Reals Floats Lra Lia Psatz.
From Flocq Require Import Core BinarySingleNaN PrimFloat Relative.
From SC Require Import Base.FloatUtil Base.Num Base.FloatError.
From SC Require C03.Model C03.ProofsFloat C03.ProofsFloat2 C07.Model C07.ProofsFloat.
Import ListNotations.
Local Open Scope R_scope.
Local Existing Instance Hprec.
Local Existing Instance Hmax.

Module M := SC.C03.Model.
Module F1 := SC.C03.ProofsFloat.
Module F2 := SC.C03.ProofsFloat2.
Module C7 := SC.C07.Model.
Module PF := SC.C07.ProofsFloat.

(* ---------------- no underflow in the products: a purely relative bound ---------------- *)
Lemma osumn_prod_float_error_normal n (f g : nat -> PrimFloat.float) :
  ffin (osumn FOps n (fun k => PrimFloat.mul (f k) (g k))) ->
  let t := fun k => FR (f k) * FR (g k) in
  (forall k, (k < n)%nat -> t k = 0 \/ / 2 ^ 1022 <= Rabs (t k)) ->
  Rabs (FR (osumn FOps n (fun k => PrimFloat.mul (f k) (g k))) - Rsuml (map t (seq 0 n))) <=
    Eu n * Rsumabs (map t (seq 0 n)).
Proof.
  intros Hfin t Hno. rewrite F2.osumn_F in *.
  pose proof (fsum_error_signed 1 0 (Rle_refl 0)
                (map (fun k => PrimFloat.mul (f k) (g k)) (seq 0 n)) (map t (seq 0 n))) as G.
  rewrite !map_length, seq_length in G. replace (1 + n - 1)%nat with n in G by lia.
  rewrite Rmult_0_r, !Rplus_0_r in G. apply G; [|exact Hfin].
  apply F2.Forall2_map_in. intros k Hk Hf. apply in_seq in Hk. unfold t. rewrite Eu_1, Rplus_0_r.
  destruct (Hno k) as [Z|N]; [lia | |].
  - unfold t in Z. destruct (fmul_finite _ _ Hf) as (_ & _ & E).
    rewrite E, Z, rnd64_0, Rminus_0_r, Rabs_R0. lra.
  - apply fmul_error_normal; [exact Hf|]. rewrite F2.bpow_m1022. exact N.
Qed.

Theorem predict_float_error_normal (X w : M.dm PrimFloat.float) (b : PrimFloat.float)
        (yh : list PrimFloat.float) (i : nat) :
  C7.predict FOps X w b = Some yh -> (i < M.nrows X)%nat -> ffin (nth i yh 0%float) ->
  let p := M.ncols X in
  let t := fun k => FR (M.get FOps X i k) * FR (M.get FOps w k 0%nat) in
  (forall k, (k < p)%nat -> t k = 0 \/ / 2 ^ 1022 <= Rabs (t k)) ->
  Rabs (FR (nth i yh 0%float) - (Rsuml (map t (seq 0 p)) + FR b)) <=
    ((1 + u64) ^ (p + 1) - 1) * (Rsumabs (map t (seq 0 p)) + Rabs (FR b)).
Proof.
  intros H Hi Hfin p t Hno.
  destruct (PF.predict_entries FOps X w b yh H) as (_ & _ & _ & Hnth).
  change (o0 FOps) with 0%float in Hnth. rewrite (Hnth i Hi) in Hfin |- *.
  cbn [FOps oadd omul] in Hfin |- *. fold p in Hfin |- *.
  destruct (fadd_finite _ _ Hfin) as (Hs & _ & _).
  pose proof (osumn_prod_float_error_normal p (fun k => M.get FOps X i k) (fun k => M.get FOps w k 0%nat) Hs Hno) as B.
  fold t in B.
  fold (Eu (p + 1)). replace (p + 1)%nat with (S p) by lia.
  pose proof (PF.affine_step p (FR (osumn FOps p (fun k => PrimFloat.mul (M.get FOps X i k) (M.get FOps w k 0%nat))))
                (Rsuml (map t (seq 0 p))) (Rsumabs (map t (seq 0 p))) (FR b) 0
                (FR (PrimFloat.add (osumn FOps p (fun k => PrimFloat.mul (M.get FOps X i k) (M.get FOps w k 0%nat))) b))) as G.
  rewrite !Rplus_0_r in G. apply G.
  - lra.
  - apply Rsuml_le_Rsumabs.
  - exact B.
  - apply fadd_error. exact Hfin.
Qed.

(* ---------------- backward error ---------------- *)
(* a relative error in multiplicative form *)
Lemma rel_form (r z c : R) : 0 <= c -> Rabs (r - z) <= c * Rabs z -> exists d, Rabs d <= c /\ r = z * (1 + d).
Proof.
  intros Hc H. destruct (Req_dec z 0) as [->|NZ].
  - exists 0. rewrite Rabs_R0 in *. split; [lra|]. rewrite Rmult_0_r, Rminus_0_r in H.
    assert (Rabs r = 0) by (pose proof (Rabs_pos r); lra). destruct (Req_dec r 0) as [->|N]; [ring|].
    apply Rabs_no_R0 in N. contradiction.
  - exists ((r - z) / z). split; [|field; exact NZ].
    unfold Rdiv. rewrite Rabs_mult, Rabs_inv.
    assert (0 < Rabs z) by (apply Rabs_pos_lt; exact NZ).
    apply (Rmult_le_reg_r (Rabs z)); [lra|]. rewrite Rmult_assoc, Rinv_l by lra. lra.
Qed.

(* composing relative errors: (1+a)(1+b) = 1 + c with |c| <= Eu (k+m) *)
Lemma rel_compose (k m : nat) (a b : R) : Rabs a <= Eu k -> Rabs b <= Eu m ->
  Rabs ((1 + a) * (1 + b) - 1) <= Eu (k + m).
Proof.
  intros Ha Hb. replace ((1 + a) * (1 + b) - 1) with (a + b + a * b) by ring.
  assert (E : Eu (k + m) = Eu k + Eu m + Eu k * Eu m) by (pose proof (Eu_plus k m); lra). rewrite E.
  eapply Rle_trans; [apply Rabs_triang|]. eapply Rle_trans; [apply Rplus_le_compat_r, Rabs_triang|].
  rewrite Rabs_mult. pose proof (Rabs_pos a). pose proof (Rabs_pos b). nra.
Qed.

Lemma fadd_backward x y : ffin (x + y)%float ->
  exists d, Rabs d <= u64 /\ FR (x + y)%float = (FR x + FR y) * (1 + d).
Proof. intros H. apply rel_form; [pose proof u64_pos; lra | apply fadd_error, H]. Qed.

(* the left fold sum_{k<n} f k: every term perturbed by at most Eu (n-1) *)
Lemma osumn_backward n (f : nat -> PrimFloat.float) : ffin (osumn FOps n f) ->
  exists th : nat -> R, (forall k, Rabs (th k) <= Eu (n - 1)) /\
    FR (osumn FOps n f) = osumn ROps n (fun k => FR (f k) * (1 + th k)).
Proof.
  induction n as [|n IH]; intros Hfin.
  - exists (fun _ => 0). split; [intros k; rewrite Rabs_R0; apply Eu_nonneg|]. cbn [osumn FOps ROps o0]. apply FR_zero.
  - cbn [osumn] in Hfin |- *. cbn [FOps oadd] in Hfin |- *.
    destruct (fadd_finite _ _ Hfin) as (Hs & Hf & _).
    destruct (IH Hs) as (th & Hth & E).
    destruct n as [|n].
    + exists (fun _ => 0). split; [intros k; rewrite Rabs_R0; apply Eu_nonneg|].
      cbn [osumn FOps ROps o0 oadd] in Hfin |- *. rewrite (fadd_0_l _ Hfin). lra.
    + destruct (fadd_backward _ _ Hfin) as (d & Hd & Ed).
      exists (fun k => if (k <? S n)%nat then (1 + th k) * (1 + d) - 1 else d). split.
      * intros k. replace (S (S n) - 1)%nat with (S n - 1 + 1)%nat by lia.
        destruct (k <? S n)%nat.
        -- apply rel_compose; [apply Hth | rewrite Eu_1; exact Hd].
        -- eapply Rle_trans; [exact Hd|]. rewrite <- Eu_1. apply Eu_le. lia.
      * rewrite Ed, E. cbn [ROps oadd]. rewrite Nat.ltb_irrefl.
        rewrite (F2.osumn_ext ROps (S n) (fun k => FR (f k) * (1 + (if (k <? S n)%nat then (1 + th k) * (1 + d) - 1 else d)))
                             (fun k => FR (f k) * (1 + th k) * (1 + d))).
        2:{ intros k Hk. rewrite (proj2 (Nat.ltb_lt _ _) Hk). ring. }
        assert (L : forall m (g : nat -> R) c, osumn ROps m (fun k => g k * c) = osumn ROps m g * c).
        { induction m as [|m IHm]; intros g c; cbn [osumn ROps o0 oadd]; [ring|]. rewrite IHm. ring. }
        rewrite L. ring.
Qed.

(* one product: relative error u and an underflow term, which vanishes when the product is zero or normal *)
Lemma fmul_backward x y : ffin (x * y)%float ->
  exists d h, Rabs d <= u64 /\ Rabs h <= eta64 /\ FR (x * y)%float = FR x * FR y * (1 + d) + h /\
              (FR x * FR y = 0 \/ / 2 ^ 1022 <= Rabs (FR x * FR y) -> h = 0).
Proof.
  intros H. destruct (fmul_finite _ _ H) as (_ & _ & E). set (t := FR x * FR y) in *.
  destruct (Req_dec t 0) as [Z|NZ].
  { exists 0, 0. rewrite Rabs_R0. pose proof u64_pos. pose proof eta64_pos.
    split; [lra|]. split; [lra|]. split; [|reflexivity]. rewrite E, Z, rnd64_0. ring. }
  destruct (Rle_lt_dec (bpow radix2 (-1022)) (Rabs t)) as [N|S].
  - destruct (rel_form (FR (x * y)%float) t u64) as (d & Hd & Ed); [pose proof u64_pos; lra | apply fmul_error_normal; assumption |].
    exists d, 0. rewrite Rabs_R0. pose proof eta64_pos. split; [exact Hd|]. split; [lra|]. split; [lra | reflexivity].
  - destruct (error_N_FLT radix2 (-1074) 53 eq_refl (fun x => negb (Z.even x)) t) as (d & h & Hd & Hh & _ & Er).
    exists d, h. rewrite u64_val. split; [exact Hd|]. rewrite eta64_val. split; [exact Hh|].
    split; [rewrite E; exact Er|]. intros [Z|N]; [contradiction|]. rewrite <- F2.bpow_m1022 in N. lra.
Qed.

Lemma fin_choice2 (P : nat -> R -> R -> Prop) n :
  (forall k, (k < n)%nat -> exists a b, P k a b) ->
  exists fa fb : nat -> R, forall k, (k < n)%nat -> P k (fa k) (fb k).
Proof.
  induction n as [|n IH]; intros H.
  - exists (fun _ => 0), (fun _ => 0). intros k Hk. lia.
  - destruct IH as (fa & fb & Hf); [intros k Hk; apply H; lia|].
    destruct (H n) as (a & b & Hab); [lia|].
    exists (fun k => if (k =? n)%nat then a else fa k), (fun k => if (k =? n)%nat then b else fb k).
    intros k Hk. destruct (Nat.eqb_spec k n) as [->|NE]; [exact Hab | apply Hf; lia].
Qed.

Lemma Rsuml_map_bound (H : nat -> R) (c : R) l : (forall k, In k l -> Rabs (H k) <= c) ->
  Rabs (Rsuml (map H l)) <= INR (length l) * c.
Proof.
  induction l as [|k l IH]; intros Hb; cbn [map Rsuml fold_right length].
  - rewrite Rabs_R0. cbn [INR]. lra.
  - fold (Rsuml (map H l)). rewrite S_INR. eapply Rle_trans; [apply Rabs_triang|].
    specialize (Hb k (or_introl eq_refl)) as Hk. specialize (IH (fun j Hj => Hb j (or_intror Hj))). lra.
Qed.

Lemma Rsuml_map_split (F G H : nat -> R) (c : R) l : (forall k, In k l -> F k * c = G k + H k) ->
  Rsuml (map F l) * c = Rsuml (map G l) + Rsuml (map H l).
Proof.
  induction l as [|k l IH]; intros Hs; cbn [map Rsuml fold_right]; [ring|].
  fold (Rsuml (map F l)) (Rsuml (map G l)) (Rsuml (map H l)).
  rewrite Rmult_plus_distr_r, (Hs k (or_introl eq_refl)), (IH (fun j Hj => Hs j (or_intror Hj))). ring.
Qed.

Theorem predict_float_backward (X w : M.dm PrimFloat.float) (b : PrimFloat.float)
        (yh : list PrimFloat.float) (i : nat) :
  C7.predict FOps X w b = Some yh -> (i < M.nrows X)%nat -> ffin (nth i yh 0%float) ->
  let p := M.ncols X in
  exists (wh : nat -> R) (bh r : R),
    FR (nth i yh 0%float) = Rsuml (map (fun k => FR (M.get FOps X i k) * wh k) (seq 0 p)) + bh + r /\
    (forall k, (k < p)%nat ->
       Rabs (wh k - FR (M.get FOps w k 0%nat)) <= ((1 + u64) ^ (p + 1) - 1) * Rabs (FR (M.get FOps w k 0%nat))) /\
    Rabs (bh - FR b) <= u64 * Rabs (FR b) /\
    Rabs r <= (1 + u64) ^ p * (INR p * eta64) /\
    ((forall k, (k < p)%nat ->
        let t := FR (M.get FOps X i k) * FR (M.get FOps w k 0%nat) in t = 0 \/ / 2 ^ 1022 <= Rabs t) -> r = 0).
Proof.
  intros H Hi Hfin p.
  destruct (PF.predict_entries FOps X w b yh H) as (_ & _ & _ & Hnth).
  change (o0 FOps) with 0%float in Hnth. rewrite (Hnth i Hi) in Hfin |- *.
  cbn [FOps oadd omul] in Hfin |- *. fold p in Hfin |- *.
  set (x := fun k => M.get FOps X i k) in *. set (c := fun k => M.get FOps w k 0%nat) in *.
  change (fun k => PrimFloat.mul (M.get FOps X i k) (M.get FOps w k 0%nat)) with (fun k => PrimFloat.mul (x k) (c k)) in *.
  destruct (fadd_finite _ _ Hfin) as (Hs & _ & _).
  destruct (fadd_backward _ _ Hfin) as (e & He & Ee).
  destruct (osumn_backward p _ Hs) as (th & Hth & Es).
  destruct (fin_choice2 (fun k d h => Rabs d <= u64 /\ Rabs h <= eta64 /\
                           FR (PrimFloat.mul (x k) (c k)) = FR (x k) * FR (c k) * (1 + d) + h /\
                           (FR (x k) * FR (c k) = 0 \/ / 2 ^ 1022 <= Rabs (FR (x k) * FR (c k)) -> h = 0)) p)
    as (d & h & Hdh).
  { intros k Hk. apply fmul_backward. apply (PF.osumn_terms_finite _ _ Hs k Hk). }
  pose proof u64_pos as Hu.
  exists (fun k => FR (c k) * ((1 + d k) * (1 + th k) * (1 + e))), (FR b * (1 + e)),
         (Rsuml (map (fun k => h k * ((1 + th k) * (1 + e))) (seq 0 p))).
  assert (Hfac : forall k, (k < p)%nat -> Rabs ((1 + th k) * (1 + e)) <= (1 + u64) ^ p).
  { intros k Hk. pose proof (rel_compose (p - 1) 1 (th k) e (Hth k)) as G. rewrite Eu_1 in G. specialize (G He).
    replace (p - 1 + 1)%nat with p in G by lia. unfold Eu in G.
    replace ((1 + th k) * (1 + e)) with (((1 + th k) * (1 + e) - 1) + 1) by ring.
    eapply Rle_trans; [apply Rabs_triang|]. rewrite Rabs_R1. lra. }
  split; [|split; [|split; [|split]]].
  - assert (Q := Rsuml_map_split (fun k => FR (PrimFloat.mul (x k) (c k)) * (1 + th k))
               (fun k => FR (x k) * (FR (c k) * ((1 + d k) * (1 + th k) * (1 + e))))
               (fun k => h k * ((1 + th k) * (1 + e))) (1 + e) (seq 0 p)).
    rewrite Ee, Es, F2.osumn_R, Rmult_plus_distr_r.
    unfold x, c in Q |- *. cbv beta in Q |- *. rewrite Q; [ring|].
    intros k Hk. apply in_seq in Hk. destruct (Hdh k) as (_ & _ & Ek & _); [lia|].
    unfold x, c in Ek. cbv beta in Ek. rewrite Ek. ring.
  - intros k Hk. destruct (Hdh k Hk) as (Hd & _). change (M.get FOps w k 0%nat) with (c k).
    replace (FR (c k) * ((1 + d k) * (1 + th k) * (1 + e)) - FR (c k))
      with (FR (c k) * ((1 + d k) * (1 + th k) * (1 + e) - 1)) by ring.
    rewrite Rabs_mult, Rmult_comm. apply Rmult_le_compat_r; [apply Rabs_pos|].
    fold (Eu (p + 1)). replace (p + 1)%nat with (1 + (p - 1) + 1)%nat by lia.
    assert (G1 : Rabs ((1 + d k) * (1 + th k) - 1) <= Eu (1 + (p - 1))).
    { apply rel_compose; [rewrite Eu_1; exact Hd | apply Hth]. }
    pose proof (rel_compose (1 + (p - 1)) 1 ((1 + d k) * (1 + th k) - 1) e G1) as G2.
    rewrite Eu_1 in G2. specialize (G2 He).
    replace ((1 + ((1 + d k) * (1 + th k) - 1)) * (1 + e) - 1) with ((1 + d k) * (1 + th k) * (1 + e) - 1) in G2 by ring.
    exact G2.
  - replace (FR b * (1 + e) - FR b) with (e * FR b) by ring. rewrite Rabs_mult.
    apply Rmult_le_compat_r; [apply Rabs_pos | exact He].
  - pose proof (Rsuml_map_bound (fun k => h k * ((1 + th k) * (1 + e))) (eta64 * (1 + u64) ^ p) (seq 0 p)) as G.
    rewrite seq_length in G. replace ((1 + u64) ^ p * (INR p * eta64)) with (INR p * (eta64 * (1 + u64) ^ p)) by ring.
    apply G. intros k Hk. apply in_seq in Hk. destruct (Hdh k) as (_ & Hh & _); [lia|].
    rewrite Rabs_mult. pose proof (Hfac k ltac:(lia)). pose proof (Rabs_pos (h k)).
    pose proof (Rabs_pos ((1 + th k) * (1 + e))). pose proof eta64_pos. nra.
  - intros Hno.
    pose proof (Rsuml_map_bound (fun k => h k * ((1 + th k) * (1 + e))) 0 (seq 0 p)) as G.
    rewrite Rmult_0_r in G.
    assert (G' : Rabs (Rsuml (map (fun k => h k * ((1 + th k) * (1 + e))) (seq 0 p))) <= 0).
    { apply G. intros k Hk. apply in_seq in Hk. destruct (Hdh k) as (_ & _ & _ & Hz); [lia|].
      rewrite (Hz (Hno k ltac:(lia))), Rmult_0_l, Rabs_R0. lra. }
    set (r := Rsuml _) in *. destruct (Req_dec r 0) as [Z|N]; [exact Z|].
    apply Rabs_pos_lt in N. lra.
Qed.
