(* C07 — rounding theorems for the binary64 instance (FOps, Coq primitive floats: the very definitions
   the correspondence check runs against src/linear/{linear_regression,ridge_regression}.rs bit for bit)
   of {LinearRegression, RidgeRegression}::predict.  The fit goes through QR / SVD / Cholesky and has no
   rounding theorem; predict is the straight-line computation
       y_hat = X.matmul(w);  y_hat.add_mut(fill(n, 1, b));  y_hat.transpose().to_row_vector()
   i.e. for every row i:  y_i = fl( fl(sum_k x_ik * w_k) + b ), the sum a left fold from 0 over k = 0..p-1
   (p products, p-1 roundings of partial sums because 0 + t is exact, then ONE rounding for + b).

     predict_entries            (every Ops) predict = Some yh  ==>  ncols X = nrows w, ncols w = 1, |yh| = nrows X,
                                yh_i = (sum_k x_ik w_k) + b with the model's own operations and fold order
     predict_float_error        |FR y_i - (S_i + b)| <= ((1+u)^(p+1) - 1) (A_i + |b| + p eta) + p eta,
                                S_i = sum_k x_ik w_k,  A_i = sum_k |x_ik w_k|  (real values of the floats)
     predict_float_robust_threshold   a finite threshold th further than that bound from the exact value:
                                the float decisions  th < y_i  and  y_i < th  are the exact ones (sign: th = 0)
     (C07/ProofsFloatEx.v: ex_threshold_margin_needed — inside the margin the decision can differ, a witness)
     predict_scale_pow2_exact   X scaled by 2^e and w by 2^-e entrywise, exactly: every finite prediction is the
                                SAME FLOAT (Leibniz equality on primitive floats = bit identity; there is one NaN)
     predict_mul_scalar_pow2_exact    the same for the model's own X.mul_scalar(c), w.mul_scalar(d), c = 2^e, d = 2^-e
     predict_coef_scale_pow2_exact    (w, b) scaled by 2^e exactly, no product underflows: predictions scale by 2^e exactly
   Continued in C07/ProofsFloatBwd.v (no-underflow bound, backward error) and C07/ProofsFloatSys.v (the ridge system).

   Vocabulary (Base/FloatError.v): FR x = real value of a float, ffin x = finite, u64 = 2^-53,
   eta64 = 2^-1075, Eu k = (1+u64)^k - 1; RM m = the matrix of real values (C03/ProofsFloat.v).
   The only no-overflow hypothesis is that the prediction in question is finite. *)
From Coq Require Import List Arith ZArith Bool Reals Floats Lra Lia Psatz.
From Flocq Require Import Core BinarySingleNaN PrimFloat.
From SC Require Import Base.FloatUtil Base.Num Base.FloatError.
From SC Require C03.Model C03.ProofsBase C03.ProofsAlg C03.ProofsFloat C03.ProofsFloat2 C07.Model.
Import ListNotations.
Local Open Scope R_scope.
Local Existing Instance Hprec.
Local Existing Instance Hmax.

Module M := SC.C03.Model.
Module PB := SC.C03.ProofsBase.
Module PA := SC.C03.ProofsAlg.
Module F1 := SC.C03.ProofsFloat.
Module F2 := SC.C03.ProofsFloat2.
Module C7 := SC.C07.Model.
Notation RM := F1.RM.

(* ---------------- what predict computes, for every instance ---------------- *)
Lemma predict_entries {T} (O : Ops T) (X w : M.dm T) (b : T) (yh : list T) :
  C7.predict O X w b = Some yh ->
  M.ncols X = M.nrows w /\ M.ncols w = 1%nat /\ length yh = M.nrows X /\
  forall i, (i < M.nrows X)%nat ->
    nth i yh (o0 O) =
    oadd O (osumn O (M.ncols X) (fun k => omul O (M.get O X i k) (M.get O w k 0%nat))) b.
Proof.
  intros H. unfold C7.predict in H.
  destruct (Nat.eq_dec (M.ncols X) (M.nrows w)) as [H1|H1].
  2:{ unfold M.matmul in H. rewrite (proj2 (Nat.eqb_neq _ _) H1) in H. discriminate. }
  destruct (PA.matmul_spec O X w H1) as [m [Hm [Hr [Hc [Hwf Hget]]]]]. rewrite Hm in H.
  destruct (Nat.eq_dec (M.ncols w) 1) as [H2|H2].
  2:{ unfold M.add, M.zip_with, M.same_shape in H. cbn [M.fill M.ncols M.nrows] in H.
      rewrite Hc, (proj2 (Nat.eqb_neq _ _) H2) in H. discriminate. }
  destruct (PA.add_spec O m (M.fill (M.nrows X) 1 b)) as [m2 [Hm2 [Hr2 [Hc2 [Hwf2 Hget2]]]]];
    [rewrite Hr; reflexivity | rewrite Hc, H2; reflexivity |].
  rewrite Hm2 in H. injection H as <-.
  pose proof (PB.transpose_shape O m2) as [Ht1 [Ht2 _]].
  split; [exact H1|]. split; [exact H2|]. split.
  - unfold M.to_row_vector. rewrite PB.row_major_length, Ht1, Ht2, Hc2, Hc, H2, Hr2, Hr. lia.
  - intros i Hi.
    assert (E : nth i (M.to_row_vector O (M.transpose O m2)) (o0 O) = M.get O (M.transpose O m2) 0%nat i).
    { unfold M.to_row_vector.
      rewrite <- (PB.nth_row_major O (M.transpose O m2) 0 i).
      - rewrite Nat.mul_0_l, Nat.add_0_l. reflexivity.
      - rewrite Ht1, Hc2, Hc, H2. lia.
      - rewrite Ht2, Hr2, Hr. exact Hi. }
    rewrite E. rewrite PB.get_transpose by (rewrite ?Hc2, ?Hc, ?H2, ?Hr2, ?Hr; lia).
    rewrite Hget2 by (rewrite ?Hr, ?Hc, ?H2; lia).
    rewrite Hget by (rewrite ?H2; lia).
    rewrite PB.get_fill by lia. reflexivity.
Qed.

Lemma predict_some {T} (O : Ops T) (X w : M.dm T) (b : T) :
  M.ncols X = M.nrows w -> M.ncols w = 1%nat -> exists yh, C7.predict O X w b = Some yh.
Proof.
  intros H1 H2. unfold C7.predict.
  destruct (PA.matmul_spec O X w H1) as [m [Hm [Hr [Hc _]]]]. rewrite Hm.
  destruct (PA.add_spec O m (M.fill (M.nrows X) 1 b)) as [m2 [Hm2 _]];
    [rewrite Hr; reflexivity | rewrite Hc, H2; reflexivity |].
  rewrite Hm2. eexists. reflexivity.
Qed.

(* ---------------- one rounded addition after a sum known up to Eu m ---------------- *)
Lemma affine_step (m : nat) (s S A bb e y : R) :
  0 <= e -> Rabs S <= A ->
  Rabs (s - S) <= Eu m * (A + e) + e ->
  Rabs (y - (s + bb)) <= u64 * Rabs (s + bb) ->
  Rabs (y - (S + bb)) <= Eu (Datatypes.S m) * (A + Rabs bb + e) + e.
Proof.
  intros He HA Hs Hy.
  pose proof (Eu_nonneg m) as Hm. pose proof u64_pos as Hu.
  pose proof (Rabs_pos bb) as Hb. pose proof (Rabs_pos S) as HS0.
  set (B := A + Rabs bb + e).
  assert (HB : 0 <= B) by (unfold B; lra).
  assert (H1 : Rabs (s - S) <= Eu m * B + e).
  { eapply Rle_trans; [exact Hs|]. unfold B. nra. }
  assert (H2 : Rabs (s + bb) <= (1 + Eu m) * B).
  { replace (s + bb) with ((s - S) + S + bb) by ring.
    eapply Rle_trans; [apply Rabs_triang|]. eapply Rle_trans; [apply Rplus_le_compat_r, Rabs_triang|].
    unfold B in *. nra. }
  replace (y - (S + bb)) with ((y - (s + bb)) + (s - S)) by ring.
  eapply Rle_trans; [apply Rabs_triang|]. rewrite Eu_S. fold B. nra.
Qed.

(* ---------------- the error of one prediction ---------------- *)
Theorem predict_float_error (X w : M.dm PrimFloat.float) (b : PrimFloat.float)
        (yh : list PrimFloat.float) (i : nat) :
  C7.predict FOps X w b = Some yh -> (i < M.nrows X)%nat -> ffin (nth i yh 0%float) ->
  let p := M.ncols X in
  let t := fun k => FR (M.get FOps X i k) * FR (M.get FOps w k 0%nat) in
  (forall k, (k < p)%nat -> ffin (M.get FOps X i k) /\ ffin (M.get FOps w k 0%nat)) /\ ffin b /\
  (exists yR, C7.predict ROps (RM X) (RM w) (FR b) = Some yR /\
              nth i yR 0 = Rsuml (map t (seq 0 p)) + FR b) /\
  Rabs (FR (nth i yh 0%float) - (Rsuml (map t (seq 0 p)) + FR b)) <=
    ((1 + u64) ^ (p + 1) - 1) * (Rsumabs (map t (seq 0 p)) + Rabs (FR b) + INR p * eta64) + INR p * eta64.
Proof.
  intros H Hi Hfin p t.
  destruct (predict_entries FOps X w b yh H) as (H1 & H2 & _ & Hnth).
  change (o0 FOps) with 0%float in Hnth. rewrite (Hnth i Hi) in Hfin |- *.
  cbn [FOps oadd omul] in Hfin |- *. fold p in Hfin |- *.
  destruct (fadd_finite _ _ Hfin) as (Hs & Hb & _).
  destruct (F2.osumn_prod_float_error p (fun k => M.get FOps X i k) (fun k => M.get FOps w k 0%nat) Hs)
    as (F & ER & B). cbv zeta in ER, B. fold t in ER, B.
  split; [exact F|]. split; [exact Hb|]. split.
  - destruct (predict_some ROps (RM X) (RM w) (FR b)) as [yR HR]; [exact H1 | exact H2 |].
    exists yR. split; [exact HR|].
    destruct (predict_entries ROps _ _ _ _ HR) as (_ & _ & _ & HnR).
    change (M.nrows (RM X)) with (M.nrows X) in HnR. change (M.ncols (RM X)) with (M.ncols X) in HnR.
    change (o0 ROps) with 0 in HnR. rewrite (HnR i Hi). cbn [ROps oadd omul]. f_equal.
    fold p. etransitivity; [|exact ER]. apply F2.osumn_ext. intros k _. cbn [ROps omul].
    rewrite !F2.get_RM. reflexivity.
  - fold (Eu (p + 1)). replace (p + 1)%nat with (S p) by lia.
    apply (affine_step p (FR (osumn FOps p (fun k => PrimFloat.mul (M.get FOps X i k) (M.get FOps w k 0%nat))))).
    + pose proof (pos_INR p). pose proof eta64_pos. nra.
    + apply Rsuml_le_Rsumabs.
    + exact B.
    + apply fadd_error. exact Hfin.
Qed.

(* ---------------- decisions taken on a prediction: robust outside the error margin ---------------- *)
Lemma fltb_finite a b : ffin a -> ffin b -> PrimFloat.ltb a b = Rlt_bool (FR a) (FR b).
Proof.
  intros Ha Hb. rewrite ltb_equiv. apply (Bltb_correct prec emax); apply ffin_B; assumption.
Qed.

(* the bound of predict_float_error for p features, A = sum of |x_ik w_k|, absb = |b| *)
Definition predict_err (p : nat) (A absb : R) : R :=
  ((1 + u64) ^ (p + 1) - 1) * (A + absb + INR p * eta64) + INR p * eta64.

Lemma predict_err_nonneg p A absb : 0 <= A -> 0 <= absb -> 0 <= predict_err p A absb.
Proof.
  intros HA Hb. unfold predict_err. fold (Eu (p + 1)).
  pose proof (Eu_nonneg (p + 1)). pose proof (pos_INR p). pose proof eta64_pos.
  assert (0 <= INR p * eta64) by nra. assert (0 <= Eu (p + 1) * (A + absb + INR p * eta64)) by (apply Rmult_le_pos; lra).
  lra.
Qed.

Theorem predict_float_robust_threshold (X w : M.dm PrimFloat.float) (b : PrimFloat.float)
        (yh : list PrimFloat.float) (i : nat) (th : PrimFloat.float) :
  C7.predict FOps X w b = Some yh -> (i < M.nrows X)%nat -> ffin (nth i yh 0%float) -> ffin th ->
  let p := M.ncols X in
  let t := fun k => FR (M.get FOps X i k) * FR (M.get FOps w k 0%nat) in
  let v := Rsuml (map t (seq 0 p)) + FR b in
  predict_err p (Rsumabs (map t (seq 0 p))) (Rabs (FR b)) < Rabs (v - FR th) ->
  (PrimFloat.ltb th (nth i yh 0%float) = true <-> FR th < v) /\
  (PrimFloat.ltb (nth i yh 0%float) th = true <-> v < FR th).
Proof.
  intros H Hi Hfin Hth p t v Hm.
  destruct (predict_float_error X w b yh i H Hi Hfin) as (_ & _ & _ & E).
  cbv zeta in E. fold p t in E. fold v in E. fold (predict_err p (Rsumabs (map t (seq 0 p))) (Rabs (FR b))) in E.
  set (err := predict_err p (Rsumabs (map t (seq 0 p))) (Rabs (FR b))) in *.
  apply Rabs_le_inv in E.
  rewrite !fltb_finite by assumption.
  split; split; intros G.
  - destruct (Rlt_bool_spec (FR th) (FR (nth i yh 0%float))) as [L|L]; [|discriminate G].
    unfold Rabs in Hm. destruct (Rcase_abs (v - FR th)); lra.
  - apply Rlt_bool_true. rewrite Rabs_pos_eq in Hm by lra. lra.
  - destruct (Rlt_bool_spec (FR (nth i yh 0%float)) (FR th)) as [L|L]; [|discriminate G].
    unfold Rabs in Hm. destruct (Rcase_abs (v - FR th)); lra.
  - apply Rlt_bool_true. rewrite Rabs_left in Hm by lra. lra.
Qed.

(* ---------------- exact invariance under scaling by powers of two ---------------- *)
(* the sign bit of a float (of a zero too) *)
Definition sgn (x : PrimFloat.float) : bool := Bsign (Prim2B x).

Lemma fmul_sign x y : ffin (x * y)%float -> sgn (x * y)%float = xorb (sgn x) (sgn y).
Proof.
  unfold sgn. rewrite ffin_B, mul_equiv. intros H.
  generalize (Bmult_correct prec emax Hprec Hmax mode_NE (Prim2B x) (Prim2B y)).
  destruct Rlt_bool.
  - intros (_ & _ & G). apply G.
    destruct (Bmult mode_NE (Prim2B x) (Prim2B y)); try reflexivity; discriminate H.
  - intros E. rewrite <- is_finite_SF_B2SF, E in H. discriminate H.
Qed.

(* two finite floats with the same real value and the same sign bit are the same float *)
Lemma float_eq_intro a b : ffin a -> ffin b -> FR a = FR b -> sgn a = sgn b -> a = b.
Proof.
  intros Ha Hb E G. apply Prim2B_inj. apply B2R_Bsign_inj; try assumption; apply ffin_B; assumption.
Qed.

Lemma sgn_pos c : 0 < FR c -> sgn c = false.
Proof.
  unfold FR, sgn. destruct (Prim2B c) as [s|s| |[|] m e' B]; cbn [B2R Bsign]; intros H; try lra; try reflexivity.
  exfalso. assert (F2R (Float radix2 (cond_Zopp true (Z.pos m)) e') < 0) by (apply F2R_lt_0; cbn; lia). lra.
Qed.

Lemma pow2_pos e : 0 < powerRZ 2 e.
Proof. apply powerRZ_lt. lra. Qed.

(* x' is x times 2^e as a real number, with the same sign bit (so a signed zero keeps its sign) *)
Definition rescaled (e : Z) (x x' : PrimFloat.float) : Prop :=
  FR x' = FR x * powerRZ 2 e /\ sgn x' = sgn x.

Lemma fmul_rescaled_eq e x x' w w' :
  ffin (x * w)%float -> ffin (x' * w')%float -> rescaled e x x' -> rescaled (- e) w w' ->
  (x' * w')%float = (x * w)%float.
Proof.
  intros Hf Hf' [Ex Sx] [Ew Sw]. apply float_eq_intro; try assumption.
  - destruct (fmul_finite _ _ Hf) as (_ & _ & E). destruct (fmul_finite _ _ Hf') as (_ & _ & E').
    rewrite E, E', Ex, Ew. f_equal.
    replace (FR x * powerRZ 2 e * (FR w * powerRZ 2 (- e))) with (FR x * FR w * (powerRZ 2 e * powerRZ 2 (- e))) by ring.
    rewrite <- powerRZ_add by lra. rewrite Z.add_opp_diag_r. cbn [powerRZ]. ring.
  - rewrite !fmul_sign by assumption. rewrite Sx, Sw. reflexivity.
Qed.

Lemma osumn_terms_finite n (f : nat -> PrimFloat.float) :
  ffin (osumn FOps n f) -> forall k, (k < n)%nat -> ffin (f k).
Proof.
  rewrite F2.osumn_F. intros H k Hk. destruct (fold_fadd_finite_acc _ _ H) as [_ Hall].
  rewrite Forall_forall in Hall. apply Hall, in_map_iff. exists k. split; [reflexivity | apply in_seq; lia].
Qed.

(* X scaled by 2^e, w by 2^-e, entrywise and exactly: the same floats come out *)
Theorem predict_scale_pow2_exact (e : Z) (X X' w w' : M.dm PrimFloat.float) (b : PrimFloat.float)
        (yh yh' : list PrimFloat.float) (i : nat) :
  C7.predict FOps X w b = Some yh -> C7.predict FOps X' w' b = Some yh' ->
  M.nrows X' = M.nrows X -> M.ncols X' = M.ncols X -> (i < M.nrows X)%nat ->
  ffin (nth i yh 0%float) -> ffin (nth i yh' 0%float) ->
  (forall k, (k < M.ncols X)%nat ->
     rescaled e (M.get FOps X i k) (M.get FOps X' i k) /\
     rescaled (- e) (M.get FOps w k 0%nat) (M.get FOps w' k 0%nat)) ->
  nth i yh' 0%float = nth i yh 0%float.
Proof.
  intros H H' Er Ec Hi Hf Hf' Hall.
  destruct (predict_entries FOps X w b yh H) as (_ & _ & _ & Hn).
  destruct (predict_entries FOps X' w' b yh' H') as (_ & _ & _ & Hn').
  change (o0 FOps) with 0%float in Hn, Hn'.
  rewrite Er in Hn'. rewrite (Hn i Hi) in Hf |- *. rewrite (Hn' i Hi) in Hf' |- *. rewrite Ec in Hf' |- *.
  cbn [FOps oadd omul] in Hf, Hf' |- *.
  destruct (fadd_finite _ _ Hf) as (Hs & _ & _). destruct (fadd_finite _ _ Hf') as (Hs' & _ & _).
  f_equal. apply F2.osumn_ext. intros k Hk. destruct (Hall k Hk) as [Rx Rw].
  apply (fmul_rescaled_eq e); try assumption.
  - apply (osumn_terms_finite _ _ Hs k Hk).
  - apply (osumn_terms_finite _ _ Hs' k Hk).
Qed.

(* the model's own scaling m.mul_scalar(c) with c = 2^e, when the scaling of the entry rounds nothing *)
Lemma rescaled_mul_scalar e (m : M.dm PrimFloat.float) (c : PrimFloat.float) r k :
  FR c = powerRZ 2 e ->
  (forall x, In x (M.values m) -> FR (PrimFloat.mul x c) = FR x * FR c) ->
  ffin (M.get FOps (M.mul_scalar FOps m c) r k) ->
  rescaled e (M.get FOps m r k) (M.get FOps (M.mul_scalar FOps m c) r k).
Proof.
  intros Hc Hx. unfold M.get, M.mul_scalar, M.map_values. cbn [M.values M.nrows FOps o0 omul].
  set (idx := (k * M.nrows m + r)%nat).
  destruct (lt_dec idx (length (M.values m))) as [L|L].
  - rewrite (nth_indep _ 0%float (PrimFloat.mul 0%float c)) by (rewrite map_length; exact L).
    rewrite (map_nth (fun v => PrimFloat.mul v c)). intros Hf.
    set (x := nth idx (M.values m) 0%float) in *.
    split.
    + rewrite (Hx x) by (apply nth_In; exact L). rewrite Hc. reflexivity.
    + rewrite (fmul_sign _ _ Hf). rewrite (sgn_pos c) by (rewrite Hc; apply pow2_pos). apply xorb_false_r.
  - intros _. rewrite !nth_overflow by (rewrite ?map_length; lia). split; [rewrite FR_zero; lra | reflexivity].
Qed.

Theorem predict_mul_scalar_pow2_exact (e : Z) (X w : M.dm PrimFloat.float) (b c d : PrimFloat.float)
        (yh yh' : list PrimFloat.float) (i : nat) :
  FR c = powerRZ 2 e -> FR d = powerRZ 2 (- e) ->
  (forall x, In x (M.values X) -> FR (PrimFloat.mul x c) = FR x * FR c) ->
  (forall x, In x (M.values w) -> FR (PrimFloat.mul x d) = FR x * FR d) ->
  C7.predict FOps X w b = Some yh ->
  C7.predict FOps (M.mul_scalar FOps X c) (M.mul_scalar FOps w d) b = Some yh' ->
  (i < M.nrows X)%nat -> ffin (nth i yh 0%float) -> ffin (nth i yh' 0%float) ->
  nth i yh' 0%float = nth i yh 0%float.
Proof.
  intros Hc Hd Hx Hw H H' Hi Hf Hf'.
  apply (predict_scale_pow2_exact e X (M.mul_scalar FOps X c) w (M.mul_scalar FOps w d) b yh yh' i);
    try assumption; try reflexivity.
  intros k Hk.
  destruct (predict_float_error _ _ _ _ i H' Hi Hf') as (F & _).
  destruct (F k Hk) as [F1 F2].
  split; [apply rescaled_mul_scalar | apply rescaled_mul_scalar]; assumption.
Qed.

(* coefficients and intercept scaled by 2^e exactly, no product underflows before or after:
   every prediction is scaled by exactly 2^e *)
Theorem predict_coef_scale_pow2_exact (e : Z) (X w w' : M.dm PrimFloat.float) (b b' : PrimFloat.float)
        (yh yh' : list PrimFloat.float) (i : nat) :
  C7.predict FOps X w b = Some yh -> C7.predict FOps X w' b' = Some yh' -> (i < M.nrows X)%nat ->
  ffin (nth i yh 0%float) -> ffin (nth i yh' 0%float) ->
  FR b' = FR b * powerRZ 2 e ->
  (forall k, (k < M.ncols X)%nat ->
     FR (M.get FOps w' k 0%nat) = FR (M.get FOps w k 0%nat) * powerRZ 2 e /\
     let t := FR (M.get FOps X i k) * FR (M.get FOps w k 0%nat) in
     (t = 0 \/ (/ 2 ^ 1022 <= Rabs t /\ / 2 ^ 1022 <= Rabs (t * powerRZ 2 e)))) ->
  FR (nth i yh' 0%float) = FR (nth i yh 0%float) * powerRZ 2 e.
Proof.
  intros H H' Hi Hf Hf' Eb Hall.
  destruct (predict_entries FOps X w b yh H) as (_ & _ & _ & Hn).
  destruct (predict_entries FOps X w' b' yh' H') as (_ & _ & _ & Hn').
  change (o0 FOps) with 0%float in Hn, Hn'.
  rewrite (Hn i Hi) in Hf |- *. rewrite (Hn' i Hi) in Hf' |- *.
  cbn [FOps oadd omul] in Hf, Hf' |- *.
  destruct (fadd_finite _ _ Hf) as (Hs & _ & E). destruct (fadd_finite _ _ Hf') as (Hs' & _ & E').
  change 2 with (IZR radix2) in *. rewrite <- bpow_powerRZ in *.
  set (p := M.ncols X) in *.
  assert (Hsc : F2.scaled e (osumn FOps p (fun k => PrimFloat.mul (M.get FOps X i k) (M.get FOps w k 0%nat)))
                            (osumn FOps p (fun k => PrimFloat.mul (M.get FOps X i k) (M.get FOps w' k 0%nat)))).
  { pose proof (osumn_terms_finite _ _ Hs) as T. pose proof (osumn_terms_finite _ _ Hs') as T'.
    rewrite !F2.osumn_F in *.
    apply (F2.fold_fadd_scaled e); try assumption; [|apply F2.scaled_zero].
    apply F2.Forall2_map_in. intros k Hk. apply in_seq in Hk.
    destruct (Hall k) as [Ew Hnm]; [lia|]. cbv zeta in Hnm. 
    unfold F2.scaled.
    destruct (fmul_finite _ _ (T k ltac:(lia))) as (_ & _ & Ek).
    destruct (fmul_finite _ _ (T' k ltac:(lia))) as (_ & _ & Ek').
    rewrite Ek, Ek', Ew.
    replace (FR (M.get FOps X i k) * (FR (M.get FOps w k 0%nat) * bpow radix2 e))
      with (FR (M.get FOps X i k) * FR (M.get FOps w k 0%nat) * bpow radix2 e) by ring.
    apply F2.rnd64_scale_normal. rewrite F2.bpow_m1022. exact Hnm. }
  unfold F2.scaled in Hsc. rewrite E, E', Hsc, Eb.
  apply F2.rnd64_add_scale; try apply fmt64_FR; [rewrite <- Hsc | rewrite <- Eb]; apply fmt64_FR.
Qed.
