(* C07 — executable model of smartcore's least squares and ridge regression
   (src/linear/linear_regression.rs, src/linear/ridge_regression.rs), written on top of
     - C03's model of DenseMatrix (`dm T`: nrows, ncols, column-major values) and of its operations
       (transpose, matmul, h_stack, slice, fill, add, mean / std / scale of src/linalg/stats.rs,
       Vec::mean), and
     - C01's models of the solvers (cholesky + Cholesky::solve, qr_mut + QR::solve, svd_mut +
       SVD::solve, on function matrices `nat -> nat -> T`).
   Definitions only, generic in the scalar operations `Ops T` (Base/Num.v): the instance at `ROps`
   is what the theorems talk about, the instance at `FOps` (binary64) is executed against the
   implementation by the correspondence check (Corr.v).

   Transliteration notes
   - `fit` is parameterised by the solver it calls (`solver : A -> b -> option X` on DenseMatrix
     values); `cholesky_solve_mut`, `qr_solve_mut`, `svd_solve_with` below are the three trait
     methods, each the C01 model wrapped with the shape tests of the Rust entry point.  The SVD
     wrapper takes the factorisation routine as an argument (`svd_solve_mut` instantiates it with
     C01's transliteration of svd_mut) so that the theorem about the SVD path can be stated for
     every factorisation with the SVD's post-condition (C01 proves nothing about the sweeps);
   - `Err(..)` and panics are `None`;
   - the in-place loop `for i in 0..p { x_t_x.add_element_mut(i, i, alpha) }` is a fold of C03's
     `upd_element` (bounds as in the code); the loop `w.set(i, 0, w.get(i, 0) / col_std[i])` over
     `col_std.iter().enumerate().take(p)` rewrites rows 0..min(p, len col_std) of column 0;
   - `b += w.get(i, 0) * col_mean[i]` accumulates from zero upwards (`osumn`);
   - `T::epsilon()` is the parameter `eps`. *)
From Coq Require Import List Arith Bool ZArith.
From SC Require Import Base.Num.
From SC Require C01.Model C03.Model.
Import ListNotations.

Module L := SC.C01.Model.
Module D := SC.C03.Model.
Notation dm := D.dm.
Notation nrows := D.nrows.
Notation ncols := D.ncols.
Notation values := D.values.

Section Model.
  Context {T : Type} (O : Ops T).
  Local Notation zero := (O.(o0)).
  Local Notation one := (O.(o1)).
  Local Notation add := (O.(oadd)).
  Local Notation sub := (O.(osub)).
  Local Notation mul := (O.(omul)).
  Local Notation div := (O.(odiv)).
  Local Notation abs := (O.(oabs)).
  Local Notation ltb := (O.(oltb)).
  Local Notation leb := (O.(oleb)).
  Local Notation eqb := (O.(oeqb)).
  Local Notation get := (D.get O).

  (* DenseMatrix <-> the function matrices of C01 *)
  Definition to_mx (A : dm T) : @L.Mx T := fun i j => get A i j.
  Definition of_mx (n p : nat) (A : @L.Mx T) : dm T := D.tab n p A.
  (* M::from_row_vector(y.clone()).transpose() : the n x 1 column *)
  Definition col_vec (y : list T) : dm T := D.transpose O (D.from_row_vector y).

  (* ---------- the three solver entry points ---------- *)
  (* cholesky_mut (Err on a non-square matrix or a negative / NaN pivot), then Cholesky::solve
     (Err when b has another number of rows) *)
  Definition cholesky_solve_mut (A b : dm T) : option (dm T) :=
    if negb (nrows A =? ncols A) then None
    else match L.cholesky O (ncols A) (to_mx A) with
         | None => None
         | Some R =>
           if negb (nrows b =? nrows A) then None
           else Some (of_mx (nrows b) (ncols b) (L.chol_solve O (nrows b) (ncols b) R (to_mx b)))
         end.
  (* qr_mut, then QR::solve (panics on a row mismatch and on an exactly zero diagonal of R); the
     result is b overwritten: all nrows b rows, of which the first ncols A are the solution *)
  Definition qr_solve_mut (A b : dm T) : option (dm T) :=
    if negb (nrows b =? nrows A) then None
    else match L.qr_solve_mut O (nrows A) (ncols A) (ncols b) (to_mx A) (to_mx b) with
         | None => None
         | Some X => Some (of_mx (nrows b) (ncols b) X)
         end.
  (* svd_mut (Err/panic = None), then SVD::solve (panics on a row mismatch); b overwritten *)
  Definition svd_solve_with (fact : nat -> nat -> @L.Mx T -> option (@L.svd_st T)) (eps : T) (A b : dm T)
    : option (dm T) :=
    match fact (nrows A) (ncols A) (to_mx A) with
    | None => None
    | Some st =>
      if negb (nrows A =? nrows b) then None
      else Some (of_mx (nrows b) (ncols b)
                   (L.svd_solve O eps (nrows A) (ncols A) (ncols b) (L.sU st) (L.sw st) (L.sV st) (to_mx b)))
    end.
  Definition svd_solve_mut (eps : T) (copysign : T -> T -> T) (minpos : T) : dm T -> dm T -> option (dm T) :=
    svd_solve_with (L.svd_mut O eps copysign minpos) eps.

  (* ---------- RidgeRegression ---------- *)
  (* rescale_x: column i is rejected ("Cannot rescale constant column") when it is EXACTLY constant,
     `(1..n).all(|r| x.get(r, i) == x.get(0, i))`, or when `!(|col_std[i] - 0| >= eps)` (which is
     also true for a NaN deviation: the one-pass variance of a constant column of a non-dyadic
     value is rounding noise, possibly negative) *)
  Definition col_constant (X : dm T) (i : nat) : bool :=
    forallb (fun r => eqb (get X r i) (get X 0 i)) (seq 1 (nrows X - 1)).
  Definition col_rejected (eps : T) (X : dm T) (col_std : list T) (i : nat) : bool :=
    col_constant X i || negb (leb eps (abs (sub (nth i col_std zero) zero))).
  Definition rescale_x (eps : T) (X : dm T) : option (dm T * list T * list T) :=
    let col_mean := D.mean O X true in
    let col_std := D.std O X true in
    if existsb (col_rejected eps X col_std) (seq 0 (length col_std)) then None
    else match D.scale O X col_mean col_std true with
         | None => None
         | Some Z => Some (Z, col_mean, col_std)
         end.
  (* for i in 0..p { m.add_element_mut(i, i, alpha) } *)
  Definition add_diag (p : nat) (A : dm T) (alpha : T) : option (dm T) :=
    fold_left (fun acc i => match acc with
                            | None => None
                            | Some M => D.upd_element O (fun v => add v alpha) M i i
                            end) (seq 0 p) (Some A).
  (* x_t = z.transpose(); x_t_y = x_t.matmul(y_column); x_t_x = x_t.matmul(z) + alpha on the diagonal *)
  Definition ridge_system (p : nat) (Z y_column : dm T) (alpha : T) : option (dm T * dm T) :=
    let x_t := D.transpose O Z in
    match D.matmul O x_t y_column with
    | None => None
    | Some x_t_y =>
      match D.matmul O x_t Z with
      | None => None
      | Some x_t_x =>
        match add_diag p x_t_x alpha with
        | None => None
        | Some a => Some (a, x_t_y)
        end
      end
    end.
  (* for (i, s) in col_std.iter().enumerate().take(p) { w.set(i, 0, w.get(i, 0) / s) } *)
  Definition unscale_w (p : nat) (w : dm T) (col_std : list T) : option (dm T) :=
    fold_left (fun acc i => match acc with
                            | None => None
                            | Some M => match D.get_chk M i 0 with
                                        | None => None
                                        | Some v => D.set M i 0 (div v (nth i col_std zero))
                                        end
                            end) (seq 0 (Nat.min p (length col_std))) (Some w).

  Section WithSolver.
    Variable solver : dm T -> dm T -> option (dm T).

    (* RidgeRegression::fit: coefficients (a p x 1 matrix) and intercept *)
    Definition ridge_fit (eps : T) (X : dm T) (y : list T) (alpha : T) (normalize : bool)
      : option (dm T * T) :=
      let n := nrows X in
      let p := ncols X in
      if n <=? p then None
      else if negb (length y =? n) then None
      else
        let y_column := col_vec y in
        if normalize then
          match rescale_x eps X with
          | None => None
          | Some (Z, col_mean, col_std) =>
            match ridge_system p Z y_column alpha with
            | None => None
            | Some (a, rhs) =>
              match solver a rhs with
              | None => None
              | Some w0 =>
                match unscale_w p w0 col_std with
                | None => None
                | Some w =>
                  (* for (i, m) in col_mean.iter().enumerate().take(p) { b += w.get(i, 0) * m } *)
                  if existsb (fun i => match D.get_chk w i 0 with None => true | Some _ => false end)
                             (seq 0 (Nat.min p (length col_mean))) then None
                  else
                    let b := osumn O (Nat.min p (length col_mean)) (fun i => mul (get w i 0) (nth i col_mean zero)) in
                    Some (w, sub (D.vmean O y) b)
                end
              end
            end
          end
        else
          match ridge_system p X y_column alpha with
          | None => None
          | Some (a, rhs) =>
            match solver a rhs with
            | None => None
            | Some w => Some (w, zero)
            end
          end.

    (* LinearRegression::fit *)
    Definition ols_fit (X : dm T) (y : list T) : option (dm T * T) :=
      let b := col_vec y in
      let num_attributes := ncols X in
      if negb (nrows X =? nrows b) then None
      else match D.h_stack O X (D.ones O (nrows X) 1) with
           | None => None
           | Some a =>
             match solver a b with
             | None => None
             | Some w =>
               match D.slice O w 0 num_attributes 0 1, D.get_chk w num_attributes 0 with
               | Some wights, Some ic => Some (wights, ic)
               | _, _ => None
               end
             end
           end.
  End WithSolver.

  (* {LinearRegression, RidgeRegression}::predict *)
  Definition predict (X w : dm T) (b : T) : option (list T) :=
    match D.matmul O X w with
    | None => None
    | Some y_hat =>
      match D.add O y_hat (D.fill (nrows X) 1 b) with
      | None => None
      | Some y2 => Some (D.to_row_vector O (D.transpose O y2))
      end
    end.

  (* ---------- the stationarity validator ----------
     For the objective  J(w, c) = sum_i (y_i - sum_k Z_ik w_k - c)^2 + alpha * sum_k w_k^2 :
       sg_w j = alpha * w_j - sum_i Z_ij r_i   ( = 1/2 dJ/dw_j ),   sg_c = - sum_i r_i  ( = 1/2 dJ/dc )
     with r_i the residual.  Each component is compared with tol times the magnitude of the terms
     it is computed from (the natural rounding scale).  `free` = the intercept is a variable of the
     minimisation (then its derivative is tested), otherwise it must be exactly zero.
     Z is n x p, the coefficient vector a list. *)
  Definition vget (v : list T) (i : nat) : T := nth i v zero.
  Definition resid (p : nat) (Z : dm T) (y w : list T) (c : T) (i : nat) : T :=
    sub (sub (vget y i) (osumn O p (fun k => mul (get Z i k) (vget w k)))) c.
  Definition absrow (p : nat) (Z : dm T) (y w : list T) (c : T) (i : nat) : T :=
    add (add (abs (vget y i)) (osumn O p (fun k => mul (abs (get Z i k)) (abs (vget w k))))) (abs c).
  Definition sg_w (n p : nat) (Z : dm T) (y : list T) (alpha : T) (w : list T) (c : T) (j : nat) : T :=
    sub (mul alpha (vget w j)) (osumn O n (fun i => mul (get Z i j) (resid p Z y w c i))).
  Definition sg_c (n p : nat) (Z : dm T) (y w : list T) (c : T) : T :=
    sub zero (osumn O n (fun i => resid p Z y w c i)).
  Definition scale_w (n p : nat) (Z : dm T) (y : list T) (alpha : T) (w : list T) (c : T) (j : nat) : T :=
    add (mul (abs alpha) (abs (vget w j))) (osumn O n (fun i => mul (abs (get Z i j)) (absrow p Z y w c i))).
  Definition scale_c (n p : nat) (Z : dm T) (y w : list T) (c : T) : T :=
    osumn O n (fun i => absrow p Z y w c i).
  Definition check_stationary (Z : dm T) (y : list T) (alpha : T) (w : list T) (c : T)
             (free : bool) (tol : T) : bool :=
    let n := nrows Z in
    let p := ncols Z in
    forallb (fun j => leb (abs (sg_w n p Z y alpha w c j)) (mul tol (scale_w n p Z y alpha w c j))) (seq 0 p)
    && (if free then leb (abs (sg_c n p Z y w c)) (mul tol (scale_c n p Z y w c)) else eqb c zero).

  (* the validator applied to a fitted model, in the coordinates the property names:
     OLS: raw columns, free intercept, alpha = 0;
     ridge, normalize = false: raw columns, intercept fixed at 0;
     ridge, normalize = true: standardised columns Z = (X - mean)/std, coefficients w_j * std_j,
       intercept b + sum_j w_j mean_j (the inverse of the back-transformation), free intercept *)
  Definition check_ols (X : dm T) (y w : list T) (b tol : T) : bool :=
    check_stationary X y zero w b true tol.
  Definition check_ridge (eps : T) (X : dm T) (y : list T) (alpha : T) (normalize : bool)
             (w : list T) (b tol : T) : bool :=
    if normalize then
      match rescale_x eps X with
      | None => false
      | Some (Z, mean, std) =>
        let p := ncols X in
        let ws := map (fun j => mul (vget w j) (vget std j)) (seq 0 p) in
        let c := add b (osumn O p (fun j => mul (vget w j) (vget mean j))) in
        check_stationary Z y alpha ws c true tol
      end
    else check_stationary X y alpha w b false tol.
End Model.
