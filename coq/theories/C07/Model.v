(* C07 — executable model of smartcore's least squares and ridge regression
   (src/linear/linear_regression.rs, src/linear/ridge_regression.rs, the column statistics of
   src/linalg/stats.rs, DenseMatrix::matmul / transpose / h_stack / add_mut, Vec::mean, and
   src/linalg/cholesky.rs).  Definitions only, generic in the scalar operations `Ops T`
   (Base/Num.v): the instance at `ROps` is what the theorems talk about, the instance at `FOps`
   (binary64) is executed against the implementation by the correspondence check (Corr.v).

   Transliteration notes
   - a matrix is the list of its rows, a column vector (k x 1 DenseMatrix) / Vec a list; entries are
     read by index (`mget`, `vget`) exactly as the Rust loops do with `get(i, j)`;
   - every accumulation `s += ..` runs from zero upwards in the index (`osumn` of Base/Num.v),
     every in-place `b[k] -= ..` chain is `ofold` (same order of subtractions);
   - `x.powi(2)` is `x * x` (what LLVM's powi computes for the exponent 2);
   - `T::from_usize(n)` is `oofnat n`; `T::epsilon()` is the parameter `eps`;
   - `Err(..)` and panics are `None`;
   - the linear solver called by `fit` (QR / SVD / Cholesky of C01) is the PARAMETER `solver`:
     it receives the system exactly as `fit` builds it and returns the solution vector (for the
     tall least-squares systems QR/SVD return a vector with at least ncols entries, of which `fit`
     reads the first ncols).  `chol_solve` below is this property's own transliteration of
     `cholesky_solve_mut`, so that the Cholesky ridge path can be executed end to end. *)
From Coq Require Import List ZArith Bool.
From SC Require Import Base.Num.
Import ListNotations.

Section Model.
  Context {T : Type} (O : Ops T).
  Let zero := O.(o0).
  Let one := O.(o1).
  Let add := O.(oadd).
  Let sub := O.(osub).
  Let mul := O.(omul).
  Let div := O.(odiv).
  Let abs := O.(oabs).
  Let sqrt := O.(osqrt).
  Let ltb := O.(oltb).
  Let leb := O.(oleb).
  Let eqb := O.(oeqb).

  (* ---------- containers ---------- *)
  Definition vget (v : list T) (i : nat) : T := nth i v zero.
  Definition mget (X : list (list T)) (i j : nat) : T := nth j (nth i X []) zero.
  Definition nrows (X : list (list T)) : nat := length X.
  Definition ncols (X : list (list T)) : nat := length (hd [] X).
  Definition tab (n : nat) (f : nat -> T) : list T := map f (seq 0 n).
  Definition mtab (n p : nat) (f : nat -> nat -> T) : list (list T) :=
    map (fun i => tab p (f i)) (seq 0 n).
  (* init, then f 0, f 1, ..., f (n-1) applied in this order *)
  Fixpoint ofold (n : nat) (f : nat -> T -> T) (init : T) : T :=
    match n with 0 => init | S k => f k (ofold k f init) end.

  (* ---------- src/linalg/stats.rs, axis 0 ---------- *)
  Definition col_mean (X : list (list T)) : list T :=
    let n := nrows X in
    tab (ncols X) (fun j => div (osumn O n (fun i => mget X i j)) (oofnat O n)).
  Definition col_var (X : list (list T)) : list T :=
    let n := nrows X in
    tab (ncols X) (fun j =>
      let mu := div (osumn O n (fun i => mget X i j)) (oofnat O n) in
      let sm := osumn O n (fun i => mul (mget X i j) (mget X i j)) in
      sub (div sm (oofnat O n)) (mul mu mu)).
  Definition col_std (X : list (list T)) : list T := map sqrt (col_var X).
  Definition scale (X : list (list T)) (mean std : list T) : list (list T) :=
    mtab (nrows X) (ncols X) (fun i j => div (sub (mget X i j) (vget mean j)) (vget std j)).

  (* Vec::mean *)
  Definition vmean (y : list T) : T :=
    div (osumn O (length y) (fun i => vget y i)) (oofnat O (length y)).

  (* RidgeRegression::rescale_x *)
  Definition rescale_x (eps : T) (X : list (list T)) : option (list (list T) * list T * list T) :=
    let mean := col_mean X in
    let std := col_std X in
    if existsb (fun s => ltb (abs (sub s zero)) eps) std then None
    else Some (scale X mean std, mean, std).

  (* x_t.matmul(&x) with alpha added on the diagonal, and x_t.matmul(&y_column) *)
  Definition gram_alpha (Z : list (list T)) (alpha : T) : list (list T) :=
    let n := nrows Z in
    let p := ncols Z in
    mtab p p (fun r c =>
      let g := osumn O n (fun i => mul (mget Z i r) (mget Z i c)) in
      if Nat.eqb r c then add g alpha else g).
  Definition xty (Z : list (list T)) (y : list T) : list T :=
    tab (ncols Z) (fun r => osumn O (nrows Z) (fun i => mul (mget Z i r) (vget y i))).

  (* back-transformation of the normalised fit *)
  Definition back_w (p : nat) (s std : list T) : list T := tab p (fun i => div (vget s i) (vget std i)).
  Definition back_b (p : nat) (w mean : list T) (y : list T) : T :=
    sub (vmean y) (osumn O p (fun i => mul (vget w i) (vget mean i))).

  Section WithSolver.
    Variable solver : list (list T) -> list T -> option (list T).

    (* RidgeRegression::fit *)
    Definition ridge_fit (eps : T) (X : list (list T)) (y : list T) (alpha : T) (normalize : bool)
      : option (list T * T) :=
      let n := nrows X in
      let p := ncols X in
      if Nat.leb n p then None
      else if negb (Nat.eqb (length y) n) then None
      else if normalize then
        match rescale_x eps X with
        | None => None
        | Some (Z, mean, std) =>
          match solver (gram_alpha Z alpha) (xty Z y) with
          | None => None
          | Some s => let w := back_w p s std in Some (w, back_b p w mean y)
          end
        end
      else
        match solver (gram_alpha X alpha) (xty X y) with
        | None => None
        | Some s => Some (s, zero)
        end.

    (* LinearRegression::fit *)
    Definition augment (X : list (list T)) : list (list T) :=
      let p := ncols X in
      mtab (nrows X) (S p) (fun i j => if Nat.ltb j p then mget X i j else one).
    Definition ols_fit (X : list (list T)) (y : list T) : option (list T * T) :=
      let p := ncols X in
      if negb (Nat.eqb (nrows X) (length y)) then None
      else match solver (augment X) y with
           | None => None
           | Some w => Some (tab p (fun k => vget w k), vget w p)
           end.
  End WithSolver.

  (* {LinearRegression, RidgeRegression}::predict: x.matmul(&coefficients), then the intercept
     is added to every entry; a shape mismatch panics in matmul *)
  Definition predict (X : list (list T)) (w : list T) (b : T) : option (list T) :=
    let p := ncols X in
    if negb (Nat.eqb p (length w)) then None
    else Some (tab (nrows X) (fun i => add (osumn O p (fun k => mul (mget X i k) (vget w k))) b)).

  (* ---------- src/linalg/cholesky.rs: cholesky_mut, Cholesky::solve (one right-hand side) ---------- *)
  (* entries 0..k-1 of row j of the factor, given the finished rows L above it *)
  Fixpoint chol_row (A L : list (list T)) (j k : nat) : list T :=
    match k with
    | 0 => []
    | S k' =>
      let r := chol_row A L j k' in
      r ++ [div (sub (mget A j k') (osumn O k' (fun i => mul (mget L k' i) (vget r i)))) (mget L k' k')]
    end.
  Fixpoint chol_rows (A : list (list T)) (j : nat) : option (list (list T)) :=
    match j with
    | 0 => Some []
    | S j' =>
      match chol_rows A j' with
      | None => None
      | Some L =>
        let r := chol_row A L j' j' in
        let d := sub (mget A j' j') (osumn O j' (fun k => mul (vget r k) (vget r k))) in
        if ltb d zero || negb (eqb d d) then None
        else Some (L ++ [r ++ [sqrt d]])
      end
    end.
  (* forward substitution: z_0 .. z_{k-1} *)
  Fixpoint chol_fwd (L : list (list T)) (b : list T) (k : nat) : list T :=
    match k with
    | 0 => []
    | S k' =>
      let z := chol_fwd L b k' in
      z ++ [div (ofold k' (fun i acc => sub acc (mul (vget z i) (mget L k' i))) (vget b k')) (mget L k' k')]
    end.
  (* backward substitution: x_{n-m} .. x_{n-1} *)
  Fixpoint chol_bwd (L : list (list T)) (z : list T) (n m : nat) : list T :=
    match m with
    | 0 => []
    | S m' =>
      let xs := chol_bwd L z n m' in
      let k := n - S m' in
      div (ofold m' (fun t acc => sub acc (mul (vget xs t) (mget L (k + 1 + t) k))) (vget z k)) (mget L k k) :: xs
    end.
  Definition chol_solve (A : list (list T)) (b : list T) : option (list T) :=
    let n := nrows A in
    if negb (Nat.eqb n (ncols A)) then None
    else match chol_rows A n with
         | None => None
         | Some L => if negb (Nat.eqb (length b) n) then None
                     else Some (chol_bwd L (chol_fwd L b n) n n)
         end.

  (* ---------- the stationarity validator ----------
     For the objective  J(w, c) = sum_i (y_i - sum_k Z_ik w_k - c)^2 + alpha * sum_k w_k^2 :
       sg_w j = alpha * w_j - sum_i Z_ij r_i   ( = 1/2 dJ/dw_j ),   sg_c = - sum_i r_i  ( = 1/2 dJ/dc )
     with r_i the residual.  Each component is compared with tol times the magnitude of the terms
     it is computed from (the natural rounding scale).  `free` = the intercept is a variable of the
     minimisation (then its derivative is tested), otherwise it must be exactly zero. *)
  Definition resid (p : nat) (Z : list (list T)) (y w : list T) (c : T) (i : nat) : T :=
    sub (sub (vget y i) (osumn O p (fun k => mul (mget Z i k) (vget w k)))) c.
  Definition absrow (p : nat) (Z : list (list T)) (y w : list T) (c : T) (i : nat) : T :=
    add (add (abs (vget y i)) (osumn O p (fun k => mul (abs (mget Z i k)) (abs (vget w k))))) (abs c).
  Definition sg_w (n p : nat) (Z : list (list T)) (y : list T) (alpha : T) (w : list T) (c : T) (j : nat) : T :=
    sub (mul alpha (vget w j)) (osumn O n (fun i => mul (mget Z i j) (resid p Z y w c i))).
  Definition sg_c (n p : nat) (Z : list (list T)) (y w : list T) (c : T) : T :=
    sub zero (osumn O n (fun i => resid p Z y w c i)).
  Definition scale_w (n p : nat) (Z : list (list T)) (y : list T) (alpha : T) (w : list T) (c : T) (j : nat) : T :=
    add (mul (abs alpha) (abs (vget w j))) (osumn O n (fun i => mul (abs (mget Z i j)) (absrow p Z y w c i))).
  Definition scale_c (n p : nat) (Z : list (list T)) (y w : list T) (c : T) : T :=
    osumn O n (fun i => absrow p Z y w c i).
  Definition check_stationary (Z : list (list T)) (y : list T) (alpha : T) (w : list T) (c : T)
             (free : bool) (tol : T) : bool :=
    let n := nrows Z in
    let p := ncols Z in
    forallb (fun j => leb (abs (sg_w n p Z y alpha w c j)) (mul tol (scale_w n p Z y alpha w c j))) (seq 0 p)
    && (if free then leb (abs (sg_c n p Z y w c)) (mul tol (scale_c n p Z y w c)) else eqb c zero).

  (* the validator applied to a fitted model, in the coordinates the property names:
     OLS: raw columns, free intercept, alpha = 0;
     ridge, normalize = false: raw columns, intercept fixed at 0;
     ridge, normalize = true: standardised columns Z = (X - mean)/std, coefficients w_j * std_j,
       intercept b + sum_j w_j mean_j (the inverse of the back-transformation), free intercept *)
  Definition check_ols (X : list (list T)) (y w : list T) (b tol : T) : bool :=
    check_stationary X y zero w b true tol.
  Definition check_ridge (eps : T) (X : list (list T)) (y : list T) (alpha : T) (normalize : bool)
             (w : list T) (b tol : T) : bool :=
    if normalize then
      match rescale_x eps X with
      | None => false
      | Some (Z, mean, std) =>
        let p := ncols X in
        let ws := tab p (fun j => mul (vget w j) (vget std j)) in
        let c := add b (osumn O p (fun j => mul (vget w j) (vget mean j))) in
        check_stationary Z y alpha ws c true tol
      end
    else check_stationary X y alpha w b false tol.
End Model.
