(* C07 — correspondence interface: the model at binary64 (`FOps`) against what the implementation
   returned on the same input.  Used by harness/src/bin/c07.rs through `Eval vm_compute`.

   Groups
   - stats:        column mean / std / scale_mut of src/linalg/stats.rs, bit for bit;
   - chol:         cholesky_solve_mut (C01's Cholesky model behind the entry point's shape tests) on a
                   symmetric system, bit for bit (incl. the Err decision);
   - ridge_chol:   RidgeRegression::fit with the Cholesky solver END TO END (C03's mean / one-pass std /
                   scale, transpose, matmul, alpha on the diagonal, C01's Cholesky and its solve,
                   back-transformation of coefficients and intercept), bit for bit, incl. Err cases;
   - ridge_svd / ols_qr / ols_svd: the pre- and post-processing around the solver, bit for bit: the
                   model is run with a solver that answers with the implementation's solver output
                   ONLY IF the system the model hands it is bit-identical with the system the
                   implementation's primitives build; the result must be bit-identical with what
                   `fit` returned;
   - predict:      predict of both models, bit for bit;
   - check_*:      the verified stationarity validator (Model.check_stationary, soundness in
                   ProofsValid.v) evaluated on the IMPLEMENTATION's coefficients and intercept, for
                   every solver / normalisation setting (f32 fits: widened data, scaled tolerance). *)
From Coq Require Import List ZArith NArith Bool Floats.
From SC Require Import Base.FloatUtil Base.Num C07.Model.
Import ListNotations.

Definition F := FOps.
Definition eps64 : float := 0x1p-52%float.      (* f64::EPSILON *)
Definition eps32 : float := 0x1p-23%float.      (* f32::EPSILON *)

(* DenseMatrix::from_2d_vec of the harness' row lists (never empty there) *)
Definition mk (rows : list (list float)) : dm float :=
  match D.from_2d_vec F rows with Some m => m | None => D.mkdm 0 0 [] end.
Definition colv (v : list float) : dm float := D.column_vector_from_vec v.

Definition vsame (a b : list float) : bool := list_eqb feq a b.
Definition msame (a b : list (list float)) : bool := list_eqb vsame a b.
Definition dsame (a b : dm float) : bool :=
  Nat.eqb (nrows a) (nrows b) && Nat.eqb (ncols a) (ncols b) && vsame (values a) (values b).
(* a fitted model: the coefficient matrix must be (length w) x 1 with the entries w *)
Definition fit_same (a : option (dm float * float)) (b : option (list float * float)) : bool :=
  match a, b with
  | None, None => true
  | Some (wm, ic), Some (w, ic') => dsame wm (colv w) && feq ic ic'
  | _, _ => false
  end.
Definition sol_same (a : option (dm float)) (b : option (list float)) : bool :=
  match a, b with
  | None, None => true
  | Some m, Some v => dsame m (colv v)
  | _, _ => false
  end.

Definition corr_stats (X : list (list float)) (mean std : list float) (scaled : list (list float)) : bool :=
  vsame (D.mean F (mk X) true) mean && vsame (D.std F (mk X) true) std &&
  match D.scale F (mk X) mean std true with
  | Some Z => dsame Z (mk scaled)
  | None => false
  end.

Definition corr_chol (A : list (list float)) (b : list float) (expected : option (list float)) : bool :=
  sol_same (cholesky_solve_mut F (mk A) (colv b)) expected.

Definition corr_ridge_chol (X : list (list float)) (y : list float) (alpha : float) (normalize : bool)
           (expected : option (list float * float)) : bool :=
  fit_same (ridge_fit F (cholesky_solve_mut F) eps64 (mk X) y alpha normalize) expected.

(* the solver that replays the implementation's answer `s` for exactly the system (A, rhs) *)
Definition replay_solver (A : list (list float)) (rhs : list float) (s : option (list float))
  : dm float -> dm float -> option (dm float) :=
  fun A' r' => if dsame A' (mk A) && dsame r' (colv rhs) then option_map colv s else None.

Definition corr_ridge_with (X : list (list float)) (y : list float) (alpha : float) (normalize : bool)
           (A : list (list float)) (rhs : list float) (s : option (list float))
           (expected : option (list float * float)) : bool :=
  fit_same (ridge_fit F (replay_solver A rhs s) eps64 (mk X) y alpha normalize) expected.

Definition corr_ols_with (X : list (list float)) (y : list float)
           (A : list (list float)) (s : option (list float))
           (expected : option (list float * float)) : bool :=
  fit_same (ols_fit F (replay_solver A y s) (mk X) y) expected.

Definition corr_predict (X : list (list float)) (w : list float) (b : float)
           (expected : option (list float)) : bool :=
  option_eqb vsame (predict F (mk X) (colv w) b) expected.

(* f32 predictions against the f64 model on the widened data:
   |model_i - impl_i| <= tol * (sum_k |x_ik||w_k| + |b|) *)
Definition corr_predict_tol (tol : float) (X : list (list float)) (w : list float) (b : float)
           (expected : list float) : bool :=
  match predict F (mk X) (colv w) b with
  | None => false
  | Some pr =>
    Nat.eqb (length pr) (length expected) &&
    forallb (fun i =>
      let sc := PrimFloat.add (osumn F (ncols (mk X)) (fun k => PrimFloat.mul (fabs (D.get F (mk X) i k)) (fabs (vget F w k)))) (fabs b) in
      feq_abs tol sc (vget F pr i) (vget F expected i)) (seq 0 (length pr))
  end.

Definition corr_check_ols (X : list (list float)) (y w : list float) (b tol : float) : bool :=
  check_ols F (mk X) y w b tol.
Definition corr_check_ridge (X : list (list float)) (y : list float) (alpha : float) (normalize : bool)
           (w : list float) (b tol : float) : bool :=
  check_ridge F eps64 (mk X) y alpha normalize w b tol.
(* the validator must REJECT a visibly non-stationary point (guards against a vacuous validator) *)
Definition corr_check_ols_rejects (X : list (list float)) (y w : list float) (b tol : float) : bool :=
  negb (check_ols F (mk X) y w b tol).
Definition corr_check_ridge_rejects (X : list (list float)) (y : list float) (alpha : float) (normalize : bool)
           (w : list float) (b tol : float) : bool :=
  negb (check_ridge F eps64 (mk X) y alpha normalize w b tol).
