(* C07 — the three solver entry points meet the contracts `fit` needs (from C01's theorems). *)
From Coq Require Import List Arith Bool Lia Reals Lra.
From SC Require Import Base.Num C01.Model C01.Proofs C01.Proofs_chol C01.Proofs_lu C01.Proofs_qr C01.Proofs_svd C03.ProofsBase C03.ProofsAlg C07.Model C07.ProofsFit.
Import ListNotations.
Local Open Scope R_scope.

Local Notation get := (D.get ROps).

Lemma chol_spd_factor (a : dm R) : nrows a = ncols a -> sym a -> pos_def a ->
  exists R0, L.cholesky ROps (ncols a) (to_mx ROps a) = Some R0 /\ forall k, (k < ncols a)%nat -> 0 < R0 k k.
Proof.
  intros Hsq Hsym Hpd. apply chol_spd_some.
  - intros i j Hi Hj. unfold to_mx. apply Hsym; lia.
  - intros x Hx. rewrite <- Hsq. apply Hpd. destruct Hx as [i [Hi Hx]]. exists i. split; [lia|exact Hx].
Qed.

Lemma cholesky_exact_spd : exact_spd_solver (cholesky_solve_mut ROps).
Proof.
  intros a rhs w [A1 [A2 [Hsq [Hr Hc]]]] Hsym Hpd. unfold cholesky_solve_mut.
  rewrite Hsq, Nat.eqb_refl. cbn [negb].
  destruct (chol_spd_factor a Hsq Hsym Hpd) as [R0 [HR Hd]]. rewrite HR.
  rewrite Hr, Hsq, Nat.eqb_refl. cbn [negb]. intros E. injection E as <-.
  pose proof (of_mx_shape (ncols a) (ncols rhs) (L.chol_solve ROps (ncols a) (ncols rhs) R0 (to_mx ROps rhs))) as [S1 [S2 S3]].
  split; [exact S3|]. split; [lia|]. split; [lia|].
  intros r Hr'. rewrite Hsq in Hr'.
  pose proof (chol_solve_exact (ncols a) (ncols rhs) (to_mx ROps a) R0 (to_mx ROps rhs)) as H.
  specialize (H ltac:(intros i j Hi Hj; unfold to_mx; apply Hsym; lia) HR).
  specialize (H ltac:(intros k Hk; specialize (Hd k Hk); lra)).
  cbv zeta in H. specialize (H r 0%nat Hr' ltac:(lia)). unfold to_mx at 1 3 in H. rewrite <- H.
  apply rsum_ext. intros k Hk. rewrite get_of_mx by lia. reflexivity.
Qed.
Lemma cholesky_total_spd : total_spd_solver (cholesky_solve_mut ROps).
Proof.
  intros a rhs [A1 [A2 [Hsq [Hr Hc]]]] Hsym Hpd. unfold cholesky_solve_mut.
  rewrite Hsq, Nat.eqb_refl. cbn [negb].
  destruct (chol_spd_factor a Hsq Hsym Hpd) as [R0 [HR Hd]]. rewrite HR.
  rewrite Hr, Hsq, Nat.eqb_refl. cbn [negb]. eexists. reflexivity.
Qed.

(* ---------- QR ---------- *)
(* a least-squares solver: whatever it returns for a tall system satisfies the normal equations *)
Definition lsq_solver (solver : dm R -> dm R -> option (dm R)) : Prop :=
  forall a b w, wfR a -> wfR b -> nrows b = nrows a -> ncols b = 1%nat -> (ncols a <= nrows a)%nat ->
    solver a b = Some w -> lsq_solution a b w.

Lemma qr_lsq_solver : lsq_solver (qr_solve_mut ROps).
Proof.
  intros a b w A1 B1 Hr Hc Hnm. unfold qr_solve_mut. rewrite Hr, Nat.eqb_refl. cbn [negb].
  destruct (L.qr_solve_mut ROps (nrows a) (ncols a) (ncols b) (to_mx ROps a) (to_mx ROps b)) as [X|] eqn:HX; [|discriminate].
  intros E. injection E as <-.
  pose proof (of_mx_shape (nrows a) (ncols b) X) as [S1 [S2 S3]].
  split; [exact S3|]. split; [lia|]. split; [lia|].
  intros c Hcn.
  pose proof (qr_solve_lsq_from_back_subst back_subst_spec (nrows a) (ncols a) (ncols b) _ _ X Hnm HX c 0%nat Hcn ltac:(lia)) as H.
  unfold to_mx in H. rewrite <- H. apply rsum_ext. intros i Hi. f_equal. f_equal.
  apply rsum_ext. intros t Ht. rewrite get_of_mx by lia. reflexivity.
Qed.

(* ---------- SVD: for every factorisation routine with the SVD's post-condition ---------- *)
Definition svd_postcondition (eps : R) (fact : nat -> nat -> @L.Mx R -> option (@L.svd_st R)) : Prop :=
  forall m n A st, (n <= m)%nat -> fact m n A = Some st ->
    orthocols m n (L.sU st) /\ orthocols n n (L.sV st) /\ orthorows n (L.sV st) /\
    (forall j, (j < n)%nat -> L.svd_tol ROps eps m n (L.sw st) < L.sw st j \/ L.sw st j = 0) /\
    (forall i k, (i < m)%nat -> (k < n)%nat -> svd_A n (L.sU st) (L.sw st) (L.sV st) i k = A i k).

Lemma svd_lsq_solver eps fact : svd_postcondition eps fact -> lsq_solver (svd_solve_with ROps fact eps).
Proof.
  intros Hpost a b w A1 B1 Hr Hc Hnm. unfold svd_solve_with.
  destruct (fact (nrows a) (ncols a) (to_mx ROps a)) as [st|] eqn:Hf; [|discriminate].
  rewrite Hr, Nat.eqb_refl. cbn [negb]. intros E. injection E as <-.
  destruct (Hpost _ _ _ st Hnm Hf) as [HU [HV [HVr [Hs HA]]]].
  set (X := L.svd_solve ROps eps (nrows a) (ncols a) (ncols b) (L.sU st) (L.sw st) (L.sV st) (to_mx ROps b)).
  pose proof (of_mx_shape (nrows a) (ncols b) X) as [S1 [S2 S3]].
  split; [exact S3|]. split; [lia|]. split; [lia|].
  intros c Hcn.
  pose proof (svd_solve_lsq eps (nrows a) (ncols a) (ncols b) (L.sU st) (L.sw st) (L.sV st) (to_mx ROps b) HU HV HVr Hs) as H.
  cbv zeta in H. specialize (H c 0%nat Hcn ltac:(lia)). rewrite <- H.
  apply rsum_ext. intros i Hi. rewrite HA by assumption. unfold to_mx. f_equal. f_equal.
  apply rsum_ext. intros t Ht. rewrite HA by assumption. unfold to_mx. rewrite get_of_mx by lia. reflexivity.
Qed.

(* on a symmetric positive-definite system the normal equations force a w = rhs *)
Lemma lsq_spd_lin (a rhs w : dm R) : square_system a rhs -> sym a -> pos_def a ->
  lsq_solution a rhs w -> lin_solution a rhs w.
Proof.
  intros [A1 [A2 [Hsq [Hr Hc]]]] Hsym Hpd [W1 [W2 [W3 W4]]].
  split; [exact W1|]. split; [lia|]. split; [exact W3|].
  set (v := fun i => rsum (ncols a) (fun t => get a i t * get w t 0%nat) - get rhs i 0%nat).
  assert (Hq : rsum (nrows a) (fun c => rsum (nrows a) (fun i => v c * get a c i * v i)) = 0).
  { apply rsum_zero. intros c Hcn.
    rewrite (rsum_ext (nrows a) _ (fun i => v c * (get a i c * v i))).
    2:{ intros i Hi. rewrite (Hsym c i) by lia. ring. }
    rewrite rsum_scal. unfold v at 2. rewrite (W4 c ltac:(lia)). ring. }
  intros r Hrn. destruct (Req_dec (v r) 0) as [E|E]; [unfold v in E; lra|].
  exfalso. pose proof (Hpd v (ex_intro _ r (conj Hrn E))) as H. lra.
Qed.
Lemma svd_exact_spd eps fact : svd_postcondition eps fact -> exact_spd_solver (svd_solve_with ROps fact eps).
Proof.
  intros Hpost a rhs w Hsq Hsym Hpd Hs. apply lsq_spd_lin; try assumption.
  destruct Hsq as [A1 [A2 [Hsq [Hr Hc]]]].
  apply (svd_lsq_solver eps fact Hpost a rhs w A1 A2 Hr Hc ltac:(lia) Hs).
Qed.
