(* C07 — shared lemmas and the predict theorem. *)
From Coq Require Import List Arith Bool Lia Reals Lra.
From SC Require Import Base.Num C01.Model C01.Proofs C03.ProofsBase C03.ProofsAlg C07.Model.
Import ListNotations.
Local Open Scope R_scope.

Local Notation get := (D.get ROps).
Local Notation wf := (@ProofsBase.wf R).

(* {LinearRegression, RidgeRegression}::predict *)
Lemma predict_spec (X w : dm R) (b : R) : ncols X = nrows w -> ncols w = 1%nat ->
  exists yh, predict ROps X w b = Some yh /\ length yh = nrows X /\
    forall i, (i < nrows X)%nat ->
      nth i yh 0 = rsum (ncols X) (fun k => get X i k * get w k 0%nat) + b.
Proof.
  intros H1 H2. unfold predict.
  destruct (matmul_spec ROps X w H1) as [m [Hm [Hr [Hc [Hwf Hget]]]]]. rewrite Hm.
  destruct (add_spec ROps m (D.fill (nrows X) 1 b)) as [m2 [Hm2 [Hr2 [Hc2 [Hwf2 Hget2]]]]];
    [rewrite Hr; reflexivity | rewrite Hc, H2; reflexivity |].
  rewrite Hm2. eexists. split; [reflexivity|].
  pose proof (transpose_shape ROps m2) as [Ht1 [Ht2 _]].
  split.
  - unfold D.to_row_vector. rewrite row_major_length, Ht1, Ht2, Hc2, Hc, H2, Hr2, Hr. lia.
  - intros i Hi.
    assert (E : nth i (D.to_row_vector ROps (D.transpose ROps m2)) 0 = get (D.transpose ROps m2) 0%nat i).
    { unfold D.to_row_vector.
      rewrite <- (nth_row_major ROps (D.transpose ROps m2) 0 i).
      - rewrite Nat.mul_0_l, Nat.add_0_l. reflexivity.
      - rewrite Ht1, Hc2, Hc, H2. lia.
      - rewrite Ht2, Hr2, Hr. exact Hi. }
    rewrite E. rewrite get_transpose by (rewrite ?Hc2, ?Hc, ?H2, ?Hr2, ?Hr; lia).
    rewrite Hget2 by (rewrite ?Hr, ?Hc, ?H2; lia).
    rewrite Hget by (rewrite ?H2; lia).
    rewrite get_fill by lia. reflexivity.
Qed.
Lemma predict_none (X w : dm R) (b : R) : ncols X <> nrows w -> predict ROps X w b = None.
Proof. intros H. unfold predict. rewrite (matmul_none ROps X w H). reflexivity. Qed.
