(* C07 — fit / predict composition (extension): for the values `fit` RETURNS, predict(X') is
   X' w + b row by row on every matrix with the training number of columns, and the property's
   clauses hold verbatim for y - predict(X) on the training matrix. *)
From Coq Require Import List Arith Bool Lia Reals Lra.
From SC Require Import Base.Num C01.Model C01.Proofs C03.ProofsBase C03.ProofsAlg
     C07.Model C07.ProofsObj C07.ProofsFit C07.ProofsRidge C07.ProofsSolve C07.ProofsOLS C07.ProofsMain
     C07.ProofsOLSTotal C07.ProofsRidgeTotal.
Import ListNotations.
Local Open Scope R_scope.

Local Notation get := (D.get ROps).

(* predict with a fitted p x 1 coefficient matrix on any matrix with p columns *)
Definition predicts (X' wm : dm R) (b : R) (yh : list R) : Prop :=
  predict ROps X' wm b = Some yh /\ length yh = nrows X' /\
  forall i, (i < nrows X')%nat -> nth i yh 0 = rsum (ncols X') (fun k => get X' i k * get wm k 0%nat) + b.

Lemma predict_fitted (X' wm : dm R) b : nrows wm = ncols X' -> ncols wm = 1%nat ->
  exists yh, predicts X' wm b yh.
Proof. intros H1 H2. apply predict_spec; [symmetry; exact H1|exact H2]. Qed.

Lemma residual_predict (X wm : dm R) y b yh i : predicts X wm b yh -> (i < nrows X)%nat ->
  residual X y wm b i = nth i y 0 - nth i yh 0.
Proof. intros [_ [_ H]] Hi. unfold residual. rewrite (H i Hi). reflexivity. Qed.

(* ---------- OLS ---------- *)
Lemma ols_fit_predict solver (X : dm R) (y : list R) wm b :
  wfR X -> (ncols X < nrows X)%nat -> lsq_solver solver ->
  ols_fit ROps solver X y = Some (wm, b) ->
  (forall X', ncols X' = ncols X -> exists yh, predicts X' wm b yh) /\
  exists yh, predicts X wm b yh /\ length yh = length y /\
    (forall j, (j < ncols X)%nat -> rsum (nrows X) (fun i => get X i j * (nth i y 0 - nth i yh 0)) = 0) /\
    rsum (nrows X) (fun i => nth i y 0 - nth i yh 0) = 0.
Proof.
  intros Hwf Hnp Hsol Hfit.
  destruct (ols_normal_equations solver X y wm b Hwf Hnp Hsol Hfit) as (Hy & W1 & W2 & Ho & Hs & _).
  split.
  - intros X' Hc. apply predict_fitted; [lia|exact W2].
  - destruct (predict_fitted X wm b W1 W2) as [yh Hp]. exists yh. split; [exact Hp|].
    split; [destruct Hp as [_ [L _]]; lia|]. split.
    + intros j Hj. etransitivity; [|exact (Ho j Hj)]. apply rsum_ext. intros i Hi.
      rewrite (residual_predict X wm y b yh i Hp Hi). reflexivity.
    + etransitivity; [|exact Hs]. apply rsum_ext. intros i Hi.
      rewrite (residual_predict X wm y b yh i Hp Hi). reflexivity.
Qed.

(* end to end for the QR path on a full-column-rank design: fit returns, predict returns, and
   y - predict(X) is orthogonal to every column and sums to zero *)
Lemma ols_qr_fit_predict_total (X : dm R) (y : list R) :
  wfR X -> (ncols X < nrows X)%nat -> length y = nrows X -> ols_full_rank X ->
  exists wm b yh, ols_fit ROps (qr_solve_mut ROps) X y = Some (wm, b) /\ predicts X wm b yh /\
    (forall j, (j < ncols X)%nat -> rsum (nrows X) (fun i => get X i j * (nth i y 0 - nth i yh 0)) = 0) /\
    rsum (nrows X) (fun i => nth i y 0 - nth i yh 0) = 0.
Proof.
  intros Hwf Hnp Hy Hfr. destruct (ols_qr_returns X y Hwf Hnp Hy Hfr) as [wm [b Hfit]].
  destruct (ols_fit_predict _ X y wm b Hwf Hnp qr_lsq_solver Hfit) as [_ [yh [Hp [_ [H1 H2]]]]].
  exists wm, b, yh. split; [exact Hfit|]. split; [exact Hp|]. split; [exact H1|exact H2].
Qed.

(* ---------- ridge ---------- *)
Lemma ridge_fit_predict_raw solver eps (X : dm R) (y : list R) alpha wm b :
  wfR X -> 0 < alpha -> exact_spd_solver solver ->
  ridge_fit ROps solver eps X y alpha false = Some (wm, b) ->
  (forall X', ncols X' = ncols X -> exists yh, predicts X' wm b yh) /\
  exists yh, predicts X wm b yh /\ b = 0 /\
    forall j, (j < ncols X)%nat ->
      alpha * get wm j 0%nat - rsum (nrows X) (fun i => get X i j * (nth i y 0 - nth i yh 0)) = 0.
Proof.
  intros Hwf Ha Hsol Hfit.
  destruct (ridge_raw_minimiser solver eps X y alpha wm b Hwf Ha Hsol Hfit) as (Hb & W1 & W2 & Hg & _).
  split.
  - intros X' Hc. apply predict_fitted; [lia|exact W2].
  - destruct (predict_fitted X wm b W1 W2) as [yh Hp]. exists yh. split; [exact Hp|]. split; [exact Hb|].
    intros j Hj. etransitivity; [|exact (Hg j Hj)]. f_equal. apply rsum_ext. intros i Hi.
    rewrite <- (residual_predict X wm y b yh i Hp Hi). rewrite Hb. reflexivity.
Qed.

Lemma ridge_fit_predict_norm solver eps (X : dm R) (y : list R) alpha wm b :
  0 < eps -> wfR X -> 0 < alpha -> exact_spd_solver solver ->
  ridge_fit ROps solver eps X y alpha true = Some (wm, b) ->
  (forall X', ncols X' = ncols X -> exists yh, predicts X' wm b yh) /\
  exists yh Z mu sd, predicts X wm b yh /\ rescale_x ROps eps X = Some (Z, mu, sd) /\
    (forall j, (j < ncols X)%nat ->
       alpha * (get wm j 0%nat * nth j sd 0) - rsum (nrows X) (fun i => get Z i j * (nth i y 0 - nth i yh 0)) = 0) /\
    rsum (nrows X) (fun i => nth i y 0 - nth i yh 0) = 0.
Proof.
  intros Heps Hwf Ha Hsol Hfit.
  destruct (ridge_norm_minimiser solver eps X y alpha wm b Heps Hwf Ha Hsol Hfit)
    as [Z [mu [sd (Hr & _ & _ & W1 & W2 & _ & _ & _ & Hg & Hs & _)]]].
  split.
  - intros X' Hc. apply predict_fitted; [lia|exact W2].
  - destruct (predict_fitted X wm b W1 W2) as [yh Hp]. exists yh, Z, mu, sd.
    split; [exact Hp|]. split; [exact Hr|]. split.
    + intros j Hj. etransitivity; [|exact (Hg j Hj)]. f_equal. apply rsum_ext. intros i Hi.
      rewrite (residual_predict X wm y b yh i Hp Hi). reflexivity.
    + etransitivity; [|exact Hs]. apply rsum_ext. intros i Hi.
      rewrite (residual_predict X wm y b yh i Hp Hi). reflexivity.
Qed.

(* end to end for the Cholesky path, both normalisation settings: fit returns, predict returns *)
Lemma ridge_cholesky_fit_predict_total eps (X : dm R) (y : list R) alpha normalize :
  0 < eps -> wfR X -> 0 < alpha -> (ncols X < nrows X)%nat -> length y = nrows X ->
  (normalize = true -> forall j, (j < ncols X)%nat -> eps <= col_sd X j) ->
  exists wm b yh, ridge_fit ROps (cholesky_solve_mut ROps) eps X y alpha normalize = Some (wm, b) /\
    predicts X wm b yh.
Proof.
  intros Heps Hwf Ha Hnp Hy Hsd. destruct normalize.
  - destruct (ridge_cholesky_norm_returns eps X y alpha Heps Hwf Ha Hnp Hy (Hsd eq_refl)) as [wm [b Hfit]].
    destruct (ridge_fit_predict_norm _ eps X y alpha wm b Heps Hwf Ha cholesky_exact_spd Hfit)
      as [_ [yh [_ [_ [_ [Hp _]]]]]].
    exists wm, b, yh. split; assumption.
  - destruct (ridge_fit_raw_total _ eps X y alpha Hwf Ha Hnp Hy cholesky_total_spd) as [wm [b Hfit]].
    destruct (ridge_fit_predict_raw _ eps X y alpha wm b Hwf Ha cholesky_exact_spd Hfit) as [_ [yh [Hp _]]].
    exists wm, b, yh. split; assumption.
Qed.
