(* C07 — RidgeRegression::fit: the reported coefficients make the gradient of the ridge objective
   vanish, for both normalisation settings, for every solver that is exact on symmetric
   positive-definite systems. *)
From Coq Require Import List Arith Bool Lia Reals Lra.
From SC Require Import Base.Num C01.Model C01.Proofs C03.ProofsBase C03.ProofsAlg C07.Model C07.ProofsObj C07.ProofsFit.
From SC Require C03.ProofsRed.
Import ListNotations.
Local Open Scope R_scope.

Local Notation get := (D.get ROps).
Definition vecf (y : list R) : nat -> R := fun i => nth i y 0.
Definition colf (w : dm R) : nat -> R := fun k => get w k 0%nat.

(* ---------- more algebra of the objective ---------- *)
Lemma res_ext p Z y w w' c i : (forall k, (k < p)%nat -> w k = w' k) -> res p Z y w c i = res p Z y w' c i.
Proof. intros H. unfold res. f_equal. f_equal. apply rsum_ext. intros k Hk. rewrite H by exact Hk. reflexivity. Qed.
Lemma grad_w_ext n p Z y alpha w w' c j : (j < p)%nat -> (forall k, (k < p)%nat -> w k = w' k) ->
  grad_w n p Z y alpha w c j = grad_w n p Z y alpha w' c j.
Proof.
  intros Hj H. unfold grad_w. rewrite (H j Hj). f_equal. apply rsum_ext. intros i _.
  rewrite (res_ext p Z y w w' c i H). reflexivity.
Qed.
Lemma grad_c_ext n p Z y w w' c : (forall k, (k < p)%nat -> w k = w' k) -> grad_c n p Z y w c = grad_c n p Z y w' c.
Proof. intros H. unfold grad_c. f_equal. apply rsum_ext. intros i _. apply res_ext. exact H. Qed.
Lemma obj_ext n p Z y alpha w w' c : (forall k, (k < p)%nat -> w k = w' k) -> obj n p Z y alpha w c = obj n p Z y alpha w' c.
Proof.
  intros H. unfold obj. f_equal.
  - apply rsum_ext. intros i _. rewrite (res_ext p Z y w w' c i H). reflexivity.
  - f_equal. apply rsum_ext. intros k Hk. rewrite H by exact Hk. reflexivity.
Qed.
Lemma grad_w_shift_c n p Z y alpha w c j :
  grad_w n p Z y alpha w c j = grad_w n p Z y alpha w 0 j + c * rsum n (fun i => Z i j).
Proof.
  unfold grad_w, res.
  rewrite (rsum_ext n (fun i => Z i j * (y i - rsum p (fun k => Z i k * w k) - c))
             (fun i => Z i j * (y i - rsum p (fun k => Z i k * w k) - 0) - c * Z i j)) by (intros; ring).
  rewrite rsum_minus, rsum_scal. ring.
Qed.
Lemma grad_c_formula n p Z y w c :
  grad_c n p Z y w c = - (rsum n y - rsum p (fun k => w k * rsum n (fun i => Z i k)) - INR n * c).
Proof.
  unfold grad_c, res. f_equal.
  rewrite (rsum_ext n _ (fun i => y i - rsum p (fun k => Z i k * w k) + - c)) by (intros; ring).
  rewrite rsum_plus, rsum_minus. 
  assert (E : rsum n (fun _ => - c) = - (INR n * c)).
  { induction n as [|m IH]; [rewrite rsum_0; cbn; ring|]. rewrite rsum_S, IH, S_INR. ring. }
  rewrite E. 
  rewrite (rsum_swap n p (fun i k => Z i k * w k)).
  rewrite (rsum_ext p (fun k => rsum n (fun i => Z i k * w k)) (fun k => w k * rsum n (fun i => Z i k))).
  2:{ intros k _. rewrite rsum_scal_r. ring. }
  ring.
Qed.

(* ---------- normalize = false ---------- *)
Lemma ridge_fit_raw solver eps (X : dm R) (y : list R) alpha wm b :
  wfR X -> 0 < alpha -> exact_spd_solver solver ->
  ridge_fit ROps solver eps X y alpha false = Some (wm, b) ->
  (ncols X < nrows X)%nat /\ length y = nrows X /\
  b = 0 /\ wfR wm /\ nrows wm = ncols X /\ ncols wm = 1%nat /\
  forall j, (j < ncols X)%nat -> grad_w (nrows X) (ncols X) (get X) (vecf y) alpha (colf wm) 0 j = 0.
Proof.
  intros Hwf Ha Hsol. unfold ridge_fit.
  destruct (Nat.leb_spec (nrows X) (ncols X)) as [|Hnp]; [discriminate|].
  destruct (Nat.eqb_spec (length y) (nrows X)) as [Hy|]; [|discriminate]. cbn [negb].
  destruct (ridge_system_spec X y alpha Hwf Hy) as [a [rhs [E [A1 [A2 [A3 [R1 [R2 [R3 [Hga Hgr]]]]]]]]]].
  rewrite E. destruct (solver a rhs) as [w|] eqn:Hs; [|discriminate]. intros Hfit. injection Hfit as <- <-.
  destruct (ridge_system_spd X y alpha a rhs Hwf Hy Ha E) as [Hsq [Hsym Hpd]].
  destruct (Hsol a rhs w Hsq Hsym Hpd Hs) as [W1 [W2 [W3 W4]]].
  split; [exact Hnp|]. split; [exact Hy|]. split; [reflexivity|]. split; [exact W1|]. split; [lia|]. split; [exact W3|].
  apply normal_eq_grad. intros j Hj. specialize (W4 j ltac:(lia)). rewrite A2 in W4.
  rewrite Hgr in W4 by exact Hj. unfold vecf. rewrite <- W4.
  apply rsum_ext. intros k Hk. rewrite Hga by assumption. reflexivity.
Qed.

(* ---------- normalize = true ---------- *)
Lemma rescale_x_centered eps (X Z : dm R) mu sd : 0 < eps -> wfR X -> (0 < nrows X)%nat ->
  rescale_x ROps eps X = Some (Z, mu, sd) ->
  forall j, (j < ncols X)%nat -> rsum (nrows X) (fun i => get Z i j) = 0.
Proof.
  intros Heps Hwf Hn Hr j Hj.
  destruct (rescale_x_spec eps X Z mu sd Heps Hwf Hr) as [Em [Es [_ [_ [_ [_ [_ [_ [Hsd _]]]]]]]]].
  apply rescale_x_some_old in Hr. unfold rescale_x_old in Hr. destruct (existsb _ _); [discriminate|].
  destruct (D.scale ROps X (D.mean ROps X true) (D.std ROps X true) true) as [Z'|] eqn:Hsc; [|discriminate].
  injection Hr as <- _ _.
  pose proof (ProofsRed.scale_mean_std_centered X true Z' j Hsc Hj Hn) as H.
  rewrite <- Es in H. specialize (H (Hsd j Hj)). exact H.
Qed.

Lemma ridge_fit_norm solver eps (X : dm R) (y : list R) alpha wm b :
  0 < eps -> wfR X -> 0 < alpha -> exact_spd_solver solver ->
  ridge_fit ROps solver eps X y alpha true = Some (wm, b) ->
  exists Z mu sd, rescale_x ROps eps X = Some (Z, mu, sd) /\
    (ncols X < nrows X)%nat /\ length y = nrows X /\
    wfR wm /\ nrows wm = ncols X /\ ncols wm = 1%nat /\
    let ws := fun k => colf wm k * nth k sd 0 in
    let c := b + rsum (ncols X) (fun k => colf wm k * nth k mu 0) in
    (forall j, (j < ncols X)%nat -> grad_w (nrows X) (ncols X) (get Z) (vecf y) alpha ws c j = 0) /\
    grad_c (nrows X) (ncols X) (get Z) (vecf y) ws c = 0.
Proof.
  intros Heps Hwf Ha Hsol. unfold ridge_fit.
  destruct (Nat.leb_spec (nrows X) (ncols X)) as [|Hnp]; [discriminate|].
  destruct (Nat.eqb_spec (length y) (nrows X)) as [Hy|]; [|discriminate]. cbn [negb].
  destruct (rescale_x ROps eps X) as [[[Z mu] sd]|] eqn:Hr; [|discriminate].
  destruct (rescale_x_spec eps X Z mu sd Heps Hwf Hr) as [Em [Es [Lm [Ls [Z1 [Z2 [Z3 [Hmu [Hsd HZ]]]]]]]]].
  pose proof (rescale_x_centered eps X Z mu sd Heps Hwf ltac:(lia) Hr) as Hcen.
  assert (Hy' : length y = nrows Z) by lia.
  destruct (ridge_system_spec Z y alpha Z3 Hy') as [a [rhs [E [A1 [A2 [A3 [R1 [R2 [R3 [Hga Hgr]]]]]]]]]].
  rewrite Z2 in E. rewrite E.
  destruct (solver a rhs) as [w0|] eqn:Hs; [|discriminate].
  rewrite <- Z2 in E.
  destruct (ridge_system_spd Z y alpha a rhs Z3 Hy' Ha E) as [Hsq [Hsym Hpd]].
  destruct (Hsol a rhs w0 Hsq Hsym Hpd Hs) as [W1 [W2 [W3 W4]]].
  destruct (unscale_w_spec (ncols X) w0 sd W1 W3) as [M [HM [M1 [M2 [M3 M4]]]]]; [rewrite Ls, Nat.min_id; lia|].
  rewrite HM. rewrite Ls, Lm, Nat.min_id in *.
  destruct (existsb _ (seq 0 (ncols X))); [discriminate|].
  intros Hfit. injection Hfit as <- <-.
  exists Z, mu, sd. split; [reflexivity|]. split; [exact Hnp|]. split; [exact Hy|].
  split; [exact M3|]. split; [lia|]. split; [exact M2|].
  (* the solver's solution in standardised coordinates *)
  assert (Hws : forall k, (k < ncols X)%nat -> colf M k * nth k sd 0 = colf w0 k).
  { intros k Hk. unfold colf. rewrite M4 by lia.
    replace (k <? ncols X) with true by (symmetry; apply Nat.ltb_lt; exact Hk).
    field. apply Hsd. exact Hk. }
  cbv zeta.
  match goal with |- context [grad_c _ _ _ _ _ ?cc] =>
    assert (Hc : cc = rsum (nrows X) (vecf y) / INR (nrows X)) end.
  { change (D.vsum ROps y / IZR (Z.of_nat (length y))) with (D.vmean ROps y).
    rewrite ProofsRed.vmean_def, rsum_red, Hy. unfold colf, vecf, rsum. ring. }
  rewrite Hc. set (c := rsum (nrows X) (vecf y) / INR (nrows X)).
  assert (G0 : forall j, (j < ncols X)%nat -> grad_w (nrows X) (ncols X) (get Z) (vecf y) alpha (colf w0) 0 j = 0).
  { rewrite <- Z1, <- Z2. apply normal_eq_grad. intros j Hj. specialize (W4 j ltac:(lia)). rewrite A2 in W4.
    rewrite Hgr in W4 by exact Hj. unfold vecf. rewrite <- W4.
    apply rsum_ext. intros k Hk. rewrite Hga by assumption. reflexivity. }
  split.
  - intros j Hj.
    rewrite (grad_w_ext _ _ _ _ _ _ (colf w0) c j Hj Hws).
    rewrite grad_w_shift_c, (G0 j Hj), (Hcen j Hj). ring.
  - rewrite (grad_c_ext _ _ _ _ _ (colf w0) c Hws). rewrite grad_c_formula.
    rewrite (rsum_zero (ncols X)) by (intros k Hk; rewrite (Hcen k Hk); ring).
    unfold c. field. apply not_0_INR. lia.
Qed.
