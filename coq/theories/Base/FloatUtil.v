(* Helpers for evaluating models on primitive binary64 floats and comparing their results
   with what the implementation returned (correspondence checks).  Nothing here is used
   by a theorem about the real-number instance. *)
From Coq Require Import List ZArith Bool Floats.
Import ListNotations.

Definition fabs (x : float) : float := PrimFloat.abs x.
Definition fmax (a b : float) : float := if PrimFloat.ltb a b then b else a.
Definition is_nan_b (x : float) : bool := negb (PrimFloat.eqb x x).

(* exact equality as Rust's `==`, except that NaN is equal to NaN *)
Definition feq (a b : float) : bool := PrimFloat.eqb a b || (is_nan_b a && is_nan_b b).

(* |a - b| <= tol * max(1, |a|, |b|); NaN = NaN; equal infinities are equal *)
Definition feq_tol (tol a b : float) : bool :=
  feq a b ||
  PrimFloat.leb (fabs (PrimFloat.sub a b))
                (PrimFloat.mul tol (fmax 1%float (fmax (fabs a) (fabs b)))).

(* |a - b| <= tol * scale *)
Definition feq_abs (tol scale a b : float) : bool :=
  feq a b || PrimFloat.leb (fabs (PrimFloat.sub a b)) (PrimFloat.mul tol scale).

Fixpoint list_eqb {A} (eq : A -> A -> bool) (l1 l2 : list A) : bool :=
  match l1, l2 with
  | [], [] => true
  | a :: t1, b :: t2 => eq a b && list_eqb eq t1 t2
  | _, _ => false
  end.

Definition option_eqb {A} (eq : A -> A -> bool) (a b : option A) : bool :=
  match a, b with
  | None, None => true
  | Some x, Some y => eq x y
  | _, _ => false
  end.

Definition flist_eq := list_eqb feq.
Definition flist_eq_tol (tol : float) := list_eqb (feq_tol tol).
Definition fmat_eq := list_eqb flist_eq.
Definition fmat_eq_tol (tol : float) := list_eqb (flist_eq_tol tol).
Definition nlist_eqb := list_eqb N.eqb.
Definition zlist_eqb := list_eqb Z.eqb.

(* truncation toward zero of a finite float, as an integer (exact) *)
Definition float_trunc_Z (x : float) : Z :=
  match Prim2SF x with
  | S754_finite s m e =>
      let v := if (0 <=? e)%Z then (Zpos m * 2 ^ e)%Z else (Zpos m / 2 ^ (- e))%Z in
      if s then (- v)%Z else v
  | _ => 0%Z
  end.

(* Rust's saturating `as u16` *)
Definition float_as_u16 (x : float) : nat :=
  match Prim2SF x with
  | S754_infinity false => Z.to_nat 65535
  | _ => Z.to_nat (Z.min 65535 (Z.max 0 (float_trunc_Z x)))
  end.

Definition float_of_nat (n : nat) : float := PrimFloat.of_uint63 (Uint63.of_Z (Z.of_nat n)).
Definition float_of_N (n : N) : float := PrimFloat.of_uint63 (Uint63.of_Z (Z.of_N n)).
Definition float_of_Z (z : Z) : float :=
  if (z <? 0)%Z then PrimFloat.opp (PrimFloat.of_uint63 (Uint63.of_Z (- z)))
  else PrimFloat.of_uint63 (Uint63.of_Z z).
