(* Rounding-error bounds for the binary64 instance FOps (Coq primitive floats), proved through
   Flocq's bridge Flocq.IEEE754.PrimFloat (Prim2B and the *_equiv theorems) to `binary_float 53 1024`
   and Flocq's Bplus/Bminus/Bmult/Bdiv/Bsqrt_correct and relative-error theorems.

   Vocabulary
     FR x      the real value of the float x (0 for infinities and NaN): B2R (Prim2B x)
     ffin x    x is finite: PrimFloat.is_finite x = true
     u64       2^-53, the unit roundoff;  eta64 = 2^-1075, half the smallest subnormal
     rnd64 r   r rounded to the nearest binary64 number, ties to even (no overflow)
     Eu k      (1 + u64)^k - 1, the accumulated relative error of k roundings

   Shape of the basic facts: IF THE RESULT OF AN OPERATION IS FINITE then its operands were finite
   and the result is rnd64 of the exact result (non-finite values are absorbing for + - * abs sqrt,
   and an overflow produces an infinity).  So "no overflow in any intermediate" is, for a
   computation built from these operations, just "the final result is finite".
     + and - : relative error u64, unconditionally (exact in the subnormal range)
     *       : relative error u64 plus absolute error eta64 (underflow); no absolute term if the
               exact product is at least 2^-1022 in magnitude
     abs     : exact;   sqrt : relative error u64, unconditionally
   Then the recursive summation s_0 = 0, s_{i+1} = fl(s_i + t_i) as the models' left folds run it
   (the first addition 0 + t_0 is exact): fsum_nonneg_error / fsum_error_gen for non-negative terms
   (error relative to the sum), fsum_signed_error / fsum_error_signed for terms of either sign (error
   relative to the sum of magnitudes); division by a finite non-zero float: fdiv_finite / fdiv_error.
   Nothing here is used by the theorems over the reals. *)
From Coq Require Import ZArith Reals Floats Lra Lia List Psatz Uint63.
From Flocq Require Import Core BinarySingleNaN PrimFloat Relative Plus_error.
From SC Require Import Base.FloatUtil.
Import ListNotations.
Local Open Scope R_scope.
Local Existing Instance Hprec.
Local Existing Instance Hmax.

(* ---------------- values, finiteness, the operations ---------------- *)
Definition FR (x : PrimFloat.float) : R := B2R (Prim2B x).
Definition ffin (x : PrimFloat.float) : Prop := PrimFloat.is_finite x = true.
Definition u64 : R := bpow radix2 (-53).
Definition eta64 : R := bpow radix2 (-1075).
Definition rnd64 (r : R) : R := round radix2 (FLT_exp (-1074) 53) ZnearestE r.
Definition fmt64 (r : R) : Prop := generic_format radix2 (FLT_exp (-1074) 53) r.


Lemma ffin_B x : ffin x <-> is_finite (Prim2B x) = true.
Proof. unfold ffin. rewrite is_finite_equiv. tauto. Qed.

Lemma fmt64_FR x : fmt64 (FR x).
Proof. unfold fmt64, FR. apply (generic_format_B2R prec emax). Qed.

Lemma fadd_finite x y : ffin (x + y)%float ->
  ffin x /\ ffin y /\ FR (x + y)%float = rnd64 (FR x + FR y).
Proof.
  rewrite !ffin_B. unfold FR. rewrite add_equiv. intros H.
  assert (Hx : is_finite (Prim2B x) = true).
  { destruct (Prim2B x) as [sx|sx| |sx mx ex Bx], (Prim2B y) as [sy|sy| |sy my ey By];
      try reflexivity; simpl in H; try discriminate H; destruct (Bool.eqb sx sy); discriminate H. }
  assert (Hy : is_finite (Prim2B y) = true).
  { destruct (Prim2B x) as [sx|sx| |sx mx ex Bx], (Prim2B y) as [sy|sy| |sy my ey By];
      try reflexivity; simpl in H; try discriminate H; try discriminate Hx. }
  split; [exact Hx|]. split; [exact Hy|].
  generalize (Bplus_correct prec emax Hprec Hmax mode_NE _ _ Hx Hy).
  destruct Rlt_bool.
  - intros (E & _). exact E.
  - intros (E & _). rewrite <- is_finite_SF_B2SF, E in H. discriminate H.
Qed.

Lemma fsub_finite x y : ffin (x - y)%float ->
  ffin x /\ ffin y /\ FR (x - y)%float = rnd64 (FR x - FR y).
Proof.
  rewrite !ffin_B. unfold FR. rewrite sub_equiv. intros H.
  assert (Hx : is_finite (Prim2B x) = true).
  { destruct (Prim2B x) as [sx|sx| |sx mx ex Bx], (Prim2B y) as [sy|sy| |sy my ey By];
      try reflexivity; simpl in H; try discriminate H; destruct (Bool.eqb sx (negb sy)); discriminate H. }
  assert (Hy : is_finite (Prim2B y) = true).
  { destruct (Prim2B x) as [sx|sx| |sx mx ex Bx], (Prim2B y) as [sy|sy| |sy my ey By];
      try reflexivity; simpl in H; try discriminate H; try discriminate Hx. }
  split; [exact Hx|]. split; [exact Hy|].
  generalize (Bminus_correct prec emax Hprec Hmax mode_NE _ _ Hx Hy).
  destruct Rlt_bool.
  - intros (E & _). exact E.
  - intros (E & _). rewrite <- is_finite_SF_B2SF, E in H. discriminate H.
Qed.

Lemma fmul_finite x y : ffin (x * y)%float ->
  ffin x /\ ffin y /\ FR (x * y)%float = rnd64 (FR x * FR y).
Proof.
  rewrite !ffin_B. unfold FR. rewrite mul_equiv. intros H.
  generalize (Bmult_correct prec emax Hprec Hmax mode_NE (Prim2B x) (Prim2B y)).
  destruct Rlt_bool.
  - intros (E & F & _). rewrite H in F. symmetry in F. apply andb_prop in F. tauto.
  - intros E. rewrite <- is_finite_SF_B2SF, E in H. discriminate H.
Qed.

Lemma fabs_finite x : ffin (PrimFloat.abs x) <-> ffin x.
Proof. rewrite !ffin_B, abs_equiv, is_finite_Babs. tauto. Qed.
Lemma fabs_exact x : FR (PrimFloat.abs x) = Rabs (FR x).
Proof. unfold FR. rewrite abs_equiv. apply B2R_Babs. Qed.

Lemma fsqrt_finite x : ffin (PrimFloat.sqrt x) -> ffin x /\ FR (PrimFloat.sqrt x) = rnd64 (R_sqrt.sqrt (FR x)).
Proof.
  rewrite !ffin_B. unfold FR. rewrite sqrt_equiv. intros H.
  destruct (Bsqrt_correct prec emax Hprec Hmax mode_NE (Prim2B x)) as (E & F & _).
  split; [|exact E]. rewrite H in F. destruct (Prim2B x) as [sx|sx| |[|] mx ex Bx]; try reflexivity; discriminate F.
Qed.

Lemma FR_zero : FR 0%float = 0.
Proof. unfold FR. change 0%float with (B2Prim (B754_zero false)). rewrite Prim2B_B2Prim. reflexivity. Qed.
Lemma ffin_zero : ffin 0%float.
Proof. reflexivity. Qed.

(* ---- the rounding operator ---- *)
Lemma u64_pos : 0 < u64. Proof. apply bpow_gt_0. Qed.
Lemma eta64_pos : 0 < eta64. Proof. apply bpow_gt_0. Qed.
Lemma u64_val : u64 = / 2 * bpow radix2 (- 53 + 1).
Proof. unfold u64. change (-53+1)%Z with (-52)%Z. rewrite <- (bpow_plus radix2 (-1) (-52)) || idtac.
  change (/2) with (/ IZR 2). replace (/ IZR 2) with (bpow radix2 (-1)) by (simpl; unfold Z.pow_pos; simpl; lra).
  rewrite <- bpow_plus. reflexivity. Qed.
Lemma eta64_val : eta64 = / 2 * bpow radix2 (-1074).
Proof. unfold eta64. replace (/ 2) with (bpow radix2 (-1)) by (simpl; unfold Z.pow_pos; simpl; lra).
  rewrite <- bpow_plus. reflexivity. Qed.
Lemma u64_lt_1 : u64 < 1.
Proof. unfold u64. change 1 with (bpow radix2 0). apply bpow_lt. lia. Qed.

Lemma rnd64_0 : rnd64 0 = 0.
Proof. apply round_0. apply valid_rnd_N. Qed.
Lemma rnd64_le a b : a <= b -> rnd64 a <= rnd64 b.
Proof. apply round_le; [apply FLT_exp_valid; exact Hprec | apply valid_rnd_N]. Qed.
Lemma rnd64_id a : fmt64 a -> rnd64 a = a.
Proof. apply round_generic. apply valid_rnd_N. Qed.
Lemma rnd64_ge_0 a : 0 <= a -> 0 <= rnd64 a.
Proof. intros H. rewrite <- rnd64_0. apply rnd64_le. exact H. Qed.
Lemma fmt64_rnd64 a : fmt64 (rnd64 a).
Proof. apply generic_format_round; [apply FLT_exp_valid; exact Hprec | apply valid_rnd_N]. Qed.

(* sum / difference of two binary64 numbers: relative error u, also in the subnormal range *)
Lemma rnd64_add_err a b : fmt64 a -> fmt64 b -> Rabs (rnd64 (a + b) - (a + b)) <= u64 * Rabs (a + b).
Proof.
  intros Fa Fb.
  destruct (FLT_plus_error_N_ex radix2 (-1074) 53 (fun x => negb (Z.even x)) a b Fa Fb) as (e & He & E).
  unfold rnd64. rewrite E.
  replace ((a + b) * (1 + e) - (a + b)) with ((a + b) * e) by ring.
  rewrite Rabs_mult, Rmult_comm. apply Rmult_le_compat_r; [apply Rabs_pos|].
  change (u_ro radix2 53) with (/ 2 * bpow radix2 (- 53 + 1)) in He. rewrite <- u64_val in He.
  eapply Rle_trans; [exact He|].
  pose proof u64_pos. apply (Rmult_le_reg_r (1 + u64)); [lra|].
  unfold Rdiv. rewrite Rmult_assoc, Rinv_l by lra. nra.
Qed.
Lemma fmt64_opp a : fmt64 a -> fmt64 (- a).
Proof. apply generic_format_opp. Qed.
Lemma rnd64_sub_err a b : fmt64 a -> fmt64 b -> Rabs (rnd64 (a - b) - (a - b)) <= u64 * Rabs (a - b).
Proof. intros Fa Fb. apply (rnd64_add_err a (- b) Fa (fmt64_opp b Fb)). Qed.

(* any real: relative error u plus absolute error eta (underflow) *)
Lemma rnd64_err a : Rabs (rnd64 a - a) <= u64 * Rabs a + eta64.
Proof.
  destruct (error_N_FLT radix2 (-1074) 53 eq_refl (fun x => negb (Z.even x)) a) as (e & t & He & Ht & _ & E).
  unfold rnd64. rewrite E.
  assert (He' : Rabs e <= u64) by (rewrite u64_val; exact He).
  assert (Ht' : Rabs t <= eta64) by (rewrite eta64_val; exact Ht).
  replace (a * (1 + e) + t - a) with (a * e + t) by ring.
  eapply Rle_trans; [apply Rabs_triang|]. rewrite Rabs_mult.
  pose proof (Rabs_pos a). nra.
Qed.
(* normal range: no absolute term *)
Lemma rnd64_err_normal a : bpow radix2 (-1022) <= Rabs a -> Rabs (rnd64 a - a) <= u64 * Rabs a.
Proof.
  intros H. rewrite u64_val. apply (relative_error_N_FLT radix2 (-1074) 53 eq_refl). exact H.
Qed.

(* ---------------- recursive summation ---------------- *)
(* (1+u)^k - 1 : the accumulated relative error of k roundings *)
Definition Eu (k : nat) : R := (1 + u64) ^ k - 1.
Lemma Eu_0 : Eu 0 = 0. Proof. unfold Eu. simpl. lra. Qed.
Lemma Eu_1 : Eu 1 = u64. Proof. unfold Eu. simpl. lra. Qed.
Lemma Eu_S k : Eu (S k) = Eu k + u64 * (1 + Eu k).
Proof. unfold Eu. simpl. ring. Qed.
Lemma Eu_nonneg k : 0 <= Eu k.
Proof. induction k as [|k IH]; [rewrite Eu_0; lra|]. rewrite Eu_S. pose proof u64_pos. nra. Qed.
Lemma Eu_le k m : (k <= m)%nat -> Eu k <= Eu m.
Proof.
  induction 1 as [|m H IH]; [lra|]. rewrite Eu_S. pose proof u64_pos. pose proof (Eu_nonneg m). nra.
Qed.
Lemma Eu_plus k m : 1 + Eu (k + m) = (1 + Eu k) * (1 + Eu m).
Proof. unfold Eu. rewrite pow_add. ring. Qed.

Definition Rsuml (l : list R) : R := fold_right Rplus 0 l.

(* one step of a recursive summation, on real numbers:
   s ~ A with relative error Eu m and absolute error c*e (in the "mixed" form below),
   t ~ a with relative error Eu k (k <= m) and absolute error e, s' = rounding of s + t with relative error u *)
Lemma sum_step (k m : nat) (e c A a s t s' : R) :
  (k <= m)%nat -> 0 <= e -> 0 <= c -> 0 <= A -> 0 <= a ->
  Rabs (s - A) <= Eu m * (A + c * e) + c * e ->
  Rabs (t - a) <= Eu k * a + e ->
  Rabs (s' - (s + t)) <= u64 * Rabs (s + t) ->
  Rabs (s' - (A + a)) <= Eu (S m) * (A + a + (c + 1) * e) + (c + 1) * e.
Proof.
  intros Hkm He Hc HA Ha Hs Ht Hr.
  pose proof (Eu_nonneg m) as Hm. pose proof (Eu_nonneg k) as Hk. pose proof (Eu_le k m Hkm) as Hkm'.
  pose proof u64_pos as Hu.
  set (B := A + a + (c + 1) * e).
  assert (HB : 0 <= B) by (unfold B; nra).
  assert (H1 : Rabs (s + t - (A + a)) <= Eu m * B + (c + 1) * e).
  { replace (s + t - (A + a)) with ((s - A) + (t - a)) by ring.
    eapply Rle_trans; [apply Rabs_triang|]. unfold B. nra. }
  assert (H2 : Rabs (s + t) <= (1 + Eu m) * B).
  { replace (s + t) with ((s + t - (A + a)) + (A + a)) by ring.
    eapply Rle_trans; [apply Rabs_triang|]. rewrite (Rabs_pos_eq (A + a)) by lra. unfold B in *. nra. }
  replace (s' - (A + a)) with ((s' - (s + t)) + (s + t - (A + a))) by ring.
  eapply Rle_trans; [apply Rabs_triang|]. rewrite Eu_S. fold B. nra.
Qed.

Local Notation fadd := PrimFloat.add.

Lemma fold_fadd_finite_acc l : forall acc, ffin (fold_left fadd l acc) -> ffin acc /\ Forall ffin l.
Proof.
  induction l as [|t l IH]; intros acc H; cbn [fold_left] in H.
  - split; [exact H | constructor].
  - destruct (IH _ H) as [H1 H2]. destruct (fadd_finite _ _ H1) as (Ha & Ht & _).
    split; [exact Ha | constructor; assumption].
Qed.

Lemma fold_fadd_nonneg l : forall acc, ffin (fold_left fadd l acc) ->
  Forall (fun t => 0 <= FR t) l -> 0 <= FR acc -> 0 <= FR (fold_left fadd l acc).
Proof.
  induction l as [|t l IH]; intros acc H Hl Hacc; cbn [fold_left] in *.
  - exact Hacc.
  - inversion Hl as [|? ? Ht Hl']; subst. apply IH; [exact H | exact Hl' |].
    destruct (fold_fadd_finite_acc _ _ H) as [H1 _]. destruct (fadd_finite _ _ H1) as (_ & _ & E).
    rewrite E. apply rnd64_ge_0. lra.
Qed.

(* the general accumulation lemma *)
Lemma fold_fadd_error_acc (k : nat) (e : R) : 0 <= e ->
  forall (l : list PrimFloat.float) (a : list R),
  Forall2 (fun t a => ffin t -> 0 <= a /\ Rabs (FR t - a) <= Eu k * a + e) l a ->
  forall (acc : PrimFloat.float) (A c : R) (m : nat), (k <= m)%nat -> 0 <= A -> 0 <= c ->
  ffin (fold_left fadd l acc) ->
  Rabs (FR acc - A) <= Eu m * (A + c * e) + c * e ->
  0 <= Rsuml a /\
  Rabs (FR (fold_left fadd l acc) - (A + Rsuml a)) <=
    Eu (m + length l) * (A + Rsuml a + (c + INR (length l)) * e) + (c + INR (length l)) * e.
Proof.
  intros He l a HF. induction HF as [|t a0 l a Hta HF IH]; intros acc A c m Hkm HA Hc Hfin Hacc.
  - cbn [fold_left length Rsuml fold_right INR]. rewrite Nat.add_0_r, !Rplus_0_r. split; [lra | exact Hacc].
  - cbn [fold_left] in Hfin |- *.
    destruct (fold_fadd_finite_acc _ _ Hfin) as [H1 _]. destruct (fadd_finite _ _ H1) as (Ha & Ht & E).
    destruct (Hta Ht) as [Ha0 Hterm].
    assert (Hstep : Rabs (FR (fadd acc t) - (A + a0)) <= Eu (S m) * (A + a0 + (c + 1) * e) + (c + 1) * e).
    { apply (sum_step k m e c A a0 (FR acc) (FR t)); try assumption.
      rewrite E. apply rnd64_add_err; apply fmt64_FR. }
    destruct (IH (fadd acc t) (A + a0) (c + 1) (S m)) as [IH1 IH2]; try assumption; try lia; try lra.
    cbn [Rsuml fold_right length]. fold (Rsuml a). split; [lra|].
    replace (m + S (length l))%nat with (S m + length l)%nat by lia.
    rewrite S_INR.
    replace (A + (a0 + Rsuml a)) with (A + a0 + Rsuml a) by ring.
    replace (c + (INR (length l) + 1)) with (c + 1 + INR (length l)) by ring.
    exact IH2.
Qed.

Definition fsum (l : list PrimFloat.float) : PrimFloat.float := fold_left fadd l 0%float.

Lemma fadd_0_l t : ffin (fadd 0%float t) -> FR (fadd 0%float t) = FR t.
Proof.
  intros H. destruct (fadd_finite _ _ H) as (_ & _ & E). rewrite E, FR_zero, Rplus_0_l.
  apply rnd64_id, fmt64_FR.
Qed.

(* terms known up to relative error Eu k and absolute error e: the computed sum of n terms has
   relative error Eu (k + n - 1) (the first addition 0 + t is exact) and absolute error n*e *)
Theorem fsum_error_gen (k : nat) (e : R) : 0 <= e ->
  forall (l : list PrimFloat.float) (a : list R),
  Forall2 (fun t a => ffin t -> 0 <= a /\ Rabs (FR t - a) <= Eu k * a + e) l a ->
  ffin (fsum l) ->
  0 <= Rsuml a /\
  Rabs (FR (fsum l) - Rsuml a) <=
    Eu (k + length l - 1) * (Rsuml a + INR (length l) * e) + INR (length l) * e.
Proof.
  intros He l a HF Hfin. destruct HF as [|t a0 l a Hta HF].
  - unfold fsum. cbn [fold_left Rsuml fold_right length INR]. rewrite FR_zero.
    rewrite Rminus_0_r, Rabs_R0. pose proof (Eu_nonneg (k + 0 - 1)). split; [lra | nra].
  - unfold fsum in *. cbn [fold_left] in *.
    destruct (fold_fadd_finite_acc _ _ Hfin) as [H1 _]. destruct (fadd_finite _ _ H1) as (_ & Ht & _).
    destruct (Hta Ht) as [Ha0 Hterm].
    destruct (fold_fadd_error_acc k e He l a HF (fadd 0%float t) a0 1 k) as [G1 G2];
      try assumption; try lia; try lra.
    { rewrite (fadd_0_l t H1). pose proof (Eu_nonneg k). nra. }
    cbn [Rsuml fold_right length]. fold (Rsuml a). split; [lra|].
    replace (k + S (length l) - 1)%nat with (k + length l)%nat by lia.
    rewrite S_INR. replace (INR (length l) + 1) with (1 + INR (length l)) by ring.
    exact G2.
Qed.

(* the classical statement: recursive summation of non-negative binary64 numbers *)
Theorem fsum_nonneg_error (l : list PrimFloat.float) :
  Forall (fun t => 0 <= FR t) l -> ffin (fsum l) ->
  0 <= FR (fsum l) /\
  Rabs (FR (fsum l) - Rsuml (map FR l)) <= Eu (length l - 1) * Rsuml (map FR l).
Proof.
  intros Hl Hfin. split.
  - apply fold_fadd_nonneg; [exact Hfin | exact Hl | rewrite FR_zero; lra].
  - destruct (fsum_error_gen 0 0 (Rle_refl 0) l (map FR l)) as [_ G].
    + clear Hfin. induction Hl as [|t l Ht Hl IH]; cbn [map]; constructor; [|exact IH].
      intros _. split; [exact Ht|]. rewrite Eu_0. rewrite Rminus_diag_eq, Rabs_R0 by reflexivity. lra.
    + exact Hfin.
    + rewrite Rmult_0_r, !Rplus_0_r in G. exact G.
Qed.

(* ---------------- error of one operation, at the level of floats ---------------- *)
Theorem fadd_error x y : ffin (x + y)%float ->
  Rabs (FR (x + y)%float - (FR x + FR y)) <= u64 * Rabs (FR x + FR y).
Proof. intros H. destruct (fadd_finite _ _ H) as (_ & _ & E). rewrite E. apply rnd64_add_err; apply fmt64_FR. Qed.
Theorem fsub_error x y : ffin (x - y)%float ->
  Rabs (FR (x - y)%float - (FR x - FR y)) <= u64 * Rabs (FR x - FR y).
Proof. intros H. destruct (fsub_finite _ _ H) as (_ & _ & E). rewrite E. apply rnd64_sub_err; apply fmt64_FR. Qed.
Theorem fmul_error x y : ffin (x * y)%float ->
  Rabs (FR (x * y)%float - FR x * FR y) <= u64 * Rabs (FR x * FR y) + eta64.
Proof. intros H. destruct (fmul_finite _ _ H) as (_ & _ & E). rewrite E. apply rnd64_err. Qed.
Theorem fmul_error_normal x y : ffin (x * y)%float -> bpow radix2 (-1022) <= Rabs (FR x * FR y) ->
  Rabs (FR (x * y)%float - FR x * FR y) <= u64 * Rabs (FR x * FR y).
Proof. intros H N. destruct (fmul_finite _ _ H) as (_ & _ & E). rewrite E. apply rnd64_err_normal, N. Qed.

(* a non-zero binary64 number is at least 2^-1074 in magnitude *)
Lemma FR_nonzero_ge x : FR x <> 0 -> bpow radix2 (-1074) <= Rabs (FR x).
Proof.
  unfold FR. intros H. apply (abs_B2R_ge_emin prec emax).
  destruct (Prim2B x); try reflexivity; exfalso; apply H; reflexivity.
Qed.

Lemma fsqrt_finite_nonneg x : ffin (PrimFloat.sqrt x) -> 0 <= FR x.
Proof.
  rewrite ffin_B. unfold FR. rewrite sqrt_equiv. intros H.
  destruct (Bsqrt_correct prec emax Hprec Hmax mode_NE (Prim2B x)) as (_ & F & _).
  rewrite H in F. destruct (Prim2B x) as [sx|sx| |[|] mx ex Bx]; try discriminate F; try (simpl; lra).
  simpl. apply F2R_ge_0. simpl. lia.
Qed.

(* the square root never under- or overflows: one rounding, relative error u *)
Theorem fsqrt_error x : ffin (PrimFloat.sqrt x) ->
  0 <= FR x /\ Rabs (FR (PrimFloat.sqrt x) - R_sqrt.sqrt (FR x)) <= u64 * R_sqrt.sqrt (FR x).
Proof.
  intros H. pose proof (fsqrt_finite_nonneg x H) as Hx. split; [exact Hx|].
  destruct (fsqrt_finite x H) as (_ & E). rewrite E.
  destruct (Req_dec (FR x) 0) as [Z|NZ].
  - rewrite Z, sqrt_0, rnd64_0, Rminus_0_r, Rabs_R0. lra.
  - pose proof (rnd64_err_normal (R_sqrt.sqrt (FR x))) as G0.
    rewrite Rabs_pos_eq in G0 by apply sqrt_pos. apply G0.
    apply Rle_trans with (bpow radix2 (-537)); [apply bpow_le; lia|].
    change (-537)%Z with (-537)%Z. rewrite <- (sqrt_bpow radix2 (-537)). apply sqrt_le_1_alt.
    pose proof (FR_nonzero_ge x NZ) as G. rewrite Rabs_pos_eq in G by exact Hx. exact G.
Qed.

(* ---------------- small integers and quotients ---------------- *)
Lemma rnd64_lt_emax a : Rabs a <= 1 -> Rlt_bool (Rabs (rnd64 a)) (bpow radix2 1024) = true.
Proof.
  intros H. apply Rlt_bool_true. apply Rle_lt_trans with 1.
  - assert (F1 : fmt64 1).
    { apply generic_format_FLT. exists (Float radix2 1 0); [unfold F2R; simpl; lra | simpl; lia | simpl; lia]. }
    apply Rabs_le. apply Rabs_le_inv in H. split.
    + rewrite <- (rnd64_id (Ropp 1)) by (apply fmt64_opp, F1). apply rnd64_le. lra.
    + rewrite <- (rnd64_id 1) by exact F1. apply rnd64_le. lra.
  - change 1 with (bpow radix2 0). apply bpow_lt. lia.
Qed.

(* integers below 2^53 are binary64 numbers, and float_of_Z converts them exactly *)
Lemma fmt64_IZR z : (Z.abs z < 2 ^ 53)%Z -> fmt64 (IZR z).
Proof.
  intros H. apply generic_format_FLT. exists (Float radix2 z 0).
  - unfold F2R. simpl. lra.
  - exact H.
  - simpl. lia.
Qed.

Lemma float_of_Z_exact z : (0 <= z < 2 ^ 53)%Z -> ffin (float_of_Z z) /\ FR (float_of_Z z) = IZR z.
Proof.
  intros Hz. unfold float_of_Z. destruct (Z.ltb_spec z 0) as [Hn|_]; [lia|].
  rewrite ffin_B. unfold FR. rewrite of_int63_equiv, Uint63.of_Z_spec.
  rewrite Z.mod_small by (unfold wB, size; simpl; lia).
  generalize (binary_normalize_correct prec emax Hprec Hmax mode_NE z 0 false). cbv zeta.
  assert (E : F2R (Float radix2 z 0) = IZR z) by (unfold F2R; simpl; lra).
  rewrite E.
  assert (R1 : round radix2 (fexp prec emax) (round_mode mode_NE) (IZR z) = IZR z).
  { apply (rnd64_id (IZR z)). apply fmt64_IZR. lia. }
  rewrite R1. rewrite Rlt_bool_true.
  - intros (P & Q & _). split; [exact Q | exact P].
  - rewrite <- abs_IZR. change (bpow radix2 emax) with (IZR (2 ^ 1024)). apply IZR_lt.
    apply Z.lt_trans with (2 ^ 53)%Z; [lia|]. apply Z.pow_lt_mono_r; lia.
Qed.

(* a quotient of magnitude <= 1: the division cannot overflow *)
Lemma fdiv_small x y : ffin x -> ffin y -> FR y <> 0 -> Rabs (FR x / FR y) <= 1 ->
  ffin (x / y)%float /\ FR (x / y)%float = rnd64 (FR x / FR y).
Proof.
  rewrite !ffin_B. unfold FR. intros Hx Hy Hnz Hq. rewrite div_equiv.
  generalize (Bdiv_correct prec emax Hprec Hmax mode_NE (Prim2B x) (Prim2B y) Hnz).
  pose proof (rnd64_lt_emax _ Hq) as Hb. unfold rnd64 in Hb.
  assert (Hb' : Rlt_bool (Rabs (round radix2 (fexp prec emax) (round_mode mode_NE)
                                    (B2R (Prim2B x) / B2R (Prim2B y)))) (bpow radix2 emax) = true) by exact Hb.
  rewrite Hb'. intros (P & Q & _). split; [rewrite Q; exact Hx | exact P].
Qed.

(* ---------------- summation of terms of either sign: error relative to the sum of magnitudes ------- *)
Definition Rsumabs (l : list R) : R := fold_right (fun a s => Rabs a + s) 0 l.
Lemma Rsumabs_nonneg l : 0 <= Rsumabs l.
Proof. induction l as [|a l IH]; cbn [Rsumabs fold_right]; [lra|]. fold (Rsumabs l). pose proof (Rabs_pos a). lra. Qed.
Lemma Rsuml_le_Rsumabs l : Rabs (Rsuml l) <= Rsumabs l.
Proof.
  induction l as [|a l IH]; cbn [Rsumabs Rsuml fold_right]; [rewrite Rabs_R0; lra|].
  fold (Rsuml l) (Rsumabs l). eapply Rle_trans; [apply Rabs_triang|]. lra.
Qed.
Lemma Rsumabs_nonneg_terms l : Forall (fun a => 0 <= a) l -> Rsumabs l = Rsuml l.
Proof.
  induction 1 as [|a l Ha Hl IH]; [reflexivity|]. cbn [Rsumabs Rsuml fold_right].
  fold (Rsuml l) (Rsumabs l). rewrite IH, Rabs_pos_eq by exact Ha. reflexivity.
Qed.

(* s ~ A up to Eu m relative to the magnitude bound M (>= |A|) and c*e absolute, in mixed form *)
Lemma sum_step_signed (k m : nat) (e c A M a s t s' : R) :
  (k <= m)%nat -> 0 <= e -> 0 <= c -> Rabs A <= M ->
  Rabs (s - A) <= Eu m * (M + c * e) + c * e ->
  Rabs (t - a) <= Eu k * Rabs a + e ->
  Rabs (s' - (s + t)) <= u64 * Rabs (s + t) ->
  Rabs (s' - (A + a)) <= Eu (S m) * (M + Rabs a + (c + 1) * e) + (c + 1) * e.
Proof.
  intros Hkm He Hc HA Hs Ht Hr.
  pose proof (Eu_nonneg m) as Hm. pose proof (Eu_nonneg k) as Hk. pose proof (Eu_le k m Hkm) as Hkm'.
  pose proof u64_pos as Hu. pose proof (Rabs_pos a) as Ha. pose proof (Rabs_pos A) as HA0.
  set (B := M + Rabs a + (c + 1) * e).
  assert (HB : 0 <= B) by (unfold B; nra).
  assert (H1 : Rabs (s + t - (A + a)) <= Eu m * B + (c + 1) * e).
  { replace (s + t - (A + a)) with ((s - A) + (t - a)) by ring.
    eapply Rle_trans; [apply Rabs_triang|]. unfold B. nra. }
  assert (H2 : Rabs (s + t) <= (1 + Eu m) * B).
  { replace (s + t) with ((s + t - (A + a)) + (A + a)) by ring.
    eapply Rle_trans; [apply Rabs_triang|].
    assert (Rabs (A + a) <= M + Rabs a) by (eapply Rle_trans; [apply Rabs_triang|]; lra).
    unfold B in *. nra. }
  replace (s' - (A + a)) with ((s' - (s + t)) + (s + t - (A + a))) by ring.
  eapply Rle_trans; [apply Rabs_triang|]. rewrite Eu_S. fold B. nra.
Qed.

Lemma fold_fadd_error_signed_acc (k : nat) (e : R) : 0 <= e ->
  forall (l : list PrimFloat.float) (a : list R),
  Forall2 (fun t a => ffin t -> Rabs (FR t - a) <= Eu k * Rabs a + e) l a ->
  forall (acc : PrimFloat.float) (A M c : R) (m : nat), (k <= m)%nat -> Rabs A <= M -> 0 <= c ->
  ffin (fold_left fadd l acc) ->
  Rabs (FR acc - A) <= Eu m * (M + c * e) + c * e ->
  Rabs (FR (fold_left fadd l acc) - (A + Rsuml a)) <=
    Eu (m + length l) * (M + Rsumabs a + (c + INR (length l)) * e) + (c + INR (length l)) * e.
Proof.
  intros He l a HF. induction HF as [|t a0 l a Hta HF IH]; intros acc A M c m Hkm HA Hc Hfin Hacc.
  - cbn [fold_left length Rsuml Rsumabs fold_right INR]. rewrite Nat.add_0_r, !Rplus_0_r. exact Hacc.
  - cbn [fold_left] in Hfin |- *.
    destruct (fold_fadd_finite_acc _ _ Hfin) as [H1 _]. destruct (fadd_finite _ _ H1) as (Ha & Ht & E).
    pose proof (Hta Ht) as Hterm.
    assert (Hstep : Rabs (FR (fadd acc t) - (A + a0)) <=
                    Eu (S m) * (M + Rabs a0 + (c + 1) * e) + (c + 1) * e).
    { apply (sum_step_signed k m e c A M a0 (FR acc) (FR t)); try assumption.
      rewrite E. apply rnd64_add_err; apply fmt64_FR. }
    assert (HA' : Rabs (A + a0) <= M + Rabs a0) by (eapply Rle_trans; [apply Rabs_triang|]; lra).
    pose proof (IH (fadd acc t) (A + a0) (M + Rabs a0) (c + 1) (S m)) as IH2.
    cbn [Rsuml Rsumabs fold_right length]. fold (Rsuml a) (Rsumabs a).
    replace (m + S (length l))%nat with (S m + length l)%nat by lia.
    rewrite S_INR.
    replace (A + (a0 + Rsuml a)) with (A + a0 + Rsuml a) by ring.
    replace (M + (Rabs a0 + Rsumabs a)) with (M + Rabs a0 + Rsumabs a) by ring.
    replace (c + (INR (length l) + 1)) with (c + 1 + INR (length l)) by ring.
    apply IH2; try assumption; try lia; lra.
Qed.

(* terms of either sign known up to relative error Eu k and absolute error e:
   |computed - sum a_i| <= Eu (k + n - 1) * (sum |a_i| + n e) + n e *)
Theorem fsum_error_signed (k : nat) (e : R) : 0 <= e ->
  forall (l : list PrimFloat.float) (a : list R),
  Forall2 (fun t a => ffin t -> Rabs (FR t - a) <= Eu k * Rabs a + e) l a ->
  ffin (fsum l) ->
  Rabs (FR (fsum l) - Rsuml a) <=
    Eu (k + length l - 1) * (Rsumabs a + INR (length l) * e) + INR (length l) * e.
Proof.
  intros He l a HF Hfin. destruct HF as [|t a0 l a Hta HF].
  - unfold fsum. cbn [fold_left Rsuml Rsumabs fold_right length INR]. rewrite FR_zero.
    rewrite Rminus_0_r, Rabs_R0. pose proof (Eu_nonneg (k + 0 - 1)). nra.
  - unfold fsum in *. cbn [fold_left] in *.
    destruct (fold_fadd_finite_acc _ _ Hfin) as [H1 _]. destruct (fadd_finite _ _ H1) as (_ & Ht & _).
    pose proof (Hta Ht) as Hterm.
    pose proof (fold_fadd_error_signed_acc k e He l a HF (fadd 0%float t) a0 (Rabs a0) 1 k) as G2.
    cbn [Rsuml Rsumabs fold_right length]. fold (Rsuml a) (Rsumabs a).
    replace (k + S (length l) - 1)%nat with (k + length l)%nat by lia.
    rewrite S_INR. replace (INR (length l) + 1) with (1 + INR (length l)) by ring.
    apply G2; try assumption; try lia; try lra.
    rewrite (fadd_0_l t H1). pose proof (Eu_nonneg k). pose proof (Rabs_pos a0). nra.
Qed.

(* plain recursive summation of binary64 numbers of either sign *)
Theorem fsum_signed_error (l : list PrimFloat.float) : ffin (fsum l) ->
  Rabs (FR (fsum l) - Rsuml (map FR l)) <= Eu (length l - 1) * Rsumabs (map FR l).
Proof.
  intros Hfin.
  pose proof (fsum_error_signed 0 0 (Rle_refl 0) l (map FR l)) as G.
  rewrite Rmult_0_r, !Rplus_0_r in G. apply G; [|exact Hfin].
  clear. induction l as [|t l IH]; cbn [map]; constructor; [|exact IH].
  intros _. rewrite Eu_0, Rminus_diag_eq, Rabs_R0 by reflexivity. lra.
Qed.

(* ---------------- division by a finite non-zero float ---------------- *)
Lemma fdiv_finite x y : ffin y -> FR y <> 0 -> ffin (x / y)%float ->
  ffin x /\ FR (x / y)%float = rnd64 (FR x / FR y).
Proof.
  rewrite !ffin_B. unfold FR. intros Hy Hnz. rewrite div_equiv. intros H.
  generalize (Bdiv_correct prec emax Hprec Hmax mode_NE (Prim2B x) (Prim2B y) Hnz).
  destruct Rlt_bool.
  - intros (P & Q & _). split; [rewrite <- Q; exact H | exact P].
  - intros E. rewrite <- is_finite_SF_B2SF, E in H. discriminate H.
Qed.
Theorem fdiv_error x y : ffin y -> FR y <> 0 -> ffin (x / y)%float ->
  Rabs (FR (x / y)%float - FR x / FR y) <= u64 * Rabs (FR x / FR y) + eta64.
Proof. intros Hy Hnz H. destruct (fdiv_finite x y Hy Hnz H) as (_ & E). rewrite E. apply rnd64_err. Qed.

(* the constants in elementary terms *)
Lemma u64_eq : u64 = / 2 ^ 53.
Proof.
  unfold u64. change (-53)%Z with (- (53))%Z. rewrite bpow_opp. f_equal.
  change (bpow radix2 53) with (IZR (2 ^ Z.of_nat 53)). rewrite <- pow_IZR. reflexivity.
Qed.
Lemma eta64_eq : eta64 = / 2 ^ 1075.
Proof.
  unfold eta64. change (-1075)%Z with (- (1075))%Z. rewrite bpow_opp. f_equal.
  change (bpow radix2 1075) with (IZR (2 ^ Z.of_nat 1075)). rewrite <- pow_IZR. reflexivity.
Qed.
