(* Software exp / ln / pow / tanh on primitive binary64 floats (a few ulp), used ONLY by the
   float instance of the generic models when they are executed against the implementation.
   Code paths that go through these are compared with a tolerance, never bit for bit.
   No theorem depends on this file. *)
From Coq Require Import ZArith Floats List.
From SC Require Import Base.FloatUtil.
Import ListNotations.
Local Open Scope float_scope.

Definition ln2_hi : float := 0x1.62e42fee00000p-1.
Definition ln2_lo : float := 0x1.a39ef35793c76p-33.
Definition inv_ln2 : float := 0x1.71547652b82fep+0.

Fixpoint horner (cs : list float) (x : float) : float :=
  match cs with
  | [] => 0
  | c :: t => c + x * horner t x
  end.

(* 1/k! for k = 0..14 *)
Definition exp_coeffs : list float :=
  [1; 1; 0.5; 0x1.5555555555555p-3; 0x1.5555555555555p-5; 0x1.1111111111111p-7;
   0x1.6c16c16c16c17p-10; 0x1.a01a01a01a01ap-13; 0x1.a01a01a01a01ap-16; 0x1.71de3a556c734p-19;
   0x1.27e4fb7789f5cp-22; 0x1.ae64567f544e4p-26; 0x1.1eed8eff8d898p-29; 0x1.6124613a86d09p-33;
   0x1.93974a8c07c9dp-37].

Definition fexp (x : float) : float :=
  if is_nan_b x then x
  else if PrimFloat.ltb 710 x then infinity
  else if PrimFloat.ltb x (-746) then 0
  else
    let t := x * inv_ln2 in
    let k := float_trunc_Z (if PrimFloat.ltb t 0 then t - 0.5 else t + 0.5) in
    let kf := float_of_Z k in
    let r := (x - kf * ln2_hi) - kf * ln2_lo in
    Z.ldexp (horner exp_coeffs r) k.

Definition sqrt_half : float := 0x1.6a09e667f3bcdp-1.

(* 1/(2k+1) for k = 0..13 *)
Definition atanh_coeffs : list float :=
  [1; 0x1.5555555555555p-2; 0x1.999999999999ap-3; 0x1.2492492492492p-3; 0x1.c71c71c71c71cp-4;
   0x1.745d1745d1746p-4; 0x1.3b13b13b13b14p-4; 0x1.1111111111111p-4; 0x1.e1e1e1e1e1e1ep-5;
   0x1.af286bca1af28p-5; 0x1.8618618618618p-5; 0x1.642c8590b2164p-5; 0x1.47ae147ae147bp-5;
   0x1.2f684bda12f68p-5].

Definition fln (x : float) : float :=
  if is_nan_b x then x
  else if PrimFloat.ltb x 0 then nan
  else if PrimFloat.eqb x 0 then neg_infinity
  else if PrimFloat.eqb x infinity then infinity
  else
    let '(m0, e0) := Z.frexp x in
    let '(m, e) := if PrimFloat.ltb m0 sqrt_half then (m0 * 2, (e0 - 1)%Z) else (m0, e0) in
    let s := (m - 1) / (m + 1) in
    let lnm := 2 * s * horner atanh_coeffs (s * s) in
    let ef := float_of_Z e in
    ef * ln2_hi + (ef * ln2_lo + lnm).

Definition fpow (x y : float) : float :=
  if PrimFloat.eqb y 0 then 1
  else if PrimFloat.eqb x 0 then (if PrimFloat.ltb y 0 then infinity else 0)
  else if PrimFloat.ltb x 0 then
    (* integer exponents only *)
    let yi := float_trunc_Z y in
    let r := fexp (y * fln (- x)) in
    if Z.even yi then r else - r
  else fexp (y * fln x).

Definition ftanh (x : float) : float :=
  if PrimFloat.ltb 20 x then 1
  else if PrimFloat.ltb x (-20) then -1
  else let e2 := fexp (2 * x) in (e2 - 1) / (e2 + 1).

(* powi by repeated squaring (exact for small integer powers of small integers; otherwise
   a few ulp from LLVM's powi, hence tolerance comparisons) *)
Fixpoint fpowi_pos (x : float) (n : positive) : float :=
  match n with
  | xH => x
  | xO p => let y := fpowi_pos x p in y * y
  | xI p => let y := fpowi_pos x p in x * (y * y)
  end.
Definition fpowi (x : float) (n : Z) : float :=
  match n with
  | Z0 => 1
  | Zpos p => fpowi_pos x p
  | Zneg p => 1 / fpowi_pos x p
  end.

Definition fhypot (a b : float) : float :=
  (* scaled form; agrees with libm's hypot to an ulp or two *)
  let a := abs a in let b := abs b in
  let big := if PrimFloat.ltb a b then b else a in
  let small := if PrimFloat.ltb a b then a else b in
  if PrimFloat.eqb big 0 then 0
  else if PrimFloat.eqb big infinity then infinity
  else let r := small / big in big * sqrt (1 + r * r).
