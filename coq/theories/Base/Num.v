(* The record of scalar operations every numerical model is generic in, and its instances:
   ROps (real numbers: theorems) and FOps (primitive binary64: execution against the f64 code). *)
From Coq Require Import List ZArith Reals Floats Bool.
From SC Require Import Base.FloatUtil Base.Elem.
Import ListNotations.

Record Ops (T : Type) := mkOps {
  o0 : T; o1 : T;
  oadd : T -> T -> T; osub : T -> T -> T; omul : T -> T -> T; odiv : T -> T -> T;
  oneg : T -> T; oabs : T -> T; osqrt : T -> T;
  oexp : T -> T; oln : T -> T;
  oltb : T -> T -> bool; oleb : T -> T -> bool; oeqb : T -> T -> bool;
  oofZ : Z -> T
}.
Arguments o0 {T}. Arguments o1 {T}. Arguments oadd {T}. Arguments osub {T}. Arguments omul {T}.
Arguments odiv {T}. Arguments oneg {T}. Arguments oabs {T}. Arguments osqrt {T}.
Arguments oexp {T}. Arguments oln {T}. Arguments oltb {T}. Arguments oleb {T}. Arguments oeqb {T}.
Arguments oofZ {T}.

Definition FOps : Ops float := {|
  o0 := 0%float; o1 := 1%float;
  oadd := PrimFloat.add; osub := PrimFloat.sub; omul := PrimFloat.mul; odiv := PrimFloat.div;
  oneg := PrimFloat.opp; oabs := PrimFloat.abs; osqrt := PrimFloat.sqrt;
  oexp := fexp; oln := fln;
  oltb := PrimFloat.ltb; oleb := PrimFloat.leb; oeqb := PrimFloat.eqb;
  oofZ := float_of_Z |}.

Definition Rltb (a b : R) : bool := if Rlt_dec a b then true else false.
Definition Rleb (a b : R) : bool := if Rle_dec a b then true else false.
Definition Reqb (a b : R) : bool := if Req_EM_T a b then true else false.
Definition ROps : Ops R := {|
  o0 := 0%R; o1 := 1%R;
  oadd := Rplus; osub := Rminus; omul := Rmult; odiv := Rdiv;
  oneg := Ropp; oabs := Rabs; osqrt := R_sqrt.sqrt;
  oexp := exp; oln := ln;
  oltb := Rltb; oleb := Rleb; oeqb := Reqb;
  oofZ := IZR |}.

Lemma Rltb_true a b : Rltb a b = true <-> (a < b)%R.
Proof. unfold Rltb. destruct (Rlt_dec a b); split; intros; try discriminate; tauto. Qed.
Lemma Rltb_false a b : Rltb a b = false <-> (b <= a)%R.
Proof.
  unfold Rltb. destruct (Rlt_dec a b) as [H|H]; split; intros H'; try discriminate; try reflexivity.
  - exfalso. apply (Rlt_irrefl a). eapply Rlt_le_trans; eassumption.
  - apply Rnot_lt_le. exact H.
Qed.
Lemma Rleb_true a b : Rleb a b = true <-> (a <= b)%R.
Proof. unfold Rleb. destruct (Rle_dec a b); split; intros; try discriminate; tauto. Qed.
Lemma Rleb_false a b : Rleb a b = false <-> (b < a)%R.
Proof.
  unfold Rleb. destruct (Rle_dec a b) as [H|H]; split; intros H'; try discriminate; try reflexivity.
  - exfalso. apply (Rlt_irrefl a). eapply Rle_lt_trans; eassumption.
  - apply Rnot_le_lt. exact H.
Qed.
Lemma Reqb_true a b : Reqb a b = true <-> a = b.
Proof. unfold Reqb. destruct (Req_EM_T a b); split; intros; try discriminate; tauto. Qed.
Lemma Reqb_false a b : Reqb a b = false <-> a <> b.
Proof. unfold Reqb. destruct (Req_EM_T a b); split; intros; try discriminate; tauto. Qed.

Section Generic.
  Context {T : Type} (O : Ops T).
  Definition omax (a b : T) : T := if O.(oltb) a b then b else a.   (* Rust: a.max(b) for non-NaN *)
  Definition omin (a b : T) : T := if O.(oltb) b a then b else a.
  Definition osq (a : T) : T := O.(omul) a a.
  Definition oofnat (n : nat) : T := O.(oofZ) (Z.of_nat n).
  (* left-to-right sum / fold as the Rust loops do *)
  Definition osum (l : list T) : T := fold_left O.(oadd) l O.(o0).
  (* sum_{k<n} f k, accumulated from k = 0 upwards *)
  Fixpoint osumn (n : nat) (f : nat -> T) : T :=
    match n with 0 => O.(o0) | S k => O.(oadd) (osumn k f) (f k) end.
End Generic.
