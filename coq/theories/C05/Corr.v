(* C05 — correspondence interface: the model instantiated at binary64, with `N` arguments,
   compared against what the implementation returned (serde JSON of the fitted trees).
   Used by harness/src/bin/c05.rs through `Eval vm_compute`. *)
From Coq Require Import List ZArith NArith Bool Floats.
From SC Require Import Base.FloatUtil Base.Num C05.Model.
Import ListNotations.

Definition to_nats := map N.to_nat.
Definition of_nats := map N.of_nat.
Definition onat (o : option N) : option nat := option_map N.to_nat o.

(* ---- quick_argsort ---- *)
Definition corr_argsort (col : list float) (expected : option (list N)) : bool :=
  option_eqb nlist_eqb (option_map of_nats (quick_argsort FOps col)) expected.

(* ---- nodes as tuples: (output, split_feature, split_value, split_score, true_child, false_child) ---- *)
Definition rnode := (float * N * option float * option float * option N * option N)%type.
Definition cnode := (N * N * option float * option float * option N * option N)%type.

Definition rnode_eq (nd : node float float) (e : rnode) : bool :=
  let '(o, f, sv, ss, tc, fc) := e in
  feq nd.(output) o && N.eqb (N.of_nat nd.(split_feature)) f &&
  option_eqb feq nd.(split_value) sv && option_eqb feq nd.(split_score) ss &&
  option_eqb N.eqb (option_map N.of_nat nd.(true_child)) tc &&
  option_eqb N.eqb (option_map N.of_nat nd.(false_child)) fc.
Definition cnode_eq (nd : node float nat) (e : cnode) : bool :=
  let '(o, f, sv, ss, tc, fc) := e in
  N.eqb (N.of_nat nd.(output)) o && N.eqb (N.of_nat nd.(split_feature)) f &&
  option_eqb feq nd.(split_value) sv && option_eqb feq nd.(split_score) ss &&
  option_eqb N.eqb (option_map N.of_nat nd.(true_child)) tc &&
  option_eqb N.eqb (option_map N.of_nat nd.(false_child)) fc.

Fixpoint list_eq2 {A B} (eq : A -> B -> bool) (l1 : list A) (l2 : list B) : bool :=
  match l1, l2 with
  | [], [] => true
  | a :: t1, b :: t2 => eq a b && list_eq2 eq t1 t2
  | _, _ => false
  end.

Definition rnode_of (e : rnode) : node float float :=
  let '(o, f, sv, ss, tc, fc) := e in mkNode o (N.to_nat f) sv ss (onat tc) (onat fc).
Definition cnode_of (e : cnode) : node float nat :=
  let '(o, f, sv, ss, tc, fc) := e in mkNode (N.to_nat o) (N.to_nat f) sv ss (onat tc) (onat fc).

(* ---- run-time validation of the hypothesis `sorted_order` of the leaf-value theorems: the orders
        the model computes are permutations of the rows that sort the feature column ---- *)
Definition sortedb (col : list float) (idx : list nat) : bool :=
  match idx with
  | [] => true
  | a :: t => snd (fold_left (fun '(prev, ok) b =>
                                (b, ok && PrimFloat.leb (nth prev col 0%float) (nth b col 0%float))) t (a, true))
  end.
Definition permb (n : nat) (idx : list nat) : bool :=
  Nat.eqb (length idx) n && forallb (fun i => existsb (Nat.eqb i) idx) (seq 0 n).
Definition orders_okb (x : list (list float)) : bool :=
  forallb (fun j => match quick_argsort FOps (column FOps x j) with
                    | None => false
                    | Some idx => permb (length x) idx && sortedb (column FOps x j) idx
                    end) (seq 0 (length (hd [] x))).

(* ---- regressor: DecisionTreeRegressor::fit (expected = nodes and depth) ---- *)
Definition corr_reg_fit (x : list (list float)) (y : list float) (md : option N) (msl mss : N)
           (expected : option (list rnode * N)) : bool :=
  match fit_regressor FOps x y (onat md) (N.to_nat msl) (N.to_nat mss), expected with
  | None, None => true
  | Some (nodes, depth), Some (en, ed) =>
      list_eq2 rnode_eq nodes en && N.eqb (N.of_nat depth) ed && orders_okb x && wf_treeb nodes
  | _, _ => false
  end.
(* fit_weak_learner with explicit sample counts and the features tried at each node as recorded by
   the cfg hook VERIF_TREE_VARS (node id -> first mtry entries of the shuffled feature list) *)
Definition vars_of (p : nat) (tab : list (N * list N)) (id : nat) : list nat :=
  match find (fun e => N.eqb (fst e) (N.of_nat id)) tab with
  | Some e => to_nats (snd e)
  | None => seq 0 p
  end.
Definition corr_reg_fit_w (x : list (list float)) (y : list float) (samples : list N)
           (vars : list (N * list N)) (md : option N)
           (msl mss : N) (expected : option (list rnode * N)) : bool :=
  match fit_regressor_weak FOps x y (to_nats samples) (vars_of (length (hd [] x)) vars)
                           (onat md) (N.to_nat msl) (N.to_nat mss), expected with
  | None, None => true
  | Some (nodes, depth), Some (en, ed) =>
      list_eq2 rnode_eq nodes en && N.eqb (N.of_nat depth) ed && wf_treeb nodes
  | _, _ => false
  end.

(* ---- classifier ---- *)
Definition crit_of (c : N) : criterion :=
  match c with 0%N => Gini | 1%N => Entropy | _ => ClassificationError end.
(* p.log2() as computed by the implementation's libm, tabulated by the harness for every
   fraction c/n that can occur; outside the table: software ln (few ulp) *)
Fixpoint lookup_f (tab : list (float * float)) (p : float) : option float :=
  match tab with
  | [] => None
  | (a, b) :: t => if PrimFloat.eqb a p then Some b else lookup_f t p
  end.
Definition flog2 (tab : list (float * float)) (p : float) : float :=
  match lookup_f tab p with
  | Some v => v
  | None => PrimFloat.div (FOps.(oln) p) (FOps.(oln) 2%float)
  end.

Definition cls_result_eq (r : option (list float * list (node float nat) * nat))
           (expected : option (list float * list cnode * N)) : bool :=
  match r, expected with
  | None, None => true
  | Some (classes, nodes, depth), Some (ec, en, ed) =>
      flist_eq classes ec && list_eq2 cnode_eq nodes en && N.eqb (N.of_nat depth) ed && wf_treeb nodes
  | _, _ => false
  end.
Definition corr_cls_fit (crit : N) (x : list (list float)) (y : list float) (md : option N) (msl mss : N)
           (tab : list (float * float)) (expected : option (list float * list cnode * N)) : bool :=
  cls_result_eq (fit_classifier FOps (flog2 tab) (crit_of crit) x y (onat md) (N.to_nat msl) (N.to_nat mss))
                expected && orders_okb x.
Definition corr_cls_fit_w (crit : N) (x : list (list float)) (y : list float) (samples : list N)
           (vars : list (N * list N)) (md : option N) (msl mss : N)
           (tab : list (float * float)) (expected : option (list float * list cnode * N)) : bool :=
  cls_result_eq (fit_classifier_weak FOps (flog2 tab) (crit_of crit) x y (to_nats samples)
                                     (vars_of (length (hd [] x)) vars)
                                     (onat md) (N.to_nat msl) (N.to_nat mss))
                expected.

(* ---- predict on the implementation's own node arrays; the tree must satisfy the
        well-formedness hypothesis of the routing theorem ---- *)
Definition corr_reg_predict (nodes : list rnode) (rows : list (list float)) (expected : list float) : bool :=
  let ns := map rnode_of nodes in
  wf_treeb ns && option_eqb flist_eq (predict_regressor FOps ns rows) (Some expected).
Definition corr_cls_predict (classes : list float) (nodes : list cnode) (rows : list (list float))
           (expected : list float) : bool :=
  let ns := map cnode_of nodes in
  wf_treeb ns && option_eqb flist_eq (predict_classifier FOps classes ns rows) (Some expected).
