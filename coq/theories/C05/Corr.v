(* C05 — correspondence interface: the model instantiated at binary64, with `N` arguments,
   compared against what the implementation returned (serde JSON of the fitted trees).
   Used by harness/src/bin/c05.rs through `Eval vm_compute`. *)
From Coq Require Import List ZArith NArith Bool Floats.
From SC Require Import Base.FloatUtil Base.Num C05.Model.
Import ListNotations.

Definition to_nats := map N.to_nat.
Definition of_nats := map N.of_nat.
Definition onat (o : option N) : option nat := option_map N.to_nat o.

(* ---- quick_argsort ---- *)
Definition corr_argsort (col : list float) (expected : option (list N)) : bool :=
  option_eqb nlist_eqb (option_map of_nats (quick_argsort FOps col)) expected.

(* ---- nodes as tuples: (output, split_feature, split_value, split_score, true_child, false_child) ---- *)
Definition rnode := (float * N * option float * option float * option N * option N)%type.
Definition cnode := (N * N * option float * option float * option N * option N)%type.

Definition rnode_eq (nd : node float float) (e : rnode) : bool :=
  let '(o, f, sv, ss, tc, fc) := e in
  feq nd.(output) o && N.eqb (N.of_nat nd.(split_feature)) f &&
  option_eqb feq nd.(split_value) sv && option_eqb feq nd.(split_score) ss &&
  option_eqb N.eqb (option_map N.of_nat nd.(true_child)) tc &&
  option_eqb N.eqb (option_map N.of_nat nd.(false_child)) fc.
Definition cnode_eq (nd : node float nat) (e : cnode) : bool :=
  let '(o, f, sv, ss, tc, fc) := e in
  N.eqb (N.of_nat nd.(output)) o && N.eqb (N.of_nat nd.(split_feature)) f &&
  option_eqb feq nd.(split_value) sv && option_eqb feq nd.(split_score) ss &&
  option_eqb N.eqb (option_map N.of_nat nd.(true_child)) tc &&
  option_eqb N.eqb (option_map N.of_nat nd.(false_child)) fc.

Fixpoint list_eq2 {A B} (eq : A -> B -> bool) (l1 : list A) (l2 : list B) : bool :=
  match l1, l2 with
  | [], [] => true
  | a :: t1, b :: t2 => eq a b && list_eq2 eq t1 t2
  | _, _ => false
  end.

Definition rnode_of (e : rnode) : node float float :=
  let '(o, f, sv, ss, tc, fc) := e in mkNode o (N.to_nat f) sv ss (onat tc) (onat fc).
Definition cnode_of (e : cnode) : node float nat :=
  let '(o, f, sv, ss, tc, fc) := e in mkNode (N.to_nat o) (N.to_nat f) sv ss (onat tc) (onat fc).

(* ---- regressor: DecisionTreeRegressor::fit (expected = nodes and depth) ---- *)
Definition corr_reg_fit (x : list (list float)) (y : list float) (md : option N) (msl mss : N)
           (expected : option (list rnode * N)) : bool :=
  match fit_regressor FOps x y (onat md) (N.to_nat msl) (N.to_nat mss), expected with
  | None, None => true
  | Some (nodes, depth), Some (en, ed) => list_eq2 rnode_eq nodes en && N.eqb (N.of_nat depth) ed
  | _, _ => false
  end.
(* fit_weak_learner with explicit sample counts, mtry = all features (cfg hook) *)
Definition corr_reg_fit_w (x : list (list float)) (y : list float) (samples : list N) (md : option N)
           (msl mss : N) (expected : option (list rnode * N)) : bool :=
  match fit_regressor_weak FOps x y (to_nats samples) (fun _ => seq 0 (length (hd [] x)))
                           (onat md) (N.to_nat msl) (N.to_nat mss), expected with
  | None, None => true
  | Some (nodes, depth), Some (en, ed) => list_eq2 rnode_eq nodes en && N.eqb (N.of_nat depth) ed
  | _, _ => false
  end.

(* ---- classifier ---- *)
Definition crit_of (c : N) : criterion :=
  match c with 0%N => Gini | 1%N => Entropy | _ => ClassificationError end.
(* p.log2() as computed by the implementation's libm, tabulated by the harness for every
   fraction c/n that can occur; outside the table: software ln (few ulp) *)
Fixpoint lookup_f (tab : list (float * float)) (p : float) : option float :=
  match tab with
  | [] => None
  | (a, b) :: t => if PrimFloat.eqb a p then Some b else lookup_f t p
  end.
Definition flog2 (tab : list (float * float)) (p : float) : float :=
  match lookup_f tab p with
  | Some v => v
  | None => PrimFloat.div (FOps.(oln) p) (FOps.(oln) 2%float)
  end.

Definition cls_result_eq (r : option (list float * list (node float nat) * nat))
           (expected : option (list float * list cnode * N)) : bool :=
  match r, expected with
  | None, None => true
  | Some (classes, nodes, depth), Some (ec, en, ed) =>
      flist_eq classes ec && list_eq2 cnode_eq nodes en && N.eqb (N.of_nat depth) ed
  | _, _ => false
  end.
Definition corr_cls_fit (crit : N) (x : list (list float)) (y : list float) (md : option N) (msl mss : N)
           (tab : list (float * float)) (expected : option (list float * list cnode * N)) : bool :=
  cls_result_eq (fit_classifier FOps (flog2 tab) (crit_of crit) x y (onat md) (N.to_nat msl) (N.to_nat mss))
                expected.
Definition corr_cls_fit_w (crit : N) (x : list (list float)) (y : list float) (samples : list N)
           (md : option N) (msl mss : N)
           (tab : list (float * float)) (expected : option (list float * list cnode * N)) : bool :=
  cls_result_eq (fit_classifier_weak FOps (flog2 tab) (crit_of crit) x y (to_nats samples)
                                     (fun _ => seq 0 (length (hd [] x)))
                                     (onat md) (N.to_nat msl) (N.to_nat mss))
                expected.

(* impurity alone (tolerance: the entropy uses the software logarithm here) *)
Definition corr_impurity (crit : N) (count : list N) (n : N) (tol expected : float) : bool :=
  feq_tol tol (impurity FOps (flog2 []) (crit_of crit) (to_nats count) (N.to_nat n)) expected.

(* ---- predict on the implementation's own node arrays; the tree must satisfy the
        well-formedness hypothesis of the routing theorem ---- *)
Definition corr_reg_predict (nodes : list rnode) (rows : list (list float)) (expected : list float) : bool :=
  let ns := map rnode_of nodes in
  wf_treeb ns && option_eqb flist_eq (predict_regressor FOps ns rows) (Some expected).
Definition corr_cls_predict (classes : list float) (nodes : list cnode) (rows : list (list float))
           (expected : list float) : bool :=
  let ns := map cnode_of nodes in
  wf_treeb ns && option_eqb flist_eq (predict_classifier FOps classes ns rows) (Some expected).
