(* C05 — the boundary-point property (Fayyad & Irani): for min_samples_leaf = 1 and pairwise distinct
   values of the feature, every admissible threshold is matched or beaten by an admissible BOUNDARY
   threshold of the same feature (one that separates two value-adjacent counted rows of different
   classes).  Together with C05/ProofsOptCls.v (the sweep's choice is best among boundary thresholds)
   this gives the full greedy-optimality clause of the classification tree.

   Proof.  Write F t = Phi (class counts of the true side of t) + Phi (class counts of the false side),
   Phi = row count x impurity (C05/ProofsImpurity.v); cls_gain t = impurity(parent) - F t / n.
   For a threshold t whose two neighbouring counted rows r1 (below) and r2 (above) have the same
   class c, let t1 be the cut just after the last counted row below t of a class other than c, and t2
   the cut just before the first counted row above t of a class other than c (if there is no such row,
   a cut with an empty side).  All counted rows with value in (t1, t2] have class c, so the class-count
   vectors at t1, t, t2 lie on a line in direction e_c, and the concavity of Phi along that line gives
   F t >= min (F t1) (F t2) (`F_chord`).  A cut with an empty side has F = Phi(parent) >= F t' for
   every t' (superadditivity, `F_trivial`), and not both cuts are of that kind because the node is not
   pure.  The real cuts among t1, t2 are admissible boundary thresholds.
   Everything is derived from `Phi_concave` (weighted Jensen + homogeneity), which ProofsImpurity.v
   proves for Gini and ClassificationError (any lg2) and for Entropy with lg2 = ln / ln 2.
   Uses `classic` (existence of the extreme rows). *)
From Coq Require Import List Arith ZArith Bool Lia Reals Lra Permutation Sorted Classical_Prop.
From SC Require Import Base.Num C05.Model C05.ProofsGrow C05.ProofsReg C05.ProofsCls C05.ProofsEndToEnd C05.ProofsGrowFull C05.ProofsOpt
                       C05.ProofsOptCls C05.ProofsPure C05.ProofsImpurity.
Import ListNotations.
Open Scope R_scope.

(* a non-empty finite set of rows has a row of maximal / minimal value *)
Lemma argmax_ex (P : nat -> Prop) (f : nat -> R) n :
  (exists r, (r < n)%nat /\ P r) ->
  exists r, (r < n)%nat /\ P r /\ forall r', (r' < n)%nat -> P r' -> f r' <= f r.
Proof.
  induction n as [|n IH]; intros (r & Hr & HP); [lia|].
  destruct (classic (exists r, (r < n)%nat /\ P r)) as [E|NE].
  - destruct (IH E) as (m & Hm & Pm & Hmax).
    destruct (classic (P n)) as [Pn|NPn].
    + destruct (Rle_dec (f n) (f m)) as [Le|Gt].
      * exists m. split; [lia|]. split; [exact Pm|]. intros r' Hr' Pr'.
        destruct (Nat.eq_dec r' n) as [->|Ne]; [exact Le|apply Hmax; [lia|exact Pr']].
      * exists n. split; [lia|]. split; [exact Pn|]. intros r' Hr' Pr'.
        destruct (Nat.eq_dec r' n) as [->|Ne]; [lra|].
        assert (f r' <= f m) by (apply Hmax; [lia|exact Pr']). lra.
    + exists m. split; [lia|]. split; [exact Pm|]. intros r' Hr' Pr'.
      destruct (Nat.eq_dec r' n) as [->|Ne]; [contradiction|apply Hmax; [lia|exact Pr']].
  - assert (r = n) as ->.
    { destruct (Nat.eq_dec r n) as [e|ne]; [exact e|]. exfalso. apply NE. exists r. split; [lia|exact HP]. }
    exists n. split; [lia|]. split; [exact HP|]. intros r' Hr' Pr'.
    destruct (Nat.eq_dec r' n) as [->|Ne]; [lra|]. exfalso. apply NE. exists r'. split; [lia|exact Pr'].
Qed.
Lemma argmin_ex (P : nat -> Prop) (f : nat -> R) n :
  (exists r, (r < n)%nat /\ P r) ->
  exists r, (r < n)%nat /\ P r /\ forall r', (r' < n)%nat -> P r' -> f r <= f r'.
Proof.
  intros H. destruct (argmax_ex P (fun r => - f r) n H) as (r & A & B & C).
  exists r. split; [exact A|]. split; [exact B|]. intros r' Hr' Pr'. specialize (C r' Hr' Pr'). lra.
Qed.

Section Boundary.
  Variable lg2 : R -> R.
  Variable crit : criterion.
  Variable x : list (list R).
  Variable yi : list nat.
  Variable k : nat.
  Variable s : list nat.
  Variable j : nat.
  Let N := length x.
  Hypothesis yi_lt : forall r, (nth r yi 0 < k)%nat.
  Hypothesis Hl : length s = N.
  Hypothesis Conc : Phi_concave k lg2 crit.

  Local Notation w r := (nth r s 0%nat).
  Local Notation cls r := (nth r yi 0%nat).
  Local Notation Xj r := (X x j r).
  Local Notation PhiK := (Phi k lg2 crit).
  Local Notation rows := (seq 0 N).

  (* entries of the two parts of the split at t, class counts of a weight function, F *)
  Definition tpv (t : R) (r : nat) : nat := if Rleb (Xj r) t then w r else 0%nat.
  Definition fpv (t : R) (r : nat) : nat := if Rleb (Xj r) t then 0%nat else w r.
  Definition cvf (g : nat -> nat) (l : nat) : nat :=
    nsum (fun r => if (cls r =? l)%nat then g r else 0%nat) rows.
  Definition Fw (t : R) : R := PhiK (cvf (tpv t)) + PhiK (cvf (fpv t)).

  Lemma tp_nth t r : (r < N)%nat -> nth r (true_part ROps x s j (Some t)) 0%nat = tpv t r.
  Proof.
    intros Hr. rewrite nth_true_part by exact Hr. unfold goes_true, tpv. cbn [le_thr ROps oleb].
    fold (X x j r). destruct (0 <? w r)%nat eqn:Z; cbn [andb]; [reflexivity|].
    apply Nat.ltb_ge in Z. destruct (Rleb (Xj r) t); lia.
  Qed.
  Lemma fp_nth t r : (r < N)%nat -> nth r (false_part ROps x s j (Some t)) 0%nat = fpv t r.
  Proof.
    intros Hr. rewrite nth_false_part by exact Hr. unfold goes_true, fpv. cbn [le_thr ROps oleb].
    fold (X x j r). destruct (0 <? w r)%nat eqn:Z; cbn [andb]; [reflexivity|].
    apply Nat.ltb_ge in Z. destruct (Rleb (Xj r) t); lia.
  Qed.
  Lemma cv_tp t : cvec x yi k (true_part ROps x s j (Some t)) = map (cvf (tpv t)) (seq 0 k).
  Proof.
    unfold cvec, cvf. apply map_ext. intros c. apply nsum_ext. intros r Hr. apply in_seq in Hr.
    unfold ind. rewrite tp_nth by (unfold N; lia). reflexivity.
  Qed.
  Lemma cv_fp t : cvec x yi k (false_part ROps x s j (Some t)) = map (cvf (fpv t)) (seq 0 k).
  Proof.
    unfold cvec, cvf. apply map_ext. intros c. apply nsum_ext. intros r Hr. apply in_seq in Hr.
    unfold ind. rewrite fp_nth by (unfold N; lia). reflexivity.
  Qed.
  Lemma sum_tp t : sum_nat (true_part ROps x s j (Some t)) = nsum (tpv t) rows.
  Proof.
    rewrite (sum_nat_nsum _ N) by apply true_part_length. apply nsum_ext. intros r Hr. apply in_seq in Hr.
    apply tp_nth. lia.
  Qed.
  Lemma sum_fp t : sum_nat (false_part ROps x s j (Some t)) = nsum (fpv t) rows.
  Proof.
    rewrite (sum_nat_nsum _ N) by apply false_part_length. apply nsum_ext. intros r Hr. apply in_seq in Hr.
    apply fp_nth. lia.
  Qed.

  Lemma tot_cvf g : tot k (cvf g) = nsum g rows.
  Proof.
    unfold tot, cvf. generalize rows as rl. induction rl as [|a rl IH]; cbn [nsum].
    - apply nsum_zero. reflexivity.
    - rewrite nsum_plus, IH. f_equal. apply nsum_indicator. pose proof (yi_lt a). lia.
  Qed.

  Lemma gain_F t :
    cls_gain lg2 crit x yi k s j t =
    impurity ROps lg2 crit (cvec x yi k s) (sum_nat s) - Fw t / IZN (sum_nat s).
  Proof.
    unfold cls_gain. cbn zeta. rewrite cv_tp, cv_fp, sum_tp, sum_fp.
    unfold Fw, Phi. rewrite !tot_cvf. unfold Rdiv. ring.
  Qed.

  Lemma tpv_fpv t r : (tpv t r + fpv t r = w r)%nat.
  Proof. unfold tpv, fpv. destruct (Rleb (Xj r) t); lia. Qed.
  Lemma tpv_mono t t' r : t <= t' -> (tpv t r <= tpv t' r)%nat.
  Proof.
    intros H. unfold tpv. destruct (Rleb (Xj r) t) eqn:E1, (Rleb (Xj r) t') eqn:E2; try lia.
    apply Rleb_true in E1. apply Rleb_false in E2. lra.
  Qed.
  Lemma tpv_lt t t' r : (tpv t r < tpv t' r)%nat -> (0 < w r)%nat /\ t < Xj r /\ Xj r <= t'.
  Proof.
    unfold tpv. destruct (Rleb (Xj r) t) eqn:E1, (Rleb (Xj r) t') eqn:E2; try lia.
    intros H. apply Rleb_false in E1. apply Rleb_true in E2. split; [lia|]. split; assumption.
  Qed.
  Lemma fpv_sub t t' r : t <= t' -> (fpv t r - fpv t' r = tpv t' r - tpv t r)%nat.
  Proof. intros H. pose proof (tpv_fpv t r). pose proof (tpv_fpv t' r). pose proof (tpv_mono t t' r H). lia. Qed.

  Lemma cvf_shift g1 g2 c :
    (forall r, (r < N)%nat -> (g1 r <= g2 r)%nat) -> (forall r, (r < N)%nat -> (g1 r < g2 r)%nat -> cls r = c) ->
    forall l, cvf g2 l = (cvf g1 l + if (l =? c)%nat then nsum (fun r => g2 r - g1 r)%nat rows else 0)%nat.
  Proof.
    intros H1 H2 l. unfold cvf.
    assert (G : forall rl, (forall r, In r rl -> (r < N)%nat) ->
              nsum (fun r => if (cls r =? l)%nat then g2 r else 0%nat) rl =
              (nsum (fun r => if (cls r =? l)%nat then g1 r else 0%nat) rl +
               if (l =? c)%nat then nsum (fun r => g2 r - g1 r)%nat rl else 0)%nat).
    { induction rl as [|a rl IH]; intros Hin; cbn [nsum]; [destruct (l =? c)%nat; reflexivity|].
      rewrite IH by (intros r Hr; apply Hin; right; exact Hr).
      assert (Ha : (a < N)%nat) by (apply Hin; left; reflexivity).
      specialize (H1 a Ha). specialize (H2 a Ha).
      destruct (cls a =? l)%nat eqn:E; destruct (l =? c)%nat eqn:E'; try lia.
      - apply Nat.eqb_eq in E. apply Nat.eqb_neq in E'.
        destruct (Nat.eq_dec (g1 a) (g2 a)) as [e|ne]; [lia|]. exfalso. apply E'. rewrite <- E. apply H2. lia.
      - apply Nat.eqb_neq in E. apply Nat.eqb_eq in E'.
        destruct (Nat.eq_dec (g1 a) (g2 a)) as [e|ne]; [lia|]. exfalso. apply E. rewrite E'. apply H2. lia. }
    apply G. intros r Hr. apply in_seq in Hr. lia.
  Qed.

  Lemma Phi_le_of_eq f g : (forall l, (l < k)%nat -> g l = f l) -> PhiK f <= PhiK g.
  Proof.
    intros H. pose proof (Conc 1%nat 1%nat 0%nat g f f) as C. rewrite IZN_0, IZN_1 in C.
    assert (comb k 1%nat 1%nat 0%nat g f f) by (intros l Hlk; rewrite (H l Hlk); lia).
    specialize (C Nat.lt_0_1 H0). lra.
  Qed.
  Lemma Phi_zero f : (forall l, (l < k)%nat -> f l = 0%nat) -> PhiK f = 0.
  Proof.
    intros H. unfold Phi. assert (tot k f = 0%nat) as ->.
    { unfold tot. apply nsum_zero. intros l Hlk. apply in_seq in Hlk. apply H. lia. }
    rewrite IZN_0. ring.
  Qed.

  (* concavity along a run of one class *)
  Lemma F_chord t1 t t2 c : t1 <= t -> t <= t2 ->
    (forall r, (r < N)%nat -> (0 < w r)%nat -> t1 < Xj r -> Xj r <= t2 -> cls r = c) ->
    Rmin (Fw t1) (Fw t2) <= Fw t.
  Proof.
    intros H1 H2 Run.
    set (u := nsum (fun r => tpv t r - tpv t1 r)%nat rows).
    set (v := nsum (fun r => tpv t2 r - tpv t r)%nat rows).
    assert (A1 : forall l, cvf (tpv t) l = (cvf (tpv t1) l + if (l =? c)%nat then u else 0)%nat).
    { apply cvf_shift; [intros r _; apply tpv_mono; exact H1|].
      intros r Hr Hlt. apply tpv_lt in Hlt as (Hw & Ha & Hb). apply Run; auto. lra. }
    assert (A2 : forall l, cvf (tpv t2) l = (cvf (tpv t) l + if (l =? c)%nat then v else 0)%nat).
    { apply cvf_shift; [intros r _; apply tpv_mono; exact H2|].
      intros r Hr Hlt. apply tpv_lt in Hlt as (Hw & Ha & Hb). apply Run; auto. lra. }
    assert (B1 : forall l, cvf (fpv t1) l = (cvf (fpv t) l + if (l =? c)%nat then u else 0)%nat).
    { intros l. rewrite (cvf_shift (fpv t) (fpv t1) c).
      - destruct (l =? c)%nat; [|reflexivity]. f_equal. apply nsum_ext. intros r _. apply fpv_sub. exact H1.
      - intros r _. pose proof (tpv_fpv t r). pose proof (tpv_fpv t1 r). pose proof (tpv_mono t1 t r H1). lia.
      - intros r Hr Hlt. assert (Hlt' : (tpv t1 r < tpv t r)%nat).
        { pose proof (tpv_fpv t r). pose proof (tpv_fpv t1 r). lia. }
        apply tpv_lt in Hlt' as (Hw & Ha & Hb). apply Run; auto. lra. }
    assert (B2 : forall l, cvf (fpv t) l = (cvf (fpv t2) l + if (l =? c)%nat then v else 0)%nat).
    { intros l. rewrite (cvf_shift (fpv t2) (fpv t) c).
      - destruct (l =? c)%nat; [|reflexivity]. f_equal. apply nsum_ext. intros r _. apply fpv_sub. exact H2.
      - intros r _. pose proof (tpv_fpv t r). pose proof (tpv_fpv t2 r). pose proof (tpv_mono t t2 r H2). lia.
      - intros r Hr Hlt. assert (Hlt' : (tpv t r < tpv t2 r)%nat).
        { pose proof (tpv_fpv t r). pose proof (tpv_fpv t2 r). lia. }
        apply tpv_lt in Hlt' as (Hw & Ha & Hb). apply Run; auto. lra. }
    destruct (Nat.eq_dec (u + v) 0) as [Z|NZ].
    - (* the three cuts coincide *)
      assert (u = 0%nat) by lia. assert (v = 0%nat) by lia.
      assert (PhiK (cvf (tpv t1)) <= PhiK (cvf (tpv t))).
      { apply Phi_le_of_eq. intros l _. rewrite A1, H. destruct (l =? c)%nat; lia. }
      assert (PhiK (cvf (fpv t1)) <= PhiK (cvf (fpv t))).
      { apply Phi_le_of_eq. intros l _. rewrite B1, H. destruct (l =? c)%nat; lia. }
      pose proof (Rmin_l (Fw t1) (Fw t2)). unfold Fw in *. lra.
    - assert (HW : (0 < u + v)%nat) by lia.
      assert (CT : comb k (u + v) v u (cvf (tpv t)) (cvf (tpv t1)) (cvf (tpv t2))).
      { intros l _. rewrite A2, A1. destruct (l =? c)%nat; lia. }
      assert (CF : comb k (u + v) v u (cvf (fpv t)) (cvf (fpv t1)) (cvf (fpv t2))).
      { intros l _. rewrite B1, B2. destruct (l =? c)%nat; lia. }
      pose proof (Conc _ _ _ _ _ _ HW CT) as IT. pose proof (Conc _ _ _ _ _ _ HW CF) as IF.
      rewrite IZN_plus in IT, IF.
      pose proof (Rmin_l (Fw t1) (Fw t2)) as M1. pose proof (Rmin_r (Fw t1) (Fw t2)) as M2.
      set (m := Rmin (Fw t1) (Fw t2)) in *.
      pose proof (IZN_nonneg u) as Pu. pose proof (IZN_nonneg v) as Pv.
      assert (Pos : 0 < IZN u + IZN v) by (rewrite <- IZN_plus; apply IZN_pos; exact HW).
      assert (IZN v * m <= IZN v * Fw t1) by (apply Rmult_le_compat_l; assumption).
      assert (IZN u * m <= IZN u * Fw t2) by (apply Rmult_le_compat_l; assumption).
      apply Rmult_le_reg_l with (IZN u + IZN v); [exact Pos|]. unfold Fw in *. lra.
  Qed.

  (* a cut with an empty side is at least as bad as every cut *)
  Lemma F_trivial t0 t' : nsum (tpv t0) rows = 0%nat \/ nsum (fpv t0) rows = 0%nat -> Fw t' <= Fw t0.
  Proof.
    intros E.
    assert (Sup : Fw t' <= PhiK (cvf (fun r => w r))).
    { pose proof (Conc 1%nat 1%nat 1%nat (cvf (fun r => w r)) (cvf (tpv t')) (cvf (fpv t'))) as C.
      rewrite IZN_1 in C. unfold Fw.
      assert (comb k 1%nat 1%nat 1%nat (cvf (fun r => w r)) (cvf (tpv t')) (cvf (fpv t'))).
      { intros l _. unfold cvf. rewrite !Nat.mul_1_l, <- nsum_plus. apply nsum_ext. intros r _.
        pose proof (tpv_fpv t' r). destruct (cls r =? l)%nat; lia. }
      specialize (C Nat.lt_0_1 H). lra. }
    destruct E as [E|E].
    - assert (Z : PhiK (cvf (tpv t0)) = 0).
      { apply Phi_zero. intros l _. unfold cvf. apply nsum_zero. intros r Hr.
        rewrite (nsum_eq0 _ _ E r Hr). destruct (cls r =? l)%nat; reflexivity. }
      assert (PhiK (cvf (fun r => w r)) <= PhiK (cvf (fpv t0))).
      { apply Phi_le_of_eq. intros l _. unfold cvf. apply nsum_ext. intros r Hr.
        pose proof (nsum_eq0 _ _ E r Hr). pose proof (tpv_fpv t0 r). cbn beta in *.
        destruct (cls r =? l)%nat; lia. }
      unfold Fw at 2. lra.
    - assert (Z : PhiK (cvf (fpv t0)) = 0).
      { apply Phi_zero. intros l _. unfold cvf. apply nsum_zero. intros r Hr.
        rewrite (nsum_eq0 _ _ E r Hr). destruct (cls r =? l)%nat; reflexivity. }
      assert (PhiK (cvf (fun r => w r)) <= PhiK (cvf (tpv t0))).
      { apply Phi_le_of_eq. intros l _. unfold cvf. apply nsum_ext. intros r Hr.
        pose proof (nsum_eq0 _ _ E r Hr). pose proof (tpv_fpv t0 r). cbn beta in *.
        destruct (cls r =? l)%nat; lia. }
      unfold Fw at 2. lra.
  Qed.

  (* admissibility (min_samples_leaf = 1) in terms of rows *)
  Lemma adm_of_rows t ra rb : (ra < N)%nat -> (rb < N)%nat -> (0 < w ra)%nat -> (0 < w rb)%nat ->
    Xj ra <= t -> t < Xj rb -> adm x 1 s j t.
  Proof.
    intros Ha Hb Wa Wb Xa Xb. unfold adm. rewrite sum_tp, sum_fp.
    assert (In ra rows) by (apply in_seq; lia). assert (In rb rows) by (apply in_seq; lia).
    pose proof (nsum_in_le (tpv t) rows ra H). pose proof (nsum_in_le (fpv t) rows rb H0).
    assert (Ea : tpv t ra = w ra) by (unfold tpv; rewrite (proj2 (Rleb_true _ _) Xa); reflexivity).
    assert (Eb : fpv t rb = w rb) by (unfold fpv; rewrite (proj2 (Rleb_false _ _) Xb); reflexivity).
    lia.
  Qed.
  Lemma rows_of_adm t : adm x 1 s j t ->
    (exists ra, (ra < N)%nat /\ (0 < w ra)%nat /\ Xj ra <= t) /\
    (exists rb, (rb < N)%nat /\ (0 < w rb)%nat /\ t < Xj rb).
  Proof.
    unfold adm. rewrite sum_tp, sum_fp. intros (A1 & A2 & _). split.
    - destruct (nsum_pos_ex (tpv t) rows) as (r & Hr & Hp); [lia|]. apply in_seq in Hr. exists r.
      unfold tpv in Hp. destruct (Rleb (Xj r) t) eqn:E; [|lia]. apply Rleb_true in E. repeat split; [lia|lia|exact E].
    - destruct (nsum_pos_ex (fpv t) rows) as (r & Hr & Hp); [lia|]. apply in_seq in Hr. exists r.
      unfold fpv in Hp. destruct (Rleb (Xj r) t) eqn:E; [lia|]. apply Rleb_false in E. repeat split; [lia|lia|exact E].
  Qed.

  Hypothesis Dj : distinct_feature x j.

  (* the cut below t: just after the last counted row <= t of a class other than c *)
  Lemma lo_side t c r1 :
    (r1 < N)%nat -> (0 < w r1)%nat -> Xj r1 <= t ->
    (forall r, (r < N)%nat -> (0 < w r)%nat /\ Xj r <= t -> Xj r <= Xj r1) -> cls r1 = c ->
    exists t1, t1 <= t /\
      (forall r, (r < N)%nat -> (0 < w r)%nat -> t1 < Xj r -> Xj r <= t -> cls r = c) /\
      ((adm x 1 s j t1 /\ boundary x yi s j t1) \/
       ((forall t', Fw t' <= Fw t1) /\ forall r, (r < N)%nat -> (0 < w r)%nat -> Xj r <= t -> cls r = c)).
  Proof.
    intros H1 W1 X1 Max1 C1.
    destruct (classic (exists r, (r < N)%nat /\ ((0 < w r)%nat /\ Xj r <= t /\ cls r <> c))) as [E|NE].
    - destruct (argmax_ex _ (fun r => Xj r) N E) as (L & HL & (WL & XL & CL) & MaxL).
      assert (Run : forall r, (r < N)%nat -> (0 < w r)%nat -> Xj L < Xj r -> Xj r <= t -> cls r = c).
      { intros r Hr Wr Ha Hb. destruct (Nat.eq_dec (cls r) c) as [e|ne]; [exact e|]. exfalso.
        assert (Xj r <= Xj L) by (apply MaxL; [exact Hr|repeat split; assumption]). lra. }
      exists (Xj L). split; [exact XL|]. split; [exact Run|]. left.
      assert (Lt1 : Xj L < Xj r1).
      { assert (Xj L <= Xj r1) by (apply Max1; [exact HL|split; assumption]).
        destruct (Req_dec (Xj L) (Xj r1)) as [e|ne]; [|lra]. exfalso. apply CL.
        rewrite (Dj L r1 HL H1 e). exact C1. }
      split; [apply (adm_of_rows (Xj L) L r1); auto; lra|].
      destruct (argmin_ex (fun r => (0 < w r)%nat /\ Xj L < Xj r) (fun r => Xj r) N) as (r2 & H2 & (W2 & X2) & Min2).
      { exists r1. split; [exact H1|]. split; assumption. }
      exists L, r2. split; [exact HL|]. split; [exact H2|]. split; [exact WL|]. split; [exact W2|].
      split; [lra|]. split; [exact X2|]. split.
      + intros r Hr Wr. destruct (Rle_or_lt (Xj r) (Xj L)) as [a|b]; [left; exact a|right].
        apply Min2; [exact Hr|split; assumption].
      + assert (Xj r2 <= Xj r1) by (apply Min2; [exact H1|split; assumption]).
        rewrite (Run r2 H2 W2 X2) by lra. exact CL.
    - assert (All : forall r, (r < N)%nat -> (0 < w r)%nat -> Xj r <= t -> cls r = c).
      { intros r Hr Wr Xr. destruct (Nat.eq_dec (cls r) c) as [e|ne]; [exact e|]. exfalso. apply NE.
        exists r. repeat split; assumption. }
      destruct (argmin_ex (fun r => (0 < w r)%nat) (fun r => Xj r) N) as (r0 & H0 & W0 & Min0).
      { exists r1. split; assumption. }
      assert (Xj r0 <= Xj r1) by (apply Min0; assumption).
      exists (Xj r0 - 1). split; [lra|]. split; [intros r Hr Wr _ Xr; apply All; assumption|].
      right. split; [|exact All]. intros t'. apply F_trivial. left.
      apply nsum_zero. intros r Hr. apply in_seq in Hr. unfold tpv.
      destruct (Rleb (Xj r) (Xj r0 - 1)) eqn:Er; [|reflexivity]. apply Rleb_true in Er.
      destruct (Nat.eq_dec (w r) 0) as [e|ne]; [exact e|]. exfalso.
      assert (Xj r0 <= Xj r) by (apply Min0; lia). lra.
  Qed.

  (* the cut above t: just before the first counted row > t of a class other than c *)
  Lemma hi_side t c r2 :
    (r2 < N)%nat -> (0 < w r2)%nat -> t < Xj r2 ->
    (forall r, (r < N)%nat -> (0 < w r)%nat /\ t < Xj r -> Xj r2 <= Xj r) -> cls r2 = c ->
    exists t2, t <= t2 /\
      (forall r, (r < N)%nat -> (0 < w r)%nat -> t < Xj r -> Xj r <= t2 -> cls r = c) /\
      ((adm x 1 s j t2 /\ boundary x yi s j t2) \/
       ((forall t', Fw t' <= Fw t2) /\ forall r, (r < N)%nat -> (0 < w r)%nat -> t < Xj r -> cls r = c)).
  Proof.
    intros H2 W2 X2 Min2 C2.
    destruct (classic (exists r, (r < N)%nat /\ ((0 < w r)%nat /\ t < Xj r /\ cls r <> c))) as [E|NE].
    - destruct (argmin_ex _ (fun r => Xj r) N E) as (H & HH & (WH & XH & CH) & MinH).
      assert (Lt2 : Xj r2 < Xj H).
      { assert (Xj r2 <= Xj H) by (apply Min2; [exact HH|split; assumption]).
        destruct (Req_dec (Xj r2) (Xj H)) as [e|ne]; [|lra]. exfalso. apply CH.
        rewrite <- (Dj r2 H H2 HH e). exact C2. }
      destruct (argmax_ex (fun r => (0 < w r)%nat /\ Xj r < Xj H) (fun r => Xj r) N) as (m & Hm & (Wm & Xm) & Maxm).
      { exists r2. split; [exact H2|]. split; assumption. }
      assert (Xj r2 <= Xj m) by (apply Maxm; [exact H2|split; assumption]).
      assert (Run : forall r, (r < N)%nat -> (0 < w r)%nat -> t < Xj r -> Xj r <= Xj m -> cls r = c).
      { intros r Hr Wr Ha Hb. destruct (Nat.eq_dec (cls r) c) as [e|ne]; [exact e|]. exfalso.
        assert (Xj H <= Xj r) by (apply MinH; [exact Hr|repeat split; assumption]). lra. }
      exists (Xj m). split; [lra|]. split; [exact Run|]. left.
      split; [apply (adm_of_rows (Xj m) m H); auto; lra|].
      exists m, H. split; [exact Hm|]. split; [exact HH|]. split; [exact Wm|]. split; [exact WH|].
      split; [lra|]. split; [exact Xm|]. split.
      + intros r Hr Wr. destruct (Rle_or_lt (Xj H) (Xj r)) as [a|b]; [right; exact a|left].
        apply Maxm; [exact Hr|split; assumption].
      + rewrite (Run m Hm Wm) by lra. intros e. apply CH. symmetry. exact e.
    - assert (All : forall r, (r < N)%nat -> (0 < w r)%nat -> t < Xj r -> cls r = c).
      { intros r Hr Wr Xr. destruct (Nat.eq_dec (cls r) c) as [e|ne]; [exact e|]. exfalso. apply NE.
        exists r. repeat split; assumption. }
      destruct (argmax_ex (fun r => (0 < w r)%nat) (fun r => Xj r) N) as (r0 & H0 & W0 & Max0).
      { exists r2. split; assumption. }
      assert (Xj r2 <= Xj r0) by (apply Max0; assumption).
      exists (Xj r0). split; [lra|]. split; [intros r Hr Wr Xr _; apply All; assumption|].
      right. split; [|exact All]. intros t'. apply F_trivial. right.
      apply nsum_zero. intros r Hr. apply in_seq in Hr. unfold fpv.
      destruct (Rleb (Xj r) (Xj r0)) eqn:Er; [reflexivity|]. apply Rleb_false in Er.
      destruct (Nat.eq_dec (w r) 0) as [e|ne]; [exact e|]. exfalso.
      assert (Xj r <= Xj r0) by (apply Max0; lia). lra.
  Qed.

  Lemma gain_le_of_F t t' : (0 < sum_nat s)%nat -> Fw t' <= Fw t ->
    cls_gain lg2 crit x yi k s j t <= cls_gain lg2 crit x yi k s j t'.
  Proof.
    intros Hn H. rewrite !gain_F.
    assert (0 < / IZN (sum_nat s)) by (apply Rinv_0_lt_compat; apply IZN_pos; exact Hn).
    assert (Fw t' / IZN (sum_nat s) <= Fw t / IZN (sum_nat s)) by (unfold Rdiv; apply Rmult_le_compat_r; lra).
    lra.
  Qed.

  Lemma boundary_point t : is_pure x yi s = false -> adm x 1 s j t ->
    exists t', adm x 1 s j t' /\ boundary x yi s j t' /\
               cls_gain lg2 crit x yi k s j t <= cls_gain lg2 crit x yi k s j t'.
  Proof.
    intros Np Ha. destruct (rows_of_adm t Ha) as [Ea Eb].
    destruct (argmax_ex (fun r => (0 < w r)%nat /\ Xj r <= t) (fun r => Xj r) N Ea) as (r1 & H1 & (W1 & X1) & Max1).
    destruct (argmin_ex (fun r => (0 < w r)%nat /\ t < Xj r) (fun r => Xj r) N Eb) as (r2 & H2 & (W2 & X2) & Min2).
    assert (Hn : (0 < sum_nat s)%nat).
    { rewrite (sum_nat_nsum s N Hl). assert (In r1 rows) by (apply in_seq; lia).
      pose proof (nsum_in_le (fun r => w r) rows r1 H). cbn beta in H0. lia. }
    destruct (Nat.eq_dec (cls r1) (cls r2)) as [Ec|Nc].
    2:{ exists t. split; [exact Ha|]. split; [|apply Rle_refl].
        exists r1, r2. repeat split; try assumption.
        intros r Hr Wr. destruct (Rle_or_lt (Xj r) t) as [a|b]; [left; apply Max1|right; apply Min2]; auto. }
    destruct (lo_side t (cls r1) r1 H1 W1 X1 Max1 eq_refl) as (t1 & T1 & Run1 & Lo).
    destruct (hi_side t (cls r1) r2 H2 W2 X2 Min2 (eq_sym Ec)) as (t2 & T2 & Run2 & Hi).
    assert (Run : forall r, (r < N)%nat -> (0 < w r)%nat -> t1 < Xj r -> Xj r <= t2 -> cls r = cls r1).
    { intros r Hr Wr A B. destruct (Rle_or_lt (Xj r) t) as [a|b]; [apply Run1|apply Run2]; assumption. }
    pose proof (F_chord t1 t t2 (cls r1) T1 T2 Run) as Ch.
    destruct Lo as [[A1 B1]|[Tr1 All1]]; destruct Hi as [[A2 B2]|[Tr2 All2]].
    - destruct (Rle_dec (Fw t1) (Fw t2)) as [Le|Gt].
      + rewrite Rmin_left in Ch by exact Le. exists t1. split; [exact A1|]. split; [exact B1|].
        apply gain_le_of_F; assumption.
      + rewrite Rmin_right in Ch by lra. exists t2. split; [exact A2|]. split; [exact B2|].
        apply gain_le_of_F; assumption.
    - rewrite Rmin_left in Ch by apply Tr2. exists t1. split; [exact A1|]. split; [exact B1|].
      apply gain_le_of_F; assumption.
    - rewrite Rmin_right in Ch by apply Tr1. exists t2. split; [exact A2|]. split; [exact B2|].
      apply gain_le_of_F; assumption.
    - exfalso. destruct (proj2 (is_pure_spec x yi s) Np) as (ra & rb & Hra & Hrb & Wa & Wb & Ne).
      assert (Ca : cls ra = cls r1).
      { destruct (Rle_or_lt (Xj ra) t) as [a|b]; [apply All1|apply All2]; assumption. }
      assert (Cb : cls rb = cls r1).
      { destruct (Rle_or_lt (Xj rb) t) as [a|b]; [apply All1|apply All2]; assumption. }
      congruence.
  Qed.
End Boundary.

(* ---------- the property isolated in ProofsOptCls.v, for each criterion ---------- *)
Lemma boundary_point_of_concave lg2 crit :
  (forall k, Phi_concave k lg2 crit) -> boundary_point_property lg2 crit.
Proof.
  intros C x yi k s j t Hlt Hy Hs Dj Np Ha.
  exact (boundary_point lg2 crit x yi k s j Hlt Hs (C k) Dj t Np Ha).
Qed.

Lemma boundary_point_gini lg2 : boundary_point_property lg2 Gini.
Proof. apply boundary_point_of_concave. intros k. apply Phi_conc_gini. Qed.
Lemma boundary_point_clserr lg2 : boundary_point_property lg2 ClassificationError.
Proof. apply boundary_point_of_concave. intros k. apply Phi_conc_clserr. Qed.
Lemma boundary_point_entropy : boundary_point_property lg2r Entropy.
Proof. apply boundary_point_of_concave. intros k. apply Phi_conc_entropy. Qed.
Lemma boundary_point_all crit : boundary_point_property lg2r crit.
Proof. destruct crit; [apply boundary_point_gini|apply boundary_point_entropy|apply boundary_point_clserr]. Qed.

(* ---------- the full greedy-optimality clause of the classification tree ---------- *)
Lemma classification_split_greedy_optimal crit x yi k samples order md mss nodes d :
  length yi = length x -> length samples = length x -> (forall r, (nth r yi 0 < k)%nat) ->
  (forall j, (j < length (hd [] x))%nat -> sorted_order x j (nth j order [])) ->
  (forall j, (j < length (hd [] x))%nat -> distinct_feature x j) ->
  fit_classifier_with_order ROps lg2r crit x yi k samples (fun _ => seq 0 (length (hd [] x))) order md 1 mss
    = Some (nodes, d) ->
  exists G D, tree_consistent ROps 0%nat x 1 (cls_out_ok x yi k) samples nodes G D /\
    forall n, (n < length nodes)%nat -> leafb (nth n nodes (dnode 0%nat)) = false ->
      forall t0, split_value (nth n nodes (dnode 0%nat)) = Some t0 ->
        adm x 1 (G n) (split_feature (nth n nodes (dnode 0%nat))) t0 /\
        forall j t, (j < length (hd [] x))%nat -> adm x 1 (G n) j t ->
          cls_gain lg2r crit x yi k (G n) j t <=
          cls_gain lg2r crit x yi k (G n) (split_feature (nth n nodes (dnode 0%nat))) t0.
Proof. exact (classification_split_optimal_conditional lg2r crit (boundary_point_all crit) x yi k samples order md mss nodes d). Qed.

(* the same for DecisionTreeClassifier::fit (class indices and orders computed by the model) *)
Lemma classification_split_greedy_optimal_fit crit x y md mss classes nodes d :
  length y = length x ->
  (forall j, (j < length (hd [] x))%nat -> distinct_feature x j) ->
  fit_classifier ROps lg2r crit x y md 1 mss = Some (classes, nodes, d) ->
  exists yi, length yi = length x /\
    (forall i, (i < length x)%nat -> (nth i yi 0 < length classes)%nat /\ nth (nth i yi 0%nat) classes 0 = nth i y 0) /\
    exists G D, tree_consistent ROps 0%nat x 1 (cls_out_ok x yi (length classes)) (repeat 1%nat (length x)) nodes G D /\
      forall n, (n < length nodes)%nat -> leafb (nth n nodes (dnode 0%nat)) = false ->
        forall t0, split_value (nth n nodes (dnode 0%nat)) = Some t0 ->
          adm x 1 (G n) (split_feature (nth n nodes (dnode 0%nat))) t0 /\
          forall j t, (j < length (hd [] x))%nat -> adm x 1 (G n) j t ->
            cls_gain lg2r crit x yi (length classes) (G n) j t <=
            cls_gain lg2r crit x yi (length classes) (G n) (split_feature (nth n nodes (dnode 0%nat))) t0.
Proof.
  intros Hy Hdist H. unfold fit_classifier in H.
  apply fit_classifier_weak_orders in H as (_ & K2 & yi & order & Ly & Py & Ho & H).
  rewrite Hy in Ly, Py. exists yi. split; [exact Ly|]. split; [exact Py|].
  assert (Hlt : forall r, (nth r yi 0 < length classes)%nat).
  { intros r. destruct (Nat.lt_ge_cases r (length x)) as [A|A]; [apply Py; exact A|].
    rewrite nth_overflow by lia. lia. }
  exact (classification_split_greedy_optimal crit x yi (length classes) _ order md mss nodes d Ly
           (repeat_length 1%nat (length x)) Hlt Ho Hdist H).
Qed.

(* completeness of the growth for min_samples_leaf = 1: without a depth limit an impure node holding more
   than min_samples_split rows stays a leaf only if NO admissible threshold exists *)
Lemma classification_growth_complete crit x yi k samples order mss nodes d :
  length yi = length x -> length samples = length x -> (forall r, (nth r yi 0 < k)%nat) ->
  (forall j, (j < length (hd [] x))%nat -> sorted_order x j (nth j order [])) ->
  (forall j, (j < length (hd [] x))%nat -> distinct_feature x j) ->
  fit_classifier_with_order ROps lg2r crit x yi k samples (fun _ => seq 0 (length (hd [] x))) order None 1 mss
    = Some (nodes, d) ->
  (length nodes < 65535)%nat ->
  exists G D, tree_consistent ROps 0%nat x 1 (cls_out_ok x yi k) samples nodes G D /\
    forall n, (n < length nodes)%nat -> leafb (nth n nodes (dnode 0%nat)) = true ->
      is_pure x yi (G n) = false -> (mss < sum_nat (G n))%nat ->
      forall j t, (j < length (hd [] x))%nat -> ~ adm x 1 (G n) j t.
Proof.
  intros Hy Hs Hlt Hord Hdist H Hlen.
  destruct (classification_growth_boundary_complete lg2r crit x yi k samples order 1 mss Hy Hs Hlt Hord Hdist nodes d H Hlen)
    as (G & D & C & Comp).
  exists G, D. split; [exact C|]. intros n Hn L Np Hm j t Hj Ha.
  destruct (tc_out _ _ _ _ _ _ _ _ _ C n Hn) as [Hl _].
  destruct (boundary_point_all crit x yi k (G n) j t Hlt Hy Hl (Hdist j Hj) Np Ha) as (t' & Ha' & Hb' & _).
  exact (Comp n Hn L Np Hm j t' Hj Ha' Hb').
Qed.
