(* C05 — greedy optimality and completeness of the regression tree's split search (exact reals).

   `sse_red s j t` is the reduction in squared error obtained by splitting the rows counted by s at
   (feature j, threshold t); `adm s j t` says the split leaves >= min_samples_leaf (and > 0) counted
   rows on both sides.  For a sorted order of feature j, every admissible real threshold t induces the
   same partition as the midpoint candidate the sweep examines at the first counted row whose value
   exceeds t, so the sweep's running best (strict improvement only) dominates every admissible
   (feature, threshold) pair once all tried features are swept; and if the search returns nothing,
   no admissible pair exists. *)
From Coq Require Import List Arith ZArith Bool Lia Reals Lra Permutation Sorted Classical_Prop.
From SC Require Import Base.Num C05.Model C05.ProofsGrow C05.ProofsReg C05.ProofsGrowFull.
Import ListNotations.
Open Scope R_scope.

Lemma nsum_pos_ex f l : (0 < nsum f l)%nat -> exists r, In r l /\ (0 < f r)%nat.
Proof.
  induction l as [|a t IH]; cbn [nsum]; intros H; [lia|].
  destruct (f a) eqn:E.
  - destruct IH as (r & Hr & Hp); [lia|]. exists r. split; [right; exact Hr|exact Hp].
  - exists a. split; [left; reflexivity|lia].
Qed.
Lemma nsum_le_total f l r : In r l -> (f r <= nsum f l)%nat.
Proof. induction l as [|a t IH]; cbn [nsum]; intros H; [destruct H|]. destruct H as [->|H]; [lia|]. specialize (IH H). lia. Qed.

Section RegOpt.
  Variable x : list (list R).
  Variable y : list R.
  Variable msl : nat.
  Let N := length x.
  Local Notation W := (wsum x y).
  Local Notation w s r := (nth r s 0%nat).

  Definition qsum (s : list nat) : R := rsum (fun i => IZN (nth i s 0%nat) * Y y i * Y y i) (seq 0 N).
  Definition sse (s : list nat) : R :=
    rsum (fun i => IZN (nth i s 0%nat) * (Y y i - W s / IZN (sum_nat s)) * (Y y i - W s / IZN (sum_nat s))) (seq 0 N).
  Definition sse_red (s : list nat) (j : nat) (t : R) : R :=
    sse s - sse (true_part ROps x s j (Some t)) - sse (false_part ROps x s j (Some t)).
  Definition adm (s : list nat) (j : nat) (t : R) : Prop :=
    (msl <= sum_nat (true_part ROps x s j (Some t)) /\ msl <= sum_nat (false_part ROps x s j (Some t)) /\
     0 < sum_nat (true_part ROps x s j (Some t)) /\ 0 < sum_nat (false_part ROps x s j (Some t)))%nat.

  Lemma IZN_sum s : length s = N -> IZN (sum_nat s) = rsum (fun i => IZN (nth i s 0%nat)) (seq 0 N).
  Proof. intros Hl. rewrite (sum_nat_nsum s N Hl). apply IZN_nsum. Qed.

  Lemma sse_expand s : length s = N -> (0 < sum_nat s)%nat -> sse s = qsum s - W s * W s / IZN (sum_nat s).
  Proof.
    intros Hl Hp. unfold sse. set (m := W s / IZN (sum_nat s)).
    assert (G : forall l, rsum (fun i => IZN (nth i s 0%nat) * (Y y i - m) * (Y y i - m)) l =
                          rsum (fun i => IZN (nth i s 0%nat) * Y y i * Y y i) l
                          - 2 * m * rsum (fun i => IZN (nth i s 0%nat) * Y y i) l
                          + m * m * rsum (fun i => IZN (nth i s 0%nat)) l).
    { induction l as [|a l IH]; cbn [rsum]; [ring|]. rewrite IH. ring. }
    rewrite G. rewrite <- (IZN_sum s Hl). fold N. change (rsum (fun i => IZN (nth i s 0%nat) * Y y i) (seq 0 N)) with (W s).
    unfold qsum, m. field. apply Rgt_not_eq. apply IZN_pos. exact Hp.
  Qed.

  Lemma qsum_split s j thr :
    qsum s = qsum (true_part ROps x s j thr) + qsum (false_part ROps x s j thr).
  Proof.
    unfold qsum. rewrite <- rsum_plus. apply rsum_ext. intros r Hr. apply in_seq in Hr.
    rewrite false_part_nth by (fold N; lia). pose proof (true_part_le x s j thr r) as Hle. fold N in Hle.
    rewrite IZN_sub by lia. ring.
  Qed.

  (* the reduction as a function of the count and weighted sum of the true side *)
  Definition red_val (np : nat) (Wp : R) (s : list nat) : R :=
    Wp * Wp / IZN np + (W s - Wp) * (W s - Wp) / IZN (sum_nat s - np) - W s * W s / IZN (sum_nat s).

  Lemma red_formula s j thr np Wp : length s = N ->
    sum_nat (true_part ROps x s j (Some thr)) = np -> W (true_part ROps x s j (Some thr)) = Wp ->
    (sum_nat (false_part ROps x s j (Some thr)) + sum_nat (true_part ROps x s j (Some thr)) = sum_nat s)%nat ->
    W (false_part ROps x s j (Some thr)) = W s - W (true_part ROps x s j (Some thr)) ->
    (0 < np)%nat -> (np < sum_nat s)%nat ->
    sse_red s j thr = red_val np Wp s.
  Proof.
    intros Hl T1 T2 T3 T4 H0 H1. unfold sse_red, red_val.
    rewrite (sse_expand s Hl) by lia.
    rewrite (sse_expand (true_part ROps x s j (Some thr))) by (rewrite ?true_part_length; fold N; auto; lia).
    rewrite (sse_expand (false_part ROps x s j (Some thr))) by (rewrite ?false_part_length; fold N; auto; lia).
    rewrite (qsum_split s j (Some thr)). rewrite T4, T2, T1.
    replace (sum_nat (false_part ROps x s j (Some thr))) with (sum_nat s - np)%nat by lia.
    unfold Rdiv. ring.
  Qed.

  Definition best_valid (s : list nat) (b : option (cand R R)) : Prop :=
    match b with
    | None => True
    | Some c => adm s (c_feat c) (c_val c) /\ c_score c = sse_red s (c_feat c) (c_val c)
    end.
  Definition dom (s : list nat) (b : option (cand R R)) (Cov : nat -> R -> Prop) : Prop :=
    forall j t, Cov j t -> adm s j t -> exists c, b = Some c /\ sse_red s j t <= c_score c.
  (* thresholds of feature j whose first counted row above them lies in `pre` *)
  Definition seen (s : list nat) (j : nat) (pre : list nat) (t : R) : Prop :=
    exists r, In r pre /\ (0 < nth r s 0)%nat /\ t < X x j r.

  Lemma reg_step_opt s out j ord pre i suf st (Cov : nat -> R -> Prop) :
    sorted_order x j ord -> ord = pre ++ i :: suf -> length s = N -> mean_ok x y s out ->
    sweep_inv x y s j pre st -> best_valid s (rs_best st) ->
    dom s (rs_best st) (fun j' t => Cov j' t \/ (j' = j /\ seen s j pre t)) ->
    let st' := reg_step ROps x y msl s (sum_nat s) (out * IZN (sum_nat s)) (IZN (sum_nat s) * out * out) j st i in
    best_valid s (rs_best st') /\
    dom s (rs_best st') (fun j' t => Cov j' t \/ (j' = j /\ seen s j (pre ++ [i]) t)).
  Proof.
    intros HS E Hl Hout (I1 & I2 & I3 & I4) BV DM. cbn zeta.
    pose proof HS as [P SS]. rewrite E in SS. apply StronglySorted_mid in SS as [Pre _].
    rewrite Forall_forall in Pre.
    unfold reg_step. destruct (0 <? nth i s 0)%nat eqn:Z.
    2:{ apply Nat.ltb_ge in Z. split; [exact BV|]. intros j' t [C|[-> (r & Hr & Hw & Ht)]] Ha.
        - apply DM; auto.
        - apply in_app_or in Hr as [Hr|[<-|[]]]; [|lia]. apply DM; [right; split; [reflexivity|]|exact Ha].
          exists r. auto. }
    apply Nat.ltb_lt in Z.
    (* thresholds whose first counted row above them is i *)
    set (NewT := fun t => adm s j t /\ (forall r, In r pre -> (0 < nth r s 0)%nat -> X x j r <= t) /\ t < X x j i).
    assert (Hns : (0 < sum_nat s)%nat).
    { rewrite (sum_nat_nsum s N Hl), (nsum_order x j ord _ HS), E, nsum_app. cbn [nsum]. lia. }
    assert (HW : W s = out * IZN (sum_nat s)) by (symmetry; apply Hout; assumption).
    assert (NF : forall t, NewT t ->
              (0 < rs_cnt st /\ msl <= rs_cnt st /\ msl <= sum_nat s - rs_cnt st /\ rs_cnt st < sum_nat s)%nat /\
              sse_red s j t = red_val (rs_cnt st) (rs_sum st) s /\
              forall px, rs_prev st = Some px -> px <= t).
    { intros t (Ha & Hp & Ht).
      destruct (split_sums x y s j ord pre i suf t t HS E Hl Hp (Rle_refl t) Ht) as (T1 & T2 & T3 & T4).
      destruct Ha as (A1 & A2 & A3 & A4). rewrite <- I2 in T1. rewrite <- I1 in T2.
      split; [lia|]. split.
      - apply (red_formula s j t (rs_cnt st) (rs_sum st) Hl T1 T2 T3 T4); lia.
      - intros px Epx. rewrite Epx in I3. destruct I3 as [(r0 & Hr0 & Hw0 & <-) _]. apply Hp; assumption. }
    (* a covered pair is either covered before, or new *)
    assert (Split : forall j' t, (Cov j' t \/ (j' = j /\ seen s j (pre ++ [i]) t)) ->
              (Cov j' t \/ (j' = j /\ seen s j pre t)) \/ (j' = j /\ (adm s j t -> NewT t))).
    { intros j' t [C|[-> (r & Hr & Hw & Ht)]]; [left; left; exact C|].
      destruct (classic (seen s j pre t)) as [Sn|Ns]; [left; right; auto|].
      right. split; [reflexivity|]. intros Ha. split; [exact Ha|]. split.
      - intros r' Hr' Hw'. apply Rnot_lt_le. intros Hlt. apply Ns. exists r'. auto.
      - apply in_app_or in Hr as [Hr|[<-|[]]]; [|exact Ht]. exfalso. apply Ns. exists r. auto. }
    (* the branches that keep the running best: no new threshold can exist *)
    assert (KEEP : (forall t, NewT t -> False) ->
              best_valid s (rs_best st) /\
              dom s (rs_best st) (fun j' t => Cov j' t \/ (j' = j /\ seen s j (pre ++ [i]) t))).
    { intros NoNew. split; [exact BV|]. intros j' t Hc Ha.
      destruct (Split j' t Hc) as [Old|[-> Hnew]]; [apply DM; assumption|]. exfalso. apply (NoNew t). auto. }
    destruct (rs_prev st) as [px|] eqn:EP.
    2:{ cbn [rs_best]. apply KEEP. intros t Hn. destruct (NF t Hn) as ((C0 & _) & _).
        rewrite I2 in C0. rewrite nsum_zero in C0 by exact I3. lia. }
    destruct (nanb ROps px || oeqb ROps (getx ROps x i j) px) eqn:First.
    { cbn [rs_best]. apply KEEP. intros t Hn. destruct (NF t Hn) as (_ & _ & Hpx).
      specialize (Hpx px eq_refl). destruct Hn as (_ & _ & Ht).
      apply orb_prop in First as [F|F].
      - unfold nanb in F. cbn [ROps oeqb] in F. rewrite (proj2 (Reqb_true px px) eq_refl) in F. discriminate.
      - cbn [ROps oeqb] in F. apply Reqb_true in F. fold (X x j i) in F. lra. }
    apply orb_false_elim in First as [_ Neq]. cbn [ROps oeqb] in Neq. apply Reqb_false in Neq.
    destruct ((rs_cnt st <? msl)%nat || (sum_nat s - rs_cnt st <? msl)%nat) eqn:Guard.
    { cbn [rs_best]. apply KEEP. intros t Hn. destruct (NF t Hn) as ((_ & C1 & C2 & _) & _).
      apply orb_prop in Guard as [Gd|Gd]; apply Nat.ltb_lt in Gd; lia. }
    apply orb_false_elim in Guard as [G1 G2]. apply Nat.ltb_ge in G1, G2.
    destruct I3 as [(r0 & Hr0 & Hw0 & Hx0) I3].
    fold (X x j i) in Neq |- *.
    assert (Hlt : px < X x j i).
    { specialize (Pre r0 Hr0). cbn beta in Pre. rewrite Hx0 in Pre. lra. }
    set (thr := odiv ROps (oadd ROps (X x j i) px) (oofZ ROps 2)).
    assert (Hthr : px <= thr /\ thr < X x j i) by (unfold thr; cbn [ROps odiv oadd oofZ]; lra).
    destruct (split_sums x y s j ord pre i suf px thr HS E Hl I3 (proj1 Hthr) (proj2 Hthr)) as (T1 & T2 & T3 & T4).
    rewrite <- I2 in T1. rewrite <- I1 in T2.
    assert (Htc : (0 < rs_cnt st)%nat).
    { rewrite I2. pose proof (nsum_le_total (fun r => nth r s 0%nat) pre r0 Hr0). cbn beta in H. lia. }
    assert (Hn : (rs_cnt st + nth i s 0 <= sum_nat s)%nat).
    { rewrite (sum_nat_nsum s N Hl), (nsum_order x j ord _ HS), E, nsum_app, I2. cbn [nsum]. lia. }
    set (tc := rs_cnt st) in *. set (fc := (sum_nat s - tc)%nat) in *.
    set (tm := odiv ROps (rs_sum st) (ofn ROps tc)).
    set (fm := odiv ROps (osub ROps (out * IZN (sum_nat s)) (rs_sum st)) (ofn ROps fc)).
    set (gain := osub ROps (oadd ROps (omul ROps (omul ROps (ofn ROps tc) tm) tm)
                                      (omul ROps (omul ROps (ofn ROps fc) fm) fm))
                      (IZN (sum_nat s) * out * out)).
    assert (Egain : gain = red_val tc (rs_sum st) s).
    { unfold gain, tm, fm, red_val. change (ofn ROps) with IZN. cbn [ROps odiv osub oadd omul]. rewrite HW. fold fc.
      field. split; [|split]; apply Rgt_not_eq; apply IZN_pos; unfold fc; lia. }
    assert (Ethr : sse_red s j thr = gain).
    { rewrite Egain. apply (red_formula s j thr tc (rs_sum st) Hl T1 T2 T3 T4); unfold tc; lia. }
    assert (Enew : forall t, NewT t -> sse_red s j t = gain).
    { intros t Hn'. destruct (NF t Hn') as (_ & R & _). rewrite R, Egain. reflexivity. }
    destruct (match rs_best st with None => true | Some c => oltb ROps (c_score c) gain end) eqn:Better.
    - (* the candidate replaces the running best *)
      cbn [rs_best]. split.
      + cbn [best_valid c_feat c_val c_score]. fold thr. split; [|symmetry; exact Ethr].
        unfold adm. unfold tc in *. lia.
      + intros j' t Hc Ha. eexists. split; [reflexivity|]. cbn [c_score].
        destruct (Split j' t Hc) as [Old|[-> Hnew]].
        * destruct (DM j' t Old Ha) as (c0 & Ec & Le). rewrite Ec in Better.
          cbn [ROps oltb] in Better. apply Rltb_true in Better. lra.
        * rewrite (Enew t (Hnew Ha)). lra.
    - (* the running best stays: it is at least as good as the candidate *)
      cbn [rs_best]. split; [exact BV|]. intros j' t Hc Ha.
      destruct (Split j' t Hc) as [Old|[-> Hnew]]; [apply DM; assumption|].
      destruct (rs_best st) as [c0|]; [|discriminate]. exists c0. split; [reflexivity|].
      cbn [ROps oltb] in Better. apply Rltb_false in Better. rewrite (Enew t (Hnew Ha)). exact Better.
  Qed.

  (* sweep of one feature *)
  Lemma reg_sweep_opt s out j ord (Cov : nat -> R -> Prop) :
    sorted_order x j ord -> length s = N -> mean_ok x y s out ->
    forall suf pre st, ord = pre ++ suf -> sweep_inv x y s j pre st -> best_valid s (rs_best st) ->
      dom s (rs_best st) (fun j' t => Cov j' t \/ (j' = j /\ seen s j pre t)) ->
      let b := rs_best (fold_left (reg_step ROps x y msl s (sum_nat s) (out * IZN (sum_nat s))
                                            (IZN (sum_nat s) * out * out) j) suf st) in
      best_valid s b /\ dom s b (fun j' t => Cov j' t \/ (j' = j /\ seen s j ord t)) /\ best_ok x y s b.
  Proof.
    intros HS Hl Hout. induction suf as [|i suf IH]; intros pre st E I BV DM; cbn zeta.
    - cbn [fold_left]. rewrite app_nil_r in E. subst pre. destruct I as (_ & _ & _ & I4). auto.
    - cbn [fold_left].
      destruct (reg_step_opt s out j ord pre i suf st Cov HS E Hl Hout I BV DM) as [BV' DM'].
      apply (IH (pre ++ [i])); [rewrite <- app_assoc; exact E| |exact BV'|exact DM'].
      eapply reg_step_inv; eauto.
  Qed.

  (* an admissible threshold has a counted row above it, and that row occurs in the order *)
  Lemma adm_seen s j ord t : sorted_order x j ord -> adm s j t -> seen s j ord t.
  Proof.
    intros [P _] (_ & _ & _ & A4).
    rewrite (sum_nat_nsum _ N) in A4 by apply false_part_length.
    apply nsum_pos_ex in A4 as (r & Hr & Hp). pose proof Hr as Hr'. apply in_seq in Hr'.
    rewrite nth_false_part in Hp by (fold N; lia).
    destruct (goes_true ROps x s j (Some t) r) eqn:GT; [lia|].
    exists r. split; [apply (Permutation_in _ (Permutation_sym P)); exact Hr|]. split; [exact Hp|].
    unfold goes_true in GT. apply andb_false_elim in GT as [GT|GT].
    - apply Nat.ltb_ge in GT. lia.
    - cbn [le_thr ROps oleb] in GT. apply Rleb_false in GT. exact GT.
  Qed.

  Variable order : list (list nat).
  Variable mss : nat.
  Variable vars : nat -> list nat.
  Hypothesis orders_ok : forall id j, In j (vars id) -> sorted_order x j (nth j order []).

  Lemma reg_features_opt id s out : length s = N -> mean_ok x y s out ->
    forall l done b, (forall j, In j l -> In j (vars id)) -> best_valid s b -> best_ok x y s b ->
      dom s b (fun j' _ => In j' done) ->
      let b' := fold_left (reg_find_best_split ROps x y order msl s (sum_nat s) (out * IZN (sum_nat s))
                                                (IZN (sum_nat s) * out * out)) l b in
      best_valid s b' /\ dom s b' (fun j' _ => In j' (done ++ l)).
  Proof.
    intros Hl Hout. induction l as [|j l IH]; intros done b Hin BV BO DM; cbn zeta.
    - cbn [fold_left]. rewrite app_nil_r. auto.
    - cbn [fold_left]. pose proof (orders_ok id j (Hin j (or_introl eq_refl))) as HS.
      unfold reg_find_best_split at 2.
      destruct (reg_sweep_opt s out j (nth j order []) (fun j' _ => In j' done) HS Hl Hout
                  (nth j order []) [] (mkRS (o0 ROps) 0 None b) eq_refl) as (BV' & DM' & BO').
      + unfold sweep_inv. cbn. split; [reflexivity|]. split; [reflexivity|]. split; [tauto|exact BO].
      + exact BV.
      + intros j' t [C|[_ (r & [] & _)]] Ha. apply DM; assumption.
      + cbn zeta in BV', DM'.
        replace (done ++ j :: l) with ((done ++ [j]) ++ l) by (rewrite <- app_assoc; reflexivity).
        apply IH; [intros j' Hj'; apply Hin; right; exact Hj'|exact BV'|exact BO'|].
        intros j' t Hc Ha. apply DM'; [|exact Ha].
        apply in_app_or in Hc as [Hc|[<-|[]]]; [left; exact Hc|right]. split; [reflexivity|].
        apply adm_seen; assumption.
  Qed.
End RegOpt.

(* ---------- the whole search of one node ---------- *)
Lemma reg_find_opt x y order msl mss vars :
  (forall id j, In j (vars id) -> sorted_order x j (nth j order [])) ->
  forall id out s, length s = length x -> mean_ok x y s out ->
  match reg_find ROps x y order msl mss vars id out s with
  | Some c => adm x msl s (c_feat c) (c_val c) /\
              forall j t, In j (vars id) -> adm x msl s j t ->
                sse_red x y s j t <= sse_red x y s (c_feat c) (c_val c)
  | None => (sum_nat s < mss)%nat \/ forall j t, In j (vars id) -> ~ adm x msl s j t
  end.
Proof.
  intros Hord id out s Hl Hout. unfold reg_find.
  destruct (sum_nat s <? mss)%nat eqn:Emss; [left; apply Nat.ltb_lt; exact Emss|].
  change (ofn ROps) with IZN. cbn [ROps omul].
  destruct (reg_features_opt x y msl order vars Hord id s out Hl Hout (vars id) [] None (fun j H => H) I I)
    as [BV DM].
  { intros j t [] _. }
  cbn zeta in BV, DM. cbn [app] in DM.
  destruct (fold_left _ (vars id) None) as [c|] eqn:F.
  - destruct BV as [A Sc]. split; [exact A|]. intros j t Hj Ha.
    destruct (DM j t Hj Ha) as (c' & Ec & Le). inversion Ec; subst c'. rewrite <- Sc. exact Le.
  - right. intros j t Hj Ha. destruct (DM j t Hj Ha) as (c' & Ec & _). discriminate.
Qed.

(* ---------- the fitted regression tree ---------- *)
Lemma fit_regressor_full x y samples vars order md msl mss nodes d :
  length y = length x -> length samples = length x ->
  (forall id j, In j (vars id) -> sorted_order x j (nth j order [])) ->
  fit_regressor_with_order ROps x y samples vars order md msl mss = Some (nodes, d) ->
  exists G D, tree_consistent ROps 0 x msl (reg_out_ok x y) samples nodes G D /\
    (forall k, (k < length nodes)%nat -> (D k <= md_of md)%nat) /\ (d <= length nodes)%nat /\
    (forall n, (n < length nodes)%nat -> leafb (nth n nodes (dnode 0)) = false ->
       from_find (reg_find ROps x y order msl mss vars) (nth n nodes (dnode 0)) (G n) n) /\
    ((d < md_of md)%nat -> forall n, (n < length nodes)%nat -> leafb (nth n nodes (dnode 0)) = true ->
       leaf_reason ROps x msl (reg_find ROps x y order msl mss vars) (nth n nodes (dnode 0)) (G n) n).
Proof.
  intros Hy Hs Hord H. unfold fit_regressor_with_order in H.
  rewrite (root_stats_R y samples (length x) Hs Hy) in H.
  refine (grow_tree_full ROps 0 x msl _ (reg_out_ok x y) _ _ samples md nodes d _ H).
  - intros id out s c F [Hl Hm]. destruct (reg_find_ok x y order msl mss vars Hord id out s c F Hl Hm) as [C1 C2].
    split; split; auto; [apply true_part_length|apply false_part_length].
  - split; [exact Hs|]. intros _ Hpos. rewrite ofn_R. cbn [ROps odiv].
    rewrite (sum_nat_nsum samples (length x) Hs) in *. unfold wsum, Y, gety. cbn [ROps o0].
    field. apply Rgt_not_eq. apply IZN_pos. exact Hpos.
Qed.

Lemma regression_split_greedy_optimal x y samples order md msl mss nodes d :
  length y = length x -> length samples = length x ->
  (forall j, (j < length (hd [] x))%nat -> sorted_order x j (nth j order [])) ->
  fit_regressor_with_order ROps x y samples (fun _ => seq 0 (length (hd [] x))) order md msl mss = Some (nodes, d) ->
  exists G D, tree_consistent ROps 0 x msl (reg_out_ok x y) samples nodes G D /\
    forall n, (n < length nodes)%nat -> leafb (nth n nodes (dnode 0)) = false ->
      forall t0, split_value (nth n nodes (dnode 0)) = Some t0 ->
        adm x msl (G n) (split_feature (nth n nodes (dnode 0))) t0 /\
        forall j t, (j < length (hd [] x))%nat -> adm x msl (G n) j t ->
          sse_red x y (G n) j t <= sse_red x y (G n) (split_feature (nth n nodes (dnode 0))) t0.
Proof.
  intros Hy Hs Hord H.
  assert (Hord' : forall (id j : nat), In j (seq 0 (length (hd [] x))) -> sorted_order x j (nth j order [])).
  { intros _ j Hj. apply Hord. apply in_seq in Hj. lia. }
  destruct (fit_regressor_full x y samples _ order md msl mss nodes d Hy Hs Hord' H) as (G & D & C & _ & _ & FF & _).
  exists G, D. split; [exact C|]. intros n Hn L t0 Et.
  destruct (FF n Hn L) as (c & Fc & Ef & Ev). rewrite Ev in Et. inversion Et; subst t0. rewrite Ef.
  destruct (tc_out _ _ _ _ _ _ _ _ _ C n Hn) as [Hl Hm].
  pose proof (reg_find_opt x y order msl mss _ Hord' n _ (G n) Hl Hm) as R. rewrite Fc in R.
  destruct R as [A Opt]. split; [exact A|]. intros j t Hj Ha. apply Opt; [apply in_seq; lia|exact Ha].
Qed.

Lemma growth_complete_without_depth_limit x y samples order msl mss nodes d :
  length y = length x -> length samples = length x ->
  (forall j, (j < length (hd [] x))%nat -> sorted_order x j (nth j order [])) ->
  fit_regressor_with_order ROps x y samples (fun _ => seq 0 (length (hd [] x))) order None msl mss = Some (nodes, d) ->
  (length nodes < 65535)%nat ->
  exists G D, tree_consistent ROps 0 x msl (reg_out_ok x y) samples nodes G D /\
    forall n, (n < length nodes)%nat -> leafb (nth n nodes (dnode 0)) = true -> (mss < sum_nat (G n))%nat ->
      forall j t, (j < length (hd [] x))%nat -> ~ adm x msl (G n) j t.
Proof.
  intros Hy Hs Hord H Hlen.
  assert (Hord' : forall (id j : nat), In j (seq 0 (length (hd [] x))) -> sorted_order x j (nth j order [])).
  { intros _ j Hj. apply Hord. apply in_seq in Hj. lia. }
  destruct (fit_regressor_full x y samples _ order None msl mss nodes d Hy Hs Hord' H) as (G & D & C & _ & Hd & _ & LR).
  exists G, D. split; [exact C|]. intros n Hn L Hmss j t Hj Ha.
  assert (Hd' : (d < md_of None)%nat) by (unfold md_of; lia).
  destruct (tc_out _ _ _ _ _ _ _ _ _ C n Hn) as [Hl Hm].
  pose proof (reg_find_opt x y order msl mss _ Hord' n _ (G n) Hl Hm) as R.
  destruct (LR Hd' n Hn L) as [Fn|(c & Fc & Bad)].
  - rewrite Fn in R. destruct R as [R|R]; [lia|]. apply (R j t); [apply in_seq; lia|exact Ha].
  - rewrite Fc in R. destruct R as [(A1 & A2 & _) _]. lia.
Qed.
