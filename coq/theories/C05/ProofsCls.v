From Coq Require Import List Arith ZArith Bool Lia Reals Lra Permutation Sorted.
From SC Require Import Base.Num C05.Model C05.ProofsGrow C05.ProofsReg.
Import ListNotations.
Local Open Scope nat_scope.

(* ---------- which_max returns a position of a maximal entry ---------- *)
Lemma which_max_spec (l : list nat) : l <> [] ->
  which_max l < length l /\ forall c, nth c l 0 <= nth (which_max l) l 0.
Proof.
  destruct l as [|m0 t]; [congruence|]. intros _. unfold which_max.
  (* invariant of the fold over positions s+1.. : (m, w) with w < pos, nth w = m, all earlier <= m *)
  assert (G : forall t' pre m w, m0 :: t = pre ++ t' -> w < length pre -> nth w (pre ++ t') 0 = m ->
              (forall c, c < length pre -> nth c (pre ++ t') 0 <= m) ->
              let r := fold_left (fun '(m, w) '(i, v) => if m <? v then (v, i) else (m, w))
                                 (combine (seq (length pre) (length t')) t') (m, w) in
              snd r < length (pre ++ t') /\ nth (snd r) (pre ++ t') 0 = fst r /\
              forall c, c < length (pre ++ t') -> nth c (pre ++ t') 0 <= fst r).
  { induction t' as [|v t' IH]; intros pre m w E Hw Hm Hall; cbn [length seq combine fold_left].
    - cbn [fst snd]. rewrite app_nil_r in *. auto.
    - assert (E' : pre ++ v :: t' = (pre ++ [v]) ++ t') by (rewrite <- app_assoc; reflexivity).
      assert (Hv : nth (length pre) (pre ++ v :: t') 0 = v) by (rewrite app_nth2 by lia; rewrite Nat.sub_diag; reflexivity).
      replace (S (length pre)) with (length (pre ++ [v])) by (rewrite app_length; cbn; lia).
      destruct (m <? v) eqn:C.
      + apply Nat.ltb_lt in C. rewrite E'. apply IH.
        * rewrite <- E'. exact E.
        * rewrite app_length. cbn. lia.
        * rewrite <- E'. exact Hv.
        * intros c Hc. rewrite app_length in Hc. cbn in Hc. rewrite <- E'.
          destruct (Nat.eq_dec c (length pre)) as [->|Ne]; [lia|]. specialize (Hall c). lia.
      + apply Nat.ltb_ge in C. rewrite E'. apply IH.
        * rewrite <- E'. exact E.
        * rewrite app_length. cbn. lia.
        * rewrite <- E'. exact Hm.
        * intros c Hc. rewrite app_length in Hc. cbn in Hc. rewrite <- E'.
          destruct (Nat.eq_dec c (length pre)) as [->|Ne]; [lia|]. apply Hall. lia. }
  specialize (G t [m0] m0 0 eq_refl). cbn [length app] in G.
  destruct G as (G1 & G2 & G3); auto.
  - intros c Hc. assert (c = 0) as -> by lia. reflexivity.
  - split; [exact G1|]. intros c. rewrite G2.
    destruct (Nat.lt_ge_cases c (S (length t))) as [H|H]; [apply G3; exact H|].
    rewrite nth_overflow by (cbn; lia). lia.
Qed.

Lemma nth_set_nth_any (l : list nat) i c v :
  nth c (set_nth l i v) 0 = if (c =? i) && (i <? length l) then v else nth c l 0.
Proof.
  destruct (c =? i) eqn:E; cbn [andb].
  - apply Nat.eqb_eq in E. subst c. destruct (i <? length l) eqn:L.
    + apply Nat.ltb_lt in L. apply nth_set_nth_eq. exact L.
    + unfold set_nth. rewrite L. reflexivity.
  - apply Nat.eqb_neq in E. apply nth_set_nth_neq. exact E.
Qed.

Lemma add_at_map (f : nat -> nat) k yc w :
  add_at (map f (seq 0 k)) yc w = map (fun c => f c + (if yc =? c then w else 0)) (seq 0 k).
Proof.
  unfold add_at. apply (nth_ext _ _ 0 0).
  - rewrite set_nth_length, !map_length. reflexivity.
  - intros c Hc. rewrite set_nth_length, map_length, seq_length in Hc.
    rewrite nth_set_nth_any, map_length, seq_length.
    rewrite (nth_map_seq (fun c0 => f c0 + (if yc =? c0 then w else 0)) k c Hc).
    destruct (c =? yc) eqn:E.
    + apply Nat.eqb_eq in E. subst c. apply Nat.ltb_lt in Hc as L. rewrite L. cbn [andb].
      rewrite (nth_map_seq f k yc Hc). rewrite Nat.eqb_refl. reflexivity.
    + cbn [andb]. rewrite (nth_map_seq f k c Hc). rewrite Nat.eqb_sym, E. lia.
Qed.

Lemma repeat_map0 (f : nat -> nat) k : (forall c, f c = 0) -> repeat 0 k = map f (seq 0 k).
Proof.
  intros H. induction k; [reflexivity|]. cbn [repeat seq map]. rewrite H. f_equal.
  rewrite <- seq_shift, map_map. rewrite IHk. apply map_ext. intros c. rewrite !H. reflexivity.
Qed.

Section ClsProofs.
  Variable lg2 : R -> R.
  Variable crit : criterion.
  Variable x : list (list R).
  Variable yi : list nat.
  Variable k : nat.
  Variable order : list (list nat).
  Variables msl mss : nat.
  Variable vars : nat -> list nat.
  Let N := length x.

  (* count of class c among the rows counted by s *)
  Definition ind (s : list nat) (c r : nat) : nat := if nth r yi 0 =? c then nth r s 0 else 0.
  Definition cvec (s : list nat) : list nat := map (fun c => nsum (ind s c) (seq 0 N)) (seq 0 k).
  Definition maj_ok (s : list nat) (out : nat) : Prop := length s = N -> out = which_max (cvec s).
  Definition ccand_ok (s : list nat) (c : cand R nat) : Prop :=
    maj_ok (true_part ROps x s (c_feat c) (Some (c_val c))) (c_tco c) /\
    maj_ok (false_part ROps x s (c_feat c) (Some (c_val c))) (c_fco c).
  Definition cbest_ok (s : list nat) (b : option (cand R nat)) : Prop :=
    match b with None => True | Some c => ccand_ok s c end.

  Definition csweep_inv (s : list nat) (j : nat) (pre : list nat) (st : csweep) : Prop :=
    cs_cnt st = map (fun c => nsum (ind s c) pre) (seq 0 k) /\
    match cs_prevx st with
    | None => forall r, In r pre -> nth r s 0 = 0
    | Some px => (exists r, In r pre /\ 0 < nth r s 0 /\ X x j r = px) /\
                 forall r, In r pre -> 0 < nth r s 0 -> (X x j r <= px)%R
    end /\
    cbest_ok s (cs_best st).

  Lemma cvec_split s j ord pre i suf px thr :
    sorted_order x j ord -> ord = pre ++ i :: suf -> length s = N ->
    (forall r, In r pre -> 0 < nth r s 0 -> (X x j r <= px)%R) -> (px <= thr)%R -> (thr < X x j i)%R ->
    cvec (true_part ROps x s j (Some thr)) = map (fun c => nsum (ind s c) pre) (seq 0 k) /\
    cvec (false_part ROps x s j (Some thr)) =
      map (fun l => nth l (cvec s) 0 - nth l (map (fun c => nsum (ind s c) pre) (seq 0 k)) 0) (seq 0 k).
  Proof.
    intros HS E Hl Hpre H1 H2.
    destruct (partition_true x s j ord pre i suf px thr HS E Hpre H1 H2) as [Pa Pb].
    set (tp := true_part ROps x s j (Some thr)) in *.
    set (fp := false_part ROps x s j (Some thr)) in *.
    assert (T : forall c, nsum (ind tp c) (seq 0 N) = nsum (ind s c) pre).
    { intros c. rewrite (nsum_order x j ord _ HS), E, nsum_app.
      rewrite (nsum_ext (ind tp c) (ind s c) pre) by (intros r Hr; unfold ind; rewrite (Pa r Hr); reflexivity).
      rewrite (nsum_zero (ind tp c) (i :: suf)); [lia|].
      intros r Hr. unfold ind. rewrite (Pb r Hr). destruct (nth r yi 0 =? c); reflexivity. }
    split.
    - unfold cvec. apply map_ext. exact T.
    - unfold cvec. apply map_ext_in. intros c Hc. apply in_seq in Hc.
      rewrite !nth_map_seq by lia. rewrite <- T.
      assert (nsum (ind fp c) (seq 0 N) + nsum (ind tp c) (seq 0 N) = nsum (ind s c) (seq 0 N)); [|lia].
      rewrite <- nsum_plus. apply nsum_ext. intros r Hr. apply in_seq in Hr. unfold ind, fp, tp.
      rewrite false_part_nth by (fold N; lia). pose proof (true_part_le x s j (Some thr) r). fold N in H.
      destruct (nth r yi 0 =? c); lia.
  Qed.

  Lemma cls_step_inv s j ord pre i suf st n count pi :
    sorted_order x j ord -> ord = pre ++ i :: suf -> length s = N -> count = cvec s ->
    csweep_inv s j pre st ->
    csweep_inv s j (pre ++ [i]) (cls_step ROps lg2 crit x yi k msl s n count pi j st i).
  Proof.
    intros HS E Hl Hcount (I1 & I3 & I4).
    pose proof HS as [P SS]. rewrite E in SS. apply StronglySorted_mid in SS as [Pre _].
    rewrite Forall_forall in Pre.
    unfold cls_step. destruct (0 <? nth i s 0) eqn:Z.
    2:{ apply Nat.ltb_ge in Z. assert (Zi : nth i s 0 = 0) by lia.
        unfold csweep_inv. split.
        - rewrite I1. apply map_ext. intros c. rewrite nsum_app. cbn [nsum]. change (ind s c i) with (if nth i yi 0 =? c then nth i s 0 else 0). rewrite Zi.
          destruct (nth i yi 0 =? c); lia.
        - split; [|exact I4]. destruct (cs_prevx st) as [px|].
          + destruct I3 as [(r & Hr & Hw & Hx) I3]. split.
            * exists r. split; [apply in_or_app; auto|auto].
            * intros r' Hr' Hw'. apply in_app_or in Hr' as [Hr'|[<-|[]]]; [auto|lia].
          + intros r Hr. apply in_app_or in Hr as [Hr|[<-|[]]]; auto. }
    apply Nat.ltb_lt in Z.
    assert (ACC : forall b, cbest_ok s b ->
              csweep_inv s j (pre ++ [i])
                (mkCS (add_at (cs_cnt st) (gety_c yi i) (nth i s 0)) (Some (getx ROps x i j)) (gety_c yi i) b)).
    { intros b Hb. unfold csweep_inv. cbn [cs_cnt cs_prevx cs_best]. split.
      - rewrite I1, add_at_map. apply map_ext. intros c. rewrite nsum_app. cbn [nsum]. change (ind s c i) with (if nth i yi 0 =? c then nth i s 0 else 0). unfold gety_c. lia.
      - split; [|exact Hb]. split.
        + exists i. split; [apply in_or_app; right; left; reflexivity|]. split; [exact Z|reflexivity].
        + intros r Hr _. apply in_app_or in Hr as [Hr|[<-|[]]].
          * apply Pre. exact Hr.
          * unfold X. lra. }
    destruct (cs_prevx st) as [px|] eqn:EP; [|apply ACC; exact I4].
    destruct ((nanb ROps px || oeqb ROps (getx ROps x i j) px) || (gety_c yi i =? cs_prevy st)) eqn:First;
      [apply ACC; exact I4|].
    apply orb_false_elim in First as [First _]. apply orb_false_elim in First as [_ Neq].
    cbn [ROps oeqb] in Neq. apply Reqb_false in Neq.
    destruct ((sum_nat (cs_cnt st) <? msl) || (n - sum_nat (cs_cnt st) <? msl)) eqn:Guard; [apply ACC; exact I4|].
    match goal with |- context [if ?b then _ else _] => destruct b end; [|apply ACC; exact I4].
    apply ACC. cbn [cbest_ok]. clear ACC.
    destruct I3 as [(r0 & Hr0 & Hw0 & Hx0) I3].
    fold (X x j i) in Neq |- *.
    assert (Hlt : (px < X x j i)%R).
    { specialize (Pre r0 Hr0). cbn beta in Pre. rewrite Hx0 in Pre. lra. }
    set (thr := odiv ROps (oadd ROps (X x j i) px) (oofZ ROps 2)).
    assert (Hthr : (px <= thr /\ thr < X x j i)%R) by (unfold thr; cbn [ROps odiv oadd oofZ]; lra).
    destruct (cvec_split s j ord pre i suf px thr HS E Hl I3 (proj1 Hthr) (proj2 Hthr)) as (T1 & T2).
    unfold ccand_ok. cbn [c_feat c_val c_tco c_fco]. fold thr. split; intros _.
    - rewrite T1, I1. reflexivity.
    - rewrite T2, Hcount, I1. reflexivity.
  Qed.

  Lemma cls_sweep_inv s j ord n count pi : sorted_order x j ord -> length s = N -> count = cvec s ->
    forall suf pre st, ord = pre ++ suf -> csweep_inv s j pre st ->
    cbest_ok s (cs_best (fold_left (cls_step ROps lg2 crit x yi k msl s n count pi j) suf st)).
  Proof.
    intros HS Hl Hc. induction suf as [|i suf IH]; intros pre st E I.
    - cbn. destruct I as (_ & _ & I). exact I.
    - cbn [fold_left]. apply (IH (pre ++ [i])).
      + rewrite <- app_assoc. exact E.
      + eapply cls_step_inv; eauto.
  Qed.

  Lemma class_counts_cvec s : class_counts x yi k s = cvec s.
  Proof.
    unfold class_counts, cvec. fold N.
    assert (G : forall l pre,
      fold_left (fun cnt i => if 0 <? nth i s 0 then add_at cnt (gety_c yi i) (nth i s 0) else cnt) l
                (map (fun c => nsum (ind s c) pre) (seq 0 k)) =
      map (fun c => nsum (ind s c) (pre ++ l)) (seq 0 k)).
    { induction l as [|i l IH]; intros pre; cbn [fold_left].
      - rewrite app_nil_r. reflexivity.
      - replace (pre ++ i :: l) with ((pre ++ [i]) ++ l) by (rewrite <- app_assoc; reflexivity).
        rewrite <- IH. f_equal. destruct (0 <? nth i s 0) eqn:Z.
        + rewrite add_at_map. apply map_ext. intros c. rewrite nsum_app. cbn [nsum]. change (ind s c i) with (if nth i yi 0 =? c then nth i s 0 else 0). unfold gety_c. lia.
        + apply Nat.ltb_ge in Z. apply map_ext. intros c. rewrite nsum_app. cbn [nsum]. change (ind s c i) with (if nth i yi 0 =? c then nth i s 0 else 0).
          destruct (nth i yi 0 =? c); lia. }
    specialize (G (seq 0 N) []). cbn [app nsum] in G. rewrite <- G. f_equal.
    apply repeat_map0. reflexivity.
  Qed.

  Hypothesis orders_ok : forall id j, In j (vars id) -> sorted_order x j (nth j order []).

  Lemma cls_find_ok id out s c :
    cls_find ROps lg2 crit x yi k order msl mss vars id out s = Some c -> length s = N -> ccand_ok s c.
  Proof.
    unfold cls_find. destruct (is_pure x yi s); [discriminate|].
    destruct (sum_nat s <=? mss); [discriminate|]. intros H Hl.
    set (count := class_counts x yi k s) in *.
    assert (G : forall l b, (forall j, In j l -> In j (vars id)) -> cbest_ok s b ->
              cbest_ok s (fold_left (cls_find_best_split ROps lg2 crit x yi k order msl s (sum_nat s) count
                                        (impurity ROps lg2 crit count (sum_nat s))) l b)).
    { induction l as [|j l IH]; intros b Hin Hb; [exact Hb|]. cbn [fold_left]. apply IH.
      - intros j' Hj'. apply Hin. right. exact Hj'.
      - unfold cls_find_best_split.
        apply (cls_sweep_inv s j (nth j order []) _ count _ (orders_ok id j (Hin j (or_introl eq_refl))) Hl
                             (class_counts_cvec s) (nth j order []) [] _ eq_refl).
        unfold csweep_inv. cbn [cs_cnt cs_prevx cs_best]. split; [|split; [intros r []|exact Hb]].
        apply repeat_map0. reflexivity. }
    specialize (G (vars id) None (fun j H => H) I). rewrite H in G. exact G.
  Qed.
End ClsProofs.

Definition cls_out_ok (x : list (list R)) (yi : list nat) (k : nat) (s : list nat) (out : nat) : Prop :=
  length s = length x /\ maj_ok x yi k s out.

Lemma root_counts_cvec x yi k samples : length yi = length x -> root_counts yi samples k = cvec x yi k samples.
Proof.
  intros Hy. unfold root_counts, cvec. rewrite Hy.
  assert (G : forall l pre,
    fold_left (fun cnt i => add_at cnt (nth i yi 0) (nth i samples 0)) l
              (map (fun c => nsum (ind yi samples c) pre) (seq 0 k)) =
    map (fun c => nsum (ind yi samples c) (pre ++ l)) (seq 0 k)).
  { induction l as [|i l IH]; intros pre; cbn [fold_left].
    - rewrite app_nil_r. reflexivity.
    - replace (pre ++ i :: l) with ((pre ++ [i]) ++ l) by (rewrite <- app_assoc; reflexivity).
      rewrite <- IH. f_equal. rewrite add_at_map. apply map_ext. intros c. rewrite nsum_app. cbn [nsum].
      change (ind yi samples c i) with (if nth i yi 0 =? c then nth i samples 0 else 0). lia. }
  specialize (G (seq 0 (length x)) []). cbn [app nsum] in G. rewrite <- G. f_equal.
  apply repeat_map0. reflexivity.
Qed.

Lemma fit_classifier_consistent lg2 crit x yi k samples vars order md msl mss nodes d :
  length yi = length x -> length samples = length x ->
  (forall id j, In j (vars id) -> sorted_order x j (nth j order [])) ->
  fit_classifier_with_order ROps lg2 crit x yi k samples vars order md msl mss = Some (nodes, d) ->
  exists G D, tree_consistent ROps 0 x msl (cls_out_ok x yi k) samples nodes G D /\
              (forall n, n < length nodes -> D n <= md_of md).
Proof.
  intros Hy Hs Hord H. unfold fit_classifier_with_order in H.
  refine (grow_tree_consistent ROps 0 x msl _ (cls_out_ok x yi k) _ _ samples md nodes d _ H).
  - intros id out s c F [Hl Hm].
    destruct (cls_find_ok lg2 crit x yi k order msl mss vars Hord id out s c F Hl) as [C1 C2].
    split; split; auto; [apply true_part_length|apply false_part_length].
  - split; [exact Hs|]. intros _. rewrite (root_counts_cvec x yi k samples Hy). reflexivity.
Qed.

(* the label reported for class index c is one of the training labels *)
Section Unique.
  Context {T : Type} (O : Ops T).
  Lemma insert_T_In v l u : In u (insert_T O v l) -> u = v \/ In u l.
  Proof.
    induction l as [|h t IH]; cbn [insert_T].
    - intros [H|[]]. left. symmetry. exact H.
    - destruct (oltb O v h).
      + intros [H|H]; [left; symmetry; exact H|right; exact H].
      + intros [H|H]; [right; left; exact H|]. apply IH in H as [H|H]; [left; exact H|right; right; exact H].
  Qed.
  Lemma dedup_T_In l u : In u (dedup_T O l) -> In u l.
  Proof.
    induction l as [|a t IH]; cbn [dedup_T]; [tauto|]. destruct t as [|b t'].
    - tauto.
    - destruct (oeqb O a b).
      + intros H. right. apply IH. exact H.
      + intros [H|H]; [left; exact H|right; apply IH; exact H].
  Qed.
  Lemma unique_T_In y u : In u (unique_T O y) -> In u y.
  Proof.
    unfold unique_T. intros H. apply dedup_T_In in H. revert H.
    assert (G : forall l acc, In u (fold_left (fun acc v => insert_T O v acc) l acc) -> In u acc \/ In u l).
    { induction l as [|v l IH]; intros acc H; cbn in *; [tauto|].
      apply IH in H as [H|H]; [|right; right; exact H]. apply insert_T_In in H as [H|H];
        [right; left; symmetry; exact H|left; exact H]. }
    intros H. apply G in H as [[]|H]. exact H.
  Qed.
End Unique.

Lemma fit_classifier_weak_classes {T} (O : Ops T) lg2 crit x y samples vars md msl mss classes nodes d :
  fit_classifier_weak O lg2 crit x y samples vars md msl mss = Some (classes, nodes, d) ->
  classes = unique_T O y /\
  exists yi order, mapM (fun v => position_T O v classes) y = Some yi /\
    argsort_columns O x (length (hd [] x)) = Some order /\
    fit_classifier_with_order O lg2 crit x yi (length classes) samples vars order md msl mss = Some (nodes, d).
Proof.
  unfold fit_classifier_weak. destruct (length (unique_T O y) <? 2); [discriminate|].
  destruct (mapM (fun v => position_T O v (unique_T O y)) y) as [yi|] eqn:E1; [|discriminate].
  destruct (argsort_columns O x (length (hd [] x))) as [order|] eqn:E2; [|discriminate].
  destruct (fit_classifier_with_order O lg2 crit x yi (length (unique_T O y)) samples vars order md msl mss)
    as [[n0 d0]|] eqn:E3; [|discriminate].
  intros H. inversion H; subst. split; [reflexivity|]. exists yi, order. auto.
Qed.

Lemma classifier_labels_original {T} (O : Ops T) lg2 crit x y samples vars md msl mss classes nodes d c dflt :
  fit_classifier_weak O lg2 crit x y samples vars md msl mss = Some (classes, nodes, d) ->
  c < length classes -> In (nth c classes dflt) y.
Proof.
  intros H Hc. apply fit_classifier_weak_classes in H as [-> _].
  apply (unique_T_In O). apply nth_In. exact Hc.
Qed.

Lemma cvec_length x yi k s : length (cvec x yi k s) = k.
Proof. unfold cvec. rewrite map_length, seq_length. reflexivity. Qed.
