(* C05 — regression tree (exact reals): transforming feature columns by strictly increasing maps.

   x and x' are two training matrices with the same number of rows whose tried columns are ordered in
   the same way (`same_order x x' j`: x[r][j] <= x[r'][j] iff x'[r][j] <= x'[r'][j]; e.g. column j of x' is
   the image of column j of x under a strictly increasing map, `map_col_same_order`).  The thresholds of
   the two fitted trees are midpoints (a + b)/2 resp. (f a + f b)/2 and are in general NOT images of each
   other, so predictions for NEW rows can differ (Properties/C05.v records a counterexample); but the two
   thresholds lie between the same two neighbouring training values, hence (ProofsMonotone.v) the trees
   have the same node arrays up to the threshold values, the same partition of the training rows, and
   predict every training row identically. *)
From Coq Require Import List Arith ZArith Bool Lia Reals Lra Permutation Sorted.
From SC Require Import Base.Num C05.Model C05.ProofsGrow C05.ProofsReg C05.ProofsScale C05.ProofsPredict C05.ProofsMonotone.
Import ListNotations.
Local Open Scope nat_scope.

Lemma StronglySorted_impl_in {A} (R1 R2 : A -> A -> Prop) l :
  (forall a b, In a l -> In b l -> R1 a b -> R2 a b) -> StronglySorted R1 l -> StronglySorted R2 l.
Proof.
  induction l as [|h t IH]; intros H S; [constructor|].
  apply StronglySorted_inv in S as [S1 S2]. constructor.
  - apply IH; [|exact S1]. intros a b Ha Hb. apply H; right; assumption.
  - rewrite Forall_forall in *. intros b Hb. apply H; [left; reflexivity|right; exact Hb|apply S2; exact Hb].
Qed.

Section MonoReg.
  Variables x x' : list (list R).
  Hypothesis len_x : length x' = length x.
  Let N := length x.

  Definition same_order (j : nat) : Prop :=
    forall r r', r < N -> r' < N -> (X x j r <= X x j r' <-> X x' j r <= X x' j r')%R.

  Lemma sorted_order_transfer j ord : same_order j -> sorted_order x j ord -> sorted_order x' j ord.
  Proof.
    intros SO [P S]. split; [rewrite len_x; exact P|].
    eapply StronglySorted_impl_in; [|exact S]. cbn beta. intros a b Ha Hb Hab.
    apply SO; [| |exact Hab].
    - apply (Permutation_in _ P) in Ha. apply in_seq in Ha. unfold N. lia.
    - apply (Permutation_in _ P) in Hb. apply in_seq in Hb. unfold N. lia.
  Qed.

  (* two thresholds between the same two neighbours of a common sorted order split alike *)
  Lemma thr_rel_between s j ord pre i suf px px' thr thr' :
    sorted_order x j ord -> sorted_order x' j ord -> ord = pre ++ i :: suf ->
    (forall r, In r pre -> 0 < nth r s 0 -> (X x j r <= px)%R) -> (px <= thr)%R -> (thr < X x j i)%R ->
    (forall r, In r pre -> 0 < nth r s 0 -> (X x' j r <= px')%R) -> (px' <= thr')%R -> (thr' < X x' j i)%R ->
    thr_rel ROps x x' s j (Some thr') (Some thr).
  Proof.
    intros HS HS' E B1 B2 B3 B1' B2' B3'.
    destruct (partition_true x s j ord pre i suf px thr HS E B1 B2 B3) as [Pa Pb].
    destruct (partition_true x' s j ord pre i suf px' thr' HS' E B1' B2' B3') as [Pa' Pb'].
    assert (TP : forall r, r < N -> nth r (true_part ROps x' s j (Some thr')) 0 = nth r (true_part ROps x s j (Some thr)) 0).
    { intros r Hr. assert (Hin : In r ord).
      { destruct HS as [P _]. apply (Permutation_in _ (Permutation_sym P)). apply in_seq. unfold N in Hr. lia. }
      rewrite E in Hin. apply in_app_or in Hin as [Hin|Hin].
      - rewrite (Pa r Hin), (Pa' r Hin). reflexivity.
      - rewrite (Pb r Hin), (Pb' r Hin). reflexivity. }
    split.
    - apply (nth_ext _ _ 0 0).
      + rewrite !true_part_length. exact len_x.
      + intros r Hr. rewrite true_part_length, len_x in Hr. apply TP. exact Hr.
    - apply (nth_ext _ _ 0 0).
      + rewrite !false_part_length. exact len_x.
      + intros r Hr. rewrite false_part_length, len_x in Hr.
        rewrite (false_part_nth x' s j (Some thr') r) by (rewrite len_x; exact Hr).
        rewrite (false_part_nth x s j (Some thr) r) by exact Hr. rewrite (TP r Hr). reflexivity.
  Qed.

  Variable y : list R.
  Variables msl : nat.

  (* the states of the two sweeps after the rows `pre` of a common sorted order *)
  Definition srel (s : list nat) (j : nat) (pre : list nat) (st' st : rsweep) : Prop :=
    rs_sum st' = rs_sum st /\ rs_cnt st' = rs_cnt st /\
    match rs_prev st', rs_prev st with
    | Some px', Some px => (exists r0, In r0 pre /\ 0 < nth r0 s 0 /\ X x j r0 = px /\ X x' j r0 = px') /\
                           (forall r, In r pre -> 0 < nth r s 0 -> (X x j r <= px)%R)
    | None, None => True
    | _, _ => False
    end /\
    ocand_rel ROps x x' s (rs_best st') (rs_best st).

  Lemma Reqb_refl_true v : Reqb v v = true.
  Proof. destruct (Reqb v v) eqn:E; [reflexivity|]. apply Reqb_false in E. lra. Qed.

  Lemma reg_step_sim s n sum pg j ord pre i suf st' st :
    same_order j -> sorted_order x j ord -> ord = pre ++ i :: suf ->
    srel s j pre st' st ->
    srel s j (pre ++ [i]) (reg_step ROps x' y msl s n sum pg j st' i) (reg_step ROps x y msl s n sum pg j st i).
  Proof.
    intros SO HS E (R1 & R2 & R3 & R4).
    pose proof (sorted_order_transfer j ord SO HS) as HS'.
    pose proof HS as [P SS]. rewrite E in SS. apply StronglySorted_mid in SS as [Pre _].
    rewrite Forall_forall in Pre.
    assert (Hi : i < N) by (apply (order_lt x j ord i HS); rewrite E; apply in_or_app; right; left; reflexivity).
    assert (Hpre : forall r, In r pre -> r < N).
    { intros r Hr. apply (order_lt x j ord r HS). rewrite E. apply in_or_app. left. exact Hr. }
    unfold reg_step. destruct (0 <? nth i s 0) eqn:Z.
    2:{ apply Nat.ltb_ge in Z. split; [exact R1|]. split; [exact R2|]. split; [|exact R4].
        destruct (rs_prev st') as [px'|], (rs_prev st) as [px|]; try exact R3.
        destruct R3 as [(r0 & I0 & W0 & X0 & X0') B]. split.
        - exists r0. split; [apply in_or_app; left; exact I0|auto].
        - intros r Hr Hw. apply in_app_or in Hr as [Hr|[<-|[]]]; [auto|lia]. }
    apply Nat.ltb_lt in Z.
    fold (X x' j i). fold (X x j i). rewrite R1, R2.
    assert (ACC : forall b' b, ocand_rel ROps x x' s b' b ->
              srel s j (pre ++ [i])
                (mkRS (oadd ROps (rs_sum st) (omul ROps (ofn ROps (nth i s 0)) (gety ROps y i)))
                      (rs_cnt st + nth i s 0) (Some (X x' j i)) b')
                (mkRS (oadd ROps (rs_sum st) (omul ROps (ofn ROps (nth i s 0)) (gety ROps y i)))
                      (rs_cnt st + nth i s 0) (Some (X x j i)) b)).
    { intros b' b Hb. unfold srel. cbn [rs_sum rs_cnt rs_prev rs_best].
      split; [reflexivity|]. split; [reflexivity|]. split; [|exact Hb]. split.
      - exists i. split; [apply in_or_app; right; left; reflexivity|]. auto.
      - intros r Hr _. apply in_app_or in Hr as [Hr|[<-|[]]]; [apply Pre; exact Hr|lra]. }
    destruct (rs_prev st') as [px'|] eqn:EP', (rs_prev st) as [px|] eqn:EP; try contradiction.
    2:{ apply ACC. exact R4. }
    destruct R3 as [(r0 & I0 & W0 & X0 & X0') B].
    assert (Hr0 : r0 < N) by (apply Hpre; exact I0).
    assert (Le0 : (X x j r0 <= X x j i)%R) by (apply Pre; exact I0).
    assert (Le0' : (X x' j r0 <= X x' j i)%R) by (apply (SO r0 i Hr0 Hi); exact Le0).
    unfold nanb. cbn [ROps oeqb]. rewrite !Reqb_refl_true. cbn [negb orb].
    assert (EqI : Reqb (X x' j i) px' = Reqb (X x j i) px).
    { destruct (Reqb (X x j i) px) eqn:Q.
      - apply Reqb_true in Q. apply Reqb_true.
        assert (A1 : (X x' j i <= X x' j r0)%R) by (apply (SO i r0 Hi Hr0); lra). lra.
      - apply Reqb_false in Q. apply Reqb_false. intros Q'.
        assert (A1 : (X x j i <= X x j r0)%R) by (apply (SO i r0 Hi Hr0); lra). lra. }
    rewrite EqI. destruct (Reqb (X x j i) px) eqn:Q; [apply ACC; exact R4|].
    apply Reqb_false in Q.
    assert (Q' : X x' j i <> px').
    { intros Q'. assert (A1 : (X x j i <= X x j r0)%R) by (apply (SO i r0 Hi Hr0); lra). lra. }
    destruct ((rs_cnt st <? msl) || (n - rs_cnt st <? msl)); [apply ACC; exact R4|].
    set (gain := osub ROps _ pg).
    assert (Hnew : cand_rel ROps x x' s
              (mkCand j (odiv ROps (oadd ROps (X x' j i) px') (oofZ ROps 2)) gain
                      (odiv ROps (rs_sum st) (ofn ROps (rs_cnt st)))
                      (odiv ROps (osub ROps sum (rs_sum st)) (ofn ROps (n - rs_cnt st))))
              (mkCand j (odiv ROps (oadd ROps (X x j i) px) (oofZ ROps 2)) gain
                      (odiv ROps (rs_sum st) (ofn ROps (rs_cnt st)))
                      (odiv ROps (osub ROps sum (rs_sum st)) (ofn ROps (n - rs_cnt st))))).
    { unfold cand_rel. cbn [c_feat c_val c_score c_tco c_fco]. repeat (split; [reflexivity|]).
      apply (thr_rel_between s j ord pre i suf px px' _ _ HS HS' E B).
      - cbn [ROps odiv oadd oofZ]. lra.
      - cbn [ROps odiv oadd oofZ]. lra.
      - intros r Hr Hw. rewrite <- X0'. apply (SO r r0 (Hpre r Hr) Hr0). rewrite X0. apply B; assumption.
      - cbn [ROps odiv oadd oofZ]. lra.
      - cbn [ROps odiv oadd oofZ]. lra. }
    unfold ocand_rel in R4.
    destruct (rs_best st') as [c'|], (rs_best st) as [c|]; try contradiction.
    - pose proof R4 as (_ & Sc & _). rewrite Sc.
      destruct (oltb ROps (c_score c) gain); apply ACC; [exact Hnew|exact R4].
    - apply ACC. exact Hnew.
  Qed.

  Lemma reg_sweep_sim s n sum pg j ord : same_order j -> sorted_order x j ord ->
    forall suf pre st' st, ord = pre ++ suf -> srel s j pre st' st ->
    ocand_rel ROps x x' s
      (rs_best (fold_left (reg_step ROps x' y msl s n sum pg j) suf st'))
      (rs_best (fold_left (reg_step ROps x y msl s n sum pg j) suf st)).
  Proof.
    intros SO HS. induction suf as [|i suf IH]; intros pre st' st E R.
    - cbn. destruct R as (_ & _ & _ & R). exact R.
    - cbn [fold_left]. apply (IH (pre ++ [i])).
      + rewrite <- app_assoc. exact E.
      + eapply reg_step_sim; eauto.
  Qed.

  Variable order : list (list nat).
  Variable mss : nat.
  Variable vars : nat -> list nat.
  Hypothesis orders_ok : forall id j, In j (vars id) -> sorted_order x j (nth j order []).
  Hypothesis cols_ok : forall id j, In j (vars id) -> same_order j.

  Lemma reg_find_sim id out s :
    ocand_rel ROps x x' s (reg_find ROps x' y order msl mss vars id out s) (reg_find ROps x y order msl mss vars id out s).
  Proof.
    unfold reg_find. destruct (sum_nat s <? mss); [exact I|]. cbv zeta.
    set (n := sum_nat s). set (sm := omul ROps out (ofn ROps n)). set (pg := omul ROps (omul ROps (ofn ROps n) out) out).
    assert (G : forall l b' b, (forall j, In j l -> In j (vars id)) -> ocand_rel ROps x x' s b' b ->
              ocand_rel ROps x x' s (fold_left (reg_find_best_split ROps x' y order msl s n sm pg) l b')
                                    (fold_left (reg_find_best_split ROps x y order msl s n sm pg) l b)).
    { induction l as [|j l IH]; intros b' b Hin Hb; [exact Hb|]. cbn [fold_left]. apply IH.
      - intros j' Hj'. apply Hin. right. exact Hj'.
      - unfold reg_find_best_split.
        assert (Hj : In j (vars id)) by (apply Hin; left; reflexivity).
        apply (reg_sweep_sim s n sm pg j (nth j order []) (cols_ok id j Hj) (orders_ok id j Hj)
                             (nth j order []) [] _ _ eq_refl).
        unfold srel. cbn [rs_sum rs_cnt rs_prev rs_best]. auto. }
    exact (G (vars id) None None (fun j H => H) I).
  Qed.

  (* ---- the fitted trees ---- *)
  Lemma fit_regressor_with_order_sim samples md :
    res_rel (fit_regressor_with_order ROps x' y samples vars order md msl mss)
            (fit_regressor_with_order ROps x y samples vars order md msl mss).
  Proof.
    unfold fit_regressor_with_order. destruct (root_stats ROps y samples) as [n sum].
    apply (grow_tree_sim ROps 0%R x x' len_x msl _ _ reg_find_sim).
  Qed.

  Lemma fit_regressor_with_order_same_partition samples md nodes' nodes d' d :
    fit_regressor_with_order ROps x' y samples vars order md msl mss = Some (nodes', d') ->
    fit_regressor_with_order ROps x y samples vars order md msl mss = Some (nodes, d) ->
    map erase nodes' = map erase nodes /\ d' = d /\
    (exists G D, tree_consistent ROps 0%R x msl (fun _ _ => True) samples nodes G D /\
                 tree_consistent ROps 0%R x' msl (fun _ _ => True) samples nodes' G D) /\
    forall i, i < length x -> 0 < nth i samples 0 ->
      predict_for_row ROps nodes' (nth i x' []) = predict_for_row ROps nodes (nth i x []).
  Proof.
    unfold fit_regressor_with_order. destruct (root_stats ROps y samples) as [n sum]. intros H' H.
    destruct (grow_tree_same_partition ROps 0%R x x' len_x msl _ _ reg_find_sim _ samples md nodes' nodes d' d H' H)
      as (E & Ed & GD).
    split; [exact E|]. split; [exact Ed|]. split; [exact GD|].
    intros i Hi Pos.
    exact (predict_training_same ROps 0%R x x' len_x msl _ _ reg_find_sim _ samples md nodes' nodes d' d i H' H Hi Pos).
  Qed.
End MonoReg.

(* ---- instance: one column transformed by a strictly increasing map ---- *)
Definition map_col (f : R -> R) (j0 : nat) (x : list (list R)) : list (list R) :=
  map (fun row => set_nth row j0 (f (nth j0 row 0%R))) x.

Lemma map_col_length f j0 x : length (map_col f j0 x) = length x.
Proof. apply map_length. Qed.

Lemma X_map_col f j0 x j r : r < length x -> j0 < length (nth r x []) ->
  X (map_col f j0 x) j r = if j =? j0 then f (X x j0 r) else X x j r.
Proof.
  intros Hr Hj0. unfold X, getx, map_col. cbn [ROps o0].
  rewrite (nth_indep _ [] (set_nth [] j0 (f (nth j0 [] 0%R)))) by (rewrite map_length; exact Hr).
  rewrite (map_nth (fun row => set_nth row j0 (f (nth j0 row 0%R)))).
  destruct (j =? j0) eqn:Ej.
  - apply Nat.eqb_eq in Ej. subst j. apply nth_set_nth_eq. exact Hj0.
  - apply Nat.eqb_neq in Ej. apply nth_set_nth_neq. exact Ej.
Qed.

Lemma map_col_same_order f j0 x :
  (forall a b, (a < b)%R -> (f a < f b)%R) ->
  (forall r, r < length x -> j0 < length (nth r x [])) ->
  forall j, same_order x (map_col f j0 x) j.
Proof.
  intros Hf Hrect j r r' Hr Hr'. rewrite !X_map_col by auto.
  destruct (j =? j0) eqn:Ej; [apply Nat.eqb_eq in Ej; subst j|tauto]. split; intros H.
  - destruct (Rle_lt_or_eq_dec _ _ H) as [Lt|Eq]; [left; apply Hf; exact Lt|rewrite Eq; lra].
  - destruct (Rle_or_lt (X x j0 r) (X x j0 r')) as [Le|Lt]; [exact Le|]. apply Hf in Lt. lra.
Qed.

Lemma monotone_column_training_rows f j0 x y samples vars order md msl mss :
  (forall a b, (a < b)%R -> (f a < f b)%R) ->
  (forall r, r < length x -> j0 < length (nth r x [])) ->
  (forall id j, In j (vars id) -> sorted_order x j (nth j order [])) ->
  res_rel (fit_regressor_with_order ROps (map_col f j0 x) y samples vars order md msl mss)
          (fit_regressor_with_order ROps x y samples vars order md msl mss) /\
  forall nodes' nodes d' d,
    fit_regressor_with_order ROps (map_col f j0 x) y samples vars order md msl mss = Some (nodes', d') ->
    fit_regressor_with_order ROps x y samples vars order md msl mss = Some (nodes, d) ->
    map erase nodes' = map erase nodes /\ d' = d /\
    (exists G D, tree_consistent ROps 0%R x msl (fun _ _ => True) samples nodes G D /\
                 tree_consistent ROps 0%R (map_col f j0 x) msl (fun _ _ => True) samples nodes' G D) /\
    forall i, i < length x -> 0 < nth i samples 0 ->
      predict_for_row ROps nodes' (nth i (map_col f j0 x) []) = predict_for_row ROps nodes (nth i x []).
Proof.
  intros Hf Hrect Ho.
  pose proof (map_col_same_order f j0 x Hf Hrect) as SO.
  split.
  - apply (fit_regressor_with_order_sim x (map_col f j0 x) (map_col_length f j0 x) y msl order mss vars Ho).
    intros id j _. apply SO.
  - intros nodes' nodes d' d H' H.
    apply (fit_regressor_with_order_same_partition x (map_col f j0 x) (map_col_length f j0 x) y msl order mss vars Ho
             (fun id j _ => SO j) samples md nodes' nodes d' d H' H).
Qed.
