(* C05 — predict: the path characterisation of predict_for_row, uniqueness of the leaf a row is
   routed to, and the batch functions predict_regressor / predict_classifier.

   Vocabulary
   - `next_child O nd row`      : the child an internal node sends `row` to: true_child iff
                                  row[split_feature] <= split_value  (a missing threshold compares false);
   - `root_path O nodes row p k`: k is reached from the root 0 by following `next_child` through the
                                  internal nodes listed in p (most recent first: hd p is the parent of k,
                                  last p is the root); defined inductively, one constructor per step;
   - `leaf_of O nodes row k`    : k is a leaf (no children) at the end of such a path.
   Everything here is generic in the number type (`Ops T`), in the output type and axiom-free. *)
From Coq Require Import List Arith Bool Lia.
From SC Require Import Base.Num C05.Model C05.ProofsGrow.
Import ListNotations.

Lemma mapM_total {A B} (f : A -> option B) (l : list A) :
  (forall a, In a l -> exists b, f a = Some b) -> exists r, mapM f l = Some r.
Proof.
  induction l as [|a t IH]; intros H; cbn [mapM]; [eexists; reflexivity|].
  destruct (H a (or_introl eq_refl)) as [b ->].
  destruct IH as [r ->]; [intros a' Ha'; apply H; right; exact Ha'|]. eexists; reflexivity.
Qed.

Lemma mapM_nth' {A B} (f : A -> option B) : forall (l : list A) r, mapM f l = Some r ->
  length r = length l /\ forall k da db, k < length l -> f (nth k l da) = Some (nth k r db).
Proof.
  induction l as [|a t IH]; intros r H; cbn [mapM] in H.
  - inversion H; subst. split; [reflexivity|]. intros k da db Hk. cbn in Hk. lia.
  - destruct (f a) as [b|] eqn:Fa; [|discriminate]. destruct (mapM f t) as [r'|] eqn:Ft; [|discriminate].
    inversion H; subst r. destruct (IH r' eq_refl) as [L N]. split; [cbn; lia|].
    intros k da db Hk. destruct k; cbn [nth]; [exact Fa|]. apply N. cbn in Hk. lia.
Qed.

Section Predict.
  Context {T A : Type} (O : Ops T).
  Implicit Types (nodes : list (node T A)) (row : list T) (nd : node T A).

  Definition next_child nd row : option nat :=
    if le_thr O (rowget O row (split_feature nd)) (split_value nd) then true_child nd else false_child nd.

  Inductive root_path nodes row : list nat -> nat -> Prop :=
  | rp_root : root_path nodes row [] 0
  | rp_step : forall p k nd c, root_path nodes row p k -> nth_error nodes k = Some nd -> leafb nd = false ->
      next_child nd row = Some c -> root_path nodes row (k :: p) c.

  Definition leaf_of nodes row (k : nat) : Prop :=
    exists p nd, root_path nodes row p k /\ nth_error nodes k = Some nd /\ leafb nd = true.

  (* `route` (ProofsGrow) is the same relation without the recorded path *)
  Lemma route_root_path nodes row k : route O nodes row k -> exists p, root_path nodes row p k.
  Proof.
    induction 1 as [|k nd c R [p IH] E L C Ch|k nd c R [p IH] E L C Ch].
    - exists []. constructor.
    - exists (k :: p). eapply rp_step; eauto. unfold next_child. rewrite C. exact Ch.
    - exists (k :: p). eapply rp_step; eauto. unfold next_child. rewrite C. exact Ch.
  Qed.

  Lemma root_path_route nodes row p k : root_path nodes row p k -> route O nodes row k.
  Proof.
    induction 1 as [|p k nd c P IH E L Nx]; [constructor|].
    unfold next_child in Nx. destruct (le_thr O (rowget O row (split_feature nd)) (split_value nd)) eqn:C.
    - eapply route_true; eauto.
    - eapply route_false; eauto.
  Qed.

  (* every node recorded in the path is an internal node *)
  Lemma root_path_internal nodes row p k : root_path nodes row p k ->
    forall j, In j p -> exists nd, nth_error nodes j = Some nd /\ leafb nd = false.
  Proof.
    induction 1 as [|p k nd c P IH E L Nx]; intros j Hj; [destruct Hj|].
    destruct Hj as [<-|Hj]; [exists nd; auto|apply IH; exact Hj].
  Qed.

  (* the path is a function of the row: of two paths the shorter is a suffix of the longer, and its
     end point is the next node recorded in the longer one *)
  Lemma root_path_cmp nodes row : forall p' k', root_path nodes row p' k' ->
    forall p k, root_path nodes row p k -> length p <= length p' ->
      (p' = p /\ k' = k) \/ (exists q, p' = q ++ k :: p).
  Proof.
    induction 1 as [|p0 k0 nd c P0 IH E L Nx]; intros p k P Hlen.
    - destruct p; [|cbn in Hlen; lia]. inversion P; subst. left. auto.
    - cbn [length] in Hlen. destruct (Nat.eq_dec (length p) (S (length p0))) as [Eq|Ne].
      + inversion P as [|p1 k1 nd1 c1 P1 E1 L1 Nx1]; subst; [cbn in Eq; lia|].
        cbn [length] in Eq.
        destruct (IH p1 k1 P1) as [[-> ->]|[q Hq]]; [lia| |].
        * rewrite E in E1. inversion E1; subst nd1. rewrite Nx in Nx1. inversion Nx1; subst. left. auto.
        * exfalso. rewrite Hq, app_length in Eq. cbn [length] in Eq. lia.
      + destruct (IH p k P) as [[-> ->]|[q Hq]]; [lia| |].
        * right. exists []. reflexivity.
        * right. exists (k0 :: q). rewrite Hq. reflexivity.
  Qed.

  Lemma root_path_leaf_unique nodes row p k nd p' k' nd' :
    root_path nodes row p k -> nth_error nodes k = Some nd -> leafb nd = true ->
    root_path nodes row p' k' -> nth_error nodes k' = Some nd' -> leafb nd' = true ->
    p' = p /\ k' = k.
  Proof.
    intros P E L P' E' L'.
    destruct (Nat.le_ge_cases (length p) (length p')) as [Hl|Hl].
    - destruct (root_path_cmp nodes row p' k' P' p k P Hl) as [H|[q Hq]]; [exact H|].
      exfalso. destruct (root_path_internal nodes row p' k' P' k) as (nd2 & E2 & L2).
      { rewrite Hq. apply in_or_app. right. left. reflexivity. }
      congruence.
    - destruct (root_path_cmp nodes row p k P p' k' P' Hl) as [[-> ->]|[q Hq]]; [auto|].
      exfalso. destruct (root_path_internal nodes row p k P k') as (nd2 & E2 & L2).
      { rewrite Hq. apply in_or_app. right. left. reflexivity. }
      congruence.
  Qed.

  Lemma leaf_of_unique nodes row k k' : leaf_of nodes row k -> leaf_of nodes row k' -> k' = k.
  Proof.
    intros (p & nd & P & E & L) (p' & nd' & P' & E' & L').
    exact (proj2 (root_path_leaf_unique nodes row p k nd p' k' nd' P E L P' E' L')).
  Qed.

  Lemma leaf_of_route nodes row k : leaf_of nodes row k -> route O nodes row k.
  Proof. intros (p & nd & P & _). exact (root_path_route nodes row p k P). Qed.

  Lemma route_leaf_of nodes row k nd : route O nodes row k -> nth_error nodes k = Some nd -> leafb nd = true ->
    leaf_of nodes row k.
  Proof. intros R E L. destruct (route_root_path nodes row k R) as [p P]. exists p, nd. auto. Qed.

  (* two routed leaves coincide (in the vocabulary of the growth theorems) *)
  Lemma route_leaf_unique nodes row k nd k' nd' :
    route O nodes row k -> nth_error nodes k = Some nd -> leafb nd = true ->
    route O nodes row k' -> nth_error nodes k' = Some nd' -> leafb nd' = true -> k' = k.
  Proof.
    intros R E L R' E' L'. apply (leaf_of_unique nodes row); eapply route_leaf_of; eauto.
  Qed.

  (* under the growth invariant (children have larger indices than their parent) node indices grow
     strictly along the path, hence a path has fewer steps than there are nodes *)
  Lemma root_path_increasing nodes row p k : wf_treeb nodes = true -> root_path nodes row p k ->
    k < length nodes /\ Forall (fun j => j < k) p /\ length p <= k.
  Proof.
    intros WF. induction 1 as [|p k nd c P (IH1 & IH2 & IH3) E L Nx].
    - split; [|split; [constructor|cbn; lia]].
      unfold wf_treeb in WF. apply andb_prop in WF as [W _]. apply Nat.ltb_lt in W. exact W.
    - pose proof (wf_treeb_nth nodes k nd WF E) as W. unfold wf_nodeb in W.
      assert (Hc : k < c < length nodes).
      { unfold next_child in Nx.
        destruct (true_child nd) as [tc|] eqn:Et; destruct (false_child nd) as [fc|] eqn:Ef; try discriminate.
        - apply andb_prop in W as [W W4]. apply andb_prop in W as [W W3]. apply andb_prop in W as [W1 W2].
          apply Nat.ltb_lt in W1, W2, W3, W4.
          destruct (le_thr O (rowget O row (split_feature nd)) (split_value nd)); inversion Nx; subst; lia.
        - unfold leafb in L. rewrite Et, Ef in L. discriminate. }
      split; [lia|]. split; [|cbn [length]; lia].
      constructor; [lia|]. eapply Forall_impl; [|exact IH2]. cbn. intros j Hj. lia.
  Qed.

  (* predict_leaf: on every node array satisfying the growth invariant predict_for_row does not run out
     of fuel and returns the output of THE leaf at the end of the row's path *)
  Lemma predict_leaf nodes row : wf_treeb nodes = true ->
    exists p k nd, root_path nodes row p k /\ nth_error nodes k = Some nd /\ leafb nd = true /\
      predict_for_row O nodes row = Some (output nd) /\
      length p < length nodes /\ Forall (fun j => j < k) p /\
      forall p' k' nd', root_path nodes row p' k' -> nth_error nodes k' = Some nd' -> leafb nd' = true ->
        p' = p /\ k' = k.
  Proof.
    intros WF. destruct (predict_routes O nodes row WF) as (k & nd & R & E & L & Pr).
    destruct (route_root_path nodes row k R) as [p P].
    destruct (root_path_increasing nodes row p k WF P) as (I1 & I2 & I3).
    exists p, k, nd. split; [exact P|]. split; [exact E|]. split; [exact L|]. split; [exact Pr|].
    split; [lia|]. split; [exact I2|].
    intros p' k' nd' P' E' L'. exact (root_path_leaf_unique nodes row p k nd p' k' nd' P E L P' E' L').
  Qed.

  Lemma predict_leaf_of nodes row (a0 : A) : wf_treeb nodes = true ->
    exists k, leaf_of nodes row k /\ k < length nodes /\
      predict_for_row O nodes row = Some (output (nth k nodes (dnode a0))).
  Proof.
    intros WF. destruct (predict_leaf nodes row WF) as (p & k & nd & P & E & L & Pr & _).
    exists k. split; [exists p, nd; auto|].
    destruct (nth_error_nth' nodes k (dnode a0) nd E) as [-> Hk]. auto.
  Qed.
End Predict.

(* ---------- the batch functions ---------- *)
(* predict_regressor: one output per row, each the output of the leaf of that row *)
Lemma predict_regressor_leaves {T} (O : Ops T) (nodes : list (node T T)) (rows : list (list T)) :
  wf_treeb nodes = true ->
  exists outs, predict_regressor O nodes rows = Some outs /\ length outs = length rows /\
    forall i, i < length rows ->
      exists k, leaf_of O nodes (nth i rows []) k /\ k < length nodes /\
                nth i outs (o0 O) = output (nth k nodes (dnode (o0 O))).
Proof.
  intros WF. unfold predict_regressor.
  destruct (mapM_total (predict_for_row O nodes) rows) as [outs E].
  { intros row _. destruct (predict_leaf_of O nodes row (o0 O) WF) as (k & _ & _ & Pr). eexists; exact Pr. }
  exists outs. split; [exact E|]. apply mapM_nth' in E as [L N]. split; [exact L|].
  intros i Hi. destruct (predict_leaf_of O nodes (nth i rows []) (o0 O) WF) as (k & Lf & Hk & Pr).
  exists k. split; [exact Lf|]. split; [exact Hk|].
  specialize (N i [] (o0 O) Hi). rewrite Pr in N. inversion N. reflexivity.
Qed.

(* predict_classifier: needs in addition that leaf outputs index into `classes` *)
Lemma predict_classifier_leaves {T} (O : Ops T) (classes : list T) (nodes : list (node T nat)) (rows : list (list T)) :
  wf_treeb nodes = true ->
  (forall k, k < length nodes -> leafb (nth k nodes (dnode 0)) = true ->
             output (nth k nodes (dnode 0)) < length classes) ->
  exists labels, predict_classifier O classes nodes rows = Some labels /\ length labels = length rows /\
    forall i, i < length rows ->
      exists k, leaf_of O nodes (nth i rows []) k /\ k < length nodes /\
                output (nth k nodes (dnode 0)) < length classes /\
                nth i labels (o0 O) = nth (output (nth k nodes (dnode 0))) classes (o0 O).
Proof.
  intros WF Hc. unfold predict_classifier.
  set (f := fun row => match predict_for_row O nodes row with
                       | Some c => nth_error classes c | None => None end).
  assert (F : forall row, exists k, leaf_of O nodes row k /\ k < length nodes /\
                output (nth k nodes (dnode 0)) < length classes /\
                f row = Some (nth (output (nth k nodes (dnode 0))) classes (o0 O))).
  { intros row. destruct (predict_leaf_of O nodes row 0 WF) as (k & Lf & Hk & Pr).
    exists k. split; [exact Lf|]. split; [exact Hk|].
    assert (Lk : leafb (nth k nodes (dnode 0)) = true).
    { destruct Lf as (p & nd & _ & E & L). destruct (nth_error_nth' nodes k (dnode 0) nd E) as [-> _]. exact L. }
    specialize (Hc k Hk Lk). split; [exact Hc|]. unfold f. rewrite Pr. apply nth_nth_error. exact Hc. }
  destruct (mapM_total f rows) as [labels E].
  { intros row _. destruct (F row) as (k & _ & _ & _ & Fr). eexists; exact Fr. }
  exists labels. split; [exact E|]. apply mapM_nth' in E as [L N]. split; [exact L|].
  intros i Hi. destruct (F (nth i rows [])) as (k & Lf & Hk & Hck & Fr).
  exists k. split; [exact Lf|]. split; [exact Hk|]. split; [exact Hck|].
  specialize (N i [] (o0 O) Hi). rewrite Fr in N. inversion N. reflexivity.
Qed.

(* ---------- training rows: the leaf a training row is predicted from is the leaf whose ghost sample
   vector counts it (any number type, any split search: in particular binary64 and both trees) ---------- *)
Lemma nth_le_sum_nat (l : list nat) i : nth i l 0 <= sum_nat l.
Proof.
  unfold sum_nat. revert i. induction l as [|a t IH]; intros i; [destruct i; cbn; lia|].
  cbn [fold_left]. rewrite sum_nat_acc. destruct i; cbn [nth]; [lia|]. specialize (IH i). lia.
Qed.

Lemma predict_training_row_structure {T A} (O : Ops T) (a0 : A) x msl out_ok samples nodes G D i :
  tree_consistent O a0 x msl out_ok samples nodes G D -> i < length x ->
  exists k, leaf_of O nodes (nth i x []) k /\ k < length nodes /\ leafb (nth k nodes (dnode a0)) = true /\
    predict_for_row O nodes (nth i x []) = Some (output (nth k nodes (dnode a0))) /\
    nth i (G k) 0 = nth i samples 0 /\
    (forall k', k' < length nodes -> leafb (nth k' nodes (dnode a0)) = true -> k' <> k -> nth i (G k') 0 = 0) /\
    nth i samples 0 <= sum_nat (G k).
Proof.
  intros C Hi. pose proof (consistent_wf O a0 x msl out_ok samples nodes G D C) as WF.
  destruct (predict_leaf_of O nodes (nth i x []) a0 WF) as (k & Lf & Hk & Pr).
  exists k. split; [exact Lf|]. split; [exact Hk|].
  assert (Lk : leafb (nth k nodes (dnode a0)) = true).
  { destruct Lf as (p & nd & _ & E & L). destruct (nth_error_nth' nodes k (dnode a0) nd E) as [-> _]. exact L. }
  split; [exact Lk|]. split; [exact Pr|].
  pose proof (proj1 (samples_routed O a0 x msl out_ok samples nodes G D i k C Hi Hk)
                    (leaf_of_route O nodes _ k Lf)) as Gk.
  split; [exact Gk|]. split.
  - intros k' Hk' Lk' Ne.
    apply (proj2 (samples_routed O a0 x msl out_ok samples nodes G D i k' C Hi Hk')).
    intros R. apply Ne. apply (leaf_of_unique O nodes (nth i x []) k k' Lf).
    eapply route_leaf_of; [exact R|apply nth_nth_error; exact Hk'|exact Lk'].
  - rewrite <- Gk. apply nth_le_sum_nat.
Qed.
