(* C05 — the growth invariant of ProofsGrow.v, strengthened (same ghost vectors G, D) by what the
   greedy-optimality and completeness theorems need:
   - every internal node carries the split that `find` returned on (its id, its output, G id);
   - every leaf that is no longer queued is a leaf because `find` returned None on it, or because
     the re-validation of the found split in `split` failed (a part smaller than min_samples_leaf);
   - depth <= number of nodes (so that the 65535 stand-in for "no depth limit" is never reached by
     a tree with fewer nodes).
   The proof of `split_full` repeats that of ProofsGrow.split_inv (whose witnesses are hidden
   behind its existential) and threads the additional facts through it. *)
From Coq Require Import List Arith Bool Lia.
From SC Require Import Base.Num C05.Model C05.ProofsGrow.
Import ListNotations.

Section GrowFull.
  Context {T A : Type} (O : Ops T) (a0 : A).
  Variable x : list (list T).
  Variable msl : nat.
  Variable find : nat -> A -> list nat -> option (cand T A).
  Variable out_ok : list nat -> A -> Prop.
  Hypothesis find_ok : forall id out s c, find id out s = Some c -> out_ok s out ->
      out_ok (true_part O x s c.(c_feat) (Some c.(c_val))) c.(c_tco) /\
      out_ok (false_part O x s c.(c_feat) (Some c.(c_val))) c.(c_fco).

  Local Notation dn := (dnode a0).

  (* node `n` with record `nd` and sample vector `g` *)
  Definition from_find (nd : node T A) (g : list nat) (n : nat) : Prop :=
    exists c, find n (output nd) g = Some c /\ split_feature nd = c_feat c /\ split_value nd = Some (c_val c).
  Definition leaf_reason (nd : node T A) (g : list nat) (n : nat) : Prop :=
    find n (output nd) g = None \/
    exists c, find n (output nd) g = Some c /\
      (sum_nat (true_part O x g (c_feat c) (Some (c_val c))) < msl \/
       sum_nat (false_part O x g (c_feat c) (Some (c_val c))) < msl).
  Definition node_ext (nd : node T A) (g : list nat) (n : nat) (qs : list nat) : Prop :=
    if leafb nd then In n qs \/ leaf_reason nd g n else from_find nd g n.
  Definition ext_inv (nodes : list (node T A)) (G : nat -> list nat) (qs : list nat) : Prop :=
    forall n, n < length nodes -> node_ext (nth n nodes dn) (G n) n qs.

  Lemma node_ext_mono nd g n qs qs' : (forall k, In k qs -> In k qs') -> node_ext nd g n qs -> node_ext nd g n qs'.
  Proof. unfold node_ext. destruct (leafb nd); [|auto]. intros H [I|R]; [left; auto|right; exact R]. Qed.

  Lemma fbc_none nodes v nodes' v' :
    find_best_cutoff a0 find nodes v = (nodes', v', false) ->
    nodes' = nodes /\ find (v_node v) (output (nth (v_node v) nodes dn)) (v_samples v) = None.
  Proof.
    unfold find_best_cutoff.
    destruct (find (v_node v) (output (nth (v_node v) nodes dn)) (v_samples v)) as [c|] eqn:F; intros H;
      inversion H; subst. auto.
  Qed.

  (* find_best_cutoff on the fresh leaf `id`; P selects the nodes already known to be in order *)
  Lemma fbc_ext (P : nat -> Prop) nodes G qs id smp lvl nodes' v' b :
    find_best_cutoff a0 find nodes (mkVis id smp a0 a0 lvl) = (nodes', v', b) ->
    id < length nodes -> leafb (nth id nodes dn) = true -> G id = smp ->
    (forall n, n < length nodes -> n <> id -> P n -> node_ext (nth n nodes dn) (G n) n qs) ->
    forall n, n < length nodes' -> n = id \/ P n ->
      node_ext (nth n nodes' dn) (G n) n (if b then qs ++ [id] else qs).
  Proof.
    intros F Hid L HG Hn. pose proof F as F0.
    apply fbc_spec in F; [|exact Hid|exact L]. cbn [v_node v_samples v_level] in F.
    destruct F as ((HL & HN & L1 & L2 & HO) & _).
    intros n Hlt HP. rewrite HL in Hlt. destruct (Nat.eq_dec n id) as [->|Ne].
    - unfold node_ext. rewrite L2. destruct b.
      + left. apply in_or_app. right. left. reflexivity.
      + right. left. apply fbc_none in F0 as [-> F0]. cbn [v_node v_samples] in F0. rewrite HG. exact F0.
    - destruct HP as [HP|HP]; [congruence|].
      rewrite (HN n Ne). eapply node_ext_mono; [|apply Hn; assumption].
      intros k Hk. destruct b; [apply in_or_app; left; exact Hk|exact Hk].
  Qed.

  Definition state_full (samples0 : list nat) (md : nat) (nodes : list (node T A)) (depth : nat)
             (queue : list (visitor A)) : Prop :=
    exists G D, tree_consistent O a0 x msl out_ok samples0 nodes G D /\ (forall k, k < length nodes -> D k <= md) /\
                Forall (q_inv a0 find nodes G D depth) queue /\ NoDup (map v_node queue) /\
                ext_inv nodes G (map v_node queue) /\ depth <= length nodes.

  Lemma split_full s md nodes depth v rest nodes' depth' queue' :
    state_full s md nodes depth (v :: rest) -> depth < md ->
    split O a0 x msl find nodes depth v rest = (nodes', depth', queue') ->
    state_full s md nodes' depth' queue'.
  Proof.
    intros (G & D & C & HD & Q & ND & EX & DL) Hmd HS.
    inversion Q as [|v0 r0 Qv Qr]; subst v0 r0.
    cbn [map] in ND. inversion ND as [|n0 l0 NIv NDr]; subst n0 l0.
    destruct Qv as (Hv & Lv & Gv & (c & Fc & Sf & Sv & Tco & Fco) & Dv & Lev).
    unfold split in HS.
    set (nd := nth (v_node v) nodes dn) in *.
    set (ts := true_part O x (v_samples v) (split_feature nd) (split_value nd)) in *.
    set (fs := false_part O x (v_samples v) (split_feature nd) (split_value nd)) in *.
    destruct ((sum_nat ts <? msl) || (sum_nat fs <? msl)) eqn:Guard.
    - (* re-validation fails: the node is reset and stays a leaf *)
      inversion HS; subst; clear HS.
      assert (U : upd_at a0 (v_node v) nodes
                    (set_nth nodes (v_node v) (mkNode (output nd) 0 None None (true_child nd) (false_child nd)))).
      { unfold upd_at. rewrite set_nth_length. split; auto. split.
        - intros k Ne. apply nth_set_nth_neq; auto.
        - rewrite nth_set_nth_eq by auto. pose proof (leafb_children _ Lv) as [E1 E2].
          fold nd in E1, E2. unfold leafb in *. cbn. rewrite E1, E2. auto. }
      exists G, D. split; [eapply consistent_upd; eauto|].
      split; [destruct U as (HL & _); rewrite HL; auto|]. split; [|split; [auto|split]].
      + rewrite Forall_forall in *. intros w Hw. eapply q_inv_upd; eauto.
        intros E. apply NIv. rewrite <- E. apply in_map. exact Hw.
      + destruct U as (HL & HN & L1 & L2 & HO). intros n Hn. rewrite HL in Hn.
        destruct (Nat.eq_dec n (v_node v)) as [->|Ne].
        * unfold node_ext. rewrite L2. right. right. exists c. rewrite HO. fold nd. rewrite Gv.
          split; [exact Fc|]. fold nd in Sf, Sv. rewrite <- Sf, <- Sv. fold ts fs.
          apply orb_prop in Guard as [Gd|Gd]; apply Nat.ltb_lt in Gd; auto.
        * rewrite (HN n Ne). specialize (EX n Hn). unfold node_ext in *.
          destruct (leafb (nth n nodes dn)); [|exact EX].
          destruct EX as [[E|I]|R]; [congruence|left; exact I|right; exact R].
      + destruct U as (HL & _). rewrite HL. exact DL.
    - apply orb_false_elim in Guard as [G1 G2]. apply Nat.ltb_ge in G1, G2.
      set (ti := length nodes) in *.
      set (nodes1 := nodes ++ [new_node (v_tco v); new_node (v_fco v)]) in *.
      set (nodes2 := set_nth nodes1 (v_node v)
                       (mkNode (output nd) (split_feature nd) (split_value nd) (split_score nd)
                               (Some ti) (Some (S ti)))) in *.
      set (G' := fun k => if k =? ti then ts else if k =? S ti then fs else G k).
      set (D' := fun k => if (k =? ti) || (k =? S ti) then v_level v else D k).
      assert (len1 : length nodes1 = ti + 2) by (unfold nodes1; rewrite app_length; cbn; lia).
      assert (len2 : length nodes2 = ti + 2) by (unfold nodes2; rewrite set_nth_length; auto).
      assert (N_old : forall k, k < ti -> k <> v_node v -> nth k nodes2 dn = nth k nodes dn).
      { intros k Hk Ne. unfold nodes2. rewrite nth_set_nth_neq by auto. unfold nodes1. apply app_nth1. exact Hk. }
      assert (N_v : nth (v_node v) nodes2 dn =
                    mkNode (output nd) (split_feature nd) (split_value nd) (split_score nd) (Some ti) (Some (S ti))).
      { unfold nodes2. apply nth_set_nth_eq. lia. }
      assert (N_ti : nth ti nodes2 dn = new_node (v_tco v)).
      { unfold nodes2. rewrite nth_set_nth_neq by (unfold ti; lia). unfold nodes1.
        rewrite app_nth2 by (unfold ti; lia). replace (ti - length nodes) with 0 by (unfold ti; lia). reflexivity. }
      assert (N_fi : nth (S ti) nodes2 dn = new_node (v_fco v)).
      { unfold nodes2. rewrite nth_set_nth_neq by (unfold ti; lia). unfold nodes1.
        rewrite app_nth2 by (unfold ti; lia). replace (S ti - length nodes) with 1 by (unfold ti; lia). reflexivity. }
      assert (G_old : forall k, k < ti -> G' k = G k).
      { intros k Hk. unfold G'. destruct (k =? ti) eqn:E1; [apply Nat.eqb_eq in E1; lia|].
        destruct (k =? S ti) eqn:E2; [apply Nat.eqb_eq in E2; lia|]. reflexivity. }
      assert (D_old : forall k, k < ti -> D' k = D k).
      { intros k Hk. unfold D'. destruct (k =? ti) eqn:E1; [apply Nat.eqb_eq in E1; lia|].
        destruct (k =? S ti) eqn:E2; [apply Nat.eqb_eq in E2; lia|]. reflexivity. }
      assert (G_ti : G' ti = ts) by (unfold G'; rewrite Nat.eqb_refl; reflexivity).
      assert (G_fi : G' (S ti) = fs).
      { unfold G'. destruct (S ti =? ti) eqn:E1; [apply Nat.eqb_eq in E1; lia|]. rewrite Nat.eqb_refl. reflexivity. }
      assert (D_ti : D' ti = v_level v) by (unfold D'; rewrite Nat.eqb_refl; reflexivity).
      assert (D_fi : D' (S ti) = v_level v) by (unfold D'; rewrite Nat.eqb_refl, orb_true_r; reflexivity).
      pose proof C as C0. destruct C as [c1 c2 c3 c4 c5 c6 c7].
      assert (Lnd : true_child nd = None /\ false_child nd = None) by (apply leafb_children; exact Lv).
      assert (C2 : tree_consistent O a0 x msl out_ok s nodes2 G' D').
      { constructor.
        - lia.
        - rewrite G_old by (unfold ti; lia). exact c2.
        - rewrite D_old by (unfold ti; lia). exact c3.
        - intros k Hk. rewrite len2 in Hk. unfold node_inv.
          destruct (Nat.eq_dec k (v_node v)) as [->|Ne].
          + right. rewrite N_v. cbn. exists ti. rewrite len2.
            rewrite G_ti, G_fi, D_ti, D_fi, G_old, D_old by exact Hv. rewrite Gv.
            repeat split; auto; try lia.
          + destruct (Nat.lt_ge_cases k ti) as [Hlt|Hge].
            * rewrite N_old by auto. destruct (c4 k Hlt) as [Lf|(tc & I1 & I2 & I3 & I4 & I5 & I6 & I7 & I8)].
              -- left. exact Lf.
              -- right. exists tc. rewrite len2. fold ti in I4.
                 rewrite !G_old, !D_old by lia. repeat split; auto; lia.
            * left. assert (k = ti \/ k = S ti) as [->| ->] by lia.
              -- rewrite N_ti. reflexivity.
              -- rewrite N_fi. reflexivity.
        - intros k Hk. rewrite len2 in Hk. destruct (Nat.lt_ge_cases k ti) as [Hlt|Hge].
          + destruct (c5 k (conj (proj1 Hk) Hlt)) as (j & Hj & Hc). exists j. split; auto.
            unfold is_child in *. rewrite N_old; auto; try lia.
            intros ->. fold nd in Hc. destruct Lnd as [E1 E2]. rewrite E1, E2 in Hc. destruct Hc; discriminate.
          + exists (v_node v). split; [lia|]. unfold is_child. rewrite N_v. cbn.
            assert (k = ti \/ k = S ti) as [->| ->] by lia; auto.
        - intros k Hk. rewrite len2 in Hk. destruct (Nat.lt_ge_cases k ti) as [Hlt|Hge].
          + rewrite G_old by auto. apply c6. lia.
          + assert (k = ti \/ k = S ti) as [->| ->] by lia.
            * rewrite G_ti. exact G1.
            * rewrite G_fi. exact G2.
        - intros k Hk. rewrite len2 in Hk.
          pose proof (find_ok _ _ _ _ Fc) as FO. fold nd in FO. rewrite <- Gv in FO.
          specialize (FO (c7 _ Hv)). rewrite Gv in FO. fold nd in Sf, Sv.
          rewrite <- Sf, <- Sv in FO. fold ts fs in FO. destruct FO as [FO1 FO2].
          destruct (Nat.lt_ge_cases k ti) as [Hlt|Hge].
          + rewrite G_old by auto. destruct (Nat.eq_dec k (v_node v)) as [->|Ne].
            * rewrite N_v. cbn. apply c7. exact Hv.
            * rewrite N_old by auto. apply c7. exact Hlt.
          + assert (k = ti \/ k = S ti) as [->| ->] by lia.
            * rewrite G_ti, N_ti. cbn. rewrite Tco. exact FO1.
            * rewrite G_fi, N_fi. cbn. rewrite Fco. exact FO2. }
      set (depth2 := Nat.max depth (S (v_level v))) in *.
      assert (HD2 : forall k, k < length nodes2 -> D' k <= md).
      { intros k Hk. rewrite len2 in Hk. destruct (Nat.lt_ge_cases k ti) as [Hlt|Hge].
        - rewrite D_old by auto. apply HD. exact Hlt.
        - assert (k = ti \/ k = S ti) as [->| ->] by lia; rewrite ?D_ti, ?D_fi; lia. }
      assert (Q2 : Forall (q_inv a0 find nodes2 G' D' depth2) rest).
      { rewrite Forall_forall in *. intros w Hw. destruct (Qr w Hw) as (W1 & W2 & W3 & W4 & W5 & W6).
        assert (Ne : v_node w <> v_node v).
        { intros E. apply NIv. rewrite <- E. apply in_map. exact Hw. }
        unfold q_inv. rewrite len2, N_old, G_old, D_old by auto.
        repeat split; auto; unfold depth2; lia. }
      assert (NI_ti : ~ In ti (map v_node rest)).
      { intros HI. apply in_map_iff in HI as (w & E & Hw). rewrite Forall_forall in Qr.
        destruct (Qr w Hw) as (W1 & _). unfold ti in E. lia. }
      assert (NI_fi : ~ In (S ti) (map v_node rest)).
      { intros HI. apply in_map_iff in HI as (w & E & Hw). rewrite Forall_forall in Qr.
        destruct (Qr w Hw) as (W1 & _). unfold ti in E. lia. }
      (* the additional facts on nodes2, for every node except the two fresh leaves *)
      assert (EX2 : forall n, n < length nodes2 -> n <> ti -> n <> S ti ->
                      node_ext (nth n nodes2 dn) (G' n) n (map v_node rest)).
      { intros n Hn N1 N2. rewrite len2 in Hn. assert (Hlt : n < ti) by lia. rewrite G_old by exact Hlt.
        destruct (Nat.eq_dec n (v_node v)) as [->|Ne].
        - unfold node_ext. rewrite N_v. cbn [leafb true_child false_child]. exists c.
          cbn [output split_feature split_value]. fold nd in Sf, Sv. rewrite Gv. auto.
        - rewrite N_old by auto. specialize (EX n Hlt). unfold node_ext in *.
          destruct (leafb (nth n nodes dn)); [|exact EX].
          destruct EX as [[E|I]|R]; [congruence|left; exact I|right; exact R]. }
      destruct (find_best_cutoff a0 find nodes2 (mkVis ti ts a0 a0 (S (v_level v)))) as [[nodes3 tv] tb] eqn:F1.
      destruct (find_best_cutoff a0 find nodes3 (mkVis (S ti) fs a0 a0 (S (v_level v)))) as [[nodes4 fv] fb] eqn:F2.
      inversion HS; subst nodes' depth' queue'; clear HS.
      assert (A1 : ti < length nodes2) by (rewrite len2; lia).
      assert (A2 : leafb (nth ti nodes2 dn) = true) by (rewrite N_ti; reflexivity).
      assert (A3 : S (D' ti) = S (v_level v)) by (rewrite D_ti; reflexivity).
      assert (A4 : S (v_level v) <= Nat.max 1 depth2) by (unfold depth2; lia).
      destruct (fbc_inv O a0 x msl find out_ok s md nodes2 depth2 rest ti ts (S (v_level v)) nodes3 tv tb G' D'
                        C2 HD2 Q2 NDr A1 A2 NI_ti G_ti A3 A4 F1) as (C3 & len3 & Q3 & ND3 & N3).
      assert (HD3 : forall k, k < length nodes3 -> D' k <= md) by (rewrite len3; exact HD2).
      assert (B1 : S ti < length nodes3) by (rewrite len3, len2; lia).
      assert (B2 : leafb (nth (S ti) nodes3 dn) = true) by (rewrite N3 by lia; rewrite N_fi; reflexivity).
      assert (B3 : S (D' (S ti)) = S (v_level v)) by (rewrite D_fi; reflexivity).
      assert (Etv : tb = true -> v_node tv = ti).
      { intros _. apply fbc_spec in F1 as (_ & E1 & _); [|cbn; exact A1|cbn; exact A2]. exact E1. }
      assert (Efv : fb = true -> v_node fv = S ti).
      { intros _. apply fbc_spec in F2 as (_ & E1 & _); [|cbn; exact B1|cbn; exact B2]. exact E1. }
      assert (B0 : ~ In (S ti) (map v_node (if tb then rest ++ [tv] else rest))).
      { destruct tb; auto. rewrite map_app, in_app_iff. intros [HI|HI]; [auto|].
        cbn in HI. destruct HI as [HI|[]]. rewrite (Etv eq_refl) in HI. lia. }
      destruct (fbc_inv O a0 x msl find out_ok s md nodes3 depth2 (if tb then rest ++ [tv] else rest) (S ti) fs (S (v_level v))
                        nodes4 fv fb G' D' C3 HD3 Q3 ND3 B1 B2 B0 G_fi B3 A4 F2) as (C4 & len4 & Q4 & ND4 & N4).
      (* additional facts after the two searches *)
      assert (EX3 : forall n, n < length nodes3 -> n = ti \/ n <> S ti ->
                      node_ext (nth n nodes3 dn) (G' n) n (if tb then map v_node rest ++ [ti] else map v_node rest)).
      { apply (fbc_ext (fun n => n <> S ti) nodes2 G' (map v_node rest) ti ts (S (v_level v)) nodes3 tv tb F1 A1 A2 G_ti).
        intros n Hn N1 N2. apply EX2; assumption. }
      assert (EX4 : forall n, n < length nodes4 -> n = S ti \/ True ->
                      node_ext (nth n nodes4 dn) (G' n) n
                        (if fb then (if tb then map v_node rest ++ [ti] else map v_node rest) ++ [S ti]
                         else (if tb then map v_node rest ++ [ti] else map v_node rest))).
      { apply (fbc_ext (fun _ => True) nodes3 G' _ (S ti) fs (S (v_level v)) nodes4 fv fb F2 B1 B2 G_fi).
        intros n Hn N1 _. apply EX3; [exact Hn|right; exact N1]. }
      exists G', D'. split; auto. split; [rewrite len4; exact HD3|]. split; auto. split; auto. split.
      + intros n Hn. specialize (EX4 n Hn (or_intror I)).
        eapply node_ext_mono; [|exact EX4]. intros k Hk.
        destruct fb, tb; rewrite ?map_app; cbn [map]; rewrite ?Etv, ?Efv by reflexivity; exact Hk.
      + rewrite len4, len3, len2. unfold depth2.
        assert (v_level v <= Nat.max 1 depth) by exact Lev. unfold ti. lia.
  Qed.

  Lemma grow_full s md : forall fuel nodes depth queue nodes' d',
    state_full s md nodes depth queue ->
    grow O a0 x msl find fuel md nodes depth queue = Some (nodes', d') ->
    exists G D, tree_consistent O a0 x msl out_ok s nodes' G D /\ (forall k, k < length nodes' -> D k <= md) /\
      d' <= length nodes' /\
      (forall n, n < length nodes' -> leafb (nth n nodes' dn) = false -> from_find (nth n nodes' dn) (G n) n) /\
      (d' < md -> forall n, n < length nodes' -> leafb (nth n nodes' dn) = true -> leaf_reason (nth n nodes' dn) (G n) n).
  Proof.
    assert (Fin : forall nodes depth queue, state_full s md nodes depth queue -> (depth < md -> queue = []) ->
              exists G D, tree_consistent O a0 x msl out_ok s nodes G D /\ (forall k, k < length nodes -> D k <= md) /\
                depth <= length nodes /\
                (forall n, n < length nodes -> leafb (nth n nodes dn) = false -> from_find (nth n nodes dn) (G n) n) /\
                (depth < md -> forall n, n < length nodes -> leafb (nth n nodes dn) = true -> leaf_reason (nth n nodes dn) (G n) n)).
    { intros nodes depth queue (G & D & C & HD & Q & ND & EX & DL) Hq. exists G, D.
      split; [exact C|]. split; [exact HD|]. split; [exact DL|]. split.
      - intros n Hn L. specialize (EX n Hn). unfold node_ext in EX. rewrite L in EX. exact EX.
      - intros Hd n Hn L. specialize (EX n Hn). unfold node_ext in EX. rewrite L in EX.
        rewrite (Hq Hd) in EX. destruct EX as [[]|R]. exact R. }
    induction fuel as [|f IH]; intros nodes depth queue nodes' d' I H.
    - cbn [grow] in H. destruct (depth <? md) eqn:E.
      + destruct queue; [|discriminate]. inversion H; subst. apply (Fin _ _ [] I). auto.
      + inversion H; subst. apply (Fin _ _ queue I). apply Nat.ltb_ge in E. lia.
    - cbn [grow] in H. destruct (depth <? md) eqn:E.
      + destruct queue as [|v rest].
        * inversion H; subst. apply (Fin _ _ [] I). auto.
        * destruct (split O a0 x msl find nodes depth v rest) as [[n2 d2] q2] eqn:S.
          apply Nat.ltb_lt in E. eapply IH; [|exact H]. eapply split_full; eauto.
      + inversion H; subst. apply (Fin _ _ queue I). apply Nat.ltb_ge in E. lia.
  Qed.

  Lemma grow_tree_full root_out samples max_depth nodes d :
    out_ok samples root_out ->
    grow_tree O a0 x msl find root_out samples max_depth = Some (nodes, d) ->
    exists G D, tree_consistent O a0 x msl out_ok samples nodes G D /\
      (forall k, k < length nodes -> D k <= md_of max_depth) /\
      d <= length nodes /\
      (forall n, n < length nodes -> leafb (nth n nodes dn) = false -> from_find (nth n nodes dn) (G n) n) /\
      (d < md_of max_depth -> forall n, n < length nodes -> leafb (nth n nodes dn) = true ->
         leaf_reason (nth n nodes dn) (G n) n).
  Proof.
    intros HO H. unfold grow_tree in H.
    destruct (find_best_cutoff a0 find [new_node root_out] (mkVis 0 samples a0 a0 1)) as [[nodes0 v0] b0] eqn:F.
    fold (md_of max_depth) in H.
    assert (C0 : tree_consistent O a0 x msl out_ok samples [new_node root_out] (fun _ => samples) (fun _ => 0)).
    { constructor; cbn [length]; auto.
      - intros k Hk. left. assert (k = 0) as -> by lia. reflexivity.
      - intros k Hk. lia.
      - intros k Hk. lia.
      - intros k Hk. assert (k = 0) as -> by lia. exact HO. }
    assert (A1 : 0 < length [new_node (T:=T) root_out]) by (cbn; lia).
    assert (A2 : leafb (nth 0 [new_node (T:=T) root_out] dn) = true) by reflexivity.
    assert (A3 : ~ In 0 (map (v_node (A:=A)) [])) by (intros []).
    assert (A4 : forall k, k < length [new_node (T:=T) root_out] -> (fun _ : nat => 0) k <= md_of max_depth) by (intros; lia).
    destruct (fbc_inv O a0 x msl find out_ok samples (md_of max_depth) [new_node root_out] 0 [] 0 samples 1 nodes0 v0 b0
                      (fun _ => samples) (fun _ => 0) C0 A4 (Forall_nil _) (NoDup_nil _) A1 A2 A3 eq_refl eq_refl
                      (Nat.le_refl _) F) as (C1 & len1 & Q1 & ND1 & _).
    assert (EX1 : forall n, n < length nodes0 -> n = 0 \/ True ->
              node_ext (nth n nodes0 dn) ((fun _ => samples) n) n (if b0 then [] ++ [0] else [])).
    { apply (fbc_ext (fun _ => True) [new_node root_out] (fun _ => samples) [] 0 samples 1 nodes0 v0 b0 F A1 A2 eq_refl).
      intros n Hn Ne _. cbn in Hn. lia. }
    assert (Ev : b0 = true -> v_node v0 = 0).
    { intros _. apply fbc_spec in F as (_ & E1 & _); [exact E1|exact A1|exact A2]. }
    eapply grow_full; [|exact H]. exists (fun _ => samples), (fun _ => 0).
    split; auto. split; [rewrite len1; exact A4|]. split; auto. split; auto. split.
    - intros n Hn. specialize (EX1 n Hn (or_intror I)). eapply node_ext_mono; [|exact EX1].
      intros k Hk. destruct b0; [|exact Hk]. cbn [map app] in *. rewrite Ev by reflexivity. exact Hk.
    - rewrite len1. cbn. lia.
  Qed.
End GrowFull.
