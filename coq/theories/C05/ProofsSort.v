(* C05 — quick_argsort: the returned index vector is a permutation of 0..n-1 (any number type, any
   comparison behaviour, whenever the sort returns at all). *)
From Coq Require Import List Arith Bool Lia Permutation.
From SC Require Import Base.Num C05.Model C05.ProofsGrow.
Import ListNotations.

Lemma split_at {A} (l : list A) d : forall i, i < length l -> l = firstn i l ++ nth i l d :: skipn (S i) l.
Proof.
  induction l as [|h t IH]; intros i H; cbn in H; [lia|]. destruct i; cbn; [reflexivity|].
  f_equal. apply IH. lia.
Qed.
Lemma map_snd_combine_seq {A} (l : list A) : forall s, map snd (combine l (seq s (length l))) = seq s (length l).
Proof. induction l; intros s; cbn; [reflexivity|]. f_equal. apply IHl. Qed.

Section SortProofs.
  Context {T : Type} (O : Ops T).
  Notation arrT := (list (T * nat)).
  Definition cntp (arr : arrT) (x : nat) : nat := count_occ Nat.eq_dec (map snd arr) x.
  Definition ind1 (a x : nat) : nat := if Nat.eq_dec a x then 1 else 0.

  Lemma cntp_set_nth (arr : arrT) i p x : i < length arr ->
    cntp (set_nth arr i p) x + ind1 (snd (aget O arr i)) x = cntp arr x + ind1 (snd p) x.
  Proof.
    intros H. unfold set_nth. apply Nat.ltb_lt in H as E. rewrite E.
    pose proof (split_at arr (dpair O) i H) as Sp. unfold aget.
    replace (cntp arr x) with (cntp (firstn i arr ++ nth i arr (dpair O) :: skipn (S i) arr) x)
      by (rewrite <- Sp; reflexivity).
    unfold cntp, ind1. rewrite !map_app, !count_occ_app. cbn [map count_occ].
    destruct (Nat.eq_dec (snd p) x), (Nat.eq_dec (snd (nth i arr (dpair O))) x); lia.
  Qed.

  Lemma aget_set_nth_eq (arr : arrT) i p : i < length arr -> aget O (set_nth arr i p) i = p.
  Proof. intros. unfold aget. apply nth_set_nth_eq. auto. Qed.
  Lemma aget_set_nth_neq (arr : arrT) i k p : k <> i -> aget O (set_nth arr i p) k = aget O arr k.
  Proof. intros. unfold aget. apply nth_set_nth_neq. auto. Qed.

  Lemma swap_length (arr : arrT) i j : length (swap O arr i j) = length arr.
  Proof. unfold swap. rewrite !set_nth_length. reflexivity. Qed.

  Lemma swap_cntp (arr : arrT) i j x : i < length arr -> j < length arr -> cntp (swap O arr i j) x = cntp arr x.
  Proof.
    intros Hi Hj. unfold swap.
    pose proof (cntp_set_nth arr i (aget O arr j) x Hi) as E1.
    assert (Hj' : j < length (set_nth arr i (aget O arr j))) by (rewrite set_nth_length; auto).
    pose proof (cntp_set_nth _ j (aget O arr i) x Hj') as E2.
    assert (E3 : aget O (set_nth arr i (aget O arr j)) j = aget O arr j).
    { destruct (Nat.eq_dec j i) as [->|Ne]; [apply aget_set_nth_eq; auto|apply aget_set_nth_neq; auto]. }
    rewrite E3 in E2. lia.
  Qed.

  Lemma swap_aget_other (arr : arrT) i j k : k <> i -> k <> j -> aget O (swap O arr i j) k = aget O arr k.
  Proof. intros. unfold swap. rewrite !aget_set_nth_neq by auto. reflexivity. Qed.

  (* insertion pass *)
  Lemma ins_shift_length a : forall cnt (arr : arrT) i1, length (ins_shift O arr a cnt i1) = length arr.
  Proof.
    induction cnt as [|c IH]; intros arr i1; cbn [ins_shift]; [apply set_nth_length|].
    destruct (oleb O (key O arr (i1 - 1)) (fst a)); [apply set_nth_length|]. rewrite IH. apply set_nth_length.
  Qed.
  Lemma ins_shift_cntp a x : forall cnt (arr : arrT) i1, i1 < length arr -> cnt <= i1 ->
    cntp (ins_shift O arr a cnt i1) x = cntp (set_nth arr i1 a) x.
  Proof.
    induction cnt as [|c IH]; intros arr i1 Hi Hc; cbn [ins_shift]; [reflexivity|].
    destruct (oleb O (key O arr (i1 - 1)) (fst a)); [reflexivity|].
    set (i := i1 - 1). assert (Hii : i < i1) by (unfold i; lia).
    set (A := set_nth arr i1 (aget O arr i)).
    assert (HA : length A = length arr) by (unfold A; apply set_nth_length).
    rewrite IH by (rewrite ?HA; lia).
    pose proof (cntp_set_nth arr i1 (aget O arr i) x Hi) as E1. fold A in E1.
    assert (HiA : i < length A) by (rewrite HA; lia).
    pose proof (cntp_set_nth A i a x HiA) as E2.
    assert (E3 : aget O A i = aget O arr i) by (unfold A; apply aget_set_nth_neq; lia).
    rewrite E3 in E2.
    pose proof (cntp_set_nth arr i1 a x Hi) as E4. lia.
  Qed.
  Lemma insertion_inv (arr : arrT) l ir : ir < length arr ->
    length (insertion O arr l ir) = length arr /\ forall x, cntp (insertion O arr l ir) x = cntp arr x.
  Proof.
    intros Hir. unfold insertion.
    assert (G : forall js (a : arrT), (forall j, In j js -> j <= ir) -> length a = length arr ->
              (forall x, cntp a x = cntp arr x) ->
              let r := fold_left (fun arr j => ins_shift O arr (aget O arr j) (j - l) j) js a in
              length r = length arr /\ forall x, cntp r x = cntp arr x).
    { induction js as [|j js IH]; intros a Hjs Ha Hc; cbn [fold_left]; [auto|].
      apply IH.
      - intros j' Hj'. apply Hjs. right. exact Hj'.
      - rewrite ins_shift_length. exact Ha.
      - intros x. assert (Hj : j < length a) by (rewrite Ha; specialize (Hjs j (or_introl eq_refl)); lia).
        rewrite ins_shift_cntp by (auto; lia).
        pose proof (cntp_set_nth a j (aget O a j) x Hj). rewrite <- Hc. lia. }
    apply G; auto. intros j Hj. apply in_seq in Hj. lia.
  Qed.

  (* partition *)
  Lemma scan_up_lt a (arr : arrT) : forall fuel i i', scan_up O fuel arr a i = Some i' -> i < i' < length arr.
  Proof.
    induction fuel as [|f IH]; intros i i' H; cbn [scan_up] in H; [discriminate|].
    destruct (S i <? length arr) eqn:E; [|discriminate]. apply Nat.ltb_lt in E.
    destruct (oleb O a (key O arr (S i))).
    - inversion H; subst. lia.
    - apply IH in H. lia.
  Qed.
  Lemma scan_down_lt a (arr : arrT) : forall fuel j j', scan_down O fuel arr a j = Some j' -> j' < j /\ j' < length arr.
  Proof.
    induction fuel as [|f IH]; intros j j' H; cbn [scan_down] in H; [discriminate|].
    destruct j as [|j0]; [discriminate|].
    destruct (j0 <? length arr) eqn:E; [|discriminate]. apply Nat.ltb_lt in E.
    destruct (oleb O (key O arr j0) a).
    - inversion H; subst. lia.
    - apply IH in H. lia.
  Qed.

  Lemma part_loop_inv a : forall fuel (arr : arrT) i j arr' i' j',
    part_loop O fuel arr a i j = Some (arr', i', j') ->
    length arr' = length arr /\ (forall x, cntp arr' x = cntp arr x) /\
    i < i' < length arr /\ j' < length arr /\ (forall k, k <= i -> aget O arr' k = aget O arr k).
  Proof.
    induction fuel as [|f IH]; intros arr i j arr' i' j' H; cbn [part_loop] in H; [discriminate|].
    destruct (scan_up O (length arr) arr a i) as [i1|] eqn:E1; [|discriminate].
    destruct (scan_down O (length arr) arr a j) as [j1|] eqn:E2; [|discriminate].
    apply scan_up_lt in E1. apply scan_down_lt in E2.
    destruct (j1 <? i1) eqn:C.
    - inversion H; subst. repeat split; auto; lia.
    - apply Nat.ltb_ge in C. apply IH in H as (L & Cn & Bi & Bj & K).
      rewrite swap_length in *. split; [exact L|]. split.
      + intros x. rewrite Cn. apply swap_cntp; lia.
      + split; [lia|]. split; [exact Bj|]. intros k Hk. rewrite K by lia. apply swap_aget_other; lia.
  Qed.

  Lemma cond_swap_inv (c : bool) (arr : arrT) i j : i < length arr -> j < length arr ->
    length (if c then swap O arr i j else arr) = length arr /\
    forall x, cntp (if c then swap O arr i j else arr) x = cntp arr x.
  Proof. intros. destruct c; [split; [apply swap_length|intros; apply swap_cntp; auto]|auto]. Qed.

  Lemma qs_loop_inv : forall fuel (arr : arrT) l ir stack res,
    ir < length arr -> Forall (fun s => snd s < length arr) stack ->
    qs_loop O fuel arr l ir stack = Some res ->
    length res = length arr /\ forall x, cntp res x = cntp arr x.
  Proof.
    induction fuel as [|f IH]; intros arr l ir stack res Hir Hst H; cbn [qs_loop] in H; [discriminate|].
    destruct (ir - l <? 7) eqn:Small.
    - destruct (insertion_inv arr l ir Hir) as [L C].
      destruct stack as [|[l' ir'] st].
      + inversion H; subst. auto.
      + inversion Hst as [|s0 st0 Hs Hst']; subst. cbn [snd] in Hs.
        apply IH in H.
        * destruct H as [L' C']. split; [congruence|]. intros x. rewrite C', C. reflexivity.
        * rewrite L. exact Hs.
        * rewrite L. exact Hst'.
    - apply Nat.ltb_ge in Small.
      set (k := Nat.div2 (l + ir)) in *.
      assert (Hk : k < length arr).
      { pose proof (Nat.div2_odd (l + ir)) as E. fold k in E. destruct (Nat.odd (l + ir)); cbn in E; lia. }
      assert (Hl1 : l + 1 < length arr) by lia. assert (Hl : l < length arr) by lia.
      set (arr1 := swap O arr k (l + 1)) in *.
      assert (I1 : length arr1 = length arr /\ forall x, cntp arr1 x = cntp arr x)
        by (split; [apply swap_length|intros; apply swap_cntp; auto]).
      destruct I1 as [L1 C1].
      set (arr2 := if oltb O (key O arr1 ir) (key O arr1 l) then swap O arr1 l ir else arr1) in *.
      destruct (cond_swap_inv (oltb O (key O arr1 ir) (key O arr1 l)) arr1 l ir) as [L2 C2]; try (rewrite L1; lia).
      fold arr2 in L2, C2.
      set (arr3 := if oltb O (key O arr2 ir) (key O arr2 (l + 1)) then swap O arr2 (l + 1) ir else arr2) in *.
      destruct (cond_swap_inv (oltb O (key O arr2 ir) (key O arr2 (l + 1))) arr2 (l + 1) ir) as [L3 C3];
        try (rewrite L2, L1; lia).
      fold arr3 in L3, C3.
      set (arr4 := if oltb O (key O arr3 (l + 1)) (key O arr3 l) then swap O arr3 l (l + 1) else arr3) in *.
      destruct (cond_swap_inv (oltb O (key O arr3 (l + 1)) (key O arr3 l)) arr3 l (l + 1)) as [L4 C4];
        try (rewrite L3, L2, L1; lia).
      fold arr4 in L4, C4.
      assert (L04 : length arr4 = length arr) by congruence.
      destruct (part_loop O (length arr4) arr4 (fst (aget O arr4 (l + 1))) (l + 1) ir) as [[[arr5 i] j]|] eqn:P;
        [|discriminate].
      apply part_loop_inv in P as (L5 & C5 & Bi & Bj & K).
      assert (E7 : set_nth (set_nth arr5 (l + 1) (aget O arr5 j)) j (aget O arr4 (l + 1)) = swap O arr5 (l + 1) j).
      { unfold swap. rewrite (K (l + 1)) by lia. reflexivity. }
      rewrite E7 in H.
      assert (L7 : length (swap O arr5 (l + 1) j) = length arr) by (rewrite swap_length; congruence).
      assert (C7 : forall x, cntp (swap O arr5 (l + 1) j) x = cntp arr x).
      { intros x. rewrite swap_cntp by (rewrite L5, L04; lia). rewrite C5, C4, C3, C2, C1. reflexivity. }
      destruct (32 <=? length stack); [discriminate|].
      destruct (j - l <=? ir - i + 1).
      + apply IH in H.
        * destruct H as [L' C']. split; [congruence|]. intros x. rewrite C', C7. reflexivity.
        * rewrite L7. lia.
        * constructor; [cbn [snd]; rewrite L7; lia|]. rewrite L7. exact Hst.
      + apply IH in H.
        * destruct H as [L' C']. split; [congruence|]. intros x. rewrite C', C7. reflexivity.
        * rewrite L7. lia.
        * constructor; [cbn [snd]; rewrite L7; lia|]. rewrite L7. exact Hst.
  Qed.

  Lemma quick_argsort_perm (col : list T) idx :
    quick_argsort O col = Some idx -> Permutation idx (seq 0 (length col)).
  Proof.
    unfold quick_argsort. destruct col as [|c0 ct] eqn:E; [discriminate|]. rewrite <- E. clear E c0 ct.
    set (n := length col).
    destruct (qs_loop O (2 * n + 2) (combine col (seq 0 n)) 0 (n - 1) []) as [res|] eqn:Q; [|discriminate].
    cbn [option_map]. intros H. inversion H; subst idx. clear H.
    assert (Hn : length (combine col (seq 0 n)) = n) by (rewrite combine_length, seq_length; unfold n; lia).
    destruct (Nat.eq_dec n 0) as [Z|NZ].
    { (* unreachable for non-empty col, but harmless *)
      unfold n in Z. apply length_zero_iff_nil in Z. subst col. cbn in Q.
      cbn in Q. inversion Q; subst. cbn. constructor. }
    apply qs_loop_inv in Q; [|rewrite Hn; lia|constructor].
    destruct Q as [L C]. apply (Permutation_count_occ Nat.eq_dec). intros x.
    specialize (C x). unfold cntp in C. rewrite C. unfold n. rewrite map_snd_combine_seq. reflexivity.
  Qed.
End SortProofs.
